"""C18 — filtering preserves the mean, the time axis and the pass band; linear; Fourier filter = projection.

P: coq/Props/C18.v (theorems over Model/Filter.v, all n / all data / all band edges)
G: utils.get_freqs on a table of (n, Fs) equals the model's grid (lengths exactly, values to tolerance)
K: seeded FilterAnalyzer / boxcar_filter runs.  The library kernels are wrapped in this process
   (scipy.signal.firwin / filtfilt / iirdesign record their arguments and results; fftpack.fft of the
   input and of the output is computed separately), and the Coq kernel evaluates the model on the
   recorded data: mask x spectrum, DC-restoration chains, the fir stage plan and tap inversion, the
   iir band specification, the output axis (bit-exact PrimFloat model of the interval), the boxcar.
oracle (search): the statement's checks in numpy on the implementation's results: axis attributes,
   mean per channel, linearity, FFT coefficients inside / outside the band by TRUE frequency,
   idempotence; FIR / IIR probe sinusoids (numerical tests only, labelled so in the evidence).
"""
import contextlib
import json
from fractions import Fraction

import numpy as np

from vt import core
from vt.core import Case, Fail, zlit, nlit, flit, blit, llit, zlist, flist, clist, olit

UCOQ = dict(ps="Ups", ns="Uns", us="Uus", ms="Ums", s="Us", m="Um", h="Uh", D="UD", W="UW")
METHODS = ["fourier", "fir", "iir", "boxcar"]
MCOQ = {"fourier": "MFourier", "iir": "MIir", "boxcar": "MBoxcar", "filtfilt": "MFiltfilt"}
K_ODD = "C18/filtered_fourier/odd-n-grid"
K_DELTA = "C18/output-axis/interval-beyond-float-rate"
K_IIR = "C18/iir/ba-form-ill-conditioned"
K_IIRSPEC = "C18/iir/stop-edge-inside-pass-band"


def fh(x):
    return float(x).hex()


def hf(s):
    return float.fromhex(s)


# ------------------------------------------------------------------ scenarios
SCALES = [0, 0, 0, 0, -60, -30, -10, 10, 40]     # data multiplied by 2**e (results scale exactly)


def make_data(rng, n, ch, scale_exp=None):
    """structured + random data; ch == 0 means a 1-d series"""
    rows = max(ch, 1)
    t = np.arange(n)
    out = []
    if scale_exp is None:
        scale_exp = rng.choice(SCALES)
    for _ in range(rows):
        off = rng.choice([0.0, 3.0, -20.0, 10.0, 0.5, 1.0e6, -4096.0])
        x = off + rng.choice([1.0, 0.25, 4.0]) * np.array([rng.gauss(0, 1) for _ in range(n)])
        for _k in range(rng.randint(0, 2)):
            f = rng.uniform(0.01, 0.49)
            x = x + rng.choice([1.0, 2.0]) * np.sin(2 * np.pi * f * t + rng.uniform(0, 6.28))
        if rng.random() < 0.1:
            x = x + 0.05 * t
        out.append(x)
    a = np.array(out) * 2.0 ** scale_exp
    return a[0] if ch == 0 else a


def data_json(a):
    a = np.asarray(a, dtype=float)
    return {"shape": list(a.shape), "v": [fh(v) for v in a.ravel()]}


def data_from(d):
    return np.array([hf(v) for v in d["v"]], dtype=float).reshape(d["shape"])


RATES = [2.0, 1.0, 0.5, 10.0, 100.0, 3.0, 250.0, 0.7, 1.2296039445694542, np.pi, 49.0, 7.3, 1.0 / 0.72, 123.456]
INTERVALS = [0.5, 0.81327, 2.0, 0.004, 1.5, 0.1, 0.72, 0.36, 1.0 / 3.0, 0.0123]


def gen_series(rng, nmin, nmax, odd=None):
    n = rng.randint(nmin, nmax)
    if odd is not None and (n % 2 == 1) != odd:
        n += 1
    ch = rng.choice([0, 1, 1, 2, 2, 3, 4])
    unit = rng.choice(["s", "s", "ms", "us"])
    t0 = rng.choice([0.0, 5.0, 1.25, 123.0, 0.004, 17.5])
    if rng.random() < 0.6:
        r = rng.choice(RATES)
        if rng.random() < 0.3:
            r = n / 8.0            # grid values k*Fs/n exactly representable
        spec = {"rate": fh(r)}
    else:
        spec = {"interval": fh(rng.choice(INTERVALS))}
    return {"n": n, "ch": ch, "unit": unit, "t0": fh(t0), "spec": spec, "data": data_json(make_data(rng, n, ch))}


VARIANTS = ["plain", "plain", "plain", "fortran", "strided", "uniformtime", "positional", "npscalars", "copied", "int64"]


def vary_array(d, variant):
    """the same values in an array that is laid out / derived differently"""
    d = np.asarray(d, dtype=float)
    if variant == "fortran" and d.ndim == 2:
        return np.asfortranarray(d)
    if variant == "strided":
        big = np.zeros(d.shape[:-1] + (2 * d.shape[-1],))
        big[..., ::2] = d
        return big[..., ::2]                 # non-contiguous view
    if variant == "int64" and np.all(d == np.round(d)) and np.all(np.abs(d) < 2.0 ** 52):
        return d.astype(np.int64)            # integer dtype (only when the values are whole numbers)
    if variant == "copied":
        return (d + 0).view(np.ndarray)[...]  # ufunc result, viewed
    return d


def build_series(sc, data=None):
    import nitime.timeseries as ts
    d = data_from(sc["data"]) if data is None else data
    variant = sc.get("variant", "plain")
    d = vary_array(d, variant)
    if variant == "uniformtime":
        # the same axis handed over as a UniformTime object
        kw0 = {"sampling_rate": hf(sc["spec"]["rate"])} if "rate" in sc["spec"] else \
              {"sampling_interval": hf(sc["spec"]["interval"])}
        ut = ts.UniformTime(length=d.shape[-1], t0=hf(sc["t0"]), time_unit=sc["unit"], **kw0)
        return ts.TimeSeries(d, time=ut, time_unit=sc["unit"])
    kw = {}
    if "rate" in sc["spec"]:
        kw["sampling_rate"] = hf(sc["spec"]["rate"])
    else:
        kw["sampling_interval"] = hf(sc["spec"]["interval"])
    return ts.TimeSeries(d, time_unit=sc["unit"], t0=hf(sc["t0"]), **kw)


def gen_band(rng, Fs, n, kind=None):
    """lb, ub (ub may be None) with 0 <= lb < ub <= Nyquist; edges on / between bins"""
    nyq = Fs / 2.0
    m = n // 2 + 1
    truegrid = [k * Fs / n for k in range(n // 2 + 1)]
    codegrid = list(np.linspace(0, Fs / 2, m))

    def edge():
        r = rng.random()
        if r < 0.3:
            return float(rng.choice(truegrid))
        if r < 0.5:
            return float(rng.choice(codegrid))
        if r < 0.8:
            k = rng.randint(0, max(0, len(truegrid) - 2))
            return float((truegrid[k] + truegrid[min(k + 1, len(truegrid) - 1)]) / 2)
        return rng.uniform(0, nyq)
    kind = kind or rng.choice(["low", "high", "band", "band", "all"])
    for _ in range(50):
        a, b = sorted([edge(), edge()])
        if kind == "low":
            lb, ub = 0.0, b
        elif kind == "high":
            lb, ub = a, rng.choice([None, "nyq"])
        elif kind == "all":
            lb, ub = 0.0, rng.choice([None, "nyq"])
        else:
            lb, ub = a, b
        ue = nyq if ub in (None, "nyq") else ub
        if 0 <= lb < ue <= nyq and (kind != "low" or ub > 0) and (kind != "high" or lb > 0) \
                and (kind != "band" or (lb > 0 and ub < nyq)):
            return lb, ub, kind
    return 0.0, None, "all"


def band_cfg(lb, ub):
    """cfg entries of a band; ub == "nyq": the upper edge is EXACTLY float(series.sampling_rate) / 2"""
    return {"lb": fh(lb), "ub": None if ub in (None, "nyq") else fh(ub), "ub_nyq": ub == "nyq"}


def ub_of(cfg, T):
    if cfg.get("ub_nyq"):
        return float(T.sampling_rate) / 2
    return None if cfg["ub"] is None else hf(cfg["ub"])


# ------------------------------------------------------------------ library boundary
@contextlib.contextmanager
def record():
    import scipy.signal as ss
    rec = {"firwin": [], "filtfilt": [], "iirdesign": []}
    o_firwin, o_filtfilt, o_iir = ss.firwin, ss.filtfilt, ss.iirdesign

    def firwin(numtaps, cutoff, *a, **k):
        r = o_firwin(numtaps, cutoff, *a, **k)
        rec["firwin"].append((int(numtaps), float(cutoff), np.array(r, dtype=float)))
        return r

    def filtfilt(b, a, x, *aa, **k):
        r = o_filtfilt(b, a, x, *aa, **k)
        rec["filtfilt"].append((np.array(b, dtype=float).ravel(), np.array(a, dtype=float).ravel(),
                                np.array(x, dtype=float), np.array(r, dtype=float)))
        return r

    def iirdesign(wp, ws, gpass, gstop, *a, **k):
        e = {"wp": np.atleast_1d(np.array(wp, dtype=float)), "ws": np.atleast_1d(np.array(ws, dtype=float)),
             "gpass": gpass, "gstop": gstop, "res": None}
        rec["iirdesign"].append(e)
        r = o_iir(wp, ws, gpass, gstop, *a, **k)
        e["res"] = (np.array(r[0], dtype=float), np.array(r[1], dtype=float))
        return r
    ss.firwin, ss.filtfilt, ss.iirdesign = firwin, filtfilt, iirdesign
    try:
        yield rec
    finally:
        ss.firwin, ss.filtfilt, ss.iirdesign = o_firwin, o_filtfilt, o_iir


def analyzer(T, cfg):
    from nitime.analysis import FilterAnalyzer
    ub = ub_of(cfg, T)
    lb = hf(cfg["lb"])
    variant = cfg.get("call", "keyword")
    if variant == "positional":
        return FilterAnalyzer(T, lb, ub, cfg.get("iters", 2), cfg.get("order", 8), cfg.get("gpass", 1),
                              cfg.get("gstop", 60), cfg.get("ftype", "ellip"), cfg.get("win", "hamming"))
    if variant == "npscalars":
        lb = np.float64(lb) if lb != 0 else 0            # python int 0, numpy scalars
        ub = None if ub is None else np.float64(ub)
    return FilterAnalyzer(T, lb=lb, ub=ub, boxcar_iterations=cfg.get("iters", 2),
                          filt_order=cfg.get("order", 8), gpass=cfg.get("gpass", 1), gstop=cfg.get("gstop", 60),
                          iir_ftype=cfg.get("ftype", "ellip"), fir_win=cfg.get("win", "hamming"))


def run_method(T, cfg, method):
    """-> (output TimeSeries | None, error class name | None, recording)"""
    with record() as rec:
        try:
            F = analyzer(T, cfg)
            if method.endswith("_after_fourier"):
                F.filtered_fourier          # with ub=None this stores self.ub = freqs[-1] (= Fs/2) on the analyzer
                rec["firwin"].clear(), rec["filtfilt"].clear(), rec["iirdesign"].clear()
            out = {"fourier": lambda: F.filtered_fourier, "fir": lambda: F.fir, "iir": lambda: F.iir,
                   "boxcar": lambda: F.filtered_boxcar}[method.split("_after_")[0]]()
            return out, None, rec
        except Exception as e:  # noqa
            return None, type(e).__name__, rec


def axis_of(T):
    return {"shape": [int(s) for s in T.data.shape], "delta": int(T.sampling_interval), "t0": int(T.t0),
            "unit": T.time_unit, "Fs": fh(float(T.sampling_rate))}


def rows(a):
    a = np.asarray(a, dtype=float)
    return [a] if a.ndim == 1 else [a[i] for i in range(a.shape[0])]


# ------------------------------------------------------------------ Coq terms
def tsin_coq(ax):
    return "(mk_tsin %s %s %s %s %s)" % (zlist(ax["shape"]), flit(hf(ax["Fs"])), zlit(ax["delta"]), zlit(ax["t0"]),
                                         UCOQ[ax["unit"]])


def axis_coq(ax):
    return "(mk_axis %s %s %s %s)" % (zlist(ax["shape"]), zlit(ax["delta"]), zlit(ax["t0"]), UCOQ[ax["unit"]])


def k_axis(mcoq, ain, aout):
    return "(KAxis %s %s %s)" % (mcoq, tsin_coq(ain), "None" if aout is None else "(Some %s)" % axis_coq(aout))


def k_chain(n, x, raws, out):
    return "(KChain %s %s %s %s)" % (nlit(n), flist(x), llit([flist(r) for r in raws]), flist(out))


def k_taps(hp, fw, b):
    return "(KTaps %s %s %s %s)" % (blit(hp), nlit(len(fw)), flist(fw), flist(b))


def exact_grid(Fs, n):
    m = n // 2 + 1
    F = Fraction(Fs)
    return [Fraction(0)] * m if m == 1 else [k * (F / 2) / (m - 1) for k in range(m)]


def fourier_robust(Fs, n, lb, ub):
    """float decisions of an independent linspace agree with the exact rational ones"""
    m = n // 2 + 1
    g = np.linspace(0, Fs / 2, m)
    e = exact_grid(Fs, n)
    ubf = g[-1] if ub is None else ub
    ube = e[-1] if ub is None else Fraction(ub)
    for k in range(m):
        if (g[k] < lb) != (e[k] < Fraction(lb)) or (g[k] > ubf) != (e[k] > ube):
            return False
    return True


def box_len_exact(f):
    q = 1 / (2 * Fraction(f))
    return -((-q.numerator) // q.denominator)


def box_robust(Fs, lb, ub):
    ok = True
    u = 1.0 if ub is None else ub / Fs
    ue = Fraction(1) if ub is None else Fraction(ub) / Fraction(Fs)
    ok &= int(np.ceil(1 / (2.0 * u))) == box_len_exact(ue)
    l = lb / Fs
    if l != 0:
        ok &= int(np.ceil(1 / (2.0 * l))) == box_len_exact(Fraction(lb) / Fraction(Fs))
    return bool(ok)


# ------------------------------------------------------------------ K cases of one scenario
def cases_of(sc):
    """run the implementation; -> (list of Case, results dict used by the oracle)"""
    from nitime.lazy import scipy_fftpack as fftpack
    T = build_series(sc)
    ain = axis_of(T)
    Fs = float(T.sampling_rate)
    cfg = sc["cfg"]
    lb = hf(cfg["lb"])
    ub = ub_of(cfg, T)
    n = sc["n"]
    xs = rows(T.data)
    out_cases = []
    res = {}
    par = "odd" if n % 2 else "even"

    def add(coq, kind, nontrivial=True):
        if sc.get("oracle_only"):
            return
        out_cases.append(Case(coq, {"scenario": sc, "kind": kind}, "%s/%s/%s" % (kind, sc["band"], par), nontrivial))

    for method in sc["methods"]:
        out, err, rec = run_method(T, cfg, method)
        res[method] = (out, err, rec)
        base = method.split("_after_")[0]
        # what the analyzer holds as ub when the method runs (filtered_fourier stores freqs[-1] = Fs/2 for ub=None)
        ub_m = (Fs / 2 if ub is None else ub) if "_after_" in method else ub
        aout = None if out is None else axis_of(out)
        ys = None if out is None else rows(out.data)
        if base == "fourier":
            add(k_axis("MFourier", ain, aout), "axis-fourier")
            if out is not None and len(ys) == len(xs) and fourier_robust(Fs, n, lb, ub):
                for x, y in zip(xs, ys):
                    add("(KFourier %s %s %s %s %s %s)" % (nlit(n), flit(Fs), flit(lb), olit(ub_m, flit),
                                                         clist(fftpack.fft(x)), clist(fftpack.fft(y))), "fourier")
        elif base == "fir":
            nst = len(rec["firwin"])
            if err == "ValueError" and nst == 0:
                add("(KFirPlan %s %s %s %s %s PErr)" % (flit(Fs), flit(lb), olit(ub_m, flit), nlit(cfg["order"]), nlit(n)),
                    "fir-plan", nontrivial=False)
            elif out is not None:
                add(k_axis("(MFir %s)" % nlit(nst), ain, aout), "axis-fir")
                ff = rec["filtfilt"]
                nch = len(xs)
                calls = []
                ok_struct = len(ff) == nst * nch
                for s in range(nst):
                    nt, cut, fw = rec["firwin"][s]
                    b = ff[s * nch][0] if ok_struct else fw
                    hp = not np.array_equal(b, fw)
                    calls.append("(%s, %s, %s)" % (blit(hp), nlit(nt), flit(cut)))
                    add(k_taps(hp, fw, b), "fir-taps")
                    if ok_struct:
                        add(k_taps(False, [1.0], ff[s * nch][1]), "fir-a")
                add("(KFirPlan %s %s %s %s %s (PCalls %s))" % (flit(Fs), flit(lb), olit(ub_m, flit), nlit(cfg["order"]),
                                                               nlit(n), llit(calls)), "fir-plan")
                if ok_struct and len(ys) == nch:
                    for c in range(nch):
                        raws = [ff[s * nch + c][3] for s in range(nst)]
                        for s in range(nst):
                            add(k_chain(n, xs[c], raws[:s], ff[s * nch + c][2]), "fir-stage-input")
                        add(k_chain(n, xs[c], raws, ys[c]), "fir-chain")
                else:
                    add("(KFirPlan %s %s %s %s %s PErr)" % (flit(Fs), flit(lb), olit(ub_m, flit), nlit(cfg["order"]), nlit(n)),
                        "fir-structure")   # deliberately disagreeing: call structure is not stage x channel
        elif base == "iir":
            if rec["iirdesign"]:
                e = rec["iirdesign"][0]
                add("(KIir %s %s %s (ICall %s %s))" % (flit(Fs), flit(lb), olit(ub_m, flit), flist(e["wp"]), flist(e["ws"])),
                    "iir-spec")
            elif err == "UnboundLocalError":
                add("(KIir %s %s %s IUnbound)" % (flit(Fs), flit(lb), olit(ub_m, flit)), "iir-spec", nontrivial=False)
            if out is not None:
                add(k_axis("MIir", ain, aout), "axis-iir")
                ff = rec["filtfilt"]
                e = rec["iirdesign"][0]
                if len(ff) == len(xs) == len(ys):
                    add(k_taps(False, e["res"][0], ff[0][0]), "iir-b")
                    add(k_taps(False, e["res"][1], ff[0][1]), "iir-a")
                    for c in range(len(xs)):
                        add(k_chain(n, xs[c], [], ff[c][2]), "iir-input")
                        add(k_chain(n, xs[c], [ff[c][3]], ys[c]), "iir-chain")
                else:
                    add("(KIir %s %s %s IUnbound)" % (flit(Fs), flit(lb), olit(ub_m, flit)), "iir-structure")
        elif base == "boxcar":
            if out is not None:
                add(k_axis("MBoxcar", ain, aout), "axis-boxcar")
            if box_robust(Fs, lb, ub) and (out is not None and len(ys) == len(xs) or err == "UnboundLocalError"):
                for c in range(len(xs)):
                    y = ys[c] if out is not None else []
                    add("(KBoxcar %s %s %s %s %s %s %s %s)" % (nlit(n), flit(Fs), flit(lb), olit(ub_m, flit),
                                                              nlit(cfg["iters"]), flist(xs[c]), flist(y),
                                                              blit(out is None)), "boxcar", nontrivial=out is not None)
    return out_cases, res


def boxfilter_case(rng, nmax):
    """boxcar_filter called directly"""
    import nitime.algorithms as tsa
    n = rng.randint(3, nmax)
    ch = rng.choice([0, 1, 2, 3])
    d = make_data(rng, n, ch)
    Lu = rng.choice([1, 1, 2, 3, 4, 5, 7])
    Ll = rng.choice([None, None, 2, 3, 5, 8, 12])
    ubf = 0.5 if Lu == 1 and rng.random() < 0.5 else 1.0 / (2 * (Lu - 0.5 + 0.4 * rng.random())) if Lu > 1 else 0.7
    lbf = 0.0 if Ll is None else 1.0 / (2 * (Ll - 0.5 + 0.4 * rng.random()))
    it = rng.choice([0, 1, 2, 2, 3, 4])
    sc = {"direct": True, "n": n, "data": data_json(d), "lbf": fh(lbf), "ubf": fh(ubf), "iters": it}
    return sc


def boxfilter_run(sc):
    import nitime.algorithms as tsa
    d = data_from(sc["data"])
    try:
        out = tsa.boxcar_filter(np.copy(d), lb=hf(sc["lbf"]), ub=hf(sc["ubf"]), n_iterations=sc["iters"])
        return out, None
    except Exception as e:  # noqa
        return None, type(e).__name__


def boxfilter_cases(sc):
    d = data_from(sc["data"])
    out, err = boxfilter_run(sc)
    cs = []
    lbf, ubf = hf(sc["lbf"]), hf(sc["ubf"])
    rob = int(np.ceil(1 / (2.0 * ubf))) == box_len_exact(ubf) and (lbf == 0 or int(np.ceil(1 / (2.0 * lbf))) == box_len_exact(lbf))
    if not rob or (err is not None and err != "UnboundLocalError"):
        return cs, (out, err)
    xs = rows(d)
    ys = rows(out) if out is not None else [[] for _ in xs]
    shape_ok = out is None or list(np.shape(out)) == list(d.shape)
    for x, y in zip(xs, ys):
        cs.append(Case("(KBoxFilter %s %s %s %s %s %s %s)" % (nlit(sc["n"]), flit(lbf), flit(ubf), nlit(sc["iters"]),
                                                             flist(x), flist(y if shape_ok else []), blit(out is None)),
                       {"scenario": sc, "kind": "boxfilter"}, "boxfilter/%s" % ("odd" if sc["n"] % 2 else "even"),
                       nontrivial=out is not None))
    return cs, (out, err)


def gen_filtfilt_scenario(rng, i):
    """FilterAnalyzer.filtfilt(b, a, in_ts=other): the public keyword replaces the analyzer's own series; the
    other series differs from it in channel count / 1-d vs 2-d, length, unit, t0, rate and means"""
    s1 = gen_series(rng, 30, 48)
    s2 = gen_series(rng, 30, 48)
    if i % 3 == 0:                      # same shape, everything else different: only the values tell them apart
        s2["n"], s2["ch"] = s1["n"], s1["ch"]
        s2["data"] = data_json(make_data(rng, s1["n"], s1["ch"]) + 100.0 * (1 + i % 5))
    b = [0.25, 0.5, 0.25] if rng.random() < 0.5 else [0.2, 0.2, 0.2, 0.2, 0.2]
    a = [1.0] if rng.random() < 0.5 else [1.0, -0.3]
    return {"filtfilt": True, "s1": s1, "s2": s2, "b": b, "a": a, "other": rng.random() < 0.8,
            "kw": rng.random() < 0.7}


def filtfilt_run(sc, data=None):
    """-> (filtered series | None, error class | None, recording, axis of the series that is filtered, its data)"""
    from nitime.analysis import FilterAnalyzer
    T1 = build_series(sc["s1"], data if not sc["other"] else None)
    T2 = build_series(sc["s2"], data if sc["other"] else None) if sc["other"] else None
    Tin = T2 if sc["other"] else T1
    ain, din = axis_of(Tin), np.array(Tin.data, dtype=float)
    with record() as rec:
        try:
            F = FilterAnalyzer(T1, lb=0, ub=None)
            if not sc["other"]:
                out = F.filtfilt(sc["b"], sc["a"])
            elif sc.get("kw", True):
                out = F.filtfilt(sc["b"], sc["a"], in_ts=T2)
            else:
                out = F.filtfilt(sc["b"], sc["a"], T2)
            return out, None, rec, ain, din
        except Exception as e:  # noqa
            return None, type(e).__name__ + ": " + str(e)[:200], rec, ain, din


def filtfilt_cases(sc, run):
    out, err, rec, ain, din = run
    cs = []
    if out is None:
        return cs
    tag = "in_ts" if sc["other"] else "own"
    cs.append(Case(k_axis("MFiltfilt", ain, axis_of(out)), {"scenario": sc, "kind": "axis-filtfilt"},
                   "axis-filtfilt/%s/%s" % (tag, ain["unit"])))
    xs, ys = rows(din), rows(out.data)
    if len(xs) == len(ys) == len(rec["filtfilt"]):
        for c, (x, y) in enumerate(zip(xs, ys)):
            cs.append(Case(k_chain(len(x), x, [], rec["filtfilt"][c][2]), {"scenario": sc, "kind": "filtfilt-input"},
                           "filtfilt-input/%s" % tag))
            cs.append(Case(k_chain(len(x), x, [rec["filtfilt"][c][3]], y), {"scenario": sc, "kind": "filtfilt-chain"},
                           "filtfilt-chain/%s" % tag))
    else:   # deliberately disagreeing: not one library call per channel of the series that is filtered
        cs.append(Case(k_chain(1, [0.0], [], [1.0]), {"scenario": sc, "kind": "filtfilt-structure"}, "filtfilt-structure"))
    return cs


def filtfilt_oracle(sc, run=None):
    """statement checks for filtfilt(b, a[, in_ts]): the series that is FILTERED (in_ts when given) keeps its
    shape / interval / t0 / unit and its channel means, and the map data -> output is linear"""
    run = run or filtfilt_run(sc)
    out, err, rec, ain, din = run
    tag = "in_ts" if sc["other"] else "own"
    if out is None:
        return [Fail("C18/filtfilt/raises", "FilterAnalyzer.filtfilt(b, a%s) raised %s" % (
            ", in_ts=other" if sc["other"] else "", err), err, "a filtered series")]
    fails = []
    ao = axis_of(out)
    for att in ("shape", "t0", "unit", "delta"):
        if ain[att] != ao[att] and not (att == "delta" and ain["delta"] >= 2 ** 53):
            fails.append(Fail("C18/filtfilt/axis-%s" % att, "FilterAnalyzer.filtfilt (%s): output %s differs from that of the "
                              "series that was filtered" % (tag, att), ao[att], ain[att]))
    if ao["shape"] != ain["shape"]:
        return fails
    sc_ = scale_of(din)
    dm = np.abs(np.mean(out.data, -1) - np.mean(din, -1))
    if np.max(dm) > 1e-9 * sc_:
        fails.append(Fail("C18/filtfilt/mean", "FilterAnalyzer.filtfilt (%s) changed a channel mean of the filtered series" % tag,
                          [float(v) for v in np.atleast_1d(np.mean(out.data, -1))],
                          [float(v) for v in np.atleast_1d(np.mean(din, -1))]))
    z = (np.cos(0.37 * np.arange(din.size).reshape(din.shape) ** 1.3) + 1.0) * sc_
    a_, b_ = 1.5, -0.75
    o2 = filtfilt_run(sc, z)[0]
    o3 = filtfilt_run(sc, a_ * din + b_ * z)[0]
    if o2 is None or o3 is None:
        fails.append(Fail("C18/filtfilt/raises", "FilterAnalyzer.filtfilt (%s) raised on other data of the same shape" % tag,
                          None, "a filtered series"))
    else:
        d = float(np.max(np.abs(o3.data - (a_ * out.data + b_ * o2.data))))
        if d > 1e-7 * sc_:
            fails.append(Fail("C18/filtfilt/linearity", "FilterAnalyzer.filtfilt (%s) is not linear in the data it filters" % tag,
                              d, 0.0))
    return fails


# ------------------------------------------------------------------ the oracle (statement checks, numpy)
def scale_of(a):
    """magnitude of the data: every tolerance of the oracle is relative to it (no absolute floor)"""
    m = float(np.max(np.abs(a)))
    return m if m > 0 else 1.0


def true_band_fail(x, y, Fs, lb, ub, coded=False, ties=True):
    """FFT coefficients of one channel by TRUE frequency (coded=True: by the frequency the odd-n grid of
    get_freqs attributes to the bin, used only to recognise the known finding);
    -> None | (bin, what, observed, required)"""
    n = len(x)
    X, Y = np.fft.fft(x), np.fft.fft(y)
    tol = 1e-7 * (float(np.max(np.abs(X))) or 1.0)
    F = Fraction(Fs)
    lbq = Fraction(lb)
    ubq = F / 2 if ub is None else Fraction(ub)
    if abs(Y[0] - X[0]) > tol:
        return (0, "DC coefficient changed", complex(Y[0]), complex(X[0]))
    eps = F / 10 ** 9          # an edge within float rounding of a bin frequency decides nothing
    for j in range(1, n):
        tf = min(j, n - j) * F / (n - 1 if coded and n % 2 == 1 and n > 1 else n)
        if 0 < abs(tf - lbq) <= eps or 0 < abs(tf - ubq) <= eps:
            continue               # (an edge exactly ON a bin frequency does decide: the band is closed)
        if (tf == lbq or tf == ubq) and not ties:
            continue               # the series' own float rate is not the scenario's: the tie is below float resolution
        if (tf == lbq or tf == ubq) and not coded:
            # ... provided float64 can tell: the bin frequency k*step evaluated in floats (an independent
            # np.linspace) must be the exact value, otherwise the tie is below float resolution
            h = min(j, n - j)
            gf = float(np.linspace(0, Fs / 2, n // 2 + 1)[h]) if n % 2 == 0 else h * Fs / n
            if Fraction(gf) != tf:
                continue
        if lbq <= tf <= ubq:
            if abs(Y[j] - X[j]) > tol:
                return (j, "bin inside the band (true frequency %s) is not kept" % float(tf), abs(Y[j]), abs(X[j]))
        elif abs(Y[j]) > tol:
            return (j, "bin outside the band (true frequency %s) is not nulled" % float(tf), abs(Y[j]), 0.0)
    return None


def iir_ba_rounding(T, cfg, rec):
    """size (relative to the data) of the rounding error of the transfer-function (b, a) realisation that
    FilterAnalyzer.iir uses: the same design realised as second-order sections is the reference"""
    import scipy.signal as ss
    if not rec["iirdesign"] or rec["iirdesign"][0]["res"] is None:
        return 0.0
    e = rec["iirdesign"][0]
    wp = e["wp"] if len(e["wp"]) > 1 else float(e["wp"][0])
    ws = e["ws"] if len(e["ws"]) > 1 else float(e["ws"][0])
    try:
        sos = ss.iirdesign(wp, ws, e["gpass"], e["gstop"], ftype=cfg.get("ftype", "ellip"), output="sos")
        b, a = e["res"]
        worst = 0.0
        for x in rows(T.data):
            pad = 3 * max(len(a), len(b))
            y1 = ss.filtfilt(b, a, x)
            y2 = ss.sosfiltfilt(sos, x, padlen=pad)
            if not (np.all(np.isfinite(y1)) and np.all(np.isfinite(y2))):
                return float("inf")
            worst = max(worst, float(np.max(np.abs(y1 - y2))))
        return worst / scale_of(T.data)
    except Exception:  # noqa
        return 0.0


def iir_ill_conditioned(T, cfg, rec, extra=()):
    """the known class C18/iir/ba-form-ill-conditioned: the rounded denominator iirdesign returned has a root on or
    outside the unit circle, or the (b, a) realisation differs from the second-order-section realisation of the
    same design by more than 1e-6 of the data scale (on the data of the case or on `extra` data sets)"""
    try:
        if rec["iirdesign"] and rec["iirdesign"][0]["res"] is not None:
            a = rec["iirdesign"][0]["res"][1]
            if len(a) > 1 and float(np.max(np.abs(np.roots(a)))) >= 1 - 1e-9:
                return True
    except Exception:  # noqa
        pass
    if iir_ba_rounding(T, cfg, rec) > 1e-6:
        return True
    for d in extra:
        import nitime.timeseries as ts
        if iir_ba_rounding(ts.TimeSeries(d, sampling_rate=1.0), cfg, rec) > 1e-6:
            return True
    return False


def iir_spec_flipped(rec, lb, ub_is_nyq):
    """nitime's fixed clamps put the stop edge inside the pass band (scipy then designs the opposite type)"""
    if not rec["iirdesign"]:
        return False
    e = rec["iirdesign"][0]
    if len(e["wp"]) != 1:
        return bool(e["ws"][0] >= e["wp"][0] or e["ws"][1] <= e["wp"][1])
    wp, ws = float(e["wp"][0]), float(e["ws"][0])
    return (ws >= wp) if (lb > 0 and ub_is_nyq) else (ws <= wp)


def oracle(sc, res=None):
    """-> list of Fail"""
    fails = []
    T = build_series(sc)
    cfg = sc["cfg"]
    Fs = spec_rate_hz(sc)          # from the scenario, not from the library object
    lb = hf(cfg["lb"])
    ub = ub_of(cfg, T)
    ain = axis_of(T)
    n = sc["n"]
    ties = float(T.sampling_rate) == Fs      # only then can an edge given as k*Fs/n coincide with a bin exactly
    ub_is_nyq = ub is None or bool(cfg.get("ub_nyq")) or ub == Fs / 2
    allpass = lb == 0 and ub_is_nyq
    if res is None:
        res = {m: run_method(T, cfg, m) for m in sc["methods"]}
    for full_method in sc["methods"]:
        out, err, rec = res[full_method]
        method = full_method.split("_after_")[0]
        numkey = None
        site = {"fourier": "filtered_fourier", "fir": "fir", "iir": "iir", "boxcar": "filtered_boxcar"}[method]
        if full_method != method:
            site += "(after filtered_fourier)"
        if out is None:
            expected_err = (method == "iir" and allpass) or \
                           (method == "fir" and cfg["order"] + 1 > 3 * n) or \
                           (method == "boxcar" and cfg["iters"] == 0)
            key = "C18/%s/raises" % site
            if method == "iir" and not expected_err and rec["iirdesign"]:
                e = rec["iirdesign"][0]
                if err == "ValueError" and e["res"] is not None and n <= 3 * max(len(e["res"][0]), len(e["res"][1])):
                    expected_err = True      # scipy.signal.filtfilt's own precondition: len(x) > padlen
                elif e["res"] is None and iir_spec_flipped(rec, lb, ub_is_nyq) and \
                        not (lb > 0 and ub_is_nyq and len(e["wp"]) != 1):
                    key = K_IIRSPEC          # the known clamp defect makes iirdesign reject the specification
            # an admissible band (0 <= lb < ub <= Nyquist, not all-pass) must not raise
            if not expected_err:
                fails.append(Fail(key, "%s raised %s for lb=%r ub=%r (Nyquist %r)" % (site, err, lb, ub, Fs / 2), err,
                                  "a filtered series"))
            continue
        if method == "fir" and n <= 3 * (cfg["order"] + 1):
            continue
        ao = axis_of(out)
        for att in ("shape", "t0", "unit", "delta"):
            if ao[att] != ain[att]:
                key = "C18/%s/axis-%s" % (site, att)
                if att == "delta" and "interval" in sc["spec"] and ain["delta"] >= 2 ** 53:
                    key = K_DELTA
                fails.append(Fail(key, "%s: output %s differs from the input's" % (site, att), ao[att], ain[att]))
        if ao["shape"] != ain["shape"]:
            continue
        xs, ys = rows(T.data), rows(out.data)
        sc_ = scale_of(T.data)
        for c, (x, y) in enumerate(zip(xs, ys)):
            if abs(np.mean(y) - np.mean(x)) > 1e-9 * sc_:
                if method == "iir" and iir_ill_conditioned(T, cfg, rec):
                    numkey = K_IIR
                fails.append(Fail(numkey or "C18/%s/mean" % site, "%s: mean of channel %d changed" % (site, c),
                                  float(np.mean(y)), float(np.mean(x))))
                break
        # linearity: f(a x + b z) = a f(x) + b f(z), z a deterministic second data set
        z = (np.cos(0.37 * np.arange(T.data.size).reshape(T.data.shape) ** 1.3) + 1.0) * sc_
        a_, b_ = 1.5, -0.75
        o2, e2 = run_method(build_series(sc, z), cfg, full_method)[:2]
        o3, e3 = run_method(build_series(sc, a_ * T.data + b_ * z), cfg, full_method)[:2]
        if o2 is not None and o3 is not None:
            d = np.max(np.abs(o3.data - (a_ * out.data + b_ * o2.data)))
            # elliptic / Chebyshev recursions in (b, a) form amplify rounding: looser for iir
            if d > (1e-3 if method == "iir" else 1e-7) * sc_:
                if method == "iir" and iir_ill_conditioned(T, cfg, rec, extra=(z, a_ * T.data + b_ * z)):
                    numkey = K_IIR
                fails.append(Fail(numkey or "C18/%s/linearity" % site, "%s is not linear in the data" % site, float(d), 0.0))
        # an upper edge exactly at Nyquist (given explicitly, or left behind by filtered_fourier) is no upper edge:
        # fir / iir must return what they return for ub=None
        if method in ("fir", "iir") and ub_is_nyq and (ub is not None or full_method != method):
            cfg0 = dict(cfg, ub=None, ub_nyq=False)
            o5 = run_method(build_series(sc), cfg0, method)[0]
            if o5 is not None and o5.data.shape == out.data.shape:
                d = float(np.max(np.abs(o5.data - out.data)))
                if d > 1e-9 * sc_:
                    fails.append(Fail("C18/%s/nyquist-vs-none" % site, "%s with ub = Nyquist differs from %s with ub = None" % (site, method),
                                      d, 0.0))
        if method == "fourier":
            for c, (x, y) in enumerate(zip(xs, ys)):
                r = true_band_fail(x, y, Fs, lb, ub, ties=ties)
                if r is not None:
                    # known finding only when the output is exactly what the mislabelled odd-n grid explains
                    key = "C18/filtered_fourier/band"
                    if n % 2 == 1 and all(true_band_fail(x2, y2, Fs, lb, ub, coded=True, ties=ties) is None
                                          for x2, y2 in zip(xs, ys)):
                        key = K_ODD
                    fails.append(Fail(key, "filtered_fourier n=%d Fs=%r lb=%r ub=%r channel %d bin %d: %s" % (
                        n, Fs, lb, ub, c, r[0], r[1]), r[2], r[3]))
                    break
            # filtering twice = filtering once
            o4, e4 = run_method(build_series(sc, out.data), cfg, method)[:2]
            if o4 is not None:
                d = np.max(np.abs(o4.data - out.data))
                if d > 1e-8 * sc_:
                    fails.append(Fail("C18/filtered_fourier/idempotence", "filtering twice differs from filtering once",
                                      float(d), 0.0))
    return fails


# ------------------------------------------------------------------ FIR / IIR design probes (numerical tests)
def probe_run(method, cfg, f, n=600, Fs=1.0):
    import nitime.timeseries as ts
    t = np.arange(n) / Fs
    x = np.sin(2 * np.pi * f * t) + 7.0
    T = ts.TimeSeries(x, sampling_rate=Fs)
    out, err, rec = run_method(T, cfg, method)
    if out is None:
        return None, rec
    y = out.data
    sl = slice(n // 4, 3 * n // 4)
    A = np.stack([np.sin(2 * np.pi * f * t[sl]), np.cos(2 * np.pi * f * t[sl]), np.ones(sl.stop - sl.start)], 1)
    co = np.linalg.lstsq(A, y[sl], rcond=None)[0]
    return (float(np.hypot(co[0], co[1])), float(np.arctan2(co[1], co[0]))), rec


def probe_gain_phase(method, cfg, f):
    return probe_run(method, cfg, f)[0]


def probe_ok(method, where, r):
    if r is None or not np.all(np.isfinite(r)):
        return False
    if where == "inside":
        return bool((abs(r[0] - 1) < 0.05 if method == "fir" else 0.75 < r[0] < 1.05) and abs(r[1]) < 0.05)
    return bool(r[0] < 0.05)


def design_probes(ctx):
    """pass-band gain ~ 1, zero phase, stop-band attenuation: properties of scipy's designs, TESTED only"""
    settings = [("low", 0.0, 0.2, [0.05, 0.1], [0.35, 0.45], ("fir", "iir")),
                ("high", 0.25, None, [0.4, 0.45], [0.05, 0.1], ("fir", "iir")),
                ("band", 0.15, 0.3, [0.2, 0.25], [0.03, 0.45], ("fir", "iir")),
                # band edges where iir's fixed stop-band clamps (0.1 / 0.9 of Nyquist) apply
                ("high", 0.04, None, [0.25], [], ("iir",)),
                ("low", 0.0, 0.475, [0.2], [], ("iir",))]
    if not ctx.quick:
        settings += [("low", 0.0, 0.1, [0.03], [0.3], ("fir", "iir")), ("band", 0.2, 0.4, [0.3], [0.05], ("fir", "iir"))]
    results = []
    for kind, lb, ub, inside, outside, methods in settings:
        for method in methods:
            cfg = {"lb": fh(lb), "ub": None if ub is None else fh(ub), "order": 64, "iters": 2}
            for where, fs in (("inside", inside), ("outside", outside)):
                for f in fs:
                    r, rec = probe_run(method, cfg, f)
                    ok = probe_ok(method, where, r)
                    results.append({"method": method, "band": kind, "lb": lb, "ub": ub, "f": f, "where": where,
                                    "gain_phase": r, "ok": ok})
                    if not ok:
                        key = "C18/%s/design-probe" % method
                        if method == "iir" and iir_spec_flipped(rec, lb, ub is None):
                            key = K_IIRSPEC
                        ctx.report_fail(Fail(key, "%s %s-pass [%s,%s] at Fs=1: sinusoid at %s Hz %s the band" % (
                            method, kind, lb, ub, f, where), r,
                            "gain ~ 1, phase ~ 0" if where == "inside" else "gain < 0.05"),
                            Case("", {"probe": {"method": method, "cfg": cfg, "f": f, "where": where}}))
    return results


# ------------------------------------------------------------------ G: get_freqs table
HEADER = ("From Coq Require Import QArith ZArith List Bool Arith PrimFloat.\n"
          "From NT Require Import F2Z Lists Close QC TimeArray Filter C18K.\nImport ListNotations.\n"
          "Open Scope Z_scope.\n")


def gen_grid_table():
    import nitime.utils as tsu
    ent = []
    for n in list(range(1, 34)) + [63, 64, 127, 128]:
        for Fs in (1.0, 2.0, 0.7, 250.0):
            g = np.asarray(tsu.get_freqs(Fs, n), dtype=float)
            ent.append("(%s, %s, %s)" % (nlit(n), flit(Fs), flist(g)))
    src = HEADER + "Definition gen_grid : list (nat * float * list float) := %s.\n" % llit(ent)
    src += ("Definition grid_row_ok (r : nat * float * list float) : bool :=\n"
            "  match r with (n, Fs, l) => (length l =? glen n)%nat &&\n"
            "    all2 qclose (tab (grid (f2q Fs) n) (glen n)) (qs l) end.\n"
            "Lemma get_freqs_is_model_grid : forallb grid_row_ok gen_grid = true.\n"
            "Proof. vm_compute. reflexivity. Qed.\n")
    return src


# ------------------------------------------------------------------ generator
def gen_scenario(rng, nmax, i):
    r = rng.random()
    odd = None if r < 0.5 else (i % 2 == 1)
    s = gen_series(rng, 41, nmax, odd)
    Fs = spec_rate_hz(s)
    lb, ub, kind = gen_band(rng, Fs, s["n"])
    order = rng.choice([2, 4, 6, 8, 8, 10, 12])
    s["cfg"] = {**band_cfg(lb, ub), "order": order,
                "iters": rng.choice([1, 2, 2, 3, 4]), "win": rng.choice(["hamming", "hamming", "hann", "blackman"]),
                "ftype": rng.choice(["ellip", "ellip", "butter", "cheby1"])}
    s["band"] = kind
    s["methods"] = list(METHODS)
    v = rng.choice(VARIANTS)
    if v in ("positional", "npscalars"):
        s["cfg"]["call"] = v
    elif v != "plain":
        s["variant"] = v
    if v == "int64":                          # whole-number data, handed over with an integer dtype
        d = data_from(s["data"])
        m = float(np.max(np.abs(d))) or 1.0
        s["data"] = data_json(np.round(d / m * 1000.0))
    return s


UFACT = {"s": 1.0, "ms": 1e-3, "us": 1e-6}


def spec_rate_hz(sc):
    """sampling rate in Hz from the scenario itself (not read back from the library object)"""
    if "rate" in sc["spec"]:
        return hf(sc["spec"]["rate"])
    return 1.0 / (hf(sc["spec"]["interval"]) * UFACT[sc["unit"]])


def large_scenarios(rng, sizes, kcase_sizes=()):
    """the quantifier has no upper bound on the length: lengths just above powers of two, primes, a few
    thousand samples; checked by the statement oracle (numpy), too large for exact Q evaluation.
    `kcase_sizes`: mid-size series with integer-valued data that also go through K."""
    out = []
    for n in list(sizes) + list(kcase_sizes):
        k = n in kcase_sizes
        ch = rng.choice([0, 1, 2]) if not k else 1
        unit = rng.choice(["s", "ms", "us"])
        rate = rng.choice([1.0, 2.0, 250.0, 0.5]) if not k else n / 8.0
        spec = {"rate": fh(rate)} if rng.random() < 0.7 or k else {"interval": fh(rng.choice([0.5, 0.004, 2.0]))}
        if k:
            d = np.array([[float(rng.randint(-9, 9)) for _ in range(n)]])
        else:
            d = make_data(rng, n, ch)
        sc = {"n": n, "ch": ch, "unit": unit, "t0": fh(rng.choice([5.0, 1.25, 123.0])), "spec": spec,
              "data": data_json(d)}
        Fs = spec_rate_hz(sc)
        kind = rng.choice(["low", "high", "band"])
        lo, hi = sorted([rng.uniform(0.15, 0.8), rng.uniform(0.15, 0.8)])
        if hi - lo < 0.1:
            hi = min(0.85, lo + 0.2)
        if rng.random() < 0.5:                       # edges exactly on bins of the true grid
            lo = round(lo * (n // 2)) / (n // 2)
            hi = round(hi * (n // 2)) / (n // 2)
        lb, ub = {"low": (0.0, hi * Fs / 2), "high": (lo * Fs / 2, None), "band": (lo * Fs / 2, hi * Fs / 2)}[kind]
        sc["cfg"] = {"lb": fh(lb), "ub": None if ub is None else fh(ub), "order": rng.choice([8, 64, 128]) if not k else 8,
                     "iters": rng.choice([1, 2, 3]), "win": "hamming", "ftype": "ellip"}
        sc["band"] = kind
        sc["methods"] = list(METHODS) if not k else ["fourier", "boxcar", "fir"]
        if not k:
            sc["oracle_only"] = True
            v = rng.choice(VARIANTS)
            if v in ("positional", "npscalars"):
                sc["cfg"]["call"] = v
            elif v != "plain":
                sc["variant"] = v
        out.append(sc)
    return out


def boundary_scenarios(rng, reps=1):
    """band edges exactly on the boundary values the statement allows (lb = 0, ub = Nyquist exactly, ub = None,
    ub = None after filtered_fourier stored Fs/2) crossed with sampling rates / intervals whose reciprocal is
    inexact in binary64; fir and iir"""
    specs = [{"rate": fh(49.0)}, {"interval": fh(0.72)}, {"interval": fh(0.36)}, {"interval": fh(1.0 / 3.0)},
             {"rate": fh(7.3)}, {"rate": fh(123.456)}, {"rate": fh(1.0 / 0.72)}, {"interval": fh(0.0123)}]
    out = []
    for _ in range(reps):
        specs2 = specs + [{"rate": fh(rng.uniform(0.3, 300.0))}, {"interval": fh(rng.uniform(0.003, 3.0))}]
        for i, spec in enumerate(specs2):
            for kind in ("high-nyq", "high-none", "high-after-fourier", "low", "all-nyq", "band"):
                n = rng.choice([50, 51, 60, 63])
                ch = rng.choice([0, 1, 2])
                sc = {"n": n, "ch": ch, "unit": "s" if "interval" in spec else rng.choice(["s", "ms"]),
                      "t0": fh(rng.choice([0.0, 5.0, 1.25])), "spec": spec, "data": data_json(make_data(rng, n, ch, 0))}
                Fs = spec_rate_hz(sc)
                lo = rng.uniform(0.25, 0.45) * Fs / 2
                hi = rng.uniform(0.55, 0.8) * Fs / 2
                lb, ub = {"high-nyq": (lo, "nyq"), "high-none": (lo, None), "high-after-fourier": (lo, None),
                          "low": (0.0, hi), "all-nyq": (0.0, "nyq"), "band": (lo, hi)}[kind]
                sc["cfg"] = {**band_cfg(lb, ub), "order": rng.choice([4, 8]), "iters": 2, "win": "hamming", "ftype": "ellip"}
                sc["band"] = kind
                sc["methods"] = ["fir_after_fourier", "iir_after_fourier"] if kind == "high-after-fourier" else ["fir", "iir"]
                out.append(sc)
    return out


def special_scenarios(rng):
    out = []
    # short series: only the Fourier filter and the boxcar apply (fir / iir need 3 (order + 1) samples)
    for n in [3, 4, 5, 6, 7, 8, 9, 10, 11, 12, 13, 15, 16, 17, 21, 24, 25, 31, 32, 33]:
        for _ in range(2):
            s = gen_series(rng, n, n)
            s["n"] = n
            s["data"] = data_json(make_data(rng, n, s["ch"]))
            Fs = spec_rate_hz(s)
            lb, ub, kind = gen_band(rng, Fs, n)
            s["cfg"] = {**band_cfg(lb, ub), "order": 2, "iters": rng.choice([1, 2, 3])}
            s["band"] = kind
            s["methods"] = ["fourier", "boxcar"]
            out.append(s)
    # fir: filter order too large for the series (ValueError branch), boxcar with zero iterations
    s = gen_series(rng, 12, 12)
    s["n"] = 12
    s["data"] = data_json(make_data(rng, 12, s["ch"]))
    s["cfg"] = {"lb": fh(0.0), "ub": fh(0.1 * spec_rate_hz(s)), "order": 40, "iters": 2}
    s["band"] = "low"
    s["methods"] = ["fir"]
    out.append(s)
    s = gen_series(rng, 44, 44)
    s["cfg"] = {"lb": fh(0.0), "ub": fh(0.2 * spec_rate_hz(s)), "order": 4, "iters": 0}
    s["band"] = "low"
    s["methods"] = ["boxcar"]
    out.append(s)
    # a stored interval the float rate cannot reproduce (known finding, root in the TimeSeries constructor)
    s = {"n": 44, "ch": 2, "unit": "s", "t0": fh(0.0), "spec": {"interval": fh(100000.0)},
         "data": data_json(make_data(rng, 44, 2))}
    s["cfg"] = {"lb": fh(0.0), "ub": fh(0.2 / 100000.0), "order": 4, "iters": 2}
    s["band"] = "low"
    s["methods"] = list(METHODS)
    out.append(s)
    return out


def corpus():
    p = core.VERIF / "harness" / "corpus" / "C18"
    out = []
    if p.exists():
        for f in sorted(p.glob("*.json")):
            out.append(json.loads(f.read_text())["scenario"])
    return out


def run(ctx):
    core.import_nitime()
    ctx.check_props()
    try:
        ctx.check_gen("G_grid", gen_grid_table(), ["get_freqs_is_model_grid"])
    except Exception as e:  # noqa
        ctx.obligation("G", "G_grid.v:get_freqs_is_model_grid", False, "utils.get_freqs raised %r" % (e,))
        ctx.report_fail(Fail("C18/get_freqs/unexpected-exception", "utils.get_freqs raised %r on (Fs, n) of the table" % (e,),
                             repr(e), "the frequency grid"), Case("", {"entry_point": "nitime.utils.get_freqs"}))
    rng = ctx.rng
    nmax = ctx.scale(64, 128)
    big = [1024, 1025, 2049, 4097, 1031, 3000, 4096] + ([] if ctx.quick else [8193, 16385, 10007, 2048, 5000, 997])
    scen = corpus() + special_scenarios(rng) + boundary_scenarios(rng, ctx.scale(1, 4)) + \
        large_scenarios(rng, big, kcase_sizes=(257, 258)) + \
        [gen_scenario(rng, nmax, i) for i in range(ctx.scale(60, 320))]
    cases, results = [], []

    def crashed(site, sc, e):
        """an unexpected exception out of the implementation (or of the driver on its results) on an input the
        unchanged tree handles is a concrete failing input, never a harness crash"""
        import traceback
        ctx.report_fail(Fail("C18/%s/unexpected-exception" % site, "%s raised %s: %s" % (site, type(e).__name__, str(e)[:300]),
                             traceback.format_exc()[-1500:], "a result (the unchanged tree returns one)",
                             {"scenario": sc}), Case("", {"scenario": sc}))

    for s in scen:
        try:
            cs, res = cases_of(s)
        except Exception as e:  # noqa
            crashed("FilterAnalyzer", s, e)
            continue
        cases += cs
        results.append((s, res, cs))
        if s.get("oracle_only"):
            for m in s["methods"]:
                ctx.count_case(Case("oracle-only %s n=%d %s" % (m, s["n"], s["data"]["v"][0]), {"scenario": "large"},
                                    "oracle-only/%s/n>=1024" % m, nontrivial=res[m][0] is not None))
    direct = []
    for i in range(ctx.scale(120, 800)):
        sc = boxfilter_case(rng, ctx.scale(40, 120))
        try:
            cs, r = boxfilter_cases(sc)
        except Exception as e:  # noqa
            crashed("boxcar_filter", sc, e)
            continue
        cases += cs
        direct.append((sc, r, cs))
    ffd = []
    for i in range(ctx.scale(30, 240)):
        sc = gen_filtfilt_scenario(rng, i)
        try:
            r = filtfilt_run(sc)
            cs = filtfilt_cases(sc, r)
        except Exception as e:  # noqa
            crashed("filtfilt", sc, e)
            continue
        cases += cs
        ffd.append((sc, r, cs))
    bad = ctx.check_cases("K", HEADER, cases, "check", shard=ctx.scale(120, 250), case_type="case")
    badset = {id(cases[i]) for i in bad}
    # ---- search: the statement's checks on the implementation's results
    for s, res, cs in results:
        rep = next((c for c in cs if id(c) in badset), cs[0] if cs else Case("", {"scenario": s}))
        try:
            fl = oracle(s, res)
        except Exception as e:  # noqa
            crashed("FilterAnalyzer", s, e)
            continue
        for f in fl:
            f.replay = {"entry_point": "nitime.analysis.FilterAnalyzer", "scenario": s,
                        "model_disagrees": any(id(c) in badset for c in cs)}
            ctx.report_fail(f, rep)
    for sc, (out, err), cs in direct:
        d = data_from(sc["data"])
        if out is not None and list(np.shape(out)) != list(d.shape):
            ctx.report_fail(Fail("C18/boxcar_filter/shape", "boxcar_filter changed the shape of its input",
                                 list(np.shape(out)), list(d.shape), {"scenario": sc}), cs[0] if cs else None)
        if out is None and sc["iters"] != 0:
            ctx.report_fail(Fail("C18/boxcar_filter/raises", "boxcar_filter raised %s" % err, err, "a filtered array",
                                 {"scenario": sc}), cs[0] if cs else None)
    for sc, r, cs in ffd:
        try:
            fl = filtfilt_oracle(sc, r)
        except Exception as e:  # noqa
            crashed("filtfilt", sc, e)
            continue
        for f in fl:
            f.replay = {"entry_point": "nitime.analysis.FilterAnalyzer.filtfilt", "scenario": sc}
            ctx.report_fail(f, cs[0] if cs else Case("", {"scenario": sc}))
    try:
        probes = design_probes(ctx)
    except Exception as e:  # noqa
        crashed("design-probe", {"probe": "design_probes"}, e)
        probes = []
    ctx.extra["design_probes_TESTS_ONLY"] = {
        "note": "pass-band gain / zero phase / stop-band attenuation of the FIR and IIR designs are properties of "
                "scipy.signal.firwin / iirdesign / filtfilt; they are probed numerically, not proved",
        "n": len(probes), "failed": sum(1 for p in probes if not p["ok"]), "results": probes}
    ctx.extra["model_impl_disagreements"] = len(bad)
    ctx.extra["scenarios"] = len(scen)
    ctx.extra["rule"] = ("seeded scenarios: series length 3..%d of both parities in K, plus oracle-only lengths 1024..4097 (16385 thorough) "
                         "incl. 2^k+1 and primes; data scaled by 2^-60..2^40 with offsets up to 1e6, tolerances relative to the data scale; "
                         "inputs also as Fortran-ordered / strided / ufunc-derived arrays, via a UniformTime object, positional and numpy-scalar arguments; 1-d and 1..4 channels, units s/ms/us, non-zero t0, "
                         "built from a rate or from an interval; low/high/band/all-pass edges on true bins, on coded bins, "
                         "between bins, random; filter orders 2..12, windows, IIR types, boxcar iterations 0..4; every "
                         "method of FilterAnalyzer + boxcar_filter and FilterAnalyzer.filtfilt called directly. A case is one "
                         "channel / one library call / one axis; non-trivial = the call returned data") % nmax
    return ctx.finish(
        trusted=["scipy.fftpack.fft/ifft, scipy.signal.filtfilt/firwin/iirdesign: Section variables with their contract "
                 "(transform pair: inverse, linearity, conjugate symmetry, DC = sum; filtfilt: linearity) in the theorems; "
                 "wrapped in the harness process and passed as data in K",
                 "numpy float64 division / multiplication / round are IEEE binary64 (PrimFloat) in the output-interval model",
                 "the numpy statement checks of the search oracle (axis, mean, linearity, true-frequency band, idempotence)"],
        assumptions=["FIR/IIR pass-band gain, zero phase and stop-band attenuation are tested on probe sinusoids only (partial by design)",
                     "band edges within float rounding of a grid frequency are excluded from K (the float comparison is not modelled); "
                     "edges exactly on representable grid frequencies are included (a tie whose float grid value k*step is itself rounded decides nothing, in K and in the oracle)",
                     "integer-dtype data (whole-number values) are included as an input variant since 48a227c / af89e6b (fir, iir, filtfilt and boxcar_filter no longer truncate them); before those commits they were outside what held",
                     "iir with lb = 0 and ub = Nyquist (no filter setting) is rejected by scipy.signal.iirdesign; not counted"])


def replay(ctx, path):
    core.import_nitime()
    d = json.loads(open(path).read())
    sc = d.get("scenario") or (d.get("case") or {}).get("scenario")
    if sc is None and (d.get("case") or {}).get("probe"):
        p = d["case"]["probe"]
        r = probe_gain_phase(p["method"], p["cfg"], p["f"])
        print(json.dumps({"probe": p, "gain_phase": r}))
        return 0 if probe_ok(p["method"], p["where"], r) else 1
    if sc is None:
        print("no scenario in replay file")
        return 1
    if sc.get("direct"):
        out, err = boxfilter_run(sc)
        dshape = list(data_from(sc["data"]).shape)
        bad = (out is None and sc["iters"] != 0) or (out is not None and list(np.shape(out)) != dshape)
        print(json.dumps({"boxcar_filter": {"err": err, "shape": None if out is None else list(np.shape(out)), "input_shape": dshape}}))
        return 1 if bad else 0
    if sc.get("filtfilt"):
        fl = filtfilt_oracle(sc)
        for f in fl:
            print(json.dumps({"key": f.key, "what": f.what, "observed": f.observed, "required": f.required}, default=str))
        if not fl:
            print("filtfilt scenario passes all checks of the statement")
        return 1 if fl else 0
    fails = oracle(sc)
    known = {f["key"] for f in ctx.findings.get("known", [])}
    for f in fails:
        print(json.dumps({"key": f.key, "what": f.what, "observed": f.observed, "required": f.required,
                          "known_finding": f.key in known}, default=str))
    if not fails:
        print("scenario passes all checks of the statement")
    return 1 if any(f.key not in known for f in fails) else 0
