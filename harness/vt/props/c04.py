"""C04 — spectral density estimates integrate to the signal power (Parseval); scaling by |a|^2;
one-sided = folded two-sided; real, non-negative.

P: coq/Props/C04.v (theorems over Model/Spectral.v + Model/Csd.v, all N / NFFT / Fs / K)
K: seeded calls of periodogram, periodogram_csd, multi_taper_psd (fixed and adaptive weights) and
   get_spectra (Welch, single channel); the library oracles (fft, dpss_windows, adaptive weights, sqrt,
   mlab.csd) are recorded during the call and handed to the model as data; the Coq kernel evaluates the
   model in exact Q arithmetic and compares with the implementation's output (Check/C04K.v, C06K.v)
oracle (search): time-domain energy with Fractions, paired runs for scaling / folding, range check for
   adaptive weights — run on the implementation's results
"""
import json
from fractions import Fraction

import numpy as np

from vt import core
from vt.core import Fail
from vt.props import spectral_common as S

KEY_ADAPT_FOLD = "C04/multi_taper/adaptive-onesided-fold"
REL = 1e-9


def close_arr(got, want, rel=REL):
    got = np.asarray(got)
    want = np.asarray(want)
    if got.shape != want.shape:
        return False, float("inf")
    sc = float(np.max(np.abs(want))) if want.size else 0.0
    d = float(np.max(np.abs(got - want))) if want.size else 0.0
    return d <= rel * sc + 1e-300, (d / sc if sc else d)


def n_bins(sc, res):
    x = res["x"]
    n = x.shape[-1]
    est = sc["est"]
    if est in ("periodogram", "periodogram_csd"):
        if sc.get("use_sk"):
            return res["Sk"].shape[-1]
        return sc.get("NFFT") or n
    if est in ("multi_taper_psd", "multi_taper_csd"):
        return max(sc.get("NFFT") or n, n)
    return (sc.get("method") or {}).get("NFFT", 64)


def psd_rows(sc, res):
    """the (M, L) array of auto-spectra returned (diagonal for the csd estimators)"""
    out = res["out"]
    if sc["est"] in ("periodogram_csd", "multi_taper_csd") or (sc["est"] == "welch" and out.ndim == 3):
        return np.einsum("iik->ik", out)
    return out.reshape(-1, out.shape[-1])


def mt_expected_power(sc, res):
    """sum_k lam_k E_k / sum_k lam_k per channel, exactly (Fractions), from the recorded tapers"""
    p = S.mt_parts(sc, res)
    if p is None:
        return None
    x = res["x"]
    rows = x.reshape(-1, x.shape[-1])
    tap = p["dpss"][p["keep"]]
    lam = [Fraction(float(v)) for v in p["eig"][p["keep"]]]
    want = []
    for r in rows:
        re = [Fraction(float(np.real(z))) for z in r]
        im = [Fraction(float(np.imag(z))) for z in r]
        mr, mi = sum(re) / len(r), sum(im) / len(r)
        tot = Fraction(0)
        for k in range(len(lam)):
            tk = [Fraction(float(v)) for v in tap[k]]
            e = sum(((a - mr) * t) ** 2 + ((b - mi) * t) ** 2 for a, b, t in zip(re, im, tk))
            tot += lam[k] * e
        want.append(tot / sum(lam))
    return want


def welch_expected_power(sc, res):
    """per channel: mean over segments of sum|w x|^2 / sum w^2 with the REQUESTED window w (matplotlib's
    documented Welch contract)"""
    m = sc.get("method") or {}
    nfft = m.get("NFFT", 64)
    nov = m.get("n_overlap", nfft // 2)
    w = S.welch_window(m.get("window"), nfft)[1]
    x2 = np.asarray(res["x"])
    x2 = x2.reshape(-1, x2.shape[-1])
    out = []
    for x in x2:
        if len(x) < nfft:
            x = np.concatenate([x, np.zeros(nfft - len(x))])
        segs = [x[i:i + nfft] for i in range(0, len(x) - nfft + 1, nfft - nov)]
        out.append(float(np.mean([(np.abs(s * w) ** 2).sum() / (w ** 2).sum() for s in segs])))
    return out


def key_for(sc, claim):
    est = sc["est"]
    if sc["cplx"] and claim in ("parseval", "fold") and (sc.get("sides") == "onesided" or claim == "fold") \
            and est != "welch":
        return S.KEY_CPLX_ONESIDED
    if sc.get("adaptive") and claim == "scale":
        return S.KEY_ADAPT_SCALE
    if sc.get("adaptive") and claim == "fold":
        return KEY_ADAPT_FOLD
    return "C04/%s/%s" % (est, claim)


def variant(sc, **kw):
    v = dict(sc)
    v.update(kw)
    return v


def oracle(sc, res, rng_seed=0):
    """list of Fail: the sub-claims of C04 that do not hold on this call"""
    fails = []
    if res["err"] is not None:
        if S.err_in_dpss(res["err"]):
            # the Slepian taper computation failed (property C07's code): no spectrum to judge — unless the
            # single-channel estimator works with identical keywords (then the two derive different tapers)
            if sc["est"] == "multi_taper_csd":
                s1 = {k: v for k, v in sc.items() if k not in ("via_get_spectra", "history")}
                s1["est"] = "multi_taper_psd"
                if S.run_scenario(s1)["err"] is None:
                    return [Fail("C04/multi_taper_csd/equals-psd", "multi_taper_csd raises %r where multi_taper_psd with identical "
                                 "keywords returns a spectrum" % res["err"], repr(res["err"]), "the same tapers / a spectrum")]
            return []
        return [Fail("C04/%s/exception" % sc["est"], "the estimator raised %r" % res["err"], repr(res["err"]), "a spectrum")]
    est = sc["est"]
    x = res["x"]
    fs = S.fs_of(sc) if est != "welch" else (float.fromhex(sc["method"]["Fs"]) if (sc.get("method") or {}).get("Fs") else 2 * np.pi)
    nb = n_bins(sc, res)
    rows = psd_rows(sc, res)
    # ---- real and non-negative
    if est in ("periodogram", "multi_taper_psd") and np.iscomplexobj(res["out"]):
        fails.append(Fail(key_for(sc, "real"), "density is not a real array", str(res["out"].dtype), "float"))
    if np.iscomplexobj(rows):
        scale = float(np.max(np.abs(rows))) or 1.0
        if float(np.max(np.abs(rows.imag))) > 1e-12 * scale:
            fails.append(Fail(key_for(sc, "real"), "auto-spectrum has a non-zero imaginary part",
                              float(np.max(np.abs(rows.imag))), 0.0))
        rows = rows.real
    if not np.all(np.isfinite(rows)):
        fails.append(Fail(key_for(sc, "finite"), "density contains nan/inf", None, "finite values"))
        return fails
    if float(rows.min()) < 0:
        fails.append(Fail(key_for(sc, "nonneg"), "negative density", float(rows.min()), ">= 0"))
    normalized = sc.get("normalize", True)
    # ---- Parseval
    want = None
    if est in ("periodogram", "periodogram_csd") and normalized and nb >= x.shape[-1]:
        want = S.frac_power(x)          # (NFFT < N truncates the signal: outside the Parseval clause)
    elif est in ("multi_taper_psd", "multi_taper_csd") and not sc.get("adaptive"):
        want = mt_expected_power(sc, res)
    elif est == "welch":
        want = welch_expected_power(sc, res)
    if want is not None:
        got = rows.sum(axis=-1) * fs / nb
        for ch, (g, w) in enumerate(zip(got, want)):
            if S.rel_err(g, float(w)) > REL:
                fails.append(Fail(key_for(sc, "parseval"),
                                  "sum(psd) * Fs/NFFT differs from the mean power of the (tapered) signal",
                                  {"channel": ch, "integral": float(g)}, {"power": float(w), "ratio": float(g) / float(w) if w else None}))
                break
    # ---- adaptive weights: estimate within the range of the individual tapered spectra
    if est in ("multi_taper_psd", "multi_taper_csd") and sc.get("adaptive"):
        p = S.mt_parts(sc, res)
        if p is not None:
            y = np.asarray(p["y"])
            y = y.reshape(p["M"], -1, y.shape[-1])
            L = rows.shape[-1]
            ind = np.abs(y[..., :L]) ** 2
            if L < y.shape[-1]:
                Fl = (y.shape[-1] + 1) // 2
                ind[..., 1:Fl] *= 2
            ind = ind / fs
            lo, hi = ind.min(axis=1), ind.max(axis=1)
            tol = 1e-9 * float(ind.max() or 1.0)
            if np.any(rows < lo - tol) or np.any(rows > hi + tol):
                fails.append(Fail(key_for(sc, "between"), "adaptive estimate outside the range of the tapered spectra",
                                  float(np.max(np.maximum(lo - rows, rows - hi))), "within [min_k S_k, max_k S_k]"))
    # ---- the all-pairs estimators as a PSD route: the diagonal equals the single-channel estimator called
    # with identical keywords
    if est in ("periodogram_csd", "multi_taper_csd"):
        s1 = {k: v for k, v in sc.items() if k not in ("via_get_spectra", "history")}
        s1["est"] = "periodogram" if est == "periodogram_csd" else "multi_taper_psd"
        S.set_data(s1, x.reshape(-1, x.shape[-1]))
        r1 = S.run_scenario(s1)
        if r1["err"] is None:
            o1 = np.asarray(r1["out"])
            ok, e = close_arr(rows, o1.reshape(rows.shape).real) if o1.size == rows.size else (False, float("inf"))
            if not ok:
                fails.append(Fail("C04/%s/equals-psd" % est, "diagonal differs from %s called with identical keywords" % s1["est"],
                                  {"relative_deviation": e}, "equal"))
    # ---- Welch through get_spectra with several channels: the diagonal equals the single-channel result obtained
    # with the identical method dict (window included)
    if est == "welch" and x.ndim == 2 and x.shape[0] > 1:
        for ch in range(x.shape[0]):
            s1 = dict(sc)
            S.set_data(s1, x[ch])
            r1 = S.run_scenario(s1)
            if r1["err"] is None:
                ok, e = close_arr(rows[ch], np.asarray(r1["out"]).reshape(-1).real)
                if not ok:
                    fails.append(Fail("C04/welch/equals-psd", "diagonal entry %d differs from get_spectra of that channel alone with the "
                                      "identical method dict" % ch, {"relative_deviation": e, "window": (sc.get("method") or {}).get("window", "default")},
                                      "equal"))
                    break
    # ---- fewer than 3 usable tapers: adaptive=True is documented to fall back to the fixed sqrt(eigenvalue)
    # weights, so it must equal the adaptive=False estimate (to which Parseval applies)
    if est in ("multi_taper_psd", "multi_taper_csd") and sc.get("adaptive"):
        p = S.mt_parts(sc, res)
        if p is not None and p["K"] < 3:
            rf = S.run_scenario(variant(sc, adaptive=False))
            if rf["err"] is None:
                ok, e = close_arr(rows, psd_rows(sc, rf).real)
                if not ok:
                    fails.append(Fail("C04/multi_taper/adaptive-few-tapers",
                                      "with %d usable tapers adaptive=True differs from the fixed eigenvalue-weighted estimate" % p["K"],
                                      {"relative_deviation": e}, "equal to adaptive=False"))
    # ---- homogeneity: EVERY case is re-run on exact power-of-two multiples far from its own scale (2^-45 and
    # 2^+35; a*x is exact, so the densities must scale by |a|^2 to rounding and the frequencies must not move),
    # with a different factor per channel when there are several, sometimes negative / imaginary / -3; and an
    # integer-dtype input is re-run as the same samples in float64
    uni, per = S.scale_factors(x, rng_seed)
    alist = list(uni)
    if alist and rng_seed % 3 == 0:
        alist[-1] = -alist[-1]
    if alist and sc["cplx"] and rng_seed % 2:
        alist[0] = alist[0] * 1j
    if rng_seed % 4 == 0:
        alist.append(-3.0)
    xf = np.asarray(x, dtype=complex if sc["cplx"] else float)
    for a in alist:
        r2 = S.run_scenario(sc, data=a * xf)
        if r2["err"] is None:
            ok, e = close_arr(psd_rows(sc, r2).real, abs(a) ** 2 * rows)
            same_f = np.array_equal(np.asarray(r2.get("f")), np.asarray(res.get("f")))
            if not ok or not same_f:
                fails.append(Fail(key_for(sc, "scale"), "density of a*x is not |a|^2 times the density of x"
                                  + ("" if same_f else " (and the frequency axis moved)"),
                                  {"a": str(a), "log2|a|": float(np.log2(abs(a))), "relative_deviation": e}, "|a|^2 scaling"))
                break
        else:
            fails.append(Fail(key_for(sc, "scale"), "the estimator raises on a*x (%r) but not on x" % r2["err"],
                              {"a": str(a)}, "|a|^2 scaling"))
            break
    if per is not None:
        x2 = xf.reshape(-1, xf.shape[-1]) * per[:, None]
        r2 = S.run_scenario(sc, data=x2.reshape(xf.shape))
        if r2["err"] is None:
            ok, e = close_arr(psd_rows(sc, r2).real, (per ** 2)[:, None] * rows)
            if not ok:
                fails.append(Fail(key_for(sc, "scale"), "scaling channel i by c_i does not scale its density by c_i^2",
                                  {"log2 c": [float(v) for v in np.log2(per)], "relative_deviation": e}, "c_i^2 scaling per channel"))
    if sc.get("dtype"):
        rfl = S.run_scenario(sc, data=xf)
        if rfl["err"] is None:
            ok, e = close_arr(psd_rows(sc, rfl).real, rows)
            if not ok or np.asarray(res["out"]).dtype != np.asarray(rfl["out"]).dtype:
                fails.append(Fail("C04/%s/int-dtype" % est, "integer-dtype samples give another density than the same samples in float64",
                                  {"dtype": sc["dtype"], "out_dtype": str(np.asarray(res["out"]).dtype), "relative_deviation": e},
                                  "identical result"))
    # ---- memory layout: the same values Fortran-ordered / strided / as a transposed view
    if sc.get("layout") not in (None, "C"):
        rc = S.run_scenario(variant(sc, layout="C"))
        if rc["err"] is None:
            ok, e = close_arr(res["out"], rc["out"])
            if not ok:
                fails.append(Fail("C04/%s/layout" % est, "result depends on the memory layout of the input (%s vs C order)" % sc["layout"],
                                  {"relative_deviation": e}, "same result as for the C-ordered copy"))
    # ---- one-sided = folded two-sided
    if est != "welch" and not sc.get("use_sk"):
        r1 = S.run_scenario(variant(sc, sides="onesided"))
        rt = S.run_scenario(variant(sc, sides="twosided"))
        if r1["err"] is None and rt["err"] is None:
            one = psd_rows(sc, r1).real
            two = psd_rows(sc, rt).real
            N = two.shape[-1]
            Fl = (N + 1) // 2
            fold = two[:, :N // 2 + 1].copy()
            if Fl > 1:
                fold[:, 1:Fl] += two[:, -1:-Fl:-1]
            ok, e = close_arr(one, fold)
            if not ok:
                fails.append(Fail(key_for(sc, "fold"), "one-sided output is not the two-sided output folded",
                                  {"relative_deviation": e}, "fold"))
    return fails


def analyzer_oracle(ctx, n_cases):
    """differential validation (not proof) of the SpectralAnalyzer front end (Fs taken from the series), for every
    spectral attribute (periodogram, spectrum_multi_taper, psd, cpsd, spectrum_fourier), data of shape (n,), (1, n),
    (k, n), (j, k, n) and dtype float64 / float32 / int16 / int32 / int64 / complex128:
      * the densities obey Parseval, judged against the float64 copy of the same samples;
      * analyzer == algorithm called directly on the float64 copy (periodogram, multi_taper_psd);
      * every case is re-run on exact power-of-two multiples far from its own scale (uniform and per channel):
        densities x |a|^2 resp. c_i c_j, spectrum_fourier x a, frequencies unchanged;
      * non-float64 samples are re-run as the same samples in float64 (float32: to single precision)."""
    import nitime.timeseries as ts
    import nitime.algorithms.spectral as sp
    from nitime.analysis import SpectralAnalyzer
    rng = ctx.rng
    done = 0
    shapes = [[], [1], [2], [3], [2, 2], [2, 3], [1], [2]]
    dtypes = ["float64", "int64", "int32", "float32", "int16", "float64", "complex128", "int64"]

    def get(x, fs, attr):
        t = ts.TimeSeries(x, sampling_rate=fs)
        f, p = getattr(SpectralAnalyzer(t), attr)
        return np.asarray(f), np.asarray(p), float(t.sampling_rate)

    for i in range(n_cases):
        n = rng.choice([64, 65, 96, 127, 128])
        lead = shapes[i % len(shapes)]
        dt = dtypes[(i // 2 + i) % len(dtypes)]
        M = int(np.prod(lead)) if lead else 1
        cplx = dt == "complex128"
        fs = rng.choice([1.0, 2.0, 250.0, 1000.0, 0.5])
        if dt.startswith("int"):
            x = S.sc_data(S.force_int(rng, {"est": "periodogram", "shape": list(lead) + [n], "cplx": False}, dtype=dt))
        else:
            x = S.gen_signal(rng, lead, n, cplx)
            if dt == "float32":
                x = x.astype(np.float32)
        xf = np.asarray(x, dtype=complex if cplx else float)          # the same samples in float64
        rtol = 2e-4 if dt == "float32" else REL
        x2 = xf.reshape(M, n)
        power = [float(p) for p in S.frac_power(xf)]
        uni, per = S.scale_factors(xf, i)

        def rp(attr, **kw):
            d = {"entry_point": "nitime.analysis.SpectralAnalyzer." + attr, "n": n, "lead": lead, "dtype": dt, "Fs": fs,
                 "data": [float(v).hex() for v in np.ascontiguousarray(xf).view(float).ravel()]}
            d.update(kw)
            return d

        for attr in ("periodogram", "spectrum_multi_taper", "psd", "cpsd", "spectrum_fourier"):
            if attr == "cpsd" and len(lead) > 1:
                continue
            key = "C04/SpectralAnalyzer.%s/" % attr
            try:
                f, p, Fs = get(x, fs, attr)
            except Exception as e:  # noqa
                if not S.err_in_dpss(e):
                    ctx.report_fail(Fail(key + "exception", "analyzer raised %r" % e, repr(e), "a spectrum", rp(attr)))
                continue
            done += 1
            linear = attr == "spectrum_fourier"
            if attr == "cpsd":
                pm = p.reshape(M, M, -1) if p.ndim == 3 else p.reshape(1, 1, -1)
                prow = np.einsum("iik->ik", pm)
            else:
                prow = p.reshape(M, -1)
            # ---- non-float64 samples vs the same samples in float64
            if dt not in ("float64", "complex128"):
                try:
                    f2, p2, _ = get(xf, fs, attr)
                    ok, e = close_arr(p, p2, rel=rtol) if p2.shape == p.shape else (False, float("inf"))
                    if not ok or (dt.startswith("int") and p2.dtype != p.dtype):
                        ctx.report_fail(Fail(key + "int-dtype", "%s samples give another spectrum than the same samples in float64" % dt,
                                             {"in_dtype": dt, "out_dtype": str(p.dtype), "relative_deviation": e}, "the same spectrum",
                                             rp(attr)))
                        continue
                except Exception:  # noqa
                    pass
            # ---- Parseval (against the float64 copy) and analyzer == algorithm
            want = None
            if attr == "periodogram":
                nb, want = n, power
                fa, pa = sp.periodogram(xf, Fs=Fs)
                ok, e = close_arr(p, pa, rel=rtol) if np.shape(pa) == p.shape else (False, float("inf"))
                if not ok:
                    ctx.report_fail(Fail(key + "equals-algorithm", "analyzer differs from periodogram(data, Fs)", {"relative_deviation": e},
                                         "equal", rp(attr)))
            elif attr == "spectrum_multi_taper":
                an = SpectralAnalyzer(ts.TimeSeries(x, sampling_rate=fs))
                if an.BW is None and not an.adaptive:
                    sc = {"est": "multi_taper_psd", "Fs": Fs.hex(), "NFFT": None, "sides": "default",
                          "adaptive": False, "low_bias": bool(an.low_bias)}
                    S.set_data(sc, x2)
                    r = S.run_scenario(sc)
                    if r["err"] is None:
                        wp = mt_expected_power(sc, r)
                        if wp is not None:
                            nb, want = n, [float(v) for v in wp]
                        ok, e = close_arr(prow, r["out"].reshape(M, -1), rel=rtol)
                        if not ok:
                            ctx.report_fail(Fail(key + "equals-algorithm", "analyzer differs from multi_taper_psd(data, Fs, low_bias)",
                                                 {"relative_deviation": e, "out_dtype": str(p.dtype)}, "equal", rp(attr)))
            elif attr in ("psd", "cpsd"):
                nb = 64
                want = []
                for row in x2:
                    sc = {"est": "welch", "method": {"this_method": "welch", "NFFT": 64, "n_overlap": 32}}
                    S.set_data(sc, row)
                    want += welch_expected_power(sc, {"x": row})
            if want is not None:
                got = prow.real.sum(axis=-1) * Fs / nb
                for ch in range(M):
                    if S.rel_err(got[ch], want[ch]) > rtol:
                        ctx.report_fail(Fail(key + "parseval", "analyzer density does not integrate to the mean power of the samples",
                                             float(got[ch]), float(want[ch]), rp(attr)))
                        break
            # ---- homogeneity at far scales, uniform and per channel; frequencies unchanged
            base_f, base_p = f, p
            if dt != "float64" and dt != "complex128":
                try:
                    base_f, base_p, _ = get(xf, fs, attr)        # scaled copies are float64: compare like with like
                except Exception:  # noqa
                    continue
            for a in uni:
                try:
                    f2, p2, _ = get(a * xf, fs, attr)
                except Exception as e:  # noqa
                    ctx.report_fail(Fail(key + "scale", "analyzer raises on a*x (%r) but not on x" % e, {"a": str(a)},
                                         "homogeneity", rp(attr, a=str(a))))
                    break
                fac = a if linear else abs(a) ** 2
                ok, e = close_arr(p2, fac * base_p) if p2.shape == base_p.shape else (False, float("inf"))
                if not ok or not np.array_equal(f2, base_f):
                    ctx.report_fail(Fail(key + "scale", "analyzer spectrum of a*x is not %s times the spectrum of x" % ("a" if linear else "|a|^2"),
                                         {"a": str(a), "relative_deviation": e, "out_dtype": str(p2.dtype)}, "homogeneity",
                                         rp(attr, a=str(a))))
                    break
            if per is not None:
                try:
                    f2, p2, _ = get((x2 * per[:, None]).reshape(xf.shape), fs, attr)
                    if attr == "cpsd":
                        bm = base_p.reshape(pm.shape)
                        ok, e = close_arr(p2.reshape(pm.shape), bm * per[:, None, None] * per[None, :, None])
                    else:
                        fac = per if linear else per ** 2
                        ok, e = close_arr(p2.reshape(M, -1), fac[:, None] * base_p.reshape(M, -1))
                    if not ok:
                        ctx.report_fail(Fail(key + "scale", "scaling channel i by c_i does not scale the analyzer's spectra accordingly",
                                             {"log2 c": [float(v) for v in np.log2(per)], "relative_deviation": e}, "c_i c_j scaling",
                                             rp(attr)))
                except Exception as e:  # noqa
                    ctx.report_fail(Fail(key + "scale", "analyzer raises on per-channel scaled data: %r" % e, repr(e), "c_i c_j scaling",
                                         rp(attr)))
    ctx.extra["analyzer_differential_checks"] = done


def welch_frontends_oracle(ctx, n_cases):
    """Welch through the other front ends — get_spectra_bi and SpectralAnalyzer(method=...).cpsd — with NON-default
    windows (window_none, an array, a callable) and two or more channels: the auto-spectra must equal get_spectra of
    that channel alone with the identical method dict and integrate to the segment power under the requested window"""
    import nitime.timeseries as ts
    import nitime.algorithms.spectral as sp
    from nitime.analysis import SpectralAnalyzer
    rng = ctx.rng
    done = 0
    for i in range(n_cases):
        tok = ["none", "array", "callable"][i % 3]
        nfft = [16, 32, 24][i % 3]
        n = nfft * rng.randint(2, 4) + rng.randint(0, 5)
        M = 2 if i % 2 == 0 else 3
        fs = rng.choice([1.0, 2.0, 250.0])
        x = S.gen_signal(rng, [M], n, False)
        wobj, wval = S.welch_window(tok, nfft)
        method = {"this_method": "welch", "NFFT": nfft, "Fs": fs, "window": wobj, "n_overlap": nfft // 2}
        rp = {"n": n, "M": M, "Fs": fs, "NFFT": nfft, "window": tok, "data": [float(v).hex() for v in x.ravel()]}
        singles = [np.asarray(sp.get_spectra(x[c], dict(method))[1]).real for c in range(M)]
        scw = {"est": "welch", "method": {"this_method": "welch", "NFFT": nfft, "n_overlap": nfft // 2, "window": tok}}
        want = welch_expected_power(scw, {"x": x})
        results = {}
        try:
            f, fxx, fyy, fxy = sp.get_spectra_bi(x[0], x[1], dict(method))
            results["get_spectra_bi"] = [(0, np.asarray(fxx)), (1, np.asarray(fyy))]
        except Exception as e:  # noqa
            ctx.report_fail(Fail("C04/get_spectra_bi/exception", "raised %r" % e, repr(e), "spectra", dict(rp, entry_point="nitime.algorithms.spectral.get_spectra_bi")))
        try:
            t = ts.TimeSeries(x, sampling_rate=fs)
            f, c = SpectralAnalyzer(t, method={"this_method": "welch", "NFFT": nfft, "window": wobj, "n_overlap": nfft // 2}).cpsd
            c = np.asarray(c)
            results["SpectralAnalyzer.cpsd"] = [(ch, c[ch, ch].real) for ch in range(M)]
        except Exception as e:  # noqa
            ctx.report_fail(Fail("C04/SpectralAnalyzer.cpsd/exception", "raised %r" % e, repr(e), "spectra", dict(rp, entry_point="nitime.analysis.SpectralAnalyzer.cpsd")))
        for name, lst in results.items():
            done += 1
            for ch, p in lst:
                ok, e = close_arr(p.real, singles[ch])
                got = float(p.real.sum() * fs / nfft)
                if not ok or S.rel_err(got, want[ch]) > REL:
                    ctx.report_fail(Fail("C04/%s/welch-window" % name, "auto-spectrum of channel %d with window=%s differs from the single-channel "
                                         "result / does not integrate to the power under the requested window" % (ch, tok),
                                         {"relative_deviation": e, "integral": got}, {"power": want[ch]}, dict(rp, entry_point=name)))
                    break
    ctx.extra["welch_frontend_checks"] = done


def validate_fft(rec):
    """numerical validation of the contract assumed of the library FFT on the recorded calls"""
    n_ok = n_bad = 0
    for inp, n, axis, out in rec.fft:
        nn = inp.shape[-1] if n is None else n
        if nn < inp.shape[-1]:
            continue
        e_in = (np.abs(inp) ** 2).sum(-1) * nn
        e_out = (np.abs(out) ** 2).sum(-1)
        good = np.allclose(e_in, e_out, rtol=1e-9, atol=1e-300)
        if not np.iscomplexobj(inp) and nn > 1:
            good = good and np.allclose(out[..., 1:], np.conj(out[..., :0:-1]), rtol=1e-9,
                                        atol=1e-9 * float(np.max(np.abs(out)) or 1.0))
        n_ok += int(good)
        n_bad += int(not good)
    return n_ok, n_bad


def corpus_scenarios(pid):
    p = core.VERIF / "harness" / "corpus" / pid
    out = []
    if p.exists():
        for f in sorted(p.glob("*.json")):
            d = json.loads(f.read_text())
            if "scenario" in d:                 # (files without one document witnesses of the analyzer front end)
                out.append(d["scenario"])
    return out


def gen_all(ctx):
    rng = ctx.rng
    q = ctx.quick
    scs = corpus_scenarios("C04")
    for _ in range(ctx.scale(36, 400)):
        scs.append(S.gen_scenario(rng, "periodogram", nmax=64 if q else 256, max_ch=rng.choice([1, 2, 3, 5])))
    for _ in range(ctx.scale(10, 150)):
        scs.append(S.gen_scenario(rng, "multi_taper_psd", nmax=32 if q else 96, max_ch=rng.choice([1, 2, 3, 4]) if q else 5))
    for _ in range(ctx.scale(12, 100)):
        scs.append(S.gen_scenario(rng, "periodogram_csd", nmax=24 if q else 64, max_ch=4 if q else 5))
    # BOTH NW and BW in one call (conflicting / agreeing), psd and csd, directly and through get_spectra
    for i in range(ctx.scale(6, 24)):
        est = "multi_taper_psd" if i % 2 == 0 else "multi_taper_csd"
        sc = S.runnable(lambda: S.force_both_nw_bw(rng, S.gen_scenario(rng, est, nmax=18 if q else 32, max_ch=2, lead=[2], layout="C"), i))
        if est == "multi_taper_csd" and i % 4 == 3:
            sc["via_get_spectra"] = True
        scs.append(sc)
    # option combinations as small full factorials
    scs += S.combo_plan(rng, "multi_taper_psd")
    scs += S.combo_plan(rng, "periodogram") if not q else S.combo_plan(rng, "periodogram")[::2]
    # BW * N / Fs exactly on a half-integer (np.round: half to even), k even / odd, and one ulp either side
    for i in range(ctx.scale(8, 32)):
        scs.append(S.force_bw_tie(rng, S.gen_scenario(rng, "multi_taper_psd" if i % 3 else "multi_taper_csd", nmax=20, max_ch=2,
                                                       lead=[2], layout="C"), i))
    # integer-dtype samples (incl. two leading dimensions)
    plan_i = [("periodogram", [2]), ("multi_taper_psd", [2]), ("multi_taper_psd", [2, 2]), ("periodogram_csd", [2]),
              ("multi_taper_csd", [2]), ("periodogram", [2, 3])]
    for i in range(ctx.scale(6, 30)):
        est, lead = plan_i[i % len(plan_i)]
        scs.append(S.runnable(lambda: S.force_int(rng, S.gen_scenario(rng, est, nmax=14 if q else 40, lead=lead, layout="C"))))
    # multi_taper_csd as a PSD route (directly and through get_spectra)
    for _ in range(ctx.scale(4, 40)):
        sc = S.gen_scenario(rng, "multi_taper_csd", nmax=16 if q else 40, max_ch=2 if q else 4)
        if len(sc["shape"]) == 2 and rng.random() < 0.5:
            sc["via_get_spectra"] = True
        scs.append(sc)
    # the NFFT-vs-N parity matrix (N even / odd x NFFT in {None, N, N+1, N+2, 2N, 2N+1}) for every estimator
    ne, no = (10, 9) if q else (rng.choice([16, 32, 64]), rng.choice([15, 31, 63]))
    for est in ("multi_taper_csd", "periodogram_csd", "multi_taper_psd", "periodogram"):
        mat = S.gen_parity_matrix(rng, est, ne if est.startswith("multi") else ne - 2, no if est.startswith("multi") else no - 2,
                                  M=2 if est.endswith("_csd") else 1, per_cell=1 if q else 2)
        for sc in mat:
            if est.endswith("_csd") and rng.random() < 0.3:
                sc["via_get_spectra"] = True
        scs += mat
    # adaptive=True with 1-2 usable tapers; the BW keyword with NFFT in {None, N, > N}
    for _ in range(ctx.scale(4, 20)):
        scs.append(S.runnable(lambda: S.force_few_tapers(rng, S.gen_scenario(rng, "multi_taper_psd", nmax=24 if q else 64, max_ch=2 if q else 4))))
    for _ in range(ctx.scale(3, 20)):
        scs.append(S.runnable(lambda: S.force_bw_nfft(rng, S.gen_scenario(rng, "multi_taper_psd", nmax=20 if q else 48, max_ch=2 if q else 4), idx=_)))
    # Fortran-ordered / strided / transposed-view inputs with two or more leading dimensions
    plan = [("multi_taper_psd", "F", [2, 3]), ("multi_taper_psd", "transposed", [3, 2]), ("periodogram", "F", [2, 2]),
            ("multi_taper_csd", "F", [2, 2]), ("periodogram_csd", "F", [2, 3]), ("multi_taper_psd", "strided0", [2, 2]),
            ("periodogram", "strided", [3, 2]), ("multi_taper_csd", "transposed", [2, 3])]
    for i in range(ctx.scale(5, 32)):
        est, lay, lead = plan[i % len(plan)]
        if not q and i >= len(plan):
            lead = rng.choice([[2, 3], [3, 2], [2, 2], [2, 1, 3]])
        scs.append(S.runnable(lambda: S.gen_scenario(rng, est, nmax=(12 if est == "multi_taper_csd" else 14) if q else 40, lead=lead, layout=lay)))
    # option-sibling sequences (one option changed between two calls on the same signal, then the first again)
    for _ in range(ctx.scale(3, 15)):
        scs += S.runnable(lambda: S.gen_siblings(rng, "multi_taper_psd", nmax=20 if q else 48, max_ch=2 if q else 4, opt="low_bias"))
    for _ in range(ctx.scale(5, 30)):
        scs += S.runnable(lambda: S.gen_siblings(rng, rng.choice(["multi_taper_psd", "multi_taper_psd", "periodogram", "periodogram_csd"]),
                              nmax=20 if q else 48, max_ch=2 if q else 4))
    for i in range(ctx.scale(6, 24)):
        scs.append(S.gen_welch(rng, window=["none", "array", "callable"][i % 3], M=[2, 3, 2, 4][i % 4]))
    for _ in range(ctx.scale(8, 40)):
        sc = S.gen_welch(rng)
        if len(sc["shape"]) > 1:
            arr = S.sc_data(sc)
            S.set_data(sc, arr[0] if rng.random() < 0.5 else arr[:1])
        scs.append(sc)
    return scs


def run(ctx):
    core.import_nitime()
    ctx.check_props()
    cases = [S.make_case(sc) for sc in gen_all(ctx)]
    aux = S.adaptive_cases(cases, ctx.scale(8, 60))       # recorded utils.adaptive_weights calls vs Model/Adaptive.v
    bad = S.run_k(ctx, cases + aux)
    nv_ok = nv_bad = 0
    ctx.extra["skipped_dpss_windows_exception"] = sum(1 for c in cases if c.res["err"] is not None and S.err_in_dpss(c.res["err"]))
    not_seen = 0
    for i, c in enumerate(cases):
        a, b = validate_fft(c.res["rec"])
        nv_ok += a
        nv_bad += b
        ep = "nitime.algorithms.spectral." + ("get_spectra" if c.sc["est"] == "welch" else c.sc["est"])
        if c.sc["est"].startswith("multi_taper") and c.res["err"] is None and not c.res["rec"].dpss:
            not_seen += 1
        try:
            fl = oracle(c.sc, c.res, rng_seed=i)
        except Exception as e:  # noqa  (a crash of the oracle on some input is reported with that input)
            fl = [Fail("C04/%s/oracle-exception" % c.sc["est"], "the oracle could not judge this call: %r" % e, repr(e), "a verdict")]
        for f in fl:
            f.replay = {"entry_point": ep, "model_disagrees": id(c) in bad, "case_index": i}
            ctx.report_fail(f, S.with_run_history(cases, i))
    for f, c in S.purity_fails("C04", cases, ctx.scale(10, 60)):
        f.replay = {"entry_point": "nitime.algorithms.spectral." + c.replay["scenario"]["est"]}
        ctx.report_fail(f, c)
    ctx.extra["multitaper_calls_without_a_dpss_windows_call"] = not_seen     # then the harness computed the tapers itself
    analyzer_oracle(ctx, ctx.scale(16, 64))
    welch_frontends_oracle(ctx, ctx.scale(6, 24))
    ctx.extra["model_impl_disagreements"] = len(bad)
    ctx.extra["fft_contract_validations"] = {"ok": nv_ok, "failed": nv_bad}
    ctx.extra["rule"] = ("seeded generator over estimator (periodogram, periodogram_csd, multi_taper_psd fixed/adaptive, Welch "
                         "single channel) x length 8..64 (thorough ..256) of both parities x NFFT in {None, N, >N} x sides x "
                         "real/complex x 1-5 channels incl. extra leading dimensions x Fs grid x normalize / precomputed Sk / "
                         "NW / BW / low_bias; signals: noise, noisy and pure tones, integers, AR(1), exactly-zero-mean and tiny-mean "
                         "rows, DC offset on ~half of the rows, amplitude 2^-60..2^40 (straddling numpy's hidden atol 1e-8); "
                         "scaling pairs with tiny and huge power-of-two a; "
                         "non-trivial = the call returned a spectrum; distinct by hash of the Coq case term")
    return ctx.finish(
        trusted=["library oracles, taken as data recorded during the implementation's own call and validated numerically "
                 "per call (energy identity, conjugate symmetry): scipy.fftpack.fft; numpy sqrt / ** 0.5 (relation y*y = a "
                 "checked in Coq); nitime.utils.dpss_windows (property C07); nitime.utils.adaptive_weights' returned weights; "
                 "matplotlib.mlab.csd (Welch)",
                 "tolerance of the K comparison: rtol 1e-9, atol 1e-12 x largest magnitude of the compared array"],
        assumptions=["Welch: Parseval rests on matplotlib's contract, validated numerically only (the model covers the "
                     "arguments reaching mlab.csd and the assembly of its results)",
                     "adaptive weights: the iteration of utils.adaptive_weights is modelled in Model/Adaptive.v and used "
                     "for the refutation theorems; in K its returned weights are data",
                     "unnormalised periodograms (normalize=False) are compared with the model but not integrated",
                     "SpectralAnalyzer.periodogram / .spectrum_multi_taper / .psd: differential validation only (Parseval on "
                     "the analyzer's output with Fs = the series' sampling rate), not part of the proof"])


def replay(ctx, path):
    core.import_nitime()
    d = json.loads(open(path).read())
    sc = (d.get("case") or d).get("scenario") or d.get("scenario")
    if sc is None:
        print(json.dumps({"note": "no scenario in replay file (broken-lemma record)", "lemmas": d.get("lemmas")}, indent=1)[:3000])
        return 1
    want_key = d.get("finding_key") or ""
    if want_key.endswith("/history-dependence"):
        hist = sc.get("history") or []
        first = S.run_scenario(hist[0]) if hist else S.run_scenario(sc)
        for h in hist[1:]:
            S.run_scenario(h)
        again = S.run_scenario(sc)
        same = S.same_result(first, again)
        print(json.dumps({"scenario": {k: v for k, v in sc.items() if k not in ("data", "history")},
                          "calls_before": len(hist), "identical_result": same}, indent=1))
        return 0 if same else 1
    res = S.run_scenario(sc, with_history=True)
    fails = oracle(sc, res, rng_seed=d.get("case_index", 0))
    for i in range(5):
        if any(f.key == want_key for f in fails):
            break
        fails += oracle(sc, res, rng_seed=i)
    print(json.dumps({"scenario": {k: v for k, v in sc.items() if k not in ("data", "history")}, "shape": sc["shape"],
                      "calls_before": len(sc.get("history") or []),
                      "fails": [{"key": f.key, "what": f.what, "observed": f.observed, "required": f.required} for f in fails]},
                     indent=1, default=str))
    return 1 if fails else 0
