import argparse
import importlib
import os
import sys


def main():
    ap = argparse.ArgumentParser()
    ap.add_argument("pid")
    ap.add_argument("--tier", default="quick", choices=["quick", "thorough"])
    ap.add_argument("--replay", default=None)
    a = ap.parse_args()
    tier = os.environ.get("VERIF_TIER") or a.tier
    if tier not in ("quick", "thorough"):
        tier = a.tier
    seed = int(os.environ.get("VERIF_SEED", "0") or 0)
    from vt import core
    mod = importlib.import_module("vt.props." + a.pid.lower())
    ctx = core.Ctx(a.pid, tier, seed, replay=a.replay)
    if a.replay:
        rc = mod.replay(ctx, a.replay)
        sys.exit(rc)
    if not ctx.ensure_static():
        ctx.obligation("P", "static build of /verif/coq", False, "\n".join(ctx.notes))
    try:
        rc = mod.run(ctx)
    except Exception:            # a crash of the harness is never a silent pass nor a bare traceback:
        import traceback         # the run did not establish the property -> broken obligation, reported as such
        tb = traceback.format_exc()
        sys.stderr.write(tb)
        ctx.obligation("K", "harness run of %s completed" % a.pid, False, tb)
        rc = ctx.finish(assumptions=["the harness raised an exception before finishing: %s" % tb.strip().splitlines()[-1]])
    print("%s tier=%s seed=%d obligations=%d discharged=%d cases=%d violations=%d wall=%.1fs" % (
        a.pid, tier, seed, len(ctx.obligations), sum(1 for o in ctx.obligations if o[2]),
        ctx.cases_total, len(ctx.violations), __import__("time").time() - ctx.t0))
    sys.exit(rc)


if __name__ == "__main__":
    main()
