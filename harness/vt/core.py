"""vt.core — shared machinery of the nitime proof checks.

A property module (vt/props/cXX.py) exposes `run(ctx)`; it uses the helpers here to
  * re-check the property theorems (P) of coq/Props/CXX.v and collect Print Assumptions,
  * compile generated-fact files (G) and correspondence shards (K) with coqc,
  * run its exact oracle, classify failures against known_findings.json,
  * print VIOLATION / KNOWN-FINDING lines, write replay files and evidence/<id>.json.
"""
import concurrent.futures
import fcntl
import hashlib
import json
import os
import random
import re
import subprocess
import sys
import time
from pathlib import Path

VERIF = Path(__file__).resolve().parents[2]
COQ = VERIF / "coq"
REPO = Path(os.environ.get("NITIME_REPO", "/repo"))
GEN_VERSION = 1
NCPU = min(16, os.cpu_count() or 4)

TRUSTED_BASE_COMMON = [
    "Coq 8.16.1 kernel and its vm_compute evaluator (no native_compute)",
    "hand-written Gallina model of the anchored nitime code (coq/Model/*.v), tied to /repo only "
    "through the generated-fact (G) and correspondence (K) lemmas compiled on this run",
    "harness literal emission (Python int -> Z numeral, float.hex() -> primitive float literal) "
    "and result classification (harness/vt)",
    "CPython/numpy/scipy/matplotlib as installed, for running the implementation",
]


# ----------------------------------------------------------------------------- source fingerprint
FINGERPRINT = VERIF / "harness" / "source_fingerprint.json"
DRIFT_FACTOR = 3


def _strip_doc(tree):
    import ast
    for node in ast.walk(tree):
        if isinstance(node, (ast.Module, ast.ClassDef, ast.FunctionDef, ast.AsyncFunctionDef)):
            b = node.body
            if b and isinstance(b[0], ast.Expr) and isinstance(getattr(b[0], "value", None), ast.Constant) \
                    and isinstance(b[0].value.value, str):
                node.body = b[1:] or [ast.Pass()]
    return tree


def source_fingerprint(repo=None):
    """sha256 of the docstring-free AST of every non-test module of nitime (plus the raw .pyx source):
    comments, blank lines and docstrings do not change it, any change of the code does."""
    import ast
    repo = Path(repo or REPO)
    out = {}
    for f in sorted((repo / "nitime").rglob("*.py")) + sorted((repo / "nitime").rglob("*.pyx")):
        rel = str(f.relative_to(repo))
        if "/tests/" in rel or rel.endswith("/_version.py") or rel.endswith("/version.py"):
            continue
        try:
            txt = f.read_text()
            if f.suffix == ".py":
                txt = ast.dump(_strip_doc(ast.parse(txt)), annotate_fields=False)
            out[rel] = hashlib.sha256(txt.encode()).hexdigest()
        except Exception as e:            # unparsable source: always counts as drift
            out[rel] = "unreadable:" + type(e).__name__
    return out


def source_drift():
    """modules whose code differs from the tree the hand models were last validated against
    (harness/source_fingerprint.json, rewritten only by tools/mk_fingerprint.py after a clean pass)"""
    try:
        rec = json.loads(FINGERPRINT.read_text())["files"]
    except Exception:
        return ["<no recorded fingerprint>"]
    cur = source_fingerprint()
    return sorted(k for k in set(rec) | set(cur) if rec.get(k) != cur.get(k))


# ----------------------------------------------------------------------------- literals
def zlit(n):
    n = int(n)
    return str(n) if n >= 0 else "(%d)" % n


def nlit(n):
    n = int(n)
    assert n >= 0
    return "%d%%nat" % n


def flit(x):
    """primitive float literal, exact (hex)"""
    x = float(x)
    if x != x:
        return "PrimFloat.nan"
    if x in (float("inf"), float("-inf")):
        return "PrimFloat.infinity" if x > 0 else "PrimFloat.neg_infinity"
    h = x.hex()
    return "(%s)%%float" % h


def blit(b):
    return "true" if b else "false"


def slit(s):
    return '"%s"%%string' % str(s).replace('"', '""')


def llit(items):
    return "[" + "; ".join(items) + "]"


def olit(x, f):
    return "None" if x is None else "(Some %s)" % f(x)


def zlist(l):
    return llit([zlit(v) for v in l])


def flist(l):
    return llit([flit(v) for v in l])


def clist(l):
    """complex list as flat list of (re, im) float pairs"""
    return llit(["(%s, %s)" % (flit(z.real), flit(z.imag)) for z in l])


# ----------------------------------------------------------------------------- results
class Fail:
    """An oracle failure: the property does not hold on this input."""

    def __init__(self, key, what, observed=None, required=None, replay=None):
        self.key = key
        self.what = what
        self.observed = observed
        self.required = required
        self.replay = replay or {}


class Case:
    def __init__(self, coq, replay, klass="", nontrivial=True):
        self.coq = coq          # Coq term (string)
        self.replay = replay    # JSON-able description sufficient to re-run it
        self.klass = klass      # for the input distribution
        self.nontrivial = nontrivial


class CoqResult:
    def __init__(self, ok, out, secs, path):
        self.ok, self.out, self.secs, self.path = ok, out, secs, path


def _clean(s):
    return "\n".join(l for l in s.splitlines() if "WARNING conda" not in l)


# ----------------------------------------------------------------------------- context
class Ctx:
    def __init__(self, pid, tier, seed, replay=None):
        self.pid = pid
        self.tier = tier
        self.seed = seed
        self.replay_path = replay
        self.t0 = time.time()
        self.build = VERIF / "build" / pid
        self.build.mkdir(parents=True, exist_ok=True)
        (self.build / "replay").mkdir(exist_ok=True)
        if not replay:       # a --replay run must not delete the file it is asked to replay
            for f in self.build.glob("*"):
                if f.is_file():
                    f.unlink()
            for f in (self.build / "replay").glob("*"):
                f.unlink()
        self.rng = random.Random("%s:%s:%d" % (pid, seed, GEN_VERSION))
        self.findings = load_findings(pid)
        self.obligations = []     # (kind, name, ok)
        self.violations = []      # replay paths
        self.known_hit = {}       # key -> count
        self.assumptions = {}     # theorem -> text
        self.cases_total = 0
        self.nontrivial = set()
        self.dist = {}
        self.samples = []
        self.notes = []
        self.extra = {}
        self.broken = []          # names of lemmas that no longer check
        self._replay_n = 0
        # the hand models were validated against one particular source text; when the code of nitime has
        # drifted from it, the quick tier deepens every sample (up to the thorough size) before trusting the tie
        self.drift = [] if replay else source_drift()
        if self.drift:
            self.extra["source_drift"] = {"modules": self.drift, "quick_sample_factor": DRIFT_FACTOR,
                                          "note": "code differs from harness/source_fingerprint.json: quick-tier "
                                                  "case counts multiplied (capped at the thorough-tier size)"}
        else:
            self.extra["source_drift"] = {"modules": [], "note": "code identical (docstring-free AST) to the tree "
                                                                 "the models were last validated against"}

    # ---- tiers
    @property
    def quick(self):
        return self.tier == "quick"

    def scale(self, q, t):
        if self.quick and self.drift and type(q) is int and type(t) is int and t > q:
            return min(t, q * DRIFT_FACTOR)
        return q if self.quick else t

    # ---- build of the static development
    def ensure_static(self):
        """(re)build exactly what coq/Props/<pid>.v depends on, file by file with coqc
        (per-file locks), so that another property's slow or broken file can neither block
        nor fail this check.  setup_cmd (build_coq.sh) does the full `make` build."""
        ok, log = build_target(COQ / "Props" / (self.pid + ".v"))
        ck = COQ / "Check" / (self.pid + "K.v")       # the K files import it; it is not a dependency of Props
        if ok and ck.exists():
            ok, log = build_target(ck)
        if not ok:
            self.notes.append("static build failed: " + log[-2000:])
        return ok

    # ---- coq
    def coqc(self, name, source, timeout=600):
        """compile build/<pid>/<name>.v ; logical path B<pid>"""
        path = self.build / (name + ".v")
        path.write_text(source)
        t = time.time()
        for attempt in range(3):
            try:
                r = subprocess.run(
                    ["coqc", "-Q", str(COQ), "NT", "-Q", str(self.build), "B" + self.pid, str(path)],
                    capture_output=True, text=True, timeout=timeout, cwd=str(self.build))
                ok = r.returncode == 0
                out = _clean(r.stdout + "\n" + r.stderr)
            except subprocess.TimeoutExpired:
                ok, out = False, "TIMEOUT after %ds" % timeout
            # a coqc that died without saying why (killed under memory/CPU pressure) is retried
            if ok or "Error" in out or "TIMEOUT" in out:
                break
            time.sleep(2 + 3 * attempt)
        return CoqResult(ok, out, time.time() - t, path)

    def obligation(self, kind, name, ok, detail=""):
        self.obligations.append((kind, name, bool(ok)))
        if not ok:
            self.broken.append({"kind": kind, "lemma": name, "detail": detail[-1500:]})

    def check_props(self, extra_files=()):
        """P: recompile coq/Props/<pid>.v into the build dir, record theorems + assumptions."""
        src = (COQ / "Props" / (self.pid + ".v")).read_text()
        thms = re.findall(r"^\s*(?:Theorem|Example)\s+([A-Za-z0-9_']+)", src, flags=re.M)
        res = self.coqc("P_" + self.pid, src, timeout=900)
        # parse Print Assumptions blocks
        ass = parse_assumptions(res.out)
        names = re.findall(r"^\s*Print Assumptions\s+([A-Za-z0-9_'.]+)\s*\.", src, flags=re.M)
        if len(names) == len(ass):
            ass = {n: ass["#%d" % i] for i, n in enumerate(names)}
        self.assumptions = ass
        if not self.quick and res.ok:
            self.coqchk()
        for t in thms:
            self.obligation("P", "Props/%s.v:%s" % (self.pid, t), res.ok, res.out)
        self.extra["P_theorems"] = thms
        self.extra["P_compile_s"] = round(res.secs, 2)
        return res.ok

    def coqchk(self):
        """thorough tier: independent re-check of the compiled property file and everything it depends on"""
        t = time.time()
        try:
            r = subprocess.run(["coqchk", "-silent", "-o", "-Q", str(COQ), "NT", "NT.Props." + self.pid],
                               capture_output=True, text=True, timeout=1500, cwd=str(COQ))
            out = _clean(r.stdout + "\n" + r.stderr)
            ok = r.returncode == 0
        except subprocess.TimeoutExpired:
            ok, out = False, "TIMEOUT"
        self.obligation("P", "coqchk -o NT.Props.%s" % self.pid, ok, out)
        m = re.search(r"\* Axioms:(.*?)(?:\n\s*\*|\Z)", out, flags=re.S)
        self.extra["coqchk_axioms"] = (m.group(1).strip()[:3000] if m else out[-1500:])
        self.extra["coqchk_s"] = round(time.time() - t, 1)
        return ok

    def check_gen(self, name, source, lemmas=None, timeout=600):
        """G: compile a generated-fact file; `lemmas` names the lemmas inside it."""
        res = self.coqc(name, source, timeout=timeout)
        for l in (lemmas or [name]):
            self.obligation("G", "%s.v:%s" % (name, l), res.ok, res.out)
        return res

    def check_cases(self, prefix, header, cases, check_fn, shard=300, timeout=900, case_type=None):
        """K: split `cases` into shards; each shard file proves
           `forallb check_fn cases = true` by vm_compute.  Returns the set of indices
           (into `cases`) on which model and implementation disagree."""
        shards = [cases[i:i + shard] for i in range(0, len(cases), shard)]
        bad = set()

        def one(si):
            sh = shards[si]
            ty = (" : list %s" % case_type) if case_type else ""
            body = header + "\nDefinition cases%s := [\n%s\n].\n" % (ty, ";\n".join(c.coq for c in sh))
            lemma = ("Lemma corr : forallb %s cases = true.\nProof. vm_compute. reflexivity. Qed.\n"
                     % check_fn)
            name = "%s_%d" % (prefix, si)
            r = self.coqc(name, body + lemma, timeout=timeout)
            idx = []
            if not r.ok:
                loc = body + ("From NT Require Import Lists.\nEval vm_compute in (failing %s cases).\n"
                              % check_fn)
                r2 = self.coqc(name + "_loc", loc, timeout=timeout)
                m = re.search(r"=\s*\[(.*?)\]", r2.out, flags=re.S)
                if r2.ok and m:
                    idx = [int(x) for x in re.findall(r"\d+", re.sub(r"%nat", "", m.group(1)))]
                else:
                    idx = list(range(len(sh)))  # cannot localise: whole shard suspect
                    r.out += "\n[localisation failed]\n" + r2.out[-800:]
            return si, r, idx

        with concurrent.futures.ThreadPoolExecutor(max_workers=NCPU) as ex:
            for si, r, idx in ex.map(one, range(len(shards))):
                name = "%s_%d.v:corr" % (prefix, si)
                self.obligation("K", name, r.ok, r.out)
                for j in idx:
                    bad.add(si * shard + j)
        for c in cases:
            self.count_case(c)
        return bad

    def count_case(self, c):
        self.cases_total += 1
        self.dist[c.klass] = self.dist.get(c.klass, 0) + 1
        if c.nontrivial:
            self.nontrivial.add(hashlib.sha1(c.coq.encode()).hexdigest())
        if len(self.samples) < 6 and (not self.samples or c.klass not in [s.get("class") for s in self.samples]):
            self.samples.append({"class": c.klass, "case": c.replay})

    # ---- findings / violations
    def classify(self, fail):
        """Return True when `fail` is a listed known finding."""
        for f in self.findings.get("known", []):
            if f["key"] == fail.key:
                self.known_hit[fail.key] = self.known_hit.get(fail.key, 0) + 1
                return True
        return False

    def violation(self, replay, no_input=False):
        self._replay_n += 1
        p = self.build / "replay" / ("%d.json" % self._replay_n)
        replay = dict(replay)
        replay.setdefault("property", self.pid)
        replay.setdefault("seed", self.seed)
        replay.setdefault("gen_version", GEN_VERSION)
        p.write_text(json.dumps(replay, indent=1, default=str))
        self.violations.append(str(p))
        if len(self.violations) <= 20:
            print("VIOLATION property=%s replay=%s%s" % (self.pid, p, " no-failing-input-found" if no_input else ""))
        sys.stdout.flush()

    def report_fail(self, fail, case=None):
        if self.classify(fail):
            return False
        rp = {"kind": "failing-input", "finding_key": fail.key, "what": fail.what,
              "observed": fail.observed, "required": fail.required}
        rp.update(fail.replay or {})
        if case is not None:
            rp.setdefault("case", case.replay)
        self.violation(rp)
        return True

    def finish(self, level="proof", checker_cmd=None, trusted=None, assumptions=None, explanation=None):
        """print KNOWN-FINDING lines, handle broken lemmas with no failing input, write evidence."""
        # a broken lemma not explained by any reported failing input
        if self.broken and not self.violations:
            self.violation({"kind": "broken-lemma", "lemmas": self.broken,
                            "note": "a proof obligation or correspondence lemma no longer checks and the "
                                    "oracle search found no input on which the property itself fails"},
                           no_input=True)
        for f in self.findings.get("known", []):
            k = f["key"]
            if self.known_hit.get(k):
                print("KNOWN-FINDING: property=%s %s [%s; %d inputs this run]" % (self.pid, f["what"], k, self.known_hit[k]))
            elif f.get("must_reproduce", True):
                # a listed finding whose witness no longer fails is only noted (not an alarm)
                self.notes.append("known finding %s did not reproduce on this run" % k)
        nobl = len(self.obligations)
        ndis = sum(1 for o in self.obligations if o[2])
        ev = {
            "property_id": self.pid,
            "tier": self.tier,
            "seed": self.seed,
            "level": level,
            "coverage": {
                "obligations": nobl,
                "discharged": ndis,
                "checker_cmd": checker_cmd or "coqc -Q /verif/coq NT (Props/%s.v re-checked; G and K files under build/%s compiled by coqc; lemmas closed by vm_compute; reflexivity)" % (self.pid, self.pid),
                "trusted_base": TRUSTED_BASE_COMMON + list(trusted or []),
                "obligation_kinds": {k: sum(1 for o in self.obligations if o[0] == k) for k in ("P", "G", "K")},
                "undischarged": [o[1] for o in self.obligations if not o[2]][:20],
                "print_assumptions": self.assumptions,
                "evaluations": self.cases_total,
                "distinct_nontrivial": len(self.nontrivial),
                "rule": self.extra.pop("rule", "seeded structured generator; a case is non-trivial when flagged so by the property module; distinct by hash of its Coq term"),
                "samples": self.samples or [{"note": "no cases"}],
                "input_distribution": self.dist,
                "known_findings_reproduced": self.known_hit,
                "explanation": explanation or "",
            },
            "assumptions": list(assumptions or []) + self.notes,
            "wall_s": round(time.time() - self.t0, 2),
            "violations": len(self.violations),
        }
        ev["coverage"].update(self.extra)
        if str(REPO) != "/repo":
            # a development run against another tree (NITIME_REPO=<worktree>, used to try seeded changes)
            # must not replace the evidence of the registered command, which always runs against /repo
            (self.build / "evidence_other_tree.json").write_text(json.dumps(ev, indent=1, default=str))
        else:
            (VERIF / "evidence").mkdir(exist_ok=True)
            (VERIF / "evidence" / (self.pid + ".json")).write_text(json.dumps(ev, indent=1, default=str))
        return 1 if self.violations else 0


_REQ = re.compile(r"From\s+NT\s+Require\s+(?:Import|Export)\s+([^.]*)\.|Require\s+(?:Import|Export)\s+((?:NT\.[A-Za-z0-9_.]+\s*)+)\.")


def _vfiles():
    m = {}
    for d in ("Base", "Model", "Check", "Proofs", "Props"):
        for f in (COQ / d).glob("*.v"):
            m[f.stem] = f
    return m


def _deps(vfile, index):
    src = vfile.read_text()
    src = re.sub(r"\(\*.*?\*\)", "", src, flags=re.S)
    out = []
    for a, b in _REQ.findall(src):
        for name in (a or b).split():
            name = name.split(".")[-1]
            if name in index and index[name] != vfile:
                out.append(index[name])
    return out


def build_target(vfile, _seen=None, _index=None):
    """compile vfile's NT dependencies (recursively) and vfile itself if out of date"""
    index = _index or _vfiles()
    seen = _seen if _seen is not None else {}
    if vfile in seen:
        return seen[vfile]
    seen[vfile] = (True, "")
    newest_dep = 0.0
    for d in _deps(vfile, index):
        ok, log = build_target(d, seen, index)
        if not ok:
            seen[vfile] = (False, log)
            return seen[vfile]
        newest_dep = max(newest_dep, d.with_suffix(".vo").stat().st_mtime)
    vo = vfile.with_suffix(".vo")
    lock = VERIF / "build" / (".lock_" + vfile.stem)
    with open(lock, "w") as fh:
        fcntl.flock(fh, fcntl.LOCK_EX)
        try:
            if vo.exists() and vo.stat().st_mtime >= vfile.stat().st_mtime and vo.stat().st_mtime >= newest_dep:
                return seen[vfile]
            try:
                r = subprocess.run(["coqc", "-Q", str(COQ), "NT", str(vfile)], capture_output=True, text=True,
                                   timeout=1800, cwd=str(COQ))
                ok, log = r.returncode == 0, _clean(r.stdout + r.stderr)
            except subprocess.TimeoutExpired:
                ok, log = False, "TIMEOUT compiling %s" % vfile
            seen[vfile] = (ok, "" if ok else "%s: %s" % (vfile, log[-1500:]))
            return seen[vfile]
        finally:
            fcntl.flock(fh, fcntl.LOCK_UN)


def parse_assumptions(out):
    """split coqc output of `Print Assumptions t.` into {index: text}; we key by order."""
    res = {}
    blocks = re.split(r"(?=Closed under the global context|Axioms:)", out)
    i = 0
    for b in blocks:
        b = b.strip()
        if b.startswith("Closed under the global context"):
            res["#%d" % i] = "Closed under the global context"
            i += 1
        elif b.startswith("Axioms:"):
            names = re.findall(r"^([A-Za-z0-9_.']+)\s*:", b, flags=re.M)
            res["#%d" % i] = "Axioms: " + ", ".join(sorted(set(n for n in names if n not in ("Axioms", "Warning", "File"))))
            i += 1
    return res


def load_findings(pid):
    p = VERIF / "known_findings.json"
    if not p.exists():
        return {"known": [], "fixed": []}
    d = json.loads(p.read_text())
    return {"known": [f for f in d.get("known", []) if f["property"] == pid],
            "fixed": [f for f in d.get("fixed", []) if f["property"] == pid]}


def import_nitime():
    """import nitime from the current working tree of /repo"""
    sys.path.insert(0, str(REPO))
    os.environ["NITIME_VERIF"] = "1"
    import warnings
    warnings.filterwarnings("ignore")
    import nitime  # noqa
    assert Path(nitime.__file__).resolve().parent == (REPO / "nitime").resolve(), nitime.__file__
    return nitime
