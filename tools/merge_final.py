#!/usr/bin/env python3
"""tools/merge_final.py: copy the first line of seeded/<name>/final_on_repo.txt (written by tools/final_seed_pass.sh)
into seeded/<name>/meta.json as a what_i_ran entry 'final: ...' (replacing an older one)"""
import json, os, glob
n = 0
for d in sorted(glob.glob('/verif/seeded/*')):
    f = d + '/final_on_repo.txt'; m = d + '/meta.json'
    if not (os.path.exists(f) and os.path.exists(m)): continue
    line = open(f).read().strip().split('\n')[0]
    meta = json.load(open(m))
    w = [x for x in meta.get('what_i_ran', []) if not x.startswith('final:')]
    w.append('final: ' + line)
    meta['what_i_ran'] = w
    meta['caught_on_repo_final'] = ('exit 1' in line)
    json.dump(meta, open(m, 'w'), indent=1); n += 1
print(n, 'metas updated')
