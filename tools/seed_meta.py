#!/usr/bin/env python3
"""tools/seed_meta.py <name> <pid> ["note"]: write seeded/<name>/meta.json from the agent's meta and the confirmation logs"""
import json, sys, os, re
name, pid = sys.argv[1], sys.argv[2]
note = sys.argv[3] if len(sys.argv) > 3 else ""
d = "/verif/seeded/" + name
ag = {}
try:
    ag = json.load(open(d + "/meta_agent.json"))
except Exception:
    pass
def rd(f):
    try: return open(d + "/" + f).read().strip()
    except Exception: return None
log = rd("check_with.log") or ""
meta = {
    "property": pid,
    "breaks": ag.get("summary") or ag.get("what") or "",
    "needs_to_manifest": ag.get("needs_to_manifest") or "",
    "origin": "fresh sub-agent given only the property text and a scratch worktree of /repo (nothing from /verif)",
    "base_commit": rd("base_commit.txt"),
    "what_i_ran": [
        "demo with the change: %s ; without: %s (tools/try_seed.sh; logs demo_with.log / demo_without.log)" % (rd("demo_with.rc"), rd("demo_without.rc")),
        "existing test-suite with the change (run by the seeding agent, tail in tests_result): " + str(ag.get("tests_result", ""))[-300:],
        "NITIME_REPO=<worktree with the change> ./check %s --tier quick -> %s, %d VIOLATION lines (check_with.log; first replay in first_replay.json)" % (pid, rd("check_with.rc"), len(re.findall(r"^VIOLATION", log, flags=re.M))),
    ],
    "caught_by_check": (rd("check_with.rc") == "rc=1"),
    "note": note,
}
json.dump(meta, open(d + "/meta.json", "w"), indent=1)
print(json.dumps(meta, indent=1)[:1500])
