#!/usr/bin/env python3
"""Regenerate the generated tables of DESIGN.md §11 (between BEGIN/END markers) from known_findings.json and seeded/*/meta.json."""
import json, glob, os, re, subprocess
V = "/verif"
kf = json.load(open(V + "/known_findings.json"))
def esc(s): return str(s).replace("|", "\\|").replace("\n", " ")
fx = ["| property | commit | what failed |", "|---|---|---|"]
for f in sorted(kf.get("fixed", []), key=lambda f: (f["property"], f.get("commit", ""))):
    fx.append("| %s | `%s` | %s |" % (f["property"], f.get("commit", "?"), esc(f.get("what", ""))[:300]))
kn = ["| property | finding key | what fails (witness in known_findings.json / corpus) | why recorded rather than fixed |", "|---|---|---|---|"]
for f in sorted(kf.get("known", []), key=lambda f: (f["property"], f["key"])):
    kn.append("| %s | `%s` | %s | %s |" % (f["property"], f["key"], esc(f.get("what", ""))[:260], esc(f.get("why_not_fixed", ""))[:200]))
sd = ["| seed | property | change (written by a fresh sub-agent from the property text only) | needs | quick check on the changed tree |", "|---|---|---|---|---|"]
for d in sorted(glob.glob(V + "/seeded/*")):
    m = d + "/meta.json"
    if not os.path.exists(m):
        sd.append("| %s | %s | (saved, not yet run: the property's check was not built when this table was generated) | | |" % (os.path.basename(d), os.path.basename(d).split("_")[0]))
        continue
    j = json.load(open(m))
    log = open(d + "/check_with.log").read() if os.path.exists(d + "/check_with.log") else ""
    nv = len(re.findall(r"^VIOLATION", log, flags=re.M))
    first = ""
    if os.path.exists(d + "/first_replay.json"):
        try:
            r = json.load(open(d + "/first_replay.json"))
            first = r.get("finding_key") or r.get("kind") or ""
        except Exception:
            pass
    res = ("caught: exit 1, %d VIOLATION lines; first replay key `%s`" % (nv, first)) if j["caught_by_check"] else "MISSED (exit 0)"
    if j.get("note"):
        res += " — " + esc(j["note"])[:200]
    sd.append("| %s | %s | %s | %s | %s |" % (os.path.basename(d), j["property"], esc(j["breaks"])[:240], esc(j["needs_to_manifest"])[:200], res))
import sys
sys.path.insert(0, V + "/harness")
from vt import registry
pp = []
for pid in sorted(registry.CHECKS):
    c = registry.CHECKS[pid]
    files = sorted(set(os.path.basename(f) for f in glob.glob(V + "/coq/Props/%s.v" % pid) + glob.glob(V + "/coq/Check/%s*K.v" % pid)))
    nthm = len(re.findall(r"^\s*(?:Theorem|Example)\s", open(V + "/coq/Props/%s.v" % pid).read(), flags=re.M))
    ev = {}
    try:
        ev = json.load(open(V + "/evidence/%s.json" % pid))
    except Exception:
        pass
    cov = ev.get("coverage", {})
    pp.append("**%s** — %s\n\n* *What is proved and how it is tied:* %s\n* *Assumed / trusted / not covered:* %s\n* *As of the last recorded run:* %d theorems+examples in `Props/%s.v`; %s obligations (P/G/K = %s), %s cases, tier %s, %.0f s.\n" % (
        pid, c["technique"], c["text"], c["note"], nthm, pid, cov.get("obligations", "?"),
        "/".join(str(cov.get("obligation_kinds", {}).get(k, "?")) for k in ("P", "G", "K")), cov.get("evaluations", "?"), ev.get("tier", "?"), ev.get("wall_s", 0)))
blocks = {"FIXES": "\n".join(fx), "KNOWN": "\n".join(kn), "SEEDS": "\n".join(sd), "PERPROP": "\n".join(pp)}
p = V + "/DESIGN.md"
s = open(p).read()
for k, v in blocks.items():
    a, b = "<!-- BEGIN:%s -->" % k, "<!-- END:%s -->" % k
    if a in s:
        s = s[:s.index(a) + len(a)] + "\n" + v + "\n" + s[s.index(b):]
open(p, "w").write(s)
print({k: v.count("\n") - 1 for k, v in blocks.items()})
