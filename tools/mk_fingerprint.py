#!/usr/bin/env python3
"""tools/mk_fingerprint.py — record the docstring-free AST hash of every nitime module of /repo's current tree in
harness/source_fingerprint.json.  Run it ONLY after a clean pass of all checks on that tree (the file says which tree
the hand models were last validated against; a check that sees other code deepens its correspondence sample)."""
import json, subprocess, sys
sys.path.insert(0, "/verif/harness")
from vt import core
fp = core.source_fingerprint("/repo")
head = subprocess.run(["git", "-C", "/repo", "rev-parse", "HEAD"], capture_output=True, text=True).stdout.strip()
dirty = subprocess.run(["git", "-C", "/repo", "status", "--porcelain", "--", "nitime"], capture_output=True, text=True).stdout.strip()
if dirty:
    sys.exit("refusing: /repo working tree has uncommitted changes under nitime/\n" + dirty)
core.FINGERPRINT.write_text(json.dumps({"repo_commit": head, "files": fp}, indent=1) + "\n")
print("recorded", len(fp), "modules at", head)
