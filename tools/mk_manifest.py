#!/usr/bin/env python3
"""Regenerate /verif/MANIFEST.json from harness/vt/registry.py."""
import json, sys
sys.path.insert(0, "/verif/harness")
from vt import registry

props = [json.loads(l) for l in open("/verif/properties.jsonl")]
checks, na = [], []
for p in props:
    pid = p["id"]
    c = registry.CHECKS.get(pid)
    if c is None:
        na.append({"property_id": pid, "reason": registry.NOT_YET.get(pid, "check not built yet (in progress); no claim is made for this property at this commit")})
        continue
    checks.append({
        "property_id": pid,
        "quick_cmd": "./check %s --tier quick" % pid,
        "thorough_cmd": "./check %s --tier thorough" % pid,
        "evidence_file": "/verif/evidence/%s.json" % pid,
        "replay_cmd_template": "./check %s --replay {path}" % pid,
        "engine": "coq-proof",
        "level_claimed": {"category": c.get("category", "proof"), "text": c["text"], "design_ref": c.get("design_ref", "DESIGN.md §6")},
        "level_note": c["note"],
        "technique": c["technique"],
    })
m = {
    "version": 1,
    "setup_cmd": "bash /verif/build_coq.sh",
    "hooks": {
        "guard": "NITIME_VERIF",
        "enable": "checks export NITIME_VERIF=1 and import nitime from /repo's working tree (pure Python; nothing to build); no hook code exists in /repo at present",
        "baseline_off_cmd": "cd /repo && /venv/bin/python -m pytest -ra -q -p no:cacheprovider --timeout=900 --continue-on-collection-errors",
        "source_commits": [],
        "add_only": True,
    },
    "engines": [{
        "name": "coq-proof", "path": "/verif/coq + /verif/harness/vt",
        "serves_properties": [c["property_id"] for c in checks],
        "kind_free_text": "Coq 8.16.1 development (Base/Model/Check/Proofs/Props) built by setup_cmd; per run: Props re-checked, generated-fact (G) and correspondence (K) files written from the imported /repo tree and compiled with coqc",
    }],
    "checks": checks,
    "not_applicable": na,
    "notes": "fix: commits in /repo and known findings are listed in /verif/known_findings.json; see DESIGN.md.",
}
json.dump(m, open("/verif/MANIFEST.json", "w"), indent=1)
print("checks:", [c["property_id"] for c in checks], "n/a:", len(na))
