#!/bin/bash
# tools/save_seed.sh <pid> <worktree> <name>: copy a seeding agent's artefacts into /verif/seeded/<name>/ (before confirmation)
pid=$1; wt=$2; name=$3; out=/verif/seeded/$name; mkdir -p $out
git -C $wt diff -- nitime > $out/patch.diff; cp $wt/demo_$pid.py $out/ 2>/dev/null; cp $wt/meta.json $out/meta_agent.json 2>/dev/null
git -C $wt rev-parse HEAD > $out/base_commit.txt; ls $out
