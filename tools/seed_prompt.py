#!/usr/bin/env python3
"""print the prompt for a mutation-seeding sub-agent: python3 tools/seed_prompt.py C01 /tmp/seed_c01_1 [hint]"""
import json, sys
pid, wt = sys.argv[1], sys.argv[2]
hint = sys.argv[3] if len(sys.argv) > 3 else ""
p = [json.loads(l) for l in open("/verif/properties.jsonl") if json.loads(l)["id"] == pid][0]
txt = json.dumps({k: p[k] for k in ("id", "title", "statement", "quantifier", "anchors")}, indent=1)
print(f"""You are testing how well a (separately built, hidden from you) verification suite detects regressions in the Python library nipy/nitime. You have your own scratch git worktree of the repository at {wt} (edit ONLY files inside it; never touch /repo or /verif, and do not read anything under /verif). Python: /venv/bin/python (numpy, scipy, matplotlib, nibabel installed); run code against your worktree with `cd {wt} && PYTHONPATH={wt} /venv/bin/python ...` (check `nitime.__file__` points into {wt}). No network.

The semantic property under test:

{txt}

Your task: produce ONE realistic change (a plausible refactoring slip, optimisation, or "clean-up" a developer could make — not sabotage that ordinary use would expose at once) to the nitime source in your worktree that BREAKS this property while
 (a) the package still imports and the existing test-suite still passes exactly as before: run `cd {wt} && PYTHONPATH={wt} /venv/bin/python -m pytest -q -p no:cacheprovider --timeout=900 nitime 2>&1 | tail -5` — the baseline is 139 passed with exactly 3 pre-existing failures (test_AR_LD, test_AR_YW, nitime/tests/test_algorithms.py::test_periodogram); your change must not add failures or errors;
 (b) the breakage needs something specific to manifest: an unusual input (a particular parity, unit, magnitude, tie, dtype, shape), a multi-step sequence of operations, or two cooperating sites that each look fine alone. {hint}
Also write a demonstration script `{wt}/demo_{pid}.py` (plain Python, exits non-zero / raises AssertionError when the property is broken) that FAILS with your change and PASSES on the unmodified code (verify both; do NOT use `git stash` — the stash is shared by all worktrees of the repository and other people use it concurrently: save your diff with `git -C {wt} diff -- nitime > {wt}/patch.diff`, run `git -C {wt} checkout -- nitime`, run the demo, then `git -C {wt} apply {wt}/patch.diff`). The demo must test the property as stated (e.g. against exact rational arithmetic), not an implementation detail.

When done, leave the change applied (uncommitted) in the worktree and write `{wt}/patch.diff` (`git -C {wt} diff -- nitime > {wt}/patch.diff`) and `{wt}/meta.json` with keys: property, summary (what was changed and why it looks innocent), needs_to_manifest (the specific input/sequence needed), demo_cmd, tests_result (the tail of the pytest run). Reply with a short report: the diff, what it breaks, what is needed to trigger it, and the outputs of the demo with and without the change.""")
