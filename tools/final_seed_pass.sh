#!/bin/bash
# tools/final_seed_pass.sh [names...] : the procedure of the brief, literally — for each kept seeded change apply it to /repo
# itself (git -C /repo apply), run the property's REGISTERED quick command, undo it straight afterwards
# (git -C /repo checkout -- .). Results go to seeded/<name>/final_on_repo.txt. Run only when nothing else uses /repo.
cd /verif
names="$@"; [ -z "$names" ] && names=$(ls seeded)
for name in $names; do
  d=seeded/$name; pid=${name%_*}
  [ -f $d/patch.diff ] || continue
  p=$d/patch_on_head.diff; [ -s $p ] || p=$d/patch.diff
  if ! git -C /repo apply --check $(pwd)/$p 2>/dev/null; then p=$d/patch.diff; fi
  if ! git -C /repo apply $(pwd)/$p 2>$d/final_apply.err; then echo "$name: patch does not apply to /repo HEAD $(git -C /repo rev-parse --short HEAD)" | tee $d/final_on_repo.txt; git -C /repo checkout -- .; continue; fi
  cmd=$(python3 -c "import json;print([c['quick_cmd'] for c in json.load(open('MANIFEST.json'))['checks'] if c['property_id']=='$pid'][0])")
  cp evidence/$pid.json /tmp/ev_$pid.json
  out=$( $cmd 2>&1 ); rc=$?
  git -C /repo checkout -- .
  cp /tmp/ev_$pid.json evidence/$pid.json      # the evidence of the unchanged tree is restored (re-generated at the end anyway)
  nv=$(echo "$out" | grep -c '^VIOLATION')
  echo "$name: git -C /repo apply $p ; $cmd -> exit $rc, $nv VIOLATION lines ; undone (HEAD $(git -C /repo rev-parse --short HEAD))" | tee $d/final_on_repo.txt
  echo "$out" | grep -m2 '^VIOLATION' >> $d/final_on_repo.txt
done
git -C /repo status --short | head -3
