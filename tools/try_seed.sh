#!/bin/bash
# tools/try_seed.sh <pid> <name> [tier]: confirm the seeded change /verif/seeded/<name>/patch.diff on a fresh worktree of
# /repo's CURRENT HEAD (demo fails with it, passes without it), run the property's check against the changed tree,
# store logs under /verif/seeded/<name>/ and remove the worktree.
pid=$1; name=$2; tier=${3:-quick}
out=/verif/seeded/$name; wt=/tmp/try_$name
export PYTHONDONTWRITEBYTECODE=1 PYTHONPYCACHEPREFIX=/verif/build/.nopyc
git -C /repo worktree remove --force $wt 2>/dev/null; rm -rf $wt
git -C /repo worktree add -q --detach $wt HEAD || exit 2
git -C /repo rev-parse HEAD > $out/confirmed_on_commit.txt
sed "s#/tmp/seed_[a-z0-9]*_[0-9]*#$wt#g" $out/demo_$pid.py > $wt/demo_$pid.py
echo "== demo WITHOUT change (HEAD)"; (cd $wt && PYTHONPATH=$wt timeout 900 /venv/bin/python -W ignore demo_$pid.py > $out/demo_without.log 2>&1; echo "rc=$?" | tee $out/demo_without.rc; tail -2 $out/demo_without.log | cut -c1-200)
if ! git -C $wt apply --3way $out/patch.diff 2> $out/apply.log; then echo "PATCH DOES NOT APPLY to HEAD (see apply.log)"; cat $out/apply.log | tail -5; fi
git -C $wt diff HEAD -- nitime > $out/patch_on_head.diff
echo "== demo WITH change"; (cd $wt && PYTHONPATH=$wt timeout 900 /venv/bin/python -W ignore demo_$pid.py > $out/demo_with.log 2>&1; echo "rc=$?" | tee $out/demo_with.rc; tail -2 $out/demo_with.log | cut -c1-200)
echo "== check WITH change"; (cd /verif && NITIME_REPO=$wt ./check $pid --tier $tier > $out/check_with.log 2>&1; echo "rc=$?" | tee $out/check_with.rc; grep -c '^VIOLATION' $out/check_with.log; tail -1 $out/check_with.log | cut -c1-300)
first=$(grep -m1 -o 'replay=[^ ]*' $out/check_with.log | cut -d= -f2)
[ -n "$first" ] && cp $first $out/first_replay.json
git -C /repo worktree remove --force $wt
