#!/bin/bash
# tools/try_seed.sh <pid> <worktree> <name> : confirm a seeded change (demo fails with / passes without),
# run the property's quick check against the changed tree, and store it under /verif/seeded/<name>/.
pid=$1; wt=$2; name=$3
out=/verif/seeded/$name; mkdir -p $out
export PYTHONDONTWRITEBYTECODE=1 PYTHONPYCACHEPREFIX=/verif/build/.nopyc
cd $wt || exit 2
git -C $wt diff -- nitime > $out/patch.diff
cp $wt/demo_$pid.py $out/ 2>/dev/null; cp $wt/meta.json $out/meta_agent.json 2>/dev/null
echo "== demo WITH change"; (cd $wt && PYTHONPATH=$wt timeout 600 /venv/bin/python -W ignore demo_$pid.py > $out/demo_with.log 2>&1; echo "rc=$?" | tee $out/demo_with.rc; tail -3 $out/demo_with.log)
git -C $wt checkout -- nitime   # (no git stash: the stash is shared by all worktrees)
echo "== demo WITHOUT change"; (cd $wt && PYTHONPATH=$wt timeout 600 /venv/bin/python -W ignore demo_$pid.py > $out/demo_without.log 2>&1; echo "rc=$?" | tee $out/demo_without.rc; tail -3 $out/demo_without.log)
git -C $wt apply $out/patch.diff
echo "== check WITH change"; (cd /verif && NITIME_REPO=$wt ./check $pid > $out/check_with.log 2>&1; echo "rc=$?" | tee $out/check_with.rc; grep -c VIOLATION $out/check_with.log; tail -2 $out/check_with.log | cut -c1-300)
first=$(grep -m1 -o 'replay=[^ ]*' $out/check_with.log | cut -d= -f2)
[ -n "$first" ] && cp $first $out/first_replay.json
