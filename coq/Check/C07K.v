(* Check/C07K.v — case format and boolean checker of the C07 correspondence.
   A case carries the inputs of one call AND what the implementation(s) returned, as exact
   primitive-float literals; `check` evaluates the Q model on the exact values of the inputs
   and compares (exactly where the code's step is exact: sign flips, ordering, selection, the
   off-diagonal; with tolerance where float rounding enters). *)
From Coq Require Import QArith List Bool Arith PrimFloat.
From NT Require Import F2Z Close Lists Sums Tridi Dpss.
Import ListNotations.
Open Scope Q_scope.

Definition fl (l : list float) : list Q := map f2q l.
Definition allfinite (l : list float) : bool := forallb ffinite l.
Definition maxabs (l : list Q) : Q :=
  fold_right (fun a m => if Qle_bool (Qabsb a) m then m else Qabsb a) 0 l.
Definition qlist_eqb (a b : list Q) : bool := list_eqb Qeq_bool a b.
Definition rows_eqb (a b : list (list Q)) : bool := list_eqb qlist_eqb a b.

Definition tol_solve : Q := 1 # 10000000.          (* 1e-7, relative: to |a|+|b| and to max |x| — no absolute term *)

Inductive case :=
(* tridisolve(d, e, b): outputs of each implementation that is available *)
| KSolve (d e b : list float) (outs : list (list float))
(* a system on which every implementation failed (exception / non-finite): the model must see a zero pivot *)
| KZero (d e b : list float)
(* sign convention: rows returned by the inverse iterations, rows returned by dpss_windows *)
| KSigns (N : nat) (raw out : list (list float))
(* concentration: W, sinc(2 W n) n=0..N-1 (library values), returned rows, returned eigenvalues *)
| KConc (N : nat) (W : float) (sinc : list float) (rows : list (list float)) (lams : list float)
(* low_bias: eigenvalues given to the selection, indices and eigenvalues it kept *)
| KLowBias (ev : list float) (kept : list nat) (kept_ev : list float)
(* interpolated path: interpolated rows before rescaling, sqrt(sum squares) (library), returned rows *)
| KInterp (N : nat) (pre : list (list float)) (nrms : list float) (out : list (list float))
(* set-up: N, cos(2 pi W) (library value), diagonal and off-diagonal handed to the inverse iteration *)
| KSetup (N : nat) (c : float) (d e : list float)
(* ordering: eigvals_banded output (library, ascending), eigenvalues used for taper 0,1,2,... *)
| KOrder (ascw used : list float).

Definition close_to (x : list Q) (o : list float) : bool :=
  allfinite o && close_list_tol tol_solve (tol_solve * maxabs x) (fl o) x.

Fixpoint map2 {A B C} (f : A -> B -> C) (l1 : list A) (l2 : list B) : list C :=
  match l1, l2 with a :: l1', b :: l2' => f a b :: map2 f l1' l2' | _, _ => [] end.

Definition rows_close (a b : list (list Q)) : bool := all2 close_list a b.

Definition check (c : case) : bool :=
  match c with
  | KSolve d e b outs =>
      let x := tridisolve (fl d) (fl e) (fl b) in
      negb (zero_pivot (fl d) (fl e) (length b)) &&
      match outs with [] => false | _ => forallb (close_to x) outs end
  | KZero d e b => zero_pivot (fl d) (fl e) (length b)
  | KSigns N raw out => rows_eqb (fix_signs N (map fl raw)) (map fl out)
  | KConc N W sinc rows lams =>
      let s := fl sinc in
      all2 (fun v lam => closeb (conc (f2q W) (get s) (get (fl v)) N) (f2q lam)) rows lams
  | KLowBias ev kept kept_ev =>
      let r := low_bias (seq 0 (length ev)) (fl ev) in
      natlist_eqb (fst r) kept && qlist_eqb (snd r) (fl kept_ev)
  | KInterp N pre nrms out =>
      let p := map fl pre in let n := fl nrms in
      all2 (fun v nr => Qle_bool 0 nr && closeb (nr * nr) (sumsq v)) p n &&
      rows_close (fix_signs N (map2 rescale p n)) (map fl out)
  | KSetup N c d e =>
      (length d =? N)%nat && (length e =? N)%nat &&
      all2 (fun k x => closeb (diag_entry N (f2q c) k) x) (seq 0 N) (fl d) &&
      all2 (fun k x => Qeq_bool (offdiag_entry N k) x) (seq 0 N) (fl e)
  | KOrder ascw used => qlist_eqb (rev (fl ascw)) (fl used)
  end.

(* the model's threshold is the float64 literal 0.9 of the source *)
Lemma thr09_is_float_literal : Qeq_bool thr09 (f2q 0x1.ccccccccccccdp-1%float) = true.
Proof. vm_compute. reflexivity. Qed.
