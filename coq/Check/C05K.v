(* Check/C05K.v — case format and boolean checker of the C05 correspondence.
   A case carries the inputs of one call of the implementation (site, sizes, how Fs was given,
   band) AND what the implementation returned (its frequency vector as float64 literals, the
   length of the frequency axis of the spectrum returned with it, the series' sampling_rate);
   `check` evaluates the model of Model/Freqs.v in exact Q on the exact values of the float
   inputs and compares: lengths and index lists exactly, frequencies at rtol 1e-12. *)
From Coq Require Import QArith List Bool Arith ZArith PrimFloat.
From NT Require Import F2Z Lists Close TimeArray Freqs.
Import ListNotations.
Open Scope Q_scope.

(* how the call got its sampling rate *)
Inductive fs_src :=
| FsDirect (fs : float)                 (* Fs=fs handed to an algorithm *)
| FsDefault                             (* Fs left to the default 2*pi *)
| FsInterval (d : float) (u : unit)     (* TimeSeries(sampling_interval=d, time_unit=u) -> analyzer *)
| FsRate (r : float) (u : unit).        (* TimeSeries(sampling_rate=r, time_unit=u) -> analyzer *)

Inductive case :=
| CGrid (s : site) (src : fs_src) (N NFFT : nat) (sd : sides) (lb : float) (ub : option float)
        (nfreqs : nat) (lib : list float) (pi : float)
        (fs_impl : float)               (* float(series.sampling_rate) or the Fs passed *)
        (f : list float) (len : nat)    (* returned frequency vector; length of the spectrum's axis *)
| CSparse (s : site) (src : fs_src) (N NFFT : nat) (sd : sides) (lb : float) (ub : option float)
          (nfreqs : nat) (lib : list float) (pi : float) (fs_impl : float)
          (flen : nat) (samples : list (nat * float)) (len : nat)
          (* a large call: length of the returned vector and its entries at the sampled indices *)
| CBins (src : fs_src) (NFFT : nat) (lb : float) (ub : option float) (pi : float)
        (bins : list nat)               (* cache_fft: which FFT bins the cached slices hold *)
| CKeep (src : fs_src) (n : nat) (lb : float) (ub : option float)
        (kept : list nat)               (* filtered_fourier: one-sided bins left non-zero *)
| CShared (d : option float) (rates used : list float)
          (* one method dict handed to several analyzers: own rates in event order, method['Fs'] each ends up with *)
| CCircle (omega : list float) (fs pi : float) (out : list float).   (* utils.circle_to_hz(omega, fs) *)

Definition rtol : Q := 1 # 1000000000000.

Definition src_fs (src : fs_src) : Q :=
  match src with
  | FsDirect f => f2q f
  | FsDefault => 0
  | FsInterval d u => fs_of_interval (f2q d) u
  | FsRate r u => fs_of_rate (f2q r) u
  end.
Definition src_given (src : fs_src) : bool := match src with FsDefault => false | _ => true end.
Definition src_finite (src : fs_src) : bool :=
  match src with
  | FsDirect f => ffinite f | FsDefault => true
  | FsInterval d _ => ffinite d && negb (Qeq_bool (f2q d) 0)
  | FsRate r _ => ffinite r
  end.

Definition opt_f2q (o : option float) : option Q := option_map f2q o.
Definition opt_finite (o : option float) : bool := match o with None => true | Some f => ffinite f end.

Definition check (c : case) : bool :=
  match c with
  | CGrid s src N NFFT sd lb ub nfreqs lib pi fs_impl f len =>
      let e := mk_env (src_fs src) (src_given src) N NFFT sd (f2q lb) (opt_f2q ub) nfreqs
                      (map f2q lib) (f2q pi) in
      let atol := rtol * Qabsb (eff_Fs e) in
      src_finite src && ffinite lb && opt_finite ub && ffinite pi && ffinite fs_impl
      && forallb ffinite lib && forallb ffinite f
      && (if src_given src then closeb_tol rtol 0 (eff_Fs e) (f2q fs_impl) else true)
      && close_list_tol rtol atol (site_freqs s e) (map f2q f)
      && (site_len s e =? len)%nat
  | CSparse s src N NFFT sd lb ub nfreqs lib pi fs_impl flen samples len =>
      let e := mk_env (src_fs src) (src_given src) N NFFT sd (f2q lb) (opt_f2q ub) nfreqs
                      (map f2q lib) (f2q pi) in
      let atol := rtol * Qabsb (eff_Fs e) in
      let g := site_freqs s e in
      src_finite src && ffinite lb && opt_finite ub && ffinite pi && ffinite fs_impl
      && forallb ffinite lib && forallb (fun p => ffinite (snd p)) samples
      && (if src_given src then closeb_tol rtol 0 (eff_Fs e) (f2q fs_impl) else true)
      && (length g =? flen)%nat
      && forallb (fun p => match nth_error g (fst p) with
                           | Some q => closeb_tol rtol atol q (f2q (snd p))
                           | None => false end) samples
      && (site_len s e =? len)%nat
  | CBins src NFFT lb ub pi bins =>
      let fs := if src_given src then src_fs src else 2 * f2q pi in
      src_finite src && ffinite lb && opt_finite ub && ffinite pi
      && natlist_eqb (cache_fft_bins fs NFFT (f2q lb) (opt_f2q ub)) bins
  | CKeep src n lb ub kept =>
      src_finite src && ffinite lb && opt_finite ub
      && natlist_eqb (ff_keep (src_fs src) n (f2q lb) (opt_f2q ub)) kept
  | CShared d rates used =>
      opt_finite d && forallb ffinite rates && forallb ffinite used
      && close_list_tol rtol 0 (shared_dict_fs (opt_f2q d) (map f2q rates)) (map f2q used)
  | CCircle omega fs pi out =>
      forallb ffinite omega && ffinite fs && ffinite pi && forallb ffinite out
      && close_list_tol rtol (rtol * Qabsb (f2q fs))
           (circle_to_hz (2 * f2q pi) (map f2q omega) (f2q fs)) (map f2q out)
  end.
