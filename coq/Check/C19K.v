(* Check/C19K.v — case format and boolean checker of the C19 correspondence.
   A case = one call of the implementation (inputs as data, float64 values as primitive floats)
   together with what it returned; `check` evaluates the model of Model/EventRelated.v on the exact
   rational values of the inputs and compares: shapes, error classes, t0 / interval (picoseconds)
   and design matrices exactly, float results with `closeb`.
   scipy.linalg.pinv is the library oracle: the case carries the (input, output) pairs of the pinv
   calls made during the run; the model's Gram matrix must be EQUAL to a recorded input, and the
   recorded output is then used as pinv's value. *)
From Coq Require Import ZArith QArith List Bool PrimFloat.
From Coq Require String.
From NT Require Import F2Z Lists Close EventRelated.
Import ListNotations.
Open Scope Z_scope.

Inductive outcome :=
| OutArr (shape : list nat) (vals : list float) (t0 dt : Z)
| OutEt (l : list (list (list (list float) * Z * Z)))    (* et_data: [channel][type] (segments, t0, dt) *)
| OutErr (e : err)
| OutOther.

Inductive kcase :=
| KDesign (ev : list Z) (len : nat) (out : option (list (list Z)))   (* columns of the matrix / ValueError *)
| KFIR (data : list (list float)) (ev : events_in) (len : nat) (offset dt : Z)
       (pinv_calls : list (list (list Z) * list (list float))) (out : outcome)
| KEta (data : list (list float)) (ev : events_in) (len : nat) (offset dt : Z) (bc zs : bool) (out : outcome)
| KEts (data : list (list float)) (ev : events_in) (len : nat) (offset dt : Z) (bc zs : bool) (out : outcome)
| KEtData (data : list (list float)) (ev : events_in) (len : nat) (offset dt : Z) (out : outcome)
| KEtaEv (data : list (list float)) (times : list Z) (len : nat) (offset dt : Z) (bc zs : bool) (out : outcome)
| KEtsEv (data : list (list float)) (times : list Z) (len : nat) (offset dt : Z) (bc zs : bool) (out : outcome).

Definition err_eqb (a b : err) : bool :=
  match a, b with ValueError, ValueError | IndexError, IndexError => true | _, _ => false end.

Definition qdata (d : list (list float)) : list (list Q) := map (map f2q) d.
Definition finite_data (d : list (list float)) : bool := forallb (forallb ffinite) d.

Definition zmat_eqb (a b : list (list Z)) : bool := list_eqb zlist_eqb a b.

Definition pinv_table (calls : list (list (list Z) * list (list float))) (G : list (list Z)) : list (list Q) :=
  match find (fun gp => zmat_eqb (fst gp) G) calls with
  | Some gp => map (map f2q) (snd gp)
  | None => []
  end.

(* tolerances are relative to the scale of the data: atol = 1e-12 * max |data| (squared for sem^2) *)
Definition qmaxabs (l : list Q) : Q :=
  fold_left (fun m x => if Qle_bool m (Qabsb x) then Qred (Qabsb x) else m) l 0%Q.
Definition dscale (d : list (list float)) : Q := qmaxabs (map (fun r => qmaxabs (map f2q r)) d).

Definition close_vals (sc : Q) (vals : list float) (m : list Q) : bool :=
  forallb ffinite vals && all2 (closeb_tol rtol_default (atol_default * sc)%Q) (map f2q vals) m.

(* a standard error y against the model's squared value *)
Definition sem_ok (sc : Q) (y : float) (m : option Q) : bool :=
  match m with
  | None => negb (ffinite y)
  | Some v => ffinite y && Qle_bool 0 (f2q y) &&
              closeb_tol rtol_default (atol_default * sc * sc)%Q (f2q y * f2q y)%Q v
  end.

Definition flat3 {A} (h : list (list (list A))) : list A := List.concat (map (@List.concat A) h).
Definition flat2 {A} (h : list (list A)) : list A := List.concat h.

Definition cmp_arr {A} (cmp : list float -> list A -> bool) (r : res (list nat * list A)) (offset dt : Z)
  (check_dt : bool) (out : outcome) : bool :=
  match r, out with
  | Ok (sh, m), OutArr sh' vals t0 dt' =>
      natlist_eqb sh sh' && cmp vals m && (t0 =? out_t0 offset dt) && (negb check_dt || (dt' =? out_dt dt))
  | Err e, OutErr e' => err_eqb e e'
  | _, _ => false
  end.

Definition with_shape3 {A} (len : nat) (r : res (list (list (list A)))) : res (list nat * list A) :=
  match r with Ok h => Ok (shape3 h len, flat3 h) | Err e => Err e end.
Definition with_shape2 {A} (len : nat) (r : res (list (list A))) : res (list nat * list A) :=
  match r with Ok h => Ok (shape2 h len, flat2 h) | Err e => Err e end.

Definition et_item_ok (sc : Q) (offset dt : Z) (m : list (list Q)) (o : list (list float) * Z * Z) : bool :=
  let '(segs, t0, dt') := o in
  all2 (close_vals sc) segs m && (t0 =? out_t0 offset dt) && (dt' =? out_dt dt).

Definition check (c : kcase) : bool :=
  match c with
  | KDesign ev len out =>
      match fir_design_matrix ev len, out with
      | Ok X, Some cols => zmat_eqb (tabulateT X (length ev) (design_cols ev len)) cols
      | Err ValueError, None => true
      | _, _ => false
      end
  | KFIR data ev len offset dt calls out =>
      finite_data data &&
      cmp_arr (close_vals (dscale data)) (with_shape3 len (FIR (pinv_table calls) (qdata data) ev len offset)) offset dt false out
  | KEta data ev len offset dt bc zs out =>
      finite_data data &&
      cmp_arr (close_vals (dscale data)) (with_shape3 len (eta_ts (qdata data) ev len offset bc zs)) offset dt true out
  | KEts data ev len offset dt bc zs out =>
      finite_data data &&
      cmp_arr (all2 (sem_ok (dscale data))) (with_shape3 len (ets_ts (qdata data) ev len offset bc zs)) offset dt true out
  | KEtData data ev len offset dt out =>
      finite_data data &&
      match et_data_ts (qdata data) ev len offset, out with
      | Ok m, OutEt o => all2 (all2 (et_item_ok (dscale data) offset dt)) m o
      | Err e, OutErr e' => err_eqb e e'
      | _, _ => false
      end
  | KEtaEv data times len offset dt bc zs out =>
      finite_data data &&
      cmp_arr (close_vals (dscale data)) (with_shape2 len (eta_events (qdata data) times dt len offset bc zs)) offset dt true out
  | KEtsEv data times len offset dt bc zs out =>
      finite_data data &&
      cmp_arr (all2 (sem_ok (dscale data))) (with_shape2 len (ets_events (qdata data) times dt len offset bc zs)) offset dt true out
  end.

(* generated-fact side: which estimators read the two flags (reflection on the getters' code objects).
   The model: zscore is read by none of FIR / eta / ets / et_data (only by xcorr_eta, not modelled);
   correct_baseline is read by eta and ets only. *)
Definition flag_row := (String.string * bool * bool)%type.    (* method, reads _zscore, reads _correct_baseline *)
Definition flag_row_eqb (a b : flag_row) : bool :=
  let '(n, z, c) := a in let '(n', z', c') := b in String.eqb n n' && Bool.eqb z z' && Bool.eqb c c'.
Module FlagNames.
  Import String.
  Local Open Scope string_scope.
  Definition model_flag_table : list flag_row :=
    [("FIR", false, false); ("eta", false, true); ("ets", false, true); ("et_data", false, false);
     ("xcorr_eta", true, false)].
End FlagNames.
Definition model_flag_table := FlagNames.model_flag_table.
Definition flag_table_ok (gen : list flag_row) : bool := list_eqb flag_row_eqb gen model_flag_table.
