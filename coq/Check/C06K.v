(* Check/C06K.v — case formats and boolean checkers of the C06 correspondence (periodogram_csd,
   multi_taper_csd, get_spectra's Welch branch).  Same conventions as Check/C04K.v. *)
From Coq Require Import QArith Qround ZArith List Arith Bool PrimFloat.
From NT Require Import F2Z Lists Close QC Sums Spectral Csd C04K CsdP.
Import ListNotations.
Open Scope Q_scope.

(* all M*M rows of a matrix-valued function of the bin, row-major in (i, j) *)
Definition tab_mat (M L : nat) (S : nat -> nat -> nat -> C) : list (list C) :=
  concat (tab (fun i => tab (fun j => tab (fun f => let z := S i j f in (Qred (re z), Qred (im z))) L) M) M).
(* the same for a matrix known to be Hermitian (CsdP.pcsd_hermitian, CsdP.mtcsd_hermitian: for all
   i j f, S i j f =c= cconj (S j i f)): the entries above the diagonal are taken as the conjugates of
   the evaluated entries below it, which halves the evaluation *)
Definition herm_upper (S : nat -> nat -> nat -> C) : nat -> nat -> nat -> C :=
  fun i j f => if (j <=? i)%nat then S i j f else cconj (S j i f).
Definition tab_mat_h (M L : nat) (S : nat -> nat -> nat -> C) : list (list C) := tab_mat M L (herm_upper S).
Lemma herm_upper_pcsd sd nrm N n Fs X i j f :
  herm_upper (pcsd sd nrm N n Fs X) i j f =c= pcsd sd nrm N n Fs X i j f.
Proof. unfold herm_upper. destruct (j <=? i)%nat; [reflexivity|]. symmetry. apply pcsd_hermitian. Qed.
Lemma herm_upper_mtcsd sd N K Fs w d Y i j f :
  herm_upper (mtcsd sd N K Fs w d Y) i j f =c= mtcsd sd N K Fs w d Y i j f.
Proof. unfold herm_upper. destruct (j <=? i)%nat; [reflexivity|]. symmetry. apply mtcsd_hermitian. Qed.

(* ---------------------------------------------------------------- periodogram_csd *)
Record pc_case := mk_pc {
  pc_lead : list nat;
  pc_n : nat;
  pc_nfft_arg : option nat;
  pc_fs : float;
  pc_sides : sides_arg;
  pc_cplx : bool;
  pc_norm : bool;
  pc_use_sk : bool;
  pc_fft_n : nat;
  pc_fft_in_is_s : bool;
  pc_sk : list (list (float * float));
  pc_out_shape : list nat;
  pc_out : list (list (float * float))        (* M*M rows of L *)
}.

Definition check_pc (c : pc_case) : bool :=
  let M := prodn (pc_lead c) in
  let N := if pc_use_sk c then length (hd [] (pc_sk c)) else nfft_of (pc_nfft_arg c) (pc_n c) in
  let sd := resolve (pc_sides c) (pc_cplx c) in
  let L := out_len sd N in
  let Fs := Qred (f2q (pc_fs c)) in
  let Xs := map rowc (pc_sk c) in
  let X := fun i => sigof (nth i Xs []) in
  let out := map rowc (pc_out c) in
  let scale := maxabs_c (concat out) in
  (pc_use_sk c || ((pc_fft_n c =? N)%nat && pc_fft_in_is_s c))
  && (length (pc_sk c) =? M)%nat && lens_are N (pc_sk c)
  && natlist_eqb (pc_out_shape c) [M; M; L]
  && forallb (forallb finite_c) (pc_sk c)
  && close_rows_c scale (tab_mat_h M L (pcsd sd (pc_norm c) N (pc_n c) Fs X)) out.

(* ---------------------------------------------------------------- multi_taper_csd *)
Record mc_case := mk_mc {
  mc_lead : list nat;
  mc_n : nat;
  mc_nfft_arg : option nat;
  mc_fs : float;
  mc_sides : sides_arg;
  mc_cplx : bool;
  mc_adaptive : bool;
  mc_low_bias : bool;
  mc_bw : option float;
  mc_nw : option float;
  mc_dpss_args : nat * float * Z;
  mc_s : list (list (float * float));
  mc_dpss : list (list float);
  mc_eig : list float;
  mc_fft_n : nat;
  mc_fft_in : list (list (float * float));
  mc_y : list (list (float * float));
  mc_w : list (list (list float));            (* per channel: K rows of 1 or L *)
  mc_d : list (list float);                   (* per channel: the library value (sum_k |w_k|^2)**0.5, 1 or L entries *)
  mc_out_shape : list nat;
  mc_out : list (list (float * float))        (* M*M rows of L *)
}.

Definition dfun (r : list Q) : nat -> Q := match r with [v] => fun _ => v | _ => fun f => nth f r 0 end.
(* d is the square root of sum_k w_k^2 at every bin it is given for *)
Definition d_ok (K : nat) (w : list (list Q)) (d : list Q) : bool :=
  let wf := wfun w in
  forallb (fun f => sqrt_rel (nth f d 0) (auto_denom K wf f) && negb (Qeq_bool (nth f d 0) 0)) (seq 0 (length d)).

Definition check_mc (c : mc_case) : bool :=
  let M := prodn (mc_lead c) in
  let n := mc_n c in
  let Fs := Qred (f2q (mc_fs c)) in
  match mt_front n (mc_nfft_arg c) (nw_csd (oq (mc_bw c)) (oq (mc_nw c)) n Fs) (mc_low_bias c) (mc_dpss_args c)
                 (map rowc (mc_s c)) (map rowq (mc_dpss c)) (rowq (mc_eig c))
                 (mc_fft_n c) (map rowc (mc_fft_in c)) with
  | None => false
  | Some (K, NFFT, lam) =>
    let sd := resolve (mc_sides c) (mc_cplx c) in
    let L := out_len sd NFFT in
    let Ys := chunks K (map rowc (mc_y c)) M in
    let ws := map (map rowq) (mc_w c) in
    let ds := map rowq (mc_d c) in
    let Y := fun i => let yi := nth i Ys [] in fun k => sigof (nth k yi []) in
    let w := fun i => wfun (nth i ws []) in
    let d := fun i => dfun (nth i ds []) in
    let out := map rowc (mc_out c) in
    let scale := maxabs_c (concat out) in
    (length (mc_s c) =? M)%nat && (length (mc_y c) =? M * K)%nat && lens_are NFFT (mc_y c)
    && (length ws =? M)%nat && (length ds =? M)%nat && (0 <? K)%nat
    && forallb (weights_ok (mc_adaptive c) K L lam) ws
    && lens_are (if mc_adaptive c then L else 1%nat) ds
    && all2 (d_ok K) ws ds
    && natlist_eqb (mc_out_shape c) [M; M; L]
    && forallb (forallb finite_c) (mc_y c)
    && close_rows_c scale (tab_mat_h M L (mtcsd sd NFFT K Fs w d Y)) out
  end.

(* ---------------------------------------------------------------- get_spectra, Welch branch *)
Record wcall := mk_wcall {
  wc_a : nat; wc_b : nat;               (* mlab.csd(time_series[a], time_series[b], ...) *)
  wc_nfft : nat; wc_fs : float; wc_noverlap : nat;
  wc_detrend_none : bool;               (* detrend argument is mlab.detrend_none *)
  wc_window_hanning : bool;             (* window argument is mlab.window_hanning *)
  wc_scale_by_freq : bool;
  wc_out : list (float * float)         (* what mlab.csd returned, squeezed *)
}.
Record we_case := mk_we {
  we_M : nat;                           (* channels; 0 stands for a 1-d input *)
  we_cplx : bool;
  we_nfft_arg : option nat; we_fs_arg : option float; we_overlap_arg : option nat;
  we_two_pi : float;                    (* numpy's 2*pi, the default Fs *)
  we_calls : list wcall;
  we_out_shape : list nat;
  we_out : list (list (float * float))  (* M*M rows (or one row for a single channel) *)
}.

Definition pair_eqb (p q : nat * nat) : bool := (fst p =? fst q)%nat && (snd p =? snd q)%nat.
Definition find_call (calls : list wcall) (a b : nat) : list C :=
  match find (fun c => (wc_a c =? a)%nat && (wc_b c =? b)%nat) calls with
  | Some c => rowc (wc_out c) | None => [] end.

Definition check_we (c : we_case) : bool :=
  let NFFT := match we_nfft_arg c with Some v => v | None => welch_default_nfft end in
  let Fs := match we_fs_arg c with Some v => v | None => we_two_pi c end in
  let nov := match we_overlap_arg c with Some v => v | None => welch_default_overlap NFFT end in
  let L := welch_len (we_cplx c) NFFT in
  let single := (we_M c <=? 1)%nat in
  let expected := if single then [(0, 0)%nat] else welch_calls (we_M c) in
  let out := map rowc (we_out c) in
  let scale := maxabs_c (concat out) in
  let lib := fun a b => sigof (find_call (we_calls c) a b) in
  list_eqb pair_eqb (map (fun k => (wc_a k, wc_b k)) (we_calls c)) expected
  && forallb (fun k => (wc_nfft k =? NFFT)%nat && feqb (wc_fs k) Fs && (wc_noverlap k =? nov)%nat
                       && wc_detrend_none k && wc_window_hanning k && wc_scale_by_freq k
                       && (length (wc_out k) =? L)%nat) (we_calls c)
  && (if single
      then natlist_eqb (we_out_shape c) [L] && close_rows_c scale [tab (lib 0%nat 0%nat) L] out
      else natlist_eqb (we_out_shape c) [we_M c; we_M c; L]
           && close_rows_c scale (tab_mat (we_M c) L (welch_fxy lib)) out).
