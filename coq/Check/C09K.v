(* Check/C09K.v — case format and boolean checker of the C09 correspondence.
   A case carries the inputs of one cache / seed computation AND everything the implementation
   returned (cache contents, cache_to_* outputs, analyzer attributes) and what the dense path
   returned (get_spectra, coherency, mlab.csd called directly).  `check` evaluates the model of
   Model/Cache.v in exact Q[i] arithmetic on the exact values of the float inputs and compares.
   The DFT is evaluated from a twiddle table supplied as data (exp(-2 pi i k t / NFFT) as floats). *)
From Coq Require Import QArith List Bool ZArith Arith PrimFloat Uint63 FloatOps.
From NT Require Import F2Z Close QC Lists Cache.
Import ListNotations.
Open Scope Q_scope.

Definition fc := (float * float)%type.
Definition cf (p : fc) : C := (f2q (fst p), f2q (snd p)).
Definition cfin (p : fc) : bool := ffinite (fst p) && ffinite (snd p).

Definition cabs1 (z : C) : Q := Qabsb (re z) + Qabsb (im z).
Definition ccloseb (a b : C) : bool :=
  let tol := atol_default + rtol_default * (cabs1 a + cabs1 b) in
  Qle_bool (Qabsb (re a - re b)) tol && Qle_bool (Qabsb (im a - im b)) tol.

(* ---- cheap numerics for the checker only (never used by the model): a binary64 approximation
   of a rational, computed with the kernel's primitive floats *)
Definition z2fa (z : Z) : float :=
  let a := Z.abs z in
  let l := Z.log2 a in
  let f := if (l <? 62)%Z then of_uint63 (Uint63.of_Z a)
           else let s := (l - 61)%Z in FloatOps.Z.ldexp (of_uint63 (Uint63.of_Z (Z.shiftr a s))) s in
  if (z <? 0)%Z then PrimFloat.opp f else f.
Definition q2f (q : Q) : float := PrimFloat.div (z2fa (Qnum q)) (z2fa (Zpos (Qden q))).
Definition qapx (q : Q) : Q := f2q (q2f q).
Definition capx (z : C) : C := (qapx (re z), qapx (im z)).
(* compare a model value with an implementation float pair: the model value is first rounded to binary64
   (relative 1e-16, far below the tolerance) so that the comparison works on short numbers *)
Definition ccl (a : C) (b : fc) : bool := cfin b && ccloseb (capx a) (cf b).

(* DFT from the twiddle table, in binary64 like the library: X[k] = sum_t v[t] * tw[k][t] *)
Fixpoint fdot (v : list float) (r : list fc) (ar ai : float) : fc :=
  match v, r with
  | x :: v', (c, s) :: r' => fdot v' r' (PrimFloat.add ar (PrimFloat.mul x c)) (PrimFloat.add ai (PrimFloat.mul x s))
  | _, _ => (ar, ai)
  end.
Definition tw_dft (tw : list (list fc)) (v : list Q) (k : nat) : C :=
  cf (fdot (map q2f v) (nth k tw []) PrimFloat.zero PrimFloat.zero).

Definition r9 : Q := 1 # 1000000000.
Definition r12 : Q := 1 # 1000000000000.

(* c is (numerically) the value of the symbolic v:  c^2 * (pxx*pyy) = pxy^2, c * conj pxy >= 0 *)
Definition r24 : Q := 1 # 1000000000000000000000000.
Definition coh_ok (v : cval) (c : fc) : bool :=
  match v with
  | CZero => cfin c && ceqb (cf c) c0
  | CDivSqrt pxy pxx pyy =>
      Qeq_bool (im pxx) 0 && Qeq_bool (im pyy) 0 &&
      let a := capx pxy in
      let p := qapx (re pxx) in
      let q := qapx (re pyy) in
      let d := p * q in
      if Qle_bool d r24 then true      (* 0/0 (a spectrum vanishes at this bin): excluded by the theorems' guard;
                                          numpy returns nan on both paths, the search oracle compares the nan pattern *)
      else
      let z := cf c in
      let lhs := cscale d (cmul z z) in
      let rhs := cmul a a in
      let tol := r9 * (cabs1 lhs + cabs1 rhs) + r12 * d in
      cfin c &&
      Qle_bool (Qabsb (re lhs - re rhs)) tol && Qle_bool (Qabsb (im lhs - im rhs)) tol &&
      Qle_bool (- (r9 * cabs1 a)) (re (cmul z (cconj a)))
  end.

(* (phi, cos phi, sin phi) is the direction of z *)
Definition dir_ok (z : C) (w : float * float * float) : bool :=
  let '(_, c, s) := w in
  let u : C := (f2q c, - f2q s) in
  let r := cmul z u in
  closeb (f2q c * f2q c + f2q s * f2q s) 1 &&
  Qle_bool (Qabsb (im r)) ((1 # 1000000000) * cabs1 z + (1 # 1000000000000)) &&
  Qle_bool (- ((1 # 1000000000) * cabs1 z + (1 # 1000000000000))) (re r).
Definition rp_ok (v : pval) (phi : float) (ws : list (float * float * float)) : bool :=
  ffinite phi &&
  match v with
  | PZero => false
  | PAngle z => match ws with
                | [w] => dir_ok z w && closeb (f2q (fst (fst w))) (f2q phi)
                | _ => false end
  | PMeanAngle zs =>
      all2 dir_ok zs ws &&
      closeb (qsum (map (fun w => f2q (fst (fst w))) ws) / nq (length ws)) (f2q phi)
  end.

Fixpoint all3 {A} (p : nat -> A -> bool) (i : nat) (l : list A) : bool :=
  match l with [] => true | a :: l' => p i a && all3 p (S i) l' end.
Definition alli {A} (p : nat -> A -> bool) (l : list A) : bool := all3 p 0 l.

Definition squeeze (l : list nat) : list nat := filter (fun n => negb (n =? 1)%nat) l.
Definition qlist_eqb (a b : list Q) : bool := all2 Qeq_bool a b.

Inductive kcase :=
| KCache (nfft : nat) (ovl : option nat) (fs : float) (sbf psm : bool) (lb : float) (ub : option float)
         (wv : list float) (tw : list (list fc)) (data : list (list float)) (ij : list (Z * Z))
         (* implementation, cache side *)
         (o_freqs : list float)                       (* returned by cache_fft *)
         (o_afreqs : option (list float))             (* SparseCoherenceAnalyzer.frequencies when driven through it *)
         (o_nv : float) (o_unp : list nat)
         (o_sl : list (Z * list (list fc)))           (* FFT_slices, keys in the order of chans_of *)
         (o_conj : list (Z * list (list fc)))         (* FFT_conj_slices *)
         (o_psd : list (Z * bool * list fc))          (* cache_to_psd: key, has leading axis, values *)
         (o_cshape : nat * nat * nat) (o_coh : list (list (list fc)))   (* cache_to_coherency, whole array *)
         (o_rp : list (Z * Z * list (float * list (float * float * float))))  (* cache_to_relative_phase on listed pairs *)
         (* implementation / library, dense side *)
         (o_fxy : list (list (list fc)))              (* get_spectra(ts, method)[1] *)
         (o_dcoh : list (nat * nat * list fc))         (* coherency(ts, method)[1][i, j] on some pairs *)
         (o_csd : list (nat * nat * list fc))         (* mlab.csd(ts[j], ts[i], ..., scale_by_freq=sbf) *)
| KSeed (nfft : nat) (ovl : option nat) (fs : float) (sbf psm : bool) (lb : float) (ub : option float)
        (wv : list float) (tw : list (list fc)) (seeds : list (list float)) (seed2d : bool)
        (targets : list (list float))
        (o_ffull : list float)                        (* utils.get_freqs(Fs, NFFT) *)
        (o_afreqs : list float)                       (* analyzer.frequencies *)
        (o_shape : list nat) (o_coh : list fc).       (* analyzer.coherency, C order *)

Definition check (c : kcase) : bool :=
  match c with
  | KCache nfft ovl fs sbf psm lb ub wv tw data ij o_freqs o_afreqs o_nv o_unp o_sl o_conj o_psd
           o_cshape o_coh o_rp o_fxy o_dcoh o_csd =>
      let fsq := f2q fs in
      let wq := map f2q wv in
      let dft := tw_dft tw in
      let dq := map (map f2q) data in
      let ts := fun c : Z => nth (Z.to_nat c) dq [] in
      let fr := map f2q o_freqs in
      let '(lbi, ubi) := get_bounds fr (f2q lb) (option_map f2q ub) in
      let nf := (ubi - lbi)%nat in
      let ch := cache_fft dft ts ij wq nfft ovl fsq sbf psm lbi ubi in
      let chs := chans_of ij in
      let dtbl := dense_tbl dft dq wq nfft ovl in
      let dfxy := dense_fxy_tbl dtbl (mlab_scale wq fsq true) nfft in   (* = dense_fxy dft dq wq nfft ovl fsq, table shared *)
      let dsc := mlab_scale wq fsq sbf in
      let dcoh := dense_coh_of dfxy in                   (* = dense_coh dft dq wq nfft ovl fsq *)
      let nfull := mlab_numfreqs nfft in
      (length wq =? nfft)%nat && forallb ffinite wv && forallb (forallb ffinite) data &&
      (lbi <=? ubi)%nat && (ubi <=? nfull)%nat &&
      (* frequencies of the analyzer = the band of the full vector *)
      match o_afreqs with
      | None => true
      | Some af => qlist_eqb (map f2q af) (firstn nf (skipn lbi fr))
      end &&
      closeb (c_nv ch) (f2q o_nv) && ffinite o_nv &&
      list_eqb Nat.eqb (c_unpaired ch) o_unp &&
      (* FFT_slices / FFT_conj_slices *)
      list_eqb Z.eqb chs (map fst o_sl) &&
      forallb (fun e => all2 (all2 ccl) (c_sl ch (fst e)) (snd e)) o_sl &&
      (if psm then list_eqb Z.eqb chs (map fst o_conj) &&
                   forallb (fun e => all2 (all2 ccl) (conj_sl ch (fst e)) (snd e)) o_conj
       else match o_conj with [] => true | _ => false end) &&
      (* cache_to_psd *)
      list_eqb Z.eqb chs (map (fun e => fst (fst e)) o_psd) &&
      forallb (fun e => let '(key, is2d, vals) := e in
                        Bool.eqb is2d (psd_is2d ch key) &&
                        all2 ccl (map (cache_to_psd ch key) (seq 0 nf)) vals) o_psd &&
      (* cache_to_coherency: shape, every cell *)
      (let '(ci, cj, cf_) := coh_shape ch ij in
       let '(oi, oj, of_) := o_cshape in
       (ci =? oi)%nat && (cj =? oj)%nat && (cf_ =? of_)%nat && (cf_ =? nf)%nat &&
       (length o_coh =? ci)%nat &&
       alli (fun r row => (length row =? cj)%nat &&
              alli (fun c cell => (length cell =? nf)%nat &&
                     alli (fun k v => coh_ok (cache_to_coherency ch ij r c k) v) cell) row) o_coh) &&
      (* cache_to_relative_phase *)
      forallb (fun e => let '(i, j, cells) := e in
                        (length cells =? nf)%nat &&
                        alli (fun k cell => rp_ok (relphase_entry ch i j k) (fst cell) (snd cell)) cells) o_rp &&
      (* dense side: get_spectra, coherency, mlab.csd *)
      (length o_fxy =? length dq)%nat &&
      alli (fun i row => (length row =? length dq)%nat &&
             alli (fun j cell => (length cell =? nfull)%nat &&
                    alli (fun k v => ccl (dfxy i j k) v) cell) row) o_fxy &&
      forallb (fun e => let '(i, j, vals) := e in
                        (length vals =? nfull)%nat &&
                        alli (fun k v => coh_ok (dcoh i j k) v) vals) o_dcoh &&
      forallb (fun e => let '(i, j, vals) := e in
                        (length vals =? nfull)%nat &&
                        alli (fun k v => ccl (mlab_csd_from (nth j dtbl []) (nth i dtbl []) dsc nfft k) v) vals)
              o_csd
  | KSeed nfft ovl fs sbf psm lb ub wv tw seeds seed2d targets o_ffull o_afreqs o_shape o_coh =>
      let fsq := f2q fs in
      let wq := map f2q wv in
      let dft := tw_dft tw in
      let tq := map (map f2q) targets in
      let sq := map (map f2q) seeds in
      let tsf := fun c : Z => nth (Z.to_nat c) tq [] in
      let nt := length tq in
      let ns := length sq in
      let fr := map f2q o_ffull in
      let '(lbi, ubi) := get_bounds fr (f2q lb) (option_map f2q ub) in
      let nf := (ubi - lbi)%nat in
      let tc := target_cache dft tsf nt wq nfft ovl fsq sbf psm lbi ubi in
      let rows := map (fun s => seed_row dft tc nt s wq nfft ovl fsq sbf psm lbi ubi) sq in
      (length wq =? nfft)%nat && (lbi <=? ubi)%nat && (ubi <=? mlab_numfreqs nfft)%nat &&
      (seed2d || (ns =? 1)%nat) &&
      qlist_eqb (map f2q o_afreqs) (firstn nf (skipn lbi fr)) &&
      list_eqb Nat.eqb o_shape (squeeze (if seed2d then [ns; nt; nf] else [nt; nf])) &&
      (length o_coh =? ns * nt * nf)%nat &&
      alli (fun idx v =>
              let k := (idx mod nf)%nat in
              let t := ((idx / nf) mod nt)%nat in
              let s := (idx / (nf * nt))%nat in
              coh_ok (nth s rows (fun _ _ => CZero) t k) v) o_coh
  end.
