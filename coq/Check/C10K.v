(* Check/C10K.v — case format and boolean checker of the C10 correspondence.
   Each case carries the inputs of one call of the implementation (floats as primitive hex literals,
   turned into exact rationals by f2q) AND what the implementation returned; `check` evaluates the
   model of Model/AR.v in exact Q[i] arithmetic and compares with a tolerance.  Outputs of library
   kernels (scipy.linalg.solve, sigma ** 0.5, e^{-jw}) are data of the case; their contracts are
   validated on the case (Toeplitz residual, s*s = sigma). *)
From Coq Require Import QArith Qminmax List Bool Arith PrimFloat.
From NT Require Import F2Z Close QC AR ARP.
Import ListNotations.
Open Scope Q_scope.

Definition cfl := (float * float)%type.
Definition cf (p : cfl) : C := (f2q (fst p), f2q (snd p)).
Definition cfin (p : cfl) : bool := ffinite (fst p) && ffinite (snd p).
Definition cabs1 (z : C) : Q := Qabsb (re z) + Qabsb (im z).
(* |a - b|_1 <= tol * (|a|_1 + |b|_1 + scale) *)
Definition ccloseb (tol scale : Q) (a b : C) : bool :=
  Qle_bool (cabs1 (csub a b)) (tol * (cabs1 a + cabs1 b + scale)).
Definition qcloseb (tol scale : Q) (a b : Q) : bool :=
  Qle_bool (Qabsb (a - b)) (tol * (Qabsb a + Qabsb b + scale)).
Definition sum1 (l : list C) : Q := fold_left (fun acc z => Qred (acc + cabs1 z)) l 0.
Definition ceqb_exact (a b : C) : bool := Qeq_bool (re a) (re b) && Qeq_bool (im a) (im b).

Definition tol_cap : Q := 1 # 10000.
Definition tol_tight : Q := 1 # 1000000000.

Inductive case :=
(* AR_est_LD(x, order, rxx): R as used (supplied, or utils.autocorr(x) computed by the harness) *)
| KLD (R : list cfl) (order : nat) (fwd : bool) (tol : float) (ak : list cfl) (sigma : float)
(* one loop pass: AR_est_LD at orders p-2, p-1, p on the same R *)
| KLDS (R : list cfl) (p : nat) (ap : list cfl) (bpp : float) (ak : list cfl) (sigma : float)
(* utils.autocorr(x)[:nl+1] as AR_est_* obtain it, against the lagged-sum contract *)
| KAC (x : list cfl) (nl : nat) (R : list cfl)
(* AR_est_YW: xs = scipy.linalg.solve(toeplitz(R[:order]), R[1:order+1]) called by the harness *)
| KYW (R : list cfl) (order : nat) (fwd : bool) (tol : float) (xs : list cfl) (ak : list cfl) (sigma : float)
(* AR_psd(ak, sigma, n_freqs, sides) -> (w, psd);  s = sigma ** 0.5, zs = exp(-1j * w) *)
| KPSD (s sigma : float) (ak : list cfl) (onesided : bool) (n_freqs : nat) (zs : list cfl) (psd : list float)
(* ar_generator(sigma=, coefs=, drop_transients=, v=vfull) -> (u, v, coefs_out) *)
| KGENV (s sigma : float) (coefs : list cfl) (drop : nat) (vfull : list cfl) (u v cout : list cfl)
(* ar_generator with its own noise: only the returned (u, v) are known *)
| KGENR (s sigma : float) (coefs : list cfl) (drop : nat) (u v : list cfl).

Definition all_fin (l : list cfl) : bool := forallb cfin l.

(* residual of the Hermitian Toeplitz system, row by row, relative to sum_j |T_ij| |x_j| + |y_i| *)
Definition resid_ok (tol : Q) (order : nat) (Rq x : list C) : bool :=
  let T := toep (firstn order Rq) in
  forallb (fun i =>
    let sc := csumn (fun j => ofQ (cabs1 (T i j) * cabs1 (nthC x j))) order in
    ccloseb tol (re sc) (matvec order T x i) (nthC Rq (S i))) (seq 0 order).

Definition check_ld (R : list cfl) (order : nat) (fwd : bool) (tol : float) (ak : list cfl) (sigma : float) : bool :=
  let Rq := map cf R in
  let t := f2q tol in
  let aq := map cf ak in
  let sc := sum1 aq in
  all_fin R && all_fin ak && ffinite sigma && (1 <=? order)%nat && (order <? length R)%nat &&
  Qle_bool t tol_cap && Qle_bool 0 t &&
  (length ak =? order)%nat &&
  (* the returned coefficients satisfy the normal equations (backward check, every case) *)
  resid_ok (Qmax t tol_tight) order Rq aq &&
  (if fwd then
     let '(am, bm) := AR_est_LD (firstn (order + 1) Rq) order in
     all2 (ccloseb t sc) am aq && qcloseb t ((1 # 1000) * re (nthC Rq 0)) bm (f2q sigma)
   else true).

(* one pass of the loop: from the implementation's order p-1 result (ap, and b_{p-2} = sigma of order
   p-2, or R_0 when p = 2) the model's ld_step must give the implementation's order p result *)
Definition check_lds (R : list cfl) (p : nat) (ap : list cfl) (bpp : float) (ak : list cfl) (sigma : float) : bool :=
  let Rq := map cf R in
  let apq := map cf ap in
  let aq := map cf ak in
  let sc := sum1 aq in
  let st := mkLD apq (f2q bpp) (nthC apq (p - 2)) in
  let st' := ld_step Rq st p in
  all_fin R && all_fin ap && all_fin ak && ffinite bpp && ffinite sigma &&
  (2 <=? p)%nat && (p <? length R)%nat && (length ap =? p - 1)%nat && (length ak =? p)%nat &&
  all2 (ccloseb (1 # 10000000) sc) (ld_a st') aq &&
  qcloseb (1 # 10000000) ((1 # 1000) * re (nthC Rq 0))
          (ld_b st' * (1 - re (cmul (ld_k st') (cconj (ld_k st'))))) (f2q sigma).

Definition check_yw (R : list cfl) (order : nat) (fwd : bool) (tol : float) (xs ak : list cfl) (sigma : float) : bool :=
  let Rq := map cf R in
  let t := f2q tol in
  let xq := map cf xs in
  let aq := map cf ak in
  let '(am, sm) := AR_est_YW (fun _ _ _ => xq) Rq order in
  let sc := sum1 aq in
  let ssc := re (nthC Rq 0) + re (csumn (fun j => ofQ (cabs1 (nthC Rq (S j)) * cabs1 (nthC aq j))) order) in
  all_fin R && all_fin ak && all_fin xs && ffinite sigma && (1 <=? order)%nat && (order <? length R)%nat &&
  Qle_bool t tol_cap && Qle_bool 0 t &&
  (length ak =? order)%nat && (length xs =? order)%nat &&
  (* the contract of solve holds on this call, with the model's Toeplitz matrix *)
  resid_ok tol_tight order Rq xq &&
  (* the implementation returns what solve returned, and the model's sigma formula *)
  all2 (ccloseb tol_tight sc) am aq &&
  qcloseb tol_tight ssc sm (f2q sigma) &&
  (* and it agrees with the model's Levinson-Durbin solution *)
  (if fwd then
     let '(al, bl) := AR_est_LD (firstn (order + 1) Rq) order in
     all2 (ccloseb t sc) al aq && qcloseb t ((1 # 1000) * re (nthC Rq 0)) bl (f2q sigma)
   else true).

(* AR_psd_pt is evaluated through the closed form it is proved equal to (no 7000-bit gcd) *)
Definition psd_fast (s : Q) (ak : list C) (onesided : bool) (z : C) : Q :=
  (if onesided then 2 else 1) * ((s * s) / cnorm2 (ar_den ak z)).
Lemma psd_fast_eq s ak os z : ~ cnorm2 (ar_den ak z) == 0 -> AR_psd_pt s ak os z == psd_fast s ak os z.
Proof. intros H. unfold psd_fast. apply AR_psd_formula; [reflexivity|exact H]. Qed.

Definition check_psd (s sigma : float) (ak : list cfl) (onesided : bool) (n_freqs : nat) (zs : list cfl)
  (psd : list float) : bool :=
  let sq := f2q s in
  ffinite s && ffinite sigma && all_fin ak && all_fin zs && forallb ffinite psd &&
  qcloseb (1 # 1000000000000) 0 (sq * sq) (f2q sigma) &&
  (length psd =? real_n n_freqs onesided)%nat && (length zs =? length psd)%nat &&
  (let akq := map cf ak in
   all2 (fun z x => let d := Qred (cnorm2 (ar_den akq (cf z))) in
                    negb (Qeq_bool d 0) &&
                    (* = psd_fast sq akq onesided (cf z), with the denominator computed once *)
                    qcloseb tol_tight 0 ((if onesided then 2 else 1) * ((sq * sq) / d)) (f2q x)) zs psd).

(* u[n] = sum_k coefs[k] u[n-1-k] + s v[n], for n >= from *)
Definition rec_ok (s : Q) (coefs u v : list C) (from : nat) : bool :=
  let P := length coefs in
  forallb (fun n =>
    let terms := map (fun k => cmul (nthC coefs k) (if (S k <=? n)%nat then nthC u (n - S k) else c0)) (seq 0 P) in
    let rhs := cadd (cscale s (nthC v n)) (fold_left cadd terms c0) in
    ccloseb tol_tight (sum1 terms + cabs1 (cscale s (nthC v n))) (nthC u n) rhs)
    (seq from (length u - from)).

Definition check_genv (s sigma : float) (coefs : list cfl) (drop : nat) (vfull u v cout : list cfl) : bool :=
  let sq := f2q s in
  let cq := map cf coefs in
  let '(um, vm, cm) := ar_generator lfilter_ref sq cq drop (map cf vfull) in
  let uq := map cf u in
  ffinite s && ffinite sigma && all_fin coefs && all_fin vfull && all_fin u && all_fin v && all_fin cout &&
  qcloseb (1 # 1000000000000) 0 (sq * sq) (f2q sigma) &&
  all2 (ccloseb tol_tight ((1 # 1000) * sum1 uq)) um uq &&
  all2 ceqb_exact vm (map cf v) && all2 ceqb_exact cm (map cf cout) &&
  rec_ok sq cq uq (map cf v) (if (drop =? 0)%nat then 0 else length coefs).

Definition check_genr (s sigma : float) (coefs : list cfl) (drop : nat) (u v : list cfl) : bool :=
  let sq := f2q s in
  ffinite s && ffinite sigma && all_fin coefs && all_fin u && all_fin v &&
  qcloseb (1 # 1000000000000) 0 (sq * sq) (f2q sigma) &&
  (length u =? length v)%nat &&
  rec_ok sq (map cf coefs) (map cf u) (map cf v) (if (drop =? 0)%nat then 0 else length coefs).

Definition check_ac (x : list cfl) (nl : nat) (R : list cfl) : bool :=
  let xq := map (fun p => cr (cf p)) x in   (* lowest terms: integer-valued floats become integers *)
  let Rq := map cf R in
  let sc := cabs1 (autocorr_lag xq 0) in
  all_fin x && all_fin R && (length R =? nl + 1)%nat && (nl <? length x)%nat &&
  forallb (fun k => ccloseb tol_tight sc (autocorr_lag xq k) (nthC Rq k)) (seq 0 (nl + 1)).

Definition check (c : case) : bool :=
  match c with
  | KLD R order fwd tol ak sigma => check_ld R order fwd tol ak sigma
  | KLDS R p ap bpp ak sigma => check_lds R p ap bpp ak sigma
  | KAC x nl R => check_ac x nl R
  | KYW R order fwd tol xs ak sigma => check_yw R order fwd tol xs ak sigma
  | KPSD s sigma ak os nf zs psd => check_psd s sigma ak os nf zs psd
  | KGENV s sigma coefs drop vfull u v cout => check_genv s sigma coefs drop vfull u v cout
  | KGENR s sigma coefs drop u v => check_genr s sigma coefs drop u v
  end.
