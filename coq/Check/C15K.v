(* Check/C15K.v — case format and boolean checker of the C15 correspondence.
   A case carries how the harness built an input (or generated files) and what the implementation
   returned (descriptors of input and outputs, the Fs values it handed to the algorithm layer,
   data read from files); `check` evaluates Model/FrontEnd.v on the same input and compares:
   picoseconds, counts, units: exactly (the model's float steps are the code's, so the rounded
   picosecond values agree exactly); the sampling_rate attribute and Fs values: relative tolerance
   1e-12; averaged voxel data: tolerance. *)
From Coq Require Import ZArith List Bool QArith PrimFloat.
From NT Require Import F2Z Lists Close TimeArray FrontEnd.
Import ListNotations.
Open Scope Z_scope.

(* what the harness read off a TimeSeries object *)
Record obs := mk_obs {
  o_t0 : Z; o_dt : Z; o_unit : unit; o_n : Z;      (* int(T.t0), int(T.sampling_interval), T.time_unit, T.data.shape[-1] *)
  o_fs : float;                                     (* float(T.sampling_rate) *)
  o_first : Z; o_last : Z; o_tlen : Z }.            (* T.time[0], T.time[-1], len(T.time) *)

Definition series_of_obs (o : obs) : series :=
  mk_series (mk_axis (o_t0 o) (o_dt o) (o_unit o) (o_n o)) (o_fs o).

(* rates are floats the property does not fix bit for bit: relative tolerance 1e-12 + 1/dt (dt = the
   interval in ps: a rate recomputed from the whole-picosecond interval is as faithful as the stored
   one; a wrong unit is a factor 1000) *)
Definition fclose (dt : Z) (a b : float) : bool :=
  ffinite a && ffinite b
  && closeb_tol ((1 # 1000000000000) + (1 # Z.to_pos (Z.max 1 dt))) 0 (f2q a) (f2q b).

Definition obs_matches (s : series) (o : obs) : bool :=
  let a := s_axis s in
  (ax_t0 a =? o_t0 o) && (ax_dt a =? o_dt o) && unit_eqb (ax_unit a) (o_unit o) && (ax_n a =? o_n o)
  && fclose (ax_dt a) (s_fs s) (o_fs o)
  (* the .time attribute (UniformTime, np.arange on int64: C02's ground) is compared below 2^49 ps only *)
  && ((2 ^ 49 <=? ax_dt a)
      || ((o_tlen o =? ax_n a)
          && ((ax_n a <=? 0) || ((o_first o =? axis_time a 0) && (o_last o =? axis_time a (ax_n a - 1)))))).

Definition opt_matches (s : option series) (o : obs) : bool :=
  match s with Some s => obs_matches s o | None => false end.

Inductive case :=
(* an input, the Fs values seen by the algorithm layer, the analyzer outputs *)
| CAxis (i : inspec) (iobs : obs) (fs_used : list float) (outs : list (outsel * obs))
(* xcorr_norm: the indices at which the implementation normalised (value == corrcoef exactly) *)
| CZeroLag (n : Z) (idx : list Z)
(* concatenate_time_series: the runs (descriptor + data rows), the result *)
| CConcat (first : obs * list (list Z)) (rest : list (obs * list (list Z))) (out : obs) (data : list (list Z))
(* time_series_from_file, axis of the result of one ROI *)
| CRead (single : bool) (tr : trspec) (f : filt) (nm : norm) (lens : list Z) (out : obs)
(* time_series_from_file without filter/normalise/average: exact voxel data per ROI *)
| CReadData (v0 : @volume Z) (vs : list (@volume Z)) (rois : list (list (Z * Z * Z))) (out : list (list (list Z)))
(* with average=True: the mean over the voxels of the ROI *)
| CReadAvg (v0 : @volume Z) (vs : list (@volume Z)) (roi : list (Z * Z * Z)) (out : list float).

Definition zrows_eqb : list (list Z) -> list (list Z) -> bool := list_eqb zlist_eqb.

Definition check (c : case) : bool :=
  match c with
  | CAxis i iobs fs_used outs =>
      match build_input i with
      | None => false
      | Some s =>
          obs_matches s iobs
          && forallb (fun f => fclose (ax_dt (s_axis s)) (fs_to_algorithm s) f) fs_used
          && forallb (fun oo => opt_matches (out_series (fst oo) s) (snd oo)) outs
      end
  | CZeroLag n idx => forallb (fun k => k =? zero_lag_index n) idx
  | CConcat first rest out data =>
      opt_matches (concat_axis (series_of_obs (fst first)) (map (fun r => series_of_obs (fst r)) rest)) out
      && zrows_eqb (hcat (snd first) (map snd rest)) data
  | CRead single tr f nm lens out => opt_matches (reader_axis single tr f nm lens) out
  | CReadData v0 vs rois out =>
      match reader_data_rois v0 vs rois with
      | Some r => list_eqb zrows_eqb r out
      | None => false
      end
  | CReadAvg v0 vs roi out =>
      match reader_data v0 vs roi with
      | Some r => close_list (average_rows (map (map inject_Z) r)) (map f2q out)
      | None => false
      end
  end.

(* generated-fact side: the keyword pattern of every TimeSeries(...) call made while an analyzer
   output is evaluated, as recorded by the harness from the running code *)
Definition ho_eqb (a b : handover) : bool :=
  Bool.eqb (ho_rate a) (ho_rate b) && Bool.eqb (ho_interval a) (ho_interval b)
  && Bool.eqb (ho_t0 a) (ho_t0 b) && Bool.eqb (ho_unit a) (ho_unit b).
Definition handover_table_matches (gen : list (outsel * handover)) : bool :=
  forallb (fun p => ho_eqb (handover_of (fst p)) (snd p)) gen.
(* every kind of output must occur in the generated table *)
Definition sel_tag (o : outsel) : nat :=
  match o with ONorm => 0 | OAnalytic => 1 | ODerived => 2 | OFilt => 3 | OFir _ => 4 | OXcorr => 5
             | OSnr => 6 | OEvRate _ _ => 7 | OEvInterval _ _ => 8 end%nat.
Definition handover_table_complete (gen : list (outsel * handover)) : bool :=
  forallb (fun t => existsb (fun p => Nat.eqb (sel_tag (fst p)) t) gen) (seq 0 9).

(* ------------------------------------------------------------------ re-use histories *)
(* a history of constructions / set_inputs / reads on real analyzer objects, with the Fs the algorithm
   layer was called with at every read (None for the other operations) *)
Definition seq_matches (m : option (float * Z)) (o : option float) : bool :=
  match m, o with
  | None, None => true
  | Some (f, dt), Some g => fclose dt f g
  | _, _ => false
  end.
Definition check_seq (ops : list op) (seen : list (option float)) : bool :=
  all2 seq_matches (run_ops world0 ops) seen.

(* ------------------------------------------------------------------ events object: which sample is locked *)
(* (interval in ps, [(event time in ps, sample the implementation took the segment from)]) *)
Definition check_evidx (c : Z * list (Z * Z)) : bool :=
  forallb (fun p => snd p =? event_sample (fst p) (fst c)) (snd c).
