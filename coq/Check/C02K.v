(* Check/C02K.v — case format and boolean checker of the C02 correspondence, and the
   generated-fact side (argument-pattern validity tables obtained by probing the constructors).
   A case = one constructor call (as data) with what the implementation built: number of samples,
   first and last sample, t0 / sampling_interval / duration (ps), sampling_rate, unit, whether all
   successive differences equal the interval attribute; or the exception class. *)
From Coq Require Import ZArith List Bool QArith PrimFloat.
From NT Require Import F2Z Lists Close TimeArray C01K Uniform.
Import ListNotations.
Open Scope Z_scope.

(* ATs: the shape of the data array handed to TimeSeries (any number of dimensions, time last) and the other arguments *)
Inductive action := AUt (a : ut_args) | ATs (shape : list Z) (a : ts_args).

Record axis_obs := mk_axis_obs {
  b_n : Z; b_first : option Z; b_last : option Z; b_diff_ok : bool;
  b_t0 : Z; b_dt : Z; b_dur : Z; b_rate : float; b_unit : unit
}.

Inductive outcome :=
| OAxis (o : axis_obs)
| OSeries (dt t0 dur : Z) (rate : float) (u : option unit) (tm : outcome)   (* attributes, then .time *)
| OErr (e : err).

Definition rate_close (a b : float) : bool :=
  closeb_tol (1 # 1000000000000) (1 # 1000000000000000000) (f2q a) (f2q b) && Bool.eqb (ffinite a) (ffinite b).

Definition axis_ok (a : axis) (o : axis_obs) : bool :=
  (ax_n a =? b_n o) && (ax_t0 a =? b_t0 o) && (ax_dt a =? b_dt o) && (ax_dur a =? b_dur o) &&
  rate_close (ax_rate a) (b_rate o) && unit_eqb (ax_unit a) (b_unit o) && b_diff_ok o &&
  option_eqb Z.eqb (if 0 <? ax_n a then Some (ax_sample a 0) else None) (b_first o) &&
  option_eqb Z.eqb (if 0 <? ax_n a then Some (ax_sample a (ax_n a - 1)) else None) (b_last o).

Definition axis_res_ok (r : tres axis) (o : outcome) : bool :=
  match r, o with
  | TScope, _ => true
  | TOk a, OAxis b => axis_ok a b
  | TErr e, OErr e' => err_eqb e e'
  | _, _ => false
  end.

Definition check (c : action * outcome) : bool :=
  match fst c with
  | AUt a => axis_res_ok (ut_new a) (snd c)
  | ATs sh a0 =>
      let a := with_shape sh a0 in
      match ts_new a, snd c with
      | TScope, _ => true
      | TErr e, OErr e' => err_eqb e e'
      | TOk s, OSeries dt t0 dur rate u tm =>
          (se_dt s =? dt) && (se_t0 s =? t0) && (se_dur s =? dur) && rate_close (se_rate s) rate &&
          option_eqb unit_eqb (se_unit s) u && axis_res_ok (ts_time s) tm
      | _, _ => false
      end
  end.

(* ---------------------------------------------------------------- generated facts *)
Definition bools := [false; true].
(* order: with_data, sampling_interval, sampling_rate, length, duration — as itertools.product *)
Definition ut_table : list bool :=
  flat_map (fun d => flat_map (fun a => flat_map (fun b => flat_map (fun c => map (fun e =>
    ut_tspec_ok d (a, b, c, e)) bools) bools) bools) bools) bools.
(* order: sampling_interval, sampling_rate, duration *)
Definition ts_table : list bool :=
  flat_map (fun a => flat_map (fun b => map (fun c => ts_tspec_ok (a, b, c)) bools) bools) bools.

Definition tables_match (gen_ut gen_ts : list bool) : bool :=
  boollist_eqb gen_ut ut_table && boollist_eqb gen_ts ts_table.
