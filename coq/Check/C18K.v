(* Check/C18K.v — case format and boolean checker of the C18 correspondence.
   A case carries inputs AND what the implementation (or the wrapped library call) produced; `check`
   evaluates Model/Filter.v on the inputs and compares: exactly for integers / units / shapes /
   stage kinds / error flags, with tolerance (exact Q arithmetic on the dyadic values) for floats. *)
From Coq Require Import QArith ZArith List Bool Arith PrimFloat.
From NT Require Import F2Z Lists Close QC Sums TimeArray Filter.
Import ListNotations.
Open Scope Q_scope.

Definition fl := list float.
Definition cfl := list (float * float).

(* what the harness saw of FilterAnalyzer.fir's library calls *)
Inductive obs_plan :=
| PErr                                           (* ValueError *)
| PCalls (calls : list (bool * nat * float)).    (* (is high-pass stage, numtaps, cutoff) per firwin call *)
Inductive obs_iir :=
| IUnbound                                       (* UnboundLocalError before iirdesign is called *)
| ICall (wp ws : fl).                            (* arguments of the iirdesign call *)

Inductive case :=
(* filtered_fourier, one channel: X = library fft of the input channel, Z = library fft of the output *)
| KFourier (n : nat) (Fs lb : float) (ub : option float) (X Z : cfl)
(* a chain of wrapped filtfilt calls on one channel: raws = library outputs, out = what came back *)
| KChain (n : nat) (x : fl) (raws : list fl) (out : fl)
| KFirPlan (Fs lb : float) (ub : option float) (order n : nat) (o : obs_plan)
(* taps handed to filtfilt in a stage (hp = high-pass) against what firwin returned *)
| KTaps (hp : bool) (ntaps : nat) (fw b : fl)
| KIir (Fs lb : float) (ub : option float) (o : obs_iir)
| KAxis (m : meth) (i : tsin) (o : option axis)
(* filtered_boxcar, one channel; err = the call raised UnboundLocalError *)
| KBoxcar (n : nat) (Fs lb : float) (ub : option float) (iters : nat) (x out : fl) (err : bool)
(* boxcar_filter called directly with fractions of the sampling rate, one channel *)
| KBoxFilter (n : nat) (lbf ubf : float) (iters : nat) (x out : fl) (err : bool).

Definition tolr : Q := 1 # 1000000000.
Definition tola : Q := 1 # 1000000000.
Definition qclose (a b : Q) : bool := closeb_tol tolr tola a b.
Definition cclose (a b : C) : bool := qclose (re a) (re b) && qclose (im a) (im b).
Definition qs (l : fl) : list Q := map f2q l.
Definition cs (l : cfl) : list C := map (fun p => (f2q (fst p), f2q (snd p))) l.
Definition close_fn (f : nat -> Q) (n : nat) (out : fl) : bool := all2 qclose (tab f n) (qs out).
(* tolerances relative to the scale of the data of the case: |a-b| <= 1e-9 (max|data| + |a| + |b|) *)
Definition qabs_max (l : list Q) : Q := fold_left (fun m q => Qred (Qmax' m (Qabsb q))) l 0.
Definition qclose_s (s a b : Q) : bool := closeb_tol tolr (tola * s) a b.
Definition cclose_s (s : Q) (a b : C) : bool := qclose_s s (re a) (re b) && qclose_s s (im a) (im b).
Definition close_fn_s (s : Q) (f : nat -> Q) (n : nat) (out : fl) : bool :=
  all2 (qclose_s s) (tab f n) (qs out).
Definition cabs_max (l : list C) : Q := qabs_max (map re l ++ map im l).
Definition finite_all (l : fl) : bool := forallb ffinite l.

Definition axis_eqb (a b : axis) : bool :=
  zlist_eqb (ashape a) (ashape b) && (adelta a =? adelta b)%Z && (at0 a =? at0 b)%Z
  && unit_eqb (aunit a) (aunit b).

Definition stage_is_hp (s : stage) : bool := match s with LP _ => false | HP _ => true end.
Definition stage_frac (s : stage) : Q := match s with LP f => f | HP f => f end.

Definition plan_ok (p : plan) (o : obs_plan) : bool :=
  match p, o with
  | PlanErr, PErr => true
  | Plan nt st, PCalls calls =>
      all2 (fun s c => match c with (hp, k, f) =>
              Bool.eqb (stage_is_hp s) hp && (k =? nt)%nat && qclose (stage_frac s) (f2q f) end)
           st calls
  | _, _ => false
  end.

Definition iir_ok (s : iirspec) (o : obs_iir) : bool :=
  match s, o with
  | IirUnbound, IUnbound => true
  | IirBand p1 p2 s1 s2, ICall wp ws => all2 qclose [p1; p2] (qs wp) && all2 qclose [s1; s2] (qs ws)
  | IirLow p s, ICall wp ws => all2 qclose [p] (qs wp) && all2 qclose [s] (qs ws)
  | IirHigh p s, ICall wp ws => all2 qclose [p] (qs wp) && all2 qclose [s] (qs ws)
  | _, _ => false
  end.

Definition check (c : case) : bool :=
  match c with
  | KFourier n Fs lb ub X Z =>
      (length X =? n)%nat && (length Z =? n)%nat &&
      all2 (cclose_s (cabs_max (cs X)))
           (tab (fourier_spec (f2q Fs) n (f2q lb) (option_map f2q ub) (lc (cs X))) n) (cs Z)
  | KChain n x raws out =>
      (length x =? n)%nat && forallb (fun r => (length r =? n)%nat) raws &&
      close_fn_s (qabs_max (qs x ++ concat (map qs raws)))
                 (chain n (lq (qs x)) (map (fun r => lq (qs r)) raws)) n out
  | KFirPlan Fs lb ub order n o => plan_ok (fir_plan_fl Fs lb ub order n) o
  | KTaps hp ntaps fw b =>
      (length fw =? ntaps)%nat &&
      close_fn (stage_taps ntaps (if hp then HP 0 else LP 0) (lq (qs fw))) ntaps b
  | KIir Fs lb ub o => iir_ok (iir_spec_fl Fs lb ub) o
  | KAxis m i o => option_eqb axis_eqb (out_axis m i) o
  | KBoxcar n Fs lb ub iters x out err =>
      if boxcar_defined iters then
        negb err && (length x =? n)%nat &&
        (let cfg := box_cfg (f2q Fs) (f2q lb) (option_map f2q ub) in
         close_fn_s (qabs_max (qs x)) (boxcar_out n (fst cfg) (snd cfg) (lq (qs x))) n out)
      else err
  | KBoxFilter n lbf ubf iters x out err =>
      if boxcar_defined iters then
        negb err && (length x =? n)%nat &&
        (let Llb := if Qeq_bool (f2q lbf) 0 then None else Some (box_len (f2q lbf)) in
         close_fn_s (qabs_max (qs x)) (boxcar_chan n (box_len (f2q ubf)) Llb (lq (qs x))) n out)
      else err
  end.
