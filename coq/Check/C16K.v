(* Check/C16K.v — case formats and boolean checkers of the C16 tie.
   K: a case is a HISTORY: initial caller-owned objects, a list of calls (each may fail), and what
      the implementation showed afterwards: the exception class of every call, a byte-level
      snapshot (dtype, shape, values, attribute values) of every object the caller holds
      (initial objects and returned results), which of them share memory (np.shares_memory)
      and which share an attribute object (`is`).  `check` runs the model programs of
      Model/Alias.v on the model store and compares all of it exactly.
   G: a row is ONE call on canonical objects of given operand kinds with the observed bits
      (raised / which arguments changed / which arguments the result shares memory with);
      `check_row` compares the bits the model predicts. *)
From Coq Require Import ZArith List Bool Arith.
From NT Require Import Lists Alias.
Import ListNotations.

(* ---------------------------------------------------------------- building the initial objects *)
Inductive objdesc :=
| DArr (dt : dtype) (sh : list nat) (d : list Z)
| DList (fl : bool) (d : list Z)
| DTime (cf : Z) (sh : list nat) (d : list Z)
| DUniform (cf : Z) (d : list Z) (t0 si dur : Z)
| DSeries (dt : dtype) (sh : list nat) (d : list Z) (cf t0 si dur : Z).

Definition build (o : objdesc) : M loc :=
  match o with
  | DArr dt sh d => new_arr dt d sh KPlain
  | DList fl d => alloc (CList fl d)
  | DTime cf sh d => new_arr I64 d sh (KTime cf)
  | DUniform cf d t0 si dur =>
      a <- new_arr I64 [t0] [] (KTime cf) ;; b <- new_arr I64 [si] [] (KTime cf) ;;
      c <- new_arr I64 [dur] [] (KTime cf) ;;
      new_arr I64 d [length d] (KUniform cf a b c)
  | DSeries dt sh d cf t0 si dur =>
      x <- new_arr dt d sh KPlain ;;
      a <- new_arr I64 [t0] [] (KTime cf) ;; b <- new_arr I64 [si] [] (KTime cf) ;;
      c <- new_arr I64 [dur] [] (KTime cf) ;;
      alloc (CSeries x a b c)
  end.

Fixpoint build_all (l : list objdesc) (s : store) : list loc * store :=
  match l with
  | [] => ([], s)
  | o :: l' => match build o s with
               | (s1, Ok x) => let '(env, s2) := build_all l' s1 in (x :: env, s2)
               | (s1, Exn _) => build_all l' s1
               end
  end.

(* ---------------------------------------------------------------- calls *)
Inductive operand := OInt (z : Z) | OFloat (z : Z) | OVar (i : nat).
Inductive fop := FAdd | FSub | FRAdd | FRSub | FLt | FLe | FGt | FGe | FEq | FMul.

Definition b2z (b : bool) : Z := if b then 1%Z else 0%Z.
Definition fop_fn (f : fop) : Z -> Z -> Z :=
  match f with
  | FAdd | FRAdd => Z.add
  | FSub => Z.sub
  | FRSub => fun a b => (b - a)%Z
  | FMul => Z.mul
  | FLt => fun a b => b2z (a <? b)%Z
  | FLe => fun a b => b2z (a <=? b)%Z
  | FGt => fun a b => b2z (a >? b)%Z
  | FGe => fun a b => b2z (a >=? b)%Z
  | FEq => fun a b => b2z (a =? b)%Z
  end.
Definition fop_cmp (f : fop) : bool :=
  match f with FLt | FLe | FGt | FGe | FEq => true | _ => false end.

Inductive step :=
| STaOp (f : fop) (x : nat) (o : operand)            (* r = x `f` o          TimeArray *)
| STaSet (x : nat) (start len : nat) (o : operand)   (* x[start:start+len] = o *)
| SUtIop (neg : bool) (x : nat) (o : operand)        (* x += o / x -= o      UniformTime *)
| SUtImul (x : nat) (o : operand)                    (* x *= o *)
| SCopy (x : nat)                                    (* r = x.copy() *)
| SDerive (k : option Z) (x : nat)                   (* r derived from x through numpy: Some k = own buffer,
                                                        values shifted by k (x + 0, x - 1, copy.copy, deepcopy,
                                                        np.copy(subok=True)); None = a view (x[:], x.view()) *)
| STsOp (f : fop) (x : nat) (o : operand)            (* r = x `f` o          TimeSeries *)
| STsIop (f : fop) (x : nat) (o : operand)           (* x `f`= o *)
| SCsd (x : nat) (k : option nat) (N : option Z)     (* periodogram_csd(x, Sk=k, NFFT=N), result dropped *)
| SBoxcar (x : nat)                                  (* r = boxcar_filter(x) *)
| SFBoxcar (x : nat).                                (* r = FilterAnalyzer(x).filtered_boxcar.data *)

Inductive outcome := OOk | OExn (e : exn).

Definition operand_val (env : list loc) (o : operand) : option pyval :=
  match o with
  | OInt z => Some (PInt z)
  | OFloat z => Some (PFloat z)
  | OVar i => match nth_error env i with Some l => Some (PRef l) | None => None end
  end.

Definition lift {A} (m : M A) : M (option loc) := bind m (fun _ => ret None).
Definition liftl (m : M loc) : M (option loc) := bind m (fun l => ret (Some l)).

(* x.copy() dispatches on the class of x *)
Definition copy_any (x : loc) : M loc :=
  c <- read x ;;
  match c with
  | CArr _ _ (KUniform _ _ _ _) => ut_copy x
  | CArr _ _ _ => copy_arr x
  | CSeries _ _ _ _ => ts_copy x
  | _ => raise EAttr
  end.

(* deriving dispatches on the class: arrays through numpy, a series only by deepcopy (= a full copy) *)
Definition derive_any (k : option Z) (x : loc) : M loc :=
  c <- read x ;;
  match c, k with
  | CArr _ _ _, Some z => np_derive (map (Z.add z)) x
  | CArr _ _ _, None => view_of x
  | CSeries _ _ _ _, Some _ => ts_copy x
  | _, _ => raise EAttr
  end.

Definition series_data (x : loc) : M loc :=
  c <- read x ;; match c with CSeries d _ _ _ => ret d | _ => raise EAttr end.

Definition run_step (env : list loc) (st : step) : M (option loc) :=
  let with2 x o (k : loc -> pyval -> M (option loc)) :=
    match nth_error env x, operand_val env o with
    | Some l, Some v => k l v
    | _, _ => raise EOther
    end in
  let with1 x (k : loc -> M (option loc)) :=
    match nth_error env x with Some l => k l | None => raise EOther end in
  match st with
  | STaOp f x o => with2 x o (fun l v => liftl (ta_binop (fop_fn f) (fop_cmp f) l v))
  | STaSet x a n o => with2 x o (fun l v => lift (ta_setitem l a n v))
  | SUtIop neg x o => with2 x o (fun l v => lift (ut_iop (if neg then (-1)%Z else 1%Z) l v))
  | SUtImul x o => with2 x o (fun l v => lift (ut_imul l v))
  | SCopy x => with1 x (fun l => liftl (copy_any l))
  | SDerive k x => with1 x (fun l => liftl (derive_any k l))
  | STsOp f x o => with2 x o (fun l v => liftl (ts_binop (fop_fn f) l v))
  | STsIop f x o => with2 x o (fun l v => lift (ts_iop (fop_fn f) l v))
  | SCsd x k N =>
      with1 x (fun l => match k with
                        | None => lift (csd l None N)
                        | Some j => match nth_error env j with
                                    | Some lk => lift (csd l (Some lk) N)
                                    | None => raise EOther end
                        end)
  | SBoxcar x => with1 x (fun l => liftl (boxcar l))
  | SFBoxcar x => with1 x (fun l => liftl (filtered_boxcar l))
  end.

Fixpoint run (sts : list step) (env : list loc) (s : store) : list loc * store * list outcome :=
  match sts with
  | [] => (env, s, [])
  | st :: sts' =>
      match run_step env st s with
      | (s1, Ok r) =>
          let env1 := match r with Some l => env ++ [l] | None => env end in
          let '(e, s2, outs) := run sts' env1 s1 in (e, s2, OOk :: outs)
      | (s1, Exn x) =>
          let '(e, s2, outs) := run sts' env s1 in (e, s2, OExn x :: outs)
      end
  end.

(* ---------------------------------------------------------------- what the implementation showed *)
Inductive osnap :=
| OArr (dt : dtype) (sh : list nat) (d : list Z) (cf : Z)
| OUniform (sh : list nat) (d : list Z) (cf t0 si dur : Z)
| OList (fl : bool) (d : list Z)
| OSeries (dt : dtype) (sh : list nat) (d : list Z) (t0 si dur : Z)
| OOpaque (dt : dtype) (sh : list nat).

Definition dtype_eqb (a b : dtype) : bool :=
  match a, b with I32, I32 | I64, I64 | F64, F64 | B8, B8 => true | _, _ => false end.
Definition exn_eqb (a b : exn) : bool :=
  match a, b with
  | EValue, EValue | EType, EType | EIndex, EIndex | EAttr, EAttr | EZero, EZero | EOther, EOther => true
  | _, _ => false end.
Definition outcome_eqb (a b : outcome) : bool :=
  match a, b with OOk, OOk => true | OExn x, OExn y => exn_eqb x y | _, _ => false end.

Definition scalar_is (a : option asnap) (z : Z) : bool :=
  match a with
  | Some x => zlist_eqb (s_data x) [z] && natlist_eqb (s_shape x) [] && dtype_eqb (s_dt x) I64
  | None => false
  end.

Definition osnap_match (s : store) (l : loc) (o : osnap) : bool :=
  match snapshot s l, o with
  | SnArr a, OArr dt sh d cf =>
      dtype_eqb (s_dt a) dt && natlist_eqb (s_shape a) sh && zlist_eqb (s_data a) d && Z.eqb (s_cf a) cf
  | SnArr a, OOpaque dt sh => dtype_eqb (s_dt a) dt && natlist_eqb (s_shape a) sh
  | SnUniform a t0 si dur, OUniform sh d cf z0 z1 z2 =>
      dtype_eqb (s_dt a) I64 && natlist_eqb (s_shape a) sh && zlist_eqb (s_data a) d && Z.eqb (s_cf a) cf
      && scalar_is t0 z0 && scalar_is si z1 && scalar_is dur z2
  | SnList fl d, OList fl' d' => Bool.eqb fl fl' && zlist_eqb d d'
  | SnSeries (Some a) t0 si dur, OSeries dt sh d z0 z1 z2 =>
      dtype_eqb (s_dt a) dt && natlist_eqb (s_shape a) sh && zlist_eqb (s_data a) d
      && scalar_is t0 z0 && scalar_is si z1 && scalar_is dur z2
  | _, _ => false
  end.

Fixpoint all2 {A B} (f : A -> B -> bool) (a : list A) (b : list B) : bool :=
  match a, b with
  | [], [] => true
  | x :: a', y :: b' => f x y && all2 f a' b'
  | _, _ => false
  end.

(* the buffer an object keeps its samples in *)
Definition main_buf (s : store) (l : loc) : option loc :=
  match mem s l with
  | Some (CArr b _ _) => Some b
  | Some (CSeries d _ _ _) => match mem s d with Some (CArr b _ _) => Some b | _ => None end
  | _ => None
  end.
Definition attr_locs (s : store) (l : loc) : list loc :=
  match mem s l with
  | Some (CArr _ _ (KUniform _ a b c)) => [a; b; c]
  | Some (CSeries _ a b c) => [a; b; c]
  | _ => []
  end.

Fixpoint index_from {A} (i : nat) (l : list A) : list (nat * A) :=
  match l with [] => [] | a :: l' => (i, a) :: index_from (S i) l' end.

Definition pairs_where (s : store) (env : list loc) (rel : loc -> loc -> bool) : list (nat * nat) :=
  let ie := index_from 0 env in
  flat_map (fun p => flat_map (fun q => if Nat.ltb (fst p) (fst q) && rel (snd p) (snd q)
                                        then [(fst p, fst q)] else []) ie) ie.

Definition shares_rel (s : store) (x y : loc) : bool :=
  match main_buf s x, main_buf s y with
  | Some a, Some b => Nat.eqb a b
  | _, _ => false
  end.
Definition ashares_rel (s : store) (x y : loc) : bool :=
  existsb (fun a => existsb (Nat.eqb a) (attr_locs s y)) (attr_locs s x).

Definition pair_eqb (a b : nat * nat) : bool := Nat.eqb (fst a) (fst b) && Nat.eqb (snd a) (snd b).

Inductive kcase :=
  KCase (init : list objdesc) (steps : list step) (outs : list outcome) (final : list osnap)
        (shares ashares : list (nat * nat)).

Definition check (c : kcase) : bool :=
  match c with
  | KCase init steps outs final sh ash =>
      let '(env0, s0) := build_all init empty_store in
      let '(env, s, mo) := run steps env0 s0 in
      all2 outcome_eqb mo outs
      && all2 (osnap_match s) env final
      && list_eqb pair_eqb (pairs_where s env (shares_rel s)) sh
      && list_eqb pair_eqb (pairs_where s env (ashares_rel s)) ash
  end.

(* ---------------------------------------------------------------- G rows *)
Definition asnap_eqb (a b : asnap) : bool :=
  dtype_eqb (s_dt a) (s_dt b) && natlist_eqb (s_shape a) (s_shape b) && zlist_eqb (s_data a) (s_data b)
  && Z.eqb (s_cf a) (s_cf b).
Definition oasnap_eqb := option_eqb asnap_eqb.
Definition snap_eqb (a b : snap) : bool :=
  match a, b with
  | SnArr x, SnArr y => asnap_eqb x y
  | SnUniform x a1 a2 a3, SnUniform y b1 b2 b3 =>
      asnap_eqb x y && oasnap_eqb a1 b1 && oasnap_eqb a2 b2 && oasnap_eqb a3 b3
  | SnList f d, SnList f' d' => Bool.eqb f f' && zlist_eqb d d'
  | SnSeries a0 a1 a2 a3, SnSeries b0 b1 b2 b3 =>
      oasnap_eqb a0 b0 && oasnap_eqb a1 b1 && oasnap_eqb a2 b2 && oasnap_eqb a3 b3
  | SnNone, SnNone => true
  | _, _ => false
  end.

(* one call on canonical objects; observed: raised?, for every initial object: changed?, and
   does the result share memory with it? *)
Inductive grow := GRow (init : list objdesc) (st : step) (raised : bool) (changed shares : list bool).

Definition check_row (r : grow) : bool :=
  match r with
  | GRow init st raised changed shares =>
      let '(env0, s0) := build_all init empty_store in
      match run_step env0 st s0 with
      | (s1, rr) =>
          let ch := map (fun l => negb (snap_eqb (snapshot s0 l) (snapshot s1 l))) env0 in
          let shr := match rr with
                     | Ok (Some x) => map (fun l => shares_rel s1 x l) env0
                     | _ => map (fun _ => false) env0
                     end in
          Bool.eqb (match rr with Exn _ => true | Ok _ => false end) raised
          && boollist_eqb ch changed && boollist_eqb shr shares
      end
  end.
