(* Check/C17K.v — case format and boolean checker of the C17 correspondence.
   A case = an initial axis and a tree of operation histories; every node carries what the
   implementation showed after that operation (samples, the four attributes, the exception
   raised, index_at(axis[i]) for every i).  `check` runs the model along every path of the tree
   and compares at every node: integers and exception classes exactly, the rate within a RELATIVE tolerance (1e-9; no absolute floor
   that a small rate could hide under). *)
From Coq Require Import ZArith List Bool QArith PrimFloat.
From NT Require Import F2Z Lists Close TimeArray C01K UTimeOps.
Import ListNotations.
Open Scope Z_scope.

Record obs := mk_obs {
  o_samples : list Z; o_t0 : Z; o_dt : Z; o_dur : Z; o_rate : float;
  o_exc : option err;
  o_look : list (res Z)
}.

Inductive tree := Node (op : uop) (o : obs) (kids : list tree).

Record case := mk_case {
  c_t0 : Z; c_dt : Z; c_n : nat; c_cf : Z;
  c_init : obs;             (* the freshly constructed axis as observed *)
  c_tree : list tree
}.

Definition res_eqb (a b : res Z) : bool :=
  match a, b with
  | Ok x, Ok y => x =? y
  | Err e, Err e' => err_eqb e e'
  | _, _ => false
  end.

Definition obs_ok (st : ustate) (e : option err) (o : obs) : bool :=
  zlist_eqb (samples st) (o_samples o) && (a_t0 st =? o_t0 o) && (a_dt st =? o_dt o) &&
  (a_dur st =? o_dur o) && closeb_tol (1 # 1000000000) (1 # 1000000000000000000000000000000) (a_rate st) (f2q (o_rate o)) &&
  option_eqb err_eqb e (o_exc o) &&
  list_eqb res_eqb (map (uindex_at st) (samples st)) (o_look o).

Fixpoint check_tree (st : ustate) (t : tree) : bool :=
  match t with
  | Node op o kids =>
      let r := ustep op st in
      obs_ok (fst r) (snd r) o && forallb (check_tree (fst r)) kids
  end.

Definition check (c : case) : bool :=
  let st := init_state (c_t0 c) (c_dt c) (c_n c) (c_cf c) in
  obs_ok st None (c_init c) && forallb (check_tree st) (c_tree c).
