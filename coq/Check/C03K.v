(* Check/C03K.v — case format and boolean checker of the C03 correspondence.
   A case = one call of the implementation (the object state and the arguments as data) together
   with what the implementation returned; `check` evaluates Model/Index.v on the same call and
   compares exactly (positions, slice ends, picosecond values, units, 0-d flags, data columns,
   exception class).  Epochs arguments are given as the constructor's arguments: the model builds
   the Epochs object itself (epochs_ctor) before using it. *)
From Coq Require Import ZArith List Bool String PrimFloat.
From NT Require Import F2Z Lists TimeArray Index.
Import ListNotations.
Open Scope Z_scope.

Definition col := list Z.      (* one data column data[..., k] / one per-event record, flattened *)

Inductive ekey_arg := GInt (k : Z) | GFloat (x : float) | GEpochs (ea : eargs).

Inductive action :=
| ATIndex (self : tarr) (t : data) (tol : option data) (md : mode)
| ATAt (self : tarr) (t : data) (tol : option data)
| ATGet (self : tarr) (k : Z)                                 (* self[k], integer key of any integer type *)
| AUGet (ax : uaxis) (k : Z)
| ATSlice (self : tarr) (ea : eargs)
| ATDuring (self : tarr) (ea : eargs)
| AUWf (ax : uaxis)
| AUIndex (ax : uaxis) (t : data) (boolean : bool)
| AUAt (ax : uaxis) (t : data)
| AUSlice (ax : uaxis) (ea : eargs)
| AUDuring (ax : uaxis) (ea : eargs)
| ASTime (s : series col)
| ASAt (s : series col) (t : data)
| ASInt (s : series col) (k : Z)
| ASDuring (s : series col) (ea : eargs)
| AEGet (ev : events col) (key : ekey_arg)
| AEpochs (ea : eargs)
| AEpochsGet (ea : eargs) (key : ekidx)                       (* Epochs(...)[key] *)
| ASDuringGet (s : series col) (ea : eargs) (key : ekidx).    (* series.during(Epochs(...)[key]) *)

Inductive outcome :=
| OIdx (i : idx)
| OUIdx (i : uidx)
| OSliceN (lo hi : nat)
| OSliceZ (lo hi : Z)
| OTimes (p : list Z) (u : unit) (sc : bool)
| OBool (b : bool)
| OAxis (ax : uaxis)
| OCol (c : col)
| OCols (l : list col)
| ODuring (d : during_out col)
| OEvents (p : list Z) (u : unit) (d : list col)
| OEpochs (e : epochs)
| OErr (e : xerr)
| OOther (what : string).

Definition with_epochs (ea : eargs) (f : epochs -> outcome) : outcome :=
  match epochs_ctor ea with XOk e => f e | XErr x => OErr x end.

Definition of_x {A} (r : xres A) (f : A -> outcome) : outcome :=
  match r with XOk a => f a | XErr x => OErr x end.

Definition model_outcome (a : action) : outcome :=
  match a with
  | ATIndex self t tol md => of_x (index_at self t tol md) OIdx
  | ATAt self t tol => of_x (tarr_at self t tol) (fun r => OTimes (payload r) (tunit r) (scalar r))
  | ATGet self k => of_x (tarr_getint self k) (fun r => OTimes (payload r) (tunit r) (scalar r))
  | AUGet ax k => of_x (uaxis_getint ax k) (fun r => OTimes (payload r) (tunit r) (scalar r))
  | ATSlice self ea => with_epochs ea (fun e => of_x (tslice_during self e) (fun s => OSliceN (fst s) (snd s)))
  | ATDuring self ea => with_epochs ea (fun e => of_x (tarr_during self e)
                                                     (fun r => OTimes (payload r) (tunit r) (scalar r)))
  | AUWf ax => OBool (wf_axisb ax)
  | AUIndex ax t b => of_x (uindex_at ax t b) OUIdx
  | AUAt ax t => of_x (uat ax t) (fun r => OTimes (payload r) (tunit r) (scalar r))
  | AUSlice ax ea => with_epochs ea (fun e => of_x (uslice_during ax e) (fun s => OSliceZ (fst s) (snd s)))
  | AUDuring ax ea => with_epochs ea (fun e => of_x (uduring ax e) (fun p => OTimes p (u_unit ax) false))
  | ASTime s => OAxis (series_time s)
  | ASAt s t => of_x (series_at s t) (fun r => match r with SOne c => OCol c | SMany l => OCols l end)
  | ASInt s k => of_x (series_getint s k) OCol
  | ASDuring s ea => with_epochs ea (fun e => of_x (series_during s e) ODuring)
  | AEGet ev key =>
      match key with
      | GInt k => of_x (events_get ev (KInt k))
                       (fun r => OEvents (payload (ev_time r)) (tunit (ev_time r)) (ev_data r))
      | GFloat x => of_x (events_get ev (KFloat x))
                         (fun r => OEvents (payload (ev_time r)) (tunit (ev_time r)) (ev_data r))
      | GEpochs ea => with_epochs ea (fun e => of_x (events_get ev (KEpochs e))
                         (fun r => OEvents (payload (ev_time r)) (tunit (ev_time r)) (ev_data r)))
      end
  | AEpochs ea => of_x (epochs_ctor ea) OEpochs
  | AEpochsGet ea key => with_epochs ea (fun e => of_x (epochs_getitem e key) OEpochs)
  | ASDuringGet s ea key => with_epochs ea (fun e => of_x (epochs_getitem e key)
                                                         (fun e' => of_x (series_during s e') ODuring))
  end.

Definition xerr_eqb (a b : xerr) : bool :=
  match a, b with
  | XValue, XValue | XIndex, XIndex | XNotImpl, XNotImpl | XType, XType | XOther, XOther => true
  | _, _ => false
  end.

Definition idx_eqb (a b : idx) : bool :=
  match a, b with
  | IList l, IList l' => natlist_eqb l l'
  | IScalar k, IScalar k' => Nat.eqb k k'
  | _, _ => false
  end.

Definition uidx_eqb (a b : uidx) : bool :=
  match a, b with
  | UScalar k, UScalar k' => k =? k'
  | UList l, UList l' => zlist_eqb l l'
  | UMask m, UMask m' => boollist_eqb m m'
  | _, _ => false
  end.

Definition cols_eqb := list_eqb zlist_eqb.

Definition tarr_eqb (a b : tarr) : bool :=
  zlist_eqb (payload a) (payload b) && unit_eqb (tunit a) (tunit b) && Bool.eqb (scalar a) (scalar b).

Definition uaxis_eqb (a b : uaxis) : bool :=
  zlist_eqb (u_samples a) (u_samples b) && (u_t0 a =? u_t0 b) && (u_dt a =? u_dt b) &&
  (u_dur a =? u_dur b) && unit_eqb (u_unit a) (u_unit b).

Definition dsel_eqb (a b : dsel col) : bool :=
  match a, b with
  | DOne l, DOne l' => cols_eqb l l'
  | DRows r, DRows r' => list_eqb cols_eqb r r'
  | _, _ => false
  end.

Definition epochs_eqb (a b : epochs) : bool :=
  zlist_eqb (e_start a) (e_start b) && zlist_eqb (e_stop a) (e_stop b) &&
  Bool.eqb (e_scalar a) (e_scalar b) && tarr_eqb (e_offset a) (e_offset b) &&
  unit_eqb (e_unit a) (e_unit b).

Definition outcome_eqb (a b : outcome) : bool :=
  match a, b with
  | OIdx i, OIdx i' => idx_eqb i i'
  | OUIdx i, OUIdx i' => uidx_eqb i i'
  | OSliceN lo hi, OSliceN lo' hi' => Nat.eqb lo lo' && Nat.eqb hi hi'
  | OSliceZ lo hi, OSliceZ lo' hi' => (lo =? lo') && (hi =? hi')
  | OTimes p u sc, OTimes p' u' sc' => zlist_eqb p p' && unit_eqb u u' && Bool.eqb sc sc'
  | OBool b, OBool b' => Bool.eqb b b'
  | OAxis x, OAxis x' => uaxis_eqb x x'
  | OCol c, OCol c' => zlist_eqb c c'
  | OCols l, OCols l' => cols_eqb l l'
  | ODuring d, ODuring d' => dsel_eqb (d_sel d) (d_sel d') && (d_t0 d =? d_t0 d') && (d_dt d =? d_dt d') && unit_eqb (d_unit d) (d_unit d')
  | OEvents p u d, OEvents p' u' d' => zlist_eqb p p' && unit_eqb u u' && cols_eqb d d'
  | OEpochs e, OEpochs e' => epochs_eqb e e'
  | OErr e, OErr e' => xerr_eqb e e'
  | _, _ => false
  end.

Definition check (c : action * outcome) : bool := outcome_eqb (model_outcome (fst c)) (snd c).
