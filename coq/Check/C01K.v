(* Check/C01.v — case format and boolean checker of the C01 correspondence.
   A case = one call of the implementation (as data) together with what the implementation
   returned; `check` evaluates the model on the same call and compares exactly. *)
From Coq Require Import ZArith List Bool String PrimFloat.
From NT Require Import F2Z Lists TimeArray.
Import ListNotations.
Open Scope Z_scope.

Inductive action :=
| ACtor (ua : uarg) (d : data)
| AArith (op : arith) (self : tarr) (o : operand)
| ACmp (op : cmp) (self : tarr) (o : operand)
| AReduce (r : red) (t : tarr)
| AConvert (t : tarr) (u : unit)
| AReflNp (op : arith) (self : tarr) (v : Z).

(* what the implementation returned *)
Inductive outcome :=
| OutTime (p : list Z) (u : unit) (sc : bool)      (* int64 time array *)
| OutBools (l : list bool) (sc : bool)
| OutErr (e : err)
| OutOther (what : string).                        (* e.g. a float64 time array *)

Definition err_eqb (a b : err) : bool :=
  match a, b with
  | ValueError, ValueError | TypeError, TypeError | NotImplementedErr, NotImplementedErr
  | AttributeErr, AttributeErr | OtherError, OtherError => true
  | _, _ => false
  end.

Definition model_outcome (a : action) : outcome :=
  let of_t (r : res tarr) := match r with
                             | Ok t => OutTime (payload t) (tunit t) (scalar t)
                             | Err e => OutErr e end in
  match a with
  | ACtor ua d => of_t (ctor ua d)
  | AArith op s o => of_t (binop_arith op s o)
  | ACmp op s o => match binop_cmp op s o with
                   | Ok (l, sc) => OutBools l sc
                   | Err e => OutErr e end
  | AReduce r t => of_t (reduce r t)
  | AConvert t u => of_t (Ok (convert_unit t u))
  | AReflNp op s v => of_t (reflected_npscalar op s v)
  end.

Definition outcome_eqb (a b : outcome) : bool :=
  match a, b with
  | OutTime p u sc, OutTime p' u' sc' => zlist_eqb p p' && unit_eqb u u' && Bool.eqb sc sc'
  | OutBools l sc, OutBools l' sc' => boollist_eqb l l' && Bool.eqb sc sc'
  | OutErr e, OutErr e' => err_eqb e e'
  | _, _ => false
  end.

Definition check (c : action * outcome) : bool := outcome_eqb (model_outcome (fst c)) (snd c).

(* generated-fact side: the unit table as read from the imported module *)
Definition unit_name (u : unit) : string :=
  match u with
  | Ups => "ps" | Uns => "ns" | Uus => "us" | Ums => "ms" | Us => "s"
  | Um => "m" | Uh => "h" | UD => "D" | UW => "W"
  end%string.

Definition entry_eqb (a b : string * Z) : bool := String.eqb (fst a) (fst b) && (snd a =? snd b).

(* the table sorted by factor must be exactly the model's; None reads as seconds; base is ps *)
Definition unit_table_matches (gen : list (string * Z)) (gen_none : Z) (gen_base : string) : bool :=
  list_eqb entry_eqb gen (map (fun u => (unit_name u, factor u)) all_units)
  && (gen_none =? factor Us) && String.eqb gen_base "ps".
