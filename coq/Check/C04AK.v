(* Check/C04AK.v — correspondence of Model/Adaptive.v with nitime.utils.adaptive_weights.
   A case = one call adaptive_weights(yk, eigvals, sides) (recorded inside multi_taper_psd/csd, or made
   directly by the harness on amplified spectra, which makes the loop stop after 1-2 passes) with
   what it returned and the number of passes the loop made.  Replaying many passes exactly in Q is not
   feasible (every pass squares the size of the rationals), so:
     * 1 pass, and 2 passes when flagged:  weights = ad_weights passes ... (the model, replayed exactly; rtol 1e-9)
     * more passes:  bins below the 150 dB threshold: weights = ad_dk rt lam bb (ad_S0 f) (exact);
                     other bins: the returned weights are ad_dk rt lam bb S for ONE unknown S, checked
                     by eliminating S between taper 0 and taper k:
                       (w_0 B_0)(rt_k - lam_k w_k) = (w_k B_k)(rt_0 - lam_0 w_0)
     * fewer than 3 tapers: weights = sqrt(eigvals) broadcast over the bins
   rt = sqrt(eigvals) is library data (relation rt^2 = lam checked). *)
From Coq Require Import QArith ZArith List Arith Bool PrimFloat.
From NT Require Import F2Z Lists Close QC Sums Spectral C04K.
From NT Require Import Adaptive.
Import ListNotations.
Open Scope Q_scope.

Record ad_case := mk_ad {
  ad_onesided : bool;                       (* sides == 'onesided' *)
  ad_y : list (list (float * float));       (* yk: K rows of N *)
  ad_eig : list float;                      (* eigvals, K *)
  ad_rt : list float;                       (* np.sqrt(eigvals) *)
  ad_passes : nat;                          (* passes of the loop (0: the K < 3 branch) *)
  ad_replay2 : bool;                        (* replay a 2-pass call exactly (costly: chosen by the harness for small calls) *)
  ad_nu : Z;                                (* returned nu when it is the scalar 2*K of the few-taper branch, else -1 *)
  ad_w : list (list float)                  (* returned weights: K rows of L *)
}.

(* 10 ** (-150 / 20.) as computed in binary64 *)
Definition min_pwr_factor : Q := Eval vm_compute in Qred (f2q 0x1.0fa3389d6eb40p-25%float).

Definition elim_S_rel (rt lam bb : nat -> Q) (w : nat -> Q) (k : nat) : bool :=
  let a0 := w 0%nat * bb 0%nat in
  let ak := w k * bb k in
  let lhs := a0 * (rt k - lam k * w k) in
  let rhs := ak * (rt 0%nat - lam 0%nat * w 0%nat) in
  Qle_bool (Qabsb (lhs - rhs))
           ((1 # 1000000000) * (Qabsb a0 * (Qabsb (rt k) + Qabsb (lam k * w k))
                               + Qabsb ak * (Qabsb (rt 0%nat) + Qabsb (lam 0%nat * w 0%nat)))).

Definition check_ad (c : ad_case) : bool :=
  let Ys := map rowc (ad_y c) in
  let K := length Ys in
  let N := length (hd [] Ys) in
  let sd := if ad_onesided c then OneSided else TwoSided in
  let L := out_len sd N in
  let lam := qfun (rowq (ad_eig c)) in
  let rt := qfun (rowq (ad_rt c)) in
  let Y := fun k => sigof (nth k Ys []) in
  let ws := map rowq (ad_w c) in
  let w := fun k f => nth f (nth k ws []) 0 in
  (length ws =? K)%nat && lens_are L ws && lens_are N (ad_y c) && (length (ad_eig c) =? K)%nat
  && all2 (fun r l => sqrt_rel r l) (rowq (ad_rt c)) (rowq (ad_eig c))
  && if (K <? 3)%nat then
       (ad_passes c =? 0)%nat && (ad_nu c =? Z.of_nat (ad_nu_few K))%Z
       && forallb (fun k => forallb (fun f => closeb (w k f) (ad_weights_few rt k f)) (seq 0 L)) (seq 0 K)
     else
       let var := Qred (ad_var sd N K lam Y) in
       let bb := fun k => Qred (ad_bb lam var k) in
       let S0 := tab (fun f => Qred (ad_S0 sd N lam Y f)) L in
       let thr := maxabs S0 * min_pwr_factor in
       (1 <=? ad_passes c)%nat &&
       forallb (fun f =>
         let s0 := nth f S0 0 in
         let is_default := negb (Qle_bool thr s0) in
         if is_default || (ad_passes c <=? 1)%nat || (ad_replay2 c && (ad_passes c =? 2)%nat) then
           (* = ad_weights (ad_passes c) is_default sd N K rt lam Y k f, with var, bb, S0 shared *)
           let S := Qred (ad_iter (if is_default then 0 else ad_passes c - 1) K rt lam bb (ad_ds sd N Y f) s0) in
           forallb (fun k => closeb (w k f) (ad_dk rt lam bb S k)) (seq 0 K)
         else
           forallb (fun k => elim_S_rel rt lam bb (fun j => w j f) k) (seq 1 (K - 1))) (seq 0 L).
