(* Check/C04K.v — case formats and boolean checkers of the C04 correspondence (shared helpers are
   re-used by Check/C06K.v).  A case carries the arguments of one call of the implementation, what
   the library oracles returned during that call (the recorded scipy.fftpack.fft input/output, the
   dpss_windows result, the adaptive weights, library square roots) and the implementation's
   output.  `check` evaluates Model/Spectral.v in exact Q arithmetic on the exact values of the
   floats and compares with a relative tolerance 1e-9 and an absolute one of 1e-12 x (largest
   magnitude in the compared array). *)
From Coq Require Import QArith Qround ZArith List Arith Bool PrimFloat.
From NT Require Import F2Z Lists Close QC Sums Spectral.
Import ListNotations.
Open Scope Q_scope.

(* ---------------------------------------------------------------- data access *)
Definition cq (p : float * float) : C := (Qred (f2q (fst p)), Qred (f2q (snd p))).
Definition rowc (l : list (float * float)) : list C := map cq l.
Definition rowq (l : list float) : list Q := map (fun x => Qred (f2q x)) l.
Definition sigof (l : list C) : sig := fun k => nth k l c0.
Definition qfun (l : list Q) : nat -> Q := fun k => nth k l 0.
Definition finite_c (p : float * float) : bool := ffinite (fst p) && ffinite (snd p).

Definition tab {A} (f : nat -> A) (n : nat) : list A := map f (seq 0 n).
Definition prodn (l : list nat) : nat := fold_right Nat.mul 1%nat l.

(* ---------------------------------------------------------------- tolerant comparison *)
Definition qmax (a b : Q) : Q := if Qle_bool a b then b else a.
Definition maxabs (l : list Q) : Q := fold_left (fun m v => qmax m (Qabsb v)) l 0.
Definition maxabs_c (l : list C) : Q := fold_left (fun m z => qmax m (qmax (Qabsb (re z)) (Qabsb (im z)))) l 0.
Definition close_s (scale a b : Q) : bool := closeb_tol rtol_default (atol_default * scale) a b.
Definition close_cs (scale : Q) (a b : C) : bool := close_s scale (re a) (re b) && close_s scale (im a) (im b).
Definition close_rows (scale : Q) (m o : list (list Q)) : bool := all2 (all2 (close_s scale)) m o.
Definition close_rows_c (scale : Q) (m o : list (list C)) : bool := all2 (all2 (close_cs scale)) m o.
Definition lens_are {A} (len : nat) (ll : list (list A)) : bool := forallb (fun r => length r =? len)%nat ll.

(* library square root: y = sqrt a  iff  y >= 0 and y*y = a (here: up to rounding) *)
Definition sqrt_rel (y a : Q) : bool := Qle_bool 0 y && closeb_tol (1 # 1000000000) (1 # 1000000000000000000000000000000) (y * y) a.

(* ---------------------------------------------------------------- periodogram *)
Record pg_case := mk_pg {
  pg_lead : list nat;            (* s.shape[:-1] *)
  pg_n : nat;                    (* s.shape[-1] *)
  pg_nfft_arg : option nat;      (* N= argument *)
  pg_fs : float;
  pg_sides : sides_arg;
  pg_cplx : bool;                (* np.iscomplexobj(s) *)
  pg_norm : bool;
  pg_use_sk : bool;              (* caller passed Sk= (then no fft call is made) *)
  pg_fft_n : nat;                (* n= argument of the recorded fft call (0 if none) *)
  pg_fft_in_is_s : bool;         (* the recorded fft input is s, bit for bit *)
  pg_sk : list (list (float * float));   (* rows of the spectrum: fft output, or the Sk passed *)
  pg_out_shape : list nat;
  pg_out : list (list float)
}.

Definition check_pg (c : pg_case) : bool :=
  let M := prodn (pg_lead c) in
  let N := if pg_use_sk c then length (hd [] (pg_sk c)) else nfft_of (pg_nfft_arg c) (pg_n c) in
  let sd := resolve (pg_sides c) (pg_cplx c) in
  let len := out_len sd N in
  let Fs := Qred (f2q (pg_fs c)) in
  let out := map rowq (pg_out c) in
  let scale := maxabs (concat out) in
  let model := map (fun r => let X := sigof (rowc r) in
                             tab (fun k => Qred (periodogram sd (pg_norm c) N (pg_n c) Fs X k)) len) (pg_sk c) in
  (pg_use_sk c || ((pg_fft_n c =? N)%nat && pg_fft_in_is_s c))
  && (length (pg_sk c) =? M)%nat && lens_are N (pg_sk c)
  && natlist_eqb (pg_out_shape c) (pg_lead c ++ [len])
  && forallb (forallb finite_c) (pg_sk c)
  && close_rows scale model out.

(* ---------------------------------------------------------------- multi_taper_psd *)
Definition oq (o : option float) : option Q := match o with Some v => Some (f2q v) | None => None end.

Record mt_case := mk_mt {
  mt_lead : list nat;
  mt_n : nat;
  mt_nfft_arg : option nat;
  mt_fs : float;
  mt_sides : sides_arg;
  mt_cplx : bool;
  mt_adaptive : bool;
  mt_low_bias : bool;
  mt_bw : option float;
  mt_nw : option float;
  mt_dpss_args : nat * float * Z;            (* recorded arguments (N, NW, Kmax) of dpss_windows *)
  mt_s : list (list (float * float));        (* M rows of n samples *)
  mt_dpss : list (list float);               (* Kmax tapers as returned by dpss_windows *)
  mt_eig : list float;                       (* Kmax eigenvalues as returned by dpss_windows *)
  mt_fft_n : nat;                            (* n= argument of the recorded fft call *)
  mt_fft_in : list (list (float * float));   (* M*K rows of n: recorded fft input *)
  mt_y : list (list (float * float));        (* M*K rows of NFFT: recorded fft output *)
  mt_w : list (list (list float));           (* per channel: K rows of 1 (fixed) or L (adaptive) weights *)
  mt_out_shape : list nat;
  mt_out : list (list float)                 (* M rows of L *)
}.

Definition pick {A} (d : A) (l : list A) (idx : list nat) : list A := map (fun i => nth i l d) idx.
Fixpoint chunks {A} (k : nat) (l : list A) (m : nat) : list (list A) :=
  match m with O => [] | S m' => firstn k l :: chunks k (skipn k l) m' end.
(* weight accessor with numpy broadcasting of a trailing axis of length 1 *)
Definition wfun (rows : list (list Q)) : nat -> nat -> Q :=
  fun k => let r := nth k rows [] in
           match r with [v] => fun _ => v | _ => fun f => nth f r 0 end.

(* fixed weights must be the library sqrt of the kept eigenvalues; adaptive weights are data *)
Definition weights_ok (adaptive : bool) (K L : nat) (lam : list Q) (w : list (list Q)) : bool :=
  (length w =? K)%nat &&
  (if adaptive then lens_are L w
   else lens_are 1 w && all2 (fun r l => sqrt_rel (hd 0 r) l) w lam).

(* shared by multi_taper_psd and multi_taper_csd: everything up to and including the fft call;
   returns (K, NFFT, kept eigenvalues) when the recorded data agrees with the model *)
Definition mt_front (n : nat) (nfft_arg : option nat) (NW : Q) (low_bias : bool)
           (dargs : nat * float * Z) (s : list (list C)) (dpss : list (list Q)) (eig : list Q)
           (fft_n : nat) (fft_in : list (list C)) : option (nat * nat * list Q) :=
  let '(dn, dnw, dk) := dargs in
  let keep := keep_idx low_bias eig in
  let K := length keep in
  let tapers := pick [] dpss keep in
  let NFFT := mt_nfft nfft_arg n in
  let scale := maxabs_c (concat fft_in) in
  let model_in := concat (map (fun r => let tp := tapered n (sigof r) in
                                        map (fun tk => tab (tp (qfun tk)) n) tapers) s) in
  if (dn =? n)%nat && Qeq_bool (f2q dnw) NW && (dk =? kmax_of NW)%Z
     && (length dpss =? Z.to_nat dk)%nat && (length eig =? Z.to_nat dk)%nat && lens_are n dpss
     && (fft_n =? NFFT)%nat && lens_are n s
     && close_rows_c scale model_in fft_in
  then Some (K, NFFT, pick 0 eig keep) else None.

Definition check_mt (c : mt_case) : bool :=
  let M := prodn (mt_lead c) in
  let n := mt_n c in
  let Fs := Qred (f2q (mt_fs c)) in
  match mt_front n (mt_nfft_arg c) (nw_psd (oq (mt_bw c)) (oq (mt_nw c)) n Fs) (mt_low_bias c) (mt_dpss_args c)
                 (map rowc (mt_s c)) (map rowq (mt_dpss c)) (rowq (mt_eig c))
                 (mt_fft_n c) (map rowc (mt_fft_in c)) with
  | None => false
  | Some (K, NFFT, lam) =>
    let sd := resolve (mt_sides c) (mt_cplx c) in
    let L := out_len sd NFFT in
    let Ys := chunks K (map rowc (mt_y c)) M in
    let ws := map (map rowq) (mt_w c) in
    let out := map rowq (mt_out c) in
    let scale := maxabs (concat out) in
    let model := map (fun yw : list (list C) * list (list Q) =>
                        let Y := fun k => sigof (nth k (fst yw) []) in
                        let w := wfun (snd yw) in
                        tab (fun f => Qred (mt_psd sd NFFT K Fs w Y f)) L) (combine Ys ws) in
    (length (mt_s c) =? M)%nat && (length (mt_y c) =? M * K)%nat && lens_are NFFT (mt_y c)
    && (length ws =? M)%nat && (0 <? K)%nat
    && forallb (weights_ok (mt_adaptive c) K L lam) ws
    && natlist_eqb (mt_out_shape c) (mt_lead c ++ [L])
    && forallb (forallb finite_c) (mt_y c)
    && close_rows scale model out
  end.
