(* Check/C12K.v — case format and boolean checker of the C12 correspondence.
   The chain coefficients -> A(w) -> H(w) -> (S(w), log arguments) is checked stage by stage on the
   implementation's own intermediate values, so that exact rational evaluation stays small:
     KTF : transfer_function_xy   (A(w) from the harness' own freq_response calls; polynomial model
                                   evaluated at z = e^{-jw}; H = adj(A)/det)
     KSM : spectral_matrix_xy, coherence_from_spectral, interdependence_xy on the implementation's H
     KGC : granger_causality_xy on the implementation's H (= transfer_function_xy(a, n_freqs))
     KAN : GrangerAnalyzer arrays vs the pairwise function results (_granger_causality + _dict2arr)
   Logarithms: the harness passes exp(f) and the model's log ARGUMENT is compared with it. *)
From Coq Require Import QArith List Bool Arith PrimFloat.
From NT Require Import F2Z Close QC AR Granger.
Import ListNotations.
Open Scope Q_scope.

Definition cfl := (float * float)%type.
Definition cf (p : cfl) : C := (f2q (fst p), f2q (snd p)).
Definition cfin (p : cfl) : bool := ffinite (fst p) && ffinite (snd p).
Definition m2f := (cfl * cfl * cfl * cfl)%type.           (* m00 m01 m10 m11 *)
Definition q2f := (float * float * float * float)%type.   (* q00 q01 q10 q11 *)
Definition mf (m : m2f) : M2 := let '(a, b, c, d) := m in mkM2 (cf a) (cf b) (cf c) (cf d).
Definition qf (m : q2f) : Q2 := let '(a, b, c, d) := m in mkQ2 (f2q a) (f2q b) (f2q c) (f2q d).
Definition m2fin (m : m2f) : bool := let '(a, b, c, d) := m in cfin a && cfin b && cfin c && cfin d.
Definition q2fin (m : q2f) : bool := let '(a, b, c, d) := m in ffinite a && ffinite b && ffinite c && ffinite d.

Definition cabs1 (z : C) : Q := Qabsb (re z) + Qabsb (im z).
(* the first argument (the model's exact value) is put in lowest terms first (Qred q == q) *)
Definition ccloseb (tol scale : Q) (a b : C) : bool :=
  let a := cr a in
  Qle_bool (cabs1 (csub a b)) (tol * (cabs1 a + cabs1 b + scale)).
Definition qcloseb (tol scale : Q) (a b : Q) : bool :=
  let a := Qred a in
  Qle_bool (Qabsb (a - b)) (tol * (Qabsb a + Qabsb b + scale)).
Definition m2r (A : M2) : M2 := mkM2 (cr (m00 A)) (cr (m01 A)) (cr (m10 A)) (cr (m11 A)).
Definition m2abs1 (A : M2) : Q := cabs1 (m00 A) + cabs1 (m01 A) + cabs1 (m10 A) + cabs1 (m11 A).
(* entries compared relative to the size of the whole matrix *)
Definition m2closeb (tol : Q) (A B : M2) : bool :=
  let A := m2r A in
  let sc := Qred (m2abs1 A) in
  ccloseb tol sc (m00 A) (m00 B) && ccloseb tol sc (m01 A) (m01 B) &&
  ccloseb tol sc (m10 A) (m10 B) && ccloseb tol sc (m11 A) (m11 B).

Definition tolK : Q := 1 # 100000000.

Inductive case :=
| KTF (a : list q2f) (n_freqs : nat) (zs : list cfl) (Avals Hw : list m2f)
| KSM (Hw : list m2f) (cov : q2f) (Sw : list m2f) (coh einter : list float)
| KGC (Hw : list m2f) (cov : q2f) (ex2y ey2x exy : list float) (Sw : list m2f)
| KAN (nproc n_freqs : nat) (ij : list (nat * nat))
      (results : list ((nat * nat) * list float))          (* pairwise function results *)
      (entries : list ((nat * nat) * option (list float))) (* analyzer array: None = row of NaN *).

Definition check_tf (a : list q2f) (n_freqs : nat) (zs : list cfl) (Avals Hw : list m2f) : bool :=
  let aq := map qf a in
  forallb q2fin a && forallb cfin zs && forallb m2fin Avals && forallb m2fin Hw &&
  (length zs =? gc_len n_freqs)%nat && (length Hw =? gc_len n_freqs)%nat && (length Avals =? gc_len n_freqs)%nat &&
  (* the coefficient polynomials, as assembled by the code, evaluated at z = e^{-jw} *)
  all2 (fun z A => m2closeb tolK (Aw aq (cf z)) (mf A)) zs Avals &&
  (* H = adj(A) / det A *)
  all2 (fun A H => m2closeb tolK (transfer (mf A)) (mf H)) Avals Hw.

Definition check_sm (Hw : list m2f) (cov : q2f) (Sw : list m2f) (coh einter : list float) : bool :=
  let c := qf cov in
  forallb m2fin Hw && q2fin cov && forallb m2fin Sw && forallb ffinite coh && forallb ffinite einter &&
  all2 (fun H S => m2closeb tolK (spectral_matrix (mf H) c) (mf S)) Hw Sw &&
  all2 (fun S x => qcloseb tolK (1 # 1000) (coherence (mf S)) (f2q x)) Sw coh &&
  all2 (fun S x => qcloseb tolK (1 # 1000) (interdep_arg (mf S)) (f2q x)) Sw einter.

Definition check_gc (Hw : list m2f) (cov : q2f) (ex2y ey2x exy : list float) (Sw : list m2f) : bool :=
  let c := qf cov in
  let gs := map (fun H => granger_core (mf H) c) Hw in
  forallb m2fin Hw && q2fin cov && forallb m2fin Sw &&
  forallb ffinite ex2y && forallb ffinite ey2x && forallb ffinite exy &&
  all2 (fun g x => qcloseb tolK 0 (gc_x2y g) (f2q x)) gs ex2y &&
  all2 (fun g x => qcloseb tolK 0 (gc_y2x g) (f2q x)) gs ey2x &&
  all2 (fun g x => qcloseb tolK 0 (gc_inst g) (f2q x)) gs exy &&
  all2 (fun g S => m2closeb tolK (gc_S g) (mf S)) gs Sw.

Fixpoint lookup {V} (l : list ((nat * nat) * V)) (k : nat * nat) : option V :=
  match l with
  | [] => None
  | (k', v) :: l' => if key_eqb k k' then Some v else lookup l' k
  end.

Definition row_closeb (a b : list float) : bool :=
  forallb ffinite a && forallb ffinite b && all2 (fun x y => qcloseb tolK 0 (f2q x) (f2q y)) a b.

Definition check_an (nproc n_freqs : nat) (ij : list (nat * nat))
  (results : list ((nat * nat) * list float)) (entries : list ((nat * nat) * option (list float))) : bool :=
  (* every requested pair has a function result of the right length *)
  forallb (fun k => match lookup results k with
                    | Some r => (length r =? get_freqs_len n_freqs)%nat && (length r =? gc_len n_freqs)%nat
                    | None => false end) ij &&
  (* the model of _granger_causality + _dict2arr; f k = the pairwise result *)
  let model := analyzer_arr (fun k => match lookup results k with Some r => r | None => [] end) ij in
  forallb (fun i => forallb (fun j =>
    match lookup entries (i, j), model (i, j) with
    | Some None, None => true
    | Some (Some row), Some r => row_closeb r row
    | _, _ => false
    end) (seq 0 nproc)) (seq 0 nproc).

Definition check (c : case) : bool :=
  match c with
  | KTF a nf zs Av Hw => check_tf a nf zs Av Hw
  | KSM Hw cov Sw coh ei => check_sm Hw cov Sw coh ei
  | KGC Hw cov ex ey exy Sw => check_gc Hw cov ex ey exy Sw
  | KAN np nf ij res ent => check_an np nf ij res ent
  end.
