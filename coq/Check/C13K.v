(* Check/C13K.v — case format and boolean checker of the C13 correspondence.
   A case = the effect table of one analyzer class and parameter setting (observed by the harness, G),
   one history of reads that was run on a freshly built analyzer of the implementation, and what was
   observed at every read: which getters ran (in order of completion), whether the value equals the
   value a fresh analyzer returns for that name, whether a repeated read returned the very same object,
   which results handed out earlier have different bytes now, whether the input series is unchanged.
   [check] evaluates the free instance of the memoisation machine on the same history and compares:
   the getters that run must be exactly the predicted ones; wherever the model predicts "unaffected"
   (equal to fresh / stored object / intact / input untouched) the implementation must be unaffected. *)
From Coq Require Import List Arith Bool.
From NT Require Import Lists Memo.
Import ListNotations.

Record step := { o_fired : list nat; o_eq : bool; o_same : bool; o_altered : list nat; o_input : bool }.

(* graph, protected cells, what ran / was stored right after construction, history, observations *)
Definition case := (graph * list nat * (list nat * list nat) * list nat * list step)%type.

Definition stored_eqb (m : nat -> option sym) (p : nat * sym) : bool :=
  match m (fst p) with Some w => sym_eqb w (snd p) | None => false end.

Fixpoint steps (K : cls sym) (prot : list nat) (F : nat) (s : state sym) (handed : list (nat * sym))
         (h : list nat) (obs : list step) : bool :=
  match h, obs with
  | [], [] => true
  | r :: h', o :: obs' =>
      match read K F s r with
      | None => false
      | Some (v, s') =>
          let fired := rev (firstn (length (log s') - length (log s)) (log s')) in
          let was := match inst s r with Some _ => true | None => false end in
          let fresh := match read K F (construct sym_init) r with
                       | Some (w, _) => sym_eqb v w | None => false end in
          let pred_alt := map fst (filter (fun p => negb (stored_eqb (inst s') p)) handed) in
          let pred_input := forallb (fun c => sym_eqb (cells s' c) (sym_init c)) prot in
          natlist_eqb fired (o_fired o)
          && implb fresh (o_eq o)
          && implb was (o_same o)
          && forallb (fun x => mem x pred_alt) (o_altered o)
          && implb pred_input (o_input o)
          && steps K prot F s' (if was then handed else (r, v) :: handed) h' obs'
      end
  | _, _ => false
  end.

Definition check (c : case) : bool :=
  let '(g, prot, ctor, h, obs) := c in
  let s0 := construct sym_init in
  natlist_eqb (log s0) (fst ctor)
  && natlist_eqb (filter (fun x => match inst s0 x with Some _ => true | None => false end) (seq 0 (length g))) (snd ctor)
  && steps (sym_cls g) prot (S (length g)) s0 [] h obs.

(* G: the table of a class is well-formed, or its offending edges are among the recorded ones *)
Definition table_ok (g : graph) (prot : list nat) (expected : list (nat * nat * nat)) : bool :=
  edges_within (bad_edges g prot) expected
  && match expected with [] => wf_check g prot | _ => true end.
