(* Check/C08K.v — case format and boolean checker of the C08 correspondence.
   A case carries the cross-spectra the implementation obtained from the estimator (get_spectra /
   get_spectra_bi / mtm_cross_spectrum, called by the harness exactly as the code calls them) and
   the arrays the implementation returned. `check` evaluates the model of Model/Cohere.v in exact
   rational arithmetic on the exact values of those floats and compares with tolerance 1e-9.
   np.sqrt values are data checked against their contract (s >= 0, s*s ~ a); np.angle outputs are
   checked through the characterising relation  re*sin p - im*cos p ~ 0, re*cos p + im*sin p >= 0,
   with sin p / cos p evaluated HERE by degree-33/32 Taylor polynomials (remainder below 1e-17 for
   |p| <= 3.2; |p| <= 3.2 is checked). *)
From Coq Require Import QArith List Bool Arith PrimFloat ZArith.
From NT Require Import F2Z Lists Close QC Sums Cohere.
Import ListNotations.
Open Scope Q_scope.

Definition cfl := (float * float)%type.
Definition qc (p : cfl) : C := (f2q (fst p), f2q (snd p)).
Definition cfinite (p : cfl) : bool := ffinite (fst p) && ffinite (snd p).

Definition g3 {A} (d : A) (L : list (list (list A))) (i j k : nat) : A :=
  nth k (nth j (nth i L []) []) d.
Definition g2 {A} (d : A) (L : list (list A)) (i k : nat) : A := nth k (nth i L []) d.

Definition spec_of (L : list (list (list cfl))) : spec :=
  let Lq := map (map (map qc)) L in fun i j k => g3 c0 Lq i j k.
Definition q3_of (L : list (list (list float))) : nat -> nat -> nat -> Q :=
  let Lq := map (map (map f2q)) L in fun i j k => g3 0 Lq i j k.
Definition q2_of (L : list (list float)) : nat -> nat -> Q :=
  let Lq := map (map f2q) L in fun i k => g2 0 Lq i k.
Definition c2_of (L : list (list cfl)) : nat -> nat -> C :=
  let Lq := map (map qc) L in fun i k => g2 c0 Lq i k.

Definition all_lt (n : nat) (p : nat -> bool) : bool := forallb p (seq 0 n).
Definition all3 (M1 M2 F : nat) (p : nat -> nat -> nat -> bool) : bool :=
  all_lt M1 (fun i => all_lt M2 (fun j => all_lt F (fun k => p i j k))).

Definition shape1 {A} (n : nat) (l : list A) : bool := Nat.eqb (length l) n.
Definition shape2 {A} (m n : nat) (l : list (list A)) : bool :=
  shape1 m l && forallb (shape1 n) l.
Definition shape3 {A} (m n f : nat) (l : list (list (list A))) : bool :=
  shape1 m l && forallb (shape2 n f) l.
Definition fin3 (l : list (list (list float))) : bool := forallb (forallb (forallb ffinite)) l.
Definition cfin3 (l : list (list (list cfl))) : bool := forallb (forallb (forallb cfinite)) l.

(* tolerances *)
Definition tol2 : Q := 1 # 1000000000000000000.          (* (1e-9)^2 *)
Definition atol2 : Q := 1 # 1000000000000000000000000000000.
Definition cclose (a b : C) : bool :=
  Qle_bool (cnorm2 (csub a b)) (tol2 * (cnorm2 a + cnorm2 b) + atol2).

(* purely relative versions, for quantities that carry the dimension of the data (spectra, their
   square roots): the input magnitudes range over 2^-60..2^40, an absolute term would be vacuous *)
Definition ccloser (a b : C) : bool :=
  Qle_bool (cnorm2 (csub a b)) (tol2 * (cnorm2 a + cnorm2 b)).
Definition closer (a b : Q) : bool := closeb_tol rtol_default 0 a b.

(* the spectral matrix handed over: finite, M x M x F, non-zero diagonal that is real up to
   rounding (mlab.csd(x, x) computes conj(X)*X in complex arithmetic: |im| <= 1e-15 |re|) *)
Definition spec_ok (M F : nat) (L : list (list (list cfl))) : bool :=
  shape3 M M F L && cfin3 L &&
  let S := spec_of L in
  all_lt M (fun i => all_lt F (fun k =>
    Qle_bool (im (S i i k) * im (S i i k)) (atol2 * (re (S i i k) * re (S i i k)))
    && negb (Qeq_bool (re (S i i k)) 0))).

(* ------------------------------------------------------------------ sin / cos by Taylor polynomials *)
(* fixed point with 80 fractional bits: every step is an integer multiplication and a floor
   division (error below 2^-78 per step), no gcd *)
Definition FP : Z := 2 ^ 80.
Definition to_fix (x : Q) : Z := (Qnum x * FP / Zpos (Qden x))%Z.
Definition of_fix (z : Z) : Q := Qmake z (Z.to_pos FP).
Fixpoint tayz (x2 term d : Z) (n : nat) (acc : Z) : Z :=
  match n with
  | O => acc
  | S n' => let term' := (- term * x2 / FP / ((d + 1) * (d + 2)))%Z in
            tayz x2 term' (d + 2)%Z n' (acc + term')%Z
  end.
Definition sinT (x : Q) : Q :=
  let xf := to_fix x in of_fix (tayz (xf * xf / FP)%Z xf 1 16 xf).
Definition cosT (x : Q) : Q :=
  let xf := to_fix x in of_fix (tayz (xf * xf / FP)%Z FP 0 16 FP).

(* p is (close to) the principal argument of z *)
Definition angle_ok (z : C) (p : Q) : bool :=
  Qle_bool (Qabsb p) (32 # 10) &&
  (if Qeq_bool (cnorm2 z) 0 then true else
   let s := sinT p in let c := cosT p in
   let t := re z * s - im z * c in
   Qle_bool (t * t) (tol2 * cnorm2 z) && Qle_bool 0 (re z * c + im z * s)).

(* ------------------------------------------------------------------ cases *)
Inductive case :=
(* coherence(ts) / CoherenceAnalyzer.coherence : S, returned c[i][j][k] *)
| KCoh (M F : nat) (S : list (list (list cfl))) (out : list (list (list float)))
(* coherency(ts) / CoherenceAnalyzer.coherency : S, library sqrt(S_ii*S_jj) for i<=j, returned c *)
| KCohy (M F : nat) (S : list (list (list cfl))) (sq : list (list (list float)))
        (out : list (list (list cfl)))
(* coherence_bavg(ts, lb, ub) : frequency grid, lb, ub, S, returned c[i][j] *)
| KBavg (M F : nat) (f : list float) (lb : float) (ub : option float)
        (S : list (list (list cfl))) (out : list (list float))
(* coherency_bavg : grid, lb, ub, S, library magnitudes |coherency| on the band (i<=j), library
   (cos, sin) of the mean library phase (i<=j), returned c[i][j] *)
| KCohyBavg (M F : nat) (f : list float) (lb : float) (ub : option float)
            (S : list (list (list cfl))) (mags : list (list (list float)))
            (cs : list (list cfl)) (out : list (list cfl))
(* coherence_partial(ts, r) : S, csd(x_a, r), psd of r (per channel call), returned c[i][j][k] (real part;
   imaginary part checked 0 by the harness) *)
| KPartFn (M F : nat) (S : list (list (list cfl))) (Sr : list (list cfl)) (frr : list (list float))
          (out : list (list (list float)))
(* CoherenceAnalyzer.coherence_partial : S, returned p[i][j][r][k] flattened as [i][j*M+r][k] *)
| KPartAn (M F : nat) (S : list (list (list cfl))) (out : list (list (list float)))
(* coherency_phase_spectrum (an=false) / CoherenceAnalyzer.phase (an=true): S, returned p[i][j][k] *)
| KPhase (an : bool) (M F : nat) (S : list (list (list cfl))) (out : list (list (list float)))
(* coherency_phase_delay(ts, lb, ub): grid, lb, ub, 2*pi, S, returned frequencies and p[i][j][k] *)
| KDelayFn (M F : nat) (f : list float) (lb : float) (ub : option float) (twopi : float)
           (S : list (list (list cfl))) (fout : list float) (out : list (list (list float)))
(* CoherenceAnalyzer.delay (no unwrapping): 2*pi, .frequencies, .phase, returned delay *)
| KDelayAn (M F : nat) (twopi : float) (f : list float) (phase out : list (list (list float)))
(* MTCoherenceAnalyzer.coherence: mtm_cross_spectrum values sxy[i][j] (j<i), sx[i], returned c *)
| KMT (M F : nat) (sxy : list (list (list cfl))) (sx : list (list float))
      (out : list (list (list float)))
(* estimator contract used by the gain theorems: spectra of (g_i x_i) are g_i g_j S_ij *)
| KGain (M F : nat) (g : list float) (S S' : list (list (list cfl))).

Definition bounds_q (f : list float) (lb : float) (ub : option float) :=
  (map f2q f, f2q lb, match ub with None => None | Some u => Some (f2q u) end).

Definition check (c : case) : bool :=
  match c with
  | KCoh M F Sl out =>
      spec_ok M F Sl && shape3 M M F out && fin3 out &&
      let S := spec_of Sl in let o := q3_of out in
      all3 M M F (fun i j k => closeb (coherence_mat S i j k) (o i j k))
  | KCohy M F Sl sql out =>
      spec_ok M F Sl && shape3 M M F out && cfin3 out && shape3 M M F sql && fin3 sql &&
      let S := spec_of Sl in let o := spec_of out in let sq := q3_of sql in
      (* the library square roots meet their contract on the values the code applies them to *)
      all3 M M F (fun a b k => if (a <=? b)%nat then
                                 Qle_bool 0 (sq a b k) &&
                                 closer (sq a b k * sq a b k) (re (S a a k) * re (S b b k))
                               else true) &&
      all3 M M F (fun i j k => cclose (coherency_mat sq S i j k) (o i j k)) &&
      (* the lower triangle is the exact conjugate of the upper one *)
      all3 M M F (fun i j k => if (j <? i)%nat then ceqb (o i j k) (cconj (o j i k)) else true)
  | KBavg M F f lb ub Sl out =>
      spec_ok M F Sl && shape2 M M out && forallb (forallb ffinite) out && shape1 F f &&
      let S := spec_of Sl in let o := q2_of out in
      let '(fq, lbq, ubq) := bounds_q f lb ub in
      let (l, u) := bavg_bounds fq lbq ubq in
      (l <? u)%nat && (u <=? F)%nat &&
      all_lt M (fun i => all_lt M (fun j => closeb (coherence_bavg_mat S l u i j) (o i j)))
  | KCohyBavg M F f lb ub Sl mags cs out =>
      spec_ok M F Sl && shape2 M M out && forallb (forallb cfinite) out && shape1 F f &&
      let S := spec_of Sl in let o := c2_of out in let m := q3_of mags in let csq := c2_of cs in
      let '(fq, lbq, ubq) := bounds_q f lb ub in
      let (l, u) := bavg_bounds fq lbq ubq in
      let n := (u - l)%nat in
      (l <? u)%nat && (u <=? F)%nat && shape3 M M n mags && fin3 mags &&
      (* library magnitudes: non-negative square roots of the model's coherence on the band *)
      all3 M M n (fun a b k => if (a <=? b)%nat then
                                 Qle_bool 0 (m a b k) &&
                                 closeb (m a b k * m a b k) (coherence_mat S a b (l + k))
                               else true) &&
      all_lt M (fun a => all_lt M (fun b => closeb (cnorm2 (csq a b)) 1 || (b <? a)%nat)) &&
      all_lt M (fun i => all_lt M (fun j =>
        cclose (coherency_bavg_mat m n (fun a b => re (csq a b)) (fun a b => im (csq a b)) i j) (o i j)))
  | KPartFn M F Sl Srl frrl out =>
      spec_ok M F Sl && shape3 M M F out && fin3 out && shape2 M F Srl && shape2 M F frrl &&
      let S := spec_of Sl in let o := q3_of out in let Sr := c2_of Srl in let frr := q2_of frrl in
      all3 M M F (fun i j k => closeb (coherence_partial_mat S Sr frr i j k) (o i j k))
  | KPartAn M F Sl out =>
      spec_ok M F Sl && shape3 M (M * M) F out && fin3 out &&
      let S := spec_of Sl in let o := q3_of out in
      all3 M M F (fun i j k => all_lt M (fun r =>
        closeb (an_partial_mat S i j r k) (o i (j * M + r)%nat k)))
  | KPhase an M F Sl out =>
      spec_ok M F Sl && shape3 M M F out && fin3 out &&
      let S := spec_of Sl in let o := q3_of out in
      all3 M M F (fun i j k =>
        if (i <? j)%nat then angle_ok (S i j k) (o i j k)
        else if (j <? i)%nat then angle_ok (cconj (S j i k)) (o i j k)
        else if an then angle_ok (cconj (S i i k)) (o i j k) else Qeq_bool (o i j k) 0)
  | KDelayFn M F f lb ub twopi Sl fout out =>
      spec_ok M F Sl && shape1 F f && ffinite twopi &&
      let S := spec_of Sl in let o := q3_of out in
      let '(fq, lbq, ubq) := bounds_q f lb ub in
      let (l, u) := delay_bounds fq lbq ubq in
      let n := (u - l)%nat in
      let fr := fun k => nth k fq 0 in
      (l <? u)%nat && (u <=? F)%nat && shape3 M M n out && fin3 out &&
      list_eqb Qeq_bool (map f2q fout) (firstn n (skipn l fq)) &&
      (* out = angle z / (2 pi f)  <=>  out * 2 pi f is the argument of z *)
      all3 M M n (fun i j k =>
        let z := if (i <? j)%nat then S i j (l + k)%nat else cconj (S j i (l + k)%nat) in
        negb (Qeq_bool (fr (l + k)%nat) 0) &&
        angle_ok z (o i j k * (f2q twopi * fr (l + k)%nat)))
  | KDelayAn M F twopi f phase out =>
      shape1 F f && ffinite twopi && shape3 M M F phase && shape3 M M F out && fin3 phase &&
      let p := q3_of phase in let o := q3_of out in let fq := map f2q f in
      let fr := fun k => nth k fq 0 in
      all3 M M F (fun i j k =>
        if Qeq_bool (fr k) 0 then true
        else ffinite (g3 PrimFloat.nan out i j k) &&
             closeb (delay_mat_an (f2q twopi) p fr i j k) (o i j k))
  | KMT M F sxyl sxl out =>
      shape3 M M F out && fin3 out && shape3 M M F sxyl && cfin3 sxyl && shape2 M F sxl &&
      let sxy := spec_of sxyl in let sx := q2_of sxl in let o := q3_of out in
      all_lt M (fun i => all_lt F (fun k => negb (Qeq_bool (sx i k) 0))) &&
      all3 M M F (fun i j k => closeb (mt_coherence_mat sxy sx i j k) (o i j k))
  | KGain M F g Sl Sl' =>
      spec_ok M F Sl && spec_ok M F Sl' && shape1 M g &&
      let S := spec_of Sl in let S' := spec_of Sl' in let gq := map f2q g in
      all3 M M F (fun i j k =>
        if (i <=? j)%nat then ccloser (gained (fun a => nth a gq 0) S i j k) (S' i j k) else true)
  end.

(* the Taylor polynomials at a few points against 17-digit values *)
Example sinT_1 : closeb_tol (1 # 100000000000000) 0 (sinT 1) (8414709848078965 # 10000000000000000) = true.
Proof. vm_compute. reflexivity. Qed.
Example cosT_3 : closeb_tol (1 # 100000000000000) 0 (cosT 3) (- (9899924966004454 # 10000000000000000)) = true.
Proof. vm_compute. reflexivity. Qed.
Example sinT_pi : Qle_bool (Qabsb (sinT (3141592653589793 # 1000000000000000))) (1 # 1000000000000000) = true.
Proof. vm_compute. reflexivity. Qed.
