(* Check/C14K.v — case format and boolean checker of the C14 correspondence.
   A case = the effect table of a class (with the names reset() deletes, read off the running code), the
   cells the re-targeting call assigns, the cells whose initial value differs between the old and the new
   input / parameters (two fresh analyzers diffed), a history read before the switch, a history read
   after it, and the observations: which one-time names were still stored right after the switch, and for
   every later read which getters ran and whether the value equals what a NEW analyzer returns. *)
From Coq Require Import List Arith Bool.
From NT Require Import Lists Memo.
Import ListNotations.

Record step2 := { p_fired : list nat; p_eq : bool }.

(* graph, protected, assigned, changed, history before, survivors observed, history after, observations *)
Definition case := (graph * list nat * list nat * list nat * list nat * list nat * list nat * list step2)%type.

Fixpoint steps2 (K : cls sym) (c1 : nat -> sym) (F : nat) (s : state sym) (h : list nat) (obs : list step2) : bool :=
  match h, obs with
  | [], [] => true
  | r :: h', o :: obs' =>
      match read K F s r with
      | None => false
      | Some (v, s') =>
          let fired := rev (firstn (length (log s') - length (log s)) (log s')) in
          let fresh := match read K F (construct c1) r with
                       | Some (w, _) => sym_eqb v w | None => false end in
          natlist_eqb fired (p_fired o) && implb fresh (p_eq o) && steps2 K c1 F s' h' obs'
      end
  | _, _ => false
  end.

Definition check (c : case) : bool :=
  let '(g, prot, assigned, changed, h1, surv, h2, obs) := c in
  let K := sym_cls g in let F := S (length g) in
  match run K F (construct sym_init) h1 with
  | None => false
  | Some s1 =>
      let s := retarget K (sym_assign assigned changed) s1 in
      natlist_eqb (filter (fun x => match inst s x with Some _ => true | None => false end) (seq 0 (length g))) surv
      && steps2 K (sym_init_new changed) F s h2 obs
  end.

(* G: either the tables pass the checker, or what makes them fail is among the recorded stale cells
   (state derived from the input inside __init__) — never a surviving result, never an ill-formed graph
   beyond the recorded edges *)
(* [isolated]: observed on the running code — resetting / re-targeting a copy (copy.copy, the copied instance dict
   of a slice) left every byte of the original's instance dict as it was: the hypothesis under which the model
   treats object states as values (C14_copy_reset_equiv_fresh) *)
Definition tables_ok_iso (isolated : bool) (ok : bool) : bool := isolated && ok.

Definition tables_ok (g : graph) (prot assigned changed : list nat) (expected_edges : list (nat * nat * nat))
           (expected_stale : list nat) : bool :=
  edges_within (bad_edges_strict g prot) expected_edges
  && match expected_edges with [] => wf_check_strict g prot | _ => true end
  && forallb (fun c => mem c expected_stale) (stale_cells g prot assigned changed)
  && match stale_survivors g changed with [] => true | _ => false end
  && match expected_stale, expected_edges with [], [] => c14_check g prot assigned changed | _, _ => true end.
