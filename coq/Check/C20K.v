(* Check/C20K.v — case format and boolean checker of the C20 correspondence.
   A case carries one call of the implementation: its inputs, what the implementation returned
   and (where a library kernel is not modelled) what the same library function returned on the
   same input.  `check` evaluates the model of Model/Corr.v / Model/Entropy.v in exact rational
   arithmetic on the exact values of the float inputs and compares with tolerance. *)
From Coq Require Import QArith ZArith List Bool Arith PrimFloat.
From NT Require Import F2Z Lists Close QC Sums Corr Entropy.
Import ListNotations.
Open Scope Q_scope.

Definition fc := (float * float)%type.
Definition cl (l : list fc) : list C := map (fun p => (f2q (fst p), f2q (snd p))) l.
Definition ql (l : list float) : list Q := map f2q l.
Definition qsig (l : list Q) : nat -> Q := fun t => nth t l 0.

Definition cclose (rtol atol : Q) (a b : C) : bool :=
  closeb_tol rtol atol (re a) (re b) && closeb_tol rtol atol (im a) (im b).

Inductive cfun := FCrossCov | FCrossCorr | FAutoCov | FAutoCorr.
Inductive ekind := EEntropy | ECond | EMI | ECC | ETE.

Inductive case :=
(* fn shape axis  x-complex y-complex  all_lags debias normalize  fsize-observed rtol atol  x y out *)
| KCorr (fn : cfun) (shape : list nat) (axis : Z) (cx cy : bool) (al db nm : bool)
        (fsobs : option nat) (rtol atol : float) (x y out : list fc)
(* seed_corrcoef: N, seed, target rows, returned r per row *)
| KSeed (N : nat) (seed : list float) (targets : list (list float)) (out : list float)
(* zscore: shape axis x, np.std per lane (outer-major), out *)
| KZscore (shape : list nat) (axis : Z) (rtol atol : float) (x : list fc) (stds : list float) (out : list fc)
| KPct (shape : list nat) (axis : Z) (rtol atol : float) (x : list fc) (out : list fc)
(* analyzer: channels, N, np.correlate(data[i],data[j],'full') for i<=j (row-major over pairs),
   the analyzer's nch*nch rows *)
| KXcorr (nch N : nat) (atol : float) (corr : list (list float)) (out : list (list float))
| KXcorrNorm (nch N : nat) (atol : float) (corr : list (list float)) (cc : list float) (out : list (list float))
(* correlation_spectrum: n norm, spectra of the demeaned inputs, sum x1^2 * sum x2^2 is computed
   from x1 x2 (demeaned by the model), out *)
| KCorrSpec (n : nat) (norm : bool) (x1 x2 : list float) (X1 X2 : list fc) (out : list float)
(* entropy family: kind, variables, lag, table k -> np.log2(k/n), returned value *)
| KEnt (k : ekind) (xs : list (list Z)) (lag : nat) (logtab : list float) (out : float).

(* ---------------------------------------------------------------- correlation family *)
Definition corr_lane (fn : cfun) (N : nat) (al db nm cplxx cplxy : bool) (x y : sig) : sig :=
  match fn with
  | FCrossCov => crosscov_fn circ_conv x y N al db nm (cplxx || cplxy)
  | FCrossCorr => crosscorr_fn circ_conv x y N al nm (cplxx || cplxy)
  | FAutoCov => autocov_fn circ_conv x N al db nm cplxx
  | FAutoCorr => autocorr_fn circ_conv x N al nm cplxx
  end.

Definition check_corr fn shape axis cx cy al db nm (fsobs : option nat) rtol atol x y out : bool :=
  let ax := norm_axis (length shape) axis in
  let N := axlen_of shape ax in
  let outer := outer_of shape ax in
  let inner := inner_of shape ax in
  let M := out_len N al in
  let dx := cl x in
  let dy := cl y in
  let model := along outer M inner
                     (fun o i => tab M (corr_lane fn N al db nm cx cy (lane dx N inner o i) (lane dy N inner o i))) in
  all2 (cclose (f2q rtol) (f2q atol)) model (cl out)
  && Nat.eqb (length x) (prodn shape)
  (* the transform length the implementation was seen to use must cover the linear convolution *)
  && match fsobs with Some f => (N + N - 1 <=? f)%nat | None => true end.

(* ---------------------------------------------------------------- seed_corrcoef *)
(* r = xy / sqrt(xx*yy): checked through r^2 * (xx*yy) = xy^2 and r * xy >= 0 *)
Definition check_seed (N : nat) (seed : list float) (targets : list (list float)) (out : list float) : bool :=
  let s := qsig (ql seed) in
  let yy := seed_yy s N in
  all2 (fun (t : list float) (r : float) =>
          let tq := qsig (ql t) in
          let xy := seed_xy s tq N in
          let xx := seed_xx tq N in
          let rq := f2q r in
          (* tolerances relative to the data scale: xy^2 <= xx*yy *)
          closeb_tol rtol_default (rtol_default * (xx * yy)) (rq * rq * (xx * yy)) (xy * xy)
          && (Qle_bool 0 (rq * xy) || Qle_bool (xy * xy) (rtol_default * (xx * yy)))
          && Nat.eqb (length t) N)
       targets out.

(* ---------------------------------------------------------------- zscore / percent_change *)
Definition check_zscore shape axis rtol atol x (stds : list float) out : bool :=
  let ax := norm_axis (length shape) axis in
  let N := axlen_of shape ax in
  let outer := outer_of shape ax in
  let inner := inner_of shape ax in
  let dx := cl x in
  let sq := ql stds in
  let model := along outer N inner
                     (fun o i => tab N (zscore_fn (lane dx N inner o i) N (nth (o * inner + i) sq 0))) in
  all2 (cclose (f2q rtol) (f2q atol)) model (cl out)
  && Nat.eqb (length x) (prodn shape)
  (* the library's std is the root of the variance of the lane *)
  && forallb (fun o => forallb (fun i => let s := nth (o * inner + i) sq 0 in
                                          let v := cvar (lane dx N inner o i) N in
                                          Qle_bool 0 s && closeb_tol rtol_default (rtol_default * v) (s * s) v)
                               (seq 0 inner)) (seq 0 outer).

Definition check_pct shape axis rtol atol x out : bool :=
  let ax := norm_axis (length shape) axis in
  let N := axlen_of shape ax in
  let outer := outer_of shape ax in
  let inner := inner_of shape ax in
  let dx := cl x in
  let model := along outer N inner (fun o i => tab N (pct_fn (lane dx N inner o i) N)) in
  all2 (cclose (f2q rtol) (f2q atol)) model (cl out) && Nat.eqb (length x) (prodn shape).

(* ---------------------------------------------------------------- analyzer *)
(* position of the pair (i,j), i <= j, in the row-major list of upper-triangle pairs *)
Fixpoint pair_pos (nch i j : nat) : nat :=
  match i with O => j | S i' => (nch + pair_pos (nch - 1) i' (j - 1))%nat end.
Definition corr_of (nch : nat) (corr : list (list float)) : nat -> nat -> nat -> Q :=
  let tbl := map ql corr in          (* converted once *)
  fun i j => qsig (nth (pair_pos nch i j) tbl []).

Definition check_rows (nch M : nat) (atol : Q) (f : nat -> nat -> nat -> Q) (out : list (list float)) : bool :=
  Nat.eqb (length out) (nch * nch)
  && forallb (fun i => forallb (fun j =>
       close_list_tol rtol_default atol (map (f i j) (seq 0 M)) (ql (nth (i * nch + j) out []))) (seq 0 nch)) (seq 0 nch).

Definition check_xcorr nch N (atol : float) corr out : bool :=
  check_rows nch (N + N - 1) (f2q atol) (xcorr_fill (corr_of nch corr)) out.
Definition check_xcorr_norm nch N (atol : float) corr (cc : list float) out : bool :=
  check_rows nch (N + N - 1) (f2q atol)
             (let ccq := ql cc in xcorr_norm_fill (corr_of nch corr) (fun i j => nth (i * nch + j) ccq 0) N) out.

(* ---------------------------------------------------------------- correlation_spectrum *)
Definition check_corrspec (n : nat) (norm : bool) (x1 x2 : list float) (X1 X2 : list fc) (out : list float) : bool :=
  let a := sig_of (cl X1) in
  let b := sig_of (cl X2) in
  let L := corrspec_len n in
  Nat.eqb (length out) L &&
  if norm then close_list (map (corrspec_norm a b n) (seq 0 L)) (ql out)
  else
    (* ccn = num / (sqrt(sum x1^2 * sum x2^2) * n):  ccn^2 * (S1*S2*n^2) = num^2, same sign *)
    let d1 := demean (qsig (ql x1)) n in
    let d2 := demean (qsig (ql x2)) n in
    let SS := dot d1 d1 n * dot d2 d2 n * (inj n * inj n) in
    all2 (fun k (c : Q) => let g := corrspec_num a b k in
                           (* |g| <= n sqrt(S1 S2): tolerances relative to SS *)
                           closeb_tol rtol_default (rtol_default * SS) (c * c * SS) (g * g)
                           && (Qle_bool 0 (c * g) || Qle_bool (g * g) (rtol_default * SS)))
         (seq 0 L) (ql out).

(* ---------------------------------------------------------------- entropy family *)
Definition qterm (logtab : list Q) (k n : nat) : Q := - (inj k / inj n) * nth k logtab 0.
Definition qaddr (a b : Q) : Q := Qred (a + b).
Definition Hq tabq := entropy_gen Q 0 qaddr (qterm tabq).

Definition check_ent (k : ekind) (xs : list (list Z)) (lag : nat) (logtab : list float) (out : float) : bool :=
  let tq := ql logtab in
  let o := f2q out in
  let x := nth 0 xs [] in
  let y := nth 1 xs [] in
  match k with
  | EEntropy => closeb (Hq tq xs) o
  | ECond => closeb (cond_entropy_gen Q 0 qaddr Qminus (qterm tq) x y) o
  | EMI => closeb (mutual_info_gen Q 0 qaddr Qminus (qterm tq) x y) o
  | ECC => let a := entropy_cc_args Q 0 qaddr Qminus (qterm tq) x y in
           (* out = sqrt (num / (0.5 * den)) *)
           Qle_bool 0 o && closeb (o * o * ((1 # 2) * snd a)) (fst a)
  | ETE => closeb (transfer_entropy_gen Q 0 qaddr Qminus (qterm tq) x y lag) o
  end.

Definition check (c : case) : bool :=
  match c with
  | KCorr fn shape axis cx cy al db nm fsobs rtol atol x y out =>
      check_corr fn shape axis cx cy al db nm fsobs rtol atol x y out
  | KSeed N seed targets out => check_seed N seed targets out
  | KZscore shape axis rtol atol x stds out => check_zscore shape axis rtol atol x stds out
  | KPct shape axis rtol atol x out => check_pct shape axis rtol atol x out
  | KXcorr nch N atol corr out => check_xcorr nch N atol corr out
  | KXcorrNorm nch N atol corr cc out => check_xcorr_norm nch N atol corr cc out
  | KCorrSpec n norm x1 x2 X1 X2 out => check_corrspec n norm x1 x2 X1 X2 out
  | KEnt k xs lag logtab out => check_ent k xs lag logtab out
  end.
