(* Check/C11K.v — case format and boolean checker of the C11 correspondence.
   A case = the inputs of one call of the implementation (floats, read exactly through f2q)
   together with what the implementation returned; `check` evaluates the model of Model/LWR.v
   in exact rational arithmetic and compares with a tolerance. *)
From Coq Require Import ZArith QArith List Bool PrimFloat FloatOps Lia.
From NT Require Import F2Z Lists Close Sums LWR.
Import ListNotations.

Definition fmat := list (list float).
Definition q_of (f : float) : Q := Qred (f2q f).
Definition qvec (v : list float) : list Q := map q_of v.
Definition qmat (m : fmat) : mat := map qvec m.
Definition all_finite (v : list float) : bool := forallb ffinite v.
Definition mat_finite (m : fmat) : bool := forallb all_finite m.

(* |a - b| <= 1e-9 + 1e-7 (|a| + |b|) : exact solution against the float implementation *)
Definition rtol : Q := 1 # 10000000.
Definition atol : Q := 1 # 1000000000.
Definition cl (a b : Q) : bool := closeb_tol rtol atol a b.
Definition vec_close (v : list Q) (w : list float) : bool := all_finite w && all2 cl v (qvec w).
Definition mat_close (m : mat) (w : fmat) : bool := all2 vec_close m w.
Definition mats_close (l : list mat) (w : list fmat) : bool := all2 mat_close l w.

(* ---- a fast evaluator of the same generic model: 2^-96 fixed-point matrices ----------------
   `lwr_recursion` is generic in the ring operations; for channel counts / orders where exact
   rational arithmetic is too slow inside vm_compute the correspondence runs it over this
   instance (every entry an integer multiple of 2^-96, products rounded down, Gauss-Jordan with
   largest-magnitude pivot).  The theorems are about the exact instance `mat_ops`; this one only
   serves to compare the *structure* of the recursion (indices, transposes, update order) with the
   implementation on larger cases; small cases are run over both instances. *)
Definition FB : Z := 96.
Definition zmat := list (list Z).
Definition zget (M : zmat) (i j : nat) : Z := nth j (nth i M []) 0%Z.
Definition ztab (n : nat) (f : nat -> nat -> Z) : zmat :=
  map (fun i => map (fun j => f i j) (seq 0 n)) (seq 0 n).
Fixpoint zsum (f : nat -> Z) (n : nat) : Z :=
  match n with O => 0%Z | S k => (zsum f k + f k)%Z end.
Definition zrow_scale (p : Z) (r : list Z) : list Z := map (fun x => (Z.shiftl x FB / p)%Z) r.
Definition zrow_elim (c : nat) (p r : list Z) : list Z :=
  let s := nth c r 0%Z in zipw (fun x y => (x - Z.shiftr (s * y) FB)%Z) r p.
(* pick the row of `todo` with the largest |entry c| *)
Fixpoint zbest (c : nat) (best : list Z) (rest acc : list (list Z)) : list Z * list (list Z) :=
  match rest with
  | [] => (best, acc)
  | r :: t => if (Z.abs (nth c best 0) <? Z.abs (nth c r 0))%Z then zbest c r t (best :: acc)
              else zbest c best t (r :: acc)
  end.
Fixpoint zgj (cols : list nat) (done todo : list (list Z)) : list (list Z) :=
  match cols with
  | [] => done
  | c :: cs =>
      match todo with
      | [] => done
      | r0 :: t =>
          let '(p, others) := zbest c r0 t [] in
          let pv := nth c p 0%Z in
          if (pv =? 0)%Z then done else
          let p' := zrow_scale pv p in
          zgj cs (map (zrow_elim c p') done ++ [p']) (map (zrow_elim c p') others)
      end
  end.
Definition zinv (n : nat) (A : zmat) : zmat :=
  let aug := map (fun i => map (fun j => zget A i j) (seq 0 n) ++
                           map (fun j => if Nat.eqb i j then Z.shiftl 1 FB else 0%Z) (seq 0 n)) (seq 0 n) in
  map (skipn n) (zgj (seq 0 n) [] aug).
Definition fx_ops (n : nat) : rops zmat :=
  mk_rops zmat
    (ztab n (fun _ _ => 0%Z))
    (ztab n (fun i j => if Nat.eqb i j then Z.shiftl 1 FB else 0%Z))
    (fun A B => ztab n (fun i j => (zget A i j + zget B i j)%Z))
    (fun A B => ztab n (fun i j => Z.shiftr (zsum (fun k => (zget A i k * zget B k j)%Z) n) FB))
    (fun A => ztab n (fun i j => (- zget A i j)%Z))
    (fun A => ztab n (fun i j => zget A j i))
    (zinv n).
Definition fx_of (f : float) : Z :=
  match f2ze f with Some (m, e) => Z.shiftl m (e + FB) | None => 0%Z end.
Definition fx_mat (m : fmat) : zmat := map (map fx_of) m.
(* exact rational -> fixed point (rounded down) *)
Definition fx_of_q (q : Q) : Z := (Z.shiftl (Qnum q) FB / Zpos (Qden q))%Z.
Definition fx_of_mat (m : mat) : zmat := map (map fx_of_q) m.
Definition fx_q (z : Z) : Q := Qmake z (Z.to_pos (Z.shiftl 1 FB)).
Definition fx_mat_close (m : zmat) (w : fmat) : bool :=
  all2 (fun r wr => all_finite wr && all2 (fun z f => cl (fx_q z) (q_of f)) r wr) m w.
Definition fx_mats_close (l : list zmat) (w : list fmat) : bool := all2 fx_mat_close l w.


(* outcome of fit_model as observed on the implementation; Rxx in the implementation's
   layout [i][j][k] *)
Inductive fit_out :=
| FitOk (order : nat) (nlags : nat) (Rxx : list (list (list float))) (coef : list fmat) (ecov : fmat)
| FitValueError.

Inductive case :=
| KLwr (exact : bool) (nc : nat) (r : list fmat) (a : list fmat) (sigma : fmat)
| KLd (r : list float) (order : nat) (w : list float) (b : float)
| KCov (x y : fmat) (nlags : option nat) (rxy : list (list (list float)))
| KMar (exact : bool) (x : fmat) (order : nat) (a : list fmat) (ecov : fmat)
| KFit (exact : bool) (x1 x2 : list float) (order : option nat) (max_order : nat) (crit : list float) (out : fit_out)
| KGen (nc N : nat) (a : list fmat) (nz mar : fmat)
| KCrit (is_bic corrected : bool) (L lN : float) (p m Ntotal : Z) (value : float).

(* (nc, N) array -> list of N column vectors *)
Definition cols (nc N : nat) (rows : list (list Q)) : list (list Q) :=
  map (fun t => map (fun i => nth t (nth i rows []) 0%Q) (seq 0 nc)) (seq 0 N).

Definition rxy_close (m : list (list (list Q))) (w : list (list (list float))) : bool :=
  all2 (fun a b => all2 vec_close a b) m w.

Definition check_raw (c : case) : bool :=
  match c with
  | KLwr exact nc r a sigma =>
      (let '(az, sz) := lwr_recursion (fx_ops nc) (map fx_mat r) in
       fx_mats_close az a && fx_mat_close sz sigma)
      && (if exact then
            let '(am, sm) := lwr_recursion (mat_ops nc) (map qmat r) in
            mats_close am a && mat_close sm sigma
          else true)
  | KLd r order w b =>
      let rq := qvec r in
      let '(wm, bm) := ld rq order in
      let '(am, sm) := lwr_recursion q_ops (firstn (S order) rq) in
      vec_close wm w && cl bm (q_of b) && ffinite b
      && vec_close (map Qopp am) w && cl sm (q_of b)
  | KCov x y nlags rxy => rxy_close (crosscov_vector_kw (qmat x) (qmat y) nlags) rxy
  | KMar exact x order a ecov =>
      let xq := qmat x in
      (let '(az, sz) := MAR_est_LWR_in (fx_ops (length xq)) fx_of_mat xq order in
       fx_mats_close az a && fx_mat_close sz ecov)
      && (if exact then
            let '(am, sm) := MAR_est_LWR xq order in mats_close am a && mat_close sm ecov
          else true)
  | KFit exact x1 x2 order max_order crit out =>
      let x := [qvec x1; qvec x2] in
      let critq := qvec crit in
      (match fit_model (fx_ops 2) (fun n => map fx_of_mat (rxx_of x n)) (fun _ m => nth m critq 0%Q)
                       order max_order, out with
       | FMOk o Rx cf ec, FitOk o' nl Rxx' cf' ec' =>
           Nat.eqb o o' && Nat.eqb (length Rx) nl
           && all2 (fun (A : zmat) (B : mat) => all2 (all2 (fun z q => cl (fx_q z) q)) A B) Rx
                   (lags_of 2 nl (map (map qvec) Rxx'))
           && forallb (forallb all_finite) Rxx'
           && fx_mats_close cf cf' && fx_mat_close ec ec'
       | FMValueError, FitValueError => true
       | _, _ => false
       end)
      && (if exact then
            match fit_model (mat_ops 2) (rxx_of x) (fun _ m => nth m critq 0%Q) order max_order, out with
            | FMOk o Rx cf ec, FitOk o' nl Rxx' cf' ec' =>
                Nat.eqb o o' && Nat.eqb (length Rx) nl
                && all2 (fun (A : mat) (B : mat) => all2 (all2 cl) A B) Rx
                        (lags_of 2 nl (map (map qvec) Rxx'))
                && mats_close cf cf' && mat_close ec ec'
            | FMValueError, FitValueError => true
            | _, _ => false
            end
          else true)
  | KGen nc N a nz mar =>
      let X := generate_mar_from (vsubq nc) (mvmul nc) [] [] (map qmat a) (cols nc N (qmat nz)) in
      mat_finite mar && mat_finite nz
      && all2 (all2 cl) X (cols nc N (qmat mar))
  | KCrit is_bic corrected L lN p m Ntotal value =>
      ffinite value &&
      cl (if is_bic then bic (q_of L) (q_of lN) p m Ntotal else aic (q_of L) p m Ntotal corrected)
         (q_of value)
  end.

(* ---- scale normalisation ---------------------------------------------------------------------
   The recursion is scale-equivariant (C11_lwr_scale_equivariant: r |-> c r gives the same
   coefficients and c sigma), the covariance helper is bilinear, generate_mar is linear in the noise.
   Before comparing, every case is therefore brought to unit scale by EXACT powers of two applied
   to its float data (inputs and the implementation's outputs alike): the tolerances of `check_raw`
   are then relative to the size of R(0) / of the data, whatever the physical units were, and the
   2^-96 fixed-point instance keeps its precision. *)
Definition qmaxabs (l : list float) : Q :=
  fold_left (fun acc f => let v := Qabsb (f2q f) in if Qle_bool acc v then v else acc) l 0%Q.
Definition qmaxabs_m (m : fmat) : Q :=
  fold_left (fun acc r => let v := qmaxabs r in if Qle_bool acc v then v else acc) m 0%Q.
(* e with 2^e * q in about [1/2, 2) ; 0 for q = 0 *)
Definition norm_exp (q : Q) : Z :=
  if Qeq_bool q 0 then 0%Z else (Z.log2 (Zpos (Qden q)) - Z.log2 (Z.abs (Qnum q)))%Z.
Definition fsc (e : Z) (f : float) : float := PrimFloat.mul f (Z.ldexp 1%float e).
Definition vsc (e : Z) (v : list float) : list float := map (fsc e) v.
Definition msc (e : Z) (m : fmat) : fmat := map (vsc e) m.

Definition normalise (c : case) : case :=
  match c with
  | KLwr exact nc r a sigma =>
      let e := norm_exp (qmaxabs_m (nth 0 r [])) in
      KLwr exact nc (map (msc e) r) a (msc e sigma)
  | KLd r order w b =>
      let e := norm_exp (qmaxabs (firstn 1 r)) in KLd (vsc e r) order w (fsc e b)
  | KCov x y nlags rxy =>
      let ex := norm_exp (qmaxabs_m x) in let ey := norm_exp (qmaxabs_m y) in
      KCov (msc ex x) (msc ey y) nlags (map (msc (ex + ey)) rxy)
  | KMar exact x order a ecov =>
      let e := norm_exp (qmaxabs_m x) in KMar exact (msc e x) order a (msc (2 * e) ecov)
  | KFit exact x1 x2 order max_order crit out =>
      let e := norm_exp (qmaxabs_m [x1; x2]) in
      KFit exact (vsc e x1) (vsc e x2) order max_order crit
           (match out with
            | FitOk o nl Rxx cf ec => FitOk o nl (map (msc (2 * e)) Rxx) cf (msc (2 * e) ec)
            | FitValueError => FitValueError
            end)
  | KGen nc N a nz mar =>
      let e := norm_exp (qmaxabs_m nz) in KGen nc N a (msc e nz) (msc e mar)
  | KCrit _ _ _ _ _ _ _ _ => c
  end.

Definition check (c : case) : bool := check_raw (normalise c).
