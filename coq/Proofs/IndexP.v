(* Proofs/IndexP.v — lemmas about Model/Index.v (property C03). *)
From Coq Require Import ZArith List Bool Lia Sorted PrimFloat.
From NT Require Import F2Z Lists TimeArray TimeArrayP Index.
Import ListNotations.
Open Scope Z_scope.

(* ================================================================ generic list facts *)
Lemma nth_error_app_l {A} (l l' : list A) k : (k < length l)%nat -> nth_error (l ++ l') k = nth_error l k.
Proof. intros; apply nth_error_app1; auto. Qed.

(* np.where: exactly the true positions, ascending *)
Lemma where_from_In i m k :
  In k (where_from i m) <-> (i <= k)%nat /\ nth_error m (k - i) = Some true.
Proof.
  revert i; induction m as [|b m IH]; intros i; simpl.
  - split; [tauto|]. intros [_ H]. destruct (k - i)%nat; discriminate.
  - destruct b; simpl; rewrite ?IH.
    + split.
      * intros [E|[H1 H2]].
        -- subst. split; [lia|]. replace (k - k)%nat with 0%nat by lia. reflexivity.
        -- split; [lia|]. replace (k - i)%nat with (S (k - S i)) by lia. exact H2.
      * intros [H1 H2]. destruct (Nat.eq_dec i k) as [E|N]; [left; auto|right].
        split; [lia|]. replace (k - i)%nat with (S (k - S i)) in H2 by lia. exact H2.
    + split.
      * intros [H1 H2]. split; [lia|]. replace (k - i)%nat with (S (k - S i)) by lia. exact H2.
      * intros [H1 H2]. destruct (Nat.eq_dec i k) as [E|N].
        -- subst. replace (k - k)%nat with 0%nat in H2 by lia. discriminate.
        -- split; [lia|]. replace (k - i)%nat with (S (k - S i)) in H2 by lia. exact H2.
Qed.

Lemma np_where_In m k : In k (np_where m) <-> nth_error m k = Some true.
Proof.
  unfold np_where. rewrite where_from_In. replace (k - 0)%nat with k by lia.
  split; [tauto|]. intros; split; [lia|auto].
Qed.

Lemma where_from_sorted i m : StronglySorted lt (where_from i m).
Proof.
  revert i; induction m as [|b m IH]; intros i; simpl; [constructor|].
  destruct b; [|apply IH]. constructor; [apply IH|].
  apply Forall_forall. intros k H. apply where_from_In in H. lia.
Qed.

Lemma np_where_sorted m : StronglySorted lt (np_where m).
Proof. apply where_from_sorted. Qed.

Lemma sorted_lt_nth l : StronglySorted lt l ->
  forall i j a b, nth_error l i = Some a -> nth_error l j = Some b -> (i < j)%nat -> (a < b)%nat.
Proof.
  induction 1 as [|x l S IH F]; intros i j a b Hi Hj Lt.
  - destruct i; discriminate.
  - destruct j; [lia|]. destruct i; simpl in *.
    + injection Hi as <-. rewrite Forall_forall in F. apply F. eapply nth_error_In; eauto.
    + eapply IH; eauto. lia.
Qed.

Lemma sorted_lt_nth_inv l : StronglySorted lt l ->
  forall i j a b, nth_error l i = Some a -> nth_error l j = Some b -> (a < b)%nat -> (i < j)%nat.
Proof.
  intros S i j a b Hi Hj Lt.
  destruct (Nat.lt_ge_cases i j) as [H|H]; auto.
  destruct (Nat.eq_dec i j) as [E|N].
  - subst. rewrite Hi in Hj. injection Hj as <-. lia.
  - assert (b < a)%nat by (eapply (sorted_lt_nth l S j i); eauto; lia). lia.
Qed.

(* gather over the true positions = filter *)
Lemma xall_ok {A} (l : list (xres A)) (r : list A) : map XOk r = l -> xall l = XOk r.
Proof. intros <-. induction r; simpl; auto. rewrite IHr. reflexivity. Qed.

Lemma gather_where_from {A} (P : A -> bool) (pre l : list A) :
  gather (pre ++ l) (where_from (length pre) (map P l)) = XOk (filter P l).
Proof.
  revert pre; induction l as [|x l IH]; intros pre; simpl; [reflexivity|].
  assert (E : pre ++ x :: l = (pre ++ [x]) ++ l) by (rewrite <- app_assoc; reflexivity).
  assert (L : length (pre ++ [x]) = S (length pre)) by (rewrite app_length; simpl; lia).
  destruct (P x); simpl.
  - unfold gather in *. simpl. unfold getn at 1. rewrite nth_error_app2 by lia.
    replace (length pre - length pre)%nat with 0%nat by lia. simpl.
    rewrite E, <- L. rewrite IH. reflexivity.
  - rewrite E, <- L. apply IH.
Qed.

Lemma gather_where {A} (P : A -> bool) (l : list A) :
  gather l (np_where (map P l)) = XOk (filter P l).
Proof. exact (gather_where_from P [] l). Qed.

(* position j of the where-list is the position (in l) of the j-th element of the filter *)
Lemma where_from_nth {A} (P : A -> bool) (l : list A) i j k :
  nth_error (where_from i (map P l)) j = Some k ->
  (i <= k)%nat /\ exists x, nth_error l (k - i) = Some x /\ P x = true /\ nth_error (filter P l) j = Some x.
Proof.
  revert i j; induction l as [|x l IH]; intros i j; simpl.
  - destruct j; discriminate.
  - destruct (P x) eqn:Px; simpl.
    + destruct j; simpl.
      * intros E; injection E as <-. split; [lia|]. exists x. replace (i - i)%nat with 0%nat by lia. auto.
      * intros H. apply IH in H as [H1 (y & H2 & H3 & H4)]. split; [lia|]. exists y.
        replace (k - i)%nat with (S (k - S i)) by lia. auto.
    + intros H. apply IH in H as [H1 (y & H2 & H3 & H4)]. split; [lia|]. exists y.
      replace (k - i)%nat with (S (k - S i)) by lia. auto.
Qed.

Lemma where_from_length {A} (P : A -> bool) (l : list A) i :
  length (where_from i (map P l)) = length (filter P l).
Proof.
  revert i; induction l as [|x l IH]; intros i; simpl; auto.
  destruct (P x); simpl; rewrite IH; reflexivity.
Qed.

Lemma In_nth_error_ex {A} (l : list A) x : In x l -> exists j, nth_error l j = Some x.
Proof. apply In_nth_error. Qed.

(* ================================================================ first arg-max / arg-min *)
(* j is the position of the first maximal element of l, v its value *)
Definition first_max (l : list Z) (j : nat) (v : Z) : Prop :=
  nth_error l j = Some v /\
  forall k y, nth_error l k = Some y -> y <= v /\ ((k < j)%nat -> y < v).
Definition first_min (l : list Z) (j : nat) (v : Z) : Prop :=
  nth_error l j = Some v /\
  forall k y, nth_error l k = Some y -> v <= y /\ ((k < j)%nat -> v < y).

Lemma argmax_from_spec l : forall pre best bi,
  first_max pre bi best ->
  exists v, first_max (pre ++ l) (argmax_from best bi (length pre) l) v.
Proof.
  induction l as [|x l IH]; intros pre best bi [H1 H2]; simpl.
  - rewrite app_nil_r. exists best. split; auto.
  - assert (Lb : (bi < length pre)%nat) by (apply nth_error_Some; congruence).
    assert (E : pre ++ x :: l = (pre ++ [x]) ++ l) by (rewrite <- app_assoc; reflexivity).
    assert (L : length (pre ++ [x]) = S (length pre)) by (rewrite app_length; simpl; lia).
    rewrite E, <- L. destruct (best <? x) eqn:C.
    + apply Z.ltb_lt in C. apply IH. split.
      * rewrite nth_error_app2 by lia. replace (length pre - length pre)%nat with 0%nat by lia. reflexivity.
      * intros k y Hk. destruct (Nat.lt_ge_cases k (length pre)) as [Lt|Ge].
        -- rewrite nth_error_app1 in Hk by lia. destruct (H2 k y Hk). split; lia.
        -- rewrite nth_error_app2 in Hk by lia. destruct (k - length pre)%nat eqn:D; simpl in Hk.
           ++ injection Hk as <-. split; lia.
           ++ destruct n; discriminate.
    + apply Z.ltb_ge in C. apply IH. split.
      * rewrite nth_error_app1 by lia. exact H1.
      * intros k y Hk. destruct (Nat.lt_ge_cases k (length pre)) as [Lt|Ge].
        -- rewrite nth_error_app1 in Hk by lia. apply H2; auto.
        -- rewrite nth_error_app2 in Hk by lia. destruct (k - length pre)%nat eqn:D; simpl in Hk.
           ++ injection Hk as <-. split; lia.
           ++ destruct n; discriminate.
Qed.

Lemma argmax_spec l j : argmax l = Some j -> exists v, first_max l j v.
Proof.
  destruct l as [|x l]; simpl; [discriminate|]. intros E; injection E as <-.
  apply (argmax_from_spec l [x] x 0%nat). split; [reflexivity|].
  intros k y Hk. destruct k; simpl in Hk; [injection Hk as <-; split; lia|destruct k; discriminate].
Qed.

Lemma argmax_some l : l <> [] -> exists j, argmax l = Some j.
Proof. destruct l; [congruence|]. simpl. eauto. Qed.

Lemma argmin_from_opp l : forall best bi i,
  argmin_from best bi i l = argmax_from (- best) bi i (map Z.opp l).
Proof.
  induction l as [|x l IH]; intros best bi i; simpl; auto.
  replace (- best <? - x) with (x <? best).
  - destruct (x <? best); apply IH.
  - destruct (x <? best) eqn:C; symmetry; [apply Z.ltb_lt in C; apply Z.ltb_lt; lia|apply Z.ltb_ge in C; apply Z.ltb_ge; lia].
Qed.

Lemma argmin_spec l j : argmin l = Some j -> exists v, first_min l j v.
Proof.
  destruct l as [|x l]; simpl; [discriminate|]. intros E; injection E as <-.
  rewrite argmin_from_opp.
  destruct (argmax_spec (map Z.opp (x :: l)) (argmax_from (- x) 0 1 (map Z.opp l)) eq_refl) as [v [H1 H2]].
  exists (- v). split.
  - rewrite nth_error_map in H1. destruct (nth_error (x :: l) _) as [y|]; simpl in H1; [|discriminate].
    injection H1 as <-. f_equal. lia.
  - intros k y Hk. assert (Hk' : nth_error (map Z.opp (x :: l)) k = Some (- y)) by (rewrite nth_error_map, Hk; reflexivity).
    destruct (H2 k (- y) Hk'). split; lia.
Qed.

Lemma argmin_some l : l <> [] -> exists j, argmin l = Some j.
Proof. destruct l; [congruence|]. simpl. eauto. Qed.

(* ================================================================ pick: first extremal position among the positions satisfying P *)
Lemma pick_nonempty am self c cs :
  pick am self (c :: cs) =
  (do v <- gather (payload self) (c :: cs);
   match am v with None => XErr XValue | Some j => do k <- getn (c :: cs) j; XOk (IScalar k) end).
Proof. reflexivity. Qed.

Section Pick.
Variable self : tarr.
Variable P : Z -> bool.
Let l := payload self.
Let cond := np_where (map P l).

Lemma cond_nil_none : cond = [] -> forall x, In x l -> P x = false.
Proof.
  intros E x Hx. destruct (P x) eqn:Px; auto. exfalso.
  apply In_nth_error in Hx as [j Hj].
  assert (In j cond). { apply np_where_In. rewrite nth_error_map, Hj. simpl. congruence. }
  rewrite E in H. destruct H.
Qed.

Lemma cond_transport (fm : list Z -> nat -> Z -> Prop) j v :
  nth_error (filter P l) j = Some v ->
  exists k, nth_error cond j = Some k /\ nth_error l k = Some v /\ P v = true.
Proof.
  intros Hj. assert (Lj : (j < length cond)%nat).
  { unfold cond, np_where. rewrite where_from_length. apply nth_error_Some. congruence. }
  destruct (nth_error cond j) as [k|] eqn:Hk; [|apply nth_error_None in Hk; lia].
  exists k. split; auto. unfold cond, np_where in Hk.
  apply where_from_nth in Hk as [_ (x & H1 & H2 & H3)]. replace (k - 0)%nat with k in H1 by lia.
  fold l in H3. rewrite Hj in H3. injection H3 as <-. auto.
Qed.

Lemma cond_back j y : nth_error l j = Some y -> P y = true ->
  exists i, nth_error cond i = Some j /\ nth_error (filter P l) i = Some y.
Proof.
  intros Hj Py. assert (In j cond). { apply np_where_In. rewrite nth_error_map, Hj. simpl. congruence. }
  apply In_nth_error in H as [i Hi]. exists i. split; auto.
  unfold cond, np_where in Hi. apply where_from_nth in Hi as [_ (x & H1 & H2 & H3)].
  replace (j - 0)%nat with j in H1 by lia. fold l in H1. rewrite Hj in H1. injection H1 as <-. exact H3.
Qed.

Lemma pick_argmax_spec :
  ((forall x, In x l -> P x = false) /\ pick argmax self cond = XOk (IList []))
  \/ exists k v, pick argmax self cond = XOk (IScalar k) /\ nth_error l k = Some v /\ P v = true /\
       forall j y, nth_error l j = Some y -> P y = true -> y <= v /\ ((j < k)%nat -> y < v).
Proof.
  destruct cond as [|c cs] eqn:Ec.
  - left. split; [apply cond_nil_none; exact Ec|reflexivity].
  - right. rewrite pick_nonempty, <- Ec. unfold cond at 1. fold l. rewrite gather_where. simpl.
    assert (NE : filter P l <> []).
    { intros E. assert (length cond = 0%nat) by (unfold cond, np_where; rewrite where_from_length, E; reflexivity).
      rewrite Ec in H. discriminate. }
    destruct (argmax_some _ NE) as [j Hj]. rewrite Hj.
    destruct (argmax_spec _ _ Hj) as [v [F1 F2]].
    destruct (cond_transport first_max j v F1) as (k & Hk & Hl & Pv).
    exists k, v. unfold getn. rewrite Hk. simpl. repeat split; auto.
    + destruct (cond_back j0 y H H0) as (i & Hi & Hf). apply (F2 i y Hf).
    + intros Lt. destruct (cond_back j0 y H H0) as (i & Hi & Hf).
      apply (F2 i y Hf). eapply sorted_lt_nth_inv; [apply np_where_sorted|exact Hi|exact Hk|exact Lt].
Qed.

Lemma pick_argmin_spec :
  ((forall x, In x l -> P x = false) /\ pick argmin self cond = XOk (IList []))
  \/ exists k v, pick argmin self cond = XOk (IScalar k) /\ nth_error l k = Some v /\ P v = true /\
       forall j y, nth_error l j = Some y -> P y = true -> v <= y /\ ((j < k)%nat -> v < y).
Proof.
  destruct cond as [|c cs] eqn:Ec.
  - left. split; [apply cond_nil_none; exact Ec|reflexivity].
  - right. rewrite pick_nonempty, <- Ec. unfold cond at 1. fold l. rewrite gather_where. simpl.
    assert (NE : filter P l <> []).
    { intros E. assert (length cond = 0%nat) by (unfold cond, np_where; rewrite where_from_length, E; reflexivity).
      rewrite Ec in H. discriminate. }
    destruct (argmin_some _ NE) as [j Hj]. rewrite Hj.
    destruct (argmin_spec _ _ Hj) as [v [F1 F2]].
    destruct (cond_transport first_min j v F1) as (k & Hk & Hl & Pv).
    exists k, v. unfold getn. rewrite Hk. simpl. repeat split; auto.
    + destruct (cond_back j0 y H H0) as (i & Hi & Hf). apply (F2 i y Hf).
    + intros Lt. destruct (cond_back j0 y H H0) as (i & Hi & Hf).
      apply (F2 i y Hf). eapply sorted_lt_nth_inv; [apply np_where_sorted|exact Hi|exact Hk|exact Lt].
Qed.
End Pick.

(* ================================================================ TimeArray.index_at, one instant *)
Lemma bcast_single_r {A} (f : Z -> Z -> A) a sa t sb :
  exists sc, bcast f a sa [t] sb = Some (map (fun x => f x t) a, sc).
Proof. destruct a as [|x [|y a]]; simpl; eauto. Qed.

Lemma bcast_single_l {A} (f : Z -> Z -> A) t sa b sb :
  exists sc, bcast f [t] sa b sb = Some (map (f t) b, sc).
Proof. simpl. eauto. Qed.

Lemma cmp_le_single self t u sc :
  exists s', binop_cmp Le self (OTime (mk_tarr [t] u sc)) = Ok (map (fun x => x <=? t) (payload self), s').
Proof.
  unfold binop_cmp. rewrite conv_time. simpl payload. simpl scalar.
  destruct (bcast_single_r (cmp_fn Le) (payload self) (scalar self) t sc) as [s' E]. rewrite E. eauto.
Qed.

Lemma cmp_le_single_l self t u sc :
  exists s', binop_cmp Le (mk_tarr [t] u sc) (OTime self) = Ok (map (fun x => t <=? x) (payload self), s').
Proof. unfold binop_cmp. rewrite conv_time. simpl. eauto. Qed.

Lemma as_query_time_scalar u t eu : as_query u (DTime (mk_tarr [t] eu true)) = Ok (mk_tarr [t] u false).
Proof. reflexivity. Qed.

Lemma as_query_time_1d u p eu : as_query u (DTime (mk_tarr p eu false)) = Ok (mk_tarr p u false).
Proof. reflexivity. Qed.

Lemma as_query_int u n sc : as_query u (DInts sc [n]) = Ok (mk_tarr [wrap64 (n * factor u)] u false).
Proof. destruct sc; reflexivity. Qed.

(* the instant denoted by a time object does not depend on the unit it is expressed in *)
Lemma as_query_unit_irrelevant u p eu eu' sc :
  as_query u (DTime (mk_tarr p eu sc)) = as_query u (DTime (mk_tarr p eu' sc)).
Proof. destruct sc; reflexivity. Qed.

Lemma index_before_spec self t u sc :
  let l := payload self in
  ((forall x, In x l -> t < x) /\ index_before self (mk_tarr [t] u sc) = XOk (IList []))
  \/ exists k v, index_before self (mk_tarr [t] u sc) = XOk (IScalar k) /\ nth_error l k = Some v /\ v <= t /\
       forall j y, nth_error l j = Some y -> y <= t -> y <= v /\ ((j < k)%nat -> y < v).
Proof.
  intros l. unfold index_before. destruct (cmp_le_single self t u sc) as [s' E]. rewrite E. simpl.
  destruct (pick_argmax_spec self (fun x => x <=? t)) as [[H1 H2]|(k & v & H1 & H2 & H3 & H4)].
  - left. split; auto. intros x Hx. apply H1 in Hx. apply Z.leb_gt in Hx. exact Hx.
  - right. exists k, v. apply Z.leb_le in H3. repeat split; auto.
    + apply (H4 j y H). apply Z.leb_le; auto.
    + apply (H4 j y H). apply Z.leb_le; auto.
Qed.

Lemma index_after_spec self t u sc :
  let l := payload self in
  ((forall x, In x l -> x < t) /\ index_after self (mk_tarr [t] u sc) = XOk (IList []))
  \/ exists k v, index_after self (mk_tarr [t] u sc) = XOk (IScalar k) /\ nth_error l k = Some v /\ t <= v /\
       forall j y, nth_error l j = Some y -> t <= y -> v <= y /\ ((j < k)%nat -> v < y).
Proof.
  intros l. unfold index_after. destruct (cmp_le_single_l self t u sc) as [s' E]. rewrite E. simpl.
  destruct (pick_argmin_spec self (fun x => t <=? x)) as [[H1 H2]|(k & v & H1 & H2 & H3 & H4)].
  - left. split; auto. intros x Hx. apply H1 in Hx. apply Z.leb_gt in Hx. exact Hx.
  - right. exists k, v. apply Z.leb_le in H3. repeat split; auto.
    + apply (H4 j y H). apply Z.leb_le; auto.
    + apply (H4 j y H). apply Z.leb_le; auto.
Qed.

Lemma wrap64_sub_abs x t : in62 x = true -> in62 t = true -> wrap64 (Z.abs (wrap64 (x - t))) = Z.abs (x - t).
Proof.
  intros Hx Ht. apply in62_spec in Hx. apply in62_spec in Ht.
  assert (P62 : 2 ^ 63 = 2 * 2 ^ 62) by reflexivity.
  rewrite (wrap64_id (x - t)) by lia. apply wrap64_id. lia.
Qed.

Lemma index_closest_spec self t u sc tol tau u2 sc2 :
  let l := payload self in
  Forall (fun x => in62 x = true) l -> in62 t = true ->
  ctor (UArg (tunit self)) (match tol with None => DTime clock_tick | Some x => x end) = Ok (mk_tarr [tau] u2 sc2) ->
  exists r, index_closest self (mk_tarr [t] u sc) tol = XOk (IList r) /\ StronglySorted lt r /\
    forall k, In k r <-> exists x, nth_error l k = Some x /\ Z.abs (x - t) <= tau.
Proof.
  intros l Fl Ht Htol. unfold index_closest, binop_arith. rewrite conv_time. simpl payload. simpl scalar.
  destruct (bcast_single_r (arith_fn Sub) (payload self) (scalar self) t sc) as [s1 E1]. rewrite E1.
  cbn [of_res xbind]. rewrite Htol. cbn [of_res xbind tabs payload tunit scalar]. unfold binop_cmp. rewrite conv_time. simpl payload. simpl scalar.
  match goal with |- context [bcast ?f ?a ?sa [tau] ?sb] =>
    destruct (bcast_single_r f a sa tau sb) as [s2 E2]; rewrite E2 end. simpl.
  eexists. split; [reflexivity|]. split; [apply np_where_sorted|].
  intros k. rewrite np_where_In. fold l. rewrite !nth_error_map.
  destruct (nth_error l k) as [x|] eqn:Hk; simpl.
  - assert (Hx : in62 x = true) by (eapply Forall_in62; eauto; eapply nth_error_In; eauto).
    rewrite wrap64_sub_abs by auto. split.
    + intros H. injection H as H. exists x. split; auto. apply Z.leb_le; auto.
    + intros (y & Hy & Le). injection Hy as <-. f_equal. apply Z.leb_le; auto.
  - split; [discriminate|]. intros (y & Hy & _). discriminate.
Qed.

Lemma clock_tick_tol u : ctor (UArg u) (DTime clock_tick) = Ok (mk_tarr [1] u true).
Proof. reflexivity. Qed.

(* ================================================================ slices *)
(* if the positions satisfying P are exactly a <= k < b, the slice [a:b] is the filter *)
Lemma slice_filter {A} (P : A -> bool) (l : list A) : forall a b,
  (forall k x, nth_error l k = Some x -> (P x = true <-> (a <= k < b)%nat)) ->
  filter P l = slice_nat a b l.
Proof.
  induction l as [|x l IH]; intros a b H.
  - unfold slice_nat. rewrite skipn_nil, firstn_nil. reflexivity.
  - pose proof (H 0%nat x eq_refl) as H0.
    assert (HS : forall k y, nth_error l k = Some y -> (P y = true <-> (a <= S k < b)%nat)) by (intros k y Hk; apply (H (S k) y Hk)).
    simpl. destruct a as [|a'].
    + destruct b as [|b'].
      * destruct (P x) eqn:Px; [destruct H0 as [H0 _]; specialize (H0 eq_refl); lia|].
        rewrite (IH 0%nat 0%nat); [reflexivity|]. intros k y Hk. rewrite (HS k y Hk). lia.
      * destruct (P x) eqn:Px; [|destruct H0 as [_ H0]; specialize (H0 ltac:(lia)); discriminate].
        rewrite (IH 0%nat b'). { unfold slice_nat. simpl. rewrite Nat.sub_0_r. reflexivity. }
        intros k y Hk. rewrite (HS k y Hk). lia.
    + destruct (P x) eqn:Px; [destruct H0 as [H0 _]; specialize (H0 eq_refl); lia|].
      rewrite (IH a' (b - 1)%nat).
      * unfold slice_nat. simpl. replace (b - 1 - a')%nat with (b - S a')%nat by lia. reflexivity.
      * intros k y Hk. rewrite (HS k y Hk). lia.
Qed.

Definition sorted_idx (l : list Z) : Prop :=
  forall i j x y, (i <= j)%nat -> nth_error l i = Some x -> nth_error l j = Some y -> x <= y.

Lemma sorted_idx_of l : StronglySorted Z.le l -> sorted_idx l.
Proof.
  induction 1 as [|a l S IH F]; intros i j x y Le Hi Hj.
  - destruct i; discriminate.
  - destruct i, j; simpl in *; try lia.
    + injection Hi as <-. injection Hj as <-. lia.
    + injection Hi as <-. rewrite Forall_forall in F. apply F. eapply nth_error_In; eauto.
    + apply (IH i j x y); auto. lia.
Qed.

Lemma fold_max_spec l : forall x,
  let m := fold_left Nat.max l x in (m = x \/ In m l) /\ (x <= m)%nat /\ forall y, In y l -> (y <= m)%nat.
Proof.
  induction l as [|a l IH]; intros x; simpl.
  - repeat split; auto; try lia; intros y [].
  - destruct (IH (Nat.max x a)) as (H1 & H2 & H3). repeat split.
    + destruct H1 as [E|I]; [|auto]. destruct (Nat.max_spec x a) as [[_ E']|[_ E']]; rewrite E' in *; [right; left; auto|left; auto].
    + lia.
    + intros y [<-|Hy]; [lia|auto].
Qed.

Lemma nat_max_where (Q : Z -> bool) l j0 y0 :
  nth_error l j0 = Some y0 -> Q y0 = true ->
  let c := nat_max 0 (np_where (map Q l)) in
  (exists x, nth_error l c = Some x /\ Q x = true) /\
  forall j y, nth_error l j = Some y -> Q y = true -> (j <= c)%nat.
Proof.
  intros H0 Q0 c. unfold c, nat_max.
  destruct (fold_max_spec (np_where (map Q l)) 0%nat) as (H1 & _ & H3).
  assert (Hin : forall j y, nth_error l j = Some y -> Q y = true -> In j (np_where (map Q l))).
  { intros j y Hj Qy. apply np_where_In. rewrite nth_error_map, Hj. simpl. congruence. }
  assert (Hc : In (fold_left Nat.max (np_where (map Q l)) 0%nat) (np_where (map Q l))).
  { destruct H1 as [E|I]; auto. pose proof (H3 j0 (Hin j0 y0 H0 Q0)) as L. rewrite E in L.
    assert (j0 = 0%nat) by lia. subst j0. rewrite E. eapply Hin; eauto. }
  split.
  - apply np_where_In in Hc. rewrite nth_error_map in Hc.
    destruct (nth_error l (fold_left Nat.max (np_where (map Q l)) 0%nat)) as [x|] eqn:Ex; simpl in Hc; [|discriminate].
    exists x. split; [reflexivity|]. injection Hc as Hc. exact Hc.
  - intros j y Hj Qy. apply H3. eapply Hin; eauto.
Qed.

Definition in_epoch (s p x : Z) : bool := (s <=? x) && (x <? p).

Lemma in_epoch_spec s p x : in_epoch s p x = true <-> s <= x < p.
Proof. unfold in_epoch. rewrite andb_true_iff, Z.leb_le, Z.ltb_lt. tauto. Qed.

Lemma filter_none {A} (P : A -> bool) l : (forall x, In x l -> P x = false) -> filter P l = [].
Proof. induction l; simpl; intros H; auto. rewrite (H a) by auto. apply IHl. auto. Qed.

Lemma tslice_unfold self s p off eu :
  tslice_during self (mk_epochs [s] [p] true off eu) =
  (do start <- index_after self (mk_tarr [s] (tunit self) false);
   do stop <- index_before self (mk_tarr [p] (tunit self) false);
   if negb (idx_nonempty start && idx_nonempty stop) then XOk (0%nat, 0%nat) else
   let i_start := match start with IScalar k => k | IList l => nat_max 0 l end in
   let i_stop := match stop with IScalar k => k | IList l => match l with [] => 0%nat | x :: l' => nat_min x l' end end in
   do x_start <- getn (payload self) i_start;
   let i_start := if s >? x_start then S i_start else i_start in
   do x_stop <- getn (payload self) i_stop;
   let i_stop := if p >? x_stop
                 then S (nat_max 0 (np_where (map (fun x => x =? x_stop) (payload self))))
                 else i_stop in
   XOk (i_start, i_stop)).
Proof. reflexivity. Qed.

(* the fixed TimeArray.slice_during on a time-sorted array (duplicates allowed): the slice is
   exactly the samples with start <= t < stop *)
Lemma tslice_spec_idx self s p off eu :
  sorted_idx (payload self) ->
  exists lo hi, tslice_during self (mk_epochs [s] [p] true off eu) = XOk (lo, hi) /\
    forall k x, nth_error (payload self) k = Some x -> (in_epoch s p x = true <-> (lo <= k < hi)%nat).
Proof.
  intros Srt. rewrite tslice_unfold.
  destruct (index_after_spec self s (tunit self) false) as [[A1 A2]|(a & va & A1 & A2 & A3 & A4)].
  { rewrite A2. cbn [xbind].
    destruct (index_before self (mk_tarr [p] (tunit self) false)) as [stop|e] eqn:Eb.
    - cbn [xbind idx_nonempty andb negb]. exists 0%nat, 0%nat. split; [reflexivity|].
      intros k x Hk. apply nth_error_In in Hk. apply A1 in Hk. rewrite in_epoch_spec. lia.
    - exfalso. destruct (index_before_spec self p (tunit self) false) as [[_ B]|(k & v & B & _)]; congruence. }
  rewrite A1. cbn [xbind].
  destruct (index_before_spec self p (tunit self) false) as [[B1 B2]|(b & vb & B1 & B2 & B3 & B4)].
  { rewrite B2. cbn [xbind idx_nonempty andb negb]. exists 0%nat, 0%nat. split; [reflexivity|].
    intros k x Hk. apply nth_error_In in Hk. apply B1 in Hk. rewrite in_epoch_spec. lia. }
  rewrite B1. cbn [xbind idx_nonempty andb negb]. unfold getn. rewrite A2, B2. cbn [xbind].
  assert (Gs : (s >? va) = false) by (rewrite Z.gtb_ltb; apply Z.ltb_ge; lia). rewrite Gs.
  (* left end *)
  assert (Lo : forall k x, nth_error (payload self) k = Some x -> ((a <= k)%nat <-> s <= x)).
  { intros k x Hk. split.
    - intros Le. pose proof (Srt a k va x Le A2 Hk). lia.
    - intros Sx. destruct (Nat.lt_ge_cases k a) as [Lt|Ge]; auto.
      destruct (A4 k x Hk Sx) as [_ H]. specialize (H Lt).
      pose proof (Srt k a x va ltac:(lia) Hk A2). lia. }
  destruct (p >? vb) eqn:Gp.
  - apply Z.gtb_lt in Gp.
    destruct (nat_max_where (fun x => x =? vb) (payload self) b vb B2 (Z.eqb_refl vb)) as [(xc & C1 & C2) C3].
    set (c := nat_max 0 (np_where (map (fun x => x =? vb) (payload self)))) in *. apply Z.eqb_eq in C2. subst xc.
    exists a, (S c). split; [reflexivity|].
    intros k x Hk. rewrite in_epoch_spec. specialize (Lo k x Hk). split.
    + intros [S1 S2]. split; [apply Lo; auto|].
      destruct (Nat.lt_ge_cases k (S c)) as [Lt|Ge]; auto. exfalso.
      destruct (B4 k x Hk ltac:(lia)) as [Le _].
      pose proof (Srt c k vb x ltac:(lia) C1 Hk). assert (x = vb) by lia. subst x.
      pose proof (C3 k vb Hk (Z.eqb_refl vb)). lia.
    + intros [K1 K2]. split; [apply Lo; auto|].
      pose proof (Srt k c x vb ltac:(lia) Hk C1). lia.
  - assert (vb = p). { rewrite Z.gtb_ltb in Gp. apply Z.ltb_ge in Gp. lia. } subst vb.
    exists a, b. split; [reflexivity|].
    intros k x Hk. rewrite in_epoch_spec. specialize (Lo k x Hk). split.
    + intros [S1 S2]. split; [apply Lo; auto|].
      destruct (Nat.lt_ge_cases k b) as [Lt|Ge]; auto. exfalso.
      pose proof (Srt b k p x Ge B2 Hk). lia.
    + intros [K1 K2]. split; [apply Lo; auto|].
      pose proof (Srt k b x p ltac:(lia) Hk B2) as Le.
      destruct (B4 k x Hk Le) as [_ H]. apply H. exact K2.
Qed.

Lemma tslice_spec self s p off eu :
  sorted_idx (payload self) ->
  exists lo hi, tslice_during self (mk_epochs [s] [p] true off eu) = XOk (lo, hi) /\
    slice_nat lo hi (payload self) = filter (in_epoch s p) (payload self).
Proof.
  intros Srt. destruct (tslice_spec_idx self s p off eu Srt) as (lo & hi & E & K).
  exists lo, hi. split; auto. symmetry. apply slice_filter. exact K.
Qed.

(* ================================================================ uniform axes *)
Lemma nth_error_map_seq {A} (f : nat -> A) n k : (k < n)%nat -> nth_error (map f (seq 0 n)) k = Some (f k).
Proof.
  intros H. rewrite nth_error_map. rewrite (nth_error_nth' _ 0%nat) by (rewrite seq_length; lia).
  rewrite seq_nth by lia. reflexivity.
Qed.

Lemma nth_error_map_seq_inv {A} (f : nat -> A) n k x :
  nth_error (map f (seq 0 n)) k = Some x -> (k < n)%nat /\ x = f k.
Proof.
  intros H. assert (L : (k < n)%nat).
  { assert (nth_error (map f (seq 0 n)) k <> None) by congruence. apply nth_error_Some in H0.
    rewrite map_length, seq_length in H0. exact H0. }
  split; auto. rewrite nth_error_map_seq in H by auto. congruence.
Qed.

Definition axis_guard (t0 dt : Z) (n : nat) : Prop :=
  0 < dt /\ in62 t0 = true /\ in62 (t0 + Z.of_nat n * dt) = true.

Lemma in_range_of t0 dt n u lo hi : axis_guard t0 dt n ->
  in_range (uaxis_of t0 dt n u) lo hi = true <-> t0 <= lo /\ hi < t0 + Z.of_nat n * dt.
Proof.
  intros (Hd & H0 & H1). unfold in_range, uaxis_of. simpl. rewrite in62_wrap by auto.
  rewrite negb_true_iff, orb_false_iff, Z.ltb_ge, Z.geb_leb, Z.leb_gt. tauto.
Qed.

Lemma ubin_of t0 dt n u t : axis_guard t0 dt n -> in62 t = true ->
  ubin (uaxis_of t0 dt n u) t = (t - t0) / dt.
Proof.
  intros (Hd & H0 & H1) Ht. unfold ubin, uaxis_of. simpl.
  apply in62_spec in H0. apply in62_spec in Ht. assert (P62 : 2 ^ 63 = 2 * 2 ^ 62) by reflexivity.
  rewrite wrap64_id by lia. reflexivity.
Qed.

(* index_at on a well-formed axis: t maps to i iff t lies in [t_i, t_i + dt), i < n *)
Lemma uindex_spec t0 dt n u t i : axis_guard t0 dt n -> in62 t = true ->
  (uindex1 (uaxis_of t0 dt n u) t = XOk i <->
   0 <= i < Z.of_nat n /\ t0 + i * dt <= t < t0 + (i + 1) * dt).
Proof.
  intros G Ht. unfold uindex1. pose proof (in_range_of t0 dt n u t t G) as R. destruct G as (Hd & G0 & G1).
  destruct (in_range (uaxis_of t0 dt n u) t t) eqn:E.
  - destruct R as [R _]. specialize (R eq_refl). rewrite ubin_of by (unfold axis_guard; auto).
    pose proof (Z.div_mod (t - t0) dt ltac:(lia)) as DM.
    pose proof (Z.mod_pos_bound (t - t0) dt Hd) as MB.
    split.
    + intros Eq. injection Eq as <-. nia.
    + intros [I1 I2]. f_equal. symmetry. apply (Z.div_unique_pos (t - t0) dt i (t - t0 - dt * i)); lia.
  - split; [discriminate|]. intros [I1 I2]. exfalso.
    destruct R as [_ R]. assert (false = true) by (apply R; nia). discriminate.
Qed.

Lemma uindex_outside t0 dt n u t : axis_guard t0 dt n ->
  t < t0 \/ t0 + Z.of_nat n * dt <= t -> uindex1 (uaxis_of t0 dt n u) t = XErr XValue.
Proof.
  intros G O. unfold uindex1. destruct (in_range (uaxis_of t0 dt n u) t t) eqn:E; auto.
  apply (in_range_of t0 dt n u t t G) in E. lia.
Qed.

Lemma uindex_sample t0 dt n u k : axis_guard t0 dt n -> (k < n)%nat ->
  uindex1 (uaxis_of t0 dt n u) (t0 + Z.of_nat k * dt) = XOk (Z.of_nat k).
Proof.
  intros G Lt. pose proof G as (Hd & G0 & G1). apply in62_spec in G0. apply in62_spec in G1.
  apply uindex_spec; auto; [apply in62_spec; nia|nia].
Qed.

(* the same, read off the sample list: the time of sample k is looked up as k *)
Lemma uindex_nth t0 dt n u k x : axis_guard t0 dt n ->
  nth_error (u_samples (uaxis_of t0 dt n u)) k = Some x -> uindex1 (uaxis_of t0 dt n u) x = XOk (Z.of_nat k).
Proof.
  intros G H. simpl in H. apply nth_error_map_seq_inv in H as [Lt ->]. apply uindex_sample; auto.
Qed.

Lemma getz_of {A} (l : list A) q x : 0 <= q -> nth_error l (Z.to_nat q) = Some x -> getz l q = XOk x.
Proof.
  intros Hq H. unfold getz, py_index.
  assert (L : (Z.to_nat q < length l)%nat) by (apply nth_error_Some; congruence).
  replace ((0 <=? q) && (q <? Z.of_nat (length l))) with true.
  - unfold getn. rewrite H. reflexivity.
  - symmetry. apply andb_true_iff. split; [apply Z.leb_le; lia|apply Z.ltb_lt; lia].
Qed.

Lemma ceil_char dt q r k : 0 < dt -> 0 <= r < dt ->
  (dt * q + r <= k * dt <-> (if 0 <? r then q + 1 else q) <= k).
Proof. intros Hd Hr. destruct (0 <? r) eqn:E; [apply Z.ltb_lt in E|apply Z.ltb_ge in E]; nia. Qed.

Lemma clampz_id n a : 0 <= a <= Z.of_nat n -> clampz n a = Z.to_nat a.
Proof.
  intros H. unfold clampz. replace (a <? 0) with false by (symmetry; apply Z.ltb_ge; lia).
  rewrite Z.min_l by lia. reflexivity.
Qed.

Lemma uslice_unfold ax s p off eu :
  uslice_during ax (mk_epochs [s] [p] true off eu) =
  (do i_start <- uindex1 ax s;
   do i_stop <- uindex1 ax p;
   do x_start <- getz (u_samples ax) i_start;
   let i_start := if s >? x_start then i_start + 1 else i_start in
   do x_stop <- getz (u_samples ax) i_stop;
   let i_stop := if p >? x_stop then i_stop + 1 else i_stop in
   XOk (i_start, i_stop)).
Proof. reflexivity. Qed.

(* an end of the epoch, inside the covered range: its bin q, the sample there, the corrected end *)
Lemma uend t0 dt n u s : axis_guard t0 dt n -> in62 s = true -> t0 <= s < t0 + Z.of_nat n * dt ->
  exists q r, uindex1 (uaxis_of t0 dt n u) s = XOk q /\ 0 <= q < Z.of_nat n /\ 0 <= r < dt /\ s - t0 = dt * q + r /\
    getz (u_samples (uaxis_of t0 dt n u)) q = XOk (t0 + q * dt) /\
    (if s >? t0 + q * dt then q + 1 else q) = (if 0 <? r then q + 1 else q).
Proof.
  intros G Hs R. pose proof G as (Hd & G0 & G1).
  pose proof (Z.div_mod (s - t0) dt ltac:(lia)) as DM.
  pose proof (Z.mod_pos_bound (s - t0) dt Hd) as MB.
  set (q := (s - t0) / dt) in *. set (r := (s - t0) mod dt) in *.
  assert (Q : 0 <= q < Z.of_nat n) by nia.
  exists q, r. repeat split; try lia.
  - apply uindex_spec; auto. nia.
  - apply getz_of; [lia|]. simpl. rewrite nth_error_map_seq by lia. rewrite Z2Nat.id by lia. reflexivity.
  - rewrite Z.gtb_ltb. destruct (0 <? r) eqn:E1; destruct (t0 + q * dt <? s) eqn:E2; auto;
      [apply Z.ltb_lt in E1; apply Z.ltb_ge in E2|apply Z.ltb_ge in E1; apply Z.ltb_lt in E2]; nia.
Qed.

(* slice_during on a well-formed axis, epoch inside the covered range: exactly start <= t_k < stop *)
Lemma uslice_spec t0 dt n u s p off eu :
  axis_guard t0 dt n -> in62 s = true -> in62 p = true ->
  t0 <= s < t0 + Z.of_nat n * dt -> t0 <= p < t0 + Z.of_nat n * dt ->
  let ax := uaxis_of t0 dt n u in
  exists a b, uslice_during ax (mk_epochs [s] [p] true off eu) = XOk (a, b) /\
    0 <= a <= Z.of_nat n /\ 0 <= b <= Z.of_nat n /\
    (forall k, (k < n)%nat -> (a <= Z.of_nat k < b <-> s <= t0 + Z.of_nat k * dt < p)) /\
    pyslice a b (u_samples ax) = filter (in_epoch s p) (u_samples ax).
Proof.
  intros G Hs Hp Rs Rp ax. pose proof G as (Hd & G0 & G1).
  destruct (uend t0 dt n u s G Hs Rs) as (q1 & r1 & U1 & Q1 & R1 & D1 & Z1 & C1).
  destruct (uend t0 dt n u p G Hp Rp) as (q2 & r2 & U2 & Q2 & R2 & D2 & Z2 & C2).
  rewrite uslice_unfold. fold ax in U1, U2, Z1, Z2. rewrite U1, U2. cbn [xbind]. rewrite Z1. cbn [xbind]. rewrite Z2. cbn [xbind].
  rewrite C1, C2. set (a := if 0 <? r1 then q1 + 1 else q1). set (b := if 0 <? r2 then q2 + 1 else q2).
  assert (Ha : 0 <= a <= Z.of_nat n) by (unfold a; destruct (0 <? r1); lia).
  assert (Hb : 0 <= b <= Z.of_nat n) by (unfold b; destruct (0 <? r2); lia).
  assert (K : forall k, (k < n)%nat -> (a <= Z.of_nat k < b <-> s <= t0 + Z.of_nat k * dt < p)).
  { intros k Lt. pose proof (ceil_char dt q1 r1 (Z.of_nat k) Hd R1) as E1.
    pose proof (ceil_char dt q2 r2 (Z.of_nat k) Hd R2) as E2. fold a in E1. fold b in E2. lia. }
  exists a, b. repeat split; try lia; try (apply K; auto).
  unfold pyslice. assert (L : length (u_samples ax) = n) by (simpl; rewrite map_length, seq_length; reflexivity).
  rewrite L, !clampz_id by lia. symmetry. apply slice_filter.
  intros k x Hk. simpl in Hk. apply nth_error_map_seq_inv in Hk as [Lt ->]. rewrite in_epoch_spec.
  rewrite <- (K k Lt). lia.
Qed.

Lemma uslice_outside t0 dt n u s p off eu :
  axis_guard t0 dt n ->
  (s < t0 \/ t0 + Z.of_nat n * dt <= s \/ p < t0 \/ t0 + Z.of_nat n * dt <= p) ->
  uslice_during (uaxis_of t0 dt n u) (mk_epochs [s] [p] true off eu) = XErr XValue.
Proof.
  intros G O. rewrite uslice_unfold.
  destruct (uindex1 (uaxis_of t0 dt n u) s) as [i|e] eqn:E1; cbn [xbind].
  - destruct (uindex1 (uaxis_of t0 dt n u) p) as [j|e] eqn:E2; cbn [xbind].
    + exfalso. unfold uindex1 in E1, E2.
      destruct (in_range (uaxis_of t0 dt n u) s s) eqn:R1; [|discriminate].
      destruct (in_range (uaxis_of t0 dt n u) p p) eqn:R2; [|discriminate].
      apply (in_range_of t0 dt n u s s G) in R1. apply (in_range_of t0 dt n u p p G) in R2. lia.
    + unfold uindex1 in E2. destruct (in_range _ p p); [discriminate|]. congruence.
  - unfold uindex1 in E1. destruct (in_range _ s s); [discriminate|]. congruence.
Qed.

Lemma list_eqb_Z_eq l1 l2 : list_eqb Z.eqb l1 l2 = true -> l1 = l2.
Proof. apply list_eqb_eq. intros a b H. apply Z.eqb_eq; auto. Qed.

Lemma wf_axisb_sound ax : wf_axisb ax = true ->
  0 < u_dt ax /\ ax = uaxis_of (u_t0 ax) (u_dt ax) (length (u_samples ax)) (u_unit ax).
Proof.
  unfold wf_axisb. rewrite !andb_true_iff. intros [[H1 H2] H3].
  apply Z.ltb_lt in H1. apply list_eqb_Z_eq in H2. apply Z.eqb_eq in H3. split; auto.
  destruct ax as [sm t0 dt dur un]. simpl in *. unfold uaxis_of. rewrite <- H2, <- H3. reflexivity.
Qed.

(* ---------------------------------------------------------------- the data-level wrapper of UniformTime.index_at *)
Lemma uindex_at_scalar ax d t u' :
  ctor (UArg (u_unit ax)) d = Ok (mk_tarr [t] u' true) ->
  uindex_at ax d false = match uindex1 ax t with XOk i => XOk (UScalar i) | XErr e => XErr e end.
Proof.
  intros H. unfold uindex_at, uindex1. rewrite H. cbn [of_res xbind payload scalar zmin_list zmax_list fold_left].
  destruct (in_range ax t t); reflexivity.
Qed.

Lemma in_range_all ax x l :
  in_range ax (zmin_list x l) (zmax_list x l) = true <-> Forall (fun t => in_range ax t t = true) (x :: l).
Proof.
  destruct (zmin_list_spec l x) as (M1 & M2 & M3). destruct (zmax_list_spec l x) as (X1 & X2 & X3).
  unfold in_range. rewrite !negb_true_iff, !orb_false_iff, !Z.ltb_ge, !Z.geb_leb, !Z.leb_gt. split.
  - intros [A B]. rewrite Forall_forall in *. intros t Ht.
    rewrite negb_true_iff, orb_false_iff, Z.ltb_ge, Z.geb_leb, Z.leb_gt.
    destruct Ht as [<-|Ht]; [lia|]. specialize (M3 t Ht). specialize (X3 t Ht). simpl in *. lia.
  - intros F. rewrite Forall_forall in F.
    assert (Q : forall t, In t (x :: l) -> u_t0 ax <= t /\ t < wrap64 (u_t0 ax + u_dur ax)).
    { intros t Ht. specialize (F t Ht). rewrite negb_true_iff, orb_false_iff, Z.ltb_ge, Z.geb_leb, Z.leb_gt in F. exact F. }
    split.
    + destruct M1 as [E|I]; [rewrite E; apply Q; left; auto|apply Q; right; auto].
    + destruct X1 as [E|I]; [rewrite E; apply Q; left; auto|apply Q; right; auto].
Qed.

(* a list of instants: every one inside -> the list of their bins; one outside -> refused *)
Lemma uindex_at_list ax d x l u' :
  ctor (UArg (u_unit ax)) d = Ok (mk_tarr (x :: l) u' false) ->
  uindex_at ax d false =
  if forallb (fun t => in_range ax t t) (x :: l) then XOk (UList (map (ubin ax) (x :: l))) else XErr XValue.
Proof.
  intros H. unfold uindex_at. rewrite H. cbn [of_res xbind payload scalar].
  destruct (forallb (fun t => in_range ax t t) (x :: l)) eqn:F.
  - rewrite forallb_forall in F. assert (R : in_range ax (zmin_list x l) (zmax_list x l) = true).
    { apply in_range_all. apply Forall_forall. exact F. }
    rewrite R. reflexivity.
  - destruct (in_range ax (zmin_list x l) (zmax_list x l)) eqn:R; [|reflexivity].
    apply in_range_all in R. rewrite Forall_forall in R.
    assert (forallb (fun t => in_range ax t t) (x :: l) = true) by (apply forallb_forall; exact R). congruence.
Qed.

(* ---------------------------------------------------------------- Python integer indexing *)
Lemma getz_spec {A} (l : list A) k :
  let n := Z.of_nat (length l) in
  (0 <= k < n -> getz l k = getn l (Z.to_nat k)) /\
  (- n <= k < 0 -> getz l k = getn l (Z.to_nat (k + n))) /\
  (k < - n \/ n <= k -> getz l k = XErr XIndex).
Proof.
  intros n. unfold getz, py_index. fold n. repeat split; intros H.
  - replace ((0 <=? k) && (k <? n)) with true; auto. symmetry. apply andb_true_iff. rewrite Z.leb_le, Z.ltb_lt. lia.
  - replace ((0 <=? k) && (k <? n)) with false. 2:{ symmetry. apply andb_false_iff. left. apply Z.leb_gt. lia. }
    replace ((k <? 0) && (- n <=? k)) with true; auto. symmetry. apply andb_true_iff. rewrite Z.leb_le, Z.ltb_lt. lia.
  - replace ((0 <=? k) && (k <? n)) with false. 2:{ symmetry. apply andb_false_iff. rewrite Z.leb_gt, Z.ltb_ge. lia. }
    replace ((k <? 0) && (- n <=? k)) with false; auto. symmetry. apply andb_false_iff. rewrite Z.leb_gt, Z.ltb_ge. lia.
Qed.

(* ================================================================ TimeSeries *)
Lemma arange_n t0 dt n : 0 < dt ->
  arange t0 (t0 + Z.of_nat n * dt) dt = map (fun i => t0 + Z.of_nat i * dt) (seq 0 n).
Proof.
  intros Hd. unfold arange. replace (0 <? dt) with true by (symmetry; apply Z.ltb_lt; auto).
  replace ((t0 + Z.of_nat n * dt - t0 + dt - 1) / dt) with (Z.of_nat n).
  - rewrite Nat2Z.id. reflexivity.
  - apply (Z.div_unique_pos _ dt (Z.of_nat n) (dt - 1)); lia.
Qed.

Lemma series_time_wf {A} (s : series A) :
  axis_guard (s_t0 s) (s_dt s) (length (s_data s)) ->
  series_time s = uaxis_of (s_t0 s) (s_dt s) (length (s_data s)) (s_unit s).
Proof.
  intros (Hd & G0 & G1). unfold series_time, uaxis_of.
  apply in62_spec in G0. apply in62_spec in G1. assert (P62 : 2 ^ 63 = 2 * 2 ^ 62) by reflexivity.
  rewrite (wrap64_id (Z.of_nat (length (s_data s)) * s_dt s)) by lia.
  rewrite (wrap64_id (s_t0 s + _)) by lia. rewrite arange_n by auto. reflexivity.
Qed.

Lemma nth_error_combine {A B} (l1 : list A) (l2 : list B) k a b :
  nth_error (combine l1 l2) k = Some (a, b) -> nth_error l1 k = Some a /\ nth_error l2 k = Some b.
Proof.
  revert l2 k; induction l1 as [|x l1 IH]; intros [|y l2] [|k]; simpl; try discriminate.
  - intros E; injection E as <- <-. auto.
  - apply IH.
Qed.

Lemma skipn_combine {A B} n (l1 : list A) (l2 : list B) :
  skipn n (combine l1 l2) = combine (skipn n l1) (skipn n l2).
Proof.
  revert l1 l2; induction n as [|n IH]; intros [|x l1] [|y l2]; simpl; auto.
  destruct (skipn n l1); reflexivity.
Qed.

Lemma firstn_combine {A B} n (l1 : list A) (l2 : list B) :
  firstn n (combine l1 l2) = combine (firstn n l1) (firstn n l2).
Proof. revert l1 l2; induction n as [|n IH]; intros [|x l1] [|y l2]; simpl; auto. rewrite IH. reflexivity. Qed.

Lemma map_snd_combine {A B} (l1 : list A) (l2 : list B) : length l1 = length l2 -> map snd (combine l1 l2) = l2.
Proof.
  revert l2; induction l1 as [|x l1 IH]; intros [|y l2]; simpl; try discriminate; auto.
  intros E. rewrite IH by lia. reflexivity.
Qed.

Lemma map_snd_slice_combine {A B} (l1 : list A) (l2 : list B) a b :
  length l1 = length l2 -> map snd (slice_nat a b (combine l1 l2)) = slice_nat a b l2.
Proof.
  intros E. unfold slice_nat. rewrite skipn_combine, firstn_combine. apply map_snd_combine.
  rewrite !firstn_length, !skipn_length, E. reflexivity.
Qed.

(* the data selected by the slice [a:b] are the data whose time satisfies the epoch *)
Lemma slice_data_by_time {A} t0 dt n (data : list A) s p a b :
  length data = n -> 0 <= a <= Z.of_nat n -> 0 <= b <= Z.of_nat n ->
  (forall k, (k < n)%nat -> (a <= Z.of_nat k < b <-> s <= t0 + Z.of_nat k * dt < p)) ->
  pyslice a b data =
  map snd (filter (fun tx => in_epoch s p (fst tx)) (combine (map (fun i => t0 + Z.of_nat i * dt) (seq 0 n)) data)).
Proof.
  intros L Ha Hb K. unfold pyslice. rewrite L, !clampz_id by lia.
  rewrite (slice_filter _ _ (Z.to_nat a) (Z.to_nat b)).
  - rewrite map_snd_slice_combine; [reflexivity|]. rewrite map_length, seq_length. auto.
  - intros k [t x] Hk. apply nth_error_combine in Hk as [H1 H2].
    apply nth_error_map_seq_inv in H1 as [Lt ->]. simpl fst. rewrite in_epoch_spec, <- (K k Lt). lia.
Qed.

Lemma series_during_scalar {A} (s : series A) s0 p off eu :
  axis_guard (s_t0 s) (s_dt s) (length (s_data s)) -> in62 s0 = true -> in62 p = true ->
  let lo := s_t0 s in let hi := s_t0 s + Z.of_nat (length (s_data s)) * s_dt s in
  lo <= s0 < hi -> lo <= p < hi ->
  series_during s (mk_epochs [s0] [p] true off eu) =
  XOk (mk_dout (DOne (map snd (filter (fun tx => in_epoch s0 p (fst tx))
                                      (combine (u_samples (series_time s)) (s_data s)))))
               (head_ps off) (s_dt s) (s_unit s)).
Proof.
  intros G H0 Hp lo hi R0 Rp. unfold series_during. cbn [e_scalar e_offset].
  rewrite series_time_wf by auto.
  destruct (uslice_spec (s_t0 s) (s_dt s) (length (s_data s)) (s_unit s) s0 p off eu G H0 Hp R0 Rp)
    as (a & b & U & Ha & Hb & K & _).
  rewrite U. cbn [xbind fst snd]. do 2 f_equal. f_equal.
  apply slice_data_by_time; auto.
Qed.

Lemma series_during_scalar_outside {A} (s : series A) s0 p off eu :
  axis_guard (s_t0 s) (s_dt s) (length (s_data s)) ->
  let lo := s_t0 s in let hi := s_t0 s + Z.of_nat (length (s_data s)) * s_dt s in
  (s0 < lo \/ hi <= s0 \/ p < lo \/ hi <= p) ->
  series_during s (mk_epochs [s0] [p] true off eu) = XErr XValue.
Proof.
  intros G lo hi O. unfold series_during. cbn [e_scalar]. rewrite series_time_wf by auto.
  rewrite uslice_outside by auto. reflexivity.
Qed.

Lemma xall_map_Forall2 {A B} (f : A -> xres B) l rows :
  xall (map f l) = XOk rows -> Forall2 (fun x r => f x = XOk r) l rows.
Proof.
  revert rows; induction l as [|x l IH]; intros rows; simpl.
  - intros E; injection E as <-. constructor.
  - destruct (f x) as [r|e] eqn:Fx; [|discriminate].
    destruct (xall (map f l)) as [rs|e]; [|discriminate]. intros E; injection E as <-.
    constructor; auto.
Qed.

Lemma Forall2_imp {A B} (P Q : A -> B -> Prop) l1 l2 :
  (forall a b, P a b -> Q a b) -> Forall2 P l1 l2 -> Forall2 Q l1 l2.
Proof. intros H F. induction F; constructor; auto. Qed.

(* epoch arrays: one row per epoch, each row the selection of that epoch; t0 of the result = offset *)
Lemma series_during_rows {A} (s : series A) e r :
  e_scalar e = false -> series_during s e = XOk r ->
  d_t0 r = head_ps (e_offset e) /\ d_dt r = s_dt s /\ d_unit r = s_unit s /\
  exists rows, d_sel r = DRows rows /\ all_same_len rows = true /\
    Forall2 (fun ep row => exists a b, uslice_during (series_time s) ep = XOk (a, b) /\ row = pyslice a b (s_data s))
            (epoch_list e) rows.
Proof.
  intros Sc. unfold series_during. rewrite Sc.
  destruct (of_res (e_durations e)) as [dur|x]; cbn [xbind]; [|discriminate].
  destruct (payload dur); [discriminate|].
  destruct (negb (all_equal (z :: l))); [discriminate|].
  match goal with |- xbind (xall (map ?f ?l)) _ = _ -> _ => destruct (xall (map f l)) as [rows|x] eqn:X end; cbn [xbind]; [|discriminate].
  destruct (all_same_len rows) eqn:SL; cbn [negb]; [|discriminate].
  intros E; injection E as <-. cbn. repeat split; auto.
  exists rows. repeat split; auto. apply xall_map_Forall2 in X.
  eapply Forall2_imp; [|exact X]. intros ep row H. cbn beta in H.
  destruct (uslice_during (series_time s) ep) as [[a b]|x]; cbn [xbind fst snd] in H; [|discriminate].
  injection H as <-. eauto.
Qed.

Lemma series_at_scalar {A} (s : series A) d t u' k :
  axis_guard (s_t0 s) (s_dt s) (length (s_data s)) -> in62 t = true ->
  ctor (UArg (s_unit s)) d = Ok (mk_tarr [t] u' true) ->
  (k < length (s_data s))%nat -> s_t0 s + Z.of_nat k * s_dt s <= t < s_t0 s + (Z.of_nat k + 1) * s_dt s ->
  exists a, nth_error (s_data s) k = Some a /\ series_at s d = XOk (SOne a).
Proof.
  intros G Ht C Lt R. unfold series_at. rewrite series_time_wf by auto.
  rewrite (uindex_at_scalar _ d t u') by exact C.
  assert (U : uindex1 (uaxis_of (s_t0 s) (s_dt s) (length (s_data s)) (s_unit s)) t = XOk (Z.of_nat k)).
  { apply uindex_spec; auto. lia. }
  rewrite U. cbn [xbind].
  destruct (nth_error (s_data s) k) as [a|] eqn:Hk; [|apply nth_error_None in Hk; lia].
  exists a. split; auto. rewrite (getz_of _ _ a) by (try lia; rewrite Nat2Z.id; auto). reflexivity.
Qed.

Lemma series_at_outside {A} (s : series A) d t u' :
  axis_guard (s_t0 s) (s_dt s) (length (s_data s)) ->
  ctor (UArg (s_unit s)) d = Ok (mk_tarr [t] u' true) ->
  t < s_t0 s \/ s_t0 s + Z.of_nat (length (s_data s)) * s_dt s <= t ->
  series_at s d = XErr XValue.
Proof.
  intros G C O. unfold series_at. rewrite series_time_wf by auto.
  rewrite (uindex_at_scalar _ d t u') by exact C. rewrite uindex_outside by auto. reflexivity.
Qed.

(* ================================================================ TimeArray.at / during, UniformTime.at / during *)
Lemma slice_pairs {A B} (P : A -> bool) (ts : list A) (ds : list B) lo hi :
  length ts = length ds ->
  (forall k x, nth_error ts k = Some x -> (P x = true <-> (lo <= k < hi)%nat)) ->
  slice_nat lo hi ds = map snd (filter (fun tx => P (fst tx)) (combine ts ds)).
Proof.
  intros L K. rewrite (slice_filter _ _ lo hi).
  - rewrite map_snd_slice_combine; auto.
  - intros k [t x] Hk. apply nth_error_combine in Hk as [H1 _]. simpl. apply K; auto.
Qed.

Lemma tarr_during_spec self s p off eu :
  sorted_idx (payload self) ->
  tarr_during self (mk_epochs [s] [p] true off eu) =
  XOk (mk_tarr (filter (in_epoch s p) (payload self)) (tunit self) false).
Proof.
  intros Srt. destruct (tslice_spec self s p off eu Srt) as (lo & hi & E & F).
  unfold tarr_during. cbn [scalar_bounds e_scalar e_start e_stop negb xbind]. rewrite E. cbn [xbind fst snd].
  rewrite F. reflexivity.
Qed.

Lemma tarr_at_gather self d tol r :
  index_at self d tol Closest = XOk (IList r) ->
  tarr_at self d tol = (do v <- gather (payload self) r; XOk (mk_tarr v (tunit self) false)).
Proof. intros H. unfold tarr_at. rewrite H. reflexivity. Qed.

Lemma uduring_spec t0 dt n u s p off eu :
  axis_guard t0 dt n -> in62 s = true -> in62 p = true ->
  t0 <= s < t0 + Z.of_nat n * dt -> t0 <= p < t0 + Z.of_nat n * dt ->
  let ax := uaxis_of t0 dt n u in
  uduring ax (mk_epochs [s] [p] true off eu) = XOk (filter (in_epoch s p) (u_samples ax)).
Proof.
  intros G Hs Hp Rs Rp ax.
  destruct (uslice_spec t0 dt n u s p off eu G Hs Hp Rs Rp) as (a & b & U & _ & _ & _ & F).
  unfold uduring. cbn [scalar_bounds e_scalar e_start e_stop negb xbind]. fold ax in U. rewrite U. cbn [xbind fst snd].
  fold ax in F. rewrite F. reflexivity.
Qed.

Lemma uat_scalar t0 dt n u d t u' k :
  axis_guard t0 dt n -> in62 t = true ->
  ctor (UArg u) d = Ok (mk_tarr [t] u' true) ->
  (k < n)%nat -> t0 + Z.of_nat k * dt <= t < t0 + (Z.of_nat k + 1) * dt ->
  uat (uaxis_of t0 dt n u) d = XOk (mk_tarr [t0 + Z.of_nat k * dt] u true).
Proof.
  intros G Ht C Lt R. unfold uat. rewrite (uindex_at_scalar _ d t u') by exact C.
  assert (U : uindex1 (uaxis_of t0 dt n u) t = XOk (Z.of_nat k)) by (apply uindex_spec; auto; lia).
  rewrite U. cbn [xbind].
  rewrite (getz_of _ _ (t0 + Z.of_nat k * dt)); [reflexivity|lia|].
  rewrite Nat2Z.id. simpl. apply (nth_error_map_seq (fun i => t0 + Z.of_nat i * dt)). exact Lt.
Qed.

(* ================================================================ Events *)
Lemma events_get_int {A} (ev : events A) k r :
  length (ev_data ev) = length (payload (ev_time ev)) ->
  events_get ev (KInt k) = XOk r ->
  exists i x d, py_index (length (payload (ev_time ev))) k = Some i /\
    nth_error (payload (ev_time ev)) i = Some x /\ nth_error (ev_data ev) i = Some d /\
    ev_time r = mk_tarr [x] (tunit (ev_time ev)) false /\ ev_data r = [d].
Proof.
  intros L. unfold events_get, getz. rewrite L.
  destruct (py_index (length (payload (ev_time ev))) k) as [i|] eqn:P; cbn [xbind]; [|discriminate].
  unfold getn. destruct (nth_error (payload (ev_time ev)) i) as [x|] eqn:Hx; cbn [xbind]; [|discriminate].
  destruct (nth_error (ev_data ev) i) as [d|] eqn:Hd; cbn [xbind]; [|discriminate].
  intros E; injection E as <-. exists i, x, d. repeat split; auto.
Qed.

Lemma events_get_int_ok {A} (ev : events A) k i x d :
  length (ev_data ev) = length (payload (ev_time ev)) ->
  py_index (length (payload (ev_time ev))) k = Some i ->
  nth_error (payload (ev_time ev)) i = Some x -> nth_error (ev_data ev) i = Some d ->
  events_get ev (KInt k) = XOk (mk_events (mk_tarr [x] (tunit (ev_time ev)) false) [d]).
Proof.
  intros L P Hx Hd. unfold events_get, getz, getn. rewrite L, P, Hx. cbn [xbind]. rewrite Hd. reflexivity.
Qed.

Lemma index_closest_is_list self t tol i : index_closest self t tol = XOk i -> exists l, i = IList l.
Proof.
  unfold index_closest.
  destruct (of_res (binop_arith Sub self (OTime t))); cbn [xbind]; [|discriminate].
  destruct (of_res (ctor _ _)); cbn [xbind]; [|discriminate].
  destruct (of_res (binop_cmp Le _ _)); cbn [xbind]; [|discriminate].
  intros E; injection E as <-. eauto.
Qed.

Lemma events_get_float {A} (ev : events A) x r :
  events_get ev (KFloat x) = XOk r ->
  exists l, index_at (ev_time ev) (DFloats true [x]) None Closest = XOk (IList l) /\
    gather (payload (ev_time ev)) l = XOk (payload (ev_time r)) /\
    gather (ev_data ev) l = XOk (ev_data r) /\ tunit (ev_time r) = tunit (ev_time ev).
Proof.
  unfold events_get, tarr_at.
  destruct (index_at (ev_time ev) (DFloats true [x]) None Closest) as [i|e] eqn:I; cbn [xbind]; [|discriminate].
  assert (exists l, i = IList l) as [l ->].
  { unfold index_at in I. destruct (of_res (as_query _ _)); cbn [xbind] in I; [|discriminate].
    eapply index_closest_is_list; eauto. }
  destruct (gather (payload (ev_time ev)) l) as [v|e] eqn:G1; cbn [xbind]; [|discriminate].
  destruct (gather (ev_data ev) l) as [d|e] eqn:G2; cbn [xbind]; [|discriminate].
  intros E; injection E as <-. exists l. repeat split; auto.
Qed.

Lemma events_get_epochs {A} (ev : events A) e r :
  events_get ev (KEpochs e) = XOk r ->
  exists lo hi, tslice_during (ev_time ev) e = XOk (lo, hi) /\
    payload (ev_time r) = slice_nat lo hi (payload (ev_time ev)) /\
    ev_data r = slice_nat lo hi (ev_data ev) /\ tunit (ev_time r) = tunit (ev_time ev).
Proof.
  unfold events_get, tarr_during.
  destruct (scalar_bounds e); cbn [xbind]; [|discriminate].
  destruct (tslice_during (ev_time ev) e) as [[lo hi]|x] eqn:T; cbn [xbind fst snd]; [|discriminate].
  intros E; injection E as <-. exists lo, hi. repeat split; auto.
Qed.

(* time-sorted events (duplicates allowed): an epoch key returns exactly the events with
   start <= t < stop, and their data *)
Lemma events_get_epochs_sorted {A} (ev : events A) s p off eu :
  sorted_idx (payload (ev_time ev)) -> length (ev_data ev) = length (payload (ev_time ev)) ->
  events_get ev (KEpochs (mk_epochs [s] [p] true off eu)) =
  XOk (mk_events (mk_tarr (filter (in_epoch s p) (payload (ev_time ev))) (tunit (ev_time ev)) false)
                 (map snd (filter (fun tx => in_epoch s p (fst tx)) (combine (payload (ev_time ev)) (ev_data ev))))).
Proof.
  intros Srt L. unfold events_get. rewrite tarr_during_spec by auto. cbn [xbind payload].
  destruct (tslice_spec_idx (ev_time ev) s p off eu Srt) as (lo & hi & E & K). rewrite E. cbn [xbind fst snd].
  rewrite (slice_pairs (in_epoch s p) (payload (ev_time ev)) (ev_data ev) lo hi) by auto. reflexivity.
Qed.

(* ================================================================ Epochs *)
Definition ua_unit (ua : uarg) (dflt : unit) : unit := match ua with UArg u => u | _ => dflt end.

Lemma ctor_time ua t : ua <> UArgBad -> ctor ua (DTime t) = Ok (mk_tarr (payload t) (ua_unit ua (tunit t)) (scalar t)).
Proof. destruct ua; simpl; congruence. Qed.

Lemma bcast_single_r_1d {A} (f : Z -> Z -> A) a t sb :
  bcast f a false [t] sb = Some (map (fun x => f x t) a, false).
Proof. destruct a as [|x [|y a]]; reflexivity. Qed.

Lemma map_wrap_sub l o : Forall (fun x => in62 x = true) l -> in62 o = true ->
  map (fun x => arith_fn Sub x o) l = map (fun x => x - o) l.
Proof.
  intros F Ho. apply map_ext_in'. intros x Hx. rewrite arith_fn_exact; auto. eapply Forall_in62; eauto.
Qed.

Lemma map_wrap_add l d : Forall (fun x => in62 x = true) l -> in62 d = true ->
  map (fun x => arith_fn Add x d) l = map (fun x => x + d) l.
Proof.
  intros F Hd. apply map_ext_in'. intros x Hx. rewrite arith_fn_exact; auto. eapply Forall_in62; eauto.
Qed.

Lemma arith_1d_scalar op xs u o u1 sc :
  binop_arith op (mk_tarr xs u false) (OTime (mk_tarr [o] u1 sc)) =
  Ok (mk_tarr (map (fun x => arith_fn op x o) xs) u false).
Proof. unfold binop_arith. rewrite conv_time. cbn [payload scalar tunit]. rewrite bcast_single_r_1d. reflexivity. Qed.

(* Epochs(t0 = array of times, offset = o, duration = d): start = t0 - offset, stop = start + duration *)
Lemma epochs_t0_offset_duration ua xs u0 o u1 d u2 :
  ua <> UArgBad ->
  Forall (fun x => in62 x = true) xs -> in62 o = true -> in62 d = true ->
  Forall (fun x => in62 (x - o) = true) xs ->
  epochs_ctor (mk_eargs (Some (DTime (mk_tarr xs u0 false))) None (Some (DTime (mk_tarr [o] u1 true)))
                        None (Some (DTime (mk_tarr [d] u2 true))) ua) =
  XOk (mk_epochs (map (fun x => x - o) xs) (map (fun x => x - o + d) xs) false
                 (mk_tarr [o] (ua_unit ua u1) true) (ua_unit ua u0)).
Proof.
  intros Hu Fx Ho Hd Fxo. unfold epochs_ctor. cbn [a_t0 a_start a_stop a_duration a_offset a_unit is_none andb negb].
  rewrite !ctor_time by auto. cbn [of_res xbind scalar payload tunit negb].
  rewrite arith_1d_scalar. cbn [of_res xbind]. rewrite arith_1d_scalar. cbn [of_res xbind payload scalar tunit].
  rewrite map_wrap_sub by auto.
  assert (E : map (fun x => arith_fn Add x d) (map (fun x => x - o) xs) = map (fun x => x - o + d) xs).
  { rewrite map_wrap_add; auto; [rewrite map_map; reflexivity|]. apply Forall_forall. intros y Hy.
    apply in_map_iff in Hy as (x & <- & Hx). rewrite Forall_forall in Fxo. auto. }
  rewrite E. unfold same_shape. cbn [scalar payload]. rewrite !map_length, Nat.eqb_refl. reflexivity.
Qed.

(* Epochs(start, stop) from time objects of equal shape: kept as given, offset 0 *)
Lemma epochs_start_stop ua ss u0 ps u1 sc :
  ua <> UArgBad -> length ss = length ps ->
  epochs_ctor (mk_eargs None (Some (DTime (mk_tarr ps u1 sc))) None (Some (DTime (mk_tarr ss u0 sc))) None ua) =
  XOk (mk_epochs ss ps sc (mk_tarr [0] (ua_unit ua Us) true) (ua_unit ua u0)).
Proof.
  intros Hu L. unfold epochs_ctor. cbn [a_t0 a_start a_stop a_duration a_offset a_unit is_none andb negb].
  rewrite !ctor_time by auto.
  assert (O : ctor ua (DInts true [0]) = Ok (mk_tarr [0] (ua_unit ua Us) true)) by (destruct ua; try congruence; reflexivity).
  rewrite O. cbn [of_res xbind scalar payload tunit negb]. unfold same_shape. cbn [scalar payload].
  rewrite L, Nat.eqb_refl, eqb_reflx. reflexivity.
Qed.

(* ================================================================ index_at at the level of the call *)
Lemma index_at_mode self d tol md t u' sc' :
  as_query (tunit self) d = Ok (mk_tarr [t] u' sc') ->
  index_at self d tol md =
  match md with
  | Closest => index_closest self (mk_tarr [t] u' sc') tol
  | Before => index_before self (mk_tarr [t] u' sc')
  | After => index_after self (mk_tarr [t] u' sc')
  | BadMode => XErr XValue
  end.
Proof. intros H. unfold index_at. rewrite H. reflexivity. Qed.

Lemma index_at_before_spec self d tol t u' sc' :
  as_query (tunit self) d = Ok (mk_tarr [t] u' sc') ->
  let l := payload self in
  ((forall x, In x l -> t < x) /\ index_at self d tol Before = XOk (IList []))
  \/ exists k v, index_at self d tol Before = XOk (IScalar k) /\ nth_error l k = Some v /\ v <= t /\
       forall j y, nth_error l j = Some y -> y <= t -> y <= v /\ ((j < k)%nat -> y < v).
Proof. intros H. rewrite (index_at_mode self d tol Before t u' sc' H). apply index_before_spec. Qed.

Lemma index_at_after_spec self d tol t u' sc' :
  as_query (tunit self) d = Ok (mk_tarr [t] u' sc') ->
  let l := payload self in
  ((forall x, In x l -> x < t) /\ index_at self d tol After = XOk (IList []))
  \/ exists k v, index_at self d tol After = XOk (IScalar k) /\ nth_error l k = Some v /\ t <= v /\
       forall j y, nth_error l j = Some y -> t <= y -> v <= y /\ ((j < k)%nat -> v < y).
Proof. intros H. rewrite (index_at_mode self d tol After t u' sc' H). apply index_after_spec. Qed.

Lemma index_at_closest_spec self d tol t u' sc' tau u2 sc2 :
  as_query (tunit self) d = Ok (mk_tarr [t] u' sc') ->
  let l := payload self in
  Forall (fun x => in62 x = true) l -> in62 t = true ->
  ctor (UArg (tunit self)) (match tol with None => DTime clock_tick | Some x => x end) = Ok (mk_tarr [tau] u2 sc2) ->
  exists r, index_at self d tol Closest = XOk (IList r) /\ StronglySorted lt r /\
    forall k, In k r <-> exists x, nth_error l k = Some x /\ Z.abs (x - t) <= tau.
Proof.
  intros H l F Ht C. rewrite (index_at_mode self d tol Closest t u' sc' H).
  apply (index_closest_spec self t u' sc' tol tau u2 sc2); auto.
Qed.

Lemma index_at_bad_mode self d tol t : as_query (tunit self) d = Ok t -> index_at self d tol BadMode = XErr XValue.
Proof. intros H. unfold index_at. rewrite H. reflexivity. Qed.

Lemma uindex_at_unit_irrelevant ax p eu eu' sc b :
  uindex_at ax (DTime (mk_tarr p eu sc)) b = uindex_at ax (DTime (mk_tarr p eu' sc)) b.
Proof. reflexivity. Qed.

(* ================================================================ the slice rule before commit 26ee0a6 *)
(* `if e.stop > self[i_stop]: i_stop += 1` without the repeat step: the first arg-max returned by
   index_at(mode='before') made it drop the later repeats of the last time before the stop *)
Definition tslice_during_old (self : tarr) (e : epochs) : xres (nat * nat) :=
  do b <- scalar_bounds e;
  let (s, p) := b in
  do start <- index_at self (DTime (ep_start e)) None After;
  do stop <- index_at self (DTime (ep_stop e)) None Before;
  if negb (idx_nonempty start && idx_nonempty stop) then XOk (0%nat, 0%nat) else
  let i_start := match start with IScalar k => k | IList l => nat_max 0 l end in
  let i_stop := match stop with IScalar k => k | IList l => match l with [] => 0%nat | x :: l' => nat_min x l' end end in
  do x_start <- getn (payload self) i_start;
  let i_start := if s >? x_start then S i_start else i_start in
  do x_stop <- getn (payload self) i_stop;
  let i_stop := if p >? x_stop then S i_stop else i_stop in
  XOk (i_start, i_stop).

Definition dup_self : tarr := mk_tarr [1000000000; 3000000000; 3000000000; 5000000000] Ums false.
Definition dup_epoch : epochs := mk_epochs [1000000000] [4000000000] true (mk_tarr [0] Ums true) Ums.

Lemma dup_old : tslice_during_old dup_self dup_epoch = XOk (0%nat, 2%nat).
Proof. vm_compute. reflexivity. Qed.
Lemma dup_new : tslice_during dup_self dup_epoch = XOk (0%nat, 3%nat).
Proof. vm_compute. reflexivity. Qed.
Lemma dup_before : index_at dup_self (DTime (ep_stop dup_epoch)) None Before = XOk (IScalar 1%nat).
Proof. vm_compute. reflexivity. Qed.
Lemma dup_filter : filter (in_epoch 1000000000 4000000000) (payload dup_self) = [1000000000; 3000000000; 3000000000].
Proof. vm_compute. reflexivity. Qed.
Lemma dup_sorted : StronglySorted Z.le (payload dup_self).
Proof. repeat constructor; simpl; lia. Qed.

Lemma tslice_old_dup_refuted :
  exists self s p off eu lo hi, StronglySorted Z.le (payload self) /\
    tslice_during_old self (mk_epochs [s] [p] true off eu) = XOk (lo, hi) /\
    slice_nat lo hi (payload self) <> filter (in_epoch s p) (payload self).
Proof.
  exists dup_self, 1000000000, 4000000000, (mk_tarr [0] Ums true), Ums, 0%nat, 2%nat.
  split; [exact dup_sorted|]. split; [exact dup_old|]. rewrite dup_filter. vm_compute. discriminate.
Qed.

(* ================================================================ epoch arrays: every row is the selection of its epoch *)
Lemma epoch_list_In e ep : In ep (epoch_list e) ->
  exists s p, In s (e_start e) /\ In p (e_stop e) /\ ep = mk_epochs [s] [p] true (e_offset e) (e_unit e).
Proof.
  unfold epoch_list. intros H. apply in_map_iff in H as ([s p] & <- & Hin).
  exists s, p. split; [eapply in_combine_l; eauto|]. split; [eapply in_combine_r; eauto|reflexivity].
Qed.

Lemma Forall2_imp_In {A B} (P Q : A -> B -> Prop) l1 l2 :
  (forall a b, In a l1 -> P a b -> Q a b) -> Forall2 P l1 l2 -> Forall2 Q l1 l2.
Proof.
  intros H F. induction F; constructor.
  - apply H; [left; auto|auto].
  - apply IHF. intros a b Ha. apply H. right; auto.
Qed.

Lemma series_during_rows_data {A} (s : series A) e r :
  axis_guard (s_t0 s) (s_dt s) (length (s_data s)) ->
  Forall (fun x => in62 x = true) (e_start e) -> Forall (fun x => in62 x = true) (e_stop e) ->
  e_scalar e = false -> series_during s e = XOk r ->
  d_t0 r = head_ps (e_offset e) /\ d_dt r = s_dt s /\ d_unit r = s_unit s /\
  exists rows, d_sel r = DRows rows /\ all_same_len rows = true /\
    Forall2 (fun ep row => exists s0 p, e_start ep = [s0] /\ e_stop ep = [p] /\
               row = map snd (filter (fun tx => in_epoch s0 p (fst tx)) (combine (u_samples (series_time s)) (s_data s))))
            (epoch_list e) rows.
Proof.
  intros G Fs Fp Sc H. destruct (series_during_rows s e r Sc H) as (T0 & DT & U & rows & D & SL & F).
  repeat split; auto. exists rows. repeat split; auto.
  eapply Forall2_imp_In; [|exact F]. intros ep row Hin (a & b & Us & ->).
  apply epoch_list_In in Hin as (s0 & p & Hs & Hp & ->). exists s0, p. repeat split; auto.
  rewrite Forall_forall in Fs, Fp. specialize (Fs s0 Hs). specialize (Fp p Hp).
  rewrite series_time_wf in * by auto.
  set (t0 := s_t0 s) in *. set (dt := s_dt s) in *. set (n := length (s_data s)) in *.
  assert (R : (t0 <= s0 < t0 + Z.of_nat n * dt) /\ (t0 <= p < t0 + Z.of_nat n * dt)).
  { destruct (Z_lt_dec s0 t0); [rewrite uslice_outside in Us by auto; discriminate|].
    destruct (Z_le_dec (t0 + Z.of_nat n * dt) s0); [rewrite uslice_outside in Us by auto; discriminate|].
    destruct (Z_lt_dec p t0); [rewrite uslice_outside in Us by auto; discriminate|].
    destruct (Z_le_dec (t0 + Z.of_nat n * dt) p); [rewrite uslice_outside in Us by auto; discriminate|]. lia. }
  destruct R as [R0 Rp].
  destruct (uslice_spec t0 dt n (s_unit s) s0 p (e_offset e) (e_unit e) G Fs Fp R0 Rp) as (a' & b' & U' & Ha & Hb & K & _).
  rewrite U' in Us. injection Us as <- <-. apply slice_data_by_time; auto.
Qed.

(* ================================================================ statements with the standard sortedness predicate *)
Lemma tslice_spec_sorted self s p off eu : StronglySorted Z.le (payload self) ->
  exists lo hi, tslice_during self (mk_epochs [s] [p] true off eu) = XOk (lo, hi) /\
    slice_nat lo hi (payload self) = filter (in_epoch s p) (payload self).
Proof. intros H. apply tslice_spec. apply sorted_idx_of. exact H. Qed.

Lemma tarr_during_spec_sorted self s p off eu : StronglySorted Z.le (payload self) ->
  tarr_during self (mk_epochs [s] [p] true off eu) =
  XOk (mk_tarr (filter (in_epoch s p) (payload self)) (tunit self) false).
Proof. intros H. apply tarr_during_spec. apply sorted_idx_of. exact H. Qed.

Lemma events_select_data {A} (ev : events A) s p off eu :
  StronglySorted Z.le (payload (ev_time ev)) -> length (ev_data ev) = length (payload (ev_time ev)) ->
  events_get ev (KEpochs (mk_epochs [s] [p] true off eu)) =
  XOk (mk_events (mk_tarr (filter (in_epoch s p) (payload (ev_time ev))) (tunit (ev_time ev)) false)
                 (map snd (filter (fun tx => in_epoch s p (fst tx)) (combine (payload (ev_time ev)) (ev_data ev))))).
Proof. intros H L. apply events_get_epochs_sorted; auto. apply sorted_idx_of. exact H. Qed.

Lemma series_getint_spec {A} (s : series A) k :
  let n := Z.of_nat (length (s_data s)) in
  (0 <= k < n -> series_getint s k = getn (s_data s) (Z.to_nat k)) /\
  (- n <= k < 0 -> series_getint s k = getn (s_data s) (Z.to_nat (k + n))) /\
  (k < - n \/ n <= k -> series_getint s k = XErr XIndex).
Proof. exact (getz_spec (s_data s) k). Qed.

(* ================================================================ Epochs.__getitem__ *)
Lemma epochs_getitem_keeps e k e' : epochs_getitem e k = XOk e' ->
  e_offset e' = e_offset e /\ e_unit e' = e_unit e.
Proof.
  unfold epochs_getitem. destruct (e_scalar e); [discriminate|]. destruct k as [z|lo hi|l|m].
  - destruct (getz (e_start e) z); cbn [xbind]; [|discriminate].
    destruct (getz (e_stop e) z); cbn [xbind]; [|discriminate]. intros E; injection E as <-. auto.
  - intros E; injection E as <-. auto.
  - destruct (gatherz (e_start e) l); cbn [xbind]; [|discriminate].
    destruct (gatherz (e_stop e) l); cbn [xbind]; [|discriminate]. intros E; injection E as <-. auto.
  - destruct (negb _); [discriminate|].
    destruct (gather (e_start e) (np_where m)); cbn [xbind]; [|discriminate].
    destruct (gather (e_stop e) (np_where m)); cbn [xbind]; [|discriminate]. intros E; injection E as <-. auto.
Qed.

(* e[k] for an integer k: the scalar epoch (start_i, stop_i) of Python position i, same offset / unit *)
Lemma epochs_getitem_int e z e' : length (e_stop e) = length (e_start e) ->
  epochs_getitem e (EInt z) = XOk e' ->
  exists i s p, py_index (length (e_start e)) z = Some i /\ nth_error (e_start e) i = Some s /\
    nth_error (e_stop e) i = Some p /\ e' = mk_epochs [s] [p] true (e_offset e) (e_unit e).
Proof.
  intros L. unfold epochs_getitem, getz. rewrite L. destruct (e_scalar e); [discriminate|].
  destruct (py_index (length (e_start e)) z) as [i|] eqn:P; cbn [xbind]; [|discriminate].
  unfold getn. destruct (nth_error (e_start e) i) as [s|] eqn:Hs; cbn [xbind]; [|discriminate].
  destruct (nth_error (e_stop e) i) as [p|] eqn:Hp; cbn [xbind]; [|discriminate].
  intros E; injection E as <-. exists i, s, p. auto.
Qed.

Lemma epochs_getitem_scalar_refused e k : e_scalar e = true -> epochs_getitem e k = XErr XIndex.
Proof. intros H. unfold epochs_getitem. rewrite H. reflexivity. Qed.

(* whatever epoch object is used, the series returned by during starts at that object's offset *)
Lemma series_during_t0 {A} (s : series A) e r : series_during s e = XOk r ->
  d_t0 r = head_ps (e_offset e) /\ d_dt r = s_dt s /\ d_unit r = s_unit s.
Proof.
  destruct (e_scalar e) eqn:Sc.
  - unfold series_during. rewrite Sc. destruct (uslice_during (series_time s) e); cbn [xbind]; [|discriminate].
    intros E; injection E as <-. auto.
  - intros H. destruct (series_during_rows s e r Sc H) as (T0 & DT & U & _). auto.
Qed.

(* selecting by an indexed / sliced epoch: the time axis still starts at the offset the epochs were built with *)
Lemma series_during_indexed_t0 {A} (s : series A) e k e' r :
  epochs_getitem e k = XOk e' -> series_during s e' = XOk r -> d_t0 r = head_ps (e_offset e).
Proof.
  intros G D. apply epochs_getitem_keeps in G as [O _]. apply series_during_t0 in D as [T _]. congruence.
Qed.

(* ================================================================ integer selection on time arrays / axes *)
Lemma tarr_getint_spec self k :
  let n := Z.of_nat (length (payload self)) in
  (0 <= k < n -> exists x, nth_error (payload self) (Z.to_nat k) = Some x /\ tarr_getint self k = XOk (mk_tarr [x] (tunit self) true)) /\
  (- n <= k < 0 -> exists x, nth_error (payload self) (Z.to_nat (k + n)) = Some x /\ tarr_getint self k = XOk (mk_tarr [x] (tunit self) true)) /\
  (k < - n \/ n <= k -> tarr_getint self k = XErr XIndex).
Proof.
  intros n. destruct (getz_spec (payload self) k) as (H1 & H2 & H3). fold n in H1, H2, H3. unfold tarr_getint.
  repeat split; intros H.
  - rewrite (H1 H). unfold getn. destruct (nth_error (payload self) (Z.to_nat k)) as [x|] eqn:E.
    + exists x. split; reflexivity.
    + apply nth_error_None in E. unfold n in H. lia.
  - rewrite (H2 H). unfold getn. destruct (nth_error (payload self) (Z.to_nat (k + n))) as [x|] eqn:E.
    + exists x. split; reflexivity.
    + apply nth_error_None in E. unfold n in *. lia.
  - rewrite (H3 H). reflexivity.
Qed.

Lemma uaxis_getint_sample t0 dt n u k : (k < n)%nat ->
  uaxis_getint (uaxis_of t0 dt n u) (Z.of_nat k) = XOk (mk_tarr [t0 + Z.of_nat k * dt] u true).
Proof.
  intros Lt. unfold uaxis_getint. rewrite (getz_of _ _ (t0 + Z.of_nat k * dt)); [reflexivity|lia|].
  rewrite Nat2Z.id. simpl. apply (nth_error_map_seq (fun i => t0 + Z.of_nat i * dt)). exact Lt.
Qed.
