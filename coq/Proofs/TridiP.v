(* Proofs/TridiP.v — correctness of the model of `tridisolve` (Model/Tridi.v) for every size:
   loop invariants of the three loops (LDL^T factorisation, forward sweep, back substitution)
   and the per-row algebra, giving T(d,e) . x == b whenever all pivots are non-zero. *)
From Coq Require Import QArith List Arith Bool Lia Field.
From NT Require Import Tridi.
Import ListNotations.
Open Scope Q_scope.

(* ---------------------------------------------------------------- arrays *)
Lemma upd_length l k v : length (upd l k v) = length l.
Proof. revert k; induction l as [|a l IH]; intros [|k]; simpl; auto. Qed.

Lemma get_upd_same l k v : (k < length l)%nat -> get (upd l k v) k = v.
Proof.
  unfold get. revert k; induction l as [|a l IH]; intros [|k] H; simpl in *; try lia; auto.
  apply IH; lia.
Qed.

Lemma get_upd_other l k j v : j <> k -> get (upd l k v) j = get l j.
Proof.
  unfold get. revert k j; induction l as [|a l IH]; intros [|k] [|j] H; simpl; auto; try lia.
Qed.

(* ---------------------------------------------------------------- the recurrences *)
Definition lmul (d e : list Q) (k : nat) : Q := get e k / pivot d e k.
Fixpoint fwd (d e b : list Q) (k : nat) : Q :=
  match k with
  | O => get b 0
  | S k' => get b k - lmul d e k' * fwd d e b k'
  end.

(* ---------------------------------------------------------------- loop 1 *)
Definition inv1 (d e : list Q) (j : nat) (st : list Q * list Q) : Prop :=
  length (fst st) = length d /\ length (snd st) = length e /\
  (forall i, (i <= j)%nat -> get (fst st) i == pivot d e i) /\
  (forall i, (j < i)%nat -> get (fst st) i = get d i) /\
  (forall i, (i < j)%nat -> get (snd st) i == lmul d e i) /\
  (forall i, (j <= i)%nat -> get (snd st) i = get e i).

Lemma loop1_inv d e j :
  (j < length d)%nat -> (j <= length e)%nat ->
  inv1 d e j (fold_left elim_step (seq 1 j) (d, e)).
Proof.
  induction j as [|j IH]; intros Hd He.
  - simpl. unfold inv1; simpl. repeat split; auto; try reflexivity; intros i Hi; try lia.
    replace i with 0%nat by lia. reflexivity.
  - rewrite seq_S, fold_left_app. simpl fold_left.
    specialize (IH ltac:(lia) ltac:(lia)).
    destruct (fold_left elim_step (seq 1 j) (d, e)) as [dw ew].
    destruct IH as (Ld & Le & Hp & Hdr & Hl & Her). cbn [fst snd] in *.
    unfold elim_step; cbn [fst snd].
    change (1 + j)%nat with (S j). replace (S j - 1)%nat with j by lia.
    assert (Ej : get (upd ew j (Qred (get ew j / get dw j))) j == lmul d e j).
    { rewrite get_upd_same by lia. setoid_rewrite Qred_correct.
      rewrite (Her j) by lia. rewrite (Hp j) by lia. reflexivity. }
    unfold inv1; cbn [fst snd]. repeat split.
    + rewrite upd_length; exact Ld.
    + rewrite upd_length; exact Le.
    + intros i Hi. destruct (Nat.eq_dec i (S j)) as [->|Hne].
      * rewrite get_upd_same by lia. setoid_rewrite Qred_correct.
        rewrite Ej. rewrite (Hdr (S j)) by lia. rewrite (Her j) by lia.
        simpl pivot. unfold lmul. reflexivity.
      * rewrite get_upd_other by lia. apply Hp; lia.
    + intros i Hi. rewrite get_upd_other by lia. apply Hdr; lia.
    + intros i Hi. destruct (Nat.eq_dec i j) as [->|Hne].
      * exact Ej.
      * rewrite get_upd_other by lia. apply Hl; lia.
    + intros i Hi. rewrite get_upd_other by lia. apply Her; lia.
Qed.

(* ---------------------------------------------------------------- loop 2 *)
Definition inv2 (d e b : list Q) (j : nat) (x : list Q) : Prop :=
  length x = length b /\
  (forall i, (i <= j)%nat -> get x i == fwd d e b i) /\
  (forall i, (j < i)%nat -> get x i = get b i).

Lemma loop2_inv d e b ew j :
  (j < length b)%nat ->
  (forall i, (i < j)%nat -> get ew i == lmul d e i) ->
  inv2 d e b j (fold_left (fwd_step ew) (seq 1 j) b).
Proof.
  induction j as [|j IH]; intros Hb Hew.
  - simpl. unfold inv2. repeat split; auto; intros i Hi.
    replace i with 0%nat by lia. reflexivity.
  - rewrite seq_S, fold_left_app. simpl fold_left.
    specialize (IH ltac:(lia) ltac:(intros; apply Hew; lia)).
    destruct IH as (Lx & Hy & Hr).
    set (x := fold_left (fwd_step ew) (seq 1 j) b) in *.
    unfold fwd_step. change (1 + j)%nat with (S j). replace (S j - 1)%nat with j by lia.
    unfold inv2. repeat split.
    + rewrite upd_length; exact Lx.
    + intros i Hi. destruct (Nat.eq_dec i (S j)) as [->|Hne].
      * rewrite get_upd_same by lia. setoid_rewrite Qred_correct.
        rewrite (Hr (S j)) by lia. rewrite (Hy j) by lia. rewrite (Hew j) by lia.
        simpl fwd. reflexivity.
      * rewrite get_upd_other by lia. apply Hy; lia.
    + intros i Hi. rewrite get_upd_other by lia. apply Hr; lia.
Qed.

(* ---------------------------------------------------------------- loop 3 *)
(* N1 = N - 1 is the index of the last entry *)
Definition inv3 (d e b : list Q) (N1 k : nat) (x : list Q) : Prop :=
  length x = S N1 /\
  (forall i, (i < k)%nat -> get x i == fwd d e b i) /\
  get x N1 == fwd d e b N1 / pivot d e N1 /\
  (forall i, (k <= i < N1)%nat ->
     get x i == fwd d e b i / pivot d e i - lmul d e i * get x (S i)).

Lemma loop3_inv d e b dw ew N1 :
  (forall i, (i <= N1)%nat -> get dw i == pivot d e i) ->
  (forall i, (i < N1)%nat -> get ew i == lmul d e i) ->
  forall k x, (k <= N1)%nat -> inv3 d e b N1 k x -> inv3 d e b N1 0 (loop3 dw ew x k).
Proof.
  intros Hdw Hew. induction k as [|k IH]; intros x Hk Hinv; simpl; [exact Hinv|].
  apply IH; [lia|]. destruct Hinv as (Lx & Hlo & Hlast & Hrel).
  unfold back_step. unfold inv3. repeat split.
  - rewrite upd_length; exact Lx.
  - intros i Hi. rewrite get_upd_other by lia. apply Hlo; lia.
  - rewrite get_upd_other by lia. exact Hlast.
  - intros i Hi. destruct (Nat.eq_dec i k) as [->|Hne].
    + rewrite get_upd_same by lia. rewrite (get_upd_other x k (S k)) by lia.
      setoid_rewrite Qred_correct.
      rewrite (Hlo k) by lia. rewrite (Hdw k) by lia. rewrite (Hew k) by lia. reflexivity.
    + rewrite !get_upd_other by lia. apply Hrel; lia.
Qed.

(* ---------------------------------------------------------------- row algebra (cf. design spike) *)
Lemma row_interior (ep e d Dp D lp l yp y b xp x xn : Q) :
  ~ Dp == 0 -> ~ D == 0 ->
  lp == ep / Dp -> l == e / D ->
  D == d - ep * lp ->
  y == b - lp * yp ->
  xp == yp / Dp - lp * x ->
  x == y / D - l * xn ->
  ep * xp + d * x + e * xn == b.
Proof.
  intros HDp HD Hlp Hl HDk Hy Hxp Hx.
  assert (Hd : d == D + ep * lp) by (rewrite HDk; ring).
  rewrite Hd, Hxp, Hx, Hy, Hl, Hlp. field. split; assumption.
Qed.

Lemma row_first (e d D l y b x xn : Q) :
  ~ D == 0 -> D == d -> l == e / D -> y == b -> x == y / D - l * xn ->
  0 + d * x + e * xn == b.
Proof.
  intros HD Hd Hl Hy Hx. rewrite <- Hd, Hx, Hy, Hl. field. assumption.
Qed.

Lemma row_last (ep d Dp D lp yp y b xp x : Q) :
  ~ Dp == 0 -> ~ D == 0 ->
  lp == ep / Dp -> D == d - ep * lp -> y == b - lp * yp ->
  xp == yp / Dp - lp * x -> x == y / D ->
  ep * xp + d * x + 0 == b.
Proof.
  intros HDp HD Hlp HDk Hy Hxp Hx.
  assert (Hd : d == D + ep * lp) by (rewrite HDk; ring).
  rewrite Hd, Hxp, Hx, Hy, Hlp. field. split; assumption.
Qed.

Lemma row_single (d D y b x : Q) :
  ~ D == 0 -> D == d -> y == b -> x == y / D -> 0 + d * x + 0 == b.
Proof. intros HD Hd Hy Hx. rewrite <- Hd, Hx, Hy. field. assumption. Qed.

(* ---------------------------------------------------------------- the final state *)
Lemma tridisolve_state d e b N1 :
  length b = S N1 -> length d = S N1 -> (N1 <= length e)%nat ->
  inv3 d e b N1 0 (tridisolve d e b).
Proof.
  intros Lb Ld Le. unfold tridisolve, loop1, loop2, scale_last. rewrite Lb.
  replace (S N1 - 1)%nat with N1 by lia.
  pose proof (loop1_inv d e N1 ltac:(lia) Le) as H1.
  destruct (fold_left elim_step (seq 1 N1) (d, e)) as [dw ew].
  destruct H1 as (Ldw & Lew & Hp & _ & Hl & _). cbn [fst snd] in *.
  pose proof (loop2_inv d e b ew N1 ltac:(lia) Hl) as H2.
  set (y := fold_left (fwd_step ew) (seq 1 N1) b) in *.
  destruct H2 as (Ly & Hy & _).
  apply (loop3_inv d e b dw ew N1 Hp Hl); [lia|].
  unfold inv3. repeat split.
  - rewrite upd_length. lia.
  - intros i Hi. rewrite get_upd_other by lia. apply Hy; lia.
  - rewrite get_upd_same by lia. setoid_rewrite Qred_correct.
    rewrite (Hy N1) by lia. rewrite (Hp N1) by lia. reflexivity.
  - intros i Hi. lia.
Qed.

(* ---------------------------------------------------------------- main theorem *)
Theorem tridisolve_correct d e b :
  length d = length b -> (length b - 1 <= length e)%nat ->
  (forall k, (k < length b)%nat -> ~ pivot d e k == 0) ->
  length (tridisolve d e b) = length b /\
  forall k, (k < length b)%nat -> Trow d e (tridisolve d e b) (length b) k == get b k.
Proof.
  intros Ld Le Hpiv.
  destruct (length b) as [|N1] eqn:Lb.
  - split; [|intros k Hk; lia].
    unfold tridisolve. rewrite Lb. simpl. unfold scale_last, loop2. simpl.
    rewrite upd_length. exact Lb.
  - replace (S N1 - 1)%nat with N1 in Le by lia.
    pose proof (tridisolve_state d e b N1 Lb Ld Le) as (Lx & _ & Hlast & Hrel).
    set (x := tridisolve d e b) in *.
    split; [exact Lx|]. intros k Hk. unfold Trow.
    destruct k as [|k].
    + (* first row *)
      simpl (0 <? 0)%nat. cbv iota.
      destruct (1 <? S N1)%nat eqn:E1.
      * apply Nat.ltb_lt in E1.
        apply (row_first (get e 0) (get d 0) (pivot d e 0) (lmul d e 0) (fwd d e b 0)).
        -- apply Hpiv; lia.
        -- reflexivity.
        -- reflexivity.
        -- reflexivity.
        -- apply Hrel; lia.
      * apply Nat.ltb_ge in E1. assert (N1 = 0)%nat by lia. subst N1.
        apply (row_single (get d 0) (pivot d e 0) (fwd d e b 0)).
        -- apply Hpiv; lia.
        -- reflexivity.
        -- reflexivity.
        -- exact Hlast.
    + replace (0 <? S k)%nat with true by (symmetry; apply Nat.ltb_lt; lia).
      replace (S k - 1)%nat with k by lia.
      destruct (S (S k) <? S N1)%nat eqn:E1.
      * apply Nat.ltb_lt in E1.
        apply (row_interior (get e k) (get e (S k)) (get d (S k)) (pivot d e k) (pivot d e (S k))
                            (lmul d e k) (lmul d e (S k)) (fwd d e b k) (fwd d e b (S k))).
        -- apply Hpiv; lia.
        -- apply Hpiv; lia.
        -- reflexivity.
        -- reflexivity.
        -- reflexivity.
        -- reflexivity.
        -- apply Hrel; lia.
        -- apply Hrel; lia.
      * apply Nat.ltb_ge in E1. assert (N1 = S k)%nat by lia. subst N1.
        apply (row_last (get e k) (get d (S k)) (pivot d e k) (pivot d e (S k))
                        (lmul d e k) (fwd d e b k) (fwd d e b (S k))).
        -- apply Hpiv; lia.
        -- apply Hpiv; lia.
        -- reflexivity.
        -- reflexivity.
        -- reflexivity.
        -- apply Hrel; lia.
        -- exact Hlast.
Qed.

(* the work vector of the model holds exactly these pivots: `zero_pivot` is a test of the guard *)
Lemma loop1_pivots d e N k :
  (0 < N)%nat -> length d = N -> (N - 1 <= length e)%nat -> (k < N)%nat ->
  get (fst (loop1 N d e)) k == pivot d e k.
Proof.
  intros HN Ld Le Hk. unfold loop1.
  pose proof (loop1_inv d e (N - 1) ltac:(lia) Le) as H1.
  destruct H1 as (_ & _ & Hp & _). apply Hp. lia.
Qed.

(* ---------------------------------------------------------------- uniqueness: non-zero pivots make T injective *)
(* a vector z (as a function) annihilated by T(d,e) on rows 0..N-1 vanishes on 0..N-1 *)
Definition TrowF (d e : list Q) (z : nat -> Q) (N k : nat) : Q :=
  (if (0 <? k)%nat then get e (k - 1) * z (k - 1)%nat else 0)
  + get d k * z k
  + (if (S k <? N)%nat then get e k * z (S k) else 0).

Lemma kernel_fwd d e z N :
  (forall k, (k < N)%nat -> ~ pivot d e k == 0) ->
  (forall k, (k < N)%nat -> TrowF d e z N k == 0) ->
  forall k, (k < N)%nat ->
    pivot d e k * z k + (if (S k <? N)%nat then get e k * z (S k) else 0) == 0.
Proof.
  intros Hp Hz. induction k as [|k IH]; intros Hk.
  - specialize (Hz 0%nat Hk). unfold TrowF in Hz. change (0 <? 0)%nat with false in Hz. cbv iota in Hz.
    simpl pivot. etransitivity; [|exact Hz]. ring.
  - specialize (IH ltac:(lia)).
    replace (S k <? N)%nat with true in IH by (symmetry; apply Nat.ltb_lt; lia).
    specialize (Hz (S k) Hk). unfold TrowF in Hz.
    replace (0 <? S k)%nat with true in Hz by (symmetry; apply Nat.ltb_lt; lia).
    replace (S k - 1)%nat with k in Hz by lia.
    pose proof (Hp k ltac:(lia)) as HDk.
    assert (E1 : pivot d e k * z k == - (get e k * z (S k))).
    { setoid_replace (pivot d e k * z k)
        with ((pivot d e k * z k + get e k * z (S k)) - get e k * z (S k)) by ring.
      rewrite IH. ring. }
    assert (Ezk : z k == - (get e k * z (S k)) / pivot d e k).
    { rewrite <- E1. field. exact HDk. }
    simpl pivot.
    set (u := if (S (S k) <? N)%nat then get e (S k) * z (S (S k)) else 0) in *.
    etransitivity; [|exact Hz]. rewrite Ezk. field. exact HDk.
Qed.

Theorem tridi_kernel_trivial d e z N :
  (forall k, (k < N)%nat -> ~ pivot d e k == 0) ->
  (forall k, (k < N)%nat -> TrowF d e z N k == 0) ->
  forall k, (k < N)%nat -> z k == 0.
Proof.
  intros Hp Hz.
  pose proof (kernel_fwd d e z N Hp Hz) as Hu.
  (* downward induction: show z (N-1-j) == 0 for j = 0.. *)
  assert (H : forall j k, (k + j = N - 1)%nat -> (k < N)%nat -> z k == 0).
  { induction j as [|j IH]; intros k Hkj Hk.
    - specialize (Hu k Hk).
      replace (S k <? N)%nat with false in Hu by (symmetry; apply Nat.ltb_ge; lia).
      pose proof (Hp k Hk) as HD.
      assert (E : pivot d e k * z k == 0) by (etransitivity; [|exact Hu]; ring).
      apply Qmult_integral in E. destruct E; [contradiction|assumption].
    - specialize (Hu k Hk).
      replace (S k <? N)%nat with true in Hu by (symmetry; apply Nat.ltb_lt; lia).
      rewrite (IH (S k) ltac:(lia) ltac:(lia)) in Hu.
      pose proof (Hp k Hk) as HD.
      assert (E : pivot d e k * z k == 0) by (etransitivity; [|exact Hu]; ring).
      apply Qmult_integral in E. destruct E; [contradiction|assumption]. }
  intros k Hk. apply (H (N - 1 - k)%nat k); lia.
Qed.

(* ---------------------------------------------------------------- one pass of inverse iteration *)
Lemma get_shift d w k : (k < length d)%nat -> get (shift d w) k == get d k - w.
Proof.
  unfold shift, get. revert k; induction d as [|a d IH]; intros [|k] Hk; simpl in Hk; try lia.
  - reflexivity.
  - simpl. apply IH. lia.
Qed.

(* (T - w I) x' = x0 : the new iterate solves the shifted system, i.e. T x' == w x' + x0 row by row *)
Theorem inviter_solve_spec d e w x0 :
  length d = length x0 -> (length x0 - 1 <= length e)%nat ->
  (forall k, (k < length x0)%nat -> ~ pivot (shift d w) e k == 0) ->
  forall k, (k < length x0)%nat ->
    Trow d e (inviter_solve d e w x0) (length x0) k == w * get (inviter_solve d e w x0) k + get x0 k.
Proof.
  intros Ld Le Hp k Hk. unfold inviter_solve.
  assert (Ls : length (shift d w) = length x0) by (unfold shift; rewrite map_length; exact Ld).
  destruct (tridisolve_correct (shift d w) e x0 Ls Le Hp) as (_ & H).
  specialize (H k Hk). unfold Trow in *.
  rewrite get_shift in H by lia. rewrite <- H. ring.
Qed.
