(* Proofs/FreqsP.v — lemmas about the frequency-grid model (property C05). *)
From Coq Require Import QArith List Bool Arith ZArith Lia Sorted Setoid.
From NT Require Import TimeArray Freqs.
Import ListNotations.
Open Scope Q_scope.

(* ------------------------------------------------------------------ qn *)
Lemma qn_0 : qn 0 == 0. Proof. reflexivity. Qed.
Lemma qn_nonzero n : (0 < n)%nat -> ~ qn n == 0.
Proof. unfold qn, Qeq; simpl. lia. Qed.
Lemma qn_pos n : (0 < n)%nat -> 0 < qn n.
Proof. unfold qn, Qlt; simpl. lia. Qed.
Lemma qn_nonneg n : 0 <= qn n.
Proof. unfold qn, Qle; simpl. lia. Qed.
Lemma qn_le a b : (a <= b)%nat -> qn a <= qn b.
Proof. unfold qn, Qle; simpl. lia. Qed.
Lemma qn_lt a b : (a < b)%nat -> qn a < qn b.
Proof. unfold qn, Qlt; simpl. lia. Qed.
Lemma qn_double h : qn (2 * h) == 2 * qn h.
Proof.
  unfold qn. replace (Z.of_nat (2 * h)) with (2 * Z.of_nat h)%Z by lia.
  rewrite inject_Z_mult. reflexivity.
Qed.
Lemma qn_eq_double n h : qn n == 2 * qn h -> n = (2 * h)%nat.
Proof.
  intros H. rewrite <- qn_double in H. unfold qn in H. apply (proj1 (inject_Z_injective _ _)) in H. lia.
Qed.
Lemma qn_1 : qn 1 == 1. Proof. reflexivity. Qed.

(* ------------------------------------------------------------------ leq *)
Lemma leq_refl l : leq l l.
Proof. induction l; constructor; [reflexivity|assumption]. Qed.
Lemma leq_sym l1 l2 : leq l1 l2 -> leq l2 l1.
Proof. induction 1; constructor; [symmetry|]; assumption. Qed.
Lemma leq_trans l1 l2 l3 : leq l1 l2 -> leq l2 l3 -> leq l1 l3.
Proof.
  intros H; revert l3; induction H; intros l3 H2; inversion H2; subst; constructor.
  - etransitivity; eassumption.
  - apply IHForall2; assumption.
Qed.
Lemma leq_length l1 l2 : leq l1 l2 -> length l1 = length l2.
Proof. induction 1; simpl; congruence. Qed.

Lemma leq_map_seq (f g : nat -> Q) a n :
  (forall k, (a <= k < a + n)%nat -> f k == g k) -> leq (map f (seq a n)) (map g (seq a n)).
Proof.
  revert a; induction n; intros a H; simpl; constructor.
  - apply H; lia.
  - apply IHn. intros k Hk; apply H; lia.
Qed.

Lemma leq_map_seq_inv (f g : nat -> Q) a n :
  leq (map f (seq a n)) (map g (seq a n)) -> forall k, (a <= k < a + n)%nat -> f k == g k.
Proof.
  revert a; induction n; intros a H k Hk; [lia|].
  simpl in H. inversion H; subst.
  destruct (Nat.eq_dec k a) as [->|Hne]; [assumption|].
  apply (IHn (S a)); [assumption|lia].
Qed.

(* boolean refutation helper: a computed `false` refutes leq *)
Fixpoint leqb (l1 l2 : list Q) : bool :=
  match l1, l2 with
  | [], [] => true
  | a :: t1, b :: t2 => Qeq_bool a b && leqb t1 t2
  | _, _ => false
  end.
Lemma leq_leqb l1 l2 : leq l1 l2 -> leqb l1 l2 = true.
Proof.
  induction 1; simpl; [reflexivity|].
  apply andb_true_intro; split; [apply Qeq_bool_iff; assumption|assumption].
Qed.
Lemma leqb_false_not_leq l1 l2 : leqb l1 l2 = false -> ~ leq l1 l2.
Proof. intros E H. apply leq_leqb in H. congruence. Qed.

(* ------------------------------------------------------------------ parity *)
Lemma even_half n : Nat.even n = true <-> n = (2 * (n / 2))%nat.
Proof.
  split.
  - intros E. apply Nat.even_spec in E. destruct E as [m ->].
    rewrite (Nat.mul_comm 2 m), Nat.div_mul by lia. lia.
  - intros E. apply Nat.even_spec. exists (n / 2)%nat. exact E.
Qed.
Lemma odd_half n : Nat.even n = false -> n = (2 * (n / 2) + 1)%nat.
Proof.
  intros E. pose proof (Nat.div_mod n 2 ltac:(lia)) as D.
  pose proof (Nat.mod_upper_bound n 2 ltac:(lia)) as B.
  destruct (Nat.eq_dec (n mod 2) 0) as [Z|NZ].
  - assert (n = (2 * (n / 2))%nat) by lia. apply even_half in H. congruence.
  - lia.
Qed.

(* ------------------------------------------------------------------ the numpy grids *)
Lemma linspace_open a b n : (0 < n)%nat ->
  linspace a b n false = map (fun k => a + qn k * ((b - a) / qn n)) (seq 0 n).
Proof. intros H. unfold linspace. destruct n; [lia|reflexivity]. Qed.

Lemma linspace_closed a b m : (0 < m)%nat ->
  linspace a b (m + 1) true = map (fun k => a + qn k * ((b - a) / qn m)) (seq 0 (m + 1)).
Proof.
  intros H. unfold linspace. rewrite Nat.add_sub. destruct m; [lia|reflexivity].
Qed.

Lemma rfft_grid_ok Fs N : (0 < N)%nat -> leq (scale Fs (rfftfreq N)) (true_bins Fs N OneSided).
Proof.
  intros H. unfold scale, rfftfreq, true_bins, nbins. rewrite map_map.
  apply leq_map_seq. intros k _. unfold bin_freq.
  field. apply qn_nonzero; assumption.
Qed.

Lemma full_grid_ok Fs N : (0 < N)%nat -> leq (linspace 0 Fs N false) (true_bins Fs N TwoSided).
Proof.
  intros H. rewrite linspace_open by assumption. unfold true_bins, nbins.
  apply leq_map_seq. intros k _. unfold bin_freq. field. apply qn_nonzero; assumption.
Qed.

Lemma periodogram_freqs_ok Fs N s : (0 < N)%nat -> leq (periodogram_freqs Fs N s) (true_bins Fs N s).
Proof. intros H; destruct s; [apply rfft_grid_ok|apply full_grid_ok]; assumption. Qed.
Lemma pcsd_freqs_ok Fs N s : (0 < N)%nat -> leq (pcsd_freqs Fs N s) (true_bins Fs N s).
Proof. intros H; destruct s; [apply rfft_grid_ok|apply full_grid_ok]; assumption. Qed.
Lemma mt_freqs_ok Fs N s : (0 < N)%nat -> leq (mt_freqs Fs N s) (true_bins Fs N s).
Proof. intros H; destruct s; [apply rfft_grid_ok|apply full_grid_ok]; assumption. Qed.

Lemma mt_nfft_ge N NFFT : (N <= mt_nfft N NFFT)%nat /\ (NFFT <= mt_nfft N NFFT)%nat.
Proof. unfold mt_nfft. destruct (NFFT <? N)%nat eqn:E; [apply Nat.ltb_lt in E|apply Nat.ltb_ge in E]; lia. Qed.

(* the spec itself: where the true bins lie *)
Lemma true_bins_length Fs N s : length (true_bins Fs N s) = nbins N s.
Proof. unfold true_bins. rewrite map_length, seq_length. reflexivity. Qed.

Lemma true_bins_range Fs N s x : 0 < Fs -> (0 < N)%nat -> In x (true_bins Fs N s) ->
  0 <= x /\ match s with OneSided => x <= Fs / 2 | TwoSided => x < Fs end.
Proof.
  intros HF HN HI. unfold true_bins in HI. apply in_map_iff in HI as [k [<- Hk]].
  apply in_seq in Hk. unfold bin_freq.
  pose proof (qn_pos N HN) as PN. pose proof (qn_nonneg k) as Pk.
  assert (NZ : ~ qn N == 0) by (apply qn_nonzero; assumption).
  split.
  - apply Qle_shift_div_l; [assumption|]. rewrite Qmult_0_l.
    apply Qmult_le_0_compat; [assumption|apply Qlt_le_weak; assumption].
  - destruct s; unfold nbins in Hk.
    + apply Qle_shift_div_r; [assumption|].
      assert (K2 : 2 * qn k <= qn N).
      { rewrite <- qn_double. apply qn_le.
        pose proof (Nat.div_mod N 2 ltac:(lia)). lia. }
      setoid_replace (Fs / 2 * qn N) with (Fs * (qn N / 2)) by field.
      rewrite (Qmult_comm (qn k) Fs). apply Qmult_le_l; [assumption|].
      apply Qle_shift_div_l; [reflexivity|]. rewrite Qmult_comm. exact K2.
    + apply Qlt_shift_div_r; [assumption|].
      rewrite (Qmult_comm (qn k) Fs). apply Qmult_lt_l; [assumption|].
      apply qn_lt; lia.
Qed.

(* ------------------------------------------------------------------ linspace(0, Fs/2, n//2+1) *)
Lemma get_freqs_eq Fs n : (2 <= n)%nat ->
  get_freqs Fs n = map (fun k => 0 + qn k * ((Fs / 2 - 0) / qn (n / 2))) (seq 0 (n / 2 + 1)).
Proof.
  intros H. unfold get_freqs. apply linspace_closed.
  pose proof (Nat.div_mod n 2 ltac:(lia)). pose proof (Nat.mod_upper_bound n 2 ltac:(lia)). lia.
Qed.

Lemma half_pos n : (2 <= n)%nat -> (0 < n / 2)%nat.
Proof.
  intros H. pose proof (Nat.div_mod n 2 ltac:(lia)). pose proof (Nat.mod_upper_bound n 2 ltac:(lia)). lia.
Qed.

(* entry k of get_freqs is k * Fs / (2 * (n//2)) *)
Lemma get_freqs_entry Fs n k : (2 <= n)%nat ->
  0 + qn k * ((Fs / 2 - 0) / qn (n / 2)) == qn k * Fs / (2 * qn (n / 2)).
Proof. intros H. field. apply qn_nonzero, half_pos; assumption. Qed.

Theorem get_freqs_iff_even Fs n : ~ Fs == 0 -> (2 <= n)%nat ->
  (leq (get_freqs Fs n) (true_bins Fs n OneSided) <-> Nat.even n = true).
Proof.
  intros HF Hn. rewrite get_freqs_eq by assumption. unfold true_bins, nbins.
  pose proof (half_pos n Hn) as Hh.
  assert (NZh : ~ qn (n / 2) == 0) by (apply qn_nonzero; assumption).
  assert (NZn : ~ qn n == 0) by (apply qn_nonzero; lia).
  split.
  - intros H. apply even_half. apply qn_eq_double.
    pose proof (leq_map_seq_inv _ _ _ _ H 1%nat ltac:(lia)) as E. unfold bin_freq in E.
    rewrite get_freqs_entry in E by assumption. rewrite qn_1 in E.
    assert (E2 : Fs * qn n == Fs * (2 * qn (n / 2))).
    { setoid_replace (Fs * qn n) with ((1 * Fs / (2 * qn (n / 2))) * (2 * qn (n / 2) * qn n)) by (field; assumption).
      rewrite E. field. assumption. }
    exact (proj1 (Qmult_inj_l _ _ Fs HF) E2).
  - intros E. apply even_half in E. apply leq_map_seq. intros k _.
    rewrite get_freqs_entry by assumption. unfold bin_freq.
    assert (Q2 : qn n == 2 * qn (n / 2)) by (rewrite E at 1; apply qn_double).
    rewrite Q2. reflexivity.
Qed.

Lemma get_freqs_even_ok Fs n : (0 < n)%nat -> Nat.even n = true ->
  leq (get_freqs Fs n) (true_bins Fs n OneSided).
Proof.
  intros Hn E. assert (2 <= n)%nat by (destruct n as [|[|n]]; [lia|discriminate|lia]).
  rewrite get_freqs_eq by assumption. unfold true_bins, nbins.
  apply even_half in E. apply leq_map_seq. intros k _.
  rewrite get_freqs_entry by assumption. unfold bin_freq.
  assert (Q2 : qn n == 2 * qn (n / 2)) by (rewrite E at 1; apply qn_double).
  rewrite Q2. reflexivity.
Qed.

Lemma get_freqs_odd_wrong Fs n : ~ Fs == 0 -> (3 <= n)%nat -> Nat.even n = false ->
  ~ leq (get_freqs Fs n) (true_bins Fs n OneSided).
Proof.
  intros HF Hn E H. apply get_freqs_iff_even in H; [congruence|assumption|lia].
Qed.

Lemma get_freqs_length Fs n : length (get_freqs Fs n) = (n / 2 + 1)%nat.
Proof.
  unfold get_freqs, linspace. rewrite Nat.add_sub.
  destruct (n / 2)%nat eqn:E; simpl; [reflexivity|].
  rewrite map_length, seq_length. lia.
Qed.

(* ------------------------------------------------------------------ circle_to_hz *)
Lemma circle_to_hz_spec twopi Fs N s : ~ twopi == 0 -> (0 < N)%nat ->
  leq (circle_to_hz twopi (map (fun k => twopi * qn k / qn N) (seq 0 (nbins N s))) Fs)
      (true_bins Fs N s).
Proof.
  intros HT HN. unfold circle_to_hz, true_bins. rewrite map_map.
  apply leq_map_seq. intros k _. unfold bin_freq. field.
  split; [apply qn_nonzero; assumption|assumption].
Qed.

(* rescaling a grid that is already in Hz (what get_spectra did before the fix) is right only
   when Fs = 2 pi *)
Lemma rescale_hz_wrong twopi Fs N : ~ twopi == 0 -> ~ Fs == 0 -> ~ Fs == twopi -> (2 <= N)%nat ->
  ~ leq (circle_to_hz twopi (true_bins Fs N OneSided) Fs) (true_bins Fs N OneSided).
Proof.
  intros HT HF HNe HN H. unfold circle_to_hz, true_bins in H. rewrite map_map in H.
  pose proof (half_pos N HN) as Hh.
  pose proof (leq_map_seq_inv _ _ _ _ H 1%nat ltac:(unfold nbins; lia)) as E.
  unfold bin_freq in E. rewrite qn_1 in E.
  assert (NZ : ~ qn N == 0) by (apply qn_nonzero; lia).
  assert (E2 : Fs * Fs == Fs * twopi).
  { setoid_replace (Fs * Fs) with ((Fs * (1 * Fs / qn N) / twopi) * (qn N * twopi)) by (field; split; assumption).
    rewrite E. field. assumption. }
  apply HNe. exact (proj1 (Qmult_inj_l _ _ Fs HF) E2).
Qed.

(* ------------------------------------------------------------------ searchsorted / get_bounds *)
Lemma Qltb_iff x y : Qltb x y = true <-> x < y.
Proof.
  unfold Qltb. rewrite negb_true_iff. split.
  - intros E. apply Qnot_le_lt. intro H. apply Qle_bool_iff in H. congruence.
  - intros H. destruct (Qle_bool y x) eqn:E; [|reflexivity].
    apply Qle_bool_iff in E. exfalso. exact (Qlt_not_le _ _ H E).
Qed.

Definition down_closed (p : Q -> bool) : Prop := forall x y, x <= y -> p y = true -> p x = true.

Lemma down_closed_lt v : down_closed (fun x => Qltb x v).
Proof. intros x y L H. apply Qltb_iff in H. apply Qltb_iff. eapply Qle_lt_trans; eassumption. Qed.
Lemma down_closed_le v : down_closed (fun x => Qle_bool x v).
Proof. intros x y L H. apply Qle_bool_iff in H. apply Qle_bool_iff. eapply Qle_trans; eassumption. Qed.

Lemma count_while_le p l : (count_while p l <= length l)%nat.
Proof. induction l; simpl; [lia|]. destruct (p a); lia. Qed.

Lemma count_while_sorted p l : down_closed p -> StronglySorted Qle l ->
  forall i x, nth_error l i = Some x -> ((i < count_while p l)%nat <-> p x = true).
Proof.
  intros Hp Hs. induction Hs as [|a t Hs IH Ha]; intros i x Hi.
  - destruct i; discriminate.
  - simpl. destruct i; simpl in Hi.
    + injection Hi as <-. destruct (p a); split; intros; try lia; try reflexivity; try discriminate.
    + destruct (p a) eqn:Pa.
      * rewrite <- (IH i x Hi). lia.
      * split; [lia|]. intros Px. exfalso.
        rewrite Forall_forall in Ha. specialize (Ha x (nth_error_In _ _ Hi)).
        rewrite (Hp a x Ha Px) in Pa. discriminate.
Qed.

Theorem get_bounds_spec f lb ub : StronglySorted Qle f ->
  forall i x, nth_error f i = Some x ->
  ((fst (get_bounds f lb ub) <= i < snd (get_bounds f lb ub))%nat <-> in_band lb ub x = true).
Proof.
  intros Hs i x Hi. unfold get_bounds, in_band; simpl fst; simpl snd.
  pose proof (count_while_sorted _ f (down_closed_lt lb) Hs i x Hi) as L.
  unfold searchsorted_left. rewrite andb_true_iff, Qle_bool_iff.
  assert (A : (count_while (fun x0 => Qltb x0 lb) f <= i)%nat <-> lb <= x).
  { split.
    - intros H. destruct (Qlt_le_dec x lb) as [Lt|Le]; [|assumption].
      apply Qltb_iff in Lt. apply L in Lt. lia.
    - intros H. destruct (le_lt_dec (count_while (fun x0 => Qltb x0 lb) f) i) as [|Lt]; [assumption|].
      apply L in Lt. apply Qltb_iff in Lt. exfalso. exact (Qlt_not_le _ _ Lt H). }
  destruct ub as [u|].
  - pose proof (count_while_sorted _ f (down_closed_le u) Hs i x Hi) as R.
    unfold searchsorted_right. rewrite <- A, <- R. tauto.
  - assert (i < length f)%nat by (apply nth_error_Some; congruence).
    rewrite <- A. split; [intros [? ?]; split; [assumption|reflexivity]|intros [? _]; split; assumption].
Qed.

(* ------------------------------------------------------------------ lists of indices *)
Lemma skipn_seq' a s n : skipn a (seq s n) = seq (s + a) (n - a).
Proof.
  revert s n; induction a; intros s n; simpl.
  - rewrite Nat.add_0_r, Nat.sub_0_r. reflexivity.
  - destruct n; simpl; [reflexivity|]. rewrite IHa. f_equal. lia.
Qed.
Lemma firstn_seq' c s n : (c <= n)%nat -> firstn c (seq s n) = seq s c.
Proof.
  revert s n; induction c; intros s n H; simpl; [reflexivity|].
  destruct n; [lia|]. simpl. f_equal. apply IHc. lia.
Qed.
Lemma slice_map_seq (g : nat -> Q) m a b : (b <= m)%nat ->
  slice (map g (seq 0 m)) a b = map g (seq a (b - a)).
Proof.
  intros H. unfold slice. rewrite skipn_map, firstn_map, skipn_seq', firstn_seq' by lia.
  reflexivity.
Qed.

Lemma sorted_seq a n : StronglySorted lt (seq a n).
Proof.
  revert a; induction n; intros a; simpl; constructor; [apply IHn|].
  apply Forall_forall. intros x Hx. apply in_seq in Hx. lia.
Qed.
Lemma sorted_filter (p : nat -> bool) l : StronglySorted lt l -> StronglySorted lt (filter p l).
Proof.
  induction 1 as [|a t Ht IH Ha]; simpl; [constructor|].
  destruct (p a); [|assumption]. constructor; [assumption|].
  rewrite Forall_forall in *. intros x Hx. apply filter_In in Hx as [Hx _]. auto.
Qed.
Lemma sorted_lt_ext (l1 l2 : list nat) :
  StronglySorted lt l1 -> StronglySorted lt l2 -> (forall x, In x l1 <-> In x l2) -> l1 = l2.
Proof.
  intros H1; revert l2; induction H1 as [|a t Ht IH Ha]; intros l2 H2 Hin.
  - destruct l2 as [|n l2]; [reflexivity|]. exfalso. apply (Hin n). left; reflexivity.
  - destruct H2 as [|b u Hu Hb].
    + exfalso. apply (proj1 (Hin a)). left; reflexivity.
    + rewrite Forall_forall in Ha, Hb.
      assert (E : a = b).
      { assert (I1 : In a (b :: u)) by (apply Hin; left; reflexivity).
        assert (I2 : In b (a :: t)) by (apply Hin; left; reflexivity).
        destruct I1 as [->|I1]; [reflexivity|]. destruct I2 as [->|I2]; [reflexivity|].
        specialize (Ha b I2). specialize (Hb a I1). lia. }
      subst b. f_equal. apply IH; [assumption|]. intros x. split; intros Hx.
      * assert (I : In x (a :: u)) by (apply Hin; right; assumption).
        destruct I as [<-|I]; [|assumption]. specialize (Ha a Hx). lia.
      * assert (I : In x (a :: t)) by (apply Hin; right; assumption).
        destruct I as [<-|I]; [|assumption]. specialize (Hb a Hx). lia.
Qed.

Lemma sorted_map_seq (g : nat -> Q) a n :
  (forall i j, (i <= j)%nat -> g i <= g j) -> StronglySorted Qle (map g (seq a n)).
Proof.
  revert a; induction n; intros a H; simpl; constructor; [apply IHn; assumption|].
  apply Forall_forall. intros x Hx. apply in_map_iff in Hx as [j [<- Hj]].
  apply in_seq in Hj. apply H; lia.
Qed.

Lemma in_band_compat lb ub x y : x == y -> in_band lb ub x = in_band lb ub y.
Proof. intros E. unfold in_band. rewrite E. destruct ub; [rewrite E|]; reflexivity. Qed.

(* ------------------------------------------------------------------ band selection *)
Definition gf (Fs : Q) (n k : nat) : Q := 0 + qn k * ((Fs / 2 - 0) / qn (n / 2)).

Lemma gf_mono Fs n : 0 <= Fs -> (2 <= n)%nat -> forall i j, (i <= j)%nat -> gf Fs n i <= gf Fs n j.
Proof.
  intros HF Hn i j L. unfold gf. apply Qplus_le_r. apply Qmult_le_compat_r; [apply qn_le; assumption|].
  apply Qle_shift_div_l; [apply qn_pos, half_pos; assumption|].
  rewrite Qmult_0_l. unfold Qminus. rewrite Qplus_0_r.
  apply Qle_shift_div_l; [reflexivity|]. rewrite Qmult_0_l. assumption.
Qed.

Lemma gf_even Fs n k : (2 <= n)%nat -> Nat.even n = true -> gf Fs n k == bin_freq Fs n k.
Proof.
  intros Hn E. unfold gf. rewrite get_freqs_entry by assumption. unfold bin_freq.
  apply even_half in E.
  assert (Q2 : qn n == 2 * qn (n / 2)) by (rewrite E at 1; apply qn_double).
  rewrite Q2. reflexivity.
Qed.

Lemma even_ge2 n : (0 < n)%nat -> Nat.even n = true -> (2 <= n)%nat.
Proof. intros H E. destruct n as [|[|n]]; [lia|discriminate|lia]. Qed.

Theorem band_bins_even Fs NFFT lb ub : 0 <= Fs -> (0 < NFFT)%nat -> Nat.even NFFT = true ->
  cache_fft_bins Fs NFFT lb ub = true_band_bins Fs NFFT lb ub.
Proof.
  intros HF HN E. pose proof (even_ge2 _ HN E) as H2.
  unfold cache_fft_bins, true_band_bins.
  destruct (get_bounds (get_freqs Fs NFFT) lb ub) as [a b] eqn:GB.
  apply sorted_lt_ext; [apply sorted_seq|apply sorted_filter, sorted_seq|].
  assert (Hs : StronglySorted Qle (get_freqs Fs NFFT)).
  { rewrite get_freqs_eq by assumption. apply (sorted_map_seq (gf Fs NFFT)). apply gf_mono; assumption. }
  assert (Hb : (b <= NFFT / 2 + 1)%nat).
  { replace b with (snd (get_bounds (get_freqs Fs NFFT) lb ub)) by (rewrite GB; reflexivity).
    unfold get_bounds; simpl snd. rewrite <- (get_freqs_length Fs NFFT).
    destruct ub; [apply count_while_le|lia]. }
  assert (Hnth : forall k, (k < NFFT / 2 + 1)%nat -> nth_error (get_freqs Fs NFFT) k = Some (gf Fs NFFT k)).
  { intros k Hk. rewrite get_freqs_eq by assumption. fold (gf Fs NFFT).
    rewrite nth_error_map. rewrite (nth_error_nth' _ 0%nat) by (rewrite seq_length; assumption).
    rewrite seq_nth by assumption. reflexivity. }
  intros k. rewrite in_seq, filter_In, in_seq.
  split.
  - intros Hk. assert (Hkm : (k < NFFT / 2 + 1)%nat) by lia.
    split; [lia|]. rewrite <- (in_band_compat _ _ _ _ (gf_even Fs NFFT k H2 E)).
    apply (get_bounds_spec _ lb ub Hs k _ (Hnth k Hkm)). rewrite GB; simpl. lia.
  - intros [Hkm Hin]. assert (Hkm' : (k < NFFT / 2 + 1)%nat) by lia.
    rewrite <- (in_band_compat _ _ _ _ (gf_even Fs NFFT k H2 E)) in Hin.
    apply (get_bounds_spec _ lb ub Hs k _ (Hnth k Hkm')) in Hin. rewrite GB in Hin; simpl in Hin. lia.
Qed.

Theorem band_freqs_even Fs NFFT lb ub : 0 <= Fs -> (0 < NFFT)%nat -> Nat.even NFFT = true ->
  leq (band_freqs Fs NFFT lb ub) (true_band_freqs Fs NFFT lb ub).
Proof.
  intros HF HN E. pose proof (even_ge2 _ HN E) as H2.
  unfold true_band_freqs. rewrite <- (band_bins_even Fs NFFT lb ub HF HN E).
  unfold band_freqs, cache_fft_bins.
  destruct (get_bounds (get_freqs Fs NFFT) lb ub) as [a b] eqn:GB.
  assert (Hb : (b <= NFFT / 2 + 1)%nat).
  { replace b with (snd (get_bounds (get_freqs Fs NFFT) lb ub)) by (rewrite GB; reflexivity).
    unfold get_bounds; simpl snd. rewrite <- (get_freqs_length Fs NFFT).
    destruct ub; [apply count_while_le|lia]. }
  rewrite get_freqs_eq by assumption. fold (gf Fs NFFT).
  rewrite slice_map_seq by assumption.
  apply leq_map_seq. intros k _. apply gf_even; assumption.
Qed.

(* the whole band: nothing is dropped *)
Lemma filter_all {A} (p : A -> bool) l : (forall x, In x l -> p x = true) -> filter p l = l.
Proof.
  induction l; simpl; intros H; [reflexivity|].
  rewrite (H a (or_introl eq_refl)). f_equal. apply IHl. intros x Hx. apply H. right; assumption.
Qed.

Lemma full_band_all Fs NFFT lb ub : 0 < Fs -> (0 < NFFT)%nat ->
  lb <= 0 -> match ub with None => True | Some u => Fs / 2 <= u end ->
  true_band_freqs Fs NFFT lb ub = true_bins Fs NFFT OneSided.
Proof.
  intros HF HN Hl Hu. unfold true_band_freqs, true_band_bins, true_bins, nbins.
  rewrite filter_all; [reflexivity|].
  intros k Hk. unfold in_band.
  assert (I : In (bin_freq Fs NFFT k) (true_bins Fs NFFT OneSided)).
  { unfold true_bins, nbins. apply in_map. assumption. }
  apply (true_bins_range Fs NFFT OneSided _ HF HN) in I as [I0 I1].
  apply andb_true_intro; split.
  - apply Qle_bool_iff. eapply Qle_trans; eassumption.
  - destruct ub; [|reflexivity]. apply Qle_bool_iff. eapply Qle_trans; eassumption.
Qed.

(* ------------------------------------------------------------------ the repaired defects *)
(* periodogram_csd two-sided before the fix: linspace(0, Fs/2, N, endpoint=False) *)
Lemma old_pcsd_twosided_wrong Fs N : ~ Fs == 0 -> (2 <= N)%nat ->
  ~ leq (old_pcsd_freqs Fs N TwoSided) (true_bins Fs N TwoSided).
Proof.
  intros HF HN H. unfold old_pcsd_freqs in H. rewrite linspace_open in H by lia.
  unfold true_bins, nbins in H.
  pose proof (leq_map_seq_inv _ _ _ _ H 1%nat ltac:(lia)) as E. unfold bin_freq in E.
  rewrite qn_1 in E.
  assert (NZ : ~ qn N == 0) by (apply qn_nonzero; lia).
  assert (E2 : Fs * 1 == Fs * 2).
  { setoid_replace (Fs * 1) with ((0 + 1 * ((Fs / 2 - 0) / qn N)) * (2 * qn N)) by (field; assumption).
    rewrite E. field. assumption. }
  apply (proj1 (Qmult_inj_l _ _ Fs HF)) in E2. discriminate E2.
Qed.

(* one-sided grids linspace(0, Fs/2, N//2+1) of the old periodogram_csd and multi_taper_psd, multi_taper_csd *)
Lemma old_pcsd_onesided_is_get_freqs Fs N : old_pcsd_freqs Fs N OneSided = get_freqs Fs N.
Proof. reflexivity. Qed.
Lemma old_mt_onesided_is_get_freqs Fs N : old_mt_freqs Fs N OneSided = get_freqs Fs N.
Proof. reflexivity. Qed.

(* ------------------------------------------------------------------ Granger *)
Theorem granger_axis_wrong pi Fs n : ~ pi == 0 -> ~ Fs == 0 -> (2 <= n)%nat ->
  ~ leq (granger_reported Fs n) (granger_true pi Fs n).
Proof.
  intros HP HF Hn H. unfold granger_reported, granger_true, freqz_grid, circle_to_hz in H.
  rewrite get_freqs_eq in H by assumption.
  rewrite linspace_open in H by lia. rewrite map_map in H.
  pose proof (half_pos n Hn) as Hh.
  pose proof (leq_map_seq_inv _ _ _ _ H 1%nat ltac:(lia)) as E. cbv beta in E. rewrite qn_1 in E.
  assert (NZ : ~ qn (n / 2) == 0) by (apply qn_nonzero; assumption).
  assert (NZ1 : ~ qn (n / 2 + 1) == 0) by (apply qn_nonzero; lia).
  assert (E2 : Fs * qn (n / 2 + 1) == Fs * qn (n / 2)).
  { setoid_replace (Fs * qn (n / 2 + 1))
      with ((0 + 1 * ((Fs / 2 - 0) / qn (n / 2))) * (2 * qn (n / 2) * qn (n / 2 + 1))) by (field; assumption).
    rewrite E. field. split; assumption. }
  apply (proj1 (Qmult_inj_l _ _ Fs HF)) in E2.
  unfold qn in E2. apply (proj1 (inject_Z_injective _ _)) in E2. lia.
Qed.

(* ------------------------------------------------------------------ spectrum_fourier, complex data *)
Theorem fourier_complex_wrong Fs m : ~ Fs == 0 -> (1 <= m)%nat ->
  ~ leq (fourier_complex_freqs Fs (m + 1)) (true_shifted_bins Fs (m + 1)).
Proof.
  intros HF Hm H. unfold fourier_complex_freqs, true_shifted_bins in H.
  rewrite linspace_closed in H by lia.
  pose proof (leq_map_seq_inv _ _ _ _ H m ltac:(lia)) as E. cbv beta in E.
  assert (NZm : ~ qn m == 0) by (apply qn_nonzero; lia).
  assert (NZ1 : ~ qn (m + 1) == 0) by (apply qn_nonzero; lia).
  assert (E2 : Fs * qn (m + 1) == Fs * (2 * (qn m - qn ((m + 1) / 2)))).
  { setoid_replace (Fs * qn (m + 1))
      with ((- (Fs / 2) + qn m * ((Fs / 2 - - (Fs / 2)) / qn m)) * (2 * qn (m + 1))) by (field; assumption).
    rewrite E. field. assumption. }
  apply (proj1 (Qmult_inj_l _ _ Fs HF)) in E2.
  pose proof (Nat.div_mod (m + 1) 2 ltac:(lia)) as D.
  pose proof (Nat.mod_upper_bound (m + 1) 2 ltac:(lia)) as B.
  remember ((m + 1) / 2)%nat as h. remember ((m + 1) mod 2)%nat as r.
  assert (E3 : qn (m + 1) + 2 * qn h == 2 * qn m) by (rewrite E2; ring).
  unfold qn in E3. change 2 with (inject_Z 2) in E3.
  rewrite <- !inject_Z_mult, <- inject_Z_plus in E3.
  apply (proj1 (inject_Z_injective _ _)) in E3. lia.
Qed.

(* ------------------------------------------------------------------ Fs of a series *)
Lemma factor_nonzero u : ~ inject_Z (factor u) == 0.
Proof. destruct u; unfold Qeq; simpl; lia. Qed.

Lemma fs_is_hz d u : ~ d == 0 ->
  fs_of_interval d u == inject_Z (factor Us) / (d * inject_Z (factor u)).
Proof.
  intros Hd. unfold fs_of_interval. field. split; [apply factor_nonzero|assumption].
Qed.

Theorem fs_unit_free d1 u1 d2 u2 : ~ d1 == 0 -> ~ d2 == 0 ->
  d1 * inject_Z (factor u1) == d2 * inject_Z (factor u2) ->
  fs_of_interval d1 u1 == fs_of_interval d2 u2.
Proof.
  intros H1 H2 E. rewrite !fs_is_hz by assumption. rewrite E. reflexivity.
Qed.

Lemma fs_of_rate_id r u : fs_of_rate r u == r.
Proof. unfold fs_of_rate. field. apply factor_nonzero. Qed.

(* ------------------------------------------------------------------ a shared method dict *)
Lemma shared_dict_some f rates : shared_dict_fs (Some f) rates = map (fun _ => f) rates.
Proof. induction rates; simpl; [reflexivity|]. f_equal. assumption. Qed.

Lemma shared_dict_first r t : shared_dict_fs None (r :: t) = map (fun _ => r) (r :: t).
Proof. simpl. f_equal. apply shared_dict_some. Qed.

(* each analyzer uses its own rate when the dict is not shared, or all rates agree *)
Lemma shared_dict_single r : shared_dict_fs None [r] = [r].
Proof. reflexivity. Qed.
Lemma map_const_id (r : Q) l : (forall x, In x l -> x = r) -> map (fun _ => r) l = l.
Proof.
  induction l; simpl; intros H; [reflexivity|].
  f_equal; [symmetry; apply H; left; reflexivity|].
  apply IHl. intros x Hx. apply H. right; assumption.
Qed.
Lemma shared_dict_same_rate r rates : (forall x, In x rates -> x = r) ->
  shared_dict_fs None rates = rates.
Proof.
  intros H. destruct rates as [|a t]; [reflexivity|].
  rewrite shared_dict_first. assert (a = r) by (apply H; left; reflexivity). subst a.
  apply map_const_id. assumption.
Qed.
Lemma w_shared_dict : shared_dict_fs None [10; 2] = [10; 10].
Proof. reflexivity. Qed.

(* ------------------------------------------------------------------ the table *)
Definition lib_contract (e : env) : Prop :=
  leq (eLib e) (true_bins (eff_Fs e) (eNFFT e) (eSides e)).

Theorem site_ok s e :
  site_good s e = true -> 0 < eff_Fs e -> (0 < eN e)%nat -> (0 < eNFFT e)%nat -> lib_contract e ->
  leq (site_freqs s e) (site_true s e).
Proof.
  intros G HF HN HNF HL.
  pose proof (mt_nfft_ge (eN e) (eNFFT e)) as [M1 M2].
  assert (HF0 : 0 <= eff_Fs e) by (apply Qlt_le_weak; assumption).
  destruct s; simpl in *; try discriminate;
    try (apply periodogram_freqs_ok; assumption);
    try (apply pcsd_freqs_ok; assumption);
    try (apply mt_freqs_ok; lia);
    try exact HL;
    try (apply rfft_grid_ok; assumption);
    try (apply band_freqs_even; assumption);
    try (apply get_freqs_even_ok; assumption).
  (* cache_fft, whole band, even NFFT *)
  apply andb_prop in G as [G1 G2]. unfold full_band in G2. apply andb_prop in G2 as [G2 G3].
  apply Qle_bool_iff in G2.
  rewrite full_band_all; [apply get_freqs_even_ok; assumption|assumption|assumption|assumption|].
  destruct (eUb e); [apply Qle_bool_iff; assumption|exact I].
Qed.

(* ------------------------------------------------------------------ filtered_fourier bin selection *)
Lemma last_map_seq (g : nat -> Q) h d : last (map g (seq 0 (h + 1))) d = g h.
Proof.
  rewrite Nat.add_1_r, seq_S, map_app. simpl. apply last_last.
Qed.

Lemma negb_Qltb x y : negb (Qltb x y) = Qle_bool y x.
Proof. unfold Qltb. apply negb_involutive. Qed.

Theorem ff_keep_even Fs n lb ub : 0 <= Fs -> (0 < n)%nat -> Nat.even n = true ->
  ff_keep Fs n lb ub = true_ff_keep Fs n lb ub.
Proof.
  intros HF HN E. pose proof (even_ge2 _ HN E) as H2.
  unfold ff_keep, true_ff_keep. rewrite get_freqs_length.
  apply filter_ext_in. intros k Hk. apply in_seq in Hk.
  destruct (k =? 0)%nat eqn:K0; [reflexivity|]. simpl.
  rewrite get_freqs_eq by assumption. fold (gf Fs n).
  assert (Hn : nth k (map (gf Fs n) (seq 0 (n / 2 + 1))) 0 = gf Fs n k).
  { rewrite (nth_indep _ 0 (gf Fs n 0%nat)) by (rewrite map_length, seq_length; lia).
    rewrite map_nth. rewrite seq_nth by lia. reflexivity. }
  rewrite Hn, negb_orb, !negb_Qltb. unfold in_band.
  rewrite (Qleb_comp _ _ (Qeq_refl lb) _ _ (gf_even Fs n k H2 E)).
  f_equal. destruct ub as [u|].
  - apply Qleb_comp; [apply gf_even; assumption|reflexivity].
  - rewrite last_map_seq. apply Qle_bool_iff. apply gf_mono; [assumption|assumption|lia].
Qed.

(* ------------------------------------------------------------------ witnesses (computed) *)
Lemma w_band_odd :
  cache_fft_bins 2 9 (23 # 100) (Some (6 # 10)) = [1; 2]%nat /\
  true_band_bins 2 9 (23 # 100) (Some (6 # 10)) = [2]%nat.
Proof. vm_compute. split; reflexivity. Qed.

Lemma w_band_freqs_odd :
  leqb (band_freqs 2 9 (23 # 100) (Some (6 # 10))) (true_band_freqs 2 9 (23 # 100) (Some (6 # 10))) = false.
Proof. vm_compute. reflexivity. Qed.

Lemma w_cache_grid :
  length (cache_fft_freqs 1 16) = 9%nat /\ cache_fft_bins 1 16 (1 # 10) (Some (3 # 10)) = [2; 3; 4]%nat.
Proof. vm_compute. split; reflexivity. Qed.

Lemma w_cache_grid_leqb :
  leqb (cache_fft_freqs 1 16) (true_band_freqs 1 16 (1 # 10) (Some (3 # 10))) = false.
Proof. vm_compute. reflexivity. Qed.

Lemma w_fourier_complex_even : leqb (fourier_complex_freqs 10 4) (true_shifted_bins 10 4) = false.
Proof. vm_compute. reflexivity. Qed.
Lemma w_fourier_complex_odd : leqb (fourier_complex_freqs 10 5) (true_shifted_bins 10 5) = false.
Proof. vm_compute. reflexivity. Qed.

Lemma w_ff_keep_odd :
  ff_keep 2 9 (23 # 100) (Some (6 # 10)) = [0; 1; 2]%nat /\
  true_ff_keep 2 9 (23 # 100) (Some (6 # 10)) = [0; 2]%nat.
Proof. vm_compute. split; reflexivity. Qed.
