(* Proofs/EventRelatedDesign.v — the design matrix applied to a stacked response vector (C19). *)
From Coq Require Import ZArith QArith List Bool Arith Lia Sorted Setoid Morphisms Psatz.
From NT Require Import EventRelated EventRelatedBase.
Import ListNotations.
Open Scope Z_scope.

(* matrix (function form) times vector, row r *)
Definition mv (X : mat) (cols : nat) (h : Z -> Q) (r : Z) : Q :=
  qsumf (fun c => inject_Z (X r c) * h c)%Q (zrange cols).

(* the stacked vector of responses: block b (code types[b]) holds resp (types[b]) 0..len-1 *)
Definition hvec (types : list Z) (len : Z) (resp : Z -> Z -> Q) (c : Z) : Q :=
  resp (getZ types (c / len)) (c mod len).

Definition signed (resp : Z -> Z -> Q) : Z -> Z -> Q := fun c k => (inject_Z (Z.sgn c) * resp c k)%Q.

Definition rowhit (a len r : Z) : bool := (a <=? r) && (r <? a + len).

Lemma mv_mzero cols h r : (mv mzero cols h r == 0)%Q.
Proof. unfold mv. apply qsumf_zero. intros; unfold mzero; simpl; ring. Qed.

Lemma mv_add_eye M r0 c0 len s cols h r :
  0 <= c0 -> c0 + len <= Z.of_nat cols ->
  (mv (add_eye M r0 c0 len s) cols h r ==
   mv M cols h r + (if rowhit r0 len r then inject_Z s * h (c0 + (r - r0))%Z else 0))%Q.
Proof.
  intros Hc0 Hc1. unfold mv, add_eye.
  rewrite (qsumf_ext _ (fun c => inject_Z (M r c) * h c +
                                 inject_Z (if in_block r0 c0 len r c then s else 0) * h c)%Q)
    by (intros; rewrite inject_Z_plus; ring).
  rewrite qsumf_plus. apply Qplus_comp; [reflexivity|].
  unfold rowhit, in_block.
  destruct ((r0 <=? r) && (r <? r0 + len)) eqn:E.
  - apply andb_prop in E as [E1 E2]. apply Z.leb_le in E1. apply Z.ltb_lt in E2.
    rewrite (qsumf_single _ _ (c0 + (r - r0))).
    + replace (c0 <=? c0 + (r - r0)) with true by (symmetry; apply Z.leb_le; lia).
      replace (c0 + (r - r0) <? c0 + len) with true by (symmetry; apply Z.ltb_lt; lia).
      replace (r - r0 =? c0 + (r - r0) - c0) with true by (symmetry; apply Z.eqb_eq; lia).
      simpl. reflexivity.
    + apply zrange_NoDup.
    + apply zrange_In. lia.
    + intros c _ Hne. simpl.
      destruct ((c0 <=? c) && (c <? c0 + len) && (r - r0 =? c - c0)) eqn:E3.
      * apply andb_prop in E3 as [E3 E4]. apply andb_prop in E3 as [E3 E5].
        apply Z.eqb_eq in E4. lia.
      * simpl. ring.
  - apply qsumf_zero. intros c _. simpl. ring.
Qed.

Lemma mv_fold_positions (l : list Z) : forall M c0 len s cols h r,
  0 <= c0 -> c0 + len <= Z.of_nat cols ->
  (mv (fold_left (fun M a => add_eye M a c0 len s) l M) cols h r ==
   mv M cols h r + qsumf (fun a => if rowhit a len r then inject_Z s * h (c0 + (r - a))%Z else 0) l)%Q.
Proof.
  induction l as [|a l IH]; intros M c0 len s cols h r H0 H1.
  - simpl. rewrite qsumf_nil. ring.
  - simpl fold_left. rewrite IH by assumption. rewrite mv_add_eye by assumption. rewrite qsumf_cons. ring.
Qed.

Lemma mv_fold_types ev len (T : list Z) cols h r (l : list Z) : forall M,
  0 <= len -> (forall t, In t l -> In t T) -> zlen T * len <= Z.of_nat cols ->
  (mv (fold_left (design_type ev len T) l M) cols h r ==
   mv M cols h r +
   qsumf (fun t => qsumf (fun a => if rowhit a len r
                                   then inject_Z (Z.sgn t) * h (index_of t T * len + (r - a))%Z else 0)
                         (positions ev t)) l)%Q.
Proof.
  induction l as [|t l IH]; intros M Hlen Hsub Hcols.
  - simpl. rewrite qsumf_nil. ring.
  - simpl fold_left. rewrite IH; auto; [|intros; apply Hsub; right; assumption].
    unfold design_type at 1. destruct (index_of_In t T (Hsub t (or_introl eq_refl))) as [[I0 I1] _].
    rewrite mv_fold_positions by nia. rewrite qsumf_cons. ring.
Qed.

Lemma hvec_block types len resp b k :
  0 <= k < len -> hvec types len resp (b * len + k) = resp (getZ types b) k.
Proof.
  intros H. unfold hvec. f_equal.
  - f_equal. rewrite Z.add_comm, Z.div_add by lia. rewrite Z.div_small by lia. lia.
  - rewrite Z.add_comm, Z.mod_add by lia. apply Z.mod_small; lia.
Qed.

(* the sum over the sorted codes and, inside, over the occurrences of that code is the sum over
   all time bins holding a non-zero code *)
Lemma sum_by_type ev (g : Z -> Z -> Q) :
  (qsumf (fun t => qsumf (fun a => g t a) (positions ev t)) (event_types ev) ==
   qsumf (fun a => if getZ ev a =? 0 then 0 else g (getZ ev a) a) (zrange (length ev)))%Q.
Proof.
  unfold positions.
  rewrite (qsumf_ext _ (fun t => qsumf (fun a => if getZ ev a =? t then g t a else 0%Q) (zrange (length ev))))
    by (intros; apply qsumf_filter).
  rewrite qsumf_swap. apply qsumf_ext. intros a Ha. apply zrange_In in Ha.
  destruct (getZ ev a =? 0) eqn:E.
  - apply Z.eqb_eq in E. apply qsumf_zero. intros t Ht. apply event_types_In in Ht.
    destruct (getZ ev a =? t) eqn:E2; [apply Z.eqb_eq in E2; lia|reflexivity].
  - apply Z.eqb_neq in E.
    rewrite (qsumf_single _ _ (getZ ev a)).
    + rewrite Z.eqb_refl. reflexivity.
    + apply event_types_NoDup.
    + apply event_types_In. split; [apply getZ_In; unfold zlen; lia|exact E].
    + intros t _ Hne. destruct (getZ ev a =? t) eqn:E2; [apply Z.eqb_eq in E2; congruence|reflexivity].
Qed.

(* X . h at row r, for every sign pattern of the codes *)
Theorem design_apply_signed ev len resp r :
  (0 < len)%nat ->
  (mv (design ev len) (design_cols ev len) (hvec (event_types ev) (Z.of_nat len) resp) r ==
   synth_at (signed resp) ev len 0 r)%Q.
Proof.
  intros Hlen. unfold design, design_cols.
  rewrite mv_fold_types; [| lia | auto | unfold zlen; lia].
  rewrite mv_mzero, Qplus_0_l.
  rewrite (sum_by_type ev (fun t a => if rowhit a (Z.of_nat len) r
     then inject_Z (Z.sgn t) * hvec (event_types ev) (Z.of_nat len) resp (index_of t (event_types ev) * Z.of_nat len + (r - a))%Z
     else 0)%Q).
  unfold synth_at. apply qsumf_ext. intros a Ha. apply zrange_In in Ha.
  unfold placed, rowhit, signed.
  replace (a + 0) with a by lia.
  destruct (getZ ev a =? 0) eqn:E; simpl; [reflexivity|].
  destruct ((a <=? r) && (r <? a + Z.of_nat len)) eqn:E2; [|reflexivity].
  apply andb_prop in E2 as [E3 E4]. apply Z.leb_le in E3. apply Z.ltb_lt in E4.
  apply Z.eqb_neq in E.
  assert (Hin : In (getZ ev a) (event_types ev)).
  { apply event_types_In. split; [apply getZ_In; unfold zlen; lia|exact E]. }
  destruct (index_of_In _ _ Hin) as [_ Hget].
  rewrite hvec_block by lia. rewrite Hget. replace (r - a - 0) with (r - a) by lia. reflexivity.
Qed.

(* positive codes: X . h is the sum of the responses placed at the event onsets *)
Theorem design_apply ev len resp r :
  (0 < len)%nat -> (forall c, In c ev -> 0 <= c) ->
  (mv (design ev len) (design_cols ev len) (hvec (event_types ev) (Z.of_nat len) resp) r ==
   synth_at resp ev len 0 r)%Q.
Proof.
  intros Hlen Hpos. rewrite design_apply_signed by assumption.
  unfold synth_at. apply qsumf_ext. intros a Ha. apply zrange_In in Ha.
  unfold placed, signed. destruct (getZ ev a =? 0) eqn:E; simpl; [reflexivity|].
  destruct ((a + 0 <=? r) && (r <? a + 0 + Z.of_nat len)); [|reflexivity].
  apply Z.eqb_neq in E. assert (0 <= getZ ev a) by (apply Hpos, getZ_In; unfold zlen; lia).
  replace (Z.sgn (getZ ev a)) with 1 by (symmetry; apply Z.sgn_pos; lia). ring.
Qed.
