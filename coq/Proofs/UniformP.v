(* Proofs/UniformP.v — lemmas about Model/Uniform.v (property C02). *)
From Coq Require Import ZArith List Bool PrimFloat Lia.
From NT Require Import F2Z TimeArray TimeArrayP Uniform.
Import ListNotations.
Open Scope Z_scope.

(* ---------------------------------------------------------------- small facts *)
Lemma tbind_ok {A B} (x : tres A) (f : A -> tres B) b :
  tbind x f = TOk b -> exists a, x = TOk a /\ f a = TOk b.
Proof. destruct x; simpl; try discriminate. intros H. eauto. Qed.

Lemma scope62_ok z p : scope62 z = TOk p -> p = z /\ in62 z = true.
Proof. unfold scope62. destruct (in62 z) eqn:E; [|discriminate]. intros H; inversion H; auto. Qed.

Lemma cdivz_spec a b : 0 < b -> (cdivz a b - 1) * b < a <= cdivz a b * b.
Proof.
  intros Hb. unfold cdivz.
  pose proof (Z.div_mod (- a) b ltac:(lia)) as E.
  pose proof (Z.mod_pos_bound (- a) b Hb) as B. nia.
Qed.

Lemma cdivz_mul n b : 0 < b -> cdivz (n * b) b = n.
Proof.
  intros Hb. unfold cdivz. replace (- (n * b)) with ((- n) * b) by ring.
  rewrite Z.div_mul by lia. lia.
Qed.

(* i < ceil(a/b)  <->  i*b < a : the samples are exactly the multiples that fit before the duration *)
Lemma cdivz_fits a b i : 0 < b -> (i < cdivz a b <-> i * b < a).
Proof. intros Hb. pose proof (cdivz_spec a b Hb). split; intros H0; nia. Qed.

Lemma arange_len_ok span step n :
  arange_len span step = TOk n -> step <> 0 /\ n = Z.max 0 (cdivz span step) /\ 0 <= n <= 10000000.
Proof.
  unfold arange_len. destruct (step =? 0) eqn:E; [discriminate|]. apply Z.eqb_neq in E.
  destruct (Z.max 0 (cdivz span step) <=? 10000000) eqn:L; [|discriminate].
  apply Z.leb_le in L. intros H; inversion H; subst. split; [exact E|]. split; [reflexivity|lia].
Qed.

Lemma to_ps_in62 u v p : to_ps u v = TOk p -> in62 p = true.
Proof.
  destruct v as [z|f|ps u'|f]; simpl.
  - intros H. apply scope62_ok in H as [-> H]. exact H.
  - destruct (ctor_float1 (factor u) f); [|discriminate]. intros H. apply scope62_ok in H as [-> H]. exact H.
  - intros H. apply scope62_ok in H as [-> H]. exact H.
  - destruct (ctor_float1 (factor u) f); [|discriminate]. intros H. apply scope62_ok in H as [-> H]. exact H.
Qed.

Lemma to_ps_int u z p : to_ps u (VInt z) = TOk p -> p = z * factor u.
Proof. simpl. intros H. apply scope62_ok in H as [-> _]. reflexivity. Qed.

Lemma to_ps_time u ps u' p : to_ps u (VTime ps u') = TOk p -> p = ps.
Proof. simpl. intros H. apply scope62_ok in H as [-> _]. reflexivity. Qed.

(* a float argument is stored as a nearest integer to the 64-bit product with the unit (C01) *)
Lemma to_ps_float u f p :
  to_ps u (VFlt f) = TOk p ->
  exists m e, f2ze (PrimFloat.mul f (z2f (factor u))) = Some (m, e) /\ nearest p m e.
Proof.
  simpl. destruct (ctor_float1 (factor u) f) as [q|] eqn:E; [|discriminate].
  intros H. apply scope62_ok in H as [-> _]. apply ctor_float1_nearest in E. exact E.
Qed.

(* ---------------------------------------------------------------- the laid-out axis *)
Definition wellformed (ax : axis) : Prop :=
  ax_dt ax <> 0 /\ ax_n ax = Z.max 0 (cdivz (ax_dur ax) (ax_dt ax)) /\ 0 <= ax_n ax <= 10000000 /\
  in62 (ax_t0 ax) = true /\ in62 (ax_dt ax) = true /\ in62 (ax_dur ax) = true.

Lemma lay_out_inv u si rate dur len t0v ax :
  lay_out u si rate dur len t0v = TOk ax ->
  exists dt du t0 n,
    to_ps u si = TOk dt /\
    match dur, len with
    | Some d, _ => to_ps u d = TOk du
    | None, Some l => du = l * dt /\ in62 (l * dt) = true
    | None, None => False
    end /\
    to_ps u t0v = TOk t0 /\ arange_len du dt = TOk n /\
    ax = mk_axis n t0 dt du (freq_new rate Us) u.
Proof.
  unfold lay_out. intros H.
  apply tbind_ok in H as (dt & Hdt & H).
  apply tbind_ok in H as (du & Hdu & H).
  apply tbind_ok in H as (t0 & Ht0 & H).
  apply tbind_ok in H as (n & Hn & H).
  inversion H; subst ax; clear H.
  exists dt, du, t0, n. split; [exact Hdt|]. split.
  - destruct dur as [d|]; [exact Hdu|]. destruct len as [l|]; [|discriminate].
    apply scope62_ok in Hdu as [-> Hs]. split; [reflexivity|exact Hs].
  - repeat split; assumption.
Qed.

Theorem lay_out_wellformed u si rate dur len t0v ax :
  lay_out u si rate dur len t0v = TOk ax -> wellformed ax /\ ax_unit ax = u.
Proof.
  intros H. apply lay_out_inv in H as (dt & du & t0 & n & Hdt & Hdu & Ht0 & Hn & ->).
  apply arange_len_ok in Hn as (Hs & Hn & Hb). unfold wellformed; simpl.
  split; [|reflexivity]. split; [exact Hs|]. split; [exact Hn|]. split; [exact Hb|].
  split; [exact (to_ps_in62 _ _ _ Ht0)|]. split; [exact (to_ps_in62 _ _ _ Hdt)|].
  destruct dur as [d|]; [exact (to_ps_in62 _ _ _ Hdu)|].
  destruct len as [l|]; [|contradiction]. destruct Hdu as [-> Hi]. exact Hi.
Qed.

(* a length and no duration: exactly `length` samples, duration = length * interval *)
Theorem lay_out_length u si rate l t0v ax :
  lay_out u si rate None (Some l) t0v = TOk ax -> 0 < ax_dt ax -> 0 <= l ->
  ax_n ax = l /\ ax_dur ax = l * ax_dt ax.
Proof.
  intros H Hp Hl. apply lay_out_inv in H as (dt & du & t0 & n & Hdt & [-> Hi] & Ht0 & Hn & ->).
  simpl in *. apply arange_len_ok in Hn as (_ & -> & _). rewrite cdivz_mul by exact Hp. split; lia.
Qed.

(* a duration: exactly the multiples of the interval that fit before it *)
Theorem lay_out_fits u si rate dur len t0v ax :
  lay_out u si rate dur len t0v = TOk ax -> 0 < ax_dt ax ->
  forall i, 0 <= i -> (i < ax_n ax <-> i * ax_dt ax < ax_dur ax).
Proof.
  intros H Hp i Hi. apply lay_out_wellformed in H as [(_ & Hn & _) _]. rewrite Hn.
  pose proof (cdivz_fits (ax_dur ax) (ax_dt ax) i Hp). lia.
Qed.

(* the samples: t0 + i*dt, no wrap-around inside the quantifier (|t0| , extent < 2^62) *)
Theorem sample_exact ax i :
  - 2 ^ 63 <= ax_t0 ax + i * ax_dt ax < 2 ^ 63 -> ax_sample ax i = ax_t0 ax + i * ax_dt ax.
Proof. intros H. unfold ax_sample. apply wrap64_id. exact H. Qed.

Lemma in62_bounds z : in62 z = true -> - 2 ^ 62 < z < 2 ^ 62.
Proof. apply in62_spec. Qed.

Theorem samples_in_range ax i :
  wellformed ax -> 0 < ax_dt ax -> 0 <= i < ax_n ax -> 0 < ax_dur ax ->
  ax_sample ax i = ax_t0 ax + i * ax_dt ax /\ ax_t0 ax <= ax_sample ax i < ax_t0 ax + ax_dur ax.
Proof.
  intros (Hz & Hn & Hb & H0 & H1 & H2) Hp Hi Hd.
  apply in62_bounds in H0, H1, H2.
  assert (Hfit : i * ax_dt ax < ax_dur ax).
  { apply (cdivz_fits (ax_dur ax) (ax_dt ax) i Hp). lia. }
  assert (E : ax_sample ax i = ax_t0 ax + i * ax_dt ax).
  { apply sample_exact. assert (0 <= i * ax_dt ax) by nia.
    change (2 ^ 62) with 4611686018427387904 in *. change (2 ^ 63) with 9223372036854775808. lia. }
  rewrite E. split; [reflexivity|]. nia.
Qed.

(* ---------------------------------------------------------------- constructor-level statements *)
(* generic inversion: whatever the arguments, an accepted UniformTime is a laid-out axis *)
Lemma ut_new_lay_out a ax :
  ut_new a = TOk ax ->
  exists u si rate dur t0v, lay_out u si rate dur (u_length a) t0v = TOk ax.
Proof.
  unfold ut_new. destruct (negb _); [discriminate|].
  intros H. apply tbind_ok in H as ([[[si rate] dur] un] & _ & H).
  destruct un as [|u0|]; try discriminate.
  - apply tbind_ok in H as ([si' rate'] & _ & H). eauto 10.
  - apply tbind_ok in H as ([si' rate'] & _ & H). eauto 10.
Qed.

Theorem ut_new_wellformed a ax : ut_new a = TOk ax -> wellformed ax.
Proof.
  intros H. apply ut_new_lay_out in H as (u & si & rate & dur & t0v & H).
  apply lay_out_wellformed in H as [H _]. exact H.
Qed.

Theorem ut_new_fits a ax :
  ut_new a = TOk ax -> 0 < ax_dt ax ->
  forall i, 0 <= i -> (i < ax_n ax <-> i * ax_dt ax < ax_dur ax).
Proof.
  intros H. apply ut_new_lay_out in H as (u & si & rate & dur & t0v & H).
  exact (lay_out_fits _ _ _ _ _ _ _ H).
Qed.

(* invalid argument patterns are rejected *)
Theorem ut_invalid_rejected a :
  ut_tspec_ok (is_some (u_data a)) (ut_pat a) = false -> ut_new a = TErr ValueError.
Proof. intros H. unfold ut_new. rewrite H. reflexivity. Qed.

Theorem ts_invalid_rejected a :
  s_time a = None -> s_unit a <> UArgBad ->
  ts_tspec_ok (is_some (s_si a), is_some (s_rate a), is_some (s_duration a)) = false ->
  ts_new a = TErr ValueError.
Proof.
  intros Ht Hu H. unfold ts_new. destruct (s_unit a); try contradiction; rewrite Ht, H; reflexivity.
Qed.

Theorem ut_bad_unit_rejected a :
  u_data a = None -> u_unit a = UArgBad -> ut_tspec_ok false (ut_pat a) = true ->
  ut_new a = TErr ValueError.
Proof. intros Hd Hu H. unfold ut_new. rewrite Hd. simpl. rewrite H, Hu. reflexivity. Qed.

(* sampling_interval (any kind) + length, no given axis: exactly `length` samples *)
Theorem ut_interval_length si l t0 un ax :
  ut_new (mk_ut_args None (Some l) None None (Some si) t0 un) = TOk ax ->
  0 < ax_dt ax -> 0 <= l -> ax_n ax = l /\ ax_dur ax = l * ax_dt ax.
Proof.
  unfold ut_new. simpl. destruct un as [|u0|]; try discriminate; intros H.
  - apply tbind_ok in H as ([si' rate'] & _ & H). exact (lay_out_length _ _ _ _ _ _ H).
  - apply tbind_ok in H as ([si' rate'] & _ & H). exact (lay_out_length _ _ _ _ _ _ H).
Qed.

(* sampling_rate (number or Frequency) + length *)
Theorem ut_rate_length r l t0 un ax :
  ut_new (mk_ut_args None (Some l) None (Some r) None t0 un) = TOk ax ->
  0 < ax_dt ax -> 0 <= l -> ax_n ax = l /\ ax_dur ax = l * ax_dt ax.
Proof.
  unfold ut_new. simpl. destruct un as [|u0|]; try discriminate; intros H.
  - apply tbind_ok in H as ([si' rate'] & _ & H). exact (lay_out_length _ _ _ _ _ _ H).
  - apply tbind_ok in H as ([si' rate'] & _ & H). exact (lay_out_length _ _ _ _ _ _ H).
Qed.

(* whole numbers of the unit: everything is exact *)
Theorem ut_int_path k l z u ax :
  ut_new (mk_ut_args None (Some l) None None (Some (VInt k)) (Some (VInt z)) (UArg u)) = TOk ax ->
  0 < k -> 0 <= l ->
  ax_n ax = l /\ ax_dt ax = k * factor u /\ ax_t0 ax = z * factor u /\
  ax_dur ax = l * (k * factor u) /\ ax_unit ax = u.
Proof.
  intros H Hk Hl.
  assert (Hd : ax_dt ax = k * factor u /\ ax_t0 ax = z * factor u /\ ax_unit ax = u).
  { revert H. unfold ut_new. simpl. unfold recip, recip_f. simpl to_float.
    destruct (fzero (z2f k)); simpl; [discriminate|].
    intros H. apply lay_out_inv in H as (dt & du & t0 & n & Hdt & _ & Ht0 & _ & ->).
    apply to_ps_int in Hdt, Ht0. simpl. auto. }
  destruct Hd as (Hdt & Ht0 & Hu).
  pose proof (factor_pos u) as Hf.
  destruct (ut_interval_length _ _ _ _ _ H ltac:(rewrite Hdt; nia) Hl) as [Hn Hdur].
  rewrite Hdt in Hdur. auto.
Qed.

(* TimeSeries.time has exactly as many samples as the data, at the series' t0 and interval *)
Lemma ts_new_len a s : ts_new a = TOk s -> se_len s = s_len a.
Proof.
  unfold ts_new. destruct (s_unit a); try discriminate; intros H;
    apply tbind_ok in H as ([[[[t0 si] rate] dur] un] & _ & H);
    apply tbind_ok in H as ([si' rate'] & _ & H);
    apply tbind_ok in H as (dt & _ & H);
    apply tbind_ok in H as (t0p & _ & H);
    apply tbind_ok in H as (du & _ & H);
    inversion H; reflexivity.
Qed.

Theorem ts_time_len s ax :
  ts_time s = TOk ax -> 0 < se_dt s -> 0 <= se_len s ->
  ax_n ax = se_len s /\ ax_dt ax = se_dt s /\ ax_t0 ax = se_t0 s /\ ax_dur ax = se_len s * se_dt s.
Proof.
  intros H Hp Hl. unfold ts_time in H.
  assert (Hd : ax_dt ax = se_dt s /\ ax_t0 ax = se_t0 s).
  { revert H. unfold ut_new. simpl.
    destruct (se_unit s) as [u0|]; simpl; intros H;
      apply tbind_ok in H as ([si' rate'] & Hder & H);
      apply tbind_ok in Hder as (r & _ & Hder); inversion Hder; subst si' rate';
      apply lay_out_inv in H as (dt & du & t0 & n & Hdt & _ & Ht0 & _ & ->);
      apply to_ps_time in Hdt, Ht0; simpl; auto. }
  destruct Hd as [Hdt Ht0].
  destruct (ut_interval_length _ _ _ _ _ H ltac:(rewrite Hdt; exact Hp) Hl) as [Hn Hdur].
  rewrite Hdt in Hdur. auto.
Qed.

Theorem series_time_len a s ax :
  ts_new a = TOk s -> ts_time s = TOk ax -> 0 < se_dt s -> 0 <= s_len a ->
  ax_n ax = s_len a /\ ax_dt ax = se_dt s /\ ax_t0 ax = se_t0 s /\ ax_dur ax = s_len a * se_dt s.
Proof.
  intros Hs Ht Hp Hl. rewrite <- (ts_new_len a s Hs) in *. exact (ts_time_len s ax Ht Hp Hl).
Qed.

(* rate -> period: a nearest integer to the float64 value of (1/f)*10^12 *)
Theorem to_period_nearest f p :
  to_period f = TOk p ->
  exists m e, f2ze (PrimFloat.mul (PrimFloat.div one_f f) (freq_scale Ups)) = Some (m, e) /\ nearest p m e.
Proof.
  unfold to_period, recip_f. destruct (fzero f); [discriminate|]. simpl.
  destruct (rne_f _) as [q|] eqn:E; [|discriminate].
  intros H. apply scope62_ok in H as [-> _].
  unfold rne_f in E. destruct (f2ze _) as [[m e]|] eqn:F; [|discriminate].
  inversion E; subst q. exists m, e. split; [reflexivity|]. apply rne_nearest.
Qed.

(* the unit in which a time-object interval and start are *displayed* plays no role: building the
   axis with another time_unit argument changes nothing but the unit label *)
Definition same_axis (a b : axis) : Prop :=
  ax_n a = ax_n b /\ ax_t0 a = ax_t0 b /\ ax_dt a = ax_dt b /\ ax_dur a = ax_dur b /\ ax_rate a = ax_rate b.

Theorem ut_unit_independent ps su l t0ps tu u1 u2 :
  match ut_new (mk_ut_args None (Some l) None None (Some (VTime ps su)) (Some (VTime t0ps tu)) (UArg u1)),
        ut_new (mk_ut_args None (Some l) None None (Some (VTime ps su)) (Some (VTime t0ps tu)) (UArg u2)) with
  | TOk a, TOk b => same_axis a b /\ ax_unit a = u1 /\ ax_unit b = u2
  | TErr e, TErr e' => e = e'
  | TScope, TScope => True
  | _, _ => False
  end.
Proof.
  unfold ut_new, lay_out. simpl.
  destruct (recip_f (PrimFloat.div (z2f ps) (z2f (factor su)))) as [r|e|]; simpl; [|reflexivity|exact I].
  destruct (scope62 ps) as [p|e|]; simpl; [|reflexivity|exact I].
  destruct (scope62 (l * p)) as [d|e|]; simpl; [|reflexivity|exact I].
  destruct (scope62 t0ps) as [t|e|]; simpl; [|reflexivity|exact I].
  destruct (arange_len d p) as [n|e|]; simpl; [|reflexivity|exact I].
  unfold same_axis; simpl. repeat split.
Qed.

(* the same instant count given as whole numbers of two different units *)
Theorem ut_same_sampling_any_unit k1 u1 k2 u2 z1 z2 l :
  k1 * factor u1 = k2 * factor u2 -> z1 * factor u1 = z2 * factor u2 ->
  forall a b,
  ut_new (mk_ut_args None (Some l) None None (Some (VInt k1)) (Some (VInt z1)) (UArg u1)) = TOk a ->
  ut_new (mk_ut_args None (Some l) None None (Some (VInt k2)) (Some (VInt z2)) (UArg u2)) = TOk b ->
  0 < k1 -> 0 < k2 -> 0 <= l ->
  ax_n a = ax_n b /\ ax_t0 a = ax_t0 b /\ ax_dt a = ax_dt b /\ ax_dur a = ax_dur b.
Proof.
  intros Hk Hz a b Ha Hb H1 H2 Hl.
  destruct (ut_int_path _ _ _ _ _ Ha H1 Hl) as (Na & Da & Ta & Ua & _).
  destruct (ut_int_path _ _ _ _ _ Hb H2 Hl) as (Nb & Db & Tb & Ub & _).
  rewrite Na, Nb, Da, Db, Ta, Tb, Ua, Ub, Hk, Hz. repeat split.
Qed.

(* rebuilding an axis from a (self-consistent) axis, nothing else given: the identical axis *)
Theorem ut_from_axis_identical d ax :
  0 < ax_dt d -> ax_dur d = ax_n d * ax_dt d -> 0 <= ax_n d ->
  ut_new (mk_ut_args (Some d) None None None None None UArgNone) = TOk ax ->
  ax_n ax = ax_n d /\ ax_t0 ax = ax_t0 d /\ ax_dt ax = ax_dt d /\ ax_dur ax = ax_dur d /\
  ax_rate ax = ax_rate d /\ ax_unit ax = ax_unit d.
Proof.
  intros Hp Hd Hn. unfold ut_new. simpl. intros H.
  apply lay_out_inv in H as (dt & du & t0 & n & Hdt & Hdu & Ht0 & Hlen & ->).
  apply to_ps_time in Hdt, Hdu, Ht0. subst dt du t0. simpl.
  apply arange_len_ok in Hlen as (_ & -> & _).
  rewrite Hd, cdivz_mul by exact Hp. repeat split; lia.
Qed.

(* the series (and hence its time axis) depends on the data only through the length of the last axis *)
Theorem ts_shape_only sh1 sh2 a :
  last sh1 0 = last sh2 0 -> ts_new (with_shape sh1 a) = ts_new (with_shape sh2 a).
Proof. unfold with_shape. intros ->. reflexivity. Qed.

Lemma with_shape_len sh a : s_len (with_shape sh a) = last sh 0.
Proof. reflexivity. Qed.
