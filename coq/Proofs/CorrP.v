(* Proofs/CorrP.v — lemmas about Model/Corr.v (property C20, correlation / normalisation part) *)
From Coq Require Import QArith List Arith Bool ZArith Lia Psatz Setoid Morphisms.
From NT Require Import QC Sums CS Corr.
Import ListNotations.
Open Scope Q_scope.

(* ------------------------------------------------------------------ reduced sums *)
Lemma cred_eq z : cred z =c= z.
Proof. split; unfold cred, re, im; simpl; apply Qred_correct. Qed.
Lemma czerob_c0 z : czerob z = true -> z =c= c0.
Proof.
  unfold czerob. destruct z as [[a b] [c d]]; simpl. destruct a; try discriminate. destruct c; try discriminate.
  intros _. split; reflexivity.
Qed.
Lemma csumr_eq f n : csumr f n =c= csumn f n.
Proof.
  induction n; cbn [csumr csumn]; [reflexivity|]. cbv zeta.
  destruct (czerob (f n)) eqn:E.
  - rewrite (czerob_c0 _ E), IHn. symmetry. apply cadd_0_r.
  - rewrite cred_eq, IHn. reflexivity.
Qed.
Lemma sumr_eq f n : sumr f n == sumn f n.
Proof. induction n; cbn [sumr sumn]; [reflexivity|]. rewrite Qred_correct, IHn. reflexivity. Qed.

Lemma ceq_re a b : a =c= b -> re a == re b. Proof. intros [H _]; exact H. Qed.
Lemma ceq_im a b : a =c= b -> im a == im b. Proof. intros [_ H]; exact H. Qed.

(* ------------------------------------------------------------------ complex sums *)
Lemma csumn_zero n : csumn (fun _ => c0) n =c= c0.
Proof. induction n; simpl; [reflexivity|]. rewrite IHn. cring. Qed.

Lemma csumn_all_zero f n : (forall k, (k < n)%nat -> f k =c= c0) -> csumn f n =c= c0.
Proof. intros H. rewrite (csumn_ext f (fun _ => c0) n H). apply csumn_zero. Qed.

Lemma csumn_split f a b : csumn f (a + b) =c= cadd (csumn f a) (csumn (fun k => f (a + k)%nat) b).
Proof.
  induction b; simpl.
  - rewrite Nat.add_0_r. cring.
  - replace (a + S b)%nat with (S (a + b)) by lia. simpl. rewrite IHb. cring.
Qed.

Lemma csumn_swap (f : nat -> nat -> C) n m :
  csumn (fun i => csumn (fun j => f i j) m) n =c= csumn (fun j => csumn (fun i => f i j) n) m.
Proof.
  induction n; simpl.
  - symmetry. apply csumn_zero.
  - rewrite IHn. rewrite <- csumn_add. reflexivity.
Qed.

Lemma csumn_none n (p : nat -> bool) (G : nat -> C) :
  (forall t, (t < n)%nat -> p t = false) -> csumn (fun t => if p t then G t else c0) n =c= c0.
Proof. intros H. apply csumn_all_zero. intros k Hk. rewrite (H k Hk). reflexivity. Qed.

Lemma csumn_pick n (p : nat -> bool) (G : nat -> C) t0 :
  (forall t, (t < n)%nat -> p t = true -> t = t0) -> ((t0 < n)%nat -> p t0 = true) ->
  csumn (fun t => if p t then G t else c0) n =c= if (t0 <? n)%nat then G t0 else c0.
Proof.
  induction n; intros Hu Ht.
  - simpl. reflexivity.
  - cbn [csumn].
    assert (IH : csumn (fun t => if p t then G t else c0) n =c= if (t0 <? n)%nat then G t0 else c0).
    { destruct (Nat.ltb_spec t0 n) as [L|L].
      - assert (E := IHn (fun t Ht' Hp => Hu t (Nat.lt_lt_succ_r _ _ Ht') Hp) (fun _ => Ht (Nat.lt_lt_succ_r _ _ L))).
        destruct (Nat.ltb_spec t0 n); [exact E|lia].
      - apply csumn_none. intros t Hlt. destruct (p t) eqn:E; [|reflexivity].
        exfalso. assert (t = t0) by (apply Hu; [lia|exact E]). lia. }
    rewrite IH.
    destruct (Nat.ltb_spec t0 n) as [L|L].
    + destruct (Nat.ltb_spec t0 (S n)); [|lia].
      destruct (p n) eqn:E.
      * exfalso. assert (n = t0) by (apply Hu; [lia|exact E]). lia.
      * cring.
    + destruct (Nat.eq_dec t0 n) as [->|Hne].
      * destruct (Nat.ltb_spec n (S n)); [|lia]. rewrite (Ht (Nat.lt_succ_diag_r n)). cring.
      * destruct (Nat.ltb_spec t0 (S n)); [lia|].
        destruct (p n) eqn:E.
        -- exfalso. assert (n = t0) by (apply Hu; [lia|exact E]). lia.
        -- cring.
Qed.

Lemma csumn_re f n : re (csumn f n) == sumn (fun k => re (f k)) n.
Proof. induction n; simpl; [reflexivity|]. rewrite <- IHn. reflexivity. Qed.
Lemma csumn_im f n : im (csumn f n) == sumn (fun k => im (f k)) n.
Proof. induction n; simpl; [reflexivity|]. rewrite <- IHn. reflexivity. Qed.

Lemma csumn_scale q f n : csumn (fun k => cscale q (f k)) n =c= cscale q (csumn f n).
Proof. induction n; simpl; [cring|]. rewrite IHn. cring. Qed.

Lemma inj_S n : inj (S n) == inj n + 1.
Proof. unfold inj. rewrite Nat2Z.inj_succ, <- Z.add_1_r, inject_Z_plus. reflexivity. Qed.
Lemma inj_pos n : (0 < n)%nat -> 0 < inj n.
Proof. intros H. unfold inj. replace 0 with (inject_Z 0) by reflexivity. rewrite <- Zlt_Qlt. lia. Qed.
Lemma inj_nz n : (0 < n)%nat -> ~ inj n == 0.
Proof. intros H E. pose proof (inj_pos n H). lra. Qed.

Lemma csumn_sub_const f m n :
  csumn (fun t => csub (f t) m) n =c= csub (csumn f n) (cscale (inj n) m).
Proof.
  induction n.
  - cbn [csumn]. assert (E : inj 0 == 0) by reflexivity.
    split; unfold csub, cadd, cscale, c0, re, im; cbn [fst snd]; rewrite E; ring.
  - cbn [csumn]. rewrite IHn. pose proof (inj_S n) as E.
    split; unfold csub, cadd, cscale, re, im in *; cbn [fst snd]; rewrite E; ring.
Qed.

(* ------------------------------------------------------------------ fsize *)
Lemma clog2_aux_ge size : forall fuel e, (size <= 2 ^ (e + fuel))%nat -> (size <= 2 ^ clog2_aux fuel e size)%nat.
Proof.
  induction fuel; intros e H; cbn [clog2_aux].
  - rewrite Nat.add_0_r in H. exact H.
  - destruct (Nat.leb_spec size (2 ^ e)); [assumption|].
    apply IHfuel. replace (S e + fuel)%nat with (e + S fuel)%nat by lia. exact H.
Qed.
Lemma clog2_aux_min size : forall fuel e, (e = 0 \/ 2 ^ (e - 1) < size)%nat ->
  (clog2_aux fuel e size = 0 \/ 2 ^ (clog2_aux fuel e size - 1) < size)%nat.
Proof.
  induction fuel; intros e H; cbn [clog2_aux]; [exact H|].
  destruct (Nat.leb_spec size (2 ^ e)); [exact H|].
  apply IHfuel. right. replace (S e - 1)%nat with e by lia. assumption.
Qed.

(* the padded transform size is at least the length of the full linear convolution *)
Lemma fsize_ge size : (size <= fsize size)%nat.
Proof.
  unfold fsize, clog2. apply clog2_aux_ge. simpl.
  apply Nat.lt_le_incl. apply Nat.pow_gt_lin_r. lia.
Qed.
Lemma fsize_pow2 size : exists e, fsize size = (2 ^ e)%nat.
Proof. eexists; reflexivity. Qed.
(* ... and it is the least such power of two *)
Lemma fsize_lt_double size : (1 <= size)%nat -> (fsize size < 2 * size)%nat.
Proof.
  intros H. unfold fsize, clog2.
  destruct (clog2_aux_min size size 0 (or_introl eq_refl)) as [E|E].
  - rewrite E. simpl. lia.
  - remember (clog2_aux size 0 size) as r. destruct r; [simpl; lia|].
    replace (S r - 1)%nat with r in E by lia. rewrite Nat.pow_succ_r'. lia.
Qed.

(* ------------------------------------------------------------------ the lagged sum as a double sum *)
Definition lag2 (x y : sig) (N k : nat) : C :=
  csumn (fun m => csumn (fun t => if (m + (N - 1) =? t + k)%nat
                                   then cmul (x m) (cconj (y t)) else c0) N) N.

Lemma lagsum_lag2 x y N k : (0 < N)%nat -> lagsum x y N k =c= lag2 x y N k.
Proof.
  intros HN. unfold lagsum, lag2. rewrite csumn_swap.
  apply csumn_ext. intros t Ht.
  destruct (Nat.leb_spec (N - 1) (t + k)) as [L|L]; cbn [andb].
  - rewrite (csumn_pick N (fun m => (m + (N - 1) =? t + k)%nat) (fun m => cmul (x m) (cconj (y t))) (t + k - (N - 1))%nat).
    + destruct (Nat.ltb_spec (t + k) (N + N - 1)); destruct (Nat.ltb_spec (t + k - (N - 1)) N); try lia; reflexivity.
    + intros m Hm E. apply Nat.eqb_eq in E. lia.
    + intros _. apply Nat.eqb_eq. lia.
  - symmetry. apply csumn_none. intros m Hm. apply Nat.eqb_neq. lia.
Qed.

(* lag reversal: swapping the arguments conjugates and reverses the lag axis *)
Lemma lag2_swap x y N k : (k <= N + N - 2)%nat ->
  lag2 y x N (N + N - 2 - k) =c= cconj (lag2 x y N k).
Proof.
  intros Hk. unfold lag2. rewrite csumn_conj.
  rewrite csumn_swap. apply csumn_ext. intros m Hm.
  rewrite csumn_conj. apply csumn_ext. intros t Ht.
  destruct (Nat.eqb_spec (t + (N - 1)) (m + (N + N - 2 - k))); destruct (Nat.eqb_spec (m + (N - 1)) (t + k)); try lia; cring.
Qed.

Lemma lagsum_swap x y N k : (0 < N)%nat -> (k <= N + N - 2)%nat ->
  lagsum y x N (N + N - 2 - k) =c= cconj (lagsum x y N k).
Proof. intros HN Hk. rewrite !lagsum_lag2 by assumption. apply lag2_swap; assumption. Qed.

(* non-negative lags: the textbook form sum_{t < N - l} x[t + l] conj(y[t]) *)
Lemma lagsum_pos x y N l : (l < N)%nat ->
  lagsum x y N (N - 1 + l) =c= csumn (fun t => cmul (x (t + l)%nat) (cconj (y t))) (N - l).
Proof.
  intros Hl. unfold lagsum.
  replace N with ((N - l) + l)%nat at 1 by lia.
  rewrite csumn_split.
  rewrite (csumn_all_zero (fun k => _) l).
  - rewrite cadd_0_r. apply csumn_ext. intros t Ht.
    destruct (Nat.leb_spec (N - 1) (t + (N - 1 + l))); destruct (Nat.ltb_spec (t + (N - 1 + l)) (N + N - 1)); try lia.
    cbn [andb]. replace (t + (N - 1 + l) - (N - 1))%nat with (t + l)%nat by lia. reflexivity.
  - intros t Ht. destruct (Nat.ltb_spec (N - l + t + (N - 1 + l)) (N + N - 1)); try lia.
    rewrite andb_false_r. reflexivity.
Qed.
(* negative lags *)
Lemma lagsum_neg x y N l : (l < N)%nat ->
  lagsum x y N (N - 1 - l) =c= csumn (fun t => cmul (x t) (cconj (y (t + l)%nat))) (N - l).
Proof.
  intros Hl. unfold lagsum.
  replace N with (l + (N - l))%nat at 1 by lia.
  rewrite csumn_split.
  rewrite (csumn_all_zero (fun k => _) l).
  - rewrite cadd_0_l. apply csumn_ext. intros t Ht.
    destruct (Nat.leb_spec (N - 1) (l + t + (N - 1 - l))); destruct (Nat.ltb_spec (l + t + (N - 1 - l)) (N + N - 1)); try lia.
    cbn [andb]. replace (l + t + (N - 1 - l) - (N - 1))%nat with t by lia.
    replace (l + t)%nat with (t + l)%nat by lia. reflexivity.
  - intros t Ht. destruct (Nat.leb_spec (N - 1) (t + (N - 1 - l))); try lia. reflexivity.
Qed.

(* ------------------------------------------------------------------ circular = linear *)
Lemma cmul_c0_r a : cmul a c0 =c= c0. Proof. cring. Qed.

(* the circular convolution of the zero-padded x and reversed-conjugate y, at a size F that is at
   least the linear-convolution length 2N-1, is the lagged sum: nothing wraps around *)
Lemma circ_is_lag2 x y N F k : (0 < N)%nat -> (N + N - 1 <= F)%nat -> (k < N + N - 1)%nat ->
  circ_conv F (pad x N) (pad (revconj y N) N) k =c= lag2 x y N k.
Proof.
  intros HN HF Hk. unfold circ_conv. rewrite csumr_eq.
  replace F with (N + (F - N))%nat at 1 by lia.
  rewrite csumn_split.
  rewrite (csumn_all_zero (fun j => _) (F - N)).
  2:{ intros j Hj. unfold pad at 1. destruct (Nat.ltb_spec (N + j) N); [lia|]. apply cmul_0_l. }
  rewrite cadd_0_r. unfold lag2. apply csumn_ext. intros m Hm.
  unfold pad at 1. destruct (Nat.ltb_spec m N); [|lia].
  destruct (Nat.le_gt_cases m k) as [Lmk|Lmk].
  - (* no wrap: index k - m *)
    assert (E : ((k + F - m) mod F = k - m)%nat).
    { replace (k + F - m)%nat with ((k - m) + 1 * F)%nat by lia.
      rewrite Nat.mod_add by lia. apply Nat.mod_small. lia. }
    rewrite E. unfold pad. destruct (Nat.ltb_spec (k - m) N) as [L|L].
    + unfold revconj.
      rewrite (csumn_pick N (fun t => (m + (N - 1) =? t + k)%nat) (fun t => cmul (x m) (cconj (y t))) (N - 1 - (k - m))%nat).
      * destruct (Nat.ltb_spec (N - 1 - (k - m)) N); [reflexivity|lia].
      * intros t Ht Et. apply Nat.eqb_eq in Et. lia.
      * intros _. apply Nat.eqb_eq. lia.
    + rewrite cmul_c0_r. symmetry. apply csumn_none. intros t Ht. apply Nat.eqb_neq. lia.
  - (* the wrapped index lands in the zero padding *)
    assert (E : ((k + F - m) mod F = k + F - m)%nat) by (apply Nat.mod_small; lia).
    rewrite E. unfold pad. destruct (Nat.ltb_spec (k + F - m) N) as [L|L]; [lia|].
    rewrite cmul_c0_r. symmetry. apply csumn_none. intros t Ht. apply Nat.eqb_neq. lia.
Qed.

Lemma ofQ_re_real z : im z == 0 -> ofQ (re z) =c= z.
Proof. intros H. split; unfold ofQ, re, im in *; simpl; [reflexivity|symmetry; exact H]. Qed.

Lemma cscale_proper_r q a b : a =c= b -> cscale q a =c= cscale q b.
Proof. intros H. rewrite H. reflexivity. Qed.

(* real inputs give real lagged sums *)
Lemma lagsum_real x y N k : (forall t, im (x t) == 0) -> (forall t, im (y t) == 0) -> im (lagsum x y N k) == 0.
Proof.
  intros Hx Hy. unfold lagsum. rewrite csumn_im.
  rewrite (sumn_ext _ (fun _ => 0)); [apply sumn_const0|].
  intros t Ht. destruct ((N - 1 <=? t + k)%nat && (t + k <? N + N - 1)%nat); [|reflexivity].
  unfold cmul, cconj, re, im; simpl. pose proof (Hx (t + k - (N - 1))%nat) as A. pose proof (Hy t) as B.
  unfold im in A, B. rewrite A, B. ring.
Qed.

Definition nscale (normalize : bool) (N : nat) (z : C) : C :=
  if normalize then cscale (1 / inj N) z else z.
Global Instance nscale_proper nm N : Proper (ceq ==> ceq) (nscale nm N).
Proof. intros a b H. unfold nscale. destruct nm; [rewrite H|]; auto; reflexivity. Qed.

Section FFT.
  (* kern F a b k stands for ifft(fft(a, F) * fft(b, F))[k] of the library FFT *)
  Variable kern : nat -> sig -> sig -> sig.
  (* the convolution theorem *)
  Hypothesis conv_thm : forall F a b k, (k < F)%nat -> kern F a b k =c= circ_conv F a b k.

  Lemma fftconvolve_is_lagsum x y N k : (0 < N)%nat -> (k < N + N - 1)%nat ->
    fftconvolve_full kern x (revconj y N) N true k =c= lagsum x y N k.
  Proof.
    intros HN Hk. unfold fftconvolve_full.
    pose proof (fsize_ge (N + N - 1)) as HF.
    rewrite conv_thm by lia. rewrite circ_is_lag2 by assumption.
    symmetry. apply lagsum_lag2. exact HN.
  Qed.

  (* crosscov without bias removal, complex data, all lags: entry k is the lagged sum of lag
     k - (N-1): zero lag at index N-1 *)
  Theorem crosscov_all_lags x y N nm k : (0 < N)%nat -> (k < N + N - 1)%nat ->
    crosscov_fn kern x y N true false nm true k =c= nscale nm N (lagsum x y N k).
  Proof.
    intros HN Hk. unfold crosscov_fn, nscale. cbv zeta.
    destruct nm; [apply cscale_proper_r|]; apply fftconvolve_is_lagsum; assumption.
  Qed.

  (* all_lags = False: entry l is lag l >= 0 : zero lag at index 0 *)
  Theorem crosscov_pos_lags x y N nm l : (l < N)%nat ->
    crosscov_fn kern x y N false false nm true l =c=
    nscale nm N (csumn (fun t => cmul (x (t + l)%nat) (cconj (y t))) (N - l)).
  Proof.
    intros Hl. assert (HN : (0 < N)%nat) by lia.
    rewrite <- lagsum_pos by assumption.
    unfold crosscov_fn, nscale. cbv zeta.
    destruct nm; [apply cscale_proper_r|]; apply fftconvolve_is_lagsum; lia.
  Qed.

  (* debias = True is the same computation on the bias-removed signals *)
  Lemma crosscov_debias x y N al nm c k :
    crosscov_fn kern x y N al true nm c k = crosscov_fn kern (remove_bias x N) (remove_bias y N) N al false nm c k.
  Proof. reflexivity. Qed.

  (* real data (`.real` is taken): same statement *)
  Theorem crosscov_all_lags_real x y N nm k : (0 < N)%nat -> (k < N + N - 1)%nat ->
    (forall t, im (x t) == 0) -> (forall t, im (y t) == 0) ->
    crosscov_fn kern x y N true false nm false k =c= nscale nm N (lagsum x y N k).
  Proof.
    intros HN Hk Hx Hy. unfold crosscov_fn, nscale. cbv zeta.
    assert (E : fftconvolve_full kern x (revconj y N) N false k =c= lagsum x y N k).
    { pose proof (fftconvolve_is_lagsum x y N k HN Hk) as A. unfold fftconvolve_full in *.
      rewrite <- (ofQ_re_real (lagsum x y N k)) by (apply lagsum_real; assumption).
      split; unfold ofQ, re, im; simpl; [apply (ceq_re _ _ A)|reflexivity]. }
    destruct nm; [apply cscale_proper_r|]; exact E.
  Qed.

  (* the wrappers *)
  Theorem crosscorr_all_lags x y N nm k : (0 < N)%nat -> (k < N + N - 1)%nat ->
    crosscorr_fn kern x y N true nm true k =c= nscale nm N (lagsum x y N k).
  Proof. apply crosscov_all_lags. Qed.
  Theorem autocov_all_lags x N db nm k : (0 < N)%nat -> (k < N + N - 1)%nat ->
    autocov_fn kern x N true db nm true k =c=
    let x' := if db then remove_bias x N else x in nscale nm N (lagsum x' x' N k).
  Proof. intros. unfold autocov_fn. cbv zeta. apply crosscov_all_lags; assumption. Qed.
  Theorem autocorr_all_lags x N nm k : (0 < N)%nat -> (k < N + N - 1)%nat ->
    autocorr_fn kern x N true nm true k =c= nscale nm N (lagsum x x N k).
  Proof. intros. unfold autocorr_fn. apply (autocov_all_lags x N false nm k); assumption. Qed.

  (* Hermitian symmetry of the autocorrelation about the zero lag (index N-1) *)
  Theorem autocorr_herm x N nm l : (l < N)%nat ->
    autocorr_fn kern x N true nm true (N - 1 - l)%nat =c= cconj (autocorr_fn kern x N true nm true (N - 1 + l)%nat).
  Proof.
    intros Hl. assert (HN : (0 < N)%nat) by lia.
    rewrite !autocorr_all_lags by lia.
    replace (N - 1 - l)%nat with (N + N - 2 - (N - 1 + l))%nat by lia.
    rewrite lagsum_swap by lia.
    unfold nscale. destruct nm; [|reflexivity]. cring.
  Qed.
End FFT.

(* the mean of a bias-removed signal is zero *)
Lemma remove_bias_sum0 x N : (0 < N)%nat -> csumn (remove_bias x N) N =c= c0.
Proof.
  intros HN. unfold remove_bias. cbv zeta. rewrite csumn_sub_const.
  unfold cmean. rewrite csumr_eq. pose proof (inj_nz N HN) as Hz.
  split; unfold csub, cscale, c0, re, im; simpl; field; exact Hz.
Qed.

(* ------------------------------------------------------------------ analyzer pair fill *)
Definition rsig (x : nat -> Q) : sig := fun t => ofQ (x t).
(* the real lagged sum, all-lags layout (index k = lag k - (N-1)) *)
Definition rlagsum (x y : nat -> Q) (N k : nat) : Q := re (lagsum (rsig x) (rsig y) N k).

Lemma rlagsum_swap x y N k : (0 < N)%nat -> (k <= N + N - 2)%nat ->
  rlagsum y x N (N + N - 2 - k) == rlagsum x y N k.
Proof.
  intros HN Hk. unfold rlagsum. rewrite (ceq_re _ _ (lagsum_swap (rsig x) (rsig y) N k HN Hk)).
  reflexivity.
Qed.

Section XCorr.
  Variable X : nat -> nat -> Q.          (* channel, time *)
  Variable N : nat.
  Variable corr : nat -> nat -> nat -> Q. (* np.correlate(data[i], data[j], 'full') *)
  Hypothesis HN : (0 < N)%nat.
  Hypothesis correlate_spec : forall i j k, (k < N + N - 1)%nat -> corr i j k == rlagsum (X i) (X j) N k.

  Lemma xcorr_fill_upper i j k : (i <= j)%nat -> (k < N + N - 1)%nat ->
    xcorr_fill corr i j k == rlagsum (X i) (X j) N k.
  Proof. intros H Hk. unfold xcorr_fill. destruct (Nat.leb_spec i j); [|lia]. apply correlate_spec; assumption. Qed.

  (* what the lower triangle holds is the lag REVERSAL of what it should hold *)
  Lemma xcorr_fill_lower i j k : (j < i)%nat -> (k < N + N - 1)%nat ->
    xcorr_fill corr i j k == rlagsum (X i) (X j) N (N + N - 2 - k).
  Proof.
    intros H Hk. unfold xcorr_fill. destruct (Nat.leb_spec i j); [lia|].
    rewrite correlate_spec by assumption. symmetry. apply rlagsum_swap; lia.
  Qed.

  (* hence the zero-lag entries are right everywhere *)
  Lemma xcorr_fill_zero_lag i j : xcorr_fill corr i j (N - 1) == rlagsum (X i) (X j) N (N - 1).
  Proof.
    destruct (Nat.le_gt_cases i j).
    - apply xcorr_fill_upper; lia.
    - rewrite xcorr_fill_lower by lia. replace (N + N - 2 - (N - 1))%nat with (N - 1)%nat by lia. reflexivity.
  Qed.

  (* xcorr_norm: the zero-lag entry of the upper triangle is the correlation coefficient *)
  Lemma xcorr_norm_zero_lag cc i j : (i <= j)%nat -> ~ corr i j (N - 1) == 0 ->
    xcorr_norm_fill corr cc N i j (N - 1) == cc i j.
  Proof.
    intros H Hz. unfold xcorr_norm_fill, xcorr_norm_idx. destruct (Nat.leb_spec i j); [|lia].
    field. exact Hz.
  Qed.
End XCorr.

(* the claimed property of the fill — entry (i,j) is the cross-correlation of channels i and j for
   every pair — fails: two channels [1,2] and [3,5] *)
Definition wX (c t : nat) : Q :=
  match c, t with
  | O, O => 1 | O, S O => 2 | S O, O => 3 | S O, S O => 5 | _, _ => 0 end.
Lemma w_stored : xcorr_fill (fun i j k => rlagsum (wX i) (wX j) 2 k) 1 0 0 == 5.
Proof. vm_compute. reflexivity. Qed.
Lemma w_required : rlagsum (wX 1) (wX 0) 2 0 == 6.
Proof. vm_compute. reflexivity. Qed.
Lemma xcorr_fill_refuted :
  exists (X : nat -> nat -> Q) (N : nat) (corr : nat -> nat -> nat -> Q) (i j k : nat),
    (forall i j k, corr i j k == rlagsum (X i) (X j) N k) /\ (k < N + N - 1)%nat /\
    ~ xcorr_fill corr i j k == rlagsum (X i) (X j) N k.
Proof.
  exists wX, 2%nat, (fun i j k => rlagsum (wX i) (wX j) 2 k), 1%nat, 0%nat, 0%nat.
  split; [intros; reflexivity|]. split; [lia|].
  rewrite w_stored, w_required. intro H. discriminate H.
Qed.

(* ------------------------------------------------------------------ seed_corrcoef *)
Lemma dot_eq x y N : dot x y N == sumn (fun t => x t * y t) N.
Proof. unfold dot. apply sumr_eq. Qed.

(* Cauchy-Schwarz: the squared numerator is at most the squared denominator *)
Lemma pearson_sq_le x y N : seed_xy y x N * seed_xy y x N <= seed_xx x N * seed_yy y N.
Proof. unfold seed_xy, seed_xx, seed_yy. rewrite !dot_eq. apply cauchy_schwarz. Qed.

Lemma sq_le_1 r D : 0 < D -> r * r * D <= D -> r * r <= 1.
Proof. intros HD H. destruct (Qlt_le_dec 1 (r * r)) as [L|L]; [|exact L]. exfalso. nra. Qed.

(* any r with r * sqrt(xx*yy) = xy (the value returned) lies in [-1, 1] and is the Pearson
   coefficient cov / (sd_x sd_y) — the 1/N factors of covariance and variances cancel *)
Lemma seed_corrcoef_pearson seed target N s r : (0 < N)%nat ->
  0 < s -> s * s == seed_xx target N * seed_yy seed N -> r * s == seed_xy seed target N ->
  r * r <= 1 /\
  (let cov := seed_xy seed target N / inj N in
   let vx := seed_xx target N / inj N in
   let vy := seed_yy seed N / inj N in
   (s / inj N) * (s / inj N) == vx * vy /\ r * (s / inj N) == cov).
Proof.
  intros HN Hs Hss Hr. pose proof (inj_pos N HN) as Hp.
  split.
  - apply (sq_le_1 r (s * s)); [nra|].
    setoid_replace (r * r * (s * s)) with ((r * s) * (r * s)) by ring.
    rewrite Hr, Hss. apply pearson_sq_le.
  - cbv zeta. split.
    + setoid_replace (s / inj N * (s / inj N)) with (s * s / (inj N * inj N)) by (field; lra).
      rewrite Hss. field. lra.
    + rewrite <- Hr. field. lra.
Qed.

(* ------------------------------------------------------------------ zscore / percent change *)
Lemma re_sum_ofQ g n : re (csumn (fun t => ofQ (g t)) n) == sumn g n.
Proof. rewrite csumn_re. apply sumn_ext. intros; reflexivity. Qed.

Lemma cvar_eq x N : cvar x N == sumn (fun t => cnorm2 (remove_bias x N t)) N / inj N.
Proof. unfold cvar. cbv zeta. rewrite (ceq_re _ _ (csumr_eq _ _)), re_sum_ofQ. reflexivity. Qed.

(* z-scores have mean zero ... *)
Lemma zscore_mean0 x N s : (0 < N)%nat -> csumn (zscore_fn x N s) N =c= c0.
Proof.
  intros HN. unfold zscore_fn. cbv zeta. rewrite csumn_scale, remove_bias_sum0 by assumption. cring.
Qed.
(* ... and unit variance, for s the (non-zero) root of the variance, as returned by np.std *)
Lemma zscore_var1 x N s : (0 < N)%nat -> ~ s == 0 -> s * s == cvar x N ->
  sumn (fun t => cnorm2 (zscore_fn x N s t)) N / inj N == 1.
Proof.
  intros HN Hs Hv. rewrite cvar_eq in Hv. unfold zscore_fn. cbv zeta.
  rewrite (sumn_ext _ (fun t => (1 / s) * (1 / s) * cnorm2 (remove_bias x N t))) by (intros; apply cnorm2_scale).
  rewrite sumn_scal. pose proof (inj_nz N HN).
  setoid_replace (1 / s * (1 / s) * sumn (fun t => cnorm2 (remove_bias x N t)) N / inj N)
    with ((sumn (fun t => cnorm2 (remove_bias x N t)) N / inj N) / (s * s)) by (field; split; assumption).
  rewrite <- Hv. field. exact Hs.
Qed.

Lemma csumn_mul_r c f n : csumn (fun k => cmul (f k) c) n =c= cmul (csumn f n) c.
Proof. induction n; simpl; [cring|]. rewrite IHn. cring. Qed.

Lemma cmean_sum x N : (0 < N)%nat -> csumn x N =c= cscale (inj N) (cmean x N).
Proof.
  intros HN. unfold cmean. rewrite csumr_eq. pose proof (inj_nz N HN).
  split; unfold cscale, re, im; simpl; field; assumption.
Qed.

(* percent change has mean zero along the axis, whenever the mean it divides by is non-zero *)
Lemma pct_mean0 x N : (0 < N)%nat -> ~ cnorm2 (cmean x N) == 0 -> csumn (pct_fn x N) N =c= c0.
Proof.
  intros HN Hm. unfold pct_fn. cbv zeta. rewrite csumn_scale, csumn_sub_const.
  unfold cdiv. rewrite csumn_mul_r. rewrite (cmean_sum x N HN) at 1.
  pose proof (cinv_r (cmean x N) Hm) as E.
  assert (E2 : cmul (cscale (inj N) (cmean x N)) (cinv (cmean x N)) =c= cscale (inj N) c1).
  { rewrite <- E. cring. }
  rewrite E2. cring.
Qed.

(* ------------------------------------------------------------------ correlation_spectrum *)
Section CorrSpec.
  Variables x1 x2 : nat -> Q.      (* the demeaned real inputs *)
  Variables X1 X2 : sig.           (* their spectra, as returned by the library FFT *)
  Variable n : nat.
  (* Plancherel's identity for the library FFT *)
  Hypothesis plancherel :
    csumn (fun k => cmul (X1 k) (cconj (X2 k))) n =c= cscale (inj n) (csumn (fun t => cmul (rsig x1 t) (cconj (rsig x2 t))) n).

  (* the numerators of all n bins sum to n * sum x1 x2: after division by n * sqrt(sum x1^2 sum x2^2)
     the full spectrum sums to the correlation coefficient *)
  Lemma corrspec_total : sumn (corrspec_num X1 X2) n == inj n * sumn (fun t => x1 t * x2 t) n.
  Proof.
    pose proof (ceq_re _ _ plancherel) as H.
    rewrite csumn_re in H.
    rewrite (sumn_ext (corrspec_num X1 X2) (fun k => re (cmul (X1 k) (cconj (X2 k)))) n).
    2:{ intros k Hk. unfold corrspec_num, cmul, cconj, re, im; simpl. ring. }
    rewrite H. unfold cscale, re at 1; simpl. rewrite csumn_re.
    apply Qmult_comp; [reflexivity|]. apply sumn_ext. intros t Ht.
    unfold rsig, ofQ, cmul, cconj, re, im; simpl. ring.
  Qed.

  (* the returned half [0 : n/2+1], folded with the real-input symmetry, carries the same total *)
  Lemma corrspec_fold : (0 < n)%nat ->
    (forall k, (0 < k < n)%nat -> corrspec_num X1 X2 (n - k) == corrspec_num X1 X2 k) ->
    sumn (onesided n (corrspec_num X1 X2)) (corrspec_len n) == inj n * sumn (fun t => x1 t * x2 t) n.
  Proof. intros Hn Hs. rewrite <- corrspec_total. apply (fold_sum n _ Hn Hs). Qed.
End CorrSpec.

(* ------------------------------------------------------------------ arrays and axes *)
Lemma flat_map_uniform_length {A B} (f : A -> list B) L l :
  (forall a, In a l -> length (f a) = L) -> length (flat_map f l) = (length l * L)%nat.
Proof.
  induction l as [|a l IH]; intros H; [reflexivity|].
  simpl. rewrite app_length, IH, (H a) by (try (left; reflexivity); intros; apply H; right; assumption). reflexivity.
Qed.

Lemma nth_flat_map_seq {B} (f : nat -> list B) L (d : B) : forall n s a b,
  (forall k, length (f k) = L) -> (a < n)%nat -> (b < L)%nat ->
  nth (a * L + b) (flat_map f (seq s n)) d = nth b (f (s + a)%nat) d.
Proof.
  induction n; intros s a b HL Ha Hb; [lia|].
  cbn [seq flat_map]. destruct a as [|a].
  - simpl. rewrite app_nth1 by (rewrite HL; exact Hb). rewrite Nat.add_0_r. reflexivity.
  - rewrite app_nth2 by (rewrite HL; simpl; lia). rewrite HL.
    replace (S a * L + b - L)%nat with (a * L + b)%nat by (simpl; lia).
    rewrite IHn by (try assumption; lia). f_equal. f_equal. lia.
Qed.

Lemma nth_map_seq_gen {B} (f : nat -> B) (d : B) : forall n s k, (k < n)%nat -> nth k (map f (seq s n)) d = f (s + k)%nat.
Proof.
  induction n; intros s k Hk; [lia|]. cbn [seq map]. destruct k as [|k].
  - rewrite Nat.add_0_r. reflexivity.
  - cbn [nth]. rewrite IHn by lia. f_equal. lia.
Qed.
Lemma nth_map_seq {B} (f : nat -> B) (d : B) n k : (k < n)%nat -> nth k (map f (seq 0 n)) d = f k.
Proof. intros H. rewrite nth_map_seq_gen by exact H. reflexivity. Qed.

Lemma along_length outer M inner g : length (along outer M inner g) = (outer * (M * inner))%nat.
Proof.
  unfold along. cbv zeta.
  rewrite (flat_map_uniform_length _ (M * inner)), seq_length; [reflexivity|].
  intros o _. rewrite (flat_map_uniform_length _ inner), seq_length; [reflexivity|].
  intros t _. rewrite map_length, seq_length. reflexivity.
Qed.

(* entry (o, t, i) of the assembled array is entry t of the result of lane (o, i) *)
Lemma along_nth outer M inner g o t i : (o < outer)%nat -> (t < M)%nat -> (i < inner)%nat ->
  nth ((o * M + t) * inner + i) (along outer M inner g) c0 = nth t (g o i) c0.
Proof.
  intros Ho Ht Hi. unfold along. cbv zeta.
  replace ((o * M + t) * inner + i)%nat with (o * (M * inner) + (t * inner + i))%nat by nia.
  rewrite (nth_flat_map_seq _ (M * inner)); [| |exact Ho|nia].
  2:{ intros k. rewrite (flat_map_uniform_length _ inner), seq_length; [reflexivity|].
      intros t' _. rewrite map_length, seq_length. reflexivity. }
  rewrite (nth_flat_map_seq _ inner); [| |exact Ht|exact Hi].
  2:{ intros k. rewrite map_length, seq_length. reflexivity. }
  cbn [Nat.add]. rewrite !nth_map_seq by assumption. reflexivity.
Qed.

(* the lanes along an axis are a decomposition of the array: taking every lane and laying the
   lanes out again gives the array back *)
Lemma lane_list_length d N inner o i : length (lane_list d N inner o i) = N.
Proof. unfold lane_list. rewrite map_length, seq_length. reflexivity. Qed.

Lemma lane_list_nth d N inner o i t : (t < N)%nat ->
  nth t (lane_list d N inner o i) c0 = nth ((o * N + t) * inner + i) d c0.
Proof.
  intros Ht. unfold lane_list. rewrite nth_map_seq by exact Ht. reflexivity.
Qed.

Lemma along_lanes_id d outer N inner : length d = (outer * (N * inner))%nat ->
  forall o t i, (o < outer)%nat -> (t < N)%nat -> (i < inner)%nat ->
  nth ((o * N + t) * inner + i) (along outer N inner (fun o i => lane_list d N inner o i)) c0 =
  nth ((o * N + t) * inner + i) d c0.
Proof. intros _ o t i Ho Ht Hi. rewrite along_nth by assumption. apply lane_list_nth. exact Ht. Qed.

(* ------------------------------------------------------------------ independence of the unit of the data *)
Lemma cmean_scale c x N : cmean (fun t => cscale c (x t)) N =c= cscale c (cmean x N).
Proof. unfold cmean. rewrite !csumr_eq, csumn_scale. cring. Qed.

Lemma remove_bias_scale c x N t :
  remove_bias (fun t => cscale c (x t)) N t =c= cscale c (remove_bias x N t).
Proof. unfold remove_bias. cbv zeta. rewrite cmean_scale. cring. Qed.

(* the variance scales with the square, so its root (np.std) scales with |c| *)
Lemma cvar_scale c x N : cvar (fun t => cscale c (x t)) N == c * c * cvar x N.
Proof.
  rewrite !cvar_eq.
  rewrite (sumn_ext _ (fun t => (c * c) * cnorm2 (remove_bias x N t))).
  - rewrite sumn_scal. unfold Qdiv. ring.
  - intros t Ht. rewrite remove_bias_scale. apply cnorm2_scale.
Qed.

(* z-scores do not depend on the unit: zscore (c x) = zscore x for every c > 0 (the root of the
   variance of c x is c s); in particular there is no magnitude below which a non-constant series
   may be left un-normalised *)
Lemma zscore_scale c x N s t : ~ c == 0 -> ~ s == 0 ->
  zscore_fn (fun t => cscale c (x t)) N (c * s) t =c= zscore_fn x N s t.
Proof.
  intros Hc Hs. unfold zscore_fn. cbv zeta. rewrite remove_bias_scale.
  generalize (remove_bias x N t). intros [u v].
  split; unfold cscale, re, im; simpl; field; auto.
Qed.

Global Instance cdiv_proper : Proper (ceq ==> ceq ==> ceq) cdiv.
Proof.
  intros a a' [H1 H2] b b' [H3 H4].
  split; unfold cdiv, cmul, cinv, cnorm2, re, im in *; simpl; rewrite H1, H2, H3, H4; reflexivity.
Qed.

Lemma cdiv_scale c a b : ~ c == 0 -> ~ cnorm2 b == 0 -> cdiv (cscale c a) (cscale c b) =c= cdiv a b.
Proof.
  intros Hc Hb. destruct a as [ar ai], b as [br bi]. unfold cnorm2, re, im in Hb; simpl in Hb.
  split; unfold cdiv, cmul, cinv, cscale, cnorm2, re, im; simpl; field; split; try assumption.
  - intro E. apply Hb. assert (E2 : c * c * (br * br + bi * bi) == 0) by (rewrite <- E; ring).
    apply Qmult_integral in E2. destruct E2 as [E2|E2]; [|exact E2].
    apply Qmult_integral in E2. destruct E2; contradiction.
  - intro E. apply Hb. assert (E2 : c * c * (br * br + bi * bi) == 0) by (rewrite <- E; ring).
    apply Qmult_integral in E2. destruct E2 as [E2|E2]; [|exact E2].
    apply Qmult_integral in E2. destruct E2; contradiction.
Qed.

(* percent change does not depend on the unit either *)
Lemma pct_scale c x N t : ~ c == 0 -> ~ cnorm2 (cmean x N) == 0 ->
  pct_fn (fun t => cscale c (x t)) N t =c= pct_fn x N t.
Proof.
  intros Hc Hm. unfold pct_fn. cbv zeta. rewrite cmean_scale, (cdiv_scale c (x t) (cmean x N) Hc Hm).
  reflexivity.
Qed.

(* the lagged sums are bilinear: scaling x by a and y by b scales every covariance by a b *)
Lemma lagsum_scale a b x y N k :
  lagsum (fun t => cscale a (x t)) (fun t => cscale b (y t)) N k =c= cscale (a * b) (lagsum x y N k).
Proof.
  unfold lagsum. rewrite <- csumn_scale. apply csumn_ext. intros t Ht.
  destruct ((N - 1 <=? t + k)%nat && (t + k <? N + N - 1)%nat); cring.
Qed.
