(* Proofs/EntropyP.v — the information measures of Model/Entropy.v instantiated over R with the
   real logarithm, and their properties (property C20, information-theoretic part).

   Route.  For a sample list l (any type with decidable equality) and n = length l the coded sum
   over histogram cells  sum_c [k_c > 0] -(k_c/n) log2 (k_c/n)  equals the sample average
   Hs l = (1/n) sum_{t in l} -log2 (count(t)/n)  (`Rsum_counts`: a sum over the samples is the
   sum over any duplicate-free list of cells containing them, weighted by the counts).  All
   properties are proved for Hs — invariances by reindexing, inequalities by Gibbs' inequality
   ln u <= u - 1 — and transported to the coded functions through
   entropyR [x] = Hs x,  entropyR [x;y] = Hs (combine x y). *)
From Coq Require Import Reals Lra Lia ZArith List Bool Arith Permutation.
From NT Require Import Entropy.
Import ListNotations.
Open Scope R_scope.

Definition log2R (x : R) : R := ln x / ln 2.
Definition termR (k n : nat) : R := - (INR k / INR n) * log2R (INR k / INR n).
Definition entropyR (X : list (list Z)) : R := entropy_gen R 0 Rplus termR X.
Definition condR (x y : list Z) : R := cond_entropy_gen R 0 Rplus Rminus termR x y.
Definition miR (x y : list Z) : R := mutual_info_gen R 0 Rplus Rminus termR x y.
Definition teR (x y : list Z) (lag : nat) : R := transfer_entropy_gen R 0 Rplus Rminus termR x y lag.

(* ------------------------------------------------------------------ real analysis *)
Lemma ln2_pos : 0 < ln 2.
Proof. rewrite <- ln_1. apply ln_increasing; lra. Qed.

(* Gibbs' inequality in its pointwise form *)
Lemma ln_le_sub1 x : 0 < x -> ln x <= x - 1.
Proof.
  intros Hx. destruct (Rle_or_lt (ln x) (x - 1)) as [H|H]; [exact H|exfalso].
  apply exp_increasing in H. rewrite (exp_ln x Hx) in H.
  pose proof (exp_ineq1_le (x - 1)). lra.
Qed.

Lemma ln_le_mono x y : 0 < x -> x <= y -> ln x <= ln y.
Proof.
  intros Hx [H|H]; [left; apply ln_increasing; assumption|subst; right; reflexivity].
Qed.

Lemma ln_div x y : 0 < x -> 0 < y -> ln (x / y) = ln x - ln y.
Proof.
  intros Hx Hy. unfold Rdiv. rewrite ln_mult; [|assumption|apply Rinv_0_lt_compat; assumption].
  rewrite ln_Rinv by assumption. ring.
Qed.

(* ------------------------------------------------------------------ sums over lists *)
Section Sums.
  Context {A : Type}.
  Definition Rsum (psi : A -> R) (l : list A) : R := fold_right (fun a acc => psi a + acc) 0 l.

  Lemma Rsum_app psi l1 l2 : Rsum psi (l1 ++ l2) = Rsum psi l1 + Rsum psi l2.
  Proof. induction l1; simpl; [ring|rewrite IHl1; ring]. Qed.
  Lemma Rsum_ext psi phi l : (forall a, In a l -> psi a = phi a) -> Rsum psi l = Rsum phi l.
  Proof. induction l; simpl; intros H; [reflexivity|]. rewrite (H a), IHl; auto. Qed.
  Lemma Rsum_plus psi phi l : Rsum (fun a => psi a + phi a) l = Rsum psi l + Rsum phi l.
  Proof. induction l; simpl; [ring|rewrite IHl; ring]. Qed.
  Lemma Rsum_scal c psi l : Rsum (fun a => c * psi a) l = c * Rsum psi l.
  Proof. induction l; simpl; [ring|rewrite IHl; ring]. Qed.
  Lemma Rsum_opp psi l : Rsum (fun a => - psi a) l = - Rsum psi l.
  Proof. induction l; simpl; [ring|rewrite IHl; ring]. Qed.
  Lemma Rsum_zero l : Rsum (fun _ => 0) l = 0.
  Proof. induction l; simpl; [reflexivity|rewrite IHl; ring]. Qed.
  Lemma Rsum_const c l : Rsum (fun _ => c) l = INR (length l) * c.
  Proof. induction l; [simpl; ring|]. change (Rsum (fun _ => c) (a :: l)) with (c + Rsum (fun _ => c) l).
    rewrite IHl. change (length (a :: l)) with (S (length l)). rewrite S_INR. ring. Qed.
  Lemma Rsum_le psi phi l : (forall a, In a l -> psi a <= phi a) -> Rsum psi l <= Rsum phi l.
  Proof. induction l; simpl; intros H; [lra|]. pose proof (H a (or_introl eq_refl)).
    assert (Rsum psi l <= Rsum phi l) by (apply IHl; auto). lra. Qed.
  Lemma Rsum_nonneg psi l : (forall a, In a l -> 0 <= psi a) -> 0 <= Rsum psi l.
  Proof. intros H. rewrite <- (Rsum_zero l). apply Rsum_le. exact H. Qed.
  Lemma Rsum_perm psi l l' : Permutation l l' -> Rsum psi l = Rsum psi l'.
  Proof. induction 1; simpl; try lra. Qed.

  (* a duplicate-free sub-list carries at most the sum of the whole list (non-negative terms) *)
  Lemma Rsum_incl_le psi : (forall a, 0 <= psi a) ->
    forall l1 l2, NoDup l1 -> incl l1 l2 -> Rsum psi l1 <= Rsum psi l2.
  Proof.
    intros Hp. induction l1 as [|a l1 IH]; intros l2 Hn Hi.
    - simpl. apply Rsum_nonneg. intros; apply Hp.
    - inversion Hn as [|? ? Hna Hn1]; subst.
      destruct (in_split a l2 (Hi a (or_introl eq_refl))) as [u [v ->]].
      assert (Hi' : incl l1 (u ++ v)).
      { intros b Hb. assert (Hb2 := Hi b (or_intror Hb)). apply in_app_or in Hb2.
        apply in_or_app. destruct Hb2 as [?|[->|?]]; auto. contradiction. }
      specialize (IH (u ++ v) Hn1 Hi'). rewrite Rsum_app in *. simpl. lra.
  Qed.

  Variable dec : forall a b : A, {a = b} + {a <> b}.
  Notation cnt := (count_occ dec).

  Lemma Rsum_indicator psi t cells : NoDup cells -> In t cells ->
    Rsum (fun a => (if dec t a then 1 else 0) * psi a) cells = psi t.
  Proof.
    induction cells as [|c cells IH]; intros Hn Hi; [contradiction|].
    inversion Hn as [|? ? Hnc Hn']; subst. simpl.
    destruct (dec t c) as [->|Hne].
    - rewrite (Rsum_ext _ (fun _ => 0)); [rewrite Rsum_zero; ring|].
      intros a Ha. destruct (dec c a) as [->|]; [contradiction|ring].
    - destruct Hi as [->|Hi]; [contradiction|]. rewrite IH by assumption. ring.
  Qed.

  (* a sum over the samples = the sum over the cells weighted by the counts *)
  Lemma Rsum_counts psi cells : NoDup cells -> forall l, incl l cells ->
    Rsum psi l = Rsum (fun a => INR (cnt l a) * psi a) cells.
  Proof.
    intros Hn. induction l as [|t l IH]; intros Hi.
    - simpl. rewrite (Rsum_ext _ (fun _ => 0)); [rewrite Rsum_zero; reflexivity|]. intros; simpl; ring.
    - assert (Hi' : incl l cells) by (intros b Hb; apply Hi; right; exact Hb).
      change (Rsum psi (t :: l)) with (psi t + Rsum psi l). rewrite (IH Hi').
      rewrite <- (Rsum_indicator psi t cells Hn (Hi t (or_introl eq_refl))).
      rewrite <- Rsum_plus. apply Rsum_ext. intros a Ha. simpl.
      destruct (dec t a); [rewrite S_INR|]; ring.
  Qed.

  Lemma sum_counts l : Rsum (fun a => INR (cnt l a)) (nodup dec l) = INR (length l).
  Proof.
    assert (Hi : incl l (nodup dec l)) by (intros a Ha; apply nodup_In; exact Ha).
    pose proof (Rsum_counts (fun _ => 1) (nodup dec l) (NoDup_nodup dec l) l Hi) as H.
    rewrite Rsum_const in H.
    transitivity (INR (length l) * 1); [|ring]. rewrite H. apply Rsum_ext; intros; ring.
  Qed.

  Lemma cnt_pos l t : In t l -> (0 < cnt l t)%nat.
  Proof. intros H. apply (count_occ_In dec) in H. lia. Qed.
End Sums.

Lemma Rsum_map {A B} (f : A -> B) psi l : Rsum psi (map f l) = Rsum (fun a => psi (f a)) l.
Proof. induction l; simpl; [reflexivity|rewrite IHl; reflexivity]. Qed.

Lemma Rsum_prod {A B} (g : A -> R) (h : B -> R) la lb :
  Rsum (fun p => g (fst p) * h (snd p)) (list_prod la lb) = Rsum g la * Rsum h lb.
Proof.
  induction la as [|a la IH]; simpl; [ring|].
  rewrite Rsum_app, IH, Rsum_map. simpl. rewrite Rsum_scal. ring.
Qed.

(* ------------------------------------------------------------------ entropy of a sample list *)
Section HS.
  Context {A : Type}.
  Variable dec : forall a b : A, {a = b} + {a <> b}.
  Notation cnt := (count_occ dec).

  (* the coded form: a sum over histogram cells with the `p > 0` guard *)
  Definition Hcells (n : nat) (cells l : list A) : R :=
    Rsum (fun c => if (0 <? cnt l c)%nat then termR (cnt l c) n else 0) cells.
  (* sum over the samples of -ln p(sample) *)
  Definition Ls (l : list A) : R := Rsum (fun t => - ln (INR (cnt l t) / INR (length l))) l.
  (* the sample-average form of the entropy in bits *)
  Definition Hs (l : list A) : R := Ls l / (INR (length l) * ln 2).

  Lemma len_pos (l : list A) : l <> [] -> 0 < INR (length l).
  Proof. intros H. apply lt_0_INR. destruct l; [contradiction|simpl; lia]. Qed.

  Lemma Hcells_Hs cells l : l <> [] -> NoDup cells -> incl l cells -> Hcells (length l) cells l = Hs l.
  Proof.
    intros Hl Hn Hi. pose proof (len_pos l Hl) as Hp. pose proof ln2_pos as H2.
    unfold Hs, Ls, Hcells.
    transitivity (Rsum (fun t => / (INR (length l) * ln 2) * - ln (INR (cnt l t) / INR (length l))) l).
    2:{ rewrite Rsum_scal. unfold Rdiv. ring. }
    rewrite (Rsum_counts dec _ cells Hn l Hi).
    apply Rsum_ext. intros c Hc.
    destruct (Nat.ltb_spec 0 (cnt l c)) as [L|L].
    - unfold termR, log2R. field. split; lra.
    - replace (cnt l c) with 0%nat by lia. simpl. ring.
  Qed.

  Lemma cnt_ratio l t : In t l -> 0 < INR (cnt l t) / INR (length l) <= 1.
  Proof.
    intros Hin. assert (Hl : l <> []) by (intro E; subst; contradiction).
    pose proof (len_pos l Hl) as Hp. pose proof (cnt_pos dec l t Hin) as Hc.
    pose proof (count_occ_bound dec t l) as Hb.
    apply lt_INR in Hc. apply le_INR in Hb. simpl in Hc.
    split.
    - apply Rdiv_lt_0_compat; assumption.
    - apply (Rmult_le_reg_r (INR (length l))); [assumption|]. unfold Rdiv.
      rewrite Rmult_assoc, Rinv_l by lra. lra.
  Qed.

  (* ---- non-negativity *)
  Lemma Ls_nonneg l : 0 <= Ls l.
  Proof.
    unfold Ls. apply Rsum_nonneg. intros t Ht. destruct (cnt_ratio l t Ht) as [H0 H1].
    pose proof (ln_le_mono _ _ H0 H1) as H. rewrite ln_1 in H. lra.
  Qed.
  Lemma Hs_nonneg l : l <> [] -> 0 <= Hs l.
  Proof.
    intros Hl. unfold Hs. pose proof (len_pos l Hl). pose proof ln2_pos. pose proof (Ls_nonneg l).
    apply Rmult_le_pos; [assumption|]. left. apply Rinv_0_lt_compat. apply Rmult_lt_0_compat; assumption.
  Qed.

  (* ---- the number of distinct values occurring, as a sum over the samples *)
  Lemma sum_inv_counts cells l : NoDup cells -> incl l cells ->
    Rsum (fun t => / INR (cnt l t)) l <= INR (length cells).
  Proof.
    intros Hn Hi. rewrite (Rsum_counts dec _ cells Hn l Hi).
    rewrite <- (Rmult_1_r (INR (length cells))), <- Rsum_const.
    apply Rsum_le. intros c Hc. destruct (Nat.eq_dec (cnt l c) 0) as [E|E].
    - rewrite E. simpl. lra.
    - rewrite Rinv_r; [lra|]. apply not_0_INR. exact E.
  Qed.

  (* ---- upper bound: H <= log2 (number of cells) *)
  Lemma Ls_le cells l : l <> [] -> NoDup cells -> incl l cells ->
    Ls l <= INR (length l) * ln (INR (length cells)).
  Proof.
    intros Hl Hn Hi. pose proof (len_pos l Hl) as Hp.
    set (n := INR (length l)) in *. set (K := INR (length cells)).
    assert (HK : 0 < K).
    { unfold K. apply lt_0_INR. destruct l as [|a l]; [contradiction|].
      assert (In a cells) by (apply Hi; left; reflexivity). destruct cells; [contradiction|simpl; lia]. }
    assert (E : Ls l <= Rsum (fun t => (ln K - 1) + (n / K) * / INR (cnt l t)) l).
    { unfold Ls. apply Rsum_le. intros t Ht. fold n.
      pose proof (cnt_pos dec l t Ht) as Hc. apply lt_INR in Hc. simpl in Hc.
      set (c := INR (cnt l t)) in *.
      assert (Hu : 0 < n / (K * c)) by (apply Rdiv_lt_0_compat; [assumption|apply Rmult_lt_0_compat; assumption]).
      pose proof (ln_le_sub1 _ Hu) as G.
      rewrite ln_div in G by (try assumption; apply Rmult_lt_0_compat; assumption).
      rewrite ln_mult in G by assumption.
      rewrite ln_div by assumption.
      replace (n / K * / c) with (n / (K * c)) by (field; split; lra). lra. }
    rewrite Rsum_plus, Rsum_const, Rsum_scal in E. fold n in E.
    pose proof (sum_inv_counts cells l Hn Hi) as S. fold K in S.
    assert (n / K * Rsum (fun t => / INR (cnt l t)) l <= n / K * K).
    { apply Rmult_le_compat_l; [|exact S]. left. apply Rdiv_lt_0_compat; assumption. }
    replace (n / K * K) with n in H by (field; lra). lra.
  Qed.

  Lemma Hs_le_log2 cells l : l <> [] -> NoDup cells -> incl l cells ->
    Hs l <= log2R (INR (length cells)).
  Proof.
    intros Hl Hn Hi. pose proof (Ls_le cells l Hl Hn Hi) as H. pose proof (len_pos l Hl) as Hp.
    pose proof ln2_pos as H2. unfold Hs, log2R.
    replace (ln (INR (length cells)) / ln 2) with (INR (length l) * ln (INR (length cells)) / (INR (length l) * ln 2))
      by (field; split; lra).
    unfold Rdiv. apply Rmult_le_compat_r; [|exact H].
    left. apply Rinv_0_lt_compat. apply Rmult_lt_0_compat; assumption.
  Qed.

  (* ---- joint permutation of the samples *)
  Lemma Hs_perm l l' : Permutation l l' -> Hs l = Hs l'.
  Proof.
    intros P. unfold Hs, Ls. rewrite <- (Permutation_length P).
    rewrite <- (Rsum_perm _ l l' P). f_equal. apply Rsum_ext. intros t _.
    rewrite (proj1 (Permutation_count_occ dec l l') P t). reflexivity.
  Qed.
End HS.

(* ---- relabelling of the symbols by an injective map *)
Lemma Hs_map {A B} (dA : forall a b : A, {a = b} + {a <> b}) (dB : forall a b : B, {a = b} + {a <> b})
      (f : A -> B) l : (forall a b, f a = f b -> a = b) -> Hs dB (map f l) = Hs dA l.
Proof.
  intros Hf. unfold Hs, Ls. rewrite map_length, Rsum_map. f_equal. apply Rsum_ext. intros t _.
  rewrite <- (count_occ_map f dA dB Hf). reflexivity.
Qed.

(* ------------------------------------------------------------------ mutual information >= 0 *)
Section MI.
  Context {A B : Type}.
  Variable dA : forall a b : A, {a = b} + {a <> b}.
  Variable dB : forall a b : B, {a = b} + {a <> b}.
  Definition dAB : forall p q : A * B, {p = q} + {p <> q}.
  Proof. decide equality. Defined.

  Lemma Ls_fst (l : list (A * B)) :
    Ls dA (map fst l) = Rsum (fun t => - ln (INR (count_occ dA (map fst l) (fst t)) / INR (length l))) l.
  Proof. unfold Ls. rewrite map_length, Rsum_map. reflexivity. Qed.
  Lemma Ls_snd (l : list (A * B)) :
    Ls dB (map snd l) = Rsum (fun t => - ln (INR (count_occ dB (map snd l) (snd t)) / INR (length l))) l.
  Proof. unfold Ls. rewrite map_length, Rsum_map. reflexivity. Qed.

  Lemma in_map_fst (l : list (A * B)) t : In t l -> In (fst t) (map fst l).
  Proof. intros H. apply in_map. exact H. Qed.
  Lemma in_map_snd (l : list (A * B)) t : In t l -> In (snd t) (map snd l).
  Proof. intros H. apply in_map. exact H. Qed.

  (* sum_t cx cy / cxy <= n^2 *)
  Lemma cross_sum (l : list (A * B)) :
    Rsum (fun t => INR (count_occ dA (map fst l) (fst t)) * INR (count_occ dB (map snd l) (snd t))
                   * / INR (count_occ dAB l t)) l <= INR (length l) * INR (length l).
  Proof.
    set (cx := fun a => INR (count_occ dA (map fst l) a)).
    set (cy := fun b => INR (count_occ dB (map snd l) b)).
    assert (Hi : incl l (nodup dAB l)) by (intros a Ha; apply nodup_In; exact Ha).
    rewrite (Rsum_counts dAB _ (nodup dAB l) (NoDup_nodup dAB l) l Hi).
    apply (Rle_trans _ (Rsum (fun p => cx (fst p) * cy (snd p)) (nodup dAB l))).
    { apply Rsum_le. intros z Hz. apply nodup_In in Hz.
      pose proof (cnt_pos dAB l z Hz) as Hc. apply lt_INR in Hc. simpl in Hc.
      fold (cx (fst z)) (cy (snd z)). right. field. lra. }
    apply (Rle_trans _ (Rsum (fun p => cx (fst p) * cy (snd p)) (list_prod (nodup dA (map fst l)) (nodup dB (map snd l))))).
    { apply Rsum_incl_le.
      - intros p. apply Rmult_le_pos; apply pos_INR.
      - apply NoDup_nodup.
      - intros [a b] Hz. apply nodup_In in Hz. apply in_prod; apply nodup_In.
        + apply (in_map_fst l (a, b) Hz).
        + apply (in_map_snd l (a, b) Hz). }
    rewrite Rsum_prod. unfold cx, cy. rewrite !sum_counts, !map_length. lra.
  Qed.

  Theorem Ls_mi_nonneg (l : list (A * B)) :
    0 <= Ls dA (map fst l) + Ls dB (map snd l) - Ls dAB l.
  Proof.
    destruct l as [|z0 l0]; [unfold Ls; simpl; lra|].
    set (l := z0 :: l0). assert (Hl : l <> []) by discriminate.
    pose proof (len_pos l Hl) as Hp. set (n := INR (length l)) in *.
    rewrite Ls_fst, Ls_snd. unfold Ls at 1. fold n.
    rewrite <- Rsum_plus.
    set (r := fun t => INR (count_occ dA (map fst l) (fst t)) * INR (count_occ dB (map snd l) (snd t))
                       * / INR (count_occ dAB l t) * / n).
    assert (E : Rsum (fun t => 1 - r t) l <=
                Rsum (fun t => - ln (INR (count_occ dA (map fst l) (fst t)) / n) +
                               - ln (INR (count_occ dB (map snd l) (snd t)) / n)) l
                - Rsum (fun t => - ln (INR (count_occ dAB l t) / n)) l).
    { rewrite (Rsum_opp (fun t => ln (INR (count_occ dAB l t) / n)) l).
      set (f12 := fun t => - ln (INR (count_occ dA (map fst l) (fst t)) / n) +
                           - ln (INR (count_occ dB (map snd l) (snd t)) / n)).
      set (g := fun t => ln (INR (count_occ dAB l t) / n)).
      replace (Rsum f12 l - - Rsum g l) with (Rsum (fun t => f12 t + g t) l) by (rewrite Rsum_plus; ring).
      unfold f12, g.
      apply Rsum_le. intros t Ht.
      pose proof (cnt_pos dA _ _ (in_map_fst l t Ht)) as H1. apply lt_INR in H1. simpl in H1.
      pose proof (cnt_pos dB _ _ (in_map_snd l t Ht)) as H2. apply lt_INR in H2. simpl in H2.
      pose proof (cnt_pos dAB l t Ht) as H3. apply lt_INR in H3. simpl in H3.
      unfold r.
      set (a := INR (count_occ dA (map fst l) (fst t))) in *.
      set (b := INR (count_occ dB (map snd l) (snd t))) in *.
      set (c := INR (count_occ dAB l t)) in *.
      assert (Hr : 0 < a * b * / c * / n).
      { repeat apply Rmult_lt_0_compat; try assumption; apply Rinv_0_lt_compat; assumption. }
      pose proof (ln_le_sub1 _ Hr) as G.
      rewrite !ln_mult in G; try assumption; try (apply Rinv_0_lt_compat; assumption);
        try (repeat apply Rmult_lt_0_compat; try assumption; apply Rinv_0_lt_compat; assumption).
      rewrite !ln_Rinv in G by assumption.
      rewrite !ln_div by assumption. lra. }
    assert (S : Rsum r l <= n).
    { unfold r. rewrite (Rsum_ext _ (fun t => / n * (INR (count_occ dA (map fst l) (fst t)) * INR (count_occ dB (map snd l) (snd t))
                   * / INR (count_occ dAB l t))) l) by (intros; ring).
      rewrite Rsum_scal. pose proof (cross_sum l) as C. fold n in C.
      apply (Rmult_le_reg_l n); [assumption|]. rewrite <- Rmult_assoc, Rinv_r by lra. lra. }
    assert (E2 : Rsum (fun t => 1 - r t) l = n - Rsum r l).
    { rewrite (Rsum_ext _ (fun t => 1 + -1 * r t) l) by (intros; ring).
      rewrite Rsum_plus, Rsum_const, Rsum_scal. fold n. ring. }
    lra.
  Qed.

  (* in bits: H(X) + H(Y) - H(X,Y) >= 0 *)
  Theorem Hs_mi_nonneg (l : list (A * B)) : l <> [] ->
    0 <= Hs dA (map fst l) + Hs dB (map snd l) - Hs dAB l.
  Proof.
    intros Hl. unfold Hs. rewrite !map_length. pose proof (len_pos l Hl). pose proof ln2_pos.
    pose proof (Ls_mi_nonneg l) as M.
    replace (Ls dA (map fst l) / (INR (length l) * ln 2) + Ls dB (map snd l) / (INR (length l) * ln 2) -
             Ls dAB l / (INR (length l) * ln 2))
      with ((Ls dA (map fst l) + Ls dB (map snd l) - Ls dAB l) * / (INR (length l) * ln 2)) by (field; split; lra).
    apply Rmult_le_pos; [exact M|]. left. apply Rinv_0_lt_compat. apply Rmult_lt_0_compat; assumption.
  Qed.
End MI.

(* ------------------------------------------------------------------ the coded histogram *)
Lemma NoDup_app_intro {A} (l1 l2 : list A) :
  NoDup l1 -> NoDup l2 -> (forall a, In a l1 -> ~ In a l2) -> NoDup (l1 ++ l2).
Proof.
  induction l1 as [|a l1 IH]; intros H1 H2 Hd; simpl; [exact H2|].
  inversion H1; subst. constructor.
  - intro Hin. apply in_app_or in Hin. destruct Hin as [?|Hin]; [contradiction|]. apply (Hd a); [left; reflexivity|exact Hin].
  - apply IH; auto. intros b Hb. apply Hd. right. exact Hb.
Qed.

Lemma NoDup_map_cons (a : Z) (P : list tuple) : NoDup P -> NoDup (map (cons a) P).
Proof.
  induction 1 as [|p P Hn Hnd IH]; simpl; constructor; [|exact IH].
  intro Hin. apply in_map_iff in Hin. destruct Hin as [q [E Hq]]. inversion E; subst. contradiction.
Qed.

Lemma NoDup_product sets : Forall (@NoDup Z) sets -> NoDup (product sets).
Proof.
  induction 1 as [|s rest Hs Hr IH]; cbn [product]; [repeat constructor; intros []|].
  induction Hs as [|a s Ha Hs' IHs]; cbn [flat_map]; [constructor|].
  apply NoDup_app_intro; [apply NoDup_map_cons; exact IH|exact IHs|].
  intros t Ht Ht2. apply in_map_iff in Ht. destruct Ht as [q [E _]]. subst t.
  apply in_flat_map in Ht2. destruct Ht2 as [a' [Ha' Hq]]. apply in_map_iff in Hq.
  destruct Hq as [q' [E _]]. inversion E; subst. contradiction.
Qed.

Lemma rows_cons2 x y r : rows (x :: y :: r) = zipcons x (rows (y :: r)).
Proof. reflexivity. Qed.

Lemma rows_incl X : incl (rows X) (product (map symset X)).
Proof.
  induction X as [|x rest IH]; [intros t []|].
  destruct rest as [|y r].
  - intros t Ht. cbn [rows] in Ht. apply in_map_iff in Ht. destruct Ht as [a [<- Ha]].
    cbn [map product]. apply in_flat_map. exists a. split; [apply nodup_In; exact Ha|left; reflexivity].
  - intros t Ht. rewrite rows_cons2 in Ht. unfold zipcons in Ht. apply in_map_iff in Ht.
    destruct Ht as [[a q] [<- Hin]]. cbn [fst snd].
    change (map symset (x :: y :: r)) with (symset x :: map symset (y :: r)). cbn [product].
    apply in_flat_map. exists a. split.
    + apply nodup_In. exact (in_combine_l _ _ _ _ Hin).
    + apply in_map. apply IH. exact (in_combine_r _ _ _ _ Hin).
Qed.

Lemma rows_length X n : X <> [] -> Forall (fun xi => length xi = n) X -> length (rows X) = n.
Proof.
  induction X as [|x rest IH]; [contradiction|]. intros _ HF.
  inversion HF as [|? ? Hx Hrest]; subst.
  destruct rest as [|y r].
  - cbn [rows]. rewrite map_length. reflexivity.
  - rewrite rows_cons2. unfold zipcons. rewrite map_length, combine_length.
    rewrite IH by (try discriminate; exact Hrest). lia.
Qed.

Lemma flat_map_cons_length (P : list tuple) s :
  length (flat_map (fun a => map (cons a) P) s) = (length s * length P)%nat.
Proof.
  induction s as [|a s IHs]; [reflexivity|].
  simpl. rewrite app_length, map_length, IHs. reflexivity.
Qed.
Lemma product_length sets : length (product sets) = fold_right (fun s acc => (length s * acc)%nat) 1%nat sets.
Proof.
  induction sets as [|s rest IH]; [reflexivity|].
  change (product (s :: rest)) with (flat_map (fun a => map (cons a) (product rest)) s).
  rewrite flat_map_cons_length, IH. reflexivity.
Qed.

Lemma entropyR_Hcells X :
  entropyR X = Hcells tuple_eq_dec (length (hd [] X)) (product (map symset X)) (rows X).
Proof. reflexivity. Qed.

Lemma symsets_nodup X : Forall (@NoDup Z) (map symset X).
Proof. induction X; constructor; [apply NoDup_nodup|assumption]. Qed.

Lemma hd_len X n : X <> [] -> Forall (fun xi : list Z => length xi = n) X -> length (hd [] X) = n.
Proof. destruct X; [contradiction|]. intros _ H. inversion H; subst. reflexivity. Qed.

(* the coded entropy is the sample-average entropy of the rows *)
Lemma entropyR_rows X n : X <> [] -> (0 < n)%nat -> Forall (fun xi => length xi = n) X ->
  entropyR X = Hs tuple_eq_dec (rows X).
Proof.
  intros HX Hn HF. rewrite entropyR_Hcells, (hd_len X n HX HF), <- (rows_length X n HX HF).
  apply Hcells_Hs.
  - intro E. pose proof (rows_length X n HX HF) as L. rewrite E in L. simpl in L. lia.
  - apply NoDup_product. apply symsets_nodup.
  - apply rows_incl.
Qed.

Lemma rows_nonempty X n : X <> [] -> (0 < n)%nat -> Forall (fun xi => length xi = n) X -> rows X <> [].
Proof. intros HX Hn HF E. pose proof (rows_length X n HX HF) as L. rewrite E in L. simpl in L. lia. Qed.

(* ---- entropies are non-negative and at most log2 of the size of the product alphabet *)
Theorem entropy_nonneg X n : X <> [] -> (0 < n)%nat -> Forall (fun xi => length xi = n) X ->
  0 <= entropyR X.
Proof.
  intros HX Hn HF. rewrite (entropyR_rows X n HX Hn HF). apply Hs_nonneg. apply (rows_nonempty X n); assumption.
Qed.

Theorem entropy_le_log2_card X n : X <> [] -> (0 < n)%nat -> Forall (fun xi => length xi = n) X ->
  entropyR X <= log2R (INR (fold_right (fun s acc => (length s * acc)%nat) 1%nat (map symset X))).
Proof.
  intros HX Hn HF. rewrite (entropyR_rows X n HX Hn HF), <- product_length.
  apply Hs_le_log2; [apply (rows_nonempty X n); assumption|apply NoDup_product, symsets_nodup|apply rows_incl].
Qed.

(* ---- one and two variables in terms of the sequences themselves *)
Definition dZ := Z.eq_dec.
Definition dZZ := @dAB Z Z Z.eq_dec Z.eq_dec.

Lemma entropyR1 x : x <> [] -> entropyR [x] = Hs dZ x.
Proof.
  intros Hx. rewrite (entropyR_rows [x] (length x)); [|discriminate|destruct x; [contradiction|simpl; lia]|repeat constructor].
  cbn [rows]. apply (Hs_map dZ tuple_eq_dec). intros a b E. inversion E. reflexivity.
Qed.

Lemma zipcons_map x (h : Z -> tuple) y :
  zipcons x (map h y) = map (fun p => fst p :: h (snd p)) (combine x y).
Proof.
  unfold zipcons. revert y. induction x as [|a x IH]; intros [|b y]; simpl; try reflexivity.
  rewrite IH. reflexivity.
Qed.

Lemma entropyR2 x y : x <> [] -> length x = length y -> entropyR [x; y] = Hs dZZ (combine x y).
Proof.
  intros Hx Hl. rewrite (entropyR_rows [x; y] (length x)); [|discriminate|destruct x; [contradiction|simpl; lia]|repeat constructor; auto].
  rewrite rows_cons2. cbn [rows]. rewrite zipcons_map.
  apply (Hs_map dZZ tuple_eq_dec). intros [a b] [a' b'] E. inversion E. reflexivity.
Qed.

Lemma fst_combine {A B} (x : list A) (y : list B) : length x = length y -> map fst (combine x y) = x.
Proof. revert y. induction x as [|a x IH]; intros [|b y] H; simpl in *; try discriminate; [reflexivity|]. rewrite IH by lia. reflexivity. Qed.
Lemma snd_combine {A B} (x : list A) (y : list B) : length x = length y -> map snd (combine x y) = y.
Proof. revert y. induction x as [|a x IH]; intros [|b y] H; simpl in *; try discriminate; [reflexivity|]. rewrite IH by lia. reflexivity. Qed.
Lemma combine_swap {A B} (x : list A) (y : list B) : combine y x = map (fun p => (snd p, fst p)) (combine x y).
Proof. revert y. induction x as [|a x IH]; intros [|b y]; simpl; try reflexivity. rewrite IH. reflexivity. Qed.
Lemma combine_map2 {A B A' B'} (f : A -> A') (g : B -> B') x y :
  combine (map f x) (map g y) = map (fun p => (f (fst p), g (snd p))) (combine x y).
Proof. revert y. induction x as [|a x IH]; intros [|b y]; simpl; try reflexivity. rewrite IH. reflexivity. Qed.
Lemma combine_nonempty {A B} (x : list A) (y : list B) : x <> [] -> length x = length y -> combine x y <> [].
Proof. destruct x, y; simpl; intros; try discriminate; try contradiction. Qed.

Theorem entropy_nonneg1 x : x <> [] -> 0 <= entropyR [x].
Proof. intros H. rewrite entropyR1 by assumption. apply Hs_nonneg. exact H. Qed.
Theorem entropy_nonneg2 x y : x <> [] -> length x = length y -> 0 <= entropyR [x; y].
Proof. intros H L. rewrite entropyR2 by assumption. apply Hs_nonneg. apply combine_nonempty; assumption. Qed.

Theorem entropy_le_log2_card1 x : x <> [] -> entropyR [x] <= log2R (INR (length (symset x))).
Proof.
  intros H. rewrite entropyR1 by assumption. apply Hs_le_log2; [exact H|apply NoDup_nodup|].
  intros a Ha. apply nodup_In. exact Ha.
Qed.

Lemma log2R_mono a b : 0 < a -> a <= b -> log2R a <= log2R b.
Proof.
  intros Ha Hab. unfold log2R, Rdiv. apply Rmult_le_compat_r; [left; apply Rinv_0_lt_compat, ln2_pos|].
  apply ln_le_mono; assumption.
Qed.

(* any alphabet containing the symbols *)
Theorem entropy_le_log2_alphabet x (alphabet : list Z) : x <> [] -> NoDup alphabet -> incl x alphabet ->
  entropyR [x] <= log2R (INR (length alphabet)).
Proof.
  intros H Hn Hi. rewrite entropyR1 by assumption. apply Hs_le_log2; assumption.
Qed.

Theorem entropy_le_log2_card2 x y : x <> [] -> length x = length y ->
  entropyR [x; y] <= log2R (INR (length (symset x) * length (symset y))).
Proof.
  intros H L. pose proof (entropy_le_log2_card [x; y] (length x)) as E.
  cbn [map fold_right] in E. rewrite Nat.mul_1_r in E. apply E; [discriminate|destruct x; [contradiction|simpl; lia]|repeat constructor; auto].
Qed.

(* ---- mutual information *)
Theorem mi_def x y : miR x y = entropyR [x] + entropyR [y] - entropyR [x; y].
Proof. reflexivity. Qed.
Theorem cond_def x y : condR x y = entropyR [y; x] - entropyR [y].
Proof. reflexivity. Qed.

Lemma entropyR2_swap x y : x <> [] -> length x = length y -> entropyR [y; x] = entropyR [x; y].
Proof.
  intros H L. assert (Hy : y <> []) by (destruct x, y; simpl in *; try discriminate; try contradiction; discriminate).
  rewrite (entropyR2 y x) by (auto; lia). rewrite (entropyR2 x y) by assumption.
  rewrite combine_swap. apply (Hs_map dZZ dZZ). intros [a b] [a' b'] E. inversion E. reflexivity.
Qed.

Theorem mi_symmetric x y : x <> [] -> length x = length y -> miR x y = miR y x.
Proof. intros H L. rewrite !mi_def, (entropyR2_swap x y H L). ring. Qed.

Theorem mi_nonneg x y : x <> [] -> length x = length y -> 0 <= miR x y.
Proof.
  intros H L. assert (Hy : y <> []) by (destruct x, y; simpl in *; try discriminate; try contradiction; discriminate).
  rewrite mi_def, (entropyR1 x H), (entropyR1 y Hy), (entropyR2 x y H L).
  pose proof (Hs_mi_nonneg dZ dZ (combine x y) (combine_nonempty x y H L)) as M.
  rewrite (fst_combine x y L), (snd_combine x y L) in M. exact M.
Qed.

(* conditioning never increases entropy: H(X|Y) <= H(X) *)
Theorem conditioning_reduces x y : x <> [] -> length x = length y -> condR x y <= entropyR [x].
Proof.
  intros H L. pose proof (mi_nonneg x y H L) as M. rewrite mi_def in M.
  rewrite cond_def, (entropyR2_swap x y H L). lra.
Qed.

(* ---- invariance under relabelling of the symbols *)
Theorem relabel_invariant1 f x : (forall a b : Z, f a = f b -> a = b) -> x <> [] ->
  entropyR [map f x] = entropyR [x].
Proof.
  intros Hf H. assert (Hm : map f x <> []) by (destruct x; [contradiction|discriminate]).
  rewrite (entropyR1 _ Hm), (entropyR1 x H). apply (Hs_map dZ dZ). exact Hf.
Qed.

Theorem relabel_invariant2 f g x y : (forall a b : Z, f a = f b -> a = b) -> (forall a b : Z, g a = g b -> a = b) ->
  x <> [] -> length x = length y -> entropyR [map f x; map g y] = entropyR [x; y].
Proof.
  intros Hf Hg H L. assert (Hm : map f x <> []) by (destruct x; [contradiction|discriminate]).
  rewrite (entropyR2 (map f x) (map g y) Hm) by (rewrite !map_length; exact L).
  rewrite (entropyR2 x y H L), combine_map2. apply (Hs_map dZZ dZZ).
  intros [a b] [a' b'] E. inversion E as [[E1 E2]]. apply Hf in E1. apply Hg in E2. subst. reflexivity.
Qed.

Theorem mi_relabel_invariant f g x y : (forall a b : Z, f a = f b -> a = b) -> (forall a b : Z, g a = g b -> a = b) ->
  x <> [] -> length x = length y -> miR (map f x) (map g y) = miR x y.
Proof.
  intros Hf Hg H L. assert (Hy : y <> []) by (destruct x, y; simpl in *; try discriminate; try contradiction; discriminate).
  rewrite !mi_def, (relabel_invariant1 f x Hf H), (relabel_invariant1 g y Hg Hy), (relabel_invariant2 f g x y Hf Hg H L).
  reflexivity.
Qed.

(* ---- invariance under a joint permutation of the samples *)
Theorem perm_invariant1 x x' : x <> [] -> Permutation x x' -> entropyR [x] = entropyR [x'].
Proof.
  intros H P. assert (H' : x' <> []) by (intro E; subst; apply Permutation_sym, Permutation_nil in P; contradiction).
  rewrite (entropyR1 x H), (entropyR1 x' H'). apply Hs_perm. exact P.
Qed.

Theorem perm_invariant2 x y x' y' : x <> [] -> length x = length y -> length x' = length y' ->
  Permutation (combine x y) (combine x' y') -> entropyR [x; y] = entropyR [x'; y'].
Proof.
  intros H L L' P.
  assert (H' : x' <> []).
  { intro E; subst. simpl in P. apply Permutation_sym, Permutation_nil in P.
    apply (combine_nonempty x y H L). exact P. }
  rewrite (entropyR2 x y H L), (entropyR2 x' y' H' L'). apply Hs_perm. exact P.
Qed.

Theorem mi_perm_invariant x y x' y' : x <> [] -> length x = length y -> length x' = length y' ->
  Permutation (combine x y) (combine x' y') -> miR x y = miR x' y'.
Proof.
  intros H L L' P.
  assert (Px : Permutation x x').
  { rewrite <- (fst_combine x y L), <- (fst_combine x' y' L'). apply Permutation_map. exact P. }
  assert (Py : Permutation y y').
  { rewrite <- (snd_combine x y L), <- (snd_combine x' y' L'). apply Permutation_map. exact P. }
  assert (Hy : y <> []) by (destruct x, y; simpl in *; try discriminate; try contradiction; discriminate).
  rewrite !mi_def, (perm_invariant1 x x' H Px), (perm_invariant1 y y' Hy Py), (perm_invariant2 x y x' y' H L L' P).
  reflexivity.
Qed.

(* ------------------------------------------------------------------ conditional mutual information *)
Lemma Rsum_prod_nested {A B} (G : A * B -> R) la lb :
  Rsum G (list_prod la lb) = Rsum (fun a => Rsum (fun b => G (a, b)) lb) la.
Proof.
  induction la as [|a la IH]; simpl; [reflexivity|].
  rewrite Rsum_app, IH, Rsum_map. reflexivity.
Qed.

Section Marg.
  Context {A B : Type}.
  Variable dA : forall a b : A, {a = b} + {a <> b}.
  Variable dB : forall a b : B, {a = b} + {a <> b}.
  Notation dP := (dAB dA dB).

  (* marginalisation of the joint counts *)
  Lemma marginal (l : list (A * B)) cellsB a : NoDup cellsB -> incl (map snd l) cellsB ->
    Rsum (fun b => INR (count_occ dP l (a, b))) cellsB = INR (count_occ dA (map fst l) a).
  Proof.
    intros Hn. induction l as [|[a' b'] l IH]; intros Hi.
    - simpl. apply Rsum_zero.
    - assert (Hi' : incl (map snd l) cellsB) by (intros x Hx; apply Hi; right; exact Hx).
      assert (Hb : In b' cellsB) by (apply Hi; left; reflexivity).
      specialize (IH Hi').
      cbn [map fst]. cbn [count_occ].
      destruct (dA a' a) as [->|Hne].
      + rewrite S_INR, <- IH, <- (Rsum_indicator dB (fun _ => 1) b' cellsB Hn Hb), <- Rsum_plus.
        apply Rsum_ext. intros b _.
        destruct (dP (a, b') (a, b)) as [E|E]; destruct (dB b' b) as [E2|E2]; try (rewrite S_INR); try ring.
        * exfalso. apply E2. inversion E. reflexivity.
        * exfalso. apply E. subst. reflexivity.
      + rewrite <- IH. apply Rsum_ext. intros b _.
        destruct (dP (a', b') (a, b)) as [E|E]; [exfalso; apply Hne; inversion E; reflexivity|reflexivity].
  Qed.
End Marg.

Lemma Ls_mapform {T U} (dU : forall a b : U, {a = b} + {a <> b}) (f : T -> U) (l : list T) :
  Ls dU (map f l) = Rsum (fun t => - ln (INR (count_occ dU (map f l) (f t)) / INR (length l))) l.
Proof. unfold Ls. rewrite map_length, Rsum_map. reflexivity. Qed.

Section CMI.
  Context {A B C : Type}.
  Variable dA : forall a b : A, {a = b} + {a <> b}.
  Variable dB : forall a b : B, {a = b} + {a <> b}.
  Variable dC : forall a b : C, {a = b} + {a <> b}.
  Notation dBC := (dAB dB dC).
  Notation dABC := (dAB dA dBC).
  Notation dAB' := (dAB dA dB).
  Notation dAC := (dAB dA dC).
  Definition pf (z : A * (B * C)) : A * B := (fst z, fst (snd z)).
  Definition pj (z : A * (B * C)) : A * C := (fst z, snd (snd z)).

  Variable l : list (A * (B * C)).
  Let lP := map fst l.
  Let lPF := map pf l.
  Let lPJ := map pj l.
  Let cP (a : A) := INR (count_occ dA lP a).
  Let cPF (x : A * B) := INR (count_occ dAB' lPF x).
  Let cPJ (x : A * C) := INR (count_occ dAC lPJ x).
  Let c (z : A * (B * C)) := INR (count_occ dABC l z).

  Lemma cmi_cross_sum :
    Rsum (fun t => cPF (pf t) * cPJ (pj t) * / cP (fst t) * / c t) l <= INR (length l).
  Proof.
    assert (Hi : incl l (nodup dABC l)) by (intros a Ha; apply nodup_In; exact Ha).
    rewrite (Rsum_counts dABC _ (nodup dABC l) (NoDup_nodup dABC l) l Hi).
    set (G := fun z : A * (B * C) => cPF (pf z) * cPJ (pj z) * / cP (fst z)).
    apply (Rle_trans _ (Rsum G (nodup dABC l))).
    { apply Rsum_le. intros z Hz. apply nodup_In in Hz.
      pose proof (cnt_pos dABC l z Hz) as Hc. apply lt_INR in Hc. simpl in Hc.
      unfold G, c. set (X := cPF (pf z) * cPJ (pj z) * / cP (fst z)). set (k := INR (count_occ dABC l z)) in *.
      right. replace (k * (X * / k)) with (X * (k * / k)) by ring. rewrite Rinv_r by lra. ring. }
    set (cellsP := nodup dA lP).
    set (cellsF := nodup dB (map (fun z => fst (snd z)) l)).
    set (cellsJ := nodup dC (map (fun z => snd (snd z)) l)).
    assert (Gpos : forall z, 0 <= G z).
    { intros z. unfold G, cPF, cPJ, cP. repeat apply Rmult_le_pos; try apply pos_INR.
      destruct (count_occ dA lP (fst z)) eqn:E.
      - simpl. rewrite Rinv_0. lra.
      - left. apply Rinv_0_lt_compat. apply lt_0_INR. lia. }
    apply (Rle_trans _ (Rsum G (list_prod cellsP (list_prod cellsF cellsJ)))).
    { apply Rsum_incl_le; [exact Gpos|apply NoDup_nodup|].
      intros [p [f j]] Hz. apply nodup_In in Hz. apply in_prod; [|apply in_prod]; apply nodup_In.
      - apply (in_map fst l _ Hz).
      - apply (in_map (fun z => fst (snd z)) l _ Hz).
      - apply (in_map (fun z => snd (snd z)) l _ Hz). }
    rewrite Rsum_prod_nested.
    assert (MF : forall p, Rsum (fun f => cPF (p, f)) cellsF = cP p).
    { intros p. unfold cPF, cP, lPF, lP.
      rewrite (marginal dA dB (map pf l) cellsF p); [|apply NoDup_nodup|].
      - rewrite map_map. reflexivity.
      - rewrite map_map. intros x Hx. apply nodup_In. exact Hx. }
    assert (MJ : forall p, Rsum (fun j => cPJ (p, j)) cellsJ = cP p).
    { intros p. unfold cPJ, cP, lPJ, lP.
      rewrite (marginal dA dC (map pj l) cellsJ p); [|apply NoDup_nodup|].
      - rewrite map_map. reflexivity.
      - rewrite map_map. intros x Hx. apply nodup_In. exact Hx. }
    apply (Rle_trans _ (Rsum cP cellsP)).
    { apply Rsum_le. intros p Hp.
      rewrite (Rsum_ext _ (fun fj => (/ cP p * cPF (p, fst fj)) * cPJ (p, snd fj)) (list_prod cellsF cellsJ)).
      2:{ intros [f j] _. unfold G, pf, pj. simpl. ring. }
      rewrite (Rsum_prod (fun f => / cP p * cPF (p, f)) (fun j => cPJ (p, j))).
      rewrite Rsum_scal, MF, MJ.
      unfold cP. destruct (count_occ dA lP p) eqn:E.
      - simpl. rewrite Rinv_0. lra.
      - right. field. apply not_0_INR. lia. }
    unfold cP, cellsP. rewrite sum_counts. unfold lP. rewrite map_length. lra.
  Qed.

  (* conditional mutual information I(F;J|P) >= 0, as sums of -ln p over the samples *)
  Theorem Ls_cmi_nonneg : 0 <= Ls dAB' lPF + Ls dAC lPJ - Ls dA lP - Ls dABC l.
  Proof.
    destruct (Nat.eq_dec (length l) 0) as [E0|E0].
    { apply length_zero_iff_nil in E0. unfold lPF, lPJ, lP. rewrite E0. unfold Ls. simpl. lra. }
    assert (Hl : l <> []) by (intro E; rewrite E in E0; apply E0; reflexivity).
    pose proof (len_pos l Hl) as Hp. set (n := INR (length l)) in *.
    unfold lPF, lPJ, lP. rewrite (Ls_mapform dAB' pf l), (Ls_mapform dAC pj l), (Ls_mapform dA fst l).
    unfold Ls at 1. fold n. fold lPF lPJ lP. fold (cPF) (cPJ) (cP).
    change (Rsum (fun t => - ln (INR (count_occ dAB' lPF (pf t)) / n)) l) with (Rsum (fun t => - ln (cPF (pf t) / n)) l).
    change (Rsum (fun t => - ln (INR (count_occ dAC lPJ (pj t)) / n)) l) with (Rsum (fun t => - ln (cPJ (pj t) / n)) l).
    change (Rsum (fun t => - ln (INR (count_occ dA lP (fst t)) / n)) l) with (Rsum (fun t => - ln (cP (fst t) / n)) l).
    change (Rsum (fun t => - ln (INR (count_occ dABC l t) / n)) l) with (Rsum (fun t => - ln (c t / n)) l).
    set (r := fun t => cPF (pf t) * cPJ (pj t) * / cP (fst t) * / c t).
    assert (E : Rsum (fun t => 1 - r t) l <=
                Rsum (fun t => - ln (cPF (pf t) / n)) l + Rsum (fun t => - ln (cPJ (pj t) / n)) l
                - Rsum (fun t => - ln (cP (fst t) / n)) l - Rsum (fun t => - ln (c t / n)) l).
    { rewrite (Rsum_opp (fun t => ln (cP (fst t) / n)) l), (Rsum_opp (fun t => ln (c t / n)) l).
      set (f1 := fun t => - ln (cPF (pf t) / n)). set (f2 := fun t => - ln (cPJ (pj t) / n)).
      set (g1 := fun t => ln (cP (fst t) / n)). set (g2 := fun t => ln (c t / n)).
      replace (Rsum f1 l + Rsum f2 l - - Rsum g1 l - - Rsum g2 l)
        with (Rsum (fun t => f1 t + f2 t + g1 t + g2 t) l) by (rewrite !Rsum_plus; ring).
      unfold f1, f2, g1, g2. apply Rsum_le. intros t Ht.
      assert (H1 : 0 < cPF (pf t)) by (apply lt_0_INR, cnt_pos, in_map, Ht).
      assert (H2 : 0 < cPJ (pj t)) by (apply lt_0_INR, cnt_pos, in_map, Ht).
      assert (H3 : 0 < cP (fst t)) by (apply lt_0_INR, cnt_pos, in_map, Ht).
      assert (H4 : 0 < c t) by (apply lt_0_INR, cnt_pos, Ht).
      unfold r. set (a := cPF (pf t)) in *. set (b := cPJ (pj t)) in *. set (p := cP (fst t)) in *. set (q := c t) in *.
      assert (Hr : 0 < a * b * / p * / q).
      { repeat apply Rmult_lt_0_compat; try assumption; apply Rinv_0_lt_compat; assumption. }
      pose proof (ln_le_sub1 _ Hr) as G.
      rewrite !ln_mult in G; try assumption; try (apply Rinv_0_lt_compat; assumption);
        try (repeat apply Rmult_lt_0_compat; try assumption; apply Rinv_0_lt_compat; assumption).
      rewrite !ln_Rinv in G by assumption.
      rewrite !ln_div by assumption. lra. }
    pose proof cmi_cross_sum as S. fold r in S. fold n in S.
    assert (E2 : Rsum (fun t => 1 - r t) l = n - Rsum r l).
    { rewrite (Rsum_ext _ (fun t => 1 + -1 * r t) l) by (intros; ring).
      rewrite Rsum_plus, Rsum_const, Rsum_scal. fold n. ring. }
    lra.
  Qed.
End CMI.

(* ------------------------------------------------------------------ transfer entropy >= 0 *)
Lemma combine_pf {A B C} (P : list A) (F : list B) (J : list C) : length P = length F -> length F = length J ->
  map pf (combine P (combine F J)) = combine P F.
Proof.
  revert F J. induction P as [|p P IH]; intros [|f F] [|j J] H1 H2; simpl in *; try discriminate; try reflexivity.
  unfold pf at 1. simpl. rewrite IH by lia. reflexivity.
Qed.
Lemma combine_pj {A B C} (P : list A) (F : list B) (J : list C) : length P = length F -> length F = length J ->
  map pj (combine P (combine F J)) = combine P J.
Proof.
  revert F J. induction P as [|p P IH]; intros [|f F] [|j J] H1 H2; simpl in *; try discriminate; try reflexivity.
  unfold pj at 1. simpl. rewrite IH by lia. reflexivity.
Qed.
Lemma combine_p {A B C} (P : list A) (F : list B) (J : list C) : length P = length F -> length F = length J ->
  map fst (combine P (combine F J)) = P.
Proof. intros H1 H2. apply fst_combine. rewrite combine_length. lia. Qed.

Lemma rows3 (F J P : list Z) : length P = length F -> length F = length J ->
  rows [F; J; P] = map (fun z : Z * (Z * Z) => [fst (snd z); snd (snd z); fst z]) (combine P (combine F J)).
Proof.
  intros H1 H2. rewrite rows_cons2, rows_cons2. cbn [rows]. rewrite zipcons_map. unfold zipcons.
  revert F J H1 H2. induction P as [|p P IH]; intros [|f F] [|j J] H1 H2; simpl in *; try discriminate; try reflexivity.
  rewrite IH by lia. reflexivity.
Qed.

Lemma roll_left_length x lag : length (roll_left x lag) = length x.
Proof.
  unfold roll_left. destruct (length x) eqn:E; [exact E|].
  rewrite app_length, skipn_length, firstn_length, E.
  pose proof (Nat.mod_upper_bound lag (S n) ltac:(lia)). lia.
Qed.

Definition dZ3 := @dAB Z (Z * Z) Z.eq_dec dZZ.

Lemma entropyR3 F J P : P <> [] -> length P = length F -> length F = length J ->
  entropyR [F; J; P] = Hs dZ3 (combine P (combine F J)).
Proof.
  intros HP H1 H2.
  rewrite (entropyR_rows [F; J; P] (length P)); [|discriminate|destruct P; [contradiction|simpl; lia]|repeat constructor; lia].
  rewrite rows3 by assumption.
  apply (Hs_map dZ3 tuple_eq_dec). intros [p [f j]] [p' [f' j']] E. simpl in E. inversion E. reflexivity.
Qed.

Theorem transfer_entropy_nonneg x y lag : x <> [] -> length x = length y -> 0 <= teR x y lag.
Proof.
  intros Hx L. unfold teR, transfer_entropy_gen. cbv zeta.
  set (Fi := roll_left x lag). assert (LF : length Fi = length x) by apply roll_left_length.
  assert (HF : Fi <> []) by (intro E; rewrite E in LF; destruct x; [contradiction|discriminate]).
  change (cond_entropy_gen R 0 Rplus Rminus termR Fi x) with (condR Fi x). rewrite cond_def.
  change (entropy_gen R 0 Rplus termR) with entropyR.
  rewrite (entropyR2 x Fi Hx) by lia. rewrite (entropyR1 x Hx).
  rewrite (entropyR3 Fi y x Hx) by lia. rewrite (entropyR2 x y Hx L).
  set (l := combine x (combine Fi y)).
  assert (Ll : length l = length x) by (unfold l; rewrite !combine_length; lia).
  replace (Hs dZZ (combine x Fi)) with (Hs dZZ (map pf l)) by (unfold l; rewrite combine_pf by lia; reflexivity).
  replace (Hs dZZ (combine x y)) with (Hs dZZ (map pj l)) by (unfold l; rewrite combine_pj by lia; reflexivity).
  replace (Hs dZ x) with (Hs dZ (map fst l)) by (unfold l; rewrite combine_p by lia; reflexivity).
  unfold Hs. rewrite !map_length.
  assert (Hl : l <> []) by (intro E; rewrite E in Ll; destruct x; [contradiction|discriminate]).
  pose proof (len_pos l Hl) as Hp. pose proof ln2_pos as H2.
  pose proof (Ls_cmi_nonneg Z.eq_dec Z.eq_dec Z.eq_dec l) as M.
  set (d := INR (length l) * ln 2). assert (Hd : 0 < / d) by (apply Rinv_0_lt_compat; unfold d; apply Rmult_lt_0_compat; assumption).
  unfold dZ3, dZZ, dZ in *.
  match goal with |- 0 <= ?a / d - ?b / d - (?c / d - ?e / d) =>
    replace (a / d - b / d - (c / d - e / d)) with ((a + e - b - c) * / d) by (unfold Rdiv; ring) end.
  apply Rmult_le_pos; [exact M|lra].
Qed.

(* ------------------------------------------------------------------ further invariances *)
Lemma nonempty_len {A B} (x : list A) (y : list B) : x <> [] -> length x = length y -> y <> [].
Proof. destruct x, y; simpl; intros; try discriminate; try contradiction. Qed.

(* conditional entropy: invariant under relabelling and joint permutation *)
Theorem cond_relabel_invariant f g x y : (forall a b : Z, f a = f b -> a = b) -> (forall a b : Z, g a = g b -> a = b) ->
  x <> [] -> length x = length y -> condR (map f x) (map g y) = condR x y.
Proof.
  intros Hf Hg H L. pose proof (nonempty_len x y H L) as Hy.
  rewrite !cond_def, (relabel_invariant2 g f y x Hg Hf Hy (eq_sym L)), (relabel_invariant1 g y Hg Hy). reflexivity.
Qed.

Theorem cond_perm_invariant x y x' y' : x <> [] -> length x = length y -> length x' = length y' ->
  Permutation (combine x y) (combine x' y') -> condR x y = condR x' y'.
Proof.
  intros H L L' P. pose proof (nonempty_len x y H L) as Hy.
  assert (P2 : Permutation (combine y x) (combine y' x')).
  { rewrite (combine_swap x y), (combine_swap x' y'). apply Permutation_map. exact P. }
  assert (Py : Permutation y y').
  { rewrite <- (snd_combine x y L), <- (snd_combine x' y' L'). apply Permutation_map. exact P. }
  rewrite !cond_def, (perm_invariant2 y x y' x' Hy (eq_sym L) (eq_sym L') P2), (perm_invariant1 y y' Hy Py). reflexivity.
Qed.

(* transfer entropy: invariant under relabelling (it is not a function of the sample multiset:
   the time order enters through np.roll) *)
Lemma roll_left_map f x lag : roll_left (map f x) lag = map f (roll_left x lag).
Proof.
  unfold roll_left. rewrite map_length. destruct (length x); [reflexivity|].
  rewrite map_app, skipn_map, firstn_map. reflexivity.
Qed.

Lemma combine3_map (f g h : Z -> Z) (P F J : list Z) :
  combine (map h P) (combine (map f F) (map g J)) =
  map (fun z : Z * (Z * Z) => (h (fst z), (f (fst (snd z)), g (snd (snd z))))) (combine P (combine F J)).
Proof.
  rewrite (combine_map2 f g), (combine_map2 h (fun p : Z * Z => (f (fst p), g (snd p)))). reflexivity.
Qed.

Lemma entropyR3_relabel f g h F J P : (forall a b : Z, f a = f b -> a = b) -> (forall a b : Z, g a = g b -> a = b) ->
  (forall a b : Z, h a = h b -> a = b) -> P <> [] -> length P = length F -> length F = length J ->
  entropyR [map f F; map g J; map h P] = entropyR [F; J; P].
Proof.
  intros Hf Hg Hh HP L1 L2.
  assert (HP' : map h P <> []) by (destruct P; [contradiction|discriminate]).
  rewrite (entropyR3 (map f F) (map g J) (map h P) HP') by (rewrite !map_length; assumption).
  rewrite (entropyR3 F J P HP L1 L2), combine3_map.
  apply (Hs_map dZ3 dZ3). intros [p [a b]] [p' [a' b']] E. simpl in E. inversion E as [[E1 E2 E3]].
  apply Hh in E1. apply Hf in E2. apply Hg in E3. subst. reflexivity.
Qed.

Theorem te_relabel_invariant f g x y lag : (forall a b : Z, f a = f b -> a = b) -> (forall a b : Z, g a = g b -> a = b) ->
  x <> [] -> length x = length y -> teR (map f x) (map g y) lag = teR x y lag.
Proof.
  intros Hf Hg H L. unfold teR, transfer_entropy_gen. cbv zeta.
  rewrite roll_left_map. set (Fi := roll_left x lag).
  assert (LF : length Fi = length x) by apply roll_left_length.
  assert (HF : Fi <> []) by (intro E; rewrite E in LF; destruct x; [contradiction|discriminate]).
  change (cond_entropy_gen R 0 Rplus Rminus termR) with condR.
  change (entropy_gen R 0 Rplus termR) with entropyR.
  rewrite (cond_relabel_invariant f f Fi x Hf Hf HF LF).
  rewrite (entropyR3_relabel f g f Fi y x Hf Hg Hf H) by lia.
  rewrite (relabel_invariant2 f g x y Hf Hg H L). reflexivity.
Qed.
