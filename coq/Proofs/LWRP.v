(* Proofs/LWRP.v — lemmas about Model/LWR.v (property C11).
   Part 1: abstract non-commutative ring with transposition (setoid equality): finite sums,
           the Levinson-Wiggins-Robinson invariants, block Yule-Walker, sigma identity, symmetry,
           equivariance under a ring automorphism commuting with transposition and inverse.
   Part 2: n x n matrices over Q (lists) satisfy the ring laws: the theorems apply to the
           executable instance used by the correspondence.
   Part 3: one channel = scalar Levinson-Durbin; crosscov = lagged mean; fit_model order;
           generate_mar recursion; MAR_est_LWR order. *)
From Coq Require Import List Arith QArith Bool Lia Setoid Morphisms Permutation.
From NT Require Import Sums LWR.
Import ListNotations.

(* ------------------------------------------------------------------ the laws *)
Record ring_laws {R : Type} (O : rops R) (req : R -> R -> Prop) : Prop := mk_ring_laws {
  rl_equiv : Equivalence req;
  rl_add_proper : Proper (req ==> req ==> req) (radd O);
  rl_mul_proper : Proper (req ==> req ==> req) (rmul O);
  rl_opp_proper : Proper (req ==> req) (ropp O);
  rl_tr_proper : Proper (req ==> req) (rtr O);
  rl_add_assoc : forall a b c, req (radd O a (radd O b c)) (radd O (radd O a b) c);
  rl_add_comm : forall a b, req (radd O a b) (radd O b a);
  rl_add_0_l : forall a, req (radd O (r0 O) a) a;
  rl_add_opp : forall a, req (radd O a (ropp O a)) (r0 O);
  rl_mul_assoc : forall a b c, req (rmul O a (rmul O b c)) (rmul O (rmul O a b) c);
  rl_mul_1_l : forall a, req (rmul O (r1 O) a) a;
  rl_mul_1_r : forall a, req (rmul O a (r1 O)) a;
  rl_distr_l : forall a b c, req (rmul O a (radd O b c)) (radd O (rmul O a b) (rmul O a c));
  rl_distr_r : forall a b c, req (rmul O (radd O a b) c) (radd O (rmul O a c) (rmul O b c));
  rl_tr_add : forall a b, req (rtr O (radd O a b)) (radd O (rtr O a) (rtr O b));
  rl_tr_mul : forall a b, req (rtr O (rmul O a b)) (rmul O (rtr O b) (rtr O a));
  rl_tr_tr : forall a, req (rtr O (rtr O a)) a;
  rl_tr_1 : req (rtr O (r1 O)) (r1 O)
}.

(* sum_{k<n} f k in a ring *)
Fixpoint rsum {R} (O : rops R) (f : nat -> R) (n : nat) : R :=
  match n with 0%nat => r0 O | S n' => radd O (rsum O f n') (f n') end.

(* A(0) = 1, A(i) = a[i-1] *)
Definition coefA {R} (O : rops R) (a : list R) (i : nat) : R :=
  match i with 0%nat => r1 O | S j => nth j a (r0 O) end.
(* R(k - i) with R(-m) = R(m)^T *)
Definition Rlag {R} (O : rops R) (r : list R) (k i : nat) : R :=
  if (i <=? k)%nat then nth (k - i) r (r0 O) else rtr O (nth (i - k) r (r0 O)).

Section Ring.
  Context {R : Type} (O : rops R) (req : R -> R -> Prop) (RL : ring_laws O req).
  Local Notation "0" := (r0 O).
  Local Notation "1" := (r1 O).
  Local Infix "+" := (radd O).
  Local Infix "*" := (rmul O).
  Local Infix "-" := (rsub O).
  Local Notation "- a" := (ropp O a).
  Local Infix "==" := req (at level 70, no associativity).
  Local Notation tr := (rtr O).
  Local Notation inv := (rinv O).
  Local Notation sum := (rsum O).

  Local Instance req_equiv : Equivalence req := rl_equiv O req RL.
  Local Instance add_proper : Proper (req ==> req ==> req) (radd O) := rl_add_proper O req RL.
  Local Instance mul_proper : Proper (req ==> req ==> req) (rmul O) := rl_mul_proper O req RL.
  Local Instance opp_proper : Proper (req ==> req) (ropp O) := rl_opp_proper O req RL.
  Local Instance tr_proper : Proper (req ==> req) (rtr O) := rl_tr_proper O req RL.
  Local Instance sub_proper : Proper (req ==> req ==> req) (rsub O).
  Proof. intros a a' Ha b b' Hb. unfold rsub. rewrite Ha, Hb. reflexivity. Qed.

  Let add_assoc := rl_add_assoc O req RL.
  Let add_comm := rl_add_comm O req RL.
  Let add_0_l := rl_add_0_l O req RL.
  Let add_opp := rl_add_opp O req RL.
  Let mul_assoc := rl_mul_assoc O req RL.
  Let mul_1_l := rl_mul_1_l O req RL.
  Let mul_1_r := rl_mul_1_r O req RL.
  Let distr_l := rl_distr_l O req RL.
  Let distr_r := rl_distr_r O req RL.
  Let tr_add := rl_tr_add O req RL.
  Let tr_mul := rl_tr_mul O req RL.
  Let tr_tr := rl_tr_tr O req RL.
  Let tr_1 := rl_tr_1 O req RL.

  Lemma add_0_r a : a + 0 == a.
  Proof. rewrite add_comm. apply add_0_l. Qed.
  Lemma opp_add_l a : - a + a == 0.
  Proof. rewrite add_comm. apply add_opp. Qed.
  Lemma add_cancel_l a b c : a + b == a + c -> b == c.
  Proof.
    intros H. rewrite <- (add_0_l b), <- (add_0_l c), <- (opp_add_l a).
    rewrite <- !add_assoc. rewrite H. reflexivity.
  Qed.
  Lemma mul_0_l a : 0 * a == 0.
  Proof.
    apply (add_cancel_l (0 * a)). rewrite <- distr_r. rewrite add_0_r. rewrite add_0_r. reflexivity.
  Qed.
  Lemma mul_0_r a : a * 0 == 0.
  Proof.
    apply (add_cancel_l (a * 0)). rewrite <- distr_l. rewrite add_0_r. rewrite add_0_r. reflexivity.
  Qed.
  Lemma opp_unique a b : a + b == 0 -> b == - a.
  Proof. intros H. apply (add_cancel_l a). rewrite H, add_opp. reflexivity. Qed.
  Lemma mul_opp_l a b : (- a) * b == - (a * b).
  Proof. apply opp_unique. rewrite <- distr_r, add_opp. apply mul_0_l. Qed.
  Lemma mul_opp_r a b : a * (- b) == - (a * b).
  Proof. apply opp_unique. rewrite <- distr_l, add_opp. apply mul_0_r. Qed.
  Lemma opp_0 : - 0 == 0.
  Proof. symmetry. apply opp_unique. apply add_0_l. Qed.
  Lemma opp_opp a : - - a == a.
  Proof. symmetry. apply opp_unique. apply opp_add_l. Qed.
  Lemma opp_add a b : - (a + b) == - a + - b.
  Proof.
    symmetry. apply opp_unique.
    rewrite (add_comm (- a)). rewrite add_assoc. rewrite <- (add_assoc a b).
    rewrite add_opp, add_0_r. apply add_opp.
  Qed.
  Lemma tr_0 : tr 0 == 0.
  Proof. apply (add_cancel_l (tr 0)). rewrite <- tr_add. rewrite !add_0_r. reflexivity. Qed.
  Lemma tr_opp a : tr (- a) == - tr a.
  Proof. apply opp_unique. rewrite <- tr_add, add_opp. apply tr_0. Qed.
  Lemma sub_self a : a - a == 0.
  Proof. unfold rsub. apply add_opp. Qed.
  Lemma sub_0_r a : a - 0 == a.
  Proof. unfold rsub. rewrite opp_0. apply add_0_r. Qed.
  Lemma sub_distr_r a b c : (a - b) * c == a * c - b * c.
  Proof. unfold rsub. rewrite distr_r, mul_opp_l. reflexivity. Qed.
  Lemma tr_sub a b : tr (a - b) == tr a - tr b.
  Proof. unfold rsub. rewrite tr_add, tr_opp. reflexivity. Qed.

  (* ---------------------------------------------------------------- sums *)
  Lemma sum_ext f g n : (forall k, (k < n)%nat -> f k == g k) -> sum f n == sum g n.
  Proof.
    induction n; simpl; intros H; [reflexivity|].
    rewrite IHn by (intros; apply H; lia). rewrite (H n) by lia. reflexivity.
  Qed.
  Lemma sum_zero f n : (forall k, (k < n)%nat -> f k == 0) -> sum f n == 0.
  Proof.
    induction n; simpl; intros H; [reflexivity|].
    rewrite IHn by (intros; apply H; lia). rewrite (H n) by lia. apply add_0_l.
  Qed.
  Lemma sum_add f g n : sum (fun k => f k + g k) n == sum f n + sum g n.
  Proof.
    induction n; simpl; [rewrite add_0_l; reflexivity|].
    rewrite IHn. rewrite <- !add_assoc. apply add_proper; [reflexivity|].
    rewrite !add_assoc. apply add_proper; [|reflexivity]. apply add_comm.
  Qed.
  Lemma sum_mul_l c f n : sum (fun k => c * f k) n == c * sum f n.
  Proof. induction n; simpl; [rewrite mul_0_r; reflexivity|]. rewrite IHn, distr_l. reflexivity. Qed.
  Lemma sum_mul_r c f n : sum (fun k => f k * c) n == sum f n * c.
  Proof. induction n; simpl; [rewrite mul_0_l; reflexivity|]. rewrite IHn, distr_r. reflexivity. Qed.
  Lemma sum_opp f n : sum (fun k => - f k) n == - sum f n.
  Proof. induction n; simpl; [rewrite opp_0; reflexivity|]. rewrite IHn, opp_add. reflexivity. Qed.
  Lemma sum_sub f g n : sum (fun k => f k - g k) n == sum f n - sum g n.
  Proof. unfold rsub. rewrite sum_add, sum_opp. reflexivity. Qed.
  Lemma sum_tr f n : tr (sum f n) == sum (fun k => tr (f k)) n.
  Proof. induction n; simpl; [apply tr_0|]. rewrite tr_add, IHn. reflexivity. Qed.
  Lemma sum_swap (f : nat -> nat -> R) n m :
    sum (fun i => sum (fun j => f i j) m) n == sum (fun j => sum (fun i => f i j) n) m.
  Proof.
    induction n; simpl.
    - symmetry. apply sum_zero. intros; reflexivity.
    - rewrite IHn. rewrite <- sum_add. reflexivity.
  Qed.
  Lemma sum_first f n : sum f (S n) == f 0%nat + sum (fun k => f (S k)) n.
  Proof.
    induction n.
    - simpl. rewrite add_0_l, add_0_r. reflexivity.
    - change (sum f (S (S n))) with (sum f (S n) + f (S n)). rewrite IHn.
      simpl. rewrite add_assoc. reflexivity.
  Qed.
  Lemma sum_rev f n : sum f n == sum (fun k => f (n - 1 - k)%nat) n.
  Proof.
    revert f. induction n; intros f; [reflexivity|].
    rewrite sum_first.
    change (sum (fun k => f (S n - 1 - k)%nat) (S n))
      with (sum (fun k => f (S n - 1 - k)%nat) n + f (S n - 1 - n)%nat).
    rewrite (IHn (fun k => f (S k))).
    replace (S n - 1 - n)%nat with 0%nat by lia.
    rewrite add_comm. apply add_proper; [|reflexivity].
    apply sum_ext. intros k Hk. replace (S (n - 1 - k)) with (S n - 1 - k)%nat by lia. reflexivity.
  Qed.
  (* all terms but the first vanish *)
  Lemma sum_only0 f n : (forall k, (1 <= k <= n)%nat -> f k == 0) -> sum f (S n) == f 0%nat.
  Proof.
    intros H. rewrite sum_first. rewrite sum_zero; [apply add_0_r|].
    intros k Hk. apply H. lia.
  Qed.

  (* fold in the code's order = sum *)
  Lemma fold_add_sum (g : nat -> R) x p :
    fold_left (fun d i => d + g i) (seq 1 p) x == x + sum (fun i => g (S i)) p.
  Proof.
    induction p.
    - simpl. rewrite add_0_r. reflexivity.
    - rewrite seq_S, fold_left_app. simpl. rewrite IHp. rewrite <- add_assoc. reflexivity.
  Qed.

  (* ---------------------------------------------------------------- lag access *)
  Local Notation A := (coefA O).
  Local Notation Rl := (Rlag O).

  Lemma Rlag_shift r k i k' i' : (k + i' = k' + i)%nat -> Rl r k i = Rl r k' i'.
  Proof.
    intros H. unfold Rlag.
    destruct (i <=? k)%nat eqn:E1; destruct (i' <=? k')%nat eqn:E2;
      try apply Nat.leb_le in E1; try apply Nat.leb_le in E2;
      try apply Nat.leb_gt in E1; try apply Nat.leb_gt in E2; try lia.
    - replace (k' - i')%nat with (k - i)%nat by lia. reflexivity.
    - replace (i' - k')%nat with (i - k)%nat by lia. reflexivity.
  Qed.
  Lemma Rlag_tr r k i : tr (nth 0 r 0) == nth 0 r 0 -> tr (Rl r k i) == Rl r i k.
  Proof.
    intros H. unfold Rlag.
    destruct (i <=? k)%nat eqn:E1; destruct (k <=? i)%nat eqn:E2;
      try apply Nat.leb_le in E1; try apply Nat.leb_le in E2;
      try apply Nat.leb_gt in E1; try apply Nat.leb_gt in E2; try lia.
    - assert (k = i) by lia. subst. rewrite Nat.sub_diag. exact H.
    - reflexivity.
    - apply tr_tr.
  Qed.

  Lemma delta_is_sum r a p :
    lwr_delta O r a p == sum (fun i => A a i * Rl r (S p) i) (S p).
  Proof.
    unfold lwr_delta. rewrite fold_add_sum. rewrite sum_first.
    apply add_proper.
    - simpl. unfold Rlag. simpl. rewrite mul_1_l. replace (p + 1)%nat with (S p) by lia. reflexivity.
    - apply sum_ext. intros i Hi. replace (S i - 1)%nat with i by lia.
      change (A a (S i)) with (nth i a 0).
      unfold Rlag. replace (S i <=? S p)%nat with true by (symmetry; apply Nat.leb_le; lia).
      replace (p + 1 - S i)%nat with (S p - S i)%nat by lia. reflexivity.
  Qed.

  (* ---------------------------------------------------------------- the invariants *)
  Definition lwr_inv (r : list R) (p : nat) (st : lwr_state) : Prop :=
    let '(a, b, sigf, sigb) := st in
    length a = p /\ length b = p /\
    (forall k, (1 <= k <= p)%nat -> sum (fun i => A a i * Rl r k i) (S p) == 0) /\
    sum (fun i => A a i * Rl r 0 i) (S p) == sigf /\
    (forall k, (1 <= k <= p)%nat -> sum (fun i => A b i * Rl r i k) (S p) == 0) /\
    sum (fun i => A b i * Rl r i 0) (S p) == sigb.

  (* nth of the updated coefficient list *)
  Lemma nth_map_seq1 (g : nat -> R) z p j :
    nth j (map g (seq 1 p) ++ [z]) 0 =
    if (j <? p)%nat then g (S j) else if (j =? p)%nat then z else 0.
  Proof.
    destruct (j <? p)%nat eqn:E.
    - apply Nat.ltb_lt in E. rewrite app_nth1 by (rewrite map_length, seq_length; lia).
      rewrite (nth_indep _ 0 (g 0%nat)) by (rewrite map_length, seq_length; lia).
      rewrite map_nth. rewrite seq_nth by lia. reflexivity.
    - apply Nat.ltb_ge in E. rewrite app_nth2 by (rewrite map_length, seq_length; lia).
      rewrite map_length, seq_length.
      destruct (j =? p)%nat eqn:E2.
      + apply Nat.eqb_eq in E2. subst. rewrite Nat.sub_diag. reflexivity.
      + apply Nat.eqb_neq in E2. destruct (j - p)%nat eqn:E3; [lia|]. simpl. destruct n; reflexivity.
  Qed.

  Lemma coef_update a b c p i :
    length a = p -> length b = p -> (i <= S p)%nat ->
    A (map (fun i => nth (i - 1) a 0 - c * nth (p - i) b 0) (seq 1 p) ++ [- c]) i
    == A a i - c * A b (S p - i).
  Proof.
    intros La Lb Hi. destruct i as [|j].
    - simpl. rewrite (nth_overflow b) by lia. rewrite mul_0_r, sub_0_r. reflexivity.
    - simpl coefA at 1. rewrite nth_map_seq1.
      destruct (j <? p)%nat eqn:E.
      + apply Nat.ltb_lt in E. replace (S j - 1)%nat with j by lia.
        change (A a (S j)) with (nth j a 0).
        replace (S p - S j)%nat with (S (p - S j)) by lia. reflexivity.
      + apply Nat.ltb_ge in E. assert (j = p) by lia. subst j. rewrite Nat.eqb_refl.
        simpl coefA. rewrite (nth_overflow a) by lia. rewrite Nat.sub_diag.
        unfold rsub. rewrite add_0_l, mul_1_r. reflexivity.
  Qed.

  (* the combination step on a weighted sum *)
  Lemma comb_sum (F G X : nat -> R) c n :
    F n == 0 -> G n == 0 ->
    sum (fun i => (F i - c * G (n - i)%nat) * X i) (S n)
    == sum (fun i => F i * X i) n - c * sum (fun j => G j * X (n - j)%nat) n.
  Proof.
    intros HF HG.
    transitivity (sum (fun i => F i * X i) (S n) - c * sum (fun i => G (n - i)%nat * X i) (S n)).
    - rewrite <- sum_mul_l, <- sum_sub. apply sum_ext. intros i _.
      rewrite sub_distr_r, mul_assoc. reflexivity.
    - apply sub_proper.
      + simpl. rewrite HF, mul_0_l, add_0_r. reflexivity.
      + apply mul_proper; [reflexivity|].
        rewrite sum_rev.
        rewrite (sum_ext _ (fun j => G j * X (n - j)%nat)).
        * simpl. rewrite HG, mul_0_l, add_0_r. reflexivity.
        * intros j Hj.
          replace (n - (S n - 1 - j))%nat with j by lia.
          replace (S n - 1 - j)%nat with (n - j)%nat by lia. reflexivity.
  Qed.

  (* the backward partial correlation is the transpose of the forward one *)
  Lemma delta_backward r a b p :
    tr (nth 0 r 0) == nth 0 r 0 ->
    (forall k, (1 <= k <= p)%nat -> sum (fun i => A a i * Rl r k i) (S p) == 0) ->
    (forall k, (1 <= k <= p)%nat -> sum (fun i => A b i * Rl r i k) (S p) == 0) ->
    sum (fun j => A b j * Rl r j (S p)) (S p) == tr (sum (fun i => A a i * Rl r (S p) i) (S p)).
  Proof.
    intros Hs HF HB.
    set (T := fun i j => (A a i * Rl r (S p) (i + j)) * tr (A b j)).
    assert (E1 : sum (fun i => sum (fun j => T i j) (S p)) (S p)
                 == tr (sum (fun j => A b j * Rl r j (S p)) (S p))).
    { rewrite sum_only0.
      - unfold T. simpl coefA.
        transitivity (1 * sum (fun j => Rl r (S p) j * tr (A b j)) (S p)).
        + rewrite <- sum_mul_l. apply sum_ext. intros j _. simpl. rewrite mul_assoc. reflexivity.
        + rewrite mul_1_l. rewrite sum_tr. apply sum_ext. intros j _.
          rewrite tr_mul. rewrite (Rlag_tr r j (S p) Hs). reflexivity.
      - intros i Hi. unfold T.
        transitivity (A a i * tr (sum (fun j => A b j * Rl r j ((S p) - i)%nat) (S p))).
        + rewrite sum_tr, <- sum_mul_l. apply sum_ext. intros j Hj.
          rewrite tr_mul. rewrite (Rlag_tr r j ((S p) - i) Hs).
          rewrite <- mul_assoc. rewrite (Rlag_shift r (S p) (i + j) ((S p) - i) j) by lia. reflexivity.
        + rewrite (HB ((S p) - i)%nat) by lia. rewrite tr_0. apply mul_0_r. }
    assert (E2 : sum (fun j => sum (fun i => T i j) (S p)) (S p)
                 == sum (fun i => A a i * Rl r (S p) i) (S p)).
    { rewrite sum_only0.
      - unfold T. rewrite sum_mul_r. simpl coefA. rewrite tr_1, mul_1_r.
        apply sum_ext. intros i _. rewrite Nat.add_0_r. reflexivity.
      - intros j Hj. unfold T. rewrite sum_mul_r.
        rewrite (sum_ext _ (fun i => A a i * Rl r ((S p) - j)%nat i)).
        + rewrite (HF ((S p) - j)%nat) by lia. apply mul_0_l.
        + intros i Hi. rewrite (Rlag_shift r (S p) (i + j) ((S p) - j) i) by lia. reflexivity. }
    rewrite sum_swap in E1. rewrite E2 in E1.
    rewrite E1. rewrite tr_tr. reflexivity.
  Qed.

  Lemma lwr_step_inv r p st :
    tr (nth 0 r 0) == nth 0 r 0 ->
    lwr_inv r p st ->
    (let '(_, _, sigf, sigb) := st in inv sigf * sigf == 1 /\ inv sigb * sigb == 1) ->
    lwr_inv r (S p) (lwr_step O r st p).
  Proof.
    intros Hs. destruct st as [[[a b] sigf] sigb].
    intros (La & Lb & HF & HF0 & HB & HB0) (Hif & Hib).
    unfold lwr_step.
    set (dc := lwr_delta O r a p).
    set (ka := dc * inv sigb). set (kb := tr dc * inv sigf).
    set (delta := sum (fun i => A a i * Rl r (S p) i) (S p)).
    assert (Hd : dc == delta) by apply delta_is_sum.
    assert (Hdb : sum (fun j => A b j * Rl r j (S p)) (S p) == tr delta)
      by (apply delta_backward; assumption).
    assert (Hka : ka * sigb == delta).
    { unfold ka. rewrite <- mul_assoc, Hib, mul_1_r. exact Hd. }
    assert (Hkb : kb * sigf == tr delta).
    { unfold kb. rewrite <- mul_assoc, Hif, mul_1_r, Hd. reflexivity. }
    assert (Ha0 : A a (S p) == 0) by (simpl; rewrite nth_overflow by lia; reflexivity).
    assert (Hb0 : A b (S p) == 0) by (simpl; rewrite nth_overflow by lia; reflexivity).
    unfold lwr_inv.
    repeat split.
    - rewrite app_length, map_length, seq_length. simpl. lia.
    - rewrite app_length, map_length, seq_length. simpl. lia.
    - (* forward equations k = 1..p+1 *)
      intros k Hk.
      rewrite (sum_ext _ (fun i => (A a i - ka * A b (S p - i)) * Rl r k i))
        by (intros i Hi; rewrite coef_update by lia; reflexivity).
      rewrite comb_sum by assumption.
      rewrite (sum_ext (fun j => A b j * Rl r k (S p - j)) (fun j => A b j * Rl r j (S p - k)))
        by (intros j Hj; rewrite (Rlag_shift r k (S p - j) j (S p - k)) by lia; reflexivity).
      destruct (Nat.eq_dec k (S p)) as [->|Hne].
      + rewrite Nat.sub_diag, HB0. fold delta. rewrite Hka. apply sub_self.
      + rewrite HF by lia. rewrite HB by lia. rewrite mul_0_r. apply sub_self.
    - (* sigf *)
      rewrite (sum_ext _ (fun i => (A a i - ka * A b (S p - i)) * Rl r 0 i))
        by (intros i Hi; rewrite coef_update by lia; reflexivity).
      rewrite comb_sum by assumption.
      rewrite (sum_ext (fun j => A b j * Rl r 0 (S p - j)) (fun j => A b j * Rl r j (S p)))
        by (intros j Hj; rewrite (Rlag_shift r 0 (S p - j) j (S p)) by lia; reflexivity).
      rewrite HF0, Hdb.
      rewrite sub_distr_r, mul_1_l. rewrite <- (mul_assoc ka kb sigf), Hkb. reflexivity.
    - (* backward equations *)
      intros k Hk.
      rewrite (sum_ext _ (fun i => (A b i - kb * A a (S p - i)) * Rl r i k))
        by (intros i Hi; rewrite coef_update by lia; reflexivity).
      rewrite (comb_sum (A b) (A a) (fun i => Rl r i k)) by assumption.
      rewrite (sum_ext (fun j => A a j * Rl r (S p - j) k) (fun j => A a j * Rl r (S p - k) j))
        by (intros j Hj; rewrite (Rlag_shift r (S p - j) k (S p - k) j) by lia; reflexivity).
      destruct (Nat.eq_dec k (S p)) as [->|Hne].
      + rewrite Nat.sub_diag, HF0, Hdb, Hkb. apply sub_self.
      + rewrite HF by lia. rewrite HB by lia. rewrite mul_0_r. apply sub_self.
    - (* sigb *)
      rewrite (sum_ext _ (fun i => (A b i - kb * A a (S p - i)) * Rl r i 0))
        by (intros i Hi; rewrite coef_update by lia; reflexivity).
      rewrite (comb_sum (A b) (A a) (fun i => Rl r i 0)) by assumption.
      rewrite (sum_ext (fun j => A a j * Rl r (S p - j) 0) (fun j => A a j * Rl r (S p) j))
        by (intros j Hj; rewrite (Rlag_shift r (S p - j) 0 (S p) j) by lia; reflexivity).
      rewrite HB0. fold delta.
      rewrite sub_distr_r, mul_1_l. rewrite <- (mul_assoc kb ka sigb), Hka. reflexivity.
  Qed.

  Lemma lwr_run_S r n : lwr_run O r (S n) = lwr_step O r (lwr_run O r n) n.
  Proof. unfold lwr_run. rewrite seq_S, fold_left_app. reflexivity. Qed.

  Lemma lwr_init_inv r : lwr_inv r 0 (lwr_init O r).
  Proof.
    unfold lwr_inv, lwr_init. repeat split; try (intros; lia).
    - simpl. unfold Rlag. simpl. rewrite add_0_l, mul_1_l. reflexivity.
    - simpl. unfold Rlag. simpl. rewrite add_0_l, mul_1_l. reflexivity.
  Qed.

  (* every error covariance that gets inverted is inverted by `inv` (left inverse suffices) *)
  Definition steps_ok (r : list R) (P : nat) : Prop :=
    forall p, (p < P)%nat ->
      let '(_, _, sigf, sigb) := lwr_run O r p in inv sigf * sigf == 1 /\ inv sigb * sigb == 1.

  Lemma lwr_run_inv r P :
    tr (nth 0 r 0) == nth 0 r 0 -> steps_ok r P ->
    forall n, (n <= P)%nat -> lwr_inv r n (lwr_run O r n).
  Proof.
    intros Hs Hok. induction n; intros Hn.
    - apply lwr_init_inv.
    - rewrite lwr_run_S. apply lwr_step_inv; [assumption|apply IHn; lia|].
      specialize (Hok n). destruct (lwr_run O r n) as [[[a b] sf] sb]. apply Hok. lia.
  Qed.

  (* symmetry of the innovation covariance follows from the equations and the identity *)
  Lemma sigma_symmetric r a sigma P :
    tr (nth 0 r 0) == nth 0 r 0 ->
    (forall k, (1 <= k <= P)%nat -> sum (fun i => A a i * Rl r k i) (S P) == 0) ->
    sum (fun i => A a i * Rl r 0 i) (S P) == sigma ->
    tr sigma == sigma.
  Proof.
    intros Hs HF HF0.
    set (T := fun i j => (A a i * Rl r j i) * tr (A a j)).
    assert (E1 : sum (fun j => sum (fun i => T i j) (S P)) (S P) == sigma).
    { rewrite sum_only0.
      - unfold T. rewrite sum_mul_r. simpl coefA. rewrite tr_1, mul_1_r. exact HF0.
      - intros j Hj. unfold T. rewrite sum_mul_r. rewrite HF by lia. apply mul_0_l. }
    assert (E2 : sum (fun i => sum (fun j => T i j) (S P)) (S P) == tr sigma).
    { assert (G : forall i, sum (fun j => T i j) (S P) == A a i * tr (sum (fun j => A a j * Rl r i j) (S P))).
      { intros i. unfold T. rewrite sum_tr, <- sum_mul_l. apply sum_ext. intros j _.
        rewrite tr_mul. rewrite (Rlag_tr r i j Hs). rewrite mul_assoc. reflexivity. }
      rewrite sum_only0.
      - rewrite G. simpl coefA. rewrite mul_1_l. rewrite HF0. reflexivity.
      - intros i Hi. rewrite G. rewrite HF by lia. rewrite tr_0. apply mul_0_r. }
    rewrite sum_swap in E2. rewrite E1 in E2. symmetry. exact E2.
  Qed.

  (* sigma = Abar T Abar^T : the congruence behind symmetry and positive-definiteness *)
  Lemma sigma_congruence r a sigma P :
    (forall k, (1 <= k <= P)%nat -> sum (fun i => A a i * Rl r k i) (S P) == 0) ->
    sum (fun i => A a i * Rl r 0 i) (S P) == sigma ->
    sum (fun j => sum (fun i => (A a i * Rl r j i) * tr (A a j)) (S P)) (S P) == sigma.
  Proof.
    intros HF HF0. rewrite sum_only0.
    - rewrite sum_mul_r. simpl coefA. rewrite tr_1, mul_1_r. exact HF0.
    - intros j Hj. rewrite sum_mul_r. rewrite HF by lia. apply mul_0_l.
  Qed.

  (* MAIN: the recursion solves the block Yule-Walker system of order P = len(r) - 1 *)
  Theorem lwr_solves_block_YW_lemma r P :
    length r = S P ->
    tr (nth 0 r 0) == nth 0 r 0 ->
    steps_ok r P ->
    let '(a, sigma) := lwr_recursion O r in
    length a = P /\
    (forall k, (1 <= k <= P)%nat -> sum (fun i => A a i * Rl r k i) (S P) == 0) /\
    sum (fun i => A a i * Rl r 0 i) (S P) == sigma /\
    tr sigma == sigma.
  Proof.
    intros L Hs Hok. unfold lwr_recursion. rewrite L. simpl Nat.sub. rewrite Nat.sub_0_r.
    pose proof (lwr_run_inv r P Hs Hok P (le_n P)) as H.
    destruct (lwr_run O r P) as [[[a b] sf] sb].
    destruct H as (La & Lb & HF & HF0 & HB & HB0).
    repeat split; auto.
    eapply sigma_symmetric; eauto.
  Qed.
End Ring.

(* ------------------------------------------------------------------ equivariance *)
(* A map phi that respects + * - 0 1, transposition and (on the inverted values) the inverse
   commutes with every step of the recursion.  Conjugation by a permutation matrix,
   x |-> Pm x Pm^T, is such a map: relabelling the channels permutes the result. *)
Section Equivariance.
  Context {R : Type} (O : rops R) (req : R -> R -> Prop) (RL : ring_laws O req).
  Variable phi : R -> R.
  Local Notation "0" := (r0 O).
  Local Notation "1" := (r1 O).
  Local Infix "+" := (radd O).
  Local Infix "*" := (rmul O).
  Local Infix "-" := (rsub O).
  Local Infix "==" := req (at level 70, no associativity).
  Local Notation tr := (rtr O).
  Local Notation inv := (rinv O).

  Hypothesis phi_proper : Proper (req ==> req) phi.
  Hypothesis phi_0 : phi 0 == 0.
  Hypothesis phi_1 : phi 1 == 1.
  Hypothesis phi_add : forall a b, phi (a + b) == phi a + phi b.
  Hypothesis phi_mul : forall a b, phi (a * b) == phi a * phi b.
  Hypothesis phi_opp : forall a, phi (ropp O a) == ropp O (phi a).
  Hypothesis phi_tr : forall a, phi (tr a) == tr (phi a).
  (* contract of the inverse kernel: a function of the value, covariant on invertible inputs *)
  Hypothesis inv_proper : Proper (req ==> req) inv.
  Hypothesis phi_inv : forall a, inv a * a == 1 -> inv (phi a) == phi (inv a).

  Local Instance req_equiv' : Equivalence req := rl_equiv O req RL.
  Local Instance add_proper' : Proper (req ==> req ==> req) (radd O) := rl_add_proper O req RL.
  Local Instance mul_proper' : Proper (req ==> req ==> req) (rmul O) := rl_mul_proper O req RL.
  Local Instance opp_proper' : Proper (req ==> req) (ropp O) := rl_opp_proper O req RL.
  Local Instance tr_proper' : Proper (req ==> req) (rtr O) := rl_tr_proper O req RL.
  Local Instance sub_proper' : Proper (req ==> req ==> req) (rsub O) := sub_proper O req RL.

  Lemma phi_sub a b : phi (a - b) == phi a - phi b.
  Proof. unfold rsub. rewrite phi_add, phi_opp. reflexivity. Qed.

  (* pointwise relation between two coefficient lists *)
  Definition list_rel (l' l : list R) : Prop :=
    length l' = length l /\ forall i, nth i l' 0 == phi (nth i l 0).
  Definition state_rel (s' s : lwr_state) : Prop :=
    let '(a', b', sf', sb') := s' in let '(a, b, sf, sb) := s in
    list_rel a' a /\ list_rel b' b /\ sf' == phi sf /\ sb' == phi sb.

  Lemma list_rel_map l : list_rel (map phi l) l.
  Proof.
    split; [apply map_length|]. intros i.
    destruct (Nat.lt_ge_cases i (length l)).
    - rewrite (nth_indep _ 0 (phi 0)) by (rewrite map_length; lia). rewrite map_nth. reflexivity.
    - rewrite !nth_overflow by (rewrite ?map_length; lia). symmetry. exact phi_0.
  Qed.

  Lemma fold_rel (g' g : nat -> R) l x' x :
    (forall i, g' i == phi (g i)) -> x' == phi x ->
    fold_left (fun d i => d + g' i) l x' == phi (fold_left (fun d i => d + g i) l x).
  Proof.
    intros Hg. revert x' x. induction l as [|i l IH]; intros x' x Hx; simpl; [exact Hx|].
    apply IH. rewrite phi_add, Hx, Hg. reflexivity.
  Qed.

  Lemma delta_rel r' r a' a p :
    list_rel r' r -> list_rel a' a -> lwr_delta O r' a' p == phi (lwr_delta O r a p).
  Proof.
    intros [_ Hr] [_ Ha]. unfold lwr_delta. apply fold_rel; [|apply Hr].
    intros i. rewrite phi_mul, Ha, Hr. reflexivity.
  Qed.

  Lemma update_rel (a' a b' b : list R) c' c p :
    list_rel a' a -> list_rel b' b -> c' == phi c ->
    list_rel (map (fun i => nth (i - 1) a' 0 - c' * nth (p - i) b' 0) (seq 1 p) ++ [ropp O c'])
             (map (fun i => nth (i - 1) a 0 - c * nth (p - i) b 0) (seq 1 p) ++ [ropp O c]).
  Proof.
    intros [_ Ha] [_ Hb] Hc. split.
    - rewrite !app_length, !map_length. reflexivity.
    - intros i. rewrite !(nth_map_seq1 O).
      destruct (i <? p)%nat.
      + rewrite phi_sub, phi_mul, Ha, Hb, Hc. reflexivity.
      + destruct (i =? p)%nat; [rewrite phi_opp, Hc; reflexivity|symmetry; exact phi_0].
  Qed.

  Lemma step_rel r' r s' s p :
    list_rel r' r -> state_rel s' s ->
    (let '(_, _, sigf, sigb) := s in inv sigf * sigf == 1 /\ inv sigb * sigb == 1) ->
    state_rel (lwr_step O r' s' p) (lwr_step O r s p).
  Proof.
    intros Hr. destruct s' as [[[a' b'] sf'] sb'], s as [[[a b] sf] sb].
    intros (Ha & Hb & Hf & Hb') (Hif & Hib).
    assert (Hd := delta_rel r' r a' a p Hr Ha).
    assert (Hka : lwr_delta O r' a' p * inv sb' == phi (lwr_delta O r a p * inv sb)).
    { rewrite phi_mul, Hd, Hb', (phi_inv sb Hib). reflexivity. }
    assert (Hkb : tr (lwr_delta O r' a' p) * inv sf' == phi (tr (lwr_delta O r a p) * inv sf)).
    { rewrite phi_mul, phi_tr, Hd, Hf, (phi_inv sf Hif). reflexivity. }
    unfold lwr_step, state_rel. repeat split.
    - apply update_rel; assumption.
    - apply update_rel; assumption.
    - apply update_rel; assumption.
    - apply update_rel; assumption.
    - rewrite phi_mul, phi_sub, phi_mul, phi_1, Hka, Hkb, Hf. reflexivity.
    - rewrite phi_mul, phi_sub, phi_mul, phi_1, Hka, Hkb, Hb'. reflexivity.
  Qed.

  Lemma run_rel r' r P :
    list_rel r' r -> steps_ok O req r P ->
    forall n, (n <= P)%nat -> state_rel (lwr_run O r' n) (lwr_run O r n).
  Proof.
    intros Hr Hok. induction n; intros Hn.
    - unfold lwr_run, lwr_init. simpl. destruct Hr as [_ Hr].
      repeat split; try reflexivity; try apply Hr; intros i; destruct i; simpl; symmetry; exact phi_0.
    - rewrite !lwr_run_S. apply step_rel; [assumption|apply IHn; lia|].
      specialize (Hok n). destruct (lwr_run O r n) as [[[a b] sf] sb]. apply Hok. lia.
  Qed.

  Theorem lwr_equivariant_lemma r P :
    length r = S P -> steps_ok O req r P ->
    let '(a', sigma') := lwr_recursion O (map phi r) in
    let '(a, sigma) := lwr_recursion O r in
    length a' = length a /\ (forall i, nth i a' 0 == phi (nth i a 0)) /\ sigma' == phi sigma.
  Proof.
    intros L Hok. unfold lwr_recursion. rewrite map_length, L. simpl Nat.sub. rewrite Nat.sub_0_r.
    pose proof (run_rel (map phi r) r P (list_rel_map r) Hok P (le_n P)) as H.
    destruct (lwr_run O (map phi r) P) as [[[a' b'] sf'] sb'].
    destruct (lwr_run O r P) as [[[a b] sf] sb].
    destruct H as ([La Ha] & _ & Hf & _). auto.
  Qed.
End Equivariance.

(* ------------------------------------------------------------------ matrices over Q *)
Open Scope Q_scope.

Lemma nth_map_seq0 {T} (g : nat -> T) n i d : (i < n)%nat -> nth i (map g (seq 0 n)) d = g i.
Proof.
  intros H. rewrite (nth_indep _ d (g 0%nat)) by (rewrite map_length, seq_length; lia).
  rewrite map_nth. rewrite seq_nth by lia. reflexivity.
Qed.

Lemma mget_mtab n f i j : (i < n)%nat -> (j < n)%nat -> mget (mtab n f) i j = f i j.
Proof.
  intros Hi Hj. unfold mget, mtab. rewrite nth_map_seq0 by assumption.
  rewrite nth_map_seq0 by assumption. reflexivity.
Qed.

Lemma sumr_sumn f n : sumr f n == sumn f n.
Proof. induction n; cbn [sumr sumn]; [reflexivity|]. rewrite Qred_correct, IHn. reflexivity. Qed.

Lemma sumn_swap (f : nat -> nat -> Q) n m :
  sumn (fun i => sumn (fun j => f i j) m) n == sumn (fun j => sumn (fun i => f i j) n) m.
Proof.
  induction n; simpl.
  - symmetry. apply sumn_const0.
  - rewrite IHn. rewrite <- sumn_plus. reflexivity.
Qed.

Lemma sumn_scal_r c f n : sumn (fun k => f k * c) n == sumn f n * c.
Proof. induction n; simpl; [ring|rewrite IHn; ring]. Qed.

Lemma sumn_delta_l (g : nat -> Q) n i :
  (i < n)%nat -> sumn (fun k => (if Nat.eqb i k then 1 else 0) * g k) n == g i.
Proof.
  induction n; intros H; [lia|]. simpl.
  destruct (Nat.eq_dec i n) as [->|Hne].
  - rewrite Nat.eqb_refl.
    rewrite (sumn_ext _ (fun _ => 0)).
    + rewrite sumn_const0. ring.
    + intros k Hk. replace (n =? k)%nat with false by (symmetry; apply Nat.eqb_neq; lia). ring.
  - replace (i =? n)%nat with false by (symmetry; apply Nat.eqb_neq; lia).
    rewrite IHn by lia. ring.
Qed.
Lemma sumn_delta_r (g : nat -> Q) n j :
  (j < n)%nat -> sumn (fun k => g k * (if Nat.eqb k j then 1 else 0)) n == g j.
Proof.
  intros H. rewrite <- (sumn_delta_l g n j H). apply sumn_ext. intros k _.
  rewrite (Nat.eqb_sym k j). ring.
Qed.

Lemma meq_equiv n : Equivalence (meq n).
Proof.
  split.
  - intros A i j _ _. reflexivity.
  - intros A B H i j Hi Hj. symmetry. apply H; assumption.
  - intros A B C H1 H2 i j Hi Hj. rewrite (H1 i j Hi Hj). apply H2; assumption.
Qed.

Ltac mat_ext := let i := fresh "i" in let j := fresh "j" in let Hi := fresh "Hi" in let Hj := fresh "Hj" in
  intros i j Hi Hj; cbn [mat_ops r0 r1 radd rmul ropp rtr rinv];
  unfold madd, mmul, mopp, mtr, mid, mzero;
  repeat (rewrite mget_mtab by assumption).

Lemma mmul_get n A B i j : (i < n)%nat -> (j < n)%nat ->
  mget (mmul n A B) i j == sumn (fun k => mget A i k * mget B k j) n.
Proof. intros. unfold mmul. rewrite mget_mtab by assumption. apply sumr_sumn. Qed.
Lemma madd_get n A B i j : (i < n)%nat -> (j < n)%nat ->
  mget (madd n A B) i j == mget A i j + mget B i j.
Proof. intros. unfold madd. rewrite mget_mtab by assumption. apply Qred_correct. Qed.
Lemma mopp_get n A i j : (i < n)%nat -> (j < n)%nat -> mget (mopp n A) i j == - mget A i j.
Proof. intros. unfold mopp. rewrite mget_mtab by assumption. reflexivity. Qed.
Lemma mtr_get n A i j : (i < n)%nat -> (j < n)%nat -> mget (mtr n A) i j = mget A j i.
Proof. intros. unfold mtr. rewrite mget_mtab by assumption. reflexivity. Qed.
Lemma mid_get n i j : (i < n)%nat -> (j < n)%nat -> mget (mid n) i j = if Nat.eqb i j then 1 else 0.
Proof. intros. unfold mid. rewrite mget_mtab by assumption. reflexivity. Qed.
Lemma mzero_get n i j : (i < n)%nat -> (j < n)%nat -> mget (mzero n) i j = 0.
Proof. intros. unfold mzero. rewrite mget_mtab by assumption. reflexivity. Qed.

Theorem mat_ring_laws_with n iv : ring_laws (mat_ops_with n iv) (meq n).
Proof.
  constructor; cbn [mat_ops_with r0 r1 radd rmul ropp rtr rinv].
  - apply meq_equiv.
  - intros A A' HA B B' HB i j Hi Hj. rewrite !madd_get by assumption.
    rewrite (HA i j Hi Hj), (HB i j Hi Hj). reflexivity.
  - intros A A' HA B B' HB i j Hi Hj. rewrite !mmul_get by assumption.
    apply sumn_ext. intros k Hk. rewrite (HA i k Hi Hk), (HB k j Hk Hj). reflexivity.
  - intros A A' HA i j Hi Hj. rewrite !mopp_get by assumption. rewrite (HA i j Hi Hj). reflexivity.
  - intros A A' HA i j Hi Hj. rewrite !mtr_get by assumption. apply HA; assumption.
  - intros A B C i j Hi Hj. rewrite !madd_get by assumption. ring.
  - intros A B i j Hi Hj. rewrite !madd_get by assumption. ring.
  - intros A i j Hi Hj. rewrite madd_get, mzero_get by assumption. ring.
  - intros A i j Hi Hj. rewrite madd_get, mopp_get, mzero_get by assumption. ring.
  - (* associativity of the product *)
    intros A B C i j Hi Hj. rewrite !mmul_get by assumption.
    rewrite (sumn_ext _ (fun k => sumn (fun l => mget A i k * (mget B k l * mget C l j)) n)).
    2:{ intros k Hk. rewrite mmul_get by assumption. rewrite sumn_scal. reflexivity. }
    rewrite (sumn_ext (fun k => mget (mmul n A B) i k * mget C k j)
                      (fun l => sumn (fun k => mget A i k * (mget B k l * mget C l j)) n)).
    2:{ intros l Hl. rewrite mmul_get by assumption. rewrite <- sumn_scal_r.
        apply sumn_ext. intros k _. ring. }
    apply sumn_swap.
  - intros A i j Hi Hj. rewrite mmul_get by assumption.
    rewrite (sumn_ext _ (fun k => (if Nat.eqb i k then 1 else 0) * mget A k j)).
    + apply (sumn_delta_l (fun k => mget A k j)); assumption.
    + intros k Hk. rewrite mid_get by assumption. reflexivity.
  - intros A i j Hi Hj. rewrite mmul_get by assumption.
    rewrite (sumn_ext _ (fun k => mget A i k * (if Nat.eqb k j then 1 else 0))).
    + apply (sumn_delta_r (fun k => mget A i k)); assumption.
    + intros k Hk. rewrite mid_get by assumption. reflexivity.
  - intros A B C i j Hi Hj. rewrite madd_get, !mmul_get by assumption.
    rewrite <- sumn_plus. apply sumn_ext. intros k Hk. rewrite madd_get by assumption. ring.
  - intros A B C i j Hi Hj. rewrite madd_get, !mmul_get by assumption.
    rewrite <- sumn_plus. apply sumn_ext. intros k Hk. rewrite madd_get by assumption. ring.
  - intros A B i j Hi Hj. rewrite mtr_get, !madd_get, !mtr_get by assumption. reflexivity.
  - intros A B i j Hi Hj. rewrite mtr_get, !mmul_get by assumption.
    apply sumn_ext. intros k Hk. rewrite !mtr_get by assumption. ring.
  - intros A i j Hi Hj. rewrite !mtr_get by assumption. reflexivity.
  - intros i j Hi Hj. rewrite mtr_get, !mid_get by assumption. rewrite Nat.eqb_sym. reflexivity.
Qed.

Theorem mat_ring_laws n : ring_laws (mat_ops n) (meq n).
Proof. exact (mat_ring_laws_with n (minv n)). Qed.

(* rationals (one channel) *)
Theorem q_ring_laws : ring_laws q_ops Qeq.
Proof.
  constructor; cbn [q_ops r0 r1 radd rmul ropp rtr rinv].
  all: try (intros; rewrite ?Qred_correct; ring).
  all: try apply Q_Setoid.
  all: try solve [intros a a' Ha b b' Hb; rewrite !Qred_correct, Ha, Hb; reflexivity].
  all: try solve [intros a a' Ha; rewrite Ha; reflexivity].
  all: try solve [intros a a' Ha; exact Ha].
Qed.

(* ------------------------------------------------------------------ shapes (no algebra needed) *)
Section Shapes.
  Context {R : Type} (O : rops R).

  Lemma lwr_run_length r n :
    let '(a, b, _, _) := lwr_run O r n in length a = n /\ length b = n.
  Proof.
    induction n.
    - simpl. auto.
    - rewrite (lwr_run_S O). destruct (lwr_run O r n) as [[[a b] sf] sb].
      unfold lwr_step. rewrite !app_length, !map_length, !seq_length. simpl. lia.
  Qed.

  (* the number of coefficient matrices is the number of lags minus one *)
  Lemma lwr_recursion_length r : length (fst (lwr_recursion O r)) = (length r - 1)%nat.
  Proof.
    unfold lwr_recursion. pose proof (lwr_run_length r (length r - 1)) as H.
    destruct (lwr_run O r (length r - 1)) as [[[a b] sf] sb]. simpl. tauto.
  Qed.
End Shapes.

(* ------------------------------------------------------------------ fit_model *)
Section FitModelP.
  Context {R : Type} (O : rops R).
  Variable rxx : nat -> list R.
  Variable crit : R -> nat -> Q.
  Hypothesis rxx_len : forall n, length (rxx n) = n.

  (* what "the solution for the order it reports" means *)
  Definition fm_good (lags : list nat) (o : nat) (Rx cf : list R) (ec : R) : Prop :=
    exists lag, In lag lags /\ Rx = rxx lag /\ lwr_recursion O Rx = (cf, ec) /\ o = length cf.

  Lemma fit_model_loop_good all lags cur o Rx cf ec :
    incl lags all ->
    (forall c o' Rx' cf' ec', cur = Some (c, (o', Rx', cf', ec')) -> fm_good all o' Rx' cf' ec') ->
    fit_model_loop O rxx crit lags cur = FMOk o Rx cf ec ->
    fm_good all o Rx cf ec.
  Proof.
    revert cur. induction lags as [|lag rest IH]; intros cur Hin Hcur H; simpl in H; [discriminate|].
    destruct (lwr_recursion O (rxx lag)) as [cfn ecn] eqn:E.
    assert (Hnew : fm_good all (length cfn) (rxx lag) cfn ecn).
    { exists lag. repeat split; auto. apply Hin. left. reflexivity. }
    assert (Hrest : incl rest all) by (intros z Hz; apply Hin; right; exact Hz).
    destruct cur as [[c_old [[[o' Rx'] cf'] ec']]|].
    - destruct (Qlt_bool c_old (crit ecn (length cfn))).
      + inversion H; subst. eapply Hcur. reflexivity.
      + eapply IH; [exact Hrest| |exact H]. intros c o2 Rx2 cf2 ec2 Heq. inversion Heq; subst. exact Hnew.
    - eapply IH; [exact Hrest| |exact H]. intros c o2 Rx2 cf2 ec2 Heq. inversion Heq; subst. exact Hnew.
  Qed.

  Theorem fit_model_order_lemma order max_order o Rx cf ec :
    fit_model O rxx crit order max_order = FMOk o Rx cf ec ->
    length cf = o /\ length Rx = S o /\ lwr_recursion O Rx = (cf, ec) /\
    (exists lag, Rx = rxx lag) /\
    (forall o', order = Some o' -> o = o').
  Proof.
    destruct order as [o'|]; simpl.
    - unfold fit_model_fixed. destruct (lwr_recursion O (rxx (o' + 1))) as [cfn ecn] eqn:E.
      intros H. inversion H; subst.
      pose proof (lwr_recursion_length O (rxx (o + 1))) as L. rewrite E, rxx_len in L. simpl in L.
      repeat split; auto.
      + lia.
      + rewrite rxx_len. lia.
      + eexists; reflexivity.
      + intros o2 H2. inversion H2. reflexivity.
    - unfold fit_model_select. intros H.
      apply (fit_model_loop_good (seq 1 (max_order - 1))) in H.
      + destruct H as (lag & Hin & -> & E & ->).
        apply in_seq in Hin.
        pose proof (lwr_recursion_length O (rxx lag)) as L. rewrite E, rxx_len in L. simpl in L.
        repeat split; auto.
        * rewrite rxx_len. lia.
        * eexists; reflexivity.
        * intros o' H2. discriminate.
      + apply incl_refl.
      + intros; discriminate.
  Qed.

  (* with max_order <= 1 the loop body never runs and the for-else raises *)
  Lemma fit_model_select_small max_order :
    (max_order <= 1)%nat -> fit_model_select O rxx crit max_order = FMValueError.
  Proof. intros H. unfold fit_model_select. replace (max_order - 1)%nat with 0%nat by lia. reflexivity. Qed.
End FitModelP.

Lemma rxx_of_length x n : length (rxx_of x n) = n.
Proof. unfold rxx_of, lags_of. rewrite map_length, seq_length. reflexivity. Qed.

(* MAR_est_LWR returns `order` coefficient matrices (after the fix) ... *)
Theorem MAR_est_order_lemma x order : length (fst (MAR_est_LWR x order)) = order.
Proof. unfold MAR_est_LWR, MAR_est_LWR_in. rewrite lwr_recursion_length, map_length, rxx_of_length. lia. Qed.
(* ... and returned order - 1 of them in the snapshot *)
Theorem MAR_est_snapshot_order_lemma x order :
  length (fst (MAR_est_LWR_snapshot x order)) = (order - 1)%nat.
Proof. unfold MAR_est_LWR_snapshot. rewrite lwr_recursion_length, rxx_of_length. reflexivity. Qed.

(* ------------------------------------------------------------------ crosscov = lagged mean *)
Lemma zipw_length {A B C} (f : A -> B -> C) l1 l2 :
  length (zipw f l1 l2) = Nat.min (length l1) (length l2).
Proof. revert l2; induction l1; intros [|b l2]; simpl; auto. Qed.

Lemma zipw_nth {A B C} (f : A -> B -> C) l1 l2 t da db dc :
  (t < length l1)%nat -> (t < length l2)%nat ->
  nth t (zipw f l1 l2) dc = f (nth t l1 da) (nth t l2 db).
Proof.
  revert l2 t; induction l1 as [|a l1 IH]; intros [|b l2] t H1 H2; simpl in *; try lia.
  destruct t; [reflexivity|]. apply IH; lia.
Qed.

Lemma nth_skipn' {A} (l : list A) k t d : nth t (skipn k l) d = nth (k + t) l d.
Proof. revert l; induction k; intros [|a l]; simpl; auto. destruct t; reflexivity. Qed.

Lemma nth_firstn' {A} (l : list A) n t d : (t < n)%nat -> nth t (firstn n l) d = nth t l d.
Proof.
  revert l t; induction n; intros [|a l] t H; simpl; try lia; auto.
  destruct t; [reflexivity|]. apply IHn. lia.
Qed.

Lemma sumn_first f n : sumn f (S n) == f 0%nat + sumn (fun k => f (S k)) n.
Proof. rewrite (sumn_split f 1 n). simpl. ring. Qed.

Lemma fold_plus_sumn l x : fold_left Qplus l x == x + sumn (fun t => nth t l 0) (length l).
Proof.
  revert x; induction l as [|a l IH]; intros x.
  - simpl. ring.
  - cbn [fold_left length]. rewrite IH. rewrite sumn_first. simpl nth. ring.
Qed.
(* the same with the running sum kept in lowest terms *)
Lemma fold_plusred_eq l : forall x y, x == y ->
  fold_left (fun acc v => Qred (acc + v)) l x == fold_left Qplus l y.
Proof.
  induction l as [|a l IH]; intros x y E; cbn [fold_left]; [exact E|].
  apply IH. rewrite Qred_correct, E. reflexivity.
Qed.
Lemma fold_plusred_sumn l x :
  fold_left (fun acc v => Qred (acc + v)) l x == x + sumn (fun t => nth t l 0) (length l).
Proof. rewrite (fold_plusred_eq l x x) by reflexivity. apply fold_plus_sumn. Qed.

Lemma crosscov_entry_spec N k xi yj :
  length xi = N -> length yj = N -> (k <= N)%nat ->
  crosscov_entry N k xi yj ==
  sumn (fun t => nth (t + k) xi 0 * nth t yj 0) (N - k) / inject_Z (Z.of_nat (N - k)).
Proof.
  intros Lx Ly Hk. unfold crosscov_entry. rewrite Qred_correct.
  assert (Len : length (zipw Qmult (skipn k xi) (firstn (N - k) yj)) = (N - k)%nat).
  { rewrite zipw_length, skipn_length, firstn_length. lia. }
  rewrite Len. rewrite fold_plusred_sumn, Len.
  rewrite (sumn_ext _ (fun t => nth (t + k) xi 0 * nth t yj 0)).
  - unfold Qdiv. ring.
  - intros t Ht.
    rewrite (zipw_nth Qmult _ _ t 0 0 0) by (rewrite ?skipn_length, ?firstn_length; lia).
    rewrite nth_skipn', nth_firstn' by lia. rewrite (Nat.add_comm k t). reflexivity.
Qed.

Lemma nth_map' {A B} (f : A -> B) l i d d' : (i < length l)%nat -> nth i (map f l) d' = f (nth i l d).
Proof. intros H. rewrite (nth_indep _ d' (f d)) by (rewrite map_length; lia). apply map_nth. Qed.

(* the covariance helper equals its defining lagged average, in the layout [i][j][k] *)
Theorem crosscov_is_lagged_mean_lemma x y nlags i j k :
  let N := length (nth 0 x []) in
  (i < length x)%nat -> (j < length y)%nat -> (k < nlags)%nat -> (k <= N)%nat ->
  length (nth i x []) = N -> length (nth j y []) = N ->
  nth k (nth j (nth i (crosscov_vector x y nlags) []) []) 0 ==
  sumn (fun t => nth (t + k) (nth i x []) 0 * nth t (nth j y []) 0) (N - k)
  / inject_Z (Z.of_nat (N - k)).
Proof.
  intros N Hi Hj Hk HkN Lx Ly. unfold crosscov_vector. fold N.
  rewrite (nth_map' _ x i []) by assumption.
  rewrite (nth_map' _ y j []) by assumption.
  rewrite nth_map_seq0 by assumption.
  apply crosscov_entry_spec; assumption.
Qed.

(* the default keyword nlags=None: all N lags, each the lagged mean over its own N-k products *)
Theorem crosscov_default_is_lagged_mean_lemma x y i j k :
  let N := length (nth 0 x []) in
  (i < length x)%nat -> (j < length y)%nat -> (k < N)%nat ->
  length (nth i x []) = N -> length (nth j y []) = N ->
  length (nth j (nth i (crosscov_vector_kw x y None) []) []) = N /\
  nth k (nth j (nth i (crosscov_vector_kw x y None) []) []) 0 ==
  sumn (fun t => nth (t + k) (nth i x []) 0 * nth t (nth j y []) 0) (N - k)
  / inject_Z (Z.of_nat (N - k)).
Proof.
  intros N Hi Hj Hk Lx Ly. unfold crosscov_vector_kw, nlags_kw. fold N. split.
  - unfold crosscov_vector. fold N.
    rewrite (nth_map' _ x i []) by assumption. rewrite (nth_map' _ y j []) by assumption.
    rewrite map_length, seq_length. reflexivity.
  - apply (crosscov_is_lagged_mean_lemma x y N i j k); auto. fold N. lia.
Qed.

(* ... and after `.transpose(2, 0, 1)`: entry (i, j) of the k-th lag matrix *)
Theorem rxx_is_lagged_mean_lemma x nlags i j k :
  let N := length (nth 0 x []) in
  (i < length x)%nat -> (j < length x)%nat -> (k < nlags)%nat -> (k <= N)%nat ->
  length (nth i x []) = N -> length (nth j x []) = N ->
  mget (nth k (rxx_of x nlags) []) i j ==
  sumn (fun t => nth (t + k) (nth i x []) 0 * nth t (nth j x []) 0) (N - k)
  / inject_Z (Z.of_nat (N - k)).
Proof.
  intros N Hi Hj Hk HkN Lx Ly. unfold rxx_of, lags_of.
  rewrite nth_map_seq0 by assumption. rewrite mget_mtab by assumption.
  unfold autocov_vector.
  exact (crosscov_is_lagged_mean_lemma x x nlags i j k Hi Hj Hk HkN Lx Ly).
Qed.

(* ------------------------------------------------------------------ generate_mar *)
Section GenMarP.
  Context {M V : Type}.
  Variable veq : V -> V -> Prop.
  Variable vadd vsub : V -> V -> V.
  Variable act : M -> V -> V.
  Variable m0 : M. Variable v0 : V.
  Local Infix "=v=" := veq (at level 70).
  Hypothesis veq_equiv : Equivalence veq.
  Hypothesis vadd_proper : Proper (veq ==> veq ==> veq) vadd.
  Hypothesis vadd_assoc : forall a b c, vadd a (vadd b c) =v= vadd (vadd a b) c.
  Hypothesis vadd_comm : forall a b, vadd a b =v= vadd b a.
  Hypothesis vadd_0_r : forall a, vadd a v0 =v= a.
  Hypothesis vsub_add : forall a b, vadd (vsub a b) b =v= a.

  Fixpoint vsum (f : nat -> V) (n : nat) : V :=
    match n with 0%nat => v0 | S n' => vadd (vsum f n') (f n') end.

  Lemma fold_sub_sum (g : nat -> V) e m :
    vadd (fold_left (fun acc j => vsub acc (g j)) (seq 0 m) e) (vsum g m) =v= e.
  Proof.
    induction m.
    - simpl. apply vadd_0_r.
    - rewrite seq_S, fold_left_app. simpl.
      set (X := fold_left (fun acc j => vsub acc (g j)) (seq 0 m) e) in *.
      rewrite (vadd_comm (vsum g m) (g m)). rewrite vadd_assoc. rewrite vsub_add. exact IHm.
  Qed.

  Local Notation step a := (fun mar e => mar ++ [mar_row vsub act m0 v0 a mar e]).

  Lemma gen_fold_spec a nz : forall acc,
    let X := fold_left (step a) nz acc in
    length X = (length acc + length nz)%nat /\
    (forall t, (t < length acc)%nat -> nth t X v0 = nth t acc v0) /\
    (forall t, (t < length nz)%nat ->
       nth (length acc + t) X v0 = mar_row vsub act m0 v0 a (firstn (length acc + t) X) (nth t nz v0)).
  Proof.
    induction nz as [|e nz IH]; intros acc; simpl.
    - repeat split; intros; lia || auto.
    - specialize (IH (acc ++ [mar_row vsub act m0 v0 a acc e])).
      simpl in IH. rewrite app_length in IH. simpl in IH. destruct IH as (L & Hpre & Hnew).
      repeat split.
      + lia.
      + intros t Ht. rewrite Hpre by lia. apply app_nth1. exact Ht.
      + intros t Ht. destruct t.
        * rewrite Nat.add_0_r. rewrite Hpre by lia. rewrite app_nth2 by lia. rewrite Nat.sub_diag. simpl.
          f_equal. symmetry.
          apply nth_ext with (d := v0) (d' := v0).
          -- rewrite firstn_length. lia.
          -- intros n Hn. rewrite firstn_length in Hn. rewrite nth_firstn' by lia.
             rewrite Hpre by lia. apply app_nth1. lia.
        * replace (length acc + S t)%nat with (length acc + 1 + t)%nat by lia. apply Hnew. lia.
  Qed.

  Lemma fold_left_ext_in {A B} (f g : A -> B -> A) l x :
    (forall a b, In b l -> f a b = g a b) -> fold_left f l x = fold_left g l x.
  Proof.
    revert x; induction l as [|b l IH]; intros x H; simpl; [reflexivity|].
    rewrite H by (left; reflexivity). apply IH. intros; apply H; right; assumption.
  Qed.

  (* X(t) + sum_{j=1}^{min(t,P)} a(j) X(t-j) = E(t)   (a(j) is a[j-1]) *)
  Theorem generate_mar_recursion_lemma a nz :
    let X := generate_mar_from vsub act m0 v0 a nz in
    length X = length nz /\
    forall t, (t < length nz)%nat ->
      vadd (nth t X v0)
           (vsum (fun j => act (nth j a m0) (nth (t - j - 1) X v0)) (Nat.min t (length a)))
      =v= nth t nz v0.
  Proof.
    unfold generate_mar_from. destruct (gen_fold_spec a nz []) as (L & _ & Hnew).
    cbn [length Nat.add] in L, Hnew. cbv zeta.
    set (X := fold_left _ nz []) in *.
    split; [exact L|]. intros t Ht. rewrite (Hnew t Ht). unfold mar_row.
    rewrite firstn_length. replace (Nat.min t (length X)) with t by lia.
    rewrite (fold_left_ext_in _ (fun acc j => vsub acc (act (nth j a m0) (nth (t - j - 1) X v0)))).
    - apply (fold_sub_sum (fun j => act (nth j a m0) (nth (t - j - 1) X v0))).
    - intros acc j Hj. apply in_seq in Hj. rewrite nth_firstn' by lia. reflexivity.
  Qed.
End GenMarP.

(* ------------------------------------------------------------------ one channel = Levinson-Durbin *)
Lemma nth_map_seq1_gen {T} (g : nat -> T) z d p j :
  nth j (map g (seq 1 p) ++ [z]) d =
  if (j <? p)%nat then g (S j) else if (j =? p)%nat then z else d.
Proof.
  destruct (j <? p)%nat eqn:E.
  - apply Nat.ltb_lt in E. rewrite app_nth1 by (rewrite map_length, seq_length; lia).
    rewrite (nth_indep _ d (g 0%nat)) by (rewrite map_length, seq_length; lia).
    rewrite map_nth. rewrite seq_nth by lia. reflexivity.
  - apply Nat.ltb_ge in E. rewrite app_nth2 by (rewrite map_length, seq_length; lia).
    rewrite map_length, seq_length.
    destruct (j =? p)%nat eqn:E2.
    + apply Nat.eqb_eq in E2. subst. rewrite Nat.sub_diag. reflexivity.
    + apply Nat.eqb_neq in E2. destruct (j - p)%nat eqn:E3; [lia|]. simpl. destruct n; reflexivity.
Qed.

Lemma fold_neg (g h : nat -> Q) c l : forall x y,
  (forall i, g i == - h i) -> x == c - y ->
  fold_left (fun d i => d + g i) l x == c - fold_left Qplus (map h l) y.
Proof.
  induction l as [|i l IH]; intros x y Hg Hx; simpl; [exact Hx|].
  apply IH; [exact Hg|]. rewrite Hx, Hg. ring.
Qed.

Definition ld_rel (m : nat) (st : @lwr_state Q) (st' : list Q * Q * Q) : Prop :=
  let '(a, b, sf, sb) := st in let '(w, bb, wk) := st' in
  length a = S m /\ length b = S m /\ length w = S m /\
  (forall i, nth i a 0 == - nth i w 0) /\ (forall i, nth i b 0 == - nth i w 0) /\
  sf == bb * (1 - wk * wk) /\ sb == bb * (1 - wk * wk).

Lemma ld_run_S r m : ld_run r (S m) = ld_step r (ld_run r m) (S (S m)).
Proof. unfold ld_run. rewrite seq_S, fold_left_app. reflexivity. Qed.

Lemma ld_rel_0 r : ld_rel 0 (lwr_run q_ops r 1) (ld_run r 0).
Proof.
  unfold lwr_run, ld_run, lwr_init, lwr_step, lwr_delta, ld_rel. cbn [seq fold_left map app q_ops r0 r1 radd rmul ropp rtr rinv rsub Nat.add Nat.sub].
  repeat split.
  - intros [|[|i]]; cbn [nth]; rewrite ?Qred_correct; unfold Qdiv; ring.
  - intros [|[|i]]; cbn [nth]; rewrite ?Qred_correct; unfold Qdiv; ring.
  - rewrite ?Qred_correct. unfold Qdiv. ring.
  - rewrite ?Qred_correct. unfold Qdiv. ring.
Qed.

Lemma ld_rel_step r m st st' :
  ld_rel m st st' -> ld_rel (S m) (lwr_step q_ops r st (S m)) (ld_step r st' (S (S m))).
Proof.
  destruct st as [[[a b] sf] sb], st' as [[w bb] wk].
  intros (La & Lb & Lw & Ha & Hb & Hf & Hs).
  unfold lwr_step, ld_step.
  set (b' := Qred (bb * (1 - wk * wk))).
  assert (Hb' : b' == bb * (1 - wk * wk)) by apply Qred_correct.
  set (s := fold_left Qplus (map (fun i => nth (i - 1) w 0 * nth (S (S m) - i) r 0) (seq 1 (S (S m) - 1))) 0).
  set (wk' := Qred ((nth (S (S m)) r 0 - s) / b')).
  assert (Hwk : wk' == (nth (S (S m)) r 0 - s) / b') by apply Qred_correct.
  assert (Hd : lwr_delta q_ops r a (S m) == nth (S (S m)) r 0 - s).
  { unfold lwr_delta, s. cbn [q_ops r0 radd rmul].
    replace (S (S m) - 1)%nat with (S m) by lia.
    transitivity (fold_left (fun d i => d + nth (i - 1) a 0 * nth (S m + 1 - i) r 0) (seq 1 (S m)) (nth (S m + 1) r 0)).
    - generalize (nth (S m + 1) r 0). generalize (seq 1 (S m)).
      induction l as [|i l IH]; intros x; cbn [fold_left]; [reflexivity|].
      rewrite IH. clear IH. generalize (nth (i - 1) a 0 * nth (S m + 1 - i) r 0). intros y.
      assert (E : Qred (x + Qred y) == x + y) by (rewrite !Qred_correct; reflexivity).
      revert E. generalize (Qred (x + Qred y)). generalize (x + y). clear.
      intros u v E. revert u v E.
      induction l as [|j l IH]; intros u v E; cbn [fold_left]; [exact E|].
      apply IH. rewrite E. reflexivity.
    - apply fold_neg.
      + intros i. replace (S m + 1 - i)%nat with (S (S m) - i)%nat by lia. rewrite Ha. ring.
      + replace (S m + 1)%nat with (S (S m)) by lia. ring. }
  assert (Hka : rmul q_ops (lwr_delta q_ops r a (S m)) (rinv q_ops sb) == wk').
  { cbn [q_ops rmul rinv]. rewrite Qred_correct, Hwk, Hd, Hs, Hb'. reflexivity. }
  assert (Hkb : rmul q_ops (rtr q_ops (lwr_delta q_ops r a (S m))) (rinv q_ops sf) == wk').
  { cbn [q_ops rmul rinv rtr]. rewrite Qred_correct, Hwk, Hd, Hf, Hb'. reflexivity. }
  set (ka := rmul q_ops (lwr_delta q_ops r a (S m)) (rinv q_ops sb)) in *.
  set (kb := rmul q_ops (rtr q_ops (lwr_delta q_ops r a (S m))) (rinv q_ops sf)) in *.
  unfold ld_rel. replace (S (S m) - 1)%nat with (S m) by lia.
  repeat split.
  - rewrite app_length, map_length, seq_length. simpl. lia.
  - rewrite app_length, map_length, seq_length. simpl. lia.
  - rewrite app_length, map_length, seq_length. simpl. lia.
  - intros i. rewrite !nth_map_seq1_gen.
    destruct (i <? S m)%nat.
    + unfold rsub. cbn [q_ops radd rmul ropp]. rewrite !Qred_correct. rewrite Ha, Hb, Hka.
      replace (S (S m) - 1 - S i)%nat with (S m - S i)%nat by lia. ring.
    + destruct (i =? S m)%nat; cbn [q_ops ropp]; [rewrite Hka; reflexivity|ring].
  - intros i. rewrite !nth_map_seq1_gen.
    destruct (i <? S m)%nat.
    + unfold rsub. cbn [q_ops radd rmul ropp]. rewrite !Qred_correct. rewrite Ha, Hb, Hkb.
      replace (S (S m) - 1 - S i)%nat with (S m - S i)%nat by lia. ring.
    + destruct (i =? S m)%nat; cbn [q_ops ropp]; [rewrite Hkb; reflexivity|ring].
  - unfold rsub. cbn [q_ops radd rmul ropp r1]. rewrite !Qred_correct. rewrite Hka, Hkb, Hf, <- Hb'. ring.
  - unfold rsub. cbn [q_ops radd rmul ropp r1]. rewrite !Qred_correct. rewrite Hka, Hkb, Hs, <- Hb'. ring.
Qed.

Lemma ld_rel_run r m : ld_rel m (lwr_run q_ops r (S m)) (ld_run r m).
Proof.
  induction m; [apply ld_rel_0|]. rewrite (lwr_run_S q_ops), ld_run_S. apply ld_rel_step. exact IHm.
Qed.

(* one channel: coefficients are minus the Levinson-Durbin ones, same innovation variance
   (both computed with the same total division, so no invertibility guard is needed) *)
Theorem lwr_scalar_is_LD_lemma r order :
  (1 <= order)%nat -> length r = S order ->
  let '(a, s) := lwr_recursion q_ops r in
  let '(w, b) := ld r order in
  length a = order /\ length w = order /\ (forall i, nth i a 0 == - nth i w 0) /\ s == b.
Proof.
  intros Ho L. unfold lwr_recursion, ld. rewrite L. simpl Nat.sub. rewrite Nat.sub_0_r.
  destruct order as [|m]; [lia|]. simpl Nat.sub. rewrite Nat.sub_0_r.
  pose proof (ld_rel_run r m) as H.
  destruct (lwr_run q_ops r (S m)) as [[[a b] sf] sb], (ld_run r m) as [[w bb] wk].
  destruct H as (La & Lb & Lw & Ha & Hb & Hf & Hs). rewrite Qred_correct. auto.
Qed.

(* ------------------------------------------------------------------ instances and corollaries *)
Definition meqb (n : nat) (A B : mat) : bool :=
  forallb (fun i => forallb (fun j => Qeq_bool (mget A i j) (mget B i j)) (seq 0 n)) (seq 0 n).
Lemma meqb_sound n A B : meqb n A B = true -> meq n A B.
Proof.
  unfold meqb. intros H i j Hi Hj. rewrite forallb_forall in H.
  specialize (H i). rewrite forallb_forall in H.
  apply Qeq_bool_iff. apply H; apply in_seq; lia.
Qed.

(* the executable instance: n x n matrices over Q *)
Theorem lwr_solves_block_YW_mat_lemma n r P :
  length r = S P ->
  meq n (mtr n (nth 0 r (mzero n))) (nth 0 r (mzero n)) ->
  steps_ok (mat_ops n) (meq n) r P ->
  let '(a, sigma) := lwr_recursion (mat_ops n) r in
  length a = P /\
  (forall k, (1 <= k <= P)%nat ->
     meq n (rsum (mat_ops n) (fun i => mmul n (coefA (mat_ops n) a i) (Rlag (mat_ops n) r k i)) (S P)) (mzero n)) /\
  meq n (rsum (mat_ops n) (fun i => mmul n (coefA (mat_ops n) a i) (Rlag (mat_ops n) r 0 i)) (S P)) sigma /\
  meq n (mtr n sigma) sigma.
Proof. exact (lwr_solves_block_YW_lemma (mat_ops n) (meq n) (mat_ring_laws n) r P). Qed.

(* lag 0 of the autocovariance helper is symmetric *)
Lemma rxx0_symmetric x nlags :
  (0 < nlags)%nat ->
  (forall i, (i < length x)%nat -> length (nth i x []) = length (nth 0 x [])) ->
  meq (length x) (mtr (length x) (nth 0 (rxx_of x nlags) (mzero (length x))))
      (nth 0 (rxx_of x nlags) (mzero (length x))).
Proof.
  intros Hn Hrows i j Hi Hj. rewrite mtr_get by assumption.
  assert (E : nth 0 (rxx_of x nlags) (mzero (length x)) = nth 0 (rxx_of x nlags) []).
  { apply nth_indep. rewrite rxx_of_length; lia. }
  rewrite E.
  rewrite !rxx_is_lagged_mean_lemma by (auto; lia).
  apply Qmult_comp; [|reflexivity].
  apply sumn_ext. intros t _. rewrite !Nat.add_0_r. ring.
Qed.

(* MAR_est_LWR: order-P solution of the block Yule-Walker system of the data's lagged averages *)
Theorem MAR_est_solves_lemma x order :
  (forall i, (i < length x)%nat -> length (nth i x []) = length (nth 0 x [])) ->
  let n := length x in let r := rxx_of x (order + 1) in
  steps_ok (mat_ops n) (meq n) r order ->
  let '(a, sigma) := MAR_est_LWR x order in
  length a = order /\
  (forall k, (1 <= k <= order)%nat ->
     meq n (rsum (mat_ops n) (fun i => mmul n (coefA (mat_ops n) a i) (Rlag (mat_ops n) r k i)) (S order)) (mzero n)) /\
  meq n (rsum (mat_ops n) (fun i => mmul n (coefA (mat_ops n) a i) (Rlag (mat_ops n) r 0 i)) (S order)) sigma /\
  meq n (mtr n sigma) sigma.
Proof.
  intros Hrows n r Hok. unfold MAR_est_LWR, MAR_est_LWR_in. rewrite map_id. fold n. fold r.
  apply (lwr_solves_block_YW_mat_lemma n r order).
  - unfold r. rewrite rxx_of_length. lia.
  - unfold r, n. apply rxx0_symmetric; [lia|assumption].
  - exact Hok.
Qed.

(* ------------------------------------------------------------------ channel relabelling *)
Definition lsum (f : nat -> Q) (l : list nat) : Q := fold_right (fun k acc => f k + acc) 0 l.
Lemma lsum_app f l1 l2 : lsum f (l1 ++ l2) == lsum f l1 + lsum f l2.
Proof. induction l1; simpl; [ring|rewrite IHl1; ring]. Qed.
Lemma sumn_lsum f n : sumn f n == lsum f (seq 0 n).
Proof. induction n; [reflexivity|]. rewrite seq_S, lsum_app. simpl. rewrite IHn. ring. Qed.
Lemma lsum_perm f l l' : Permutation l l' -> lsum f l == lsum f l'.
Proof.
  induction 1; simpl.
  - reflexivity.
  - rewrite IHPermutation. reflexivity.
  - ring.
  - rewrite IHPermutation1. exact IHPermutation2.
Qed.
Lemma lsum_map f s l : lsum f (map s l) = lsum (fun k => f (s k)) l.
Proof. induction l; simpl; [reflexivity|rewrite IHl; reflexivity]. Qed.

Lemma NoDup_map_in {A B} (f : A -> B) l :
  (forall x y, In x l -> In y l -> f x = f y -> x = y) -> NoDup l -> NoDup (map f l).
Proof.
  induction l as [|a l IH]; intros Hinj Hnd; simpl; [constructor|].
  inversion Hnd; subst. constructor.
  - intros Hin. apply in_map_iff in Hin as (y & Hy & Hyl).
    assert (y = a) by (apply Hinj; [right; exact Hyl|left; reflexivity|exact Hy]). subst. contradiction.
  - apply IH; [|assumption]. intros x y Hx Hy. apply Hinj; right; assumption.
Qed.

(* s relabels the n channels, t is its inverse *)
Definition is_perm (n : nat) (s t : nat -> nat) : Prop :=
  forall i, (i < n)%nat -> (s i < n)%nat /\ (t i < n)%nat /\ s (t i) = i /\ t (s i) = i.

Lemma perm_seq n s t : is_perm n s t -> Permutation (map s (seq 0 n)) (seq 0 n).
Proof.
  intros Hp. apply NoDup_Permutation.
  - apply NoDup_map_in; [|apply seq_NoDup].
    intros x y Hx Hy E. apply in_seq in Hx, Hy.
    destruct (Hp x) as (_ & _ & _ & Tx); [lia|]. destruct (Hp y) as (_ & _ & _ & Ty); [lia|].
    rewrite <- Tx, <- Ty, E. reflexivity.
  - apply seq_NoDup.
  - intros x. split.
    + intros Hin. apply in_map_iff in Hin as (y & <- & Hy). apply in_seq in Hy. apply in_seq.
      destruct (Hp y) as (H1 & _); lia.
    + intros Hin. apply in_seq in Hin. destruct (Hp x) as (_ & H2 & H3 & _); [lia|].
      apply in_map_iff. exists (t x). split; [exact H3|apply in_seq; lia].
Qed.

Lemma sumn_perm n s t f : is_perm n s t -> sumn (fun k => f (s k)) n == sumn f n.
Proof.
  intros Hp. rewrite !sumn_lsum. rewrite <- lsum_map. apply lsum_perm. eapply perm_seq; eassumption.
Qed.

Lemma mperm_get n s A i j : (i < n)%nat -> (j < n)%nat -> mget (mperm n s A) i j = mget A (s i) (s j).
Proof. intros. unfold mperm. rewrite mget_mtab by assumption. reflexivity. Qed.

Section PermHom.
  Variables (n : nat) (s t : nat -> nat) (iv : mat -> mat).
  Hypothesis Hp : is_perm n s t.
  Let sb i (H : (i < n)%nat) : (s i < n)%nat := proj1 (Hp i H).

  Lemma mperm_0 : meq n (mperm n s (mzero n)) (mzero n).
  Proof. intros i j Hi Hj. rewrite mperm_get, !mzero_get by auto. reflexivity. Qed.
  Lemma mperm_1 : meq n (mperm n s (mid n)) (mid n).
  Proof.
    intros i j Hi Hj. rewrite mperm_get, !mid_get by auto.
    destruct (Nat.eqb_spec i j) as [->|Hne]; [rewrite Nat.eqb_refl; reflexivity|].
    destruct (Nat.eqb_spec (s i) (s j)) as [E|_]; [|reflexivity].
    exfalso. apply Hne. destruct (Hp i Hi) as (_ & _ & _ & Ti). destruct (Hp j Hj) as (_ & _ & _ & Tj).
    rewrite <- Ti, <- Tj, E. reflexivity.
  Qed.
  Lemma mperm_add A B : meq n (mperm n s (madd n A B)) (madd n (mperm n s A) (mperm n s B)).
  Proof. intros i j Hi Hj. rewrite mperm_get, !madd_get, !mperm_get by auto. reflexivity. Qed.
  Lemma mperm_opp A : meq n (mperm n s (mopp n A)) (mopp n (mperm n s A)).
  Proof. intros i j Hi Hj. rewrite mperm_get, !mopp_get, !mperm_get by auto. reflexivity. Qed.
  Lemma mperm_tr A : meq n (mperm n s (mtr n A)) (mtr n (mperm n s A)).
  Proof. intros i j Hi Hj. rewrite mperm_get, !mtr_get, !mperm_get by auto. reflexivity. Qed.
  Lemma mperm_mul A B : meq n (mperm n s (mmul n A B)) (mmul n (mperm n s A) (mperm n s B)).
  Proof.
    intros i j Hi Hj. rewrite mperm_get, !mmul_get by auto.
    rewrite <- (sumn_perm n s t (fun k => mget A (s i) k * mget B k (s j)) Hp).
    apply sumn_ext. intros k Hk. rewrite !mperm_get by auto. reflexivity.
  Qed.

  (* relabelling channels permutes the result of the recursion accordingly (for any inverse
     kernel that is a function of the matrix value and covariant on invertible matrices) *)
  Theorem lwr_perm_equivariant_mat_lemma :
    Proper (meq n ==> meq n) iv ->
    (forall a, meq n (mmul n (iv a) a) (mid n) -> meq n (iv (mperm n s a)) (mperm n s (iv a))) ->
    forall r P, length r = S P -> steps_ok (mat_ops_with n iv) (meq n) r P ->
    let '(a', sigma') := lwr_recursion (mat_ops_with n iv) (map (mperm n s) r) in
    let '(a, sigma) := lwr_recursion (mat_ops_with n iv) r in
    length a' = length a /\
    (forall i, meq n (nth i a' (mzero n)) (mperm n s (nth i a (mzero n)))) /\
    meq n sigma' (mperm n s sigma).
  Proof.
    intros Hiv Hcov.
    exact (lwr_equivariant_lemma (mat_ops_with n iv) (meq n) (mat_ring_laws_with n iv) (mperm n s)
             mperm_0 mperm_1 mperm_add mperm_mul mperm_opp mperm_tr Hiv Hcov).
  Qed.
End PermHom.

(* 2 x 2, adjugate inverse, swapping the two channels: every hypothesis holds *)
Definition swap2 (i : nat) : nat := (1 - i)%nat.
Lemma swap2_perm : is_perm 2 swap2 swap2.
Proof. intros i Hi. destruct i as [|[|i]]; [| |lia]; unfold swap2; simpl; repeat split; lia. Qed.

Lemma minv2_get A i j : (i < 2)%nat -> (j < 2)%nat ->
  mget (minv2 A) i j =
  let det := mget A 0 0 * mget A 1 1 - mget A 0 1 * mget A 1 0 in
  if Nat.eqb i 0 then (if Nat.eqb j 0 then mget A 1 1 / det else - mget A 0 1 / det)
  else (if Nat.eqb j 0 then - mget A 1 0 / det else mget A 0 0 / det).
Proof. intros. unfold minv2. rewrite mget_mtab by assumption. reflexivity. Qed.

Lemma minv2_proper : Proper (meq 2 ==> meq 2) minv2.
Proof.
  intros A A' H i j Hi Hj. rewrite !minv2_get by assumption. cbv zeta.
  assert (H00 : mget A 0 0 == mget A' 0 0) by (apply H; lia).
  assert (H01 : mget A 0 1 == mget A' 0 1) by (apply H; lia).
  assert (H10 : mget A 1 0 == mget A' 1 0) by (apply H; lia).
  assert (H11 : mget A 1 1 == mget A' 1 1) by (apply H; lia).
  destruct i as [|[|i]]; [| |lia]; destruct j as [|[|j]]; try lia; cbn [Nat.eqb];
    rewrite H00, H01, H10, H11; reflexivity.
Qed.

Lemma minv2_swap A : meq 2 (minv2 (mperm 2 swap2 A)) (mperm 2 swap2 (minv2 A)).
Proof.
  intros i j Hi Hj. rewrite mperm_get by assumption.
  assert (Hsi : (swap2 i < 2)%nat) by (unfold swap2; lia).
  assert (Hsj : (swap2 j < 2)%nat) by (unfold swap2; lia).
  rewrite !minv2_get by assumption. cbv zeta.
  rewrite !mperm_get by lia. unfold swap2.
  assert (E : mget A 1 1 * mget A 0 0 - mget A 1 0 * mget A 0 1
              == mget A 0 0 * mget A 1 1 - mget A 0 1 * mget A 1 0) by ring.
  destruct i as [|[|i]]; [| |lia]; destruct j as [|[|j]]; try lia; cbn [Nat.eqb Nat.sub];
    rewrite E; reflexivity.
Qed.
