(* Proofs/RateBound.v — the float64 error bound behind Frequency.to_period (property C02):
   for a finite rate f with 10^12/2^50 < f <= 2^1000 (period below 2^50 ps) the stored period p differs from
   the real 10^12/f by less than 1 ps.

   This is the ONLY file of the C02 development that uses real numbers and Flocq:
     * Coq's Reals (classical axioms ClassicalDedekindReals.sig_forall_dec, sig_not_dec and
       FunctionalExtensionality.functional_extensionality_dep appear under Print Assumptions),
     * Flocq: IEEE754.PrimFloat.div_equiv / mul_equiv (primitive float op = Bdiv / Bmult; they rest on the
       standard-library float specification axioms Floats.FloatAxioms.div_spec, mul_spec, Prim2SF_valid, ...),
       BinarySingleNaN.Bdiv_correct / Bmult_correct (result = rounded real result when no overflow),
       Prop.Relative.relative_error_N_FLT_ex (relative error 2^-53 of round-to-nearest in the normal range).
   No axiom is declared here.  Model files import none of this.

   Structure: (1) bridge f2R (the exact dyadic value read through F2Z.f2ze) = B2R (Prim2B _);
   (2) pure real analysis of two roundings: |rnd(rnd(1/F)*10^12) - 10^12/F| < 1/2 when 10^12/F < 2^50
       (|e1+e2+e1e2| <= 3*2^-53, times 2^50: 3/8), plus the no-overflow bounds;
   (3) the two primitive operations are those roundings; (4) `nearest` over the reals (<= 1/2); triangle. *)
From Coq Require Import ZArith Reals Lia Lra Psatz Floats SpecFloat.
From Flocq Require Import Core Relative BinarySingleNaN PrimFloat.
From NT Require Import F2Z TimeArray TimeArrayP Uniform UniformP.
Open Scope R_scope.

(* ---------------------------------------------------------------- (1) bridge *)

Definition f2R (f : PrimFloat.float) : R :=
  match f2ze f with Some (m, e) => IZR m * bpow radix2 e | None => 0 end.

Lemma f2R_B2R f : f2R f = B2R (Prim2B f).
Proof.
  unfold f2R, f2ze, Prim2B. rewrite B2R_SF2B.
  destruct (Prim2SF f) as [s|s| |s m e]; simpl; try reflexivity.
  all: try lra.
  all: try (unfold F2R; simpl; destruct s; reflexivity).
Qed.

Lemma ffinite_is_finite f : ffinite f = true -> is_finite (Prim2B f) = true.
Proof.
  unfold ffinite, f2ze, Prim2B. generalize (Prim2SF_valid f).
  destruct (Prim2SF f) as [s|s| |s m e]; simpl; intros; try reflexivity; discriminate.
Qed.

(* ---------------------------------------------------------------- (2) two roundings, over the reals *)

Definition rnd := round radix2 (FLT_exp (-1074) 53) ZnearestE.

Definition u53 : R := / IZR 9007199254740992.        (* 2^-53 *)
Definition p50 : R := IZR 1125899906842624.          (* 2^50 *)
Definition tiny : R := bpow radix2 (-1022).
Definition e12 : R := IZR 1000000000000.

Lemma bpow_m52 : / 2 * bpow radix2 (- 53 + 1) = u53.
Proof. unfold u53. simpl. change (Z.pow_pos 2 52) with 4503599627370496%Z. lra. Qed.

Lemma rel_err x : tiny <= Rabs x -> exists eps, Rabs eps <= u53 /\ rnd x = x * (1 + eps).
Proof.
  intros H. rewrite <- bpow_m52. unfold rnd.
  apply (relative_error_N_FLT_ex radix2 (-1074) 53 ltac:(reflexivity) (fun x => negb (Z.even x)) x).
  exact H.
Qed.

Definition p1000 : R := bpow radix2 1000.

Lemma tiny_pos : 0 < tiny. Proof. apply bpow_gt_0. Qed.
Lemma u53_bounds : 0 < u53 < / 1000000. 
Proof. unfold u53. split; [apply Rinv_0_lt_compat; lra|]. apply Rinv_lt_contravar; lra. Qed.

(* 2^-1000 >= 2^-1022 * 2^22  etc.: the only facts needed about the two huge powers *)
Lemma tiny_p1000 : tiny * p1000 * 4194304 = 1.
Proof.
  unfold tiny, p1000. rewrite <- bpow_plus. change (-1022 + 1000)%Z with (-22)%Z.
  simpl. change (Z.pow_pos 2 22) with 4194304%Z. field.
Qed.

Lemma two_roundings F :
  e12 / p50 < F <= p1000 ->
  let y1 := rnd (1 / F) in
  let y2 := rnd (y1 * e12) in
  Rabs (y2 - e12 / F) < / 2 /\ Rabs y1 <= 4096 /\ Rabs y2 <= p50 * 2.
Proof.
  intros [HFl HFu] y1 y2.
  pose proof tiny_pos as Ht. pose proof u53_bounds as [Hu0 Hu1]. pose proof tiny_p1000 as Htp.
  assert (Hp1000 : 0 < p1000) by apply bpow_gt_0.
  assert (HF : 0 < F). { unfold e12, p50 in HFl. apply Rlt_trans with (2 := HFl). apply Rdiv_lt_0_compat; lra. }
  assert (HiF : 0 < 1 / F) by (apply Rdiv_lt_0_compat; lra).
  (* 1/F >= 1/p1000 = tiny * 2^22 *)
  assert (HiFl : tiny <= 1 / F).
  { apply Rmult_le_reg_r with F; [exact HF|]. replace (1 / F * F) with 1 by (field; lra). nra. }
  assert (HiFl2 : tiny * 4194304 <= 1 / F).
  { apply Rmult_le_reg_r with F; [exact HF|]. replace (1 / F * F) with 1 by (field; lra). nra. }
  assert (HiFu : 1 / F < p50 / e12).
  { unfold e12, p50 in *. apply Rmult_lt_reg_r with F; [exact HF|]. replace (1 / F * F) with 1 by (field; lra).
    apply Rmult_lt_reg_r with (IZR 1000000000000 / IZR 1125899906842624); [apply Rdiv_lt_0_compat; lra|].
    replace (IZR 1125899906842624 / IZR 1000000000000 * F * (IZR 1000000000000 / IZR 1125899906842624)) with F by (field; lra).
    replace (1 * (IZR 1000000000000 / IZR 1125899906842624)) with (IZR 1000000000000 / IZR 1125899906842624) by ring. exact HFl. }
  destruct (rel_err (1 / F)) as (e1 & He1 & Hy1). { rewrite Rabs_pos_eq; lra. }
  fold y1 in Hy1.
  apply Rabs_le_inv in He1.
  assert (Hy1l : tiny * 2097152 <= y1) by (rewrite Hy1; nra).
  assert (Hy1p : 0 < y1) by nra.
  destruct (rel_err (y1 * e12)) as (e2 & He2 & Hy2).
  { unfold e12. rewrite Rabs_pos_eq; nra. }
  fold y2 in Hy2. apply Rabs_le_inv in He2.
  set (P := e12 / F).
  assert (HP : 0 < P < p50).
  { unfold P. split; [apply Rdiv_lt_0_compat; unfold e12; lra|].
    unfold e12, p50 in *. apply Rmult_lt_reg_r with F; [exact HF|]. replace (IZR 1000000000000 / F * F) with (IZR 1000000000000) by (field; lra).
    apply Rmult_lt_reg_r with (/ IZR 1125899906842624); [apply Rinv_0_lt_compat; lra|].
    replace (IZR 1125899906842624 * F * / IZR 1125899906842624) with F by (field; lra). exact HFl. }
  assert (Hy1P : y1 * e12 = P * (1 + e1)). { rewrite Hy1. unfold P. field. lra. }
  assert (Ey2 : y2 - P = P * (e1 + e2 + e1 * e2)). { rewrite Hy2, Hy1P. ring. }
  set (d := e1 + e2 + e1 * e2) in *.
  assert (He12 : - u53 <= e1 * e2 <= u53) by nra.
  assert (Hd : - (3 * u53) <= d <= 3 * u53) by (unfold d; lra).
  assert (K : p50 * (3 * u53) = 3 / 8) by (unfold p50, u53; field).
  assert (Hp50 : 0 < p50) by (unfold p50; lra).
  assert (A1 : 0 <= P * (3 * u53 - d)) by (apply Rmult_le_pos; lra).
  assert (A2 : 0 <= P * (d + 3 * u53)) by (apply Rmult_le_pos; lra).
  assert (A3 : 0 < (p50 - P) * (3 * u53)) by (apply Rmult_lt_0_compat; lra).
  split; [|split].
  - fold P. rewrite Ey2. apply Rabs_def1; lra.
  - rewrite Rabs_pos_eq by lra. rewrite Hy1.
    assert (H1126 : 1 / F < 1126) by (unfold p50, e12 in HiFu; lra).
    assert (B : 0 <= 1 / F * (1 + e1) <= 1126 * 2) by (split; [apply Rmult_le_pos; lra|apply Rmult_le_compat; lra]).
    lra.
  - rewrite Hy2, Hy1P.
    assert (B1 : 0 <= P * (1 + e1) <= p50 * (4 / 3)) by (split; [apply Rmult_le_pos; lra|apply Rmult_le_compat; lra]).
    assert (B2 : 0 <= P * (1 + e1) * (1 + e2) <= p50 * (4 / 3) * (4 / 3)) by (split; [apply Rmult_le_pos; lra|apply Rmult_le_compat; lra]).
    rewrite Rabs_pos_eq by lra. lra.
Qed.

(* ---------------------------------------------------------------- (3), (4) the primitive operations; the bound *)

Lemma one_val : B2R (Prim2B one_f) = 1 /\ is_finite (Prim2B one_f) = true.
Proof.
  split.
  - rewrite <- f2R_B2R. unfold f2R.
    replace (f2ze one_f) with (Some (4503599627370496%Z, (-52)%Z)) by (vm_compute; reflexivity).
    simpl. change (Z.pow_pos 2 52) with 4503599627370496%Z. field.
  - apply ffinite_is_finite. vm_compute. reflexivity.
Qed.

Lemma e12_val : B2R (Prim2B (freq_scale Ups)) = e12 /\ is_finite (Prim2B (freq_scale Ups)) = true.
Proof.
  split.
  - rewrite <- f2R_B2R. unfold f2R.
    replace (f2ze (freq_scale Ups)) with (Some (8192000000000000%Z, (-13)%Z)) by (vm_compute; reflexivity).
    simpl. change (Z.pow_pos 2 13) with 8192%Z. unfold e12. field.
  - apply ffinite_is_finite. vm_compute. reflexivity.
Qed.

Lemma rnd_is : forall x, round radix2 (fexp prec emax) (round_mode mode_NE) x = rnd x.
Proof. reflexivity. Qed.

Lemma nearest_R z m e : nearest z m e -> Rabs (IZR z - IZR m * bpow radix2 e) <= / 2.
Proof.
  unfold nearest. destruct (0 <=? e)%Z eqn:He.
  - apply Z.leb_le in He. intros ->. rewrite mult_IZR, (IZR_Zpower radix2) by exact He.
    replace (IZR m * bpow radix2 e - IZR m * bpow radix2 e) with 0 by ring. rewrite Rabs_R0. lra.
  - apply Z.leb_gt in He. intros H.
    assert (Hk : (0 <= - e)%Z) by lia.
    set (K := bpow radix2 (- e)).
    assert (HK : 0 < K) by apply bpow_gt_0.
    assert (EK : IZR (2 ^ (- e)) = K) by (apply (IZR_Zpower radix2); exact Hk).
    apply IZR_le in H. rewrite mult_IZR, abs_IZR, minus_IZR, mult_IZR, EK in H.
    replace (bpow radix2 e) with (/ K) by (unfold K; rewrite bpow_opp, Rinv_inv; reflexivity).
    replace (IZR z - IZR m * / K) with ((IZR z * K - IZR m) * / K) by (field; lra).
    rewrite Rabs_mult, (Rabs_pos_eq (/ K)) by (left; apply Rinv_0_lt_compat; exact HK).
    apply Rmult_le_reg_r with K; [exact HK|].
    rewrite Rmult_assoc, Rinv_l, Rmult_1_r by lra. simpl in H. lra.
Qed.

Lemma pow_lt_emax k : (k < 1024)%Z -> bpow radix2 k < bpow radix2 emax.
Proof. intros H. apply bpow_lt. exact H. Qed.

(* the float64 value of (1/f)*10^12 is the twice rounded real quotient *)
Lemma period_float f :
  ffinite f = true -> e12 / p50 < f2R f <= p1000 ->
  f2R (PrimFloat.mul (PrimFloat.div one_f f) (freq_scale Ups)) = rnd (rnd (1 / f2R f) * e12).
Proof.
  intros Hfin Hg. set (F := f2R f) in *.
  destruct (two_roundings F Hg) as (_ & By1 & By2).
  assert (HF : B2R (Prim2B f) = F) by (symmetry; apply f2R_B2R).
  assert (HFpos : 0 < F).
  { destruct Hg as [Hg _]. apply Rlt_trans with (2 := Hg). unfold e12, p50. apply Rdiv_lt_0_compat; lra. }
  destruct one_val as [H1 H1f]. destruct e12_val as [Hc Hcf].
  (* the division *)
  pose proof (Bdiv_correct prec emax Hprec Hmax mode_NE (Prim2B one_f) (Prim2B f)) as Hd.
  rewrite HF, H1 in Hd. specialize (Hd ltac:(lra)).
  rewrite rnd_is in Hd.
  rewrite Rlt_bool_true in Hd.
  2:{ apply Rle_lt_trans with (1 := By1). change 4096 with (bpow radix2 12). apply pow_lt_emax. reflexivity. }
  destruct Hd as (Hdv & Hdf & _). rewrite <- div_equiv in Hdv, Hdf.
  (* the multiplication *)
  pose proof (Bmult_correct prec emax Hprec Hmax mode_NE (Prim2B (PrimFloat.div one_f f)) (Prim2B (freq_scale Ups))) as Hm.
  rewrite Hdv, Hc, rnd_is in Hm.
  rewrite Rlt_bool_true in Hm.
  2:{ apply Rle_lt_trans with (1 := By2). replace (p50 * 2) with (bpow radix2 51).
      - apply pow_lt_emax. reflexivity.
      - unfold p50. simpl. change (Z.pow_pos 2 51) with 2251799813685248%Z. lra. }
  destruct Hm as (Hmv & _). rewrite <- mul_equiv in Hmv.
  rewrite f2R_B2R. exact Hmv.
Qed.

Theorem rate_interval_bound f p :
  ffinite f = true -> e12 / p50 < f2R f <= p1000 ->
  to_period f = TOk p ->
  Rabs (IZR p - e12 / f2R f) < 1.
Proof.
  intros Hfin Hg Hp.
  destruct (to_period_nearest f p Hp) as (m & e & Hze & Hn).
  pose proof (period_float f Hfin Hg) as Hv.
  unfold f2R at 1 in Hv. rewrite Hze in Hv.
  apply nearest_R in Hn. rewrite Hv in Hn.
  destruct (two_roundings (f2R f) Hg) as (Hb & _).
  cbv zeta in Hb.
  replace (IZR p - e12 / f2R f) with ((IZR p - rnd (rnd (1 / f2R f) * e12)) + (rnd (rnd (1 / f2R f) * e12) - e12 / f2R f)) by ring.
  apply Rle_lt_trans with (1 := Rabs_triang _ _). lra.
Qed.

(* ---------------------------------------------------------------- readable statement, examples *)

Lemma e12_pow : e12 = 10 ^ 12. Proof. unfold e12. rewrite pow_IZR. apply f_equal. vm_compute. reflexivity. Qed.
Lemma p50_pow : p50 = 2 ^ 50. Proof. unfold p50. rewrite pow_IZR. apply f_equal. vm_compute. reflexivity. Qed.
Lemma p1000_pow : p1000 = 2 ^ 1000.
Proof. unfold p1000. rewrite pow_IZR, <- (IZR_Zpower radix2 1000) by lia. apply f_equal. vm_compute. reflexivity. Qed.

Theorem rate_interval_bound_pow f p :
  ffinite f = true -> 10 ^ 12 / 2 ^ 50 < f2R f <= 2 ^ 1000 ->
  to_period f = TOk p ->
  Rabs (IZR p - 10 ^ 12 / f2R f) < 1.
Proof.
  rewrite <- e12_pow, <- p50_pow, <- p1000_pow. apply rate_interval_bound.
Qed.

(* the guard is met by ordinary rates *)
Lemma guard_example_1000 :
  ffinite 1000%float = true /\ 10 ^ 12 / 2 ^ 50 < f2R 1000%float <= 2 ^ 1000 /\ to_period 1000%float = TOk 1000000000%Z.
Proof.
  split; [vm_compute; reflexivity|]. split; [|vm_compute; reflexivity].
  unfold f2R. replace (f2ze 1000%float) with (Some (8796093022208000%Z, (-43)%Z)) by (vm_compute; reflexivity).
  rewrite <- e12_pow, <- p50_pow, <- p1000_pow.
  replace (IZR 8796093022208000 * bpow radix2 (-43)) with 1000.
  2:{ simpl. change (Z.pow_pos 2 43) with 8796093022208%Z. field. }
  split.
  - unfold e12, p50. lra.
  - unfold p1000. apply Rle_trans with (bpow radix2 10); [simpl; lra|apply bpow_le; lia].
Qed.

Lemma guard_example_3p3 :
  ffinite 0x1.a666666666666p+1%float = true /\ 10 ^ 12 / 2 ^ 50 < f2R 0x1.a666666666666p+1%float <= 2 ^ 1000 /\
  to_period 0x1.a666666666666p+1%float = TOk 303030303030%Z.
Proof.
  split; [vm_compute; reflexivity|]. split; [|vm_compute; reflexivity].
  unfold f2R. replace (f2ze 0x1.a666666666666p+1%float) with (Some (7430939385161318%Z, (-51)%Z)) by (vm_compute; reflexivity).
  rewrite <- e12_pow, <- p50_pow, <- p1000_pow.
  replace (IZR 7430939385161318 * bpow radix2 (-51)) with (IZR 7430939385161318 / IZR 2251799813685248).
  2:{ simpl. change (Z.pow_pos 2 51) with 2251799813685248%Z. field. }
  split.
  - unfold e12, p50. lra.
  - unfold p1000. apply Rle_trans with (bpow radix2 10); [simpl; lra|apply bpow_le; lia].
Qed.
