(* Proofs/GrangerP.v — lemmas about Model/Granger.v (property C12). *)
From Coq Require Import QArith List Bool Arith Lia Psatz Setoid Morphisms.
From NT Require Import QC AR ARP Granger.
Import ListNotations.
Open Scope Q_scope.

(* ------------------------------------------------------------------ tactics *)
Ltac destr_M H := destruct H as [[?h00r ?h00i] [?h01r ?h01i] [?h10r ?h10i] [?h11r ?h11i]].
Ltac destr_Q S := destruct S as [?s00 ?s01 ?s10 ?s11].
Ltac unf := cbv [m2eq m2mul m2id m2herm m2ofQ m2swap q2swap transfer det2 spectral_matrix
  coherence interdep_arg granger_core xx_auto_of yy_auto_of
  cdiv cinv cadd csub cneg cmul cconj cscale ofQ c0 c1 cnorm2 ceq re im
  m00 m01 m10 m11 q00 q01 q10 q11 gc_x2y gc_y2x gc_inst gc_S fst snd] in *.

Lemma Qsq_nonneg (x : Q) : 0 <= x * x.
Proof. destruct (Qlt_le_dec x 0) as [H|H].
  - setoid_replace (x*x) with ((-x)*(-x)) by ring. apply Qmult_le_0_compat; lra.
  - apply Qmult_le_0_compat; assumption. Qed.

Lemma cnorm2_eq0 z : cnorm2 z == 0 -> z =c= c0.
Proof.
  destruct z as [x y]. unfold cnorm2, ceq, c0, re, im; simpl. intros H.
  pose proof (Qsq_nonneg x) as Hx. pose proof (Qsq_nonneg y) as Hy.
  assert (Ex : x * x == 0) by lra. assert (Ey : y * y == 0) by lra.
  split.
  - destruct (Qmult_integral _ _ Ex); assumption.
  - destruct (Qmult_integral _ _ Ey); assumption.
Qed.

Lemma cnorm2_pos z : ~ cnorm2 z == 0 -> 0 < cnorm2 z.
Proof. intros H. pose proof (cnorm2_nonneg z). destruct (Qlt_le_dec 0 (cnorm2 z)); auto. exfalso; apply H; lra. Qed.

Lemma cnorm2_0 z : z =c= c0 -> cnorm2 z == 0.
Proof. intros E. rewrite E. reflexivity. Qed.

(* ------------------------------------------------------------------ H is the inverse of A *)
Lemma H_is_inverse A : ~ cnorm2 (det2 A) == 0 ->
  m2eq (m2mul (transfer A) A) m2id /\ m2eq (m2mul A (transfer A)) m2id.
Proof.
  destr_M A. unf. intros Hd. repeat split; field; exact Hd.
Qed.

(* ------------------------------------------------------------------ S = H Sigma H^H *)
Lemma spectral_matrix_is_HSH H cov :
  m2eq (spectral_matrix H cov) (m2mul (m2mul H (m2ofQ cov)) (m2herm H)).
Proof. destr_M H. destr_Q cov. unf. repeat split; ring. Qed.

Lemma S_hermitian H cov : q10 cov == q01 cov ->
  let S := spectral_matrix H cov in
  m10 S =c= cconj (m01 S) /\ im (m00 S) == 0 /\ im (m11 S) == 0.
Proof. destr_M H. destr_Q cov. unf. intros E. rewrite E. repeat split; ring. Qed.

(* quadratic form v^H S v *)
Definition qform (S : M2) (v0 v1 : C) : C :=
  cadd (cmul (cconj v0) (cadd (cmul (m00 S) v0) (cmul (m01 S) v1)))
       (cmul (cconj v1) (cadd (cmul (m10 S) v0) (cmul (m11 S) v1))).
(* u = H^H v *)
Definition HHv0 (H : M2) (v0 v1 : C) : C := cadd (cmul (cconj (m00 H)) v0) (cmul (cconj (m10 H)) v1).
Definition HHv1 (H : M2) (v0 v1 : C) : C := cadd (cmul (cconj (m01 H)) v0) (cmul (cconj (m11 H)) v1).
(* u^H Sigma u for real symmetric Sigma: a real number *)
Definition qform_real (cov : Q2) (u0 u1 : C) : Q :=
  q00 cov * cnorm2 u0 + 2 * q01 cov * re (cmul (cconj u0) u1) + q11 cov * cnorm2 u1.

Lemma qform_real_nonneg cov u0 u1 :
  0 < q00 cov -> 0 <= q00 cov * q11 cov - q01 cov * q01 cov -> 0 <= qform_real cov u0 u1.
Proof.
  destr_Q cov. destruct u0 as [a b], u1 as [c d]. unfold qform_real; unf. intros Hs Hd.
  set (X := s00 * (a * a + b * b) + 2 * s01 * (a * c - - b * d) + s11 * (c * c + d * d)).
  assert (E : s00 * X == (s00 * a + s01 * c) * (s00 * a + s01 * c) + (s00 * b + s01 * d) * (s00 * b + s01 * d)
                         + (s00 * s11 - s01 * s01) * (c * c + d * d)) by (unfold X; ring).
  assert (0 <= s00 * X).
  { rewrite E. pose proof (Qsq_nonneg (s00 * a + s01 * c)). pose proof (Qsq_nonneg (s00 * b + s01 * d)).
    assert (0 <= (s00 * s11 - s01 * s01) * (c * c + d * d)).
    { apply Qmult_le_0_compat; auto. pose proof (Qsq_nonneg c); pose proof (Qsq_nonneg d); lra. }
    lra. }
  destruct (Qlt_le_dec X 0) as [Hn|]; auto. exfalso.
  assert (s00 * X < 0). { setoid_replace (s00 * X) with (- (s00 * (- X))) by ring.
    assert (0 < s00 * - X) by (apply Qmult_lt_0_compat; lra). lra. }
  lra.
Qed.

Lemma S_psd H cov v0 v1 : q10 cov == q01 cov ->
  qform (spectral_matrix H cov) v0 v1 =c= ofQ (qform_real cov (HHv0 H v0 v1) (HHv1 H v0 v1)).
Proof.
  destr_M H. destr_Q cov. destruct v0 as [a b], v1 as [c d].
  unfold qform, qform_real, HHv0, HHv1. unf. intros E. rewrite E. split; ring.
Qed.

(* ------------------------------------------------------------------ the two routines agree *)
Lemma S_two_routines_agree H cov :
  ~ q00 cov == 0 -> ~ q11 cov == 0 -> q10 cov == q01 cov ->
  m2eq (gc_S (granger_core H cov)) (spectral_matrix H cov).
Proof.
  destr_M H. destr_Q cov. unf. intros Hs Hg E. rewrite E. repeat split; field; auto.
Qed.

(* ------------------------------------------------------------------ the log arguments *)
Lemma xx_auto_eq H cov :
  re (cmul (cscale (q00 cov) (cadd (m00 H) (cscale (q01 cov / q00 cov) (m01 H))))
           (cconj (cadd (m00 H) (cscale (q01 cov / q00 cov) (m01 H))))) == xx_auto_of H cov.
Proof. destr_M H. destr_Q cov. unf. ring. Qed.

Lemma yy_auto_eq H cov :
  re (cmul (cscale (q11 cov) (cadd (m11 H) (cscale (q01 cov / q11 cov) (m10 H))))
           (cconj (cadd (m11 H) (cscale (q01 cov / q11 cov) (m10 H))))) == yy_auto_of H cov.
Proof. destr_M H. destr_Q cov. unf. ring. Qed.

(* discharge a side condition `~ G == 0` of field from a hypothesis Hx : ~ X == 0 where G == X' * k
   for the goal's polynomial form *)
Ltac fside Hx k tac :=
  let Z := fresh "Z" in intro Z; apply Hx;
  match type of Z with ?L == 0 => match goal with |- ?G == 0 =>
    let E := fresh "E" in assert (E : G == L * k) by (field; tac); rewrite E, Z; ring end end.

(* f_y_on_x argument = 1 + gamma2 |Hxy|^2 / xx_auto ;  f_x_on_y argument = 1 + sigma2 |Hyx|^2 / yy_auto *)
Lemma y2x_form H cov : ~ q00 cov == 0 -> ~ xx_auto_of H cov == 0 ->
  gc_y2x (granger_core H cov) ==
  1 + (q11 cov - q01 cov * q01 cov / q00 cov) * cnorm2 (m01 H) / xx_auto_of H cov.
Proof. destr_M H. destr_Q cov. unf. intros Hs Hx. field. split; [exact Hs|]. fside Hx (/ s00) ltac:(exact Hs). Qed.

Lemma x2y_form H cov : ~ q11 cov == 0 -> ~ yy_auto_of H cov == 0 ->
  gc_x2y (granger_core H cov) ==
  1 + (q00 cov - q01 cov * q01 cov / q11 cov) * cnorm2 (m10 H) / yy_auto_of H cov.
Proof. destr_M H. destr_Q cov. unf. intros Hs Hx. field. split; [exact Hs|]. fside Hx (/ s11) ltac:(exact Hs). Qed.

Lemma Qdiv_nonneg a b : 0 <= a -> 0 < b -> 0 <= a / b.
Proof. intros Ha Hb. unfold Qdiv. apply Qmult_le_0_compat; auto. apply Qlt_le_weak, Qinv_lt_0_compat; exact Hb. Qed.

Lemma schur_nonneg s u g : 0 < s -> 0 <= s * g - u * u -> 0 <= g - u * u / s.
Proof. intros Hs Hd. setoid_replace (g - u * u / s) with ((s * g - u * u) / s) by (field; lra). apply Qdiv_nonneg; auto. Qed.

Lemma xx_auto_pos H cov : 0 < q00 cov -> ~ xx_auto_of H cov == 0 -> 0 < xx_auto_of H cov.
Proof. intros Hs Hx. unfold xx_auto_of in *.
  set (n := cnorm2 _) in *. pose proof (cnorm2_nonneg (cadd (m00 H) (cscale (q01 cov / q00 cov) (m01 H)))) as Hn.
  fold n in Hn. assert (0 <= q00 cov * n) by (apply Qmult_le_0_compat; lra).
  destruct (Qlt_le_dec 0 (q00 cov * n)); auto. exfalso; apply Hx; lra. Qed.

Lemma yy_auto_pos H cov : 0 < q11 cov -> ~ yy_auto_of H cov == 0 -> 0 < yy_auto_of H cov.
Proof. intros Hs Hx. unfold yy_auto_of in *.
  set (n := cnorm2 _) in *. pose proof (cnorm2_nonneg (cadd (m11 H) (cscale (q01 cov / q11 cov) (m10 H)))) as Hn.
  fold n in Hn. assert (0 <= q11 cov * n) by (apply Qmult_le_0_compat; lra).
  destruct (Qlt_le_dec 0 (q11 cov * n)); auto. exfalso; apply Hx; lra. Qed.

(* each directional log argument is 1 + nonneg/pos *)
Lemma causality_arg_ge_1 H cov :
  0 < q00 cov -> 0 < q11 cov -> 0 <= q00 cov * q11 cov - q01 cov * q01 cov ->
  ~ xx_auto_of H cov == 0 -> ~ yy_auto_of H cov == 0 ->
  1 <= gc_y2x (granger_core H cov) /\ 1 <= gc_x2y (granger_core H cov).
Proof.
  intros Hs Hg Hd Hx Hy. split.
  - rewrite y2x_form by (auto; lra).
    assert (0 <= (q11 cov - q01 cov * q01 cov / q00 cov) * cnorm2 (m01 H) / xx_auto_of H cov).
    { apply Qdiv_nonneg; [|apply xx_auto_pos; auto]. apply Qmult_le_0_compat; [|apply cnorm2_nonneg].
      apply schur_nonneg; auto. }
    lra.
  - rewrite x2y_form by (auto; lra).
    assert (0 <= (q00 cov - q01 cov * q01 cov / q11 cov) * cnorm2 (m10 H) / yy_auto_of H cov).
    { apply Qdiv_nonneg; [|apply yy_auto_pos; auto]. apply Qmult_le_0_compat; [|apply cnorm2_nonneg].
      apply schur_nonneg; auto. setoid_replace (q11 cov * q00 cov - q01 cov * q01 cov) with (q00 cov * q11 cov - q01 cov * q01 cov) by ring. exact Hd. }
    lra.
Qed.

(* ------------------------------------------------------------------ structure of the returned values *)
Definition detS_of (S : M2) : Q := re (csub (cmul (m00 S) (m11 S)) (cmul (m01 S) (m10 S))).

Lemma gc_struct H cov :
  let g := granger_core H cov in
  let xx := re (cmul (cscale (q00 cov) (cadd (m00 H) (cscale (q01 cov / q00 cov) (m01 H))))
                     (cconj (cadd (m00 H) (cscale (q01 cov / q00 cov) (m01 H))))) in
  let yy := re (cmul (cscale (q11 cov) (cadd (m11 H) (cscale (q01 cov / q11 cov) (m10 H))))
                     (cconj (cadd (m11 H) (cscale (q01 cov / q11 cov) (m10 H))))) in
  gc_y2x g = re (m00 (gc_S g)) / xx /\ gc_x2y g = re (m11 (gc_S g)) / yy /\
  gc_inst g = xx * yy / detS_of (gc_S g).
Proof. repeat split; reflexivity. Qed.

Lemma gcS_real_diag H cov :
  im (m00 (gc_S (granger_core H cov))) == 0 /\ im (m11 (gc_S (granger_core H cov))) == 0.
Proof. destr_M H. destr_Q cov. unf. split; ring. Qed.

Lemma detS_split S : im (m00 S) == 0 ->
  detS_of S == re (m00 S) * re (m11 S) - re (cmul (m01 S) (m10 S)).
Proof. destr_M S. unfold detS_of. unf. intros E. rewrite E. ring. Qed.

Lemma Sxx_form H cov : ~ q00 cov == 0 ->
  re (m00 (gc_S (granger_core H cov))) ==
  xx_auto_of H cov + (q11 cov - q01 cov * q01 cov / q00 cov) * cnorm2 (m01 H).
Proof. destr_M H. destr_Q cov. unf. intros Hs. field. exact Hs. Qed.

Lemma Syy_form H cov : ~ q11 cov == 0 ->
  re (m11 (gc_S (granger_core H cov))) ==
  yy_auto_of H cov + (q00 cov - q01 cov * q01 cov / q11 cov) * cnorm2 (m10 H).
Proof. destr_M H. destr_Q cov. unf. intros Hs. field. exact Hs. Qed.

(* det S = |det H|^2 det Sigma *)
Lemma detS_form H cov : ~ q00 cov == 0 -> ~ q11 cov == 0 ->
  detS_of (gc_S (granger_core H cov)) ==
  cnorm2 (det2 H) * (q00 cov * q11 cov - q01 cov * q01 cov).
Proof. destr_M H. destr_Q cov. unfold detS_of. unf. intros Hs Hg. field. auto. Qed.

Lemma decomp_abs (xx yy sxx syy m d : Q) :
  ~ xx == 0 -> ~ yy == 0 -> ~ sxx == 0 -> ~ syy == 0 -> ~ d == 0 -> d == sxx * syy - m ->
  (syy / yy) * (sxx / xx) * (xx * yy / d) * (1 - m / sxx / syy) == 1.
Proof. intros. setoid_replace m with (sxx * syy - d) by lra. field. auto. Qed.

(* product of the three log arguments times (1 - coherence) = 1 *)
Lemma decomposition_gen H cov :
  let g := granger_core H cov in
  ~ xx_auto_of H cov == 0 -> ~ yy_auto_of H cov == 0 ->
  ~ re (m00 (gc_S g)) == 0 -> ~ re (m11 (gc_S g)) == 0 -> ~ detS_of (gc_S g) == 0 ->
  gc_x2y g * gc_y2x g * gc_inst g * interdep_arg (gc_S g) == 1.
Proof.
  intros g Hx Hy Hsx Hsy Hd.
  destruct (gc_struct H cov) as (E1 & E2 & E3). fold g in E1, E2, E3.
  rewrite E1, E2, E3. rewrite xx_auto_eq, yy_auto_eq.
  unfold interdep_arg, coherence.
  apply decomp_abs; auto.
  apply detS_split. apply (proj1 (gcS_real_diag H cov)).
Qed.

Lemma Qmult_pos_pos a b : 0 < a -> 0 < b -> 0 < a * b.
Proof. intros. apply Qmult_lt_0_compat; auto. Qed.
Lemma Qdiv_pos a b : 0 < a -> 0 < b -> 0 < a / b.
Proof. intros Ha Hb. unfold Qdiv. apply Qmult_lt_0_compat; auto. apply Qinv_lt_0_compat; exact Hb. Qed.

(* under a positive definite covariance and an invertible transfer matrix all quantities entering the
   logarithms are positive *)
Lemma gc_positive H cov :
  let g := granger_core H cov in
  0 < q00 cov -> 0 < q11 cov -> 0 < q00 cov * q11 cov - q01 cov * q01 cov ->
  ~ cnorm2 (det2 H) == 0 -> ~ xx_auto_of H cov == 0 -> ~ yy_auto_of H cov == 0 ->
  0 < re (m00 (gc_S g)) /\ 0 < re (m11 (gc_S g)) /\ 0 < detS_of (gc_S g).
Proof.
  intros g Hs Hg Hd Hdet Hx Hy. unfold g.
  pose proof (xx_auto_pos H cov Hs Hx). pose proof (yy_auto_pos H cov Hg Hy).
  repeat split.
  - rewrite Sxx_form by lra.
    assert (0 <= (q11 cov - q01 cov * q01 cov / q00 cov) * cnorm2 (m01 H)).
    { apply Qmult_le_0_compat; [apply schur_nonneg; lra|apply cnorm2_nonneg]. }
    lra.
  - rewrite Syy_form by lra.
    assert (0 <= (q00 cov - q01 cov * q01 cov / q11 cov) * cnorm2 (m10 H)).
    { apply Qmult_le_0_compat; [apply schur_nonneg; lra|apply cnorm2_nonneg]. }
    lra.
  - rewrite detS_form by lra. apply Qmult_pos_pos; [apply cnorm2_pos; auto|lra].
Qed.

Lemma decomposition H cov :
  let g := granger_core H cov in
  0 < q00 cov -> 0 < q11 cov -> 0 < q00 cov * q11 cov - q01 cov * q01 cov ->
  ~ cnorm2 (det2 H) == 0 -> ~ xx_auto_of H cov == 0 -> ~ yy_auto_of H cov == 0 ->
  gc_x2y g * gc_y2x g * gc_inst g * interdep_arg (gc_S g) == 1 /\
  0 < gc_x2y g /\ 0 < gc_y2x g /\ 0 < gc_inst g /\ 0 < interdep_arg (gc_S g).
Proof.
  intros g Hs Hg Hd Hdet Hx Hy.
  destruct (gc_positive H cov Hs Hg Hd Hdet Hx Hy) as (P1 & P2 & P3). fold g in P1, P2, P3.
  assert (D : gc_x2y g * gc_y2x g * gc_inst g * interdep_arg (gc_S g) == 1).
  { apply decomposition_gen; auto; fold g; lra. }
  destruct (causality_arg_ge_1 H cov Hs Hg ltac:(lra) Hx Hy) as [G1 G2]. fold g in G1, G2.
  assert (G3 : 0 < gc_inst g).
  { destruct (gc_struct H cov) as (_ & _ & E3). fold g in E3. rewrite E3, xx_auto_eq, yy_auto_eq.
    apply Qdiv_pos; auto. apply Qmult_pos_pos; [apply xx_auto_pos|apply yy_auto_pos]; auto. }
  split; [exact D|]. repeat split; try lra; auto.
  set (P := gc_x2y g * gc_y2x g * gc_inst g) in *.
  assert (0 < P). { unfold P. apply Qmult_pos_pos; auto. apply Qmult_pos_pos; lra. }
  destruct (Qlt_le_dec 0 (interdep_arg (gc_S g))) as [|Hn]; auto. exfalso.
  assert (P * interdep_arg (gc_S g) <= 0).
  { setoid_replace (P * interdep_arg (gc_S g)) with (- (P * - interdep_arg (gc_S g))) by ring.
    assert (0 <= P * - interdep_arg (gc_S g)) by (apply Qmult_le_0_compat; lra). lra. }
  lra.
Qed.

(* ------------------------------------------------------------------ transfer of A: inverse has inverse determinant *)
Lemma det_transfer A : ~ cnorm2 (det2 A) == 0 -> ~ cnorm2 (det2 (transfer A)) == 0.
Proof.
  intros Hd Z.
  assert (E : cnorm2 (det2 (transfer A)) * cnorm2 (det2 A) == 1).
  { destr_M A. unf. field. exact Hd. }
  rewrite Z in E. lra.
Qed.

(* ------------------------------------------------------------------ Proper instances *)
Global Instance m2eq_equiv : Equivalence m2eq.
Proof. split.
  - intros A; (split; [|split; [|split]]); reflexivity.
  - intros A B (E1 & E2 & E3 & E4); (split; [|split; [|split]]); symmetry; assumption.
  - intros A B D (E1 & E2 & E3 & E4) (F1 & F2 & F3 & F4); (split; [|split; [|split]]); etransitivity; eassumption.
Qed.

Definition gc_eq (g g' : gc_out) : Prop :=
  gc_x2y g == gc_x2y g' /\ gc_y2x g == gc_y2x g' /\ gc_inst g == gc_inst g' /\ m2eq (gc_S g) (gc_S g').

Lemma granger_core_proper H H' cov : m2eq H H' -> gc_eq (granger_core H cov) (granger_core H' cov).
Proof.
  destruct H as [a b c d], H' as [a' b' c' d']. intros (E1 & E2 & E3 & E4). cbn [m00 m01 m10 m11] in *.
  unfold gc_eq, m2eq, granger_core. cbn [m00 m01 m10 m11 gc_x2y gc_y2x gc_inst gc_S].
  (split; [|split; [|split; [|split; [|split; [|split]]]]]); rewrite ?E1, ?E2, ?E3, ?E4; reflexivity.
Qed.

Lemma detS_of_proper S S' : m2eq S S' -> detS_of S == detS_of S'.
Proof. intros (E1 & E2 & E3 & E4). unfold detS_of. rewrite E1, E2, E3, E4. reflexivity. Qed.

(* ------------------------------------------------------------------ relabelling the channels *)
Lemma transfer_swap A : m2eq (transfer (m2swap A)) (m2swap (transfer A)).
Proof.
  assert (D : det2 (m2swap A) =c= det2 A) by (destr_M A; unfold det2, m2swap; cbn [m00 m01 m10 m11]; cring).
  unfold m2eq, transfer. cbn [m00 m01 m10 m11]. rewrite !D.
  unfold m2swap; cbn [m00 m01 m10 m11]. (split; [|split; [|split]]); reflexivity.
Qed.

Lemma Aw_swap a z : Aw (map q2swap a) z = m2swap (Aw a z).
Proof. unfold Aw, m2swap, poly_a, poly_b, poly_c, poly_d. cbn [m00 m01 m10 m11]. rewrite !map_map. reflexivity. Qed.

Lemma relabel_core H cov : q10 cov == q01 cov -> ~ q00 cov == 0 -> ~ q11 cov == 0 ->
  let g := granger_core H cov in
  let g' := granger_core (m2swap H) (q2swap cov) in
  gc_x2y g' == gc_y2x g /\ gc_y2x g' == gc_x2y g /\ gc_inst g' == gc_inst g /\
  m2eq (gc_S g') (m2swap (gc_S g)).
Proof.
  intros E Hs Hg g g'.
  assert (ES : m2eq (gc_S g') (m2swap (gc_S g))).
  { unfold g, g'. destr_M H. destr_Q cov. unf. rewrite E. repeat split; field; auto. }
  assert (E1 : gc_x2y g' == gc_y2x g).
  { unfold g, g'. destr_M H. destr_Q cov. unf. rewrite E. reflexivity. }
  assert (E2 : gc_y2x g' == gc_x2y g).
  { unfold g, g'. destr_M H. destr_Q cov. unf. rewrite E. reflexivity. }
  split; [exact E1|]. split; [exact E2|]. split; [|exact ES].
  destruct (gc_struct H cov) as (_ & _ & E3). fold g in E3.
  destruct (gc_struct (m2swap H) (q2swap cov)) as (_ & _ & E3'). fold g' in E3'.
  rewrite E3, E3'. rewrite (detS_of_proper _ _ ES).
  assert (DS : detS_of (m2swap (gc_S g)) == detS_of (gc_S g)).
  { generalize (gc_S g). intros S. destr_M S. unfold detS_of. unf. ring. }
  rewrite DS. rewrite !xx_auto_eq, !yy_auto_eq.
  assert (X : xx_auto_of (m2swap H) (q2swap cov) == yy_auto_of H cov).
  { destr_M H. destr_Q cov. unf. rewrite E. reflexivity. }
  assert (Y : yy_auto_of (m2swap H) (q2swap cov) == xx_auto_of H cov).
  { destr_M H. destr_Q cov. unf. rewrite E. reflexivity. }
  rewrite X, Y. generalize (detS_of (gc_S g)) (xx_auto_of H cov) (yy_auto_of H cov). intros dd xx yy. unfold Qdiv. ring.
Qed.

(* the whole routine: relabelled coefficient matrices and covariance *)
Lemma relabel_swaps a cov z : q10 cov == q01 cov -> ~ q00 cov == 0 -> ~ q11 cov == 0 ->
  let g := granger_xy a cov z in
  let g' := granger_xy (map q2swap a) (q2swap cov) z in
  gc_x2y g' == gc_y2x g /\ gc_y2x g' == gc_x2y g /\ gc_inst g' == gc_inst g /\
  m2eq (gc_S g') (m2swap (gc_S g)).
Proof.
  intros E Hs Hg g g'. unfold g, g', granger_xy. rewrite Aw_swap.
  destruct (granger_core_proper _ _ (q2swap cov) (transfer_swap (Aw a z))) as (P1 & P2 & P3 & P4).
  destruct (relabel_core (transfer (Aw a z)) cov E Hs Hg) as (R1 & R2 & R3 & R4).
  split; [|split; [|split]].
  - rewrite P1; exact R1.
  - rewrite P2; exact R2.
  - rewrite P3; exact R3.
  - etransitivity; [exact P4|exact R4].
Qed.

(* ------------------------------------------------------------------ no coupling -> zero causality *)
Lemma peval_zero l z : Forall (fun c => c =c= c0) l -> peval l z =c= c0.
Proof. induction 1 as [|c l Hc _ IH]; simpl; [reflexivity|]. rewrite cr_eq, Hc, IH. cring. Qed.

Lemma poly_b_zero a z : Forall (fun m => q01 m == 0) a -> peval (poly_b a) z =c= c0.
Proof. intros F. apply peval_zero. unfold poly_b. constructor; [reflexivity|].
  induction F as [|m a Hm _ IH]; simpl; constructor; auto. split; unfold ofQ, c0, re, im; simpl; [exact Hm|reflexivity]. Qed.
Lemma poly_c_zero a z : Forall (fun m => q10 m == 0) a -> peval (poly_c a) z =c= c0.
Proof. intros F. apply peval_zero. unfold poly_c. constructor; [reflexivity|].
  induction F as [|m a Hm _ IH]; simpl; constructor; auto. split; unfold ofQ, c0, re, im; simpl; [exact Hm|reflexivity]. Qed.

Lemma transfer_01_zero A : m01 A =c= c0 -> m01 (transfer A) =c= c0.
Proof. intros E. unfold transfer; cbn [m01]. rewrite E. cring. Qed.
Lemma transfer_10_zero A : m10 A =c= c0 -> m10 (transfer A) =c= c0.
Proof. intros E. unfold transfer; cbn [m10]. rewrite E. cring. Qed.

Lemma no_coupling_y2x A cov : m01 A =c= c0 -> ~ q00 cov == 0 -> ~ xx_auto_of (transfer A) cov == 0 ->
  gc_y2x (granger_core (transfer A) cov) == 1.
Proof. intros E Hs Hx. rewrite y2x_form by auto. rewrite (cnorm2_0 _ (transfer_01_zero A E)). unfold Qdiv. ring. Qed.
Lemma no_coupling_x2y A cov : m10 A =c= c0 -> ~ q11 cov == 0 -> ~ yy_auto_of (transfer A) cov == 0 ->
  gc_x2y (granger_core (transfer A) cov) == 1.
Proof. intros E Hs Hx. rewrite x2y_form by auto. rewrite (cnorm2_0 _ (transfer_10_zero A E)). unfold Qdiv. ring. Qed.

Lemma no_coupling_zero a cov z :
  (Forall (fun m => q01 m == 0) a -> ~ q00 cov == 0 -> ~ xx_auto_of (transfer (Aw a z)) cov == 0 ->
   gc_y2x (granger_xy a cov z) == 1) /\
  (Forall (fun m => q10 m == 0) a -> ~ q11 cov == 0 -> ~ yy_auto_of (transfer (Aw a z)) cov == 0 ->
   gc_x2y (granger_xy a cov z) == 1).
Proof. split; intros F Hs Hx; unfold granger_xy.
  - apply no_coupling_y2x; auto. unfold Aw; cbn [m01]. apply poly_b_zero; auto.
  - apply no_coupling_x2y; auto. unfold Aw; cbn [m10]. apply poly_c_zero; auto.
Qed.

(* ------------------------------------------------------------------ analyzer bookkeeping *)
Lemma key_eqb_eq a b : key_eqb a b = true <-> a = b.
Proof. destruct a as [i j], b as [i' j']. unfold key_eqb; simpl. rewrite andb_true_iff, !Nat.eqb_eq.
  split; [intros [-> ->]; reflexivity|intros E; inversion E; auto]. Qed.

Lemma existsb_key_In k ij : existsb (key_eqb k) ij = true <-> In k ij.
Proof. rewrite existsb_exists. split.
  - intros (x & Hx & E). apply key_eqb_eq in E. subst; auto.
  - intros Hk. exists k. split; auto. apply key_eqb_eq; reflexivity. Qed.

Lemma dget_gc_dict {V} (f : key -> V) ij d0 k :
  dget (fold_left (fun d k => dset d k (f k)) ij d0) k =
  if existsb (key_eqb k) ij then Some (f k) else dget d0 k.
Proof.
  revert d0; induction ij as [|x ij IH]; intros d0; simpl; [reflexivity|].
  rewrite IH. destruct (existsb (key_eqb k) ij); [rewrite orb_true_r; reflexivity|].
  rewrite orb_false_r. simpl. destruct (key_eqb k x) eqn:E; [|reflexivity].
  apply key_eqb_eq in E. subst. reflexivity.
Qed.

Lemma dict2arr_fold {V} (d : dict V) ij a0 k :
  fold_left (fun a k => arr_set a k (dget d k)) ij a0 k =
  if existsb (key_eqb k) ij then dget d k else a0 k.
Proof.
  revert a0; induction ij as [|x ij IH]; intros a0; simpl; [reflexivity|].
  rewrite IH. destruct (existsb (key_eqb k) ij); [rewrite orb_true_r; reflexivity|].
  rewrite orb_false_r. unfold arr_set. destruct (key_eqb k x) eqn:E; [|reflexivity].
  apply key_eqb_eq in E. subst. reflexivity.
Qed.

Lemma dict2arr_spec {V} (f : key -> V) ij k :
  analyzer_arr f ij k = if existsb (key_eqb k) ij then Some (f k) else None.
Proof.
  unfold analyzer_arr, dict2arr, gc_dict. rewrite dict2arr_fold, dget_gc_dict.
  destruct (existsb (key_eqb k) ij); reflexivity.
Qed.

Lemma dict2arr_In {V} (f : key -> V) ij k :
  (In k ij -> analyzer_arr f ij k = Some (f k)) /\ (~ In k ij -> analyzer_arr f ij k = None).
Proof. rewrite dict2arr_spec. split; intros Hk.
  - apply existsb_key_In in Hk. rewrite Hk. reflexivity.
  - destruct (existsb (key_eqb k) ij) eqn:E; auto. apply existsb_key_In in E. contradiction. Qed.

Lemma grid_len_consistent n : gc_len n = get_freqs_len n.
Proof. reflexivity. Qed.

(* ------------------------------------------------------------------ the logarithm step, in R
   (Coq.Reals: uses the axioms of the classical Dedekind reals; they are listed by Print Assumptions) *)
From Coq Require Import Reals Qreals.

Lemma Q2R_pos q : 0 < q -> (0 < Q2R q)%R.
Proof. intros H. apply Qlt_Rlt in H. rewrite RMicromega.Q2R_0 in H. exact H. Qed.

(* a log argument >= 1 gives a causality >= 0 *)
Lemma ln_nonneg_of_ge1 q : 1 <= q -> (0 <= ln (Q2R q))%R.
Proof.
  intros H. apply Qle_Rle in H. rewrite RMicromega.Q2R_1 in H.
  rewrite <- ln_1. destruct H as [H|H].
  - left. apply ln_increasing; [apply Rlt_0_1|exact H].
  - right. rewrite H. reflexivity.
Qed.

(* a log argument == 1 gives causality 0 *)
Lemma ln_zero_of_eq1 q : q == 1 -> ln (Q2R q) = 0%R.
Proof. intros H. apply Qeq_eqR in H. rewrite H, RMicromega.Q2R_1. apply ln_1. Qed.

(* a * b * c * d = 1 with positive factors: ln a + ln b + ln c = - ln d *)
Lemma ln_decomposition a b c d :
  0 < a -> 0 < b -> 0 < c -> 0 < d -> a * b * c * d == 1 ->
  (ln (Q2R a) + ln (Q2R b) + ln (Q2R c) = - ln (Q2R d))%R.
Proof.
  intros Ha Hb Hc Hd E.
  apply Qeq_eqR in E. rewrite !Q2R_mult, RMicromega.Q2R_1 in E.
  pose proof (Q2R_pos _ Ha) as Pa. pose proof (Q2R_pos _ Hb) as Pb.
  pose proof (Q2R_pos _ Hc) as Pc. pose proof (Q2R_pos _ Hd) as Pd.
  assert (L : (ln (Q2R a * Q2R b * Q2R c * Q2R d) = 0)%R) by (rewrite E; apply ln_1).
  rewrite !ln_mult in L; auto.
  - lra.
  - apply Rmult_lt_0_compat; auto.
  - apply Rmult_lt_0_compat; auto. apply Rmult_lt_0_compat; auto.
Qed.

(* ------------------------------------------------------------------ scale invariance *)
Open Scope Q_scope.
Definition q2scale (c : Q) (S : Q2) : Q2 := mkQ2 (c * q00 S) (c * q01 S) (c * q10 S) (c * q11 S).

Lemma xx_auto_scale H cov c : ~ c == 0 -> ~ q00 cov == 0 ->
  xx_auto_of H (q2scale c cov) == c * xx_auto_of H cov.
Proof. destruct H as [[? ?] [? ?] [? ?] [? ?]]. destruct cov as [s00 s01 s10 s11].
  unfold xx_auto_of, q2scale, cnorm2, cadd, cscale, re, im; simpl. intros Hc Hs. field. split; assumption. Qed.
Lemma yy_auto_scale H cov c : ~ c == 0 -> ~ q11 cov == 0 ->
  yy_auto_of H (q2scale c cov) == c * yy_auto_of H cov.
Proof. destruct H as [[? ?] [? ?] [? ?] [? ?]]. destruct cov as [s00 s01 s10 s11].
  unfold yy_auto_of, q2scale, cnorm2, cadd, cscale, re, im; simpl. intros Hc Hs. field. split; assumption. Qed.

Lemma Qmul_nz a b : ~ a == 0 -> ~ b == 0 -> ~ a * b == 0.
Proof. intros Ha Hb E. destruct (Qmult_integral _ _ E); contradiction. Qed.

(* multiplying the innovation covariance by c <> 0 leaves both directional log arguments unchanged *)
Theorem gc_scale_cov H cov c :
  ~ c == 0 -> ~ q00 cov == 0 -> ~ q11 cov == 0 ->
  ~ xx_auto_of H cov == 0 -> ~ yy_auto_of H cov == 0 ->
  gc_y2x (granger_core H (q2scale c cov)) == gc_y2x (granger_core H cov) /\
  gc_x2y (granger_core H (q2scale c cov)) == gc_x2y (granger_core H cov).
Proof.
  intros Hc Hs Hg Hx Hy.
  assert (Hs' : ~ q00 (q2scale c cov) == 0) by (simpl; apply Qmul_nz; assumption).
  assert (Hg' : ~ q11 (q2scale c cov) == 0) by (simpl; apply Qmul_nz; assumption).
  assert (Hx' : ~ xx_auto_of H (q2scale c cov) == 0) by (rewrite xx_auto_scale by assumption; apply Qmul_nz; assumption).
  assert (Hy' : ~ yy_auto_of H (q2scale c cov) == 0) by (rewrite yy_auto_scale by assumption; apply Qmul_nz; assumption).
  split.
  - rewrite (y2x_form H (q2scale c cov) Hs' Hx'), (y2x_form H cov Hs Hx), xx_auto_scale by assumption.
    simpl. generalize (cnorm2 (m01 H)) (xx_auto_of H cov) Hx. intros n x Hx0. field. repeat split; assumption.
  - rewrite (x2y_form H (q2scale c cov) Hg' Hy'), (x2y_form H cov Hg Hy), yy_auto_scale by assumption.
    simpl. generalize (cnorm2 (m10 H)) (yy_auto_of H cov) Hy. intros n x Hx0. field. repeat split; assumption.
Qed.
