(* Proofs/CohereP.v — lemmas about Model/Cohere.v (property C08). Over Q and Q[i]; no axioms. *)
From Coq Require Import QArith List Arith Bool Lia Psatz Setoid Morphisms.
From NT Require Import QC Sums CohereBase Cohere.
Import ListNotations.
Open Scope Q_scope.

(* ------------------------------------------------------------------ pair_fill *)
Lemma pair_fill_le {X} (cj : X -> X) f i j : (i <= j)%nat -> pair_fill cj f i j = f i j.
Proof. intros H. unfold pair_fill. apply Nat.leb_le in H. rewrite H. reflexivity. Qed.
Lemma pair_fill_gt {X} (cj : X -> X) f i j : (j < i)%nat -> pair_fill cj f i j = cj (f j i).
Proof. intros H. unfold pair_fill. apply Nat.leb_gt in H. rewrite H. reflexivity. Qed.

(* ------------------------------------------------------------------ coherence in [0,1] *)
Lemma coherence_spec_nonneg fxy fxx fyy : 0 < fxx -> 0 < fyy -> 0 <= coherence_spec fxy fxx fyy.
Proof.
  intros Hx Hy. unfold coherence_spec. apply Qdiv_nonneg; [apply cnorm2_nonneg|].
  apply Qmul_pos; assumption.
Qed.

(* Gram form (with positive per-channel normalisations sx, sy and non-negative term weights w) *)
Theorem coherence_gram_01 : forall (w : nat -> Q) (a b : nat -> C) (n : nat) (sx sy : Q)
    (fxy : C) (fxx fyy : Q),
  (forall k, (k < n)%nat -> 0 <= w k) -> 0 < sx -> 0 < sy ->
  cnorm2 fxy == sx * sy * cnorm2 (gram_xy w a b n) ->
  fxx == sx * gram_xx w a n -> fyy == sy * gram_yy w b n ->
  0 < fxx -> 0 < fyy ->
  0 <= coherence_spec fxy fxx fyy <= 1.
Proof.
  intros w a b n sx sy fxy fxx fyy Hw Hsx Hsy Exy Exx Eyy Hx Hy. split.
  - apply coherence_spec_nonneg; assumption.
  - unfold coherence_spec. apply Qdiv_le_1; [apply Qmul_pos; assumption|].
    rewrite Exy, Exx, Eyy.
    pose proof (complex_cauchy_schwarz w a b n Hw) as CS.
    setoid_replace (sx * gram_xx w a n * (sy * gram_yy w b n))
      with (sx * sy * (gram_xx w a n * gram_yy w b n)) by ring.
    apply Qmult_le_l; [apply Qmul_pos; assumption|exact CS].
Qed.

Lemma coherence_self_1 (z : C) : im z == 0 -> ~ re z == 0 -> coherence_spec z (re z) (re z) == 1.
Proof.
  intros Hi Hr. unfold coherence_spec, cnorm2. rewrite Hi. field. exact Hr.
Qed.

Lemma coherence_mat_sym S i j k : coherence_mat S i j k = coherence_mat S j i k.
Proof.
  unfold coherence_mat. destruct (Nat.lt_trichotomy i j) as [H|[H|H]].
  - rewrite pair_fill_le by lia. rewrite pair_fill_gt by lia. reflexivity.
  - subst. reflexivity.
  - rewrite pair_fill_gt by lia. rewrite pair_fill_le by lia. reflexivity.
Qed.

Lemma coherence_mat_self_1 S i k :
  im (S i i k) == 0 -> ~ re (S i i k) == 0 -> coherence_mat S i i k == 1.
Proof.
  intros. unfold coherence_mat. rewrite pair_fill_le by lia. apply coherence_self_1; assumption.
Qed.

(* the cross-spectral matrix at frequency k is, up to positive per-channel normalisations, a Gram
   matrix of M families of n complex numbers with non-negative term weights *)
Definition gram_at (S : spec) (M k : nat) : Prop :=
  exists (n : nat) (w : nat -> Q) (A : nat -> nat -> C) (sc : nat -> Q),
    (forall t, (t < n)%nat -> 0 <= w t) /\
    (forall a, (a < M)%nat -> 0 < sc a /\ re (S a a k) == sc a * gram_xx w (A a) n) /\
    (forall a b, (a <= b)%nat -> (b < M)%nat ->
       cnorm2 (S a b k) == sc a * sc b * cnorm2 (gram_xy w (A a) (A b) n)).

Theorem coherence_mat_01 S M k i j :
  gram_at S M k -> (forall a, (a < M)%nat -> 0 < re (S a a k)) ->
  (i < M)%nat -> (j < M)%nat -> 0 <= coherence_mat S i j k <= 1.
Proof.
  intros (n & w & A & sc & Hw & Hd & Ho) Hpos Hi Hj.
  assert (G : forall a b, (a <= b)%nat -> (b < M)%nat ->
              0 <= coherence_spec (S a b k) (re (S a a k)) (re (S b b k)) <= 1).
  { intros a b Hab Hb.
    destruct (Hd a ltac:(lia)) as [Sa Ea]. destruct (Hd b Hb) as [Sb Eb].
    apply (coherence_gram_01 w (A a) (A b) n (sc a) (sc b)); auto.
    - apply Hpos; lia. }
  unfold coherence_mat. destruct (le_lt_dec i j).
  - rewrite pair_fill_le by assumption. apply G; assumption.
  - rewrite pair_fill_gt by assumption. apply G; lia.
Qed.

(* ------------------------------------------------------------------ coherency *)
Lemma coherency_norm2_is_coherence s fxy fxx fyy :
  is_sqrt s (fxx * fyy) -> 0 < fxx * fyy ->
  cnorm2 (coherency_spec s fxy) == coherence_spec fxy fxx fyy.
Proof.
  intros Hs Hp. pose proof (is_sqrt_pos _ _ Hs Hp) as Sp. destruct Hs as [_ Hs].
  unfold coherency_spec, coherence_spec. rewrite cnorm2_scale, <- Hs. field. lra.
Qed.

Lemma coherency_spec_conj s z : coherency_spec s (cconj z) =c= cconj (coherency_spec s z).
Proof. unfold coherency_spec. cring. Qed.

Lemma coherency_mat_hermitian sq S i j k :
  (i = j -> im (S i i k) == 0) ->
  coherency_mat sq S j i k =c= cconj (coherency_mat sq S i j k).
Proof.
  intros Hd. unfold coherency_mat. destruct (Nat.lt_trichotomy i j) as [H|[H|H]].
  - rewrite pair_fill_gt by lia. rewrite pair_fill_le by lia. reflexivity.
  - subst j. rewrite pair_fill_le by lia. specialize (Hd eq_refl).
    unfold coherency_spec. split; unfold cscale, cconj, re, im in *; simpl; [reflexivity|].
    rewrite Hd. ring.
  - rewrite pair_fill_le by lia. rewrite pair_fill_gt by lia. rewrite cconj_invol. reflexivity.
Qed.

Lemma coherency_mat_norm2 sq S i j k :
  (forall a b, (a <= b)%nat -> is_sqrt (sq a b k) (re (S a a k) * re (S b b k))) ->
  (forall a, 0 < re (S a a k)) ->
  cnorm2 (coherency_mat sq S i j k) == coherence_mat S i j k.
Proof.
  intros Hs Hp. unfold coherency_mat, coherence_mat. destruct (le_lt_dec i j).
  - rewrite !pair_fill_le by assumption. apply coherency_norm2_is_coherence; [apply Hs; assumption|].
    apply Qmul_pos; apply Hp.
  - rewrite !pair_fill_gt by assumption. rewrite cnorm2_conj.
    apply coherency_norm2_is_coherence; [apply Hs; lia|]. apply Qmul_pos; apply Hp.
Qed.

(* ------------------------------------------------------------------ channel gains *)

Lemma gram_xy_gain w a b n gx gy :
  gram_xy w (fun k => cscale gx (a k)) (fun k => cscale gy (b k)) n
  =c= cscale (gx * gy) (gram_xy w a b n).
Proof.
  unfold gram_xy. rewrite <- csumn_scale. apply csumn_ext; intros k _. cring.
Qed.
Lemma gram_xx_gain w a n g :
  gram_xx w (fun k => cscale g (a k)) n == g * g * gram_xx w a n.
Proof.
  unfold gram_xx. rewrite <- sumn_scal. apply sumn_ext; intros k _. rewrite cnorm2_scale. ring.
Qed.

Lemma coherence_spec_gain gx gy fxy fxx fyy :
  ~ gx == 0 -> ~ gy == 0 -> ~ fxx == 0 -> ~ fyy == 0 ->
  coherence_spec (cscale (gx * gy) fxy) (gx * gx * fxx) (gy * gy * fyy)
  == coherence_spec fxy fxx fyy.
Proof.
  intros. unfold coherence_spec. rewrite cnorm2_scale. field. repeat split; assumption.
Qed.

Theorem gain_invariant (g : nat -> Q) S i j k :
  (forall a, ~ g a == 0) -> (forall a, ~ re (S a a k) == 0) ->
  coherence_mat (gained g S) i j k == coherence_mat S i j k.
Proof.
  intros Hg Hs.
  assert (G : forall a b, coherence_spec (gained g S a b k) (re (gained g S a a k)) (re (gained g S b b k))
                          == coherence_spec (S a b k) (re (S a a k)) (re (S b b k))).
  { intros a b. unfold gained. unfold cscale at 2 3. unfold re at 1 2. simpl fst.
    apply coherence_spec_gain; auto. }
  unfold coherence_mat, pair_fill. destruct (i <=? j)%nat; apply G.
Qed.

(* the Gram-level form: scaling the terms of one family by g leaves the coherence unchanged *)
Theorem gain_invariant_gram w a b n g :
  ~ g == 0 -> ~ gram_xx w a n == 0 -> ~ gram_yy w b n == 0 ->
  coherence_spec (gram_xy w (fun k => cscale g (a k)) b n)
                 (gram_xx w (fun k => cscale g (a k)) n) (gram_yy w b n)
  == coherence_spec (gram_xy w a b n) (gram_xx w a n) (gram_yy w b n).
Proof.
  intros Hg Hx Hy.
  assert (E : gram_xy w (fun k => cscale g (a k)) b n =c= cscale (g * 1) (gram_xy w a b n)).
  { rewrite <- (gram_xy_gain w a b n g 1). unfold gram_xy. apply csumn_ext; intros k _. cring. }
  unfold coherence_spec. rewrite E, gram_xx_gain, cnorm2_scale. field. repeat split; assumption.
Qed.

Definition sgn (g : Q) : Q := g / Qabs' g.

Lemma Qabs'_nz g : ~ g == 0 -> ~ Qabs' g == 0.
Proof. intros H E. pose proof (Qabs'_sq g). rewrite E in H0. pose proof (Qnot0_sq_pos g H). lra. Qed.

Lemma coherency_gain s s' gx gy fxy fxx fyy :
  is_sqrt s (fxx * fyy) -> is_sqrt s' ((gx * gx * fxx) * (gy * gy * fyy)) ->
  0 < fxx * fyy -> ~ gx == 0 -> ~ gy == 0 ->
  coherency_spec s' (cscale (gx * gy) fxy) =c= cscale (sgn gx * sgn gy) (coherency_spec s fxy).
Proof.
  intros Hs Hs' Hp Hx Hy.
  pose proof (is_sqrt_pos _ _ Hs Hp) as Sp.
  assert (E : s' == Qabs' gx * Qabs' gy * s).
  { apply (is_sqrt_unique _ _ ((gx * gx * fxx) * (gy * gy * fyy))); [assumption|].
    destruct Hs as [Hs0 Hs1]. split.
    - apply Qmul_nonneg; [apply Qmul_nonneg; apply Qabs'_nonneg|assumption].
    - setoid_replace (Qabs' gx * Qabs' gy * s * (Qabs' gx * Qabs' gy * s))
        with ((Qabs' gx * Qabs' gx) * (Qabs' gy * Qabs' gy) * (s * s)) by ring.
      rewrite !Qabs'_sq, Hs1. ring. }
  pose proof (Qabs'_nz gx Hx). pose proof (Qabs'_nz gy Hy).
  unfold coherency_spec, sgn.
  split; unfold cscale, re, im; simpl; rewrite E; field; repeat split; try assumption; lra.
Qed.

Theorem neg_gain_flips s s' g fxy fxx fyy :
  is_sqrt s (fxx * fyy) -> is_sqrt s' ((g * g * fxx) * (1 * 1 * fyy)) -> 0 < fxx * fyy -> g < 0 ->
  coherency_spec s' (cscale (g * 1) fxy) =c= cneg (coherency_spec s fxy).
Proof.
  intros Hs Hs' Hp Hg.
  rewrite (coherency_gain s s' g 1 fxy fxx fyy Hs Hs' Hp) by lra.
  assert (E1 : sgn g == -1) by (unfold sgn; rewrite (Qabs'_neg g Hg); field; lra).
  assert (E2 : sgn 1 == 1) by reflexivity.
  unfold coherency_spec. split; unfold cscale, cneg, re, im; simpl; rewrite E1, E2; ring.
Qed.

Theorem pos_gain_keeps s s' g fxy fxx fyy :
  is_sqrt s (fxx * fyy) -> is_sqrt s' ((g * g * fxx) * (1 * 1 * fyy)) -> 0 < fxx * fyy -> 0 < g ->
  coherency_spec s' (cscale (g * 1) fxy) =c= coherency_spec s fxy.
Proof.
  intros Hs Hs' Hp Hg.
  rewrite (coherency_gain s s' g 1 fxy fxx fyy Hs Hs' Hp) by lra.
  assert (E1 : sgn g == 1) by (unfold sgn; rewrite (Qabs'_pos g Hg); field; lra).
  assert (E2 : sgn 1 == 1) by reflexivity.
  unfold coherency_spec. split; unfold cscale, re, im; simpl; rewrite E1, E2; ring.
Qed.

(* matrix form: gains of either sign on every channel *)
Theorem coherency_mat_gain (g : nat -> Q) sq sq' S i j k :
  (forall a, ~ g a == 0) -> (forall a, 0 < re (S a a k)) ->
  (forall a b, (a <= b)%nat -> is_sqrt (sq a b k) (re (S a a k) * re (S b b k))) ->
  (forall a b, (a <= b)%nat -> is_sqrt (sq' a b k) (re (gained g S a a k) * re (gained g S b b k))) ->
  coherency_mat sq' (gained g S) i j k =c= cscale (sgn (g i) * sgn (g j)) (coherency_mat sq S i j k).
Proof.
  intros Hg Hp Hs Hs'.
  assert (G : forall a b, (a <= b)%nat ->
      coherency_spec (sq' a b k) (gained g S a b k)
      =c= cscale (sgn (g a) * sgn (g b)) (coherency_spec (sq a b k) (S a b k))).
  { intros a b Hab. unfold gained at 1.
    apply (coherency_gain _ _ _ _ _ (re (S a a k)) (re (S b b k))); auto.
    - specialize (Hs' a b Hab). unfold gained, cscale, re in Hs'. simpl in Hs'. exact Hs'.
    - apply Qmul_pos; apply Hp. }
  unfold coherency_mat. destruct (le_lt_dec i j).
  - rewrite !pair_fill_le by assumption. apply G; assumption.
  - rewrite !pair_fill_gt by assumption. rewrite G by lia. cring.
Qed.

(* ------------------------------------------------------------------ band average *)
Lemma flat_index_bounds F n m : (m < F * n)%nat -> (m / n < F)%nat /\ (m mod n < n)%nat.
Proof.
  intros H. assert (n <> 0)%nat by (intro; subst; lia). split.
  - apply Nat.div_lt_upper_bound; [assumption|lia].
  - apply Nat.mod_upper_bound; assumption.
Qed.

(* a band of F frequencies, each cross-spectrum a weighted Gram form over n terms *)
Theorem bavg_gram_01 : forall (F n : nat) (w : nat -> nat -> Q) (a b : nat -> nat -> C)
    (fxy : nat -> C) (fxx fyy : nat -> Q) (l u : nat),
  (u - l = F)%nat ->
  (forall f t, (f < F)%nat -> (t < n)%nat -> 0 <= w f t) ->
  (forall f, (f < F)%nat -> fxy (l + f)%nat =c= gram_xy (w f) (a f) (b f) n) ->
  (forall f, (f < F)%nat -> fxx (l + f)%nat == gram_xx (w f) (a f) n) ->
  (forall f, (f < F)%nat -> fyy (l + f)%nat == gram_yy (w f) (b f) n) ->
  0 < band_sum fxx l u -> 0 < band_sum fyy l u ->
  0 <= coherence_bavg_spec fxy fxx fyy l u <= 1.
Proof.
  intros F n w a b fxy fxx fyy l u HF Hw Exy Exx Eyy Hx Hy.
  unfold coherence_bavg_spec. split.
  - apply Qdiv_nonneg; [apply cnorm2_nonneg|apply Qmul_pos; assumption].
  - apply Qdiv_le_1; [apply Qmul_pos; assumption|].
    set (w' := fun m => w (m / n)%nat (m mod n)%nat).
    set (a' := fun m => a (m / n)%nat (m mod n)%nat).
    set (b' := fun m => b (m / n)%nat (m mod n)%nat).
    assert (Hw' : forall m, (m < F * n)%nat -> 0 <= w' m).
    { intros m Hm. destruct (flat_index_bounds F n m Hm). unfold w'. apply Hw; assumption. }
    pose proof (complex_cauchy_schwarz w' a' b' (F * n) Hw') as CS.
    assert (E1 : band_csum fxy l u =c= gram_xy w' a' b' (F * n)).
    { unfold band_csum. rewrite HF.
      transitivity (csumn (fun f => gram_xy (w f) (a f) (b f) n) F).
      - apply csumn_ext; intros f Hf. apply Exy; assumption.
      - unfold gram_xy.
        rewrite (csumn_flatten (fun f t => cscale (w f t) (cmul (a f t) (cconj (b f t)))) F n).
        reflexivity. }
    assert (E2 : band_sum fxx l u == gram_xx w' a' (F * n)).
    { unfold band_sum. rewrite HF.
      transitivity (sumn (fun f => gram_xx (w f) (a f) n) F).
      - apply sumn_ext; intros f Hf. apply Exx; assumption.
      - unfold gram_xx. rewrite (sumn_flatten (fun f t => w f t * cnorm2 (a f t)) F n). reflexivity. }
    assert (E3 : band_sum fyy l u == gram_yy w' b' (F * n)).
    { unfold band_sum. rewrite HF.
      transitivity (sumn (fun f => gram_yy (w f) (b f) n) F).
      - apply sumn_ext; intros f Hf. apply Eyy; assumption.
      - unfold gram_yy. rewrite (sumn_flatten (fun f t => w f t * cnorm2 (b f t)) F n). reflexivity. }
    rewrite E1, E2, E3. exact CS.
Qed.

Lemma coherence_bavg_mat_sym S l u i j : coherence_bavg_mat S l u i j = coherence_bavg_mat S l u j i.
Proof.
  unfold coherence_bavg_mat. destruct (Nat.lt_trichotomy i j) as [H|[H|H]].
  - rewrite pair_fill_le by lia. rewrite pair_fill_gt by lia. reflexivity.
  - subst. reflexivity.
  - rewrite pair_fill_gt by lia. rewrite pair_fill_le by lia. reflexivity.
Qed.

Lemma coherence_bavg_self_1 (S : spec) i l u :
  (forall k, im (S i i k) == 0) -> ~ band_sum (fun k => re (S i i k)) l u == 0 ->
  coherence_bavg_mat S l u i i == 1.
Proof.
  intros Hi Hnz. unfold coherence_bavg_mat. rewrite pair_fill_le by lia.
  unfold coherence_bavg_spec, band_csum, band_sum in *.
  set (s := sumn (fun k => re (S i i (l + k)%nat)) (u - l)) in *.
  assert (Er : re (csumn (fun k => S i i (l + k)%nat) (u - l)) == s) by (apply re_csumn).
  assert (Ei : im (csumn (fun k => S i i (l + k)%nat) (u - l)) == 0).
  { rewrite im_csumn. rewrite <- (sumn_const0 (u - l)). apply sumn_ext; intros; apply Hi. }
  unfold cnorm2. rewrite Er, Ei. field. exact Hnz.
Qed.

(* matrix form: for all channel pairs, given the Gram form of every band frequency *)
Definition gram_band (S : spec) (M l u : nat) : Prop :=
  exists (n : nat) (w : nat -> nat -> Q) (A : nat -> nat -> nat -> C),
    (forall f t, (f < u - l)%nat -> (t < n)%nat -> 0 <= w f t) /\
    (forall a f, (a < M)%nat -> (f < u - l)%nat ->
       re (S a a (l + f)%nat) == gram_xx (w f) (A a f) n) /\
    (forall a b f, (a <= b)%nat -> (b < M)%nat -> (f < u - l)%nat ->
       S a b (l + f)%nat =c= gram_xy (w f) (A a f) (A b f) n).

Theorem coherence_bavg_mat_01 S M l u i j :
  gram_band S M l u ->
  (forall a, (a < M)%nat -> 0 < band_sum (fun k => re (S a a k)) l u) ->
  (i < M)%nat -> (j < M)%nat -> 0 <= coherence_bavg_mat S l u i j <= 1.
Proof.
  intros (n & w & A & Hw & Hd & Ho) Hpos Hi Hj.
  assert (G : forall a b, (a <= b)%nat -> (b < M)%nat ->
     0 <= coherence_bavg_spec (S a b) (fun k => re (S a a k)) (fun k => re (S b b k)) l u <= 1).
  { intros a b Hab Hb.
    apply (bavg_gram_01 (u - l) n w (A a) (A b)).
    - reflexivity.
    - exact Hw.
    - intros f Hf. apply Ho; assumption.
    - intros f Hf. apply Hd; [lia|assumption].
    - intros f Hf. apply Hd; assumption.
    - apply Hpos; lia.
    - apply Hpos; lia. }
  unfold coherence_bavg_mat. destruct (le_lt_dec i j).
  - rewrite pair_fill_le by assumption. apply G; assumption.
  - rewrite pair_fill_gt by assumption. apply G; lia.
Qed.

Lemma coherency_bavg_mat_hermitian mags n cosp sinp i j :
  (i = j -> sinp i i == 0) ->
  coherency_bavg_mat mags n cosp sinp j i =c= cconj (coherency_bavg_mat mags n cosp sinp i j).
Proof.
  intros Hd. unfold coherency_bavg_mat. destruct (Nat.lt_trichotomy i j) as [H|[H|H]].
  - rewrite pair_fill_gt by lia. rewrite pair_fill_le by lia. reflexivity.
  - subst j. rewrite pair_fill_le by lia. specialize (Hd eq_refl).
    unfold coherency_bavg_spec. split; unfold cscale, cconj, re, im; simpl; [reflexivity|].
    rewrite Hd. ring.
  - rewrite pair_fill_le by lia. rewrite pair_fill_gt by lia. rewrite cconj_invol. reflexivity.
Qed.

(* ------------------------------------------------------------------ partial coherence *)


Lemma partial_spec_closed sxr sry sxy fxy fxr fry fxx fyy frr :
  0 < fxx -> 0 < fyy -> 0 < frr ->
  is_sqrt sxr (fxx * frr) -> is_sqrt sry (fyy * frr) -> is_sqrt sxy (fxx * fyy) ->
  ~ fxx * frr - cnorm2 fxr == 0 -> ~ fyy * frr - cnorm2 fry == 0 ->
  coherence_partial_spec sxr sry sxy fxy fxr fry == partial_closed fxy fxx fyy fxr fry frr.
Proof.
  intros Hx Hy Hr Sxr Sry Sxy Dx Dy.
  pose proof (is_sqrt_pos _ _ Sxr (Qmul_pos _ _ Hx Hr)) as Pp.
  pose proof (is_sqrt_pos _ _ Sry (Qmul_pos _ _ Hy Hr)) as Pq.
  pose proof (is_sqrt_pos _ _ Sxy (Qmul_pos _ _ Hx Hy)) as Pt.
  assert (Et : sxy == sxr * sry / frr).
  { apply nonneg_sq_inj; [lra| |].
    - apply Qdiv_nonneg; [apply Qmul_nonneg; lra|assumption].
    - destruct Sxr as [_ E1], Sry as [_ E2], Sxy as [_ E3].
      setoid_replace (sxr * sry / frr * (sxr * sry / frr)) with ((sxr*sxr) * (sry*sry) / (frr*frr)) by (field; lra).
      rewrite E1, E2, E3. field. lra. }
  assert (Ex : fxx == sxr * sxr / frr) by (destruct Sxr as [_ E1]; rewrite E1; field; lra).
  assert (Ey : fyy == sry * sry / frr) by (destruct Sry as [_ E1]; rewrite E1; field; lra).
  destruct fxy as [a b], fxr as [c d], fry as [e f].
  unfold coherence_partial_spec, partial_closed, coherency_spec, cnorm2, csub, cmul, cscale, re, im in *.
  simpl in *.
  rewrite Ex, Ey, Et in *.
  field. repeat split; try lra.
  - intro H; apply Dy; rewrite <- H; field; lra.
  - intro H; apply Dx; rewrite <- H; field; lra.
Qed.


Lemma adj3_inverse m : meq3 (mmul3 m (adj3 m)) (mscale3 (det3 m) id3).
Proof.
  destruct m as [[a0 a1] [b0 b1] [c0' c1'] [d0 d1] [e0 e1] [f0 f1] [g0 g1] [h0 h1] [i0 i1]].
  unfold meq3, mmul3, adj3, mscale3, det3, id3; simpl.
  repeat split; unfold cadd, csub, cneg, cmul, c0, c1, re, im; simpl; ring.
Qed.

Lemma det3_hermitian_real sxx syy srr sxy sxr syr :
  im (det3 (spectral3 sxx syy srr sxy sxr syr)) == 0.
Proof.
  destruct sxy as [a b], sxr as [c d], syr as [e f].
  unfold det3, adj3, spectral3, ofQ, cadd, csub, cneg, cmul, cconj, re, im; simpl. ring.
Qed.

Theorem partial_inverse_formula sxx syy srr sxy sxr syr :
  ~ re (det3 (spectral3 sxx syy srr sxy sxr syr)) == 0 ->
  ~ sxx * srr - cnorm2 sxr == 0 -> ~ syy * srr - cnorm2 syr == 0 ->
  partial_inverse sxx syy srr sxy sxr syr
  == partial_closed sxy sxx syy sxr (cconj syr) srr.
Proof.
  destruct sxy as [a b], sxr as [c d], syr as [e f].
  unfold partial_inverse, partial_closed.
  set (D := re (det3 _)). intros HD.
  unfold adj3, spectral3, ofQ, cnorm2, cscale, cadd, csub, cneg, cmul, cconj, re, im; simpl.
  intros H1 H2. field. repeat split; try assumption.
  intro H; apply H2; rewrite <- H; ring.
Qed.


Lemma gram_xy_bilin w a b r n (p p' : Q) (z z' : C) :
  gram_xy w (fun k => csub (cscale p (a k)) (cmul z (r k)))
            (fun k => csub (cscale p' (b k)) (cmul z' (r k))) n
  =c= cadd (csub (csub (cscale (p * p') (gram_xy w a b n))
                       (cmul (cscale p (cconj z')) (gram_xy w a r n)))
                 (cmul (cscale p' z) (gram_xy w r b n)))
           (cmul (cmul z (cconj z')) (gram_xy w r r n)).
Proof.
  unfold gram_xy. induction n; simpl; [cring|]. rewrite IHn. cring.
Qed.

Lemma gram_xy_swap w a b n : gram_xy w b a n =c= cconj (gram_xy w a b n).
Proof. unfold gram_xy. induction n; simpl; [cring|]. rewrite IHn. cring. Qed.

Lemma gram_xy_self w a n : gram_xy w a a n =c= ofQ (gram_xx w a n).
Proof. unfold gram_xy, gram_xx. induction n; simpl; [cring|]. rewrite IHn. cring. Qed.

Theorem partial_gram_01 : forall (w : nat -> Q) (a b r : nat -> C) (n : nat),
  (forall k, (k < n)%nat -> 0 <= w k) ->
  let fxy := gram_xy w a b n in let fxr := gram_xy w a r n in let fry := gram_xy w r b n in
  let fxx := gram_xx w a n in let fyy := gram_xx w b n in let frr := gram_xx w r n in
  0 < frr -> 0 < fxx * frr - cnorm2 fxr -> 0 < fyy * frr - cnorm2 fry ->
  0 <= partial_closed fxy fxx fyy fxr fry frr <= 1.
Proof.
  intros w a b r n Hw fxy fxr fry fxx fyy frr Hr Dx Dy.
  unfold partial_closed. split.
  - apply Qdiv_nonneg; [apply cnorm2_nonneg|apply Qmul_pos; assumption].
  - apply Qdiv_le_1; [apply Qmul_pos; assumption|].
    set (a' := fun k => csub (cscale frr (a k)) (cmul fxr (r k))).
    set (b' := fun k => csub (cscale frr (b k)) (cmul (cconj fry) (r k))).
    pose proof (complex_cauchy_schwarz w a' b' n Hw) as CS.
    set (N := csub (cscale frr fxy) (cmul fxr fry)) in *.
    assert (Err : gram_xy w r r n =c= ofQ frr) by apply gram_xy_self.
    assert (E1 : gram_xy w a' b' n =c= cscale frr N).
    { unfold a', b'. rewrite gram_xy_bilin, Err.
      fold fxy fxr fry. unfold N. cring. }
    assert (E2 : gram_xx w a' n == frr * (fxx * frr - cnorm2 fxr)).
    { assert (H : ofQ (gram_xx w a' n) =c= ofQ (frr * (fxx * frr - cnorm2 fxr))).
      { rewrite <- gram_xy_self. unfold a'. rewrite gram_xy_bilin, Err.
        rewrite (gram_xy_swap w a r n), (gram_xy_self w a n). fold fxr fxx. cring. }
      destruct H as [H _]. exact H. }
    assert (E3 : gram_yy w b' n == frr * (fyy * frr - cnorm2 fry)).
    { change (gram_yy w b' n) with (gram_xx w b' n).
      assert (H : ofQ (gram_xx w b' n) =c= ofQ (frr * (fyy * frr - cnorm2 fry))).
      { rewrite <- gram_xy_self. unfold b'. rewrite gram_xy_bilin, Err.
        rewrite (gram_xy_swap w r b n), (gram_xy_self w b n). fold fry fyy. cring. }
      destruct H as [H _]. exact H. }
    rewrite E1, E2, E3, cnorm2_scale in CS.
    apply (Qmult_le_l _ _ (frr * frr)); [apply Qmul_pos; assumption|].
    setoid_replace (frr * frr * ((fxx * frr - cnorm2 fxr) * (fyy * frr - cnorm2 fry)))
      with (frr * (fxx * frr - cnorm2 fxr) * (frr * (fyy * frr - cnorm2 fry))) by ring.
    exact CS.
Qed.

(* ------------------------------------------------------------------ phase and delay *)
Section AngleP.
  Variable angle : C -> Q.
  Hypothesis angle_conj : forall z, angle (cconj z) == - angle z.

  Lemma phase_fn_antisym S i j k : phase_mat_fn angle S j i k == - phase_mat_fn angle S i j k.
  Proof.
    unfold phase_mat_fn. destruct (Nat.lt_trichotomy i j) as [H|[H|H]].
    - assert (E1 : (j <? i)%nat = false) by (apply Nat.ltb_ge; lia).
      assert (E2 : (i <? j)%nat = true) by (apply Nat.ltb_lt; lia).
      rewrite E1, E2. apply angle_conj.
    - subst. rewrite Nat.ltb_irrefl. reflexivity.
    - assert (E1 : (j <? i)%nat = true) by (apply Nat.ltb_lt; lia).
      assert (E2 : (i <? j)%nat = false) by (apply Nat.ltb_ge; lia).
      rewrite E1, E2. rewrite angle_conj. ring.
  Qed.

  Lemma phase_an_antisym S i j k : i <> j -> phase_mat_an angle S j i k == - phase_mat_an angle S i j k.
  Proof.
    intros Hij. unfold phase_mat_an. destruct (Nat.lt_trichotomy i j) as [H|[H|H]]; [|contradiction|].
    - assert (E1 : (j <? i)%nat = false) by (apply Nat.ltb_ge; lia).
      assert (E2 : (i <? j)%nat = true) by (apply Nat.ltb_lt; lia).
      rewrite E1, E2. apply angle_conj.
    - assert (E1 : (j <? i)%nat = true) by (apply Nat.ltb_lt; lia).
      assert (E2 : (i <? j)%nat = false) by (apply Nat.ltb_ge; lia).
      rewrite E1, E2. rewrite angle_conj. ring.
  Qed.

  Lemma delay_spec_neg twopi phi f :
    ~ twopi * f == 0 -> delay_spec twopi (- phi) f == - delay_spec twopi phi f.
  Proof.
    intros H. unfold delay_spec. field.
    split; intro E; apply H; rewrite E; ring.
  Qed.

  Global Instance delay_spec_proper : Proper (Qeq ==> Qeq ==> Qeq ==> Qeq) delay_spec.
  Proof. intros a a' Ha b b' Hb c c' Hc. unfold delay_spec. rewrite Ha, Hb, Hc. reflexivity. Qed.

  Lemma delay_fn_antisym twopi S fr l i j k : i <> j -> ~ twopi * fr (l + k)%nat == 0 ->
    delay_mat_fn angle twopi S fr l j i k == - delay_mat_fn angle twopi S fr l i j k.
  Proof.
    intros Hij Hf. unfold delay_mat_fn. rewrite (phase_an_antisym S i j (l + k) Hij).
    apply delay_spec_neg. exact Hf.
  Qed.
End AngleP.

Lemma delay_an_antisym twopi phase fr i j k :
  phase j i k == - phase i j k -> ~ twopi * fr k == 0 ->
  delay_mat_an twopi phase fr j i k == - delay_mat_an twopi phase fr i j k.
Proof.
  intros Hp Hf. unfold delay_mat_an, delay_spec. rewrite Hp. field.
  split; intro E; apply Hf; rewrite E; ring.
Qed.

(* ------------------------------------------------------------------ matrix forms of partial coherence *)
Lemma coherence_partial_mat_sym S Sr frr i j k :
  coherence_partial_mat S Sr frr i j k = coherence_partial_mat S Sr frr j i k.
Proof.
  unfold coherence_partial_mat. destruct (Nat.lt_trichotomy i j) as [H|[H|H]].
  - rewrite pair_fill_le by lia. rewrite pair_fill_gt by lia. reflexivity.
  - subst. reflexivity.
  - rewrite pair_fill_gt by lia. rewrite pair_fill_le by lia. reflexivity.
Qed.

(* the function's value for i <= j is the inverse-matrix value for (x_i, x_j, r) *)
Theorem coherence_partial_mat_inverse S Sr frr i j k : (i <= j)%nat ->
  let sxx := re (S i i k) in let syy := re (S j j k) in let srr := frr j k in
  ~ re (det3 (spectral3 sxx syy srr (S i j k) (Sr i k) (Sr j k))) == 0 ->
  ~ sxx * srr - cnorm2 (Sr i k) == 0 -> ~ syy * srr - cnorm2 (Sr j k) == 0 ->
  coherence_partial_mat S Sr frr i j k
  == partial_inverse sxx syy srr (S i j k) (Sr i k) (Sr j k).
Proof.
  intros Hij sxx syy srr HD H1 H2. unfold coherence_partial_mat. rewrite pair_fill_le by assumption.
  symmetry. apply partial_inverse_formula; assumption.
Qed.

Lemma an_partial_mat_sym S i j r k : an_partial_mat S i j r k = an_partial_mat S j i r k.
Proof.
  unfold an_partial_mat. rewrite (orb_comm (j =? r)%nat (i =? r)%nat).
  destruct ((i =? r) || (j =? r))%nat; [reflexivity|].
  destruct (Nat.lt_trichotomy i j) as [H|[H|H]].
  - rewrite pair_fill_le by lia. rewrite pair_fill_gt by lia. reflexivity.
  - subst. reflexivity.
  - rewrite pair_fill_gt by lia. rewrite pair_fill_le by lia. reflexivity.
Qed.

Lemma herm_conj S a b k : (a = b -> im (S a a k) == 0) -> herm S b a k =c= cconj (herm S a b k).
Proof.
  intros Hd. unfold herm. destruct (Nat.lt_trichotomy a b) as [H|[H|H]].
  - assert (E1 : (b <=? a)%nat = false) by (apply Nat.leb_gt; lia).
    assert (E2 : (a <=? b)%nat = true) by (apply Nat.leb_le; lia). rewrite E1, E2. reflexivity.
  - subst. rewrite Nat.leb_refl. specialize (Hd eq_refl).
    split; unfold cconj, re, im in *; simpl; [reflexivity|rewrite Hd; ring].
  - assert (E1 : (b <=? a)%nat = true) by (apply Nat.leb_le; lia).
    assert (E2 : (a <=? b)%nat = false) by (apply Nat.leb_gt; lia). rewrite E1, E2.
    rewrite cconj_invol. reflexivity.
Qed.

Global Instance partial_closed_proper :
  Proper (ceq ==> Qeq ==> Qeq ==> ceq ==> ceq ==> Qeq ==> Qeq) partial_closed.
Proof.
  intros a a' Ha b b' Hb c c' Hc d d' Hd e e' He f f' Hf. unfold partial_closed.
  rewrite Ha, Hb, Hc, Hd, He, Hf. reflexivity.
Qed.

(* the analyzer's value [i][j][r] (i <= j, r different from both) is the inverse-matrix value of
   the Hermitian completion of its spectrum *)
Theorem an_partial_mat_inverse S i j r k : (i <= j)%nat -> i <> r -> j <> r ->
  im (S r r k) == 0 -> im (S j j k) == 0 ->
  let sxx := re (S i i k) in let syy := re (S j j k) in let srr := re (S r r k) in
  let sxy := herm S i j k in let sxr := herm S i r k in let syr := herm S j r k in
  ~ re (det3 (spectral3 sxx syy srr sxy sxr syr)) == 0 ->
  ~ sxx * srr - cnorm2 sxr == 0 -> ~ syy * srr - cnorm2 syr == 0 ->
  an_partial_mat S i j r k == partial_inverse sxx syy srr sxy sxr syr.
Proof.
  intros Hij Hir Hjr Ir Ij sxx syy srr sxy sxr syr HD H1 H2. unfold an_partial_mat.
  assert (E1 : (j =? r)%nat = false) by (apply Nat.eqb_neq; assumption).
  assert (E2 : (i =? r)%nat = false) by (apply Nat.eqb_neq; assumption).
  rewrite E1, E2. simpl orb. cbv iota. rewrite pair_fill_le by assumption.
  rewrite (partial_inverse_formula sxx syy srr sxy sxr syr HD H1 H2).
  apply partial_closed_proper; try reflexivity.
  unfold syr. apply herm_conj. intros; subst; contradiction.
Qed.

(* ------------------------------------------------------------------ MTCoherenceAnalyzer *)
Lemma mt_coherence_mat_sym sxy sx i j k : mt_coherence_mat sxy sx i j k = mt_coherence_mat sxy sx j i k.
Proof.
  unfold mt_coherence_mat. destruct (Nat.lt_trichotomy i j) as [H|[H|H]].
  - assert (E1 : (i =? j)%nat = false) by (apply Nat.eqb_neq; lia).
    assert (E2 : (j =? i)%nat = false) by (apply Nat.eqb_neq; lia).
    assert (E3 : (j <? i)%nat = false) by (apply Nat.ltb_ge; lia).
    assert (E4 : (i <? j)%nat = true) by (apply Nat.ltb_lt; lia).
    rewrite E1, E2, E3, E4. reflexivity.
  - subst. reflexivity.
  - assert (E1 : (i =? j)%nat = false) by (apply Nat.eqb_neq; lia).
    assert (E2 : (j =? i)%nat = false) by (apply Nat.eqb_neq; lia).
    assert (E3 : (j <? i)%nat = true) by (apply Nat.ltb_lt; lia).
    assert (E4 : (i <? j)%nat = false) by (apply Nat.ltb_ge; lia).
    rewrite E1, E2, E3, E4. reflexivity.
Qed.

Lemma mt_coherence_mat_self sxy sx i k : mt_coherence_mat sxy sx i i k = 1.
Proof. unfold mt_coherence_mat. rewrite Nat.eqb_refl. reflexivity. Qed.

(* multitaper estimates with per-channel (possibly adaptive) weights folded into the terms A
   and per-channel normalisations sc: sxy = Gram cross term up to sqrt(sc a * sc b) *)
Theorem mt_coherence_mat_01 sxy sx M k i j :
  (exists (n : nat) (w : nat -> Q) (A : nat -> nat -> C) (sc : nat -> Q),
     (forall t, (t < n)%nat -> 0 <= w t) /\
     (forall a, (a < M)%nat -> 0 < sc a /\ 0 < sx a k /\ sx a k == sc a * gram_xx w (A a) n) /\
     (forall a b, (b < a)%nat -> (a < M)%nat ->
        cnorm2 (sxy a b k) == sc a * sc b * cnorm2 (gram_xy w (A a) (A b) n))) ->
  (i < M)%nat -> (j < M)%nat -> 0 <= mt_coherence_mat sxy sx i j k <= 1.
Proof.
  intros (n & w & A & sc & Hw & Hd & Ho) Hi Hj.
  assert (G : forall a b, (b < a)%nat -> (a < M)%nat ->
              0 <= coherence_spec (sxy a b k) (sx a k) (sx b k) <= 1).
  { intros a b Hab Ha.
    destruct (Hd a Ha) as (Sa & Pa & Ea). destruct (Hd b ltac:(lia)) as (Sb & Pb & Eb).
    apply (coherence_gram_01 w (A a) (A b) n (sc a) (sc b)); auto. }
  unfold mt_coherence_mat. destruct (Nat.lt_trichotomy i j) as [H|[H|H]].
  - assert (E1 : (i =? j)%nat = false) by (apply Nat.eqb_neq; lia).
    assert (E3 : (j <? i)%nat = false) by (apply Nat.ltb_ge; lia).
    rewrite E1, E3. apply G; assumption.
  - subst. rewrite Nat.eqb_refl. split; lra.
  - assert (E1 : (i =? j)%nat = false) by (apply Nat.eqb_neq; lia).
    assert (E3 : (j <? i)%nat = true) by (apply Nat.ltb_lt; lia).
    rewrite E1, E3. apply G; assumption.
Qed.

(* ------------------------------------------------------------------ get_bounds *)
Fixpoint ascending (f : list Q) : Prop :=
  match f with [] => True | y :: f' => Forall (fun z => y <= z) f' /\ ascending f' end.

Lemma count_lt_all_ge f x : Forall (fun z => x <= z) f -> count_lt f x = 0%nat.
Proof.
  induction 1 as [|y f' Hy _ IH]; simpl; [reflexivity|].
  apply Qle_bool_iff in Hy. rewrite Hy, IH. reflexivity.
Qed.

Lemma count_le_all_gt f x : Forall (fun z => x < z) f -> count_le f x = 0%nat.
Proof.
  induction 1 as [|y f' Hy _ IH]; simpl; [reflexivity|].
  destruct (Qle_bool y x) eqn:E; [apply Qle_bool_iff in E; lra|]. rewrite IH. reflexivity.
Qed.

(* searchsorted 'left': the entries below index count_lt are exactly those < x *)
Lemma count_lt_spec f x : ascending f ->
  forall k, (k < length f)%nat -> ((k < count_lt f x)%nat <-> nth k f 0 < x).
Proof.
  induction f as [|y f' IH]; simpl; intros Ha k Hk; [lia|].
  destruct Ha as [Hy Ha]. destruct (Qle_bool x y) eqn:E.
  - apply Qle_bool_iff in E.
    assert (Z : count_lt f' x = 0%nat).
    { apply count_lt_all_ge. eapply Forall_impl; [|exact Hy]. intros z Hz. simpl in Hz. lra. }
    rewrite Z. simpl. split; [lia|]. intros H. exfalso. destruct k; [lra|].
    assert (In (nth k f' 0) f') by (apply nth_In; lia).
    rewrite Forall_forall in Hy. specialize (Hy _ H0). simpl in Hy. lra.
  - assert (Hxy : y < x) by (destruct (Qlt_le_dec y x); auto; apply Qle_bool_iff in q; congruence).
    destruct k; simpl; [split; [intros; assumption|lia]|].
    rewrite <- (IH Ha k) by lia. lia.
Qed.

(* searchsorted 'right': the entries below index count_le are exactly those <= x *)
Lemma count_le_spec f x : ascending f ->
  forall k, (k < length f)%nat -> ((k < count_le f x)%nat <-> nth k f 0 <= x).
Proof.
  induction f as [|y f' IH]; simpl; intros Ha k Hk; [lia|].
  destruct Ha as [Hy Ha]. destruct (Qle_bool y x) eqn:E.
  - apply Qle_bool_iff in E. destruct k; simpl; [split; [intros; assumption|lia]|].
    rewrite <- (IH Ha k) by lia. lia.
  - assert (Hxy : x < y) by (destruct (Qlt_le_dec x y); auto; apply Qle_bool_iff in q; congruence).
    assert (Z : count_le f' x = 0%nat).
    { apply count_le_all_gt. eapply Forall_impl; [|exact Hy]. intros z Hz. simpl in Hz. lra. }
    rewrite Z. simpl. split; [lia|]. intros H. exfalso. destruct k; [lra|].
    assert (In (nth k f' 0) f') by (apply nth_In; lia).
    rewrite Forall_forall in Hy. specialize (Hy _ H0). simpl in Hy. lra.
Qed.

(* the slice [lb_idx:ub_idx] holds exactly the grid frequencies in [lb, ub] *)
Theorem get_bounds_band f lb ub l u : ascending f -> get_bounds f lb (Some ub) = (l, u) ->
  forall k, (k < length f)%nat -> ((l <= k < u)%nat <-> lb <= nth k f 0 <= ub).
Proof.
  intros Ha E k Hk. unfold get_bounds in E. inversion E; subst l u; clear E.
  pose proof (count_lt_spec f lb Ha k Hk) as A. pose proof (count_le_spec f ub Ha k Hk) as B.
  split.
  - intros [H1 H2]. split.
    + destruct (Qlt_le_dec (nth k f 0) lb) as [L|L]; [apply A in L; lia|assumption].
    + apply B. assumption.
  - intros [H1 H2]. split.
    + destruct (le_lt_dec (count_lt f lb) k); [assumption|]. apply A in l. lra.
    + apply B. assumption.
Qed.

Theorem get_bounds_open f lb l u : ascending f -> get_bounds f lb None = (l, u) ->
  forall k, (k < length f)%nat -> ((l <= k < u)%nat <-> lb <= nth k f 0).
Proof.
  intros Ha E k Hk. unfold get_bounds in E. inversion E; subst l u; clear E.
  pose proof (count_lt_spec f lb Ha k Hk) as A.
  split.
  - intros [H1 H2]. destruct (Qlt_le_dec (nth k f 0) lb) as [L|L]; [apply A in L; lia|assumption].
  - intros H1. split; [|assumption].
    destruct (le_lt_dec (count_lt f lb) k); [assumption|]. apply A in l. lra.
Qed.
