(* Proofs/EventRelatedBase.v — sums, accessors, event_types lemmas for Model/EventRelated.v (property C19). *)
From Coq Require Import ZArith QArith List Bool Arith Lia Sorted Setoid Morphisms Psatz FinFun.
From NT Require Import EventRelated.
Import ListNotations.
Open Scope Z_scope.

(* ===================================================================== sums *)
Lemma qsum_cons x l : (qsum (x :: l) == x + qsum l)%Q.
Proof. change (qsum (x :: l)) with (Qred (x + qsum l)). apply Qred_correct. Qed.

Lemma qsum_app l1 l2 : (qsum (l1 ++ l2) == qsum l1 + qsum l2)%Q.
Proof.
  induction l1 as [|x l1 IH]; [simpl; ring|].
  rewrite <- app_comm_cons, !qsum_cons, IH. ring.
Qed.

Lemma qsumf_nil {A} (f : A -> Q) : qsumf f [] = 0%Q.
Proof. reflexivity. Qed.
Lemma qsumf_cons {A} (f : A -> Q) a l : (qsumf f (a :: l) == f a + qsumf f l)%Q.
Proof. unfold qsumf. simpl map. apply qsum_cons. Qed.

Lemma qsumf_ext {A} (f g : A -> Q) l :
  (forall a, In a l -> (f a == g a)%Q) -> (qsumf f l == qsumf g l)%Q.
Proof.
  induction l as [|a l IH]; intros H; [reflexivity|].
  rewrite !qsumf_cons, IH, (H a); [reflexivity|left; reflexivity|].
  intros b Hb; apply H; right; exact Hb.
Qed.

Lemma qsumf_plus {A} (f g : A -> Q) l :
  (qsumf (fun a => f a + g a) l == qsumf f l + qsumf g l)%Q.
Proof. induction l as [|a l IH]; [unfold qsumf; simpl; ring|]. rewrite !qsumf_cons, IH. ring. Qed.

Lemma qsumf_scal {A} c (f : A -> Q) l : (qsumf (fun a => c * f a) l == c * qsumf f l)%Q.
Proof. induction l as [|a l IH]; [unfold qsumf; simpl; ring|]. rewrite !qsumf_cons, IH. ring. Qed.

Lemma qsumf_scal_r {A} c (f : A -> Q) l : (qsumf (fun a => f a * c) l == qsumf f l * c)%Q.
Proof. induction l as [|a l IH]; [unfold qsumf; simpl; ring|]. rewrite !qsumf_cons, IH. ring. Qed.

Lemma qsumf_zero {A} (f : A -> Q) l : (forall a, In a l -> (f a == 0)%Q) -> (qsumf f l == 0)%Q.
Proof.
  induction l as [|a l IH]; intros H; [reflexivity|].
  rewrite qsumf_cons, IH, (H a); [ring|left; reflexivity|]. intros b Hb; apply H; right; exact Hb.
Qed.

Lemma qsumf_swap {A B} (f : A -> B -> Q) la lb :
  (qsumf (fun a => qsumf (fun b => f a b) lb) la == qsumf (fun b => qsumf (fun a => f a b) la) lb)%Q.
Proof.
  induction la as [|a la IH].
  - rewrite qsumf_nil. symmetry. apply qsumf_zero. intros; reflexivity.
  - rewrite qsumf_cons, IH, <- qsumf_plus. apply qsumf_ext. intros b _. rewrite qsumf_cons. reflexivity.
Qed.

Lemma qsumf_single {A} (f : A -> Q) l a0 :
  NoDup l -> In a0 l -> (forall a, In a l -> a <> a0 -> (f a == 0)%Q) -> (qsumf f l == f a0)%Q.
Proof.
  induction l as [|a l IH]; intros ND Hin Hz; [destruct Hin|].
  inversion ND as [|? ? Hnot ND']; subst.
  rewrite qsumf_cons. destruct Hin as [->|Hin].
  - rewrite qsumf_zero; [ring|]. intros b Hb. apply Hz; [right; exact Hb|]. intros ->. contradiction.
  - rewrite IH; auto.
    + rewrite (Hz a); [ring|left; reflexivity|]. intros ->. contradiction.
    + intros b Hb Hne. apply Hz; [right; exact Hb|exact Hne].
Qed.

Lemma qsumf_filter {A} (p : A -> bool) (f : A -> Q) l :
  (qsumf f (filter p l) == qsumf (fun a => if p a then f a else 0) l)%Q.
Proof.
  induction l as [|a l IH]; [reflexivity|]. simpl filter. rewrite qsumf_cons.
  destruct (p a); [rewrite qsumf_cons, IH; reflexivity|rewrite IH; ring].
Qed.

Lemma qsumf_map {A B} (g : A -> B) (f : B -> Q) l : qsumf f (map g l) = qsumf (fun a => f (g a)) l.
Proof. unfold qsumf. rewrite map_map. reflexivity. Qed.

Lemma inject_zsum l : (inject_Z (zsum l) == qsum (map inject_Z l))%Q.
Proof.
  induction l as [|x l IH]; [reflexivity|]. simpl zsum. simpl map. rewrite qsum_cons, inject_Z_plus, IH. reflexivity.
Qed.

(* ===================================================================== zrange, accessors *)
Lemma zrange_In n i : In i (zrange n) <-> 0 <= i < Z.of_nat n.
Proof.
  unfold zrange. rewrite in_map_iff. split.
  - intros [k [<- Hk]]. apply in_seq in Hk. lia.
  - intros H. exists (Z.to_nat i). split; [lia|]. apply in_seq. lia.
Qed.

Lemma zrange_NoDup n : NoDup (zrange n).
Proof.
  unfold zrange. apply FinFun.Injective_map_NoDup; [|apply seq_NoDup].
  intros a b H. lia.
Qed.

Lemma zrange_length n : length (zrange n) = n.
Proof. unfold zrange. rewrite map_length, seq_length. reflexivity. Qed.

Lemma zrange_S n : zrange (S n) = zrange n ++ [Z.of_nat n].
Proof. unfold zrange. rewrite seq_S, map_app. reflexivity. Qed.

Lemma getZ_In l i : 0 <= i < zlen l -> In (getZ l i) l.
Proof.
  unfold getZ, zlen. intros H. destruct (i <? 0) eqn:E; [lia|]. apply nth_In. lia.
Qed.

Lemma In_getZ l c : In c l -> exists i, 0 <= i < zlen l /\ getZ l i = c.
Proof.
  intros H. destruct (In_nth _ _ 0 H) as [k [Hk E]]. exists (Z.of_nat k). unfold zlen, getZ.
  split; [lia|]. destruct (Z.of_nat k <? 0) eqn:E'; [lia|]. rewrite Nat2Z.id. exact E.
Qed.

Lemma getZ_map {A} (f : A -> Z) l d i :
  0 <= i < zlen l -> getZ (map f l) i = f (nth (Z.to_nat i) l d).
Proof.
  unfold getZ, zlen. intros H. destruct (i <? 0) eqn:E; [lia|].
  rewrite (nth_indep _ 0 (f d)) by (rewrite map_length; lia). apply map_nth.
Qed.

Lemma getQ_map {A} (f : A -> Q) l d i :
  0 <= i < zlen l -> getQ (map f l) i = f (nth (Z.to_nat i) l d).
Proof.
  unfold getQ, zlen. intros H. destruct (i <? 0) eqn:E; [lia|].
  rewrite (nth_indep _ 0%Q (f d)) by (rewrite map_length; lia). apply map_nth.
Qed.

Lemma nth_zrange n i d : 0 <= i < Z.of_nat n -> nth (Z.to_nat i) (zrange n) d = i.
Proof.
  intros H. unfold zrange. rewrite (nth_indep _ d (Z.of_nat 0)) by (rewrite map_length, seq_length; lia).
  rewrite map_nth, seq_nth by lia. lia.
Qed.

Lemma getQ_map_zrange (f : Z -> Q) n i : 0 <= i < Z.of_nat n -> getQ (map f (zrange n)) i = f i.
Proof.
  intros H. rewrite (getQ_map f _ 0) by (unfold zlen; rewrite zrange_length; lia).
  rewrite nth_zrange by lia. reflexivity.
Qed.

Lemma getZ_map_zrange (f : Z -> Z) n i : 0 <= i < Z.of_nat n -> getZ (map f (zrange n)) i = f i.
Proof.
  intros H. rewrite (getZ_map f _ 0) by (unfold zlen; rewrite zrange_length; lia).
  rewrite nth_zrange by lia. reflexivity.
Qed.

(* a list is the table of its accessor *)
Lemma list_as_mapQ (l : list Q) : l = map (getQ l) (zrange (length l)).
Proof.
  apply (nth_ext _ _ 0%Q 0%Q); [rewrite map_length, zrange_length; reflexivity|].
  intros k Hk. pose proof (getQ_map_zrange (getQ l) (length l) (Z.of_nat k) ltac:(lia)) as E.
  unfold getQ at 1 in E. destruct (Z.of_nat k <? 0) eqn:E'; [lia|]. rewrite Nat2Z.id in E.
  rewrite E. unfold getQ. rewrite E', Nat2Z.id. reflexivity.
Qed.

(* ===================================================================== event_types *)
Lemma insert_u_In c l x : In x (insert_u c l) <-> x = c \/ In x l.
Proof.
  induction l as [|y l IH]; simpl; [intuition|].
  destruct (c <? y) eqn:E1; [simpl; intuition|].
  destruct (c =? y) eqn:E2.
  - apply Z.eqb_eq in E2; subst. simpl. intuition.
  - simpl. rewrite IH. intuition.
Qed.

Lemma insert_u_sorted c l : StronglySorted Z.lt l -> StronglySorted Z.lt (insert_u c l).
Proof.
  induction 1 as [|y l Hs IH Hall]; simpl; [repeat constructor|].
  destruct (c <? y) eqn:E1.
  - apply Z.ltb_lt in E1. constructor; [constructor; assumption|].
    constructor; [exact E1|]. rewrite Forall_forall in *. intros x Hx. specialize (Hall x Hx). lia.
  - destruct (c =? y) eqn:E2; [constructor; assumption|].
    apply Z.ltb_ge in E1. apply Z.eqb_neq in E2.
    constructor; [exact IH|]. rewrite Forall_forall in *. intros x Hx.
    apply insert_u_In in Hx. destruct Hx as [->|Hx]; [lia|auto].
Qed.

Lemma event_types_In ev c : In c (event_types ev) <-> In c ev /\ c <> 0.
Proof.
  induction ev as [|x ev IH]; simpl; [intuition|].
  destruct (x =? 0) eqn:E.
  - apply Z.eqb_eq in E. subst. rewrite IH.
    split; [intros [H1 H2]; split; [right; exact H1|exact H2]|intros [[H1|H1] H2]; [congruence|split; assumption]].
  - apply Z.eqb_neq in E. rewrite insert_u_In, IH.
    split; [intros [->|[H1 H2]]; [split; [left; reflexivity|exact E]|split; [right; exact H1|exact H2]]
           |intros [[H1|H1] H2]; [left; congruence|right; split; assumption]].
Qed.

Lemma event_types_sorted ev : StronglySorted Z.lt (event_types ev).
Proof.
  induction ev as [|x ev IH]; simpl; [constructor|].
  destruct (x =? 0); [exact IH|apply insert_u_sorted; exact IH].
Qed.

Lemma sorted_NoDup l : StronglySorted Z.lt l -> NoDup l.
Proof.
  induction 1 as [|y l Hs IH Hall]; constructor; [|exact IH].
  intros Hin. rewrite Forall_forall in Hall. specialize (Hall y Hin). lia.
Qed.

Lemma event_types_NoDup ev : NoDup (event_types ev).
Proof. apply sorted_NoDup, event_types_sorted. Qed.

(* two strictly sorted lists with the same elements are equal *)
Lemma sorted_ext l1 : forall l2, StronglySorted Z.lt l1 -> StronglySorted Z.lt l2 ->
  (forall x, In x l1 <-> In x l2) -> l1 = l2.
Proof.
  induction l1 as [|a l1 IH]; intros [|b l2] S1 S2 H.
  - reflexivity.
  - exfalso. apply (proj2 (H b)). left; reflexivity.
  - exfalso. apply (proj1 (H a)). left; reflexivity.
  - inversion S1 as [|? ? S1' F1]; inversion S2 as [|? ? S2' F2]; subst.
    rewrite Forall_forall in F1, F2.
    assert (a = b).
    { destruct (proj1 (H a) (or_introl eq_refl)) as [E|Hin]; [auto|].
      destruct (proj2 (H b) (or_introl eq_refl)) as [E|Hin']; [auto|].
      specialize (F2 a Hin). specialize (F1 b Hin'). lia. }
    subst b. f_equal. apply IH; auto. intros x. split; intros Hx.
    + destruct (proj1 (H x) (or_intror Hx)) as [E|]; [|assumption]. subst. specialize (F1 _ Hx). lia.
    + destruct (proj2 (H x) (or_intror Hx)) as [E|]; [|assumption]. subst. specialize (F2 _ Hx). lia.
Qed.

Lemma event_types_same_elements e1 e2 :
  (forall c, c <> 0 -> (In c e1 <-> In c e2)) -> event_types e1 = event_types e2.
Proof.
  intros H. apply sorted_ext; try apply event_types_sorted.
  intros x. rewrite !event_types_In. split; intros [Hin Hne]; split; auto; apply (H x Hne); exact Hin.
Qed.

Lemma index_of_In c l : In c l -> 0 <= index_of c l < zlen l /\ getZ l (index_of c l) = c.
Proof.
  induction l as [|x l IH]; intros Hin; [destruct Hin|].
  cbn [index_of]. destruct (x =? c) eqn:E.
  - apply Z.eqb_eq in E. subst. unfold zlen; cbn [length]. split; [lia|reflexivity].
  - apply Z.eqb_neq in E. destruct Hin as [->|Hin]; [congruence|].
    destruct (IH Hin) as [[H0 H1] H2]. unfold zlen in *. cbn [length]. split; [lia|].
    unfold getZ in *. destruct (index_of c l <? 0) eqn:E1; [lia|].
    destruct (1 + index_of c l <? 0) eqn:E2; [lia|].
    replace (Z.to_nat (1 + index_of c l)) with (S (Z.to_nat (index_of c l))) by lia. exact H2.
Qed.
