(* Proofs/CorrAffine.v — the seed correlation of Model/Corr.v is invariant under affine maps of either
   argument (property C20: "the seed correlation equals the Pearson coefficient", which does not depend on
   the baseline or the gain of either signal).  Added in round 11: a one-pass rewrite of seed_corrcoef
   (sum t^2 - n mean^2) is algebraically the same function but loses this invariance in floating point for
   large baselines; the theorem below is what entitles the check to judge large-baseline inputs by the
   value of the baseline-free input. *)
From Coq Require Import QArith List Arith Bool ZArith Lia Psatz Setoid Morphisms.
From NT Require Import QC Sums CS Corr CorrP.
Open Scope Q_scope.

Lemma sumn_const c n : sumn (fun _ => c) n == inj n * c.
Proof.
  induction n as [|n IH]; cbn [sumn]; [unfold inj; simpl; ring|].
  rewrite IH, inj_S. ring.
Qed.

Lemma rmean_eq x N : rmean x N == sumn x N / inj N.
Proof. unfold rmean. rewrite sumr_eq. reflexivity. Qed.

Lemma rmean_affine a b x N : (0 < N)%nat ->
  rmean (fun t => a * x t + b) N == a * rmean x N + b.
Proof.
  intros HN. pose proof (inj_nz N HN) as Hz.
  rewrite !rmean_eq, sumn_plus, sumn_scal, sumn_const. field. exact Hz.
Qed.

Lemma demean_affine a b x N t : (0 < N)%nat ->
  demean (fun t => a * x t + b) N t == a * demean x N t.
Proof.
  intros HN. unfold demean. cbv zeta. rewrite rmean_affine by assumption. ring.
Qed.

Lemma dot_eq x y N : dot x y N == sumn (fun t => x t * y t) N.
Proof. unfold dot. apply sumr_eq. Qed.

Lemma dot_demean_affine a b c d x y N : (0 < N)%nat ->
  dot (demean (fun t => a * x t + b) N) (demean (fun t => c * y t + d) N) N
  == a * c * dot (demean x N) (demean y N) N.
Proof.
  intros HN. rewrite !dot_eq.
  rewrite (sumn_ext _ (fun t => (a * c) * (demean x N t * demean y N t))).
  - apply sumn_scal.
  - intros k _. rewrite !demean_affine by assumption. ring.
Qed.

(* the three sums of seed_corrcoef under seed' = a*seed + b, target' = c*target + d *)
Lemma seed_sums_affine a b c d seed target N : (0 < N)%nat ->
  seed_xy (fun t => a * seed t + b) (fun t => c * target t + d) N == c * a * seed_xy seed target N /\
  seed_xx (fun t => c * target t + d) N == c * c * seed_xx target N /\
  seed_yy (fun t => a * seed t + b) N == a * a * seed_yy seed N.
Proof.
  intros HN. unfold seed_xy, seed_xx, seed_yy. repeat split; apply dot_demean_affine; assumption.
Qed.

(* the value r returned for (seed, target) — the solution of r * sqrt(xx*yy) = xy — is the value returned for
   every positively related affine image (a*c > 0: adding baselines b, d and applying gains of equal sign);
   for gains of opposite sign it is -r *)
Lemma seed_corrcoef_affine_invariant a b c d seed target N s r : (0 < N)%nat -> 0 < a * c ->
  0 < s -> s * s == seed_xx target N * seed_yy seed N -> r * s == seed_xy seed target N ->
  let seed' := fun t => a * seed t + b in
  let target' := fun t => c * target t + d in
  let s' := a * c * s in
  0 < s' /\ s' * s' == seed_xx target' N * seed_yy seed' N /\ r * s' == seed_xy seed' target' N.
Proof.
  intros HN Hac Hs Hss Hr. cbv zeta.
  destruct (seed_sums_affine a b c d seed target N HN) as (Hxy & Hxx & Hyy).
  split; [nra|]. split.
  - rewrite Hxx, Hyy.
    setoid_replace (a * c * s * (a * c * s)) with (a * a * c * c * (s * s)) by ring.
    rewrite Hss. ring.
  - rewrite Hxy. setoid_replace (r * (a * c * s)) with (a * c * (r * s)) by ring. rewrite Hr. ring.
Qed.

Lemma seed_corrcoef_affine_antiinvariant a b c d seed target N s r : (0 < N)%nat -> a * c < 0 ->
  0 < s -> s * s == seed_xx target N * seed_yy seed N -> r * s == seed_xy seed target N ->
  let seed' := fun t => a * seed t + b in
  let target' := fun t => c * target t + d in
  let s' := - (a * c) * s in
  0 < s' /\ s' * s' == seed_xx target' N * seed_yy seed' N /\ (- r) * s' == seed_xy seed' target' N.
Proof.
  intros HN Hac Hs Hss Hr. cbv zeta.
  destruct (seed_sums_affine a b c d seed target N HN) as (Hxy & Hxx & Hyy).
  split; [nra|]. split.
  - rewrite Hxx, Hyy.
    setoid_replace (- (a * c) * s * (- (a * c) * s)) with (a * a * c * c * (s * s)) by ring.
    rewrite Hss. ring.
  - rewrite Hxy. setoid_replace (- r * (- (a * c) * s)) with (a * c * (r * s)) by ring. rewrite Hr. ring.
Qed.
