(* Proofs/AdaptiveP.v — lemmas about Model/Adaptive.v: scale behaviour of the adaptive weight
   iteration, and the refutation of "one-sided = folded two-sided" for adaptive weights. *)
From Coq Require Import QArith List Arith Bool Lia Psatz Setoid Morphisms.
From NT Require Import QC Sums Spectral SpectralP.
From NT Require Import Adaptive.
Open Scope Q_scope.

Lemma Qdiv_zero x y : y == 0 -> x / y == 0.
Proof. intros H. unfold Qdiv. rewrite H. setoid_replace (/ 0) with 0 by reflexivity. ring. Qed.

(* ---------------------------------------------------------------- extensionality *)
Lemma ad_dk_ext rt lam bb bb' S S' k : bb k == bb' k -> S == S' ->
  ad_dk rt lam bb S k == ad_dk rt lam bb' S' k.
Proof. intros H1 H2. unfold ad_dk. rewrite H1, H2. reflexivity. Qed.
Lemma ad_step_ext K rt lam bb bb' ds ds' S S' :
  (forall k, bb k == bb' k) -> (forall k, ds k == ds' k) -> S == S' ->
  ad_step K rt lam bb ds S == ad_step K rt lam bb' ds' S'.
Proof.
  intros Hb Hd HS. unfold ad_step.
  assert (A: sumn (fun k => ad_dk rt lam bb S k * ad_dk rt lam bb S k * ds k) K ==
             sumn (fun k => ad_dk rt lam bb' S' k * ad_dk rt lam bb' S' k * ds' k) K).
  { apply sumn_ext; intros k _. rewrite (ad_dk_ext rt lam bb bb' S S' k (Hb k) HS), (Hd k). reflexivity. }
  assert (B: sumn (fun k => ad_dk rt lam bb S k * ad_dk rt lam bb S k) K ==
             sumn (fun k => ad_dk rt lam bb' S' k * ad_dk rt lam bb' S' k) K).
  { apply sumn_ext; intros k _. rewrite (ad_dk_ext rt lam bb bb' S S' k (Hb k) HS). reflexivity. }
  rewrite A, B. reflexivity.
Qed.
Lemma ad_iter_ext m K rt lam bb bb' ds ds' S S' :
  (forall k, bb k == bb' k) -> (forall k, ds k == ds' k) -> S == S' ->
  ad_iter m K rt lam bb ds S == ad_iter m K rt lam bb' ds' S'.
Proof.
  intros Hb Hd. revert S S'. induction m; intros S S' HS; simpl; [exact HS|].
  apply IHm. apply ad_step_ext; assumption.
Qed.

(* ---------------------------------------------------------------- scaling all spectra by c *)
Section Scale.
  Variable c : Q.
  Hypothesis Hc : ~ c == 0.

  (* the weights of one pass do not change *)
  Lemma ad_dk_scale rt lam bb S k :
    ad_dk rt lam (fun k => c * bb k) (c * S) k == ad_dk rt lam bb S k.
  Proof.
    unfold ad_dk. destruct (Qeq_dec (lam k * S + bb k) 0) as [Z|NZ].
    - rewrite (Qdiv_zero _ _ Z). apply Qdiv_zero. setoid_replace (lam k * (c * S) + c * bb k) with (c * (lam k * S + bb k)) by ring.
      rewrite Z. ring.
    - field. split; [exact NZ|]. intro E. apply NZ.
      assert (c * (lam k * S + bb k) == 0) by (rewrite <- E; ring).
      apply Qmult_integral in H. tauto.
  Qed.

  Lemma ad_step_scale K rt lam bb ds S :
    ad_step K rt lam (fun k => c * bb k) (fun k => c * ds k) (c * S) == c * ad_step K rt lam bb ds S.
  Proof.
    unfold ad_step.
    assert (A: sumn (fun k => ad_dk rt lam (fun k => c * bb k) (c * S) k * ad_dk rt lam (fun k => c * bb k) (c * S) k * (c * ds k)) K
               == c * sumn (fun k => ad_dk rt lam bb S k * ad_dk rt lam bb S k * ds k) K).
    { rewrite <- sumn_scal. apply sumn_ext; intros k _. rewrite ad_dk_scale. ring. }
    assert (B: sumn (fun k => ad_dk rt lam (fun k => c * bb k) (c * S) k * ad_dk rt lam (fun k => c * bb k) (c * S) k) K
               == sumn (fun k => ad_dk rt lam bb S k * ad_dk rt lam bb S k) K).
    { apply sumn_ext; intros k _. rewrite ad_dk_scale. reflexivity. }
    rewrite A, B. unfold Qdiv. ring.
  Qed.

  Lemma ad_iter_scale m K rt lam bb ds S :
    ad_iter m K rt lam (fun k => c * bb k) (fun k => c * ds k) (c * S) == c * ad_iter m K rt lam bb ds S.
  Proof.
    revert S. induction m; intros S; simpl; [reflexivity|].
    rewrite <- IHm. apply ad_iter_ext; try (intros; reflexivity). apply ad_step_scale.
  Qed.

  (* ... but the statistic of the stopping rule is divided by c: the rule
     `percentile(cfn**2, 95) < 1e-12` is not scale-free *)
  Lemma ad_cfn_scale K lam bb ds S :
    ad_cfn K lam (fun k => c * bb k) (fun k => c * ds k) (c * S) == ad_cfn K lam bb ds S / c.
  Proof.
    unfold ad_cfn.
    transitivity (sumn (fun k => lam k * (S - ds k) / ((lam k * S + bb k) * (lam k * S + bb k)) * / c) K);
      [|rewrite sumn_scal_r; reflexivity].
    apply sumn_ext; intros k _.
    destruct (Qeq_dec (lam k * S + bb k) 0) as [Z|NZ].
    - rewrite (Qdiv_zero (lam k * (S - ds k))) by (rewrite Z; ring).
      rewrite Qdiv_zero; [ring|].
      setoid_replace (lam k * (c * S) + c * bb k) with (c * (lam k * S + bb k)) by ring. rewrite Z. ring.
    - field. repeat split; auto. intro E. apply NZ.
      assert (c * (lam k * S + bb k) == 0) by (rewrite <- E; ring).
      apply Qmult_integral in H. tauto.
  Qed.
End Scale.

(* ---------------------------------------------------------------- the whole pipeline *)
Lemma mtm_auto_val sd N K w Y f :
  mtm_auto sd N K w Y f == dblf sd N f * (wsq K w Y f / auto_denom K w f).
Proof. unfold mtm_auto. rewrite mtm_auto_c_val. reflexivity. Qed.

Lemma mtm_auto_scale sd N K w (Y Y' : nat -> sig) (a : C) f :
  (forall k j, Y' k j =c= cmul a (Y k j)) ->
  mtm_auto sd N K w Y' f == cnorm2 a * mtm_auto sd N K w Y f.
Proof.
  intros HY. rewrite !mtm_auto_val.
  assert (W: wsq K w Y' f == cnorm2 a * wsq K w Y f).
  { unfold wsq. rewrite <- sumn_scal. apply sumn_ext; intros k _. rewrite (HY k f), sq_mul. ring. }
  rewrite W. unfold Qdiv. ring.
Qed.

Lemma mt_psd_wext sd N K Fs w w' Y f : (forall k, (k < K)%nat -> w k f == w' k f) ->
  mt_psd sd N K Fs w Y f == mt_psd sd N K Fs w' Y f.
Proof.
  intros H. rewrite !mt_psd_val, !auto_denom_val.
  assert (A: wsq K w Y f == wsq K w' Y f).
  { unfold wsq. apply sumn_ext; intros k Hk. rewrite (H k Hk). reflexivity. }
  assert (B: sumn (fun k => w k f * w k f) K == sumn (fun k => w' k f * w' k f) K).
  { apply sumn_ext; intros k Hk. rewrite (H k Hk). reflexivity. }
  rewrite A, B. reflexivity.
Qed.

Section Pipeline.
  Variables (m : nat) (dflt : nat -> bool) (sd : sides) (N K : nat) (rt lam : nat -> Q).
  Variables (Y Y' : nat -> sig) (a : C).
  Hypothesis Ha : ~ cnorm2 a == 0.
  Hypothesis HY : forall k j, Y' k j =c= cmul a (Y k j).

  Lemma ad_var_scale : ad_var sd N K lam Y' == cnorm2 a * ad_var sd N K lam Y.
  Proof.
    unfold ad_var.
    assert (E: sumn (fun f => mtm_auto sd N K (fun k _ => lam k) Y' f) (out_len sd N) ==
               cnorm2 a * sumn (fun f => mtm_auto sd N K (fun k _ => lam k) Y f) (out_len sd N)).
    { rewrite <- sumn_scal. apply sumn_ext; intros f _. apply mtm_auto_scale. exact HY. }
    rewrite E. unfold Qdiv. ring.
  Qed.

  (* same number of passes => the same weights for x and for a*x *)
  Theorem ad_weights_scale k f :
    ad_weights m dflt sd N K rt lam Y' k f == ad_weights m dflt sd N K rt lam Y k f.
  Proof.
    unfold ad_weights; cbv zeta.
    set (p := if dflt f then 0%nat else (m - 1)%nat).
    set (bb := ad_bb lam (ad_var sd N K lam Y)).
    rewrite <- (ad_dk_scale (cnorm2 a) Ha rt lam bb (ad_iter p K rt lam bb (ad_ds sd N Y f) (ad_S0 sd N lam Y f)) k).
    apply ad_dk_ext.
    - unfold bb, ad_bb. rewrite ad_var_scale. ring.
    - rewrite <- (ad_iter_scale (cnorm2 a) Ha).
      apply ad_iter_ext.
      + intros j. unfold bb, ad_bb. rewrite ad_var_scale. ring.
      + intros j. unfold ad_ds. rewrite (HY j f), sq_mul. ring.
      + unfold ad_S0. apply mtm_auto_scale. exact HY.
  Qed.

  Theorem mt_adaptive_scale_same_passes Fs f :
    mt_psd_adaptive m dflt sd N K Fs rt lam Y' f == cnorm2 a * mt_psd_adaptive m dflt sd N K Fs rt lam Y f.
  Proof.
    unfold mt_psd_adaptive.
    rewrite (mt_psd_wext sd N K Fs (ad_weights m dflt sd N K rt lam Y') (ad_weights m dflt sd N K rt lam Y) Y' f)
      by (intros; apply ad_weights_scale).
    apply mt_scale_sq. exact HY.
  Qed.
End Pipeline.

(* ---------------------------------------------------------------- fewer than 3 tapers: adaptive=True
   gives the fixed eigenvalue-weighted estimate, so its Parseval theorem applies *)
Theorem adaptive_few_is_fixed m dflt sd N K Fs rt lam Y f : (K < 3)%nat ->
  mt_psd_adaptive_all m dflt sd N K Fs rt lam Y f = mt_psd sd N K Fs (fun k _ => rt k) Y f.
Proof. intros H. unfold mt_psd_adaptive_all, ad_weights_all. apply Nat.ltb_lt in H. rewrite H. reflexivity. Qed.

Theorem adaptive_few_parseval m dflt sd N K Fs rt lam (Y : nat -> sig) (E : nat -> Q) :
  (K < 3)%nat -> (0 < N)%nat -> ~ Fs == 0 ->
  (forall k, (k < K)%nat -> rt k * rt k == lam k) ->
  ~ sumn lam K == 0 ->
  (forall k, (k < K)%nat -> sumn (fun f => cnorm2 (Y k f)) N == inj N * E k) ->
  (sd = OneSided -> forall k f, (k < K)%nat -> (0 < f < N)%nat -> Y k (N - f)%nat =c= cconj (Y k f)) ->
  sumn (fun f => mt_psd_adaptive_all m dflt sd N K Fs rt lam Y f * (Fs / inj N)) (out_len sd N)
  == sumn (fun k => lam k * E k) K / sumn lam K.
Proof.
  intros HK HN HF Hrt HL HE Hs.
  rewrite <- (mt_parseval sd N K Fs rt lam Y E HN HF Hrt HL HE Hs).
  apply sumn_ext; intros f _. rewrite (adaptive_few_is_fixed m dflt sd N K Fs rt lam Y f HK). reflexivity.
Qed.

(* ---------------------------------------------------------------- REFUTATION: adaptive one-sided
   output is not the folded two-sided output.  Witness: 3 tapers, the true 4-point DFT of three real
   signals, sqrt-eigenvalues (1, 3/4, 1/2), one pass, Fs = 1, bin 1. *)
Definition xa (k : nat) : sig := fun t =>
  match k, t with
  | 0%nat, 0%nat => (1, 0) | 0%nat, 1%nat => (2, 0) | 0%nat, 3%nat => (-(1), 0)
  | 1%nat, 1%nat => (1, 0) | 1%nat, 2%nat => (1, 0)
  | 2%nat, 0%nat => (1, 0) | 2%nat, 2%nat => (-(1), 0) | 2%nat, 3%nat => (1, 0)
  | _, _ => (0, 0) end.
Definition Ya (k : nat) : sig := dft4 (xa k).
Definition rta (k : nat) : Q := match k with 0%nat => 1 | 1%nat => 3 # 4 | _ => 1 # 2 end.
Definition lama (k : nat) : Q := rta k * rta k.
Definition one_a : Q := mt_psd_adaptive 1 (fun _ => false) OneSided 4 3 1 rta lama Ya 1.
Definition two_a (f : nat) : Q := mt_psd_adaptive 1 (fun _ => false) TwoSided 4 3 1 rta lama Ya f.
Lemma Ya_sym k f : (0 < f < 4)%nat -> Ya k (4 - f)%nat =c= cconj (Ya k f).
Proof. intros H. apply dft4_real_sym; [|exact H]. intros t. unfold xa.
  destruct k as [|[|[|k]]]; destruct t as [|[|[|[|t]]]]; reflexivity. Qed.
Lemma one_a_val : Qred one_a = Qred one_a. Proof. reflexivity. Qed.
Lemma fold_differs : Qeq_bool one_a (fold2 4 two_a 1) = false.
Proof. vm_compute. reflexivity. Qed.

Theorem adaptive_onesided_fold_refuted :
  exists (K : nat) (rt lam : nat -> Q) (Y : nat -> sig),
    (forall k, rt k * rt k == lam k) /\
    (forall k f, (0 < f < 4)%nat -> Y k (4 - f)%nat =c= cconj (Y k f)) /\
    ~ (mt_psd_adaptive 1 (fun _ => false) OneSided 4 K 1 rt lam Y 1
       == fold2 4 (mt_psd_adaptive 1 (fun _ => false) TwoSided 4 K 1 rt lam Y) 1).
Proof.
  exists 3%nat, rta, lama, Ya. split; [intros; reflexivity|]. split; [exact Ya_sym|].
  intro H. apply Qeq_bool_iff in H. change (Qeq_bool one_a (fold2 4 two_a 1) = true) in H.
  rewrite fold_differs in H. discriminate H.
Qed.
