(* Proofs/TimeArrayP.v — lemmas about Model/TimeArray.v (C01) *)
From Coq Require Import ZArith List Bool Lia PrimFloat.
From NT Require Import F2Z TimeArray.
Import ListNotations.
Open Scope Z_scope.

(* ---------------------------------------------------------------- int64 *)
Lemma wrap64_id z : - 2 ^ 63 <= z < 2 ^ 63 -> wrap64 z = z.
Proof. intros H. unfold wrap64. rewrite Z.mod_small; lia. Qed.

Lemma in62_spec z : in62 z = true <-> - 2 ^ 62 < z < 2 ^ 62.
Proof. unfold in62. rewrite andb_true_iff, !Z.ltb_lt. tauto. Qed.

Lemma in62_wrap z : in62 z = true -> wrap64 z = z.
Proof. intros H. apply in62_spec in H. apply wrap64_id. lia. Qed.

(* ---------------------------------------------------------------- unit table *)
Lemma factor_pos u : 0 < factor u.
Proof. destruct u; reflexivity. Qed.

Lemma factor_SI :
  factor Ups = 1 /\ factor Uns = 1000 * factor Ups /\ factor Uus = 1000 * factor Uns /\
  factor Ums = 1000 * factor Uus /\ factor Us = 1000 * factor Ums /\ factor Um = 60 * factor Us /\
  factor Uh = 60 * factor Um /\ factor UD = 24 * factor Uh /\ factor UW = 7 * factor UD.
Proof. repeat split; reflexivity. Qed.

(* ---------------------------------------------------------------- rounding *)
(* z is a nearest integer to m * 2^e *)
Definition nearest (z m e : Z) : Prop :=
  if 0 <=? e then z = m * 2 ^ e else 2 * Z.abs (z * 2 ^ (- e) - m) <= 2 ^ (- e).

Lemma rne_nearest m e : nearest (rne m e) m e.
Proof.
  unfold nearest, rne. destruct (0 <=? e) eqn:He; [reflexivity|].
  apply Z.leb_gt in He.
  assert (Hd : 0 < 2 ^ (- e)) by (apply Z.pow_pos_nonneg; lia).
  set (d := 2 ^ (- e)) in *.
  pose proof (Z.div_mod m d ltac:(lia)) as Hdm.
  pose proof (Z.mod_pos_bound m d Hd) as Hb.
  destruct (Z.compare_spec (2 * (m mod d)) d) as [Hc|Hc|Hc].
  - destruct (Z.even (m / d)); nia.
  - nia.
  - nia.
Qed.

(* ties go to the even neighbour *)
Lemma rne_tie_even m e : e < 0 -> 2 * (m mod 2 ^ (- e)) = 2 ^ (- e) -> Z.even (rne m e) = true.
Proof.
  intros He Ht. unfold rne. replace (0 <=? e) with false by (symmetry; apply Z.leb_gt; lia).
  rewrite Ht, Z.compare_refl. destruct (Z.even (m / 2 ^ (- e))) eqn:E; [exact E|].
  rewrite Z.even_add, E. reflexivity.
Qed.

Lemma ctor_float1_nearest cf x z :
  ctor_float1 cf x = Some z ->
  exists m e, f2ze (PrimFloat.mul x (z2f cf)) = Some (m, e) /\ nearest z m e.
Proof.
  unfold ctor_float1, rne_f. destruct (f2ze _) as [[m e]|] eqn:E; [|discriminate].
  intros H; inversion H; subst. exists m, e. split; [reflexivity|apply rne_nearest].
Qed.

Lemma opt_all_nearest cf l p :
  opt_all (map (ctor_float1 cf) l) = Some p ->
  Forall2 (fun x z => exists m e, f2ze (PrimFloat.mul x (z2f cf)) = Some (m, e) /\ nearest z m e) l p.
Proof.
  revert p. induction l as [|x l IH]; intros p E; simpl in E.
  - inversion E; constructor.
  - destruct (ctor_float1 cf x) as [z|] eqn:Ez; [|discriminate].
    destruct (opt_all (map (ctor_float1 cf) l)) as [r|] eqn:Er; [|discriminate].
    inversion E; subst. constructor; [apply ctor_float1_nearest; exact Ez|apply IH; reflexivity].
Qed.

(* ---------------------------------------------------------------- constructor *)
Lemma map_ext_Forall {A B} (f g : A -> B) (P : A -> Prop) l :
  (forall a, P a -> f a = g a) -> Forall P l -> map f l = map g l.
Proof. intros H F; induction F; simpl; [reflexivity|]. rewrite H, IHF; auto. Qed.

Lemma ctor_int_exact u sc l :
  Forall (fun n => in62 (n * factor u) = true) l ->
  ctor (UArg u) (DInts sc l) = Ok (mk_tarr (map (fun n => n * factor u) l) u sc).
Proof.
  intros F. unfold ctor. f_equal. f_equal.
  apply map_ext_Forall with (P := fun n => in62 (n * factor u) = true); [|exact F].
  intros n Hn. apply in62_wrap. exact Hn.
Qed.

Lemma ctor_int_default_seconds sc l :
  Forall (fun n => in62 (n * factor Us) = true) l ->
  ctor UArgNone (DInts sc l) = Ok (mk_tarr (map (fun n => n * factor Us) l) Us sc).
Proof.
  intros F. unfold ctor. f_equal. f_equal.
  apply map_ext_Forall with (P := fun n => in62 (n * factor Us) = true); [|exact F].
  intros n Hn. apply in62_wrap. exact Hn.
Qed.

Lemma ctor_float_spec u sc l t :
  ctor (UArg u) (DFloats sc l) = Ok t ->
  tunit t = u /\ scalar t = sc /\
  Forall2 (fun x z => exists m e, f2ze (PrimFloat.mul x (z2f (factor u))) = Some (m, e) /\ nearest z m e)
          l (payload t).
Proof.
  unfold ctor. destruct (opt_all _) as [p|] eqn:E; [|discriminate].
  intros H; inversion H; subst; simpl. repeat split. apply opt_all_nearest. exact E.
Qed.

Lemma ctor_bad_unit d : ctor UArgBad d = Err ValueError.
Proof. reflexivity. Qed.

(* re-wrapping and unit conversion never touch the payload *)
Lemma rewrap_id t : ctor UArgNone (DTime t) = Ok t.
Proof. destruct t; reflexivity. Qed.

Lemma rewrap_unit t u : ctor (UArg u) (DTime t) = Ok (convert_unit t u).
Proof. destruct t; reflexivity. Qed.

Lemma convert_unit_payload t u : payload (convert_unit t u) = payload t /\ tunit (convert_unit t u) = u.
Proof. split; reflexivity. Qed.

Lemma timelist_payload ua t l r :
  ctor ua (DTimeList t l) = Ok r -> payload r = map head_ps (t :: l).
Proof. destruct ua; simpl; intros H; inversion H; reflexivity. Qed.

Definition payload_of (r : res tarr) : list Z := match r with Ok t => payload t | Err _ => [] end.

Lemma same_instant_any_unit u1 u2 n1 n2 sc :
  n1 * factor u1 = n2 * factor u2 -> in62 (n1 * factor u1) = true ->
  payload_of (ctor (UArg u1) (DInts sc [n1])) = payload_of (ctor (UArg u2) (DInts sc [n2])) /\
  payload_of (ctor (UArg u1) (DInts sc [n1])) = [n1 * factor u1].
Proof.
  intros E H. simpl. rewrite <- E. rewrite in62_wrap by exact H. split; reflexivity.
Qed.

(* ---------------------------------------------------------------- operands *)
Lemma conv_time self t : conv_operand self (OTime t) = Some (payload t, scalar t).
Proof. reflexivity. Qed.

Lemma conv_bare_int self sc l :
  Forall (fun n => in62 (n * factor (tunit self)) = true) l ->
  conv_operand self (OInts sc l) = Some (map (fun n => n * factor (tunit self)) l, sc).
Proof.
  intros F. unfold conv_operand. f_equal. f_equal.
  apply map_ext_Forall with (P := fun n => in62 (n * factor (tunit self)) = true); [|exact F].
  intros n Hn. apply in62_wrap; exact Hn.
Qed.

Lemma conv_bare_float self sc l p sb :
  conv_operand self (OFloats sc l) = Some (p, sb) ->
  sb = sc /\
  Forall2 (fun x z => exists m e, f2ze (PrimFloat.mul x (z2f (factor (tunit self)))) = Some (m, e) /\ nearest z m e) l p.
Proof.
  unfold conv_operand. destruct (opt_all _) as [q|] eqn:E; [|discriminate].
  intros H; inversion H; subst. split; [reflexivity|]. apply opt_all_nearest. exact E.
Qed.

(* ---------------------------------------------------------------- exact arithmetic *)
Definition arith_exact (op : arith) (x y : Z) : Z :=
  match op with Add | RAdd => x + y | Sub => x - y | RSub => y - x end.

Lemma arith_fn_exact op x y : in62 x = true -> in62 y = true -> arith_fn op x y = arith_exact op x y.
Proof.
  intros Hx Hy. apply in62_spec in Hx. apply in62_spec in Hy.
  destruct op; simpl; apply wrap64_id; lia.
Qed.

Lemma map_ext_in' {A B} (f g : A -> B) l : (forall a, In a l -> f a = g a) -> map f l = map g l.
Proof. intros H. apply map_ext_in. exact H. Qed.

Lemma bcast_ext {A} (f g : Z -> Z -> A) a sa b sb :
  (forall x y, In x a -> In y b -> f x y = g x y) ->
  bcast f a sa b sb = bcast g a sa b sb.
Proof.
  intros H. unfold bcast.
  destruct a as [|x [|x' a']].
  - destruct b as [|y [|y' b']]; simpl; try reflexivity.
  - f_equal. f_equal. apply map_ext_in'. intros y Hy. apply H; simpl; auto.
  - destruct b as [|y [|y' b']].
    + reflexivity.
    + f_equal. f_equal. apply map_ext_in'. intros z Hz. apply H; simpl; auto.
    + destruct (Nat.eqb _ _); [|reflexivity]. f_equal. f_equal.
      apply map_ext_in'. intros [p q] Hpq. simpl.
      apply H; [eapply in_combine_l|eapply in_combine_r]; exact Hpq.
Qed.

Definition binop_exact (op : arith) (self : tarr) (b : list Z) (sb : bool) : res tarr :=
  match bcast (arith_exact op) (payload self) (scalar self) b sb with
  | Some (p, sc) => Ok (mk_tarr p (tunit self) sc)
  | None => Err ValueError
  end.

Lemma Forall_in62 l x : Forall (fun z => in62 z = true) l -> In x l -> in62 x = true.
Proof. intros F I. rewrite Forall_forall in F. apply F; exact I. Qed.

(* time (+|-) time, any units: exact integer arithmetic on picoseconds, unit of the left operand *)
Lemma arith_time_exact op self t :
  Forall (fun z => in62 z = true) (payload self) ->
  Forall (fun z => in62 z = true) (payload t) ->
  binop_arith op self (OTime t) = binop_exact op self (payload t) (scalar t).
Proof.
  intros F1 F2. unfold binop_arith, binop_exact. rewrite conv_time.
  rewrite (bcast_ext (arith_fn op) (arith_exact op)); [reflexivity|].
  intros x y Hx Hy. apply arith_fn_exact;
    [apply (Forall_in62 _ _ F1 Hx)|apply (Forall_in62 _ _ F2 Hy)].
Qed.

Lemma arith_bare_int_exact op self sc l :
  Forall (fun z => in62 z = true) (payload self) ->
  Forall (fun n => in62 (n * factor (tunit self)) = true) l ->
  binop_arith op self (OInts sc l) =
  binop_exact op self (map (fun n => n * factor (tunit self)) l) sc.
Proof.
  intros F1 F2. unfold binop_arith, binop_exact. rewrite conv_bare_int by exact F2.
  rewrite (bcast_ext (arith_fn op) (arith_exact op)); [reflexivity|].
  intros x y Hx Hy. apply arith_fn_exact; [apply (Forall_in62 _ _ F1 Hx)|].
  apply in_map_iff in Hy as [n [<- Hn]]. rewrite Forall_forall in F2. apply F2; exact Hn.
Qed.

Lemma arith_bare_float_exact op self sc l p :
  Forall (fun z => in62 z = true) (payload self) ->
  conv_operand self (OFloats sc l) = Some (p, sc) ->
  Forall (fun z => in62 z = true) p ->
  binop_arith op self (OFloats sc l) = binop_exact op self p sc.
Proof.
  intros F1 E F2. unfold binop_arith, binop_exact. rewrite E.
  rewrite (bcast_ext (arith_fn op) (arith_exact op)); [reflexivity|].
  intros x y Hx Hy. apply arith_fn_exact;
    [apply (Forall_in62 _ _ F1 Hx)|apply (Forall_in62 _ _ F2 Hy)].
Qed.

(* the result unit is the unit of the time operand on the left, whatever the right one is *)
Lemma arith_result_unit op self o r : binop_arith op self o = Ok r -> tunit r = tunit self.
Proof.
  unfold binop_arith. destruct (conv_operand self o) as [[b sb]|]; [|discriminate].
  destruct (bcast _ _ _ _ _) as [[p sc]|]; [|discriminate].
  intros H; inversion H; reflexivity.
Qed.

(* comparisons: Z comparisons of the picosecond payloads; display units play no role *)
Lemma cmp_fn_spec op x y :
  cmp_fn op x y = true <->
  match op with Lt => x < y | Le => x <= y | Gt => x > y | Ge => x >= y | Eq => x = y end.
Proof.
  destruct op; simpl.
  - apply Z.ltb_lt. - apply Z.leb_le. - rewrite Z.gtb_ltb, Z.ltb_lt; lia.
  - rewrite Z.geb_leb, Z.leb_le; lia. - apply Z.eqb_eq.
Qed.

Lemma cmp_time_units_irrelevant op p sp q sq u1 u2 u1' u2' :
  binop_cmp op (mk_tarr p u1 sp) (OTime (mk_tarr q u2 sq)) =
  binop_cmp op (mk_tarr p u1' sp) (OTime (mk_tarr q u2' sq)).
Proof. reflexivity. Qed.

Lemma cmp_time_is_bcast op self t :
  binop_cmp op self (OTime t) =
  match bcast (cmp_fn op) (payload self) (scalar self) (payload t) (scalar t) with
  | Some r => Ok r | None => Err ValueError end.
Proof. reflexivity. Qed.

Lemma arith_time_units_irrelevant op p sp q sq u u2 u2' :
  binop_arith op (mk_tarr p u sp) (OTime (mk_tarr q u2 sq)) =
  binop_arith op (mk_tarr p u sp) (OTime (mk_tarr q u2' sq)).
Proof. reflexivity. Qed.

(* ---------------------------------------------------------------- reductions *)
Lemma zmin_list_spec l x : (zmin_list x l = x \/ In (zmin_list x l) l) /\
                           zmin_list x l <= x /\ Forall (fun y => zmin_list x l <= y) l.
Proof.
  unfold zmin_list. revert x. induction l as [|a l IH]; intros x; simpl.
  - repeat split; [left; reflexivity|lia|constructor].
  - destruct (IH (Z.min x a)) as [H1 [H2 H3]]. repeat split.
    + destruct H1 as [H1|H1]; [|right; right; exact H1].
      rewrite H1. destruct (Z.min_spec x a) as [[_ E]|[_ E]]; rewrite E; [left|right; left]; reflexivity.
    + lia.
    + constructor; [lia|exact H3].
Qed.

Lemma zmax_list_spec l x : (zmax_list x l = x \/ In (zmax_list x l) l) /\
                           x <= zmax_list x l /\ Forall (fun y => y <= zmax_list x l) l.
Proof.
  unfold zmax_list. revert x. induction l as [|a l IH]; intros x; simpl.
  - repeat split; [left; reflexivity|lia|constructor].
  - destruct (IH (Z.max x a)) as [H1 [H2 H3]]. repeat split.
    + destruct H1 as [H1|H1]; [|right; right; exact H1].
      rewrite H1. destruct (Z.max_spec x a) as [[_ E]|[_ E]]; rewrite E; [right; left|left]; reflexivity.
    + lia.
    + constructor; [lia|exact H3].
Qed.

Fixpoint abs_sum (l : list Z) : Z := match l with [] => 0 | x :: l' => Z.abs x + abs_sum l' end.
Fixpoint zsum (l : list Z) : Z := match l with [] => 0 | x :: l' => x + zsum l' end.

Lemma abs_sum_nonneg l : 0 <= abs_sum l.
Proof. induction l; simpl; lia. Qed.

Lemma zsum_wrap_acc l acc :
  Z.abs acc + abs_sum l < 2 ^ 63 ->
  fold_left (fun a b => wrap64 (a + b)) l acc = acc + zsum l.
Proof.
  revert acc. induction l as [|x l IH]; intros acc H; simpl in *; [lia|].
  pose proof (abs_sum_nonneg l).
  rewrite wrap64_id by lia. rewrite IH by lia. lia.
Qed.

Lemma zsum_wrap_exact l : abs_sum l < 2 ^ 63 -> zsum_wrap l = zsum l.
Proof. intros H. unfold zsum_wrap. rewrite zsum_wrap_acc; simpl; lia. Qed.

Lemma reduce_unit_scalar r t v : reduce r t = Ok v -> tunit v = tunit t /\ scalar v = true.
Proof.
  unfold reduce. destruct (payload t) as [|x l]; [destruct r; try discriminate|];
    intros H; inversion H; split; reflexivity.
Qed.

Lemma reduce_min_spec t x l :
  payload t = x :: l ->
  exists v, reduce RMin t = Ok (mk_tarr [v] (tunit t) true) /\ In v (x :: l) /\ Forall (fun y => v <= y) (x :: l).
Proof.
  intros E. unfold reduce. rewrite E. exists (zmin_list x l).
  destruct (zmin_list_spec l x) as [H1 [H2 H3]]. repeat split.
  - destruct H1 as [H1|H1]; [left; symmetry; exact H1|right; exact H1].
  - constructor; assumption.
Qed.

Lemma reduce_max_spec t x l :
  payload t = x :: l ->
  exists v, reduce RMax t = Ok (mk_tarr [v] (tunit t) true) /\ In v (x :: l) /\ Forall (fun y => y <= v) (x :: l).
Proof.
  intros E. unfold reduce. rewrite E. exists (zmax_list x l).
  destruct (zmax_list_spec l x) as [H1 [H2 H3]]. repeat split.
  - destruct H1 as [H1|H1]; [left; symmetry; exact H1|right; exact H1].
  - constructor; assumption.
Qed.

Lemma reduce_sum_spec t x l :
  payload t = x :: l -> abs_sum (x :: l) < 2 ^ 63 ->
  reduce RSum t = Ok (mk_tarr [zsum (x :: l)] (tunit t) true).
Proof. intros E H. unfold reduce. rewrite E. rewrite zsum_wrap_exact by exact H. reflexivity. Qed.

Lemma reduce_ptp_spec t x l :
  payload t = x :: l -> Forall (fun z => in62 z = true) (x :: l) ->
  reduce RPtp t = Ok (mk_tarr [zmax_list x l - zmin_list x l] (tunit t) true).
Proof.
  intros E F. unfold reduce. rewrite E.
  destruct (zmax_list_spec l x) as [H1 _]. destruct (zmin_list_spec l x) as [H2 _].
  assert (Hin : forall v, v = x \/ In v l -> - 2 ^ 62 < v < 2 ^ 62).
  { intros v Hv. apply in62_spec. rewrite Forall_forall in F. apply F.
    destruct Hv as [->|Hv]; [left; reflexivity|right; exact Hv]. }
  pose proof (Hin _ H1). pose proof (Hin _ H2).
  rewrite wrap64_id by lia. reflexivity.
Qed.
