(* Proofs/ARGram.v — the biased autocorrelation estimate makes the Hermitian Toeplitz form a Gram form
   (property C10): positive semi-definite for every signal, positive definite for a non-zero signal;
   hence the Levinson-Durbin prediction errors computed from data are positive and |k_q| < 1. *)
From Coq Require Import QArith List Bool Arith Lia Psatz Lqa Setoid Morphisms.
From NT Require Import QC Sums AR ARP.
Import ListNotations.
Open Scope Q_scope.

(* ------------------------------------------------------------------ more finite-sum lemmas *)
Lemma csumn_split f a b : csumn f (a + b) =c= cadd (csumn f a) (csumn (fun k => f (a + k)%nat) b).
Proof. induction b; simpl. rewrite Nat.add_0_r. cring.
  replace (a + S b)%nat with (S (a + b)) by lia. simpl. rewrite IHb. cring. Qed.
Lemma csumn_zero_ext f n : (forall k, (k < n)%nat -> f k =c= c0) -> csumn f n =c= c0.
Proof. intros H. rewrite (csumn_ext f (fun _ => c0) n H). apply csumn_zero. Qed.
Lemma csumn_exchange (f : nat -> nat -> C) m n :
  csumn (fun t => csumn (fun i => f t i) n) m =c= csumn (fun i => csumn (fun t => f t i) m) n.
Proof.
  induction m; simpl.
  - symmetry. apply csumn_zero.
  - rewrite IHm, <- csumn_add. reflexivity.
Qed.
Lemma prod_sums (f g : nat -> C) n m :
  cmul (csumn f n) (csumn g m) =c= csumn (fun i => csumn (fun j => cmul (f i) (g j)) m) n.
Proof.
  rewrite <- csumn_mul_r. apply csumn_ext; intros i Hi. rewrite csumn_mul_l. reflexivity.
Qed.
Lemma csumn_scale q f n : cscale q (csumn f n) =c= csumn (fun k => cscale q (f k)) n.
Proof. induction n; simpl; [cring|]. rewrite <- IHn. cring. Qed.
Lemma csumn_ofQ f n : csumn (fun k => ofQ (f k)) n =c= ofQ (sumn f n).
Proof. induction n; simpl; [reflexivity|]. rewrite IHn. cring. Qed.
Lemma lin3 a b (h : nat -> C) M : cmul a (cmul (csumn h M) b) =c= csumn (fun t => cmul a (cmul (h t) b)) M.
Proof. induction M; simpl; [cring|]. rewrite <- IHM. cring. Qed.

Lemma sumn_pos f n t0 : (forall k, (k < n)%nat -> 0 <= f k) -> (t0 < n)%nat -> 0 < f t0 -> 0 < sumn f n.
Proof.
  induction n; intros Hf Ht Hp; [lia|]. simpl.
  assert (0 <= sumn f n) by (apply sumn_nonneg; intros; apply Hf; lia).
  destruct (Nat.eq_dec t0 n) as [->|Hne].
  - lra.
  - assert (0 < sumn f n) by (apply IHn; auto; lia). pose proof (Hf n ltac:(lia)). lra.
Qed.

Lemma ceq_dec (a b : C) : {a =c= b} + {~ a =c= b}.
Proof.
  destruct (Qeq_dec (re a) (re b)) as [E1|N1]; [|right; intros [H _]; contradiction].
  destruct (Qeq_dec (im a) (im b)) as [E2|N2]; [left; split; assumption|right; intros [_ H]; contradiction].
Qed.

Lemma cnorm2_pos_nz z : ~ z =c= c0 -> 0 < cnorm2 z.
Proof.
  intros H. pose proof (cnorm2_nonneg z) as P. destruct (Qlt_le_dec 0 (cnorm2 z)) as [|L]; auto. exfalso. apply H.
  destruct z as [x y]. unfold cnorm2, ceq, c0, re, im in *; simpl in *.
  pose proof (sq_nonneg x). pose proof (sq_nonneg y).
  assert (Ex : x * x == 0) by lra. assert (Ey : y * y == 0) by lra.
  split; [destruct (Qmult_integral _ _ Ex)|destruct (Qmult_integral _ _ Ey)]; assumption.
Qed.

Lemma cconj_scale q z : cconj (cscale q z) =c= cscale q (cconj z). Proof. cring. Qed.
Lemma cconj_c0 : cconj c0 =c= c0. Proof. cring. Qed.

(* ------------------------------------------------------------------ the Gram identity *)
Section Gram.
  Variable y : nat -> C.          (* the signal, zero from index N on (zero padding) *)
  Variable N : nat.
  Hypothesis HN : (0 < N)%nat.
  Hypothesis Hpad : forall t, (N <= t)%nat -> y t =c= c0.

  Definition NQ : Q := inject_Z (Z.of_nat N).
  Lemma NQ_pos : 0 < NQ.
  Proof. unfold NQ. replace 0 with (inject_Z 0) by reflexivity. rewrite <- Zlt_Qlt. lia. Qed.
  Lemma NQ_nz : ~ NQ == 0. Proof. pose proof NQ_pos. lra. Qed.

  (* R(k) = (1/N) sum_{t=0}^{N-1-k} y[t+k] conj(y[t]) *)
  Definition lagsum (k : nat) : C := csumn (fun t => cmul (y (t + k)) (cconj (y t))) (N - k).
  Definition Rd (k : nat) : C := cdivq (lagsum k) NQ.

  (* y[t - d], zero for t < d *)
  Definition ysh (t d : nat) : C := if (d <=? t)%nat then y (t - d) else c0.
  Definition shsum (d e M : nat) : C := csumn (fun t => cmul (ysh t d) (cconj (ysh t e))) M.

  Lemma shsum_le d e M : (d <= e)%nat -> (N - (e - d) + e <= M)%nat -> shsum d e M =c= lagsum (e - d).
  Proof.
    intros Hde HM. set (k := (e - d)%nat) in *.
    replace M with (e + ((N - k) + (M - e - (N - k))))%nat by lia.
    unfold shsum. rewrite csumn_split, csumn_split.
    rewrite (csumn_zero_ext _ e).
    2:{ intros t Ht. unfold ysh. replace (e <=? t)%nat with false by (symmetry; apply Nat.leb_gt; lia).
        rewrite cconj_c0. cring. }
    rewrite (csumn_zero_ext _ (M - e - (N - k))).
    2:{ intros t Ht. unfold ysh. replace (d <=? e + (N - k + t))%nat with true by (symmetry; apply Nat.leb_le; lia).
        rewrite (Hpad (e + (N - k + t) - d)%nat) by (unfold k; lia). cring. }
    unfold lagsum.
    transitivity (csumn (fun t => cmul (y (t + k)) (cconj (y t))) (N - k)); [|reflexivity].
    rewrite cadd_0_l, cadd_0_r. apply csumn_ext; intros t Ht. unfold ysh.
    replace (d <=? e + t)%nat with true by (symmetry; apply Nat.leb_le; lia).
    replace (e <=? e + t)%nat with true by (symmetry; apply Nat.leb_le; lia).
    replace (e + t - d)%nat with (t + k)%nat by (unfold k; lia).
    replace (e + t - e)%nat with t by lia. reflexivity.
  Qed.

  Lemma shsum_conj d e M : shsum d e M =c= cconj (shsum e d M).
  Proof. unfold shsum. rewrite csumn_conj. apply csumn_ext; intros t Ht. rewrite cconj_mul, cconj_invol. apply cmul_comm. Qed.

  (* Gram entries are N times the Toeplitz entries *)
  Lemma gram_entry p i j : (i <= p)%nat -> (j <= p)%nat ->
    shsum (p - i) (p - j) (N + p) =c= cscale NQ (Rlag Rd i j).
  Proof.
    intros Hi Hj. unfold Rlag. destruct (j <=? i)%nat eqn:E.
    - apply Nat.leb_le in E. rewrite shsum_le by lia.
      replace (p - j - (p - i))%nat with (i - j)%nat by lia.
      unfold Rd. rewrite cdivq_scale by apply NQ_nz. reflexivity.
    - apply Nat.leb_gt in E. rewrite shsum_conj, shsum_le by lia.
      replace (p - i - (p - j))%nat with (j - i)%nat by lia.
      unfold Rd. rewrite <- cconj_scale, cdivq_scale by apply NQ_nz. reflexivity.
  Qed.

  (* w_t = sum_j c_j conj(y[t - p + j]) *)
  Definition wv (c : nat -> C) (p t : nat) : C := csumn (fun j => cmul (c j) (cconj (ysh t (p - j)))) (S p).

  Theorem hform_gram c p :
    cscale NQ (hform Rd c (S p)) =c= csumn (fun t => cmul (cconj (wv c p t)) (wv c p t)) (N + p).
  Proof.
    set (M := (N + p)%nat).
    set (F := fun i j t => cmul (cmul (cconj (c i)) (ysh t (p - i))) (cmul (c j) (cconj (ysh t (p - j))))).
    transitivity (csumn (fun i => csumn (fun j => csumn (fun t => F i j t) M) (S p)) (S p)).
    - unfold hform. rewrite csumn_scale. apply csumn_ext; intros i Hi.
      transitivity (cmul (cconj (c i)) (cscale NQ (csumn (fun j => cmul (Rlag Rd i j) (c j)) (S p)))); [cring|].
      rewrite csumn_scale, <- csumn_mul_l. apply csumn_ext; intros j Hj.
      transitivity (cmul (cconj (c i)) (cmul (cscale NQ (Rlag Rd i j)) (c j))); [cring|].
      rewrite <- (gram_entry p i j) by lia. unfold shsum. rewrite lin3.
      apply csumn_ext; intros t Ht. unfold F. cring.
    - transitivity (csumn (fun t => csumn (fun i => csumn (fun j => F i j t) (S p)) (S p)) M).
      + rewrite (csumn_exchange (fun t i => csumn (fun j => F i j t) (S p)) M (S p)).
        apply csumn_ext; intros i Hi. rewrite (csumn_exchange (fun t j => F i j t) M (S p)). reflexivity.
      + apply csumn_ext; intros t Ht.
        assert (E : cconj (wv c p t) =c= csumn (fun i => cmul (cconj (c i)) (ysh t (p - i))) (S p)).
        { unfold wv. rewrite csumn_conj. apply csumn_ext; intros i Hi. rewrite cconj_mul, cconj_invol. reflexivity. }
        rewrite E. unfold wv. rewrite prod_sums. reflexivity.
  Qed.

  Lemma hform_real c p : cscale NQ (hform Rd c (S p)) =c= ofQ (sumn (fun t => cnorm2 (wv c p t)) (N + p)).
  Proof.
    rewrite hform_gram, <- csumn_ofQ. apply csumn_ext; intros t Ht.
    rewrite cmul_comm. apply cmul_conj_norm2.
  Qed.

  Lemma hform_re c p : NQ * re (hform Rd c (S p)) == sumn (fun t => cnorm2 (wv c p t)) (N + p).
  Proof. destruct (hform_real c p) as [E _]. exact E. Qed.

  (* positive semi-definite, every signal, every order *)
  Theorem gram_psd c p : 0 <= re (hform Rd c (S p)) /\ im (hform Rd c (S p)) == 0.
  Proof.
    pose proof NQ_pos as P. split.
    - assert (0 <= NQ * re (hform Rd c (S p))).
      { rewrite hform_re. apply sumn_nonneg; intros; apply cnorm2_nonneg. }
      destruct (Qlt_le_dec (re (hform Rd c (S p))) 0) as [Hn|]; auto. exfalso.
      assert (NQ * re (hform Rd c (S p)) < 0).
      { setoid_replace (NQ * re (hform Rd c (S p))) with (- (NQ * - re (hform Rd c (S p)))) by ring.
        assert (0 < NQ * - re (hform Rd c (S p))) by (apply Qmult_lt_0_compat; lra). lra. }
      lra.
    - destruct (hform_real c p) as [_ E]. unfold cscale, ofQ, im in E; simpl in E.
      destruct (Qmult_integral _ _ E) as [Z|Z]; [exfalso; lra|exact Z].
  Qed.

  (* the highest non-zero sample *)
  Lemma last_nonzero n : (exists t, (t < n)%nat /\ ~ y t =c= c0) ->
    exists m, (m < n)%nat /\ ~ y m =c= c0 /\ forall t, (m < t < n)%nat -> y t =c= c0.
  Proof.
    induction n as [|n IH]; intros (t & Ht & Hy); [lia|].
    destruct (ceq_dec (y n) c0) as [Z|NZ].
    - assert (Hlt : (t < n)%nat).
      { destruct (Nat.eq_dec t n) as [->|]; [contradiction|lia]. }
      destruct (IH (ex_intro _ t (conj Hlt Hy))) as (m & Hm & Hym & Hz).
      exists m. split; [lia|]. split; [exact Hym|]. intros u Hu.
      destruct (Nat.eq_dec u n) as [->|]; [exact Z|apply Hz; lia].
    - exists n. split; [lia|]. split; [exact NZ|]. intros u Hu. lia.
  Qed.

  (* positive definite for a non-zero signal: strictly positive on every c with a non-zero entry
     (lowest non-zero coefficient against the highest non-zero sample) *)
  Theorem gram_pd c p j0 :
    (exists t, (t < N)%nat /\ ~ y t =c= c0) ->
    (j0 <= p)%nat -> ~ c j0 =c= c0 -> (forall j, (j < j0)%nat -> c j =c= c0) ->
    0 < re (hform Rd c (S p)).
  Proof.
    intros Hx Hj0 Hc Hlow.
    destruct (last_nonzero N Hx) as (m & Hm & Hym & Hz).
    assert (Hzero : forall t, (m < t)%nat -> y t =c= c0).
    { intros t Ht. destruct (Nat.lt_ge_cases t N); [apply Hz; lia|apply Hpad; assumption]. }
    set (t0 := (m + p - j0)%nat).
    assert (W : wv c p t0 =c= cmul (c j0) (cconj (y m))).
    { unfold wv. replace (S p) with (j0 + (1 + (p - j0)))%nat by lia.
      rewrite csumn_split, csumn_split.
      rewrite (csumn_zero_ext _ j0) by (intros j Hj; rewrite (Hlow j Hj); cring).
      rewrite (csumn_zero_ext _ (p - j0)).
      2:{ intros j Hj. unfold ysh, t0.
          replace (p - (j0 + (1 + j)) <=? m + p - j0)%nat with true by (symmetry; apply Nat.leb_le; lia).
          rewrite (Hzero (m + p - j0 - (p - (j0 + (1 + j))))%nat) by lia. rewrite cconj_c0. cring. }
      simpl csumn. unfold ysh, t0. rewrite Nat.add_0_r.
      replace (p - j0 <=? m + p - j0)%nat with true by (symmetry; apply Nat.leb_le; lia).
      replace (m + p - j0 - (p - j0))%nat with m by lia. cring. }
    pose proof NQ_pos as P.
    assert (S0 : 0 < sumn (fun t => cnorm2 (wv c p t)) (N + p)).
    { apply (sumn_pos _ _ t0); [intros; apply cnorm2_nonneg|unfold t0; lia|].
      rewrite W, cnorm2_mul, cnorm2_conj. apply Qmult_lt_0_compat; apply cnorm2_pos_nz; assumption. }
    rewrite <- hform_re in S0.
    destruct (Qlt_le_dec 0 (re (hform Rd c (S p)))) as [|Hn]; auto. exfalso.
    assert (NQ * re (hform Rd c (S p)) <= 0).
    { setoid_replace (NQ * re (hform Rd c (S p))) with (- (NQ * - re (hform Rd c (S p)))) by ring.
      assert (0 <= NQ * - re (hform Rd c (S p))) by (apply Qmult_le_0_compat; lra). lra. }
    lra.
  Qed.

  Corollary gram_pos_def p : (exists t, (t < N)%nat /\ ~ y t =c= c0) -> pos_def Rd (S p).
  Proof.
    intros Hx c Hc0. apply (gram_pd c p 0%nat Hx); [lia| |intros j Hj; lia].
    rewrite Hc0. intros [E _]. unfold c1, c0, re in E; simpl in E. discriminate.
  Qed.

  Lemma Rd0_real : im (Rd 0) == 0.
  Proof.
    unfold Rd, lagsum.
    assert (E : csumn (fun t => cmul (y (t + 0)) (cconj (y t))) (N - 0) =c= ofQ (sumn (fun t => cnorm2 (y t)) (N - 0))).
    { rewrite <- csumn_ofQ. apply csumn_ext; intros t Ht. rewrite Nat.add_0_r. apply cmul_conj_norm2. }
    rewrite E. unfold cdivq, ofQ, im; simpl. unfold Qdiv. ring.
  Qed.
End Gram.

(* ------------------------------------------------------------------ the code's sequence *)
Lemma hform_ext R R' c n : (forall k, (k < n)%nat -> R k =c= R' k) -> hform R c n =c= hform R' c n.
Proof.
  intros H. unfold hform. apply csumn_ext; intros i Hi. apply cmul_proper; [reflexivity|].
  apply csumn_ext; intros j Hj. apply cmul_proper; [|reflexivity].
  unfold Rlag. destruct (j <=? i)%nat; [apply H; lia|rewrite (H (j - i)%nat) by lia; reflexivity].
Qed.
Lemma pos_def_ext R R' n : (forall k, (k < n)%nat -> R k =c= R' k) -> pos_def R n -> pos_def R' n.
Proof. intros H P c Hc. rewrite <- (hform_ext R R' c n H). apply P; exact Hc. Qed.

(* autocorr_lag (the contract of utils.autocorr used by the correspondence) is the lagged sum *)
Lemma fold_pairs u v a :
  fold_left (fun acc p => cr (cadd acc (cmul (fst p) (cconj (snd p))))) (combine u v) a =c=
  cadd a (csumn (fun t => cmul (nthC u t) (cconj (nthC v t))) (Nat.min (length u) (length v))).
Proof.
  revert v a; induction u as [|h u IH]; intros v a; [simpl; cring|].
  destruct v as [|g v]; [simpl; cring|].
  cbn [combine fold_left length Nat.min fst snd]. rewrite IH, cr_eq, csumn_shift.
  unfold nthC at 3 4. cbn [nth]. rewrite <- cadd_assoc.
  apply cadd_proper; [reflexivity|]. apply cadd_proper; [reflexivity|].
  apply csumn_ext; intros t Ht. reflexivity.
Qed.

Lemma autocorr_lag_Rd x k : autocorr_lag x k =c= Rd (nthC x) (length x) k.
Proof.
  unfold autocorr_lag, Rd, lagsum, NQ. apply cdivq_proper; [|reflexivity].
  rewrite fold_pairs, cadd_0_l, skipn_length.
  replace (Nat.min (length x - k) (length x)) with (length x - k)%nat by lia.
  apply csumn_ext; intros t Ht. unfold nthC at 1. rewrite nth_skipn_add.
  replace (k + t)%nat with (t + k)%nat by lia. reflexivity.
Qed.

(* utils.autocorr(x)[:n] *)
Definition autocorr_seq (x : list C) (n : nat) : list C := map (autocorr_lag x) (seq 0 n).
Lemma autocorr_seq_nth x n k : (k < n)%nat -> nthC (autocorr_seq x n) k = autocorr_lag x k.
Proof. intros H. unfold autocorr_seq, nthC. apply nth_map_seq; exact H. Qed.
Lemma autocorr_seq_length x n : length (autocorr_seq x n) = n.
Proof. unfold autocorr_seq. rewrite map_length, seq_length. reflexivity. Qed.

Lemma pad_nthC (x : list C) t : (length x <= t)%nat -> nthC x t =c= c0.
Proof. intros H. unfold nthC. rewrite nth_overflow by exact H. reflexivity. Qed.

(* for every non-zero signal and every order: the sequence the estimators work from has a real R_0,
   positive prediction errors of every order up to `order` (so no division by zero in the loop: the
   guards of LD_solves_YW hold) and reflection coefficients of modulus < 1 *)
Theorem sigma_pos_data x order :
  (1 <= order < length x)%nat -> (exists t, (t < length x)%nat /\ ~ nthC x t =c= c0) ->
  let R := autocorr_seq x (S order) in
  (1 <= order < length R)%nat /\ im (nthC R 0) == 0 /\
  (forall q, (q <= order)%nat -> 0 < ld_err R q) /\
  (forall q, (q < order)%nat -> ~ ld_err R q == 0) /\
  0 < snd (AR_est_LD R order) /\
  (forall q, (1 <= q <= order)%nat -> cnorm2 (nthC (fst (AR_est_LD R q)) (q - 1)) < 1).
Proof.
  intros Ho Hx R.
  assert (HN : (0 < length x)%nat) by lia.
  assert (L : length R = S order) by apply autocorr_seq_length.
  assert (H0 : im (nthC R 0) == 0).
  { unfold R. rewrite autocorr_seq_nth by lia. rewrite autocorr_lag_Rd. apply Rd0_real. }
  assert (PD : forall m, (1 <= m <= S order)%nat -> pos_def (Rf R) m).
  { intros m Hm. destruct m as [|p]; [lia|].
    apply (pos_def_ext (Rd (nthC x) (length x)) (Rf R) (S p)).
    - intros k Hk. unfold Rf, R. rewrite autocorr_seq_nth by lia. symmetry. apply autocorr_lag_Rd.
    - apply gram_pos_def; [exact HN|apply pad_nthC|exact Hx]. }
  destruct (pd_all (Rf R) order H0 PD) as [A B].
  assert (E : forall q, (q <= order)%nat -> 0 < ld_err R q).
  { intros q Hq. rewrite ld_err_sb. apply A; exact Hq. }
  split; [lia|]. split; [exact H0|]. split; [exact E|]. split.
  - intros q Hq Z. specialize (E q ltac:(lia)). lra.
  - apply sigma_pos_of_pd; [lia|exact H0|exact PD].
Qed.
