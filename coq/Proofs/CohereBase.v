(* Proofs/CohereBase.v — what C08 needs beyond Base: weighted Cauchy-Schwarz over Q for
   pairs of real sequences, the complex Cauchy-Schwarz inequality
       | sum_k w_k a_k conj(b_k) |^2  <=  (sum_k w_k |a_k|^2) (sum_k w_k |b_k|^2),   w_k >= 0,
   for any number of terms, double sums flattened to single sums, and small facts on
   square roots given by their contract. Everything over Q; no axioms. *)
From Coq Require Import QArith List Arith Lia Psatz Setoid Morphisms.
From NT Require Import Sums QC.
Open Scope Q_scope.

(* ---------------------------------------------------------------- small Q facts *)
Lemma Qsq_nonneg (x : Q) : 0 <= x * x. Proof. apply sq_nonneg. Qed.

Lemma Qmul_pos (a b : Q) : 0 < a -> 0 < b -> 0 < a * b.
Proof. intros; apply Qmult_lt_0_compat; assumption. Qed.

Lemma Qmul_nonneg (a b : Q) : 0 <= a -> 0 <= b -> 0 <= a * b.
Proof. intros; apply Qmult_le_0_compat; assumption. Qed.

Lemma Qdiv_nonneg (a b : Q) : 0 <= a -> 0 < b -> 0 <= a / b.
Proof.
  intros Ha Hb. unfold Qdiv. apply Qmult_le_0_compat; [assumption|].
  apply Qlt_le_weak. apply Qinv_lt_0_compat. assumption.
Qed.

Lemma Qdiv_le_1 (a b : Q) : 0 < b -> a <= b -> a / b <= 1.
Proof.
  intros Hb Hab. apply (Qmult_le_r _ _ b Hb).
  setoid_replace (a / b * b) with a by (field; lra). lra.
Qed.

Lemma Qnot0_sq_pos (x : Q) : ~ x == 0 -> 0 < x * x.
Proof.
  intros H. destruct (Qlt_le_dec x 0).
  - setoid_replace (x * x) with ((- x) * (- x)) by ring. apply Qmult_lt_0_compat; lra.
  - apply Qmult_lt_0_compat; lra.
Qed.

(* two non-negative numbers with equal squares are equal *)
Lemma nonneg_sq_inj (u v : Q) : 0 <= u -> 0 <= v -> u * u == v * v -> u == v.
Proof.
  intros Hu Hv E.
  assert (F : (u - v) * (u + v) == 0) by (ring_simplify; rewrite E; ring).
  destruct (Qeq_dec (u + v) 0) as [Z|NZ].
  - lra.
  - apply Qmult_integral in F. destruct F; [lra|contradiction].
Qed.

(* a square root, by contract: the library's sqrt is only ever used through this *)
Definition is_sqrt (s a : Q) : Prop := 0 <= s /\ s * s == a.

Lemma is_sqrt_unique s s' a : is_sqrt s a -> is_sqrt s' a -> s == s'.
Proof. intros [H1 H2] [H3 H4]. apply nonneg_sq_inj; auto. rewrite H2, H4. reflexivity. Qed.

Lemma is_sqrt_pos s a : is_sqrt s a -> 0 < a -> 0 < s.
Proof.
  intros [H1 H2] Ha. destruct (Qeq_dec s 0) as [Z|NZ].
  - rewrite Z in H2. lra.
  - lra.
Qed.

Lemma is_sqrt_mul s t a b : is_sqrt s a -> is_sqrt t b -> is_sqrt (s * t) (a * b).
Proof.
  intros [H1 H2] [H3 H4]. split.
  - apply Qmul_nonneg; assumption.
  - rewrite <- H2, <- H4. ring.
Qed.

Definition Qabs' (g : Q) : Q := if Qle_bool 0 g then g else - g.
Lemma Qabs'_nonneg g : 0 <= Qabs' g.
Proof.
  unfold Qabs'. destruct (Qle_bool 0 g) eqn:E.
  - apply Qle_bool_iff; assumption.
  - assert (~ 0 <= g) by (intro H; apply Qle_bool_iff in H; congruence). lra.
Qed.
Lemma Qabs'_sq g : Qabs' g * Qabs' g == g * g.
Proof. unfold Qabs'. destruct (Qle_bool 0 g); ring. Qed.
Lemma Qabs'_pos g : 0 < g -> Qabs' g == g.
Proof. intros H. unfold Qabs'. destruct (Qle_bool 0 g) eqn:E; [reflexivity|].
  assert (~ 0 <= g) by (intro H'; apply Qle_bool_iff in H'; congruence). lra. Qed.
Lemma Qabs'_neg g : g < 0 -> Qabs' g == - g.
Proof. intros H. unfold Qabs'. destruct (Qle_bool 0 g) eqn:E; [|reflexivity].
  apply Qle_bool_iff in E. lra. Qed.

(* sqrt (g^2 a) = |g| sqrt a, from the contract alone *)
Lemma is_sqrt_scale g s a : is_sqrt s a -> is_sqrt (Qabs' g * s) (g * g * a).
Proof.
  intros [H1 H2]. split.
  - apply Qmul_nonneg; [apply Qabs'_nonneg|assumption].
  - rewrite <- H2, <- (Qabs'_sq g). ring.
Qed.

(* ---------------------------------------------------------------- sums *)
Lemma sumn_scal_r c f n : sumn (fun k => f k * c) n == sumn f n * c.
Proof. induction n; simpl; [ring|rewrite IHn; ring]. Qed.

Lemma sumn_le f g n : (forall k, (k < n)%nat -> f k <= g k) -> sumn f n <= sumn g n.
Proof. induction n; simpl; intros H; [apply Qle_refl|]. apply Qplus_le_compat; auto. Qed.

(* double sum = single sum over m = f*n + k *)
Lemma sumn_flatten (g : nat -> nat -> Q) (F n : nat) :
  sumn (fun f => sumn (g f) n) F == sumn (fun m => g (m / n)%nat (m mod n)%nat) (F * n).
Proof.
  induction F; simpl; [reflexivity|].
  replace (n + F * n)%nat with (F * n + n)%nat by lia.
  rewrite sumn_split, IHF.
  apply Qplus_comp; [reflexivity|].
  apply sumn_ext; intros k Hk.
  assert (n <> 0)%nat by lia.
  replace ((F * n + k) / n)%nat with F.
  2:{ rewrite Nat.div_add_l by assumption. rewrite Nat.div_small by assumption. lia. }
  replace ((F * n + k) mod n)%nat with k.
  2:{ rewrite Nat.add_comm, Nat.mod_add by assumption. rewrite Nat.mod_small by assumption. reflexivity. }
  reflexivity.
Qed.

Lemma re_csumn f n : re (csumn f n) == sumn (fun k => re (f k)) n.
Proof. induction n; simpl; [reflexivity|]. rewrite <- IHn. reflexivity. Qed.
Lemma im_csumn f n : im (csumn f n) == sumn (fun k => im (f k)) n.
Proof. induction n; simpl; [reflexivity|]. rewrite <- IHn. reflexivity. Qed.

Lemma csumn_scale q f n : csumn (fun k => cscale q (f k)) n =c= cscale q (csumn f n).
Proof. induction n; simpl; [cring|]. rewrite IHn. cring. Qed.

Lemma csumn_flatten (g : nat -> nat -> C) (F n : nat) :
  csumn (fun f => csumn (g f) n) F =c= csumn (fun m => g (m / n)%nat (m mod n)%nat) (F * n).
Proof.
  split.
  - rewrite !re_csumn.
    rewrite <- (sumn_flatten (fun f k => re (g f k)) F n).
    apply sumn_ext; intros. apply re_csumn.
  - rewrite !im_csumn.
    rewrite <- (sumn_flatten (fun f k => im (g f k)) F n).
    apply sumn_ext; intros. apply im_csumn.
Qed.

(* ---------------------------------------------------------------- weighted C-S, pairs of reals *)
Section CS2.
  Variables (w a1 a2 b1 b2 : nat -> Q) (n : nat).
  Hypothesis w_nonneg : forall k, (k < n)%nat -> 0 <= w k.

  Let S := sumn (fun k => w k * (a1 k * b1 k + a2 k * b2 k)) n.
  Let A := sumn (fun k => w k * (a1 k * a1 k + a2 k * a2 k)) n.
  Let B := sumn (fun k => w k * (b1 k * b1 k + b2 k * b2 k)) n.

  Lemma cs2_quadratic t : 0 <= A * t * t + 2 * S * t + B.
  Proof.
    assert (E : sumn (fun k => w k * ((a1 k * t + b1 k) * (a1 k * t + b1 k)
                                      + (a2 k * t + b2 k) * (a2 k * t + b2 k))) n
                == A * t * t + 2 * S * t + B).
    { unfold A, S, B.
      transitivity (sumn (fun k => (t * t) * (w k * (a1 k * a1 k + a2 k * a2 k))
                                   + ((2 * t) * (w k * (a1 k * b1 k + a2 k * b2 k))
                                      + w k * (b1 k * b1 k + b2 k * b2 k))) n).
      - apply sumn_ext; intros; ring.
      - rewrite sumn_plus, sumn_plus, !sumn_scal. ring. }
    rewrite <- E. apply sumn_nonneg; intros k Hk.
    apply Qmul_nonneg; [auto|].
    pose proof (Qsq_nonneg (a1 k * t + b1 k)). pose proof (Qsq_nonneg (a2 k * t + b2 k)). lra.
  Qed.

  Lemma cs2_A_nonneg : 0 <= A.
  Proof.
    apply sumn_nonneg; intros k Hk. apply Qmul_nonneg; [auto|].
    pose proof (Qsq_nonneg (a1 k)). pose proof (Qsq_nonneg (a2 k)). lra.
  Qed.
  Lemma cs2_B_nonneg : 0 <= B.
  Proof.
    apply sumn_nonneg; intros k Hk. apply Qmul_nonneg; [auto|].
    pose proof (Qsq_nonneg (b1 k)). pose proof (Qsq_nonneg (b2 k)). lra.
  Qed.

  Theorem cs2 : S * S <= A * B.
  Proof.
    pose proof cs2_A_nonneg as HA. pose proof cs2_B_nonneg as HB.
    destruct (Qeq_dec A 0) as [HA0|HA0].
    - (* A = 0: the quadratic is linear and non-negative everywhere, so S = 0 *)
      destruct (Qeq_dec S 0) as [HS0|HS0].
      + rewrite HS0, HA0. lra.
      + exfalso. pose proof (cs2_quadratic (- (B + 1) / (2 * S))) as P.
        assert (E : A * (- (B + 1) / (2 * S)) * (- (B + 1) / (2 * S))
                    + 2 * S * (- (B + 1) / (2 * S)) + B == A * ((B+1)/(2*S)) * ((B+1)/(2*S)) - 1)
          by (field; assumption).
        rewrite E, HA0 in P. lra.
    - assert (HAp : 0 < A) by lra.
      pose proof (cs2_quadratic (- S / A)) as P.
      assert (E : A * (- S / A) * (- S / A) + 2 * S * (- S / A) + B == B - S * S / A) by (field; auto).
      rewrite E in P.
      assert (H0 : S * S / A <= B) by lra.
      apply (Qmult_le_compat_r _ _ A) in H0; [|lra].
      setoid_replace (S * S / A * A) with (S * S) in H0 by (field; auto). lra.
  Qed.
End CS2.

(* ---------------------------------------------------------------- complex C-S *)
Section CCS.
  Variables (w : nat -> Q) (a b : nat -> C) (n : nat).
  Hypothesis w_nonneg : forall k, (k < n)%nat -> 0 <= w k.

  Definition gram_xy : C := csumn (fun k => cscale (w k) (cmul (a k) (cconj (b k)))) n.
  Definition gram_xx : Q := sumn (fun k => w k * cnorm2 (a k)) n.
  Definition gram_yy : Q := sumn (fun k => w k * cnorm2 (b k)) n.

  Lemma gram_xx_nonneg : 0 <= gram_xx.
  Proof. apply sumn_nonneg; intros k Hk. apply Qmul_nonneg; [auto|apply cnorm2_nonneg]. Qed.
  Lemma gram_yy_nonneg : 0 <= gram_yy.
  Proof. apply sumn_nonneg; intros k Hk. apply Qmul_nonneg; [auto|apply cnorm2_nonneg]. Qed.

  Theorem complex_cauchy_schwarz : cnorm2 gram_xy <= gram_xx * gram_yy.
  Proof.
    set (P := re gram_xy). set (R := im gram_xy).
    assert (EP : P == sumn (fun k => w k * (re (a k) * re (b k) + im (a k) * im (b k))) n).
    { unfold P, gram_xy. rewrite re_csumn. apply sumn_ext; intros k _.
      unfold cscale, cmul, cconj, re, im; simpl. ring. }
    assert (ER : R == sumn (fun k => w k * (im (a k) * re (b k) - re (a k) * im (b k))) n).
    { unfold R, gram_xy. rewrite im_csumn. apply sumn_ext; intros k _.
      unfold cscale, cmul, cconj, re, im; simpl. ring. }
    set (T := P * P + R * R).
    assert (HT : cnorm2 gram_xy == T) by reflexivity.
    (* rotate b by S = (P,R): b' = S * b *)
    set (b1 := fun k => P * re (b k) - R * im (b k)).
    set (b2 := fun k => P * im (b k) + R * re (b k)).
    pose proof (cs2 w (fun k => re (a k)) (fun k => im (a k)) b1 b2 n w_nonneg) as CS.
    cbv beta in CS.
    assert (E1 : sumn (fun k => w k * (re (a k) * b1 k + im (a k) * b2 k)) n == T).
    { unfold T. rewrite EP at 2. rewrite ER at 2.
      rewrite <- !sumn_scal, <- sumn_plus. apply sumn_ext; intros k _. unfold b1, b2. ring. }
    assert (E2 : sumn (fun k => w k * (b1 k * b1 k + b2 k * b2 k)) n == T * gram_yy).
    { unfold gram_yy. rewrite <- sumn_scal. apply sumn_ext; intros k _.
      unfold b1, b2, T, cnorm2. ring. }
    assert (E3 : sumn (fun k => w k * (re (a k) * re (a k) + im (a k) * im (a k))) n == gram_xx)
      by reflexivity.
    rewrite E1, E2, E3 in CS.
    rewrite HT.
    assert (HT0 : 0 <= T) by (unfold T; pose proof (Qsq_nonneg P); pose proof (Qsq_nonneg R); lra).
    destruct (Qeq_dec T 0) as [Z|NZ].
    - rewrite Z. apply Qmul_nonneg; [apply gram_xx_nonneg|apply gram_yy_nonneg].
    - assert (Tp : 0 < T) by lra.
      apply (Qmult_le_r _ _ T Tp).
      setoid_replace (gram_xx * gram_yy * T) with (gram_xx * (T * gram_yy)) by ring. exact CS.
  Qed.
End CCS.

(* unweighted corollary *)
Corollary complex_cauchy_schwarz_1 (a b : nat -> C) n :
  cnorm2 (csumn (fun k => cmul (a k) (cconj (b k))) n)
  <= sumn (fun k => cnorm2 (a k)) n * sumn (fun k => cnorm2 (b k)) n.
Proof.
  assert (W : forall k, (k < n)%nat -> 0 <= (fun _ : nat => 1) k) by (intros; cbv beta; lra).
  pose proof (complex_cauchy_schwarz (fun _ => 1) a b n W) as H.
  unfold gram_xy, gram_xx, gram_yy in H.
  assert (E1 : csumn (fun k => cscale 1 (cmul (a k) (cconj (b k)))) n
               =c= csumn (fun k => cmul (a k) (cconj (b k))) n)
    by (apply csumn_ext; intros; cring).
  assert (E2 : forall f, sumn (fun k => 1 * cnorm2 (f k)) n == sumn (fun k => cnorm2 (f k)) n)
    by (intros; apply sumn_ext; intros; ring).
  rewrite E1, !E2 in H. exact H.
Qed.
