(* Proofs/EventRelatedAvg.v — event-triggered average / standard error on identical segments; the
   segments cut out of a noise-free linear system with separated events (C19). *)
From Coq Require Import ZArith QArith List Bool Arith Lia Setoid Morphisms Psatz.
From NT Require Import EventRelated EventRelatedBase.
Import ListNotations.
Open Scope Z_scope.

Lemma qlen_pos {A} (l : list A) : l <> [] -> (0 < qlen l)%Q.
Proof.
  intros H. unfold qlen, zlen. destruct l; [congruence|]. simpl length.
  unfold Qlt. simpl. lia.
Qed.

Lemma qsum_const (l : list Q) x : (forall a, In a l -> (a == x)%Q) -> (qsum l == qlen l * x)%Q.
Proof.
  induction l as [|a l IH]; intros H.
  - unfold qlen, zlen. simpl. ring.
  - assert (Ha : (a == x)%Q) by (apply H; left; reflexivity).
    assert (Hl : (qsum l == qlen l * x)%Q) by (apply IH; intros; apply H; right; assumption).
    rewrite qsum_cons, Hl.
    unfold qlen, zlen. cbn [length]. rewrite Nat2Z.inj_succ. unfold Z.succ. rewrite inject_Z_plus, Ha. ring.
Qed.

Lemma mean_const (l : list Q) x : l <> [] -> (forall a, In a l -> (a == x)%Q) -> (mean l == x)%Q.
Proof.
  intros Hne H. unfold mean. rewrite (qsum_const l x H). field.
  pose proof (qlen_pos l Hne). intros E. rewrite E in H0. inversion H0.
Qed.

Lemma sem2_const (l : list Q) x : (2 <= length l)%nat -> (forall a, In a l -> (a == x)%Q) ->
  exists v, sem2 l = Some v /\ (v == 0)%Q.
Proof.
  intros Hlen H. unfold sem2. destruct (length l <? 2)%nat eqn:E; [apply Nat.ltb_lt in E; lia|].
  eexists. split; [reflexivity|].
  assert (Hne : l <> []) by (destruct l; [simpl in Hlen; lia|congruence]).
  rewrite (qsumf_zero (fun x0 => (x0 - mean l) * (x0 - mean l))%Q).
  - unfold Qdiv. ring.
  - intros a Ha. rewrite (H a Ha), (mean_const l x Hne H). ring.
Qed.

Lemma col_In segs k a : In a (col segs k) -> exists s, In s segs /\ a = getQ s k.
Proof. unfold col. intros H. apply in_map_iff in H as [s [<- Hs]]. exists s. auto. Qed.

(* the average over identical segments is the segment; the standard error is 0 *)
Theorem eta_of_identical segs len (r : Z -> Q) :
  segs <> [] ->
  (forall s k, In s segs -> 0 <= k < Z.of_nat len -> (getQ s k == r k)%Q) ->
  length (eta_of segs len) = len /\
  forall k, 0 <= k < Z.of_nat len -> (getQ (eta_of segs len) k == r k)%Q.
Proof.
  intros Hne H. unfold eta_of. split; [rewrite map_length; apply zrange_length|].
  intros k Hk. rewrite getQ_map_zrange by exact Hk.
  apply mean_const.
  - unfold col. destruct segs; [congruence|simpl; congruence].
  - intros a Ha. apply col_In in Ha as [s [Hs ->]]. apply H; assumption.
Qed.

Theorem ets_of_identical segs len (r : Z -> Q) :
  (2 <= length segs)%nat ->
  (forall s k, In s segs -> 0 <= k < Z.of_nat len -> (getQ s k == r k)%Q) ->
  length (ets_of segs len) = len /\
  forall k, 0 <= k < Z.of_nat len ->
    exists v, nth (Z.to_nat k) (ets_of segs len) None = Some v /\ (v == 0)%Q.
Proof.
  intros Hlen H. unfold ets_of. split; [rewrite map_length; apply zrange_length|].
  intros k Hk.
  rewrite (nth_indep _ None (sem2 (col segs 0))) by (rewrite map_length, zrange_length; lia).
  rewrite (map_nth (fun k => sem2 (col segs k))), nth_zrange by lia.
  apply (sem2_const _ (r k)).
  - unfold col. rewrite map_length. exact Hlen.
  - intros a Ha. apply col_In in Ha as [s [Hs ->]]. apply H; assumption.
Qed.

(* a single occurrence: scipy's sem is nan, the model's None *)
Lemma ets_of_single s len k : 0 <= k < Z.of_nat len ->
  nth (Z.to_nat k) (ets_of [s] len) None = None.
Proof.
  intros Hk. unfold ets_of.
  rewrite (nth_indep _ None (sem2 (col [s] 0))) by (rewrite map_length, zrange_length; lia).
  rewrite (map_nth (fun k => sem2 (col [s] k))), nth_zrange by lia. reflexivity.
Qed.

(* baseline correction of a segment *)
Lemma baseline_get s k : 0 <= k < zlen s -> (getQ (baseline s) k == getQ s k - getQ s 0)%Q.
Proof.
  intros Hk. destruct s as [|x0 s]; [unfold zlen in Hk; simpl in Hk; lia|].
  unfold baseline. rewrite (getQ_map _ _ 0%Q) by exact Hk.
  unfold getQ. destruct (k <? 0) eqn:E; [lia|]. simpl (0 <? 0). cbn [Z.to_nat nth]. reflexivity.
Qed.

Lemma baseline_length s : length (baseline s) = length s.
Proof. destruct s; [reflexivity|]. unfold baseline. apply map_length. Qed.

(* ---------- rsequence ---------- *)
Lemma rsequence_ok {A} (l : list (res A)) (l' : list A) :
  Forall2 (fun r a => r = Ok a) l l' -> rsequence l = Ok l'.
Proof. induction 1 as [|r a l l' Hr _ IH]; [reflexivity|]. subst r. simpl. rewrite IH. reflexivity. Qed.

Lemma rsequence_map_ok {A B} (f : A -> res B) (g : A -> B) l :
  (forall a, In a l -> f a = Ok (g a)) -> rsequence (map f l) = Ok (map g l).
Proof.
  induction l as [|a l IH]; intros H; [reflexivity|].
  simpl. rewrite (H a) by (left; reflexivity). rewrite IH; [reflexivity|].
  intros b Hb; apply H; right; exact Hb.
Qed.

(* ---------- segments of a noise-free system ---------- *)
Definition seg_fun (y : list Q) (len : nat) (start : Z) : list Q :=
  map (fun k => getQ y (start + k)) (zrange len).

Lemma seg_at_inside y len start :
  0 <= start -> start + Z.of_nat len <= zlen y -> seg_at y len start = Ok (seg_fun y len start).
Proof.
  intros H0 H1. unfold seg_at, seg_fun, zlen in *.
  replace (forallb (fun k => in_range (length y) (start + k)) (zrange len)) with true.
  - f_equal. apply map_ext_in. intros k Hk. apply zrange_In in Hk. unfold wrap.
    destruct (start + k <? 0) eqn:E; [lia|reflexivity].
  - symmetry. apply forallb_forall. intros k Hk. apply zrange_In in Hk. unfold in_range.
    apply andb_true_intro. split; [apply Z.leb_le|apply Z.ltb_lt]; lia.
Qed.

Lemma segments_inside y idxs offset len :
  (forall a, In a idxs -> 0 <= a + offset /\ a + offset + Z.of_nat len <= zlen y) ->
  segments y idxs offset len = Ok (map (fun a => seg_fun y len (a + offset)) idxs).
Proof.
  intros H. unfold segments. apply rsequence_map_ok. intros a Ha.
  destruct (H a Ha). apply seg_at_inside; assumption.
Qed.

(* separated: no other occurrence (of any code) within len samples *)
Definition separated (ev : list Z) (len : nat) : Prop :=
  forall i j, 0 <= i < zlen ev -> 0 <= j < zlen ev -> getZ ev i <> 0 -> getZ ev j <> 0 -> i <> j ->
    Z.of_nat len <= Z.abs (i - j).

(* in the window of an occurrence of a separated design the signal is exactly its response *)
Lemma synth_window resp ev len offset a k :
  separated ev len -> 0 <= a < zlen ev -> getZ ev a <> 0 -> 0 <= k < Z.of_nat len ->
  (synth_at resp ev len offset (a + offset + k) == resp (getZ ev a) k)%Q.
Proof.
  intros Hsep Ha Hne Hk. unfold synth_at.
  rewrite (qsumf_single _ _ a).
  - unfold placed. replace (getZ ev a =? 0) with false by (symmetry; apply Z.eqb_neq; exact Hne).
    replace (a + offset <=? a + offset + k) with true by (symmetry; apply Z.leb_le; lia).
    replace (a + offset + k <? a + offset + Z.of_nat len) with true by (symmetry; apply Z.ltb_lt; lia).
    simpl. replace (a + offset + k - a - offset) with k by lia. reflexivity.
  - apply zrange_NoDup.
  - apply zrange_In. unfold zlen in Ha. exact Ha.
  - intros i Hi Hia. apply zrange_In in Hi. unfold placed.
    destruct (getZ ev i =? 0) eqn:E; [reflexivity|]. apply Z.eqb_neq in E. cbn [negb andb].
    pose proof (Hsep i a ltac:(unfold zlen; lia) Ha E Hne Hia) as S.
    destruct ((i + offset <=? a + offset + k) && (a + offset + k <? i + offset + Z.of_nat len)) eqn:E2;
      [|reflexivity].
    apply andb_prop in E2 as [E3 E4]. apply Z.leb_le in E3. apply Z.ltb_lt in E4. lia.
Qed.
