(* Proofs/AliasP.v — proofs about the store-and-alias calculus of Model/Alias.v (property C16).
   The frame relation `ext W s s'` (s' agrees with s on every location of s outside W) is shown
   for every primitive command from the semantics of alloc / write / read, composed along the
   monadic programs of the anchored methods, for ALL stores, values and operand kinds and
   without looking at whether the program ends normally or by an exception (the store returned
   by an exceptional exit is the store at the raise). *)
From Coq Require Import ZArith List Bool Arith Lia.
From NT Require Import Alias.
Import ListNotations.

(* ------------------------------------------------------------------ the frame relation *)
Lemma ext_refl W s : ext W s s.
Proof. split; auto. Qed.

Lemma ext_weaken W W' s s' : ext W s s' -> (forall l, In l W -> l < next s -> In l W') -> ext W' s s'.
Proof.
  intros [H1 H2] Hi. split; [exact H1|]. intros l Hl Hn. apply H2; [exact Hl|].
  intro Hin. apply Hn. apply Hi; assumption.
Qed.

(* the step rule: a later command may write to anything that did not exist in s0 *)
Lemma ext_step F W s0 s s' :
  ext F s0 s -> ext W s s' -> (forall l, In l W -> l < next s0 -> In l F) -> ext F s0 s'.
Proof.
  intros [A1 A2] [B1 B2] Hi. split; [lia|].
  intros l Hl Hn. rewrite B2; [apply A2; auto|lia|]. intro Hin. apply Hn. auto.
Qed.

Lemma ext_trans W s1 s2 s3 : ext W s1 s2 -> ext W s2 s3 -> ext W s1 s3.
Proof. intros A B. eapply ext_step; eauto. Qed.

Lemma upd_other m l c l' : l' <> l -> upd m l c l' = m l'.
Proof. intros H. unfold upd. destruct (Nat.eqb_spec l' l); congruence. Qed.
Lemma upd_same m l c : upd m l c l = Some c.
Proof. unfold upd. rewrite Nat.eqb_refl. reflexivity. Qed.

(* ------------------------------------------------------------------ the store operations *)
Lemma alloc_ext c s : ext [] s (fst (alloc c s)).
Proof. split; simpl; [lia|]. intros l Hl _. apply upd_other. lia. Qed.
Lemma write_ext l c s : ext [l] s (fst (write l c s)).
Proof. split; simpl; [lia|]. intros l' _ Hn. apply upd_other. intro; subst; apply Hn; left; auto. Qed.
Lemma read_ext l s : ext [] s (fst (read l s)).
Proof. unfold read. destruct (mem s l); apply ext_refl. Qed.

Lemma alloc_spec c s : alloc c s = (mkstore (S (next s)) (upd (mem s) (next s) c), Ok (next s)).
Proof. reflexivity. Qed.

(* ------------------------------------------------------------------ programs that only allocate *)
Definition pure {A} (m : M A) : Prop := forall s, ext [] s (fst (m s)).

Lemma pure_ret A (a : A) : pure (ret a).
Proof. intro s. apply ext_refl. Qed.
Lemma pure_raise A e : pure (@raise A e).
Proof. intro s. apply ext_refl. Qed.
Lemma pure_alloc c : pure (alloc c).
Proof. intro s. apply alloc_ext. Qed.
Lemma pure_read l : pure (read l).
Proof. intro s. apply read_ext. Qed.
Lemma pure_bind A B (m : M A) (f : A -> M B) : pure m -> (forall a, pure (f a)) -> pure (bind m f).
Proof.
  intros Hm Hf s. unfold bind. specialize (Hm s).
  destruct (m s) as [s1 [a|e]]; simpl in *; auto.
  eapply ext_trans; [exact Hm|apply Hf].
Qed.

Create HintDb pure.
#[export] Hint Resolve pure_ret pure_raise pure_alloc pure_read : pure.

Ltac pure_tac :=
  repeat (first
    [ apply pure_ret | apply pure_raise | apply pure_alloc | apply pure_read
    | solve [auto with pure]
    | apply pure_bind; [|intros]
    | match goal with |- pure (match ?x with _ => _ end) => destruct x end ]).

Lemma arr_info_pure l : pure (arr_info l).
Proof. unfold arr_info. pure_tac. Qed.
#[export] Hint Resolve arr_info_pure : pure.
Lemma new_arr_pure dt d sh k : pure (new_arr dt d sh k).
Proof. unfold new_arr. pure_tac. Qed.
#[export] Hint Resolve new_arr_pure : pure.
Lemma has_cf_pure v : pure (has_cf v).
Proof. unfold has_cf. pure_tac. Qed.
#[export] Hint Resolve has_cf_pure : pure.
Lemma asarray_pure v : pure (asarray v).
Proof. unfold asarray. pure_tac. Qed.
#[export] Hint Resolve asarray_pure : pure.
Lemma astype_pure l dt : pure (astype l dt).
Proof. unfold astype. pure_tac. Qed.
Lemma mul_fresh_pure l k : pure (mul_fresh l k).
Proof. unfold mul_fresh. pure_tac. Qed.
Lemma round_fresh_pure l : pure (round_fresh l).
Proof. unfold round_fresh. pure_tac. Qed.
#[export] Hint Resolve astype_pure mul_fresh_pure round_fresh_pure : pure.
Lemma binop_fresh_pure f a b dt k : pure (binop_fresh f a b dt k).
Proof. unfold binop_fresh. pure_tac. Qed.
#[export] Hint Resolve binop_fresh_pure : pure.
Lemma convert_if_needed_pure cf v : pure (convert_if_needed cf v).
Proof. unfold convert_if_needed. pure_tac. Qed.
#[export] Hint Resolve convert_if_needed_pure : pure.
Lemma ta_binop_pure f cmp self v : pure (ta_binop f cmp self v).
Proof. unfold ta_binop. pure_tac. Qed.
Lemma scalar_of_pure l : pure (scalar_of l).
Proof. unfold scalar_of. pure_tac. Qed.
#[export] Hint Resolve scalar_of_pure : pure.
Lemma ut_convert_pure cf v : pure (ut_convert cf v).
Proof. unfold ut_convert. pure_tac. Qed.
Lemma ut_check_pure si sign w : pure (ut_check si sign w).
Proof. unfold ut_check. pure_tac. Qed.
#[export] Hint Resolve ut_convert_pure ut_check_pure : pure.
Lemma ut_convert_check_pure self sign v : pure (ut_convert_check self sign v).
Proof. unfold ut_convert_check. pure_tac. Qed.
Lemma copy_arr_pure l : pure (copy_arr l).
Proof. unfold copy_arr. pure_tac. Qed.
#[export] Hint Resolve ut_convert_check_pure scalar_of_pure copy_arr_pure : pure.
Lemma ts_copy_pure self : pure (ts_copy self).
Proof. unfold ts_copy. pure_tac. Qed.
Lemma asanyarray_T_pure v : pure (asanyarray_T v).
Proof. unfold asanyarray_T. pure_tac. Qed.
Lemma reshape_view_pure a sh : pure (reshape_view a sh).
Proof. unfold reshape_view. pure_tac. Qed.
Lemma fft_lib_pure a N : pure (fft_lib a N).
Proof. unfold fft_lib. pure_tac. Qed.
#[export] Hint Resolve ts_copy_pure asanyarray_T_pure reshape_view_pure fft_lib_pure : pure.
Lemma csd_pure s Sk N : pure (csd s Sk N).
Proof. unfold csd. pure_tac. Qed.
Lemma ut_copy_old_pure self : pure (ut_copy_old self).
Proof. unfold ut_copy_old. pure_tac. Qed.

(* ------------------------------------------------------------------ commands that write in place *)
(* the buffer of the array object at l *)
Definition buf_list (s : store) (l : loc) : list loc :=
  match mem s l with Some (CArr b _ _) => [b] | _ => [] end.

Ltac crush_ext :=
  cbv beta delta [bind read ret raise];
  repeat (cbn [fst snd]; match goal with
   | |- ext _ ?s ?s => apply ext_refl
   | |- ext _ _ (fst (write _ _ _)) => apply write_ext
   | |- context [match mem ?s ?l with _ => _ end] => destruct (mem s l) as [[]|] eqn:?
   | |- context [match ?x with _ => _ end] => destruct x eqn:?
   | |- context [if ?x then _ else _] => destruct x eqn:?
   end).

Lemma iop_inplace_ext f self w s : ext (buf_list s self) s (fst (iop_inplace f self w s)).
Proof. unfold iop_inplace, arr_info, buf_list. crush_ext. Qed.

Lemma setitem_range_ext self a n w s : ext (buf_list s self) s (fst (setitem_range self a n w s)).
Proof. unfold setitem_range, arr_info, buf_list. crush_ext. Qed.

Lemma assign_rows_ext a s : ext (buf_list s a) s (fst (assign_rows a s)).
Proof. unfold assign_rows, arr_info, buf_list. crush_ext. Qed.

Lemma set_shape_ext a sh s : ext [a] s (fst (set_shape a sh s)).
Proof. unfold set_shape. crush_ext. Qed.

(* ------------------------------------------------------------------ programs that write only to W *)
Definition wr {A} (W : list loc) (m : M A) : Prop := forall s, ext W s (fst (m s)).

Lemma pure_wr A W (m : M A) : pure m -> wr W m.
Proof. intros H s. eapply ext_weaken; [apply H|]. intros l []. Qed.
Lemma wr_write W l c : In l W -> wr W (write l c).
Proof. intros H s. eapply ext_weaken; [apply write_ext|]. intros l' [<-|[]] _. exact H. Qed.
Lemma wr_bind A B W (m : M A) (f : A -> M B) : wr W m -> (forall a, wr W (f a)) -> wr W (bind m f).
Proof.
  intros Hm Hf s. unfold bind. specialize (Hm s).
  destruct (m s) as [s1 [a|e]]; simpl in *; auto.
  eapply ext_trans; [exact Hm|apply Hf].
Qed.

Ltac wr_tac :=
  repeat (first
    [ solve [apply pure_wr; auto with pure]
    | apply wr_write; simpl; tauto
    | apply wr_bind; [|intros]
    | match goal with |- wr _ (match ?x with _ => _ end) => destruct x end ]).

Lemma follow_shift_wr self w sign : wr [self] (follow_shift self w sign).
Proof. unfold follow_shift. wr_tac. Qed.
Lemma rebind_scaled_wr self k : wr [self] (rebind_scaled self k).
Proof. unfold rebind_scaled. wr_tac. Qed.
Lemma ut_copy_attrs_wr out : wr [out] (ut_copy_attrs out).
Proof. unfold ut_copy_attrs. wr_tac. Qed.
Lemma ts_apply_wr f out v : wr [out] (ts_apply f out v).
Proof. unfold ts_apply. wr_tac. Qed.

(* ------------------------------------------------------------------ stepping through a bind *)
(* s0 is the store at the call; Fi is what has been written so far among the locations of s0 *)
Lemma bind_ext A B (m : M A) (f : A -> M B) Fi Fj F W1 s0 s :
  ext Fi s0 s ->
  ext W1 s (fst (m s)) ->
  (forall l, In l Fi -> In l Fj) -> (forall l, In l W1 -> l < next s0 -> In l Fj) ->
  (forall l, In l Fj -> In l F) ->
  (forall a s1, m s = (s1, Ok a) -> ext Fj s0 s1 -> ext F s0 (fst (f a s1))) ->
  ext F s0 (fst (bind m f s)).
Proof.
  intros Hi Hm H1 H2 H3 Hk. unfold bind.
  assert (Hj : ext Fj s0 (fst (m s))).
  { eapply ext_step; [eapply ext_weaken; [exact Hi|auto]|exact Hm|auto]. }
  destruct (m s) as [s1 [a|e]] eqn:E; simpl in *.
  - apply Hk; auto.
  - eapply ext_weaken; [exact Hj|auto].
Qed.

Lemma read_inv l s s1 c : read l s = (s1, Ok c) -> s1 = s /\ mem s l = Some c.
Proof. unfold read. destruct (mem s l); inversion 1; auto. Qed.

Lemma alloc_inv c s s1 l : alloc c s = (s1, Ok l) ->
  l = next s /\ next s1 = S (next s) /\ mem s1 l = Some c.
Proof. unfold alloc. inversion 1; subst; simpl. rewrite upd_same. auto. Qed.

(* the result of a command that returns a fresh array *)
Lemma new_arr_inv dt d sh k s s1 a : new_arr dt d sh k s = (s1, Ok a) ->
  next s <= a /\ mem s1 a = Some (CArr (next s) sh k) /\ mem s1 (next s) = Some (CBuf dt d).
Proof.
  unfold new_arr, bind, alloc. simpl. inversion 1; subst; simpl.
  rewrite upd_same. rewrite upd_other by lia. rewrite upd_same. repeat split; auto.
Qed.

Lemma arr_info_inv l s s1 i : arr_info l s = (s1, Ok i) -> s1 = s.
Proof.
  unfold arr_info. cbv beta delta [bind read ret raise].
  destruct (mem s l) as [[]|]; try (inversion 1; fail).
  destruct (mem s buf) as [[]|]; inversion 1; auto.
Qed.

Lemma copy_arr_inv l s s1 a : copy_arr l s = (s1, Ok a) ->
  next s <= a /\ exists sh k, mem s1 a = Some (CArr (next s) sh k).
Proof.
  unfold copy_arr, bind. destruct (arr_info l s) as [s' [i|e]] eqn:E; [|inversion 1].
  apply arr_info_inv in E. subst s'. intros H. apply new_arr_inv in H as (H1 & H2 & _). eauto.
Qed.

Lemma astype_inv l dt s s1 a : astype l dt s = (s1, Ok a) ->
  next s <= a /\ exists sh k, mem s1 a = Some (CArr (next s) sh k).
Proof.
  unfold astype, bind. destruct (arr_info l s) as [s' [i|e]] eqn:E; [|inversion 1].
  apply arr_info_inv in E. subst s'. intros H. apply new_arr_inv in H as (H1 & H2 & _). eauto.
Qed.

Lemma ts_copy_inv self s s1 a : ts_copy self s = (s1, Ok a) -> next s <= a.
Proof.
  intros H. pose proof (ts_copy_pure self s) as [Hn _]. rewrite H in Hn. simpl in Hn.
  revert H. unfold ts_copy. cbv beta delta [bind read].
  destruct (mem s self) as [[]|]; try (inversion 1; fail).
  destruct (copy_arr data s) as [s2 [d'|]] eqn:E1; [|inversion 1].
  destruct (copy_arr t0 s2) as [s3 [t0'|]] eqn:E2; [|inversion 1].
  destruct (copy_arr si s3) as [s4 [si'|]] eqn:E3; [|inversion 1].
  destruct (copy_arr dur s4) as [s5 [dur'|]] eqn:E4; [|inversion 1].
  intros H. apply alloc_inv in H as (-> & _ & _).
  pose proof (copy_arr_pure data s) as [A _]. rewrite E1 in A.
  pose proof (copy_arr_pure t0 s2) as [B _]. rewrite E2 in B.
  pose proof (copy_arr_pure si s3) as [C _]. rewrite E3 in C.
  pose proof (copy_arr_pure dur s4) as [D _]. rewrite E4 in D. simpl in *. lia.
Qed.

Lemma nil_in_any (F : list loc) : forall l : loc, In l [] -> In l F.
Proof. intros l []. Qed.
Lemma nil_lt_in (F : list loc) n : forall l : loc, In l [] -> l < n -> In l F.
Proof. intros l []. Qed.
Lemma in_refl (F : list loc) : forall l : loc, In l F -> In l F.
Proof. auto. Qed.

(* ------------------------------------------------------------------ TimeArray.__setitem__ *)
Lemma ta_setitem_frame self a n v s b sh k :
  mem s self = Some (CArr b sh k) -> self < next s ->
  ext [b] s (fst (ta_setitem self a n v s)).
Proof.
  intros Hm Hlt. unfold ta_setitem.
  eapply bind_ext with (Fi := []) (Fj := []) (W1 := []);
    [apply ext_refl|apply read_ext|apply in_refl|apply nil_lt_in|apply nil_in_any|].
  intros c s1 Hr _. apply read_inv in Hr as [-> Hc]. rewrite Hm in Hc. inversion Hc; subst c.
  eapply bind_ext with (Fi := []) (Fj := []) (W1 := []);
    [apply ext_refl|apply convert_if_needed_pure|apply in_refl|apply nil_lt_in|apply nil_in_any|].
  intros w s1 _ He.
  eapply ext_step; [eapply ext_weaken; [exact He|apply nil_lt_in]|apply setitem_range_ext|].
  unfold buf_list. destruct He as [_ He]. rewrite (He self Hlt) by (intros []). rewrite Hm.
  intros l Hl _. exact Hl.
Qed.

(* a failing assignment writes nothing *)
Lemma setitem_range_exn self a n w s e :
  snd (setitem_range self a n w s) = Exn e -> fst (setitem_range self a n w s) = s.
Proof.
  unfold setitem_range, arr_info. cbv beta delta [bind read ret raise write].
  repeat (cbn [fst snd]; match goal with
   | |- context [match mem ?s ?l with _ => _ end] => destruct (mem s l) as [[]|]
   | |- context [match ?x with _ => _ end] => destruct x
   | |- context [if ?x then _ else _] => destruct x
   end); cbn [fst snd]; auto; discriminate.
Qed.

Lemma ta_setitem_atomic self a n v s e :
  snd (ta_setitem self a n v s) = Exn e -> ext [] s (fst (ta_setitem self a n v s)).
Proof.
  unfold ta_setitem. cbv beta delta [bind read].
  destruct (mem s self) as [[]|]; cbn [fst snd]; try (intros; apply ext_refl).
  pose proof (convert_if_needed_pure (kind_cf k) v s) as Hp.
  destruct (convert_if_needed (kind_cf k) v s) as [s1 [w|e']]; cbn [fst snd] in *; auto.
  intros H. rewrite (setitem_range_exn _ _ _ _ _ _ H). exact Hp.
Qed.

(* ------------------------------------------------------------------ UniformTime += -= *= *)
Lemma ut_iop_frame sign self v s b sh k :
  mem s self = Some (CArr b sh k) -> self < next s ->
  ext [self; b] s (fst (ut_iop sign self v s)).
Proof.
  intros Hm Hlt. unfold ut_iop.
  eapply bind_ext with (Fi := []) (Fj := []) (W1 := []);
    [apply ext_refl|apply read_ext|apply in_refl|apply nil_lt_in|apply nil_in_any|].
  intros c s1 Hr _. apply read_inv in Hr as [-> Hc]. rewrite Hm in Hc. inversion Hc; subst c.
  eapply bind_ext with (Fi := []) (Fj := []) (W1 := []);
    [apply ext_refl|apply ut_convert_check_pure|apply in_refl|apply nil_lt_in|apply nil_in_any|].
  intros w s1 _ He.
  eapply bind_ext with (Fi := []) (Fj := [b]) (W1 := buf_list s1 self);
    [exact He|apply iop_inplace_ext|apply nil_in_any| |simpl; tauto|].
  { unfold buf_list. destruct He as [_ He]. rewrite (He self Hlt) by (intros []). rewrite Hm. auto. }
  intros _ s2 _ He2.
  eapply ext_step; [eapply ext_weaken; [exact He2|simpl; tauto]|apply follow_shift_wr|simpl; tauto].
Qed.

Lemma ut_imul_frame self v s b sh k :
  mem s self = Some (CArr b sh k) -> self < next s ->
  ext [self; b] s (fst (ut_imul self v s)).
Proof.
  intros Hm Hlt. unfold ut_imul. destruct v as [z|z|l].
  - destruct (z <=? 0)%Z; [apply ext_refl|].
    eapply bind_ext with (Fi := []) (Fj := []) (W1 := []);
      [apply ext_refl|apply new_arr_pure|apply in_refl|apply nil_lt_in|apply nil_in_any|].
    intros kk s1 _ He.
    eapply bind_ext with (Fi := []) (Fj := [b]) (W1 := buf_list s1 self);
      [exact He|apply iop_inplace_ext|apply nil_in_any| |simpl; tauto|].
    { unfold buf_list. destruct He as [_ He]. rewrite (He self Hlt) by (intros []). rewrite Hm. auto. }
    intros _ s2 _ He2.
    eapply ext_step; [eapply ext_weaken; [exact He2|simpl; tauto]|apply rebind_scaled_wr|simpl; tauto].
  - destruct (z <=? 0)%Z; [apply ext_refl|].
    eapply bind_ext with (Fi := []) (Fj := []) (W1 := []);
      [apply ext_refl|apply new_arr_pure|apply in_refl|apply nil_lt_in|apply nil_in_any|].
    intros kk s1 _ He.
    eapply ext_step; [eapply ext_weaken; [exact He|apply nil_lt_in]|apply iop_inplace_ext|].
    unfold buf_list. destruct He as [_ He]. rewrite (He self Hlt) by (intros []). rewrite Hm.
    simpl; tauto.
  - apply ext_refl.
Qed.

(* ------------------------------------------------------------------ copies *)
Lemma ut_copy_pure self : pure (ut_copy self).
Proof.
  intro s. unfold ut_copy.
  eapply bind_ext with (Fi := []) (Fj := []) (W1 := []);
    [apply ext_refl|apply copy_arr_pure|apply in_refl|apply nil_lt_in|apply in_refl|].
  intros out s1 Hc He. apply copy_arr_inv in Hc as [Hf _].
  eapply ext_step; [exact He|apply ut_copy_attrs_wr|].
  intros l [<-|[]] Hl. lia.
Qed.

Lemma ts_binop_pure f self v : pure (ts_binop f self v).
Proof.
  intro s. unfold ts_binop.
  eapply bind_ext with (Fi := []) (Fj := []) (W1 := []);
    [apply ext_refl|apply ts_copy_pure|apply in_refl|apply nil_lt_in|apply in_refl|].
  intros out s1 Hc He. apply ts_copy_inv in Hc.
  eapply ext_step; [exact He|apply ts_apply_wr|].
  intros l [<-|[]] Hl. lia.
Qed.

(* ------------------------------------------------------------------ TimeSeries += -= *= *)
Lemma ts_iop_frame f self v s d t0 si dur b sh k :
  mem s self = Some (CSeries d t0 si dur) -> mem s d = Some (CArr b sh k) -> d < next s ->
  ext [b] s (fst (ts_iop f self v s)).
Proof.
  intros Hm Hd Hlt. unfold ts_iop.
  eapply bind_ext with (Fi := []) (Fj := []) (W1 := []);
    [apply ext_refl|apply read_ext|apply in_refl|apply nil_lt_in|apply nil_in_any|].
  intros c s1 Hr _. apply read_inv in Hr as [-> Hc]. rewrite Hm in Hc. inversion Hc; subst c.
  eapply bind_ext with (Fi := []) (Fj := []) (W1 := []);
    [apply ext_refl|apply asanyarray_T_pure|apply in_refl|apply nil_lt_in|apply nil_in_any|].
  intros o s1 _ He.
  eapply ext_step; [eapply ext_weaken; [exact He|apply nil_lt_in]|apply iop_inplace_ext|].
  unfold buf_list. destruct He as [_ He]. rewrite (He d Hlt) by (intros []). rewrite Hd.
  intros l Hl _. exact Hl.
Qed.

Lemma iop_inplace_exn f self w s e :
  snd (iop_inplace f self w s) = Exn e -> fst (iop_inplace f self w s) = s.
Proof.
  unfold iop_inplace, arr_info. cbv beta delta [bind read ret raise write].
  repeat (cbn [fst snd]; match goal with
   | |- context [match mem ?s ?l with _ => _ end] => destruct (mem s l) as [[]|]
   | |- context [match ?x with _ => _ end] => destruct x
   | |- context [if ?x then _ else _] => destruct x
   end); cbn [fst snd]; auto; discriminate.
Qed.

Lemma ts_iop_atomic f self v s e :
  snd (ts_iop f self v s) = Exn e -> ext [] s (fst (ts_iop f self v s)).
Proof.
  unfold ts_iop. cbv beta delta [bind read].
  destruct (mem s self) as [[]|]; cbn [fst snd]; try (intros; apply ext_refl).
  pose proof (asanyarray_T_pure v s) as Hp.
  destruct (asanyarray_T v s) as [s1 [w|e']]; cbn [fst snd] in *; auto.
  intros H. rewrite (iop_inplace_exn _ _ _ _ _ H). exact Hp.
Qed.

(* ------------------------------------------------------------------ boxcar filtering *)
Lemma fresh_rows_ext w s0 s1 :
  (exists sh k, mem s1 w = Some (CArr (next s0) sh k)) -> ext [] s0 s1 ->
  ext [] s0 (fst (assign_rows w s1)).
Proof.
  intros (sh & k & Hw) He.
  eapply ext_step; [exact He|apply assign_rows_ext|].
  unfold buf_list. rewrite Hw. intros l [<-|[]] Hl. lia.
Qed.

Lemma boxcar_pure a : pure (boxcar a).
Proof.
  intro s. unfold boxcar.
  eapply bind_ext with (Fi := []) (Fj := []) (W1 := []);
    [apply ext_refl|apply arr_info_pure|apply in_refl|apply nil_lt_in|apply in_refl|].
  intros i s1 Hi _. apply arr_info_inv in Hi. subst s1.
  destruct (a_shape i) as [|n [|n2 [|n3 r]]].
  - eapply bind_ext with (Fi := []) (Fj := []) (W1 := []);
      [apply ext_refl|apply astype_pure|apply in_refl|apply nil_lt_in|apply in_refl|].
    intros; assumption.
  - eapply bind_ext with (Fi := []) (Fj := []) (W1 := []);
      [apply ext_refl|apply new_arr_pure|apply in_refl|apply nil_lt_in|apply in_refl|].
    intros w s1 Hw He. apply new_arr_inv in Hw as (_ & Hw & _).
    unfold bind at 1.
    pose proof (fresh_rows_ext w s s1 (ex_intro _ _ (ex_intro _ _ Hw)) He) as Hr.
    destruct (assign_rows w s1) as [s2 [[]|e]]; simpl in *; auto.
    eapply ext_trans; [exact Hr|apply reshape_view_pure].
  - eapply bind_ext with (Fi := []) (Fj := []) (W1 := []);
      [apply ext_refl|apply astype_pure|apply in_refl|apply nil_lt_in|apply in_refl|].
    intros w s1 Hw He. apply astype_inv in Hw as (_ & Hw).
    unfold bind at 1.
    pose proof (fresh_rows_ext w s s1 Hw He) as Hr.
    destruct (assign_rows w s1) as [s2 [[]|e]]; simpl in *; auto.
  - eapply bind_ext with (Fi := []) (Fj := []) (W1 := []);
      [apply ext_refl|apply astype_pure|apply in_refl|apply nil_lt_in|apply in_refl|].
    intros; assumption.
Qed.
#[export] Hint Resolve boxcar_pure : pure.

Lemma filtered_boxcar_pure series : pure (filtered_boxcar series).
Proof. unfold filtered_boxcar. pure_tac. Qed.

(* ------------------------------------------------------------------ what a caller observes *)
Lemma arr_snap_ext W s s' l :
  ext W s s' -> (forall x, In x (arr_fp s l) -> x < next s /\ ~ In x W) -> arr_snap s' l = arr_snap s l.
Proof.
  intros [_ He] Hf. unfold arr_snap, arr_fp in *.
  destruct (mem s l) as [c|] eqn:Hm.
  - assert (Hl : mem s' l = Some c).
    { rewrite <- Hm. apply He; apply Hf; destruct c; simpl; auto. }
    rewrite Hl. destruct c as [| |b sh k|]; auto.
    assert (Hb : mem s' b = mem s b) by (apply He; apply Hf; simpl; auto).
    rewrite Hb. reflexivity.
  - assert (Hl : mem s' l = None) by (rewrite <- Hm; apply He; apply Hf; simpl; auto).
    rewrite Hl. reflexivity.
Qed.

(* the frame property in observable form: an object whose footprint is not written keeps its
   snapshot (dtype, shape, bytes, and those of the objects in its attribute slots) *)
Lemma snapshot_ext W s s' l :
  ext W s s' -> (forall x, In x (footprint s l) -> x < next s /\ ~ In x W) -> snapshot s' l = snapshot s l.
Proof.
  intros He Hf. unfold snapshot, footprint in *.
  destruct (mem s l) as [c|] eqn:Hm.
  - assert (Hl : mem s' l = Some c).
    { rewrite <- Hm. apply He; apply Hf; destruct c as [| |? ? []|]; simpl; auto. }
    rewrite Hl.
    assert (Ha : forall x, (forall y, In y (arr_fp s x) -> In y (footprint s l)) -> arr_snap s' x = arr_snap s x).
    { intros x Hx. apply (arr_snap_ext W); auto. intros y Hy. apply Hf. unfold footprint in Hx.
      rewrite Hm in Hx. auto. }
    unfold footprint in Ha. rewrite Hm in Ha.
    destruct c as [| |b sh [|cf|cf t0 si dur]|d t0 si dur]; auto.
    + rewrite (Ha l); auto. unfold arr_fp. rewrite Hm. auto.
    + rewrite (Ha l); auto. unfold arr_fp. rewrite Hm. auto.
    + rewrite (Ha l), (Ha t0), (Ha si), (Ha dur); auto; intros y Hy;
        simpl; rewrite ?in_app_iff; auto 7.
      unfold arr_fp in Hy. rewrite Hm in Hy. simpl in Hy. tauto.
    + rewrite (Ha d), (Ha t0), (Ha si), (Ha dur); auto; intros y Hy;
        simpl; rewrite ?in_app_iff; auto 7.
  - assert (Hl : mem s' l = None) by (rewrite <- Hm; apply He; apply Hf; simpl; auto).
    rewrite Hl. reflexivity.
Qed.

(* in a well-formed store the footprint of an existing object lies below `next` *)
Lemma arr_fp_lt s l : wf s -> l < next s -> forall x, In x (arr_fp s l) -> x < next s.
Proof.
  intros [_ Hr] Hl x. unfold arr_fp. destruct (mem s l) as [[| |b sh k|]|] eqn:Hm; simpl; try (intros [<-|[]]; auto; fail).
  intros [<-|[<-|[]]]; auto. apply (Hr l _ Hm). destruct k; simpl; auto.
Qed.

Lemma footprint_lt s l : wf s -> l < next s -> forall x, In x (footprint s l) -> x < next s.
Proof.
  intros Hw Hl x. pose proof Hw as [_ Hr]. unfold footprint.
  destruct (mem s l) as [[| |b sh [|cf|cf t0 si dur]|d t0 si dur]|] eqn:Hm; simpl;
    try (intros [<-|[]]; auto; fail).
  - intros [<-|[<-|[]]]; auto. apply (Hr l _ Hm). simpl; auto.
  - intros [<-|[<-|[]]]; auto. apply (Hr l _ Hm). simpl; auto.
  - rewrite !in_app_iff. intros [<-|[<-|[H|[H|H]]]]; auto.
    + apply (Hr l _ Hm). simpl; auto.
    + eapply arr_fp_lt; [exact Hw| |exact H]. apply (Hr l _ Hm). simpl; auto.
    + eapply arr_fp_lt; [exact Hw| |exact H]. apply (Hr l _ Hm). simpl; auto.
    + eapply arr_fp_lt; [exact Hw| |exact H]. apply (Hr l _ Hm). simpl; auto.
  - rewrite !in_app_iff. intros [<-|[H|[H|[H|H]]]]; auto.
    + eapply arr_fp_lt; [exact Hw| |exact H]. apply (Hr l _ Hm). simpl; auto.
    + eapply arr_fp_lt; [exact Hw| |exact H]. apply (Hr l _ Hm). simpl; auto.
    + eapply arr_fp_lt; [exact Hw| |exact H]. apply (Hr l _ Hm). simpl; auto.
    + eapply arr_fp_lt; [exact Hw| |exact H]. apply (Hr l _ Hm). simpl; auto.
Qed.

(* FRAME, observable form: if a call only writes W, every object of the caller whose footprint
   avoids W shows the same snapshot afterwards *)
Lemma frame_snapshot W s s' l :
  wf s -> l < next s -> ext W s s' -> (forall x, In x (footprint s l) -> ~ In x W) ->
  snapshot s' l = snapshot s l.
Proof.
  intros Hw Hl He Hd. apply (snapshot_ext W); auto.
  intros x Hx. split; [eapply footprint_lt; eauto|auto].
Qed.

(* ------------------------------------------------------------------ copies share nothing *)
Ltac eqb_dec := repeat match goal with
  | |- context [Nat.eqb ?a ?b] =>
      first [ replace (Nat.eqb a b) with true by (symmetry; apply Nat.eqb_eq; lia)
            | replace (Nat.eqb a b) with false by (symmetry; apply Nat.eqb_neq; lia) ] end.

Lemma new_arr_eq dt d sh k s : new_arr dt d sh k s =
  (mkstore (S (S (next s))) (upd (upd (mem s) (next s) (CBuf dt d)) (S (next s)) (CArr (next s) sh k)),
   Ok (S (next s))).
Proof. reflexivity. Qed.

Lemma copy_arr_eq l s s1 a : copy_arr l s = (s1, Ok a) ->
  exists dt d sh k,
    s1 = mkstore (S (S (next s))) (upd (upd (mem s) (next s) (CBuf dt d)) (S (next s)) (CArr (next s) sh k))
    /\ a = S (next s) /\ exists b, mem s l = Some (CArr b sh k).
Proof.
  unfold copy_arr, bind. destruct (arr_info l s) as [s' [i|e]] eqn:E; [|inversion 1].
  pose proof (arr_info_inv _ _ _ _ E). subst s'. rewrite new_arr_eq. inversion 1; subst.
  exists (a_dt i), (a_data i), (a_shape i), (a_kind i). repeat split.
  revert E. unfold arr_info. cbv beta delta [bind read ret raise].
  destruct (mem s l) as [[]|]; try (inversion 1; fail).
  destruct (mem s buf) as [[]|]; inversion 1; subst; simpl. eauto.
Qed.

(* the copy of a time axis: a fresh object all of whose footprint is fresh *)
Lemma ut_copy_spec self s s1 c : ut_copy self s = (s1, Ok c) ->
  next s <= c /\ c < next s1 /\ (exists bc sh k, mem s1 c = Some (CArr bc sh k)) /\
  forall x, In x (footprint s1 c) -> next s <= x.
Proof.
  unfold ut_copy. unfold bind at 1.
  destruct (copy_arr self s) as [sa [out|]] eqn:E0; [|inversion 1].
  apply copy_arr_eq in E0 as (dt & d & sh & k & -> & -> & _).
  unfold ut_copy_attrs. cbv beta delta [bind read ret write]. cbn [mem next]. rewrite upd_same.
  destruct k as [|cf|cf t0 si dur].
  - inversion 1; subst. cbn [next mem]. repeat split; try lia.
    + rewrite upd_same. eauto.
    + unfold footprint. cbn [mem]. rewrite upd_same. simpl. intuition lia.
  - inversion 1; subst. cbn [next mem]. repeat split; try lia.
    + rewrite upd_same. eauto.
    + unfold footprint. cbn [mem]. rewrite upd_same. simpl. intuition lia.
  - match goal with |- context [copy_arr t0 ?st] => destruct (copy_arr t0 st) as [sb [t0'|]] eqn:E1; [|inversion 1] end.
    apply copy_arr_eq in E1 as (dt1 & d1 & sh1 & k1 & -> & -> & _). cbn [mem next fst snd].
    match goal with |- context [copy_arr si ?st] => destruct (copy_arr si st) as [sc [si'|]] eqn:E2; [|inversion 1] end.
    apply copy_arr_eq in E2 as (dt2 & d2 & sh2 & k2 & -> & -> & _). cbn [mem next fst snd].
    match goal with |- context [copy_arr dur ?st] => destruct (copy_arr dur st) as [sd [dur'|]] eqn:E3; [|inversion 1] end.
    apply copy_arr_eq in E3 as (dt3 & d3 & sh3 & k3 & -> & -> & _). cbn [mem next fst snd].
    inversion 1; subst. cbn [next mem]. repeat split; try lia.
    + rewrite upd_same. eauto.
    + unfold footprint, arr_fp. cbn [mem]. unfold upd. eqb_dec. cbn iota.
      simpl. intuition lia.
Qed.

Lemma ts_copy_spec self s s1 c : ts_copy self s = (s1, Ok c) ->
  next s <= c /\ c < next s1 /\
  (exists d t0 si dur b sh k, mem s1 c = Some (CSeries d t0 si dur) /\ mem s1 d = Some (CArr b sh k) /\
                              next s <= d /\ d < next s1 /\ next s <= b /\ b <> d /\ b <> c) /\
  forall x, In x (footprint s1 c) -> next s <= x.
Proof.
  unfold ts_copy. cbv beta delta [bind read].
  destruct (mem s self) as [[| | |d t0 si dur]|]; try (inversion 1; fail).
  destruct (copy_arr d s) as [sa [d'|]] eqn:E0; [|inversion 1].
  apply copy_arr_eq in E0 as (dt0 & d0 & sh0 & k0 & -> & -> & _). cbn [mem next fst snd].
  match goal with |- context [copy_arr t0 ?st] => destruct (copy_arr t0 st) as [sb [t0'|]] eqn:E1; [|inversion 1] end.
  apply copy_arr_eq in E1 as (dt1 & d1 & sh1 & k1 & -> & -> & _). cbn [mem next fst snd].
  match goal with |- context [copy_arr si ?st] => destruct (copy_arr si st) as [sc [si'|]] eqn:E2; [|inversion 1] end.
  apply copy_arr_eq in E2 as (dt2 & d2 & sh2 & k2 & -> & -> & _). cbn [mem next fst snd].
  match goal with |- context [copy_arr dur ?st] => destruct (copy_arr dur st) as [sd [dur'|]] eqn:E3; [|inversion 1] end.
  apply copy_arr_eq in E3 as (dt3 & d3 & sh3 & k3 & -> & -> & _). cbn [mem next fst snd].
  unfold alloc. cbn [mem next]. inversion 1; subst. cbn [next mem]. repeat split; try lia.
  - do 7 eexists. rewrite upd_same. split; [reflexivity|].
    unfold upd. eqb_dec. cbn iota. split; [reflexivity|lia].
  - unfold footprint, arr_fp. cbn [mem]. unfold upd. eqb_dec. cbn iota. simpl. intuition lia.
Qed.

(* COPY_DISJOINT, consequence: an in-place operation on the copy writes nothing the original
   (or any other object that existed before the copy was made) can see *)
Lemma ut_copy_then_iop self s s1 c sign v :
  ut_copy self s = (s1, Ok c) -> ext [] s (fst (ut_iop sign c v s1)).
Proof.
  intros Hc. pose proof (ut_copy_pure self s) as He. rewrite Hc in He. simpl in He.
  apply ut_copy_spec in Hc as (Hf & Hlt & (bc & sh & k & Hm) & Hfp).
  eapply ext_step; [exact He|eapply ut_iop_frame; eauto|].
  intros l [<-|[<-|[]]] Hl; [lia|].
  assert (next s <= bc); [|lia]. apply Hfp. unfold footprint. rewrite Hm. destruct k; simpl; auto.
Qed.

Lemma ut_copy_then_imul self s s1 c v :
  ut_copy self s = (s1, Ok c) -> ext [] s (fst (ut_imul c v s1)).
Proof.
  intros Hc. pose proof (ut_copy_pure self s) as He. rewrite Hc in He. simpl in He.
  apply ut_copy_spec in Hc as (Hf & Hlt & (bc & sh & k & Hm) & Hfp).
  eapply ext_step; [exact He|eapply ut_imul_frame; eauto|].
  intros l [<-|[<-|[]]] Hl; [lia|].
  assert (next s <= bc); [|lia]. apply Hfp. unfold footprint. rewrite Hm. destruct k; simpl; auto.
Qed.

Lemma ts_copy_then_iop self s s1 c f v :
  ts_copy self s = (s1, Ok c) -> ext [] s (fst (ts_iop f c v s1)).
Proof.
  intros Hc. pose proof (ts_copy_pure self s) as He. rewrite Hc in He. simpl in He.
  apply ts_copy_spec in Hc as (Hf & Hlt & (d & t0 & si & dur & b & sh & k & Hm & Hd & Hd1 & Hd2 & Hb & _ & _) & Hfp).
  eapply ext_step; [exact He|eapply ts_iop_frame; eauto|].
  intros l [<-|[]] Hl. lia.
Qed.

Lemma ta_copy_then_setitem self s s1 c a n v :
  copy_arr self s = (s1, Ok c) -> ext [] s (fst (ta_setitem c a n v s1)).
Proof.
  intros Hc. pose proof (copy_arr_pure self s) as He. rewrite Hc in He. simpl in He.
  apply copy_arr_eq in Hc as (dt & d & sh & k & -> & -> & _).
  eapply ext_step; [exact He|eapply ta_setitem_frame with (b := next s) (sh := sh) (k := k)|].
  - cbn [mem]. apply upd_same.
  - cbn [next]. lia.
  - intros l [<-|[]] Hl. lia.
Qed.

(* a failing UniformTime += / -= whose failure is caused by the operand (non-uniform increments,
   mismatched shape, fractional dtype) has written nothing *)
Lemma ut_iop_operand_failure_atomic sign f self v s e :
  snd ((w <- ut_convert_check self sign v ;; iop_inplace f self w) s) = Exn e ->
  ext [] s (fst ((w <- ut_convert_check self sign v ;; iop_inplace f self w) s)).
Proof.
  cbv beta delta [bind].
  pose proof (ut_convert_check_pure self sign v s) as Hp.
  destruct (ut_convert_check self sign v s) as [s1 [w|e']]; cbn [fst snd] in *; auto.
  intros H. rewrite (iop_inplace_exn _ _ _ _ _ H). exact Hp.
Qed.

(* ------------------------------------------------------------------ witnesses *)
(* a TimeArray in ns and a plain int64 array *)
Definition ex_ta : store :=
  fst ((t <- new_arr I64 [1000; 2000; 3000]%Z [3] (KTime 1000) ;;
        new_arr I64 [5; 6]%Z [2] KPlain) empty_store).
(* the TimeArray is object 1 (buffer 0), the array is object 3 (buffer 2) *)
Lemma ex_ta_self : mem ex_ta 1 = Some (CArr 0 [3] (KTime 1000)).
Proof. reflexivity. Qed.
Lemma ex_ta_fp : footprint ex_ta 3 = [3; 2].
Proof. reflexivity. Qed.
Lemma ex_ta_next : next ex_ta = 4.
Proof. reflexivity. Qed.

(* the code before 9da9736 scaled the caller's array *)
Lemma ex_ta_setitem_old_changes :
  snapshot (fst (ta_setitem_old 1 0 2 (PRef 3) ex_ta)) 3 <> snapshot ex_ta 3.
Proof. vm_compute. discriminate. Qed.
(* the repaired code does not *)
Lemma ex_ta_setitem_keeps :
  snapshot (fst (ta_setitem 1 0 2 (PRef 3) ex_ta)) 3 = snapshot ex_ta 3 /\
  snapshot (fst (ta_setitem 1 0 2 (PRef 3) ex_ta)) 1 <> snapshot ex_ta 1.
Proof. split; vm_compute; [reflexivity|discriminate]. Qed.

Lemma ta_setitem_old_refuted :
  exists s self b sh k a,
    mem s self = Some (CArr b sh k) /\ self < next s /\ a < next s /\
    (forall x, In x (footprint s a) -> ~ In x [b]) /\
    snapshot (fst (ta_setitem_old self 0 2 (PRef a) s)) a <> snapshot s a.
Proof.
  exists ex_ta, 1, 0, [3], (KTime 1000%Z), 3.
  split; [exact ex_ta_self|]. rewrite ex_ta_next, ex_ta_fp.
  split; [lia|]. split; [lia|]. split; [|exact ex_ta_setitem_old_changes].
  intros x [<-|[<-|[]]] [H|[]]; discriminate.
Qed.

(* a UniformTime in ms: t0 = 0, interval 1 ms, three samples *)
Definition ex_ut : store :=
  fst ((a <- new_arr I64 [0]%Z [] (KTime 1000000000) ;;
        b <- new_arr I64 [1000000000]%Z [] (KTime 1000000000) ;;
        c <- new_arr I64 [3000000000]%Z [] (KTime 1000000000) ;;
        new_arr I64 [0; 1000000000; 2000000000]%Z [3] (KUniform 1000000000 a b c)) empty_store).
(* the axis is object 7 (buffer 6); t0, interval, duration are objects 1, 3, 5 *)
Lemma ex_ut_self : mem ex_ut 7 = Some (CArr 6 [3] (KUniform 1000000000 1 3 5)).
Proof. reflexivity. Qed.

(* ndarray.copy alone (the code before 30eef3b) left the attribute objects shared *)
Lemma ut_copy_old_refuted :
  exists s self s1 c, ut_copy_old self s = (s1, Ok c) /\ exists x, In x (footprint s1 c) /\ x < next s.
Proof.
  exists ex_ut, 7. eexists. eexists. split; [vm_compute; reflexivity|].
  exists 3. split; [vm_compute; tauto|vm_compute; lia].
Qed.

(* after 9a1272e a factor 0 and a ramp that cancels the interval are refused before anything is
   written (they used to raise ZeroDivisionError after the samples had been overwritten) *)
Lemma ex_ut_imul_zero :
  snd (ut_imul 7 (PInt 0) ex_ut) = Exn EValue /\
  snapshot (fst (ut_imul 7 (PInt 0) ex_ut)) 7 = snapshot ex_ut 7.
Proof. split; vm_compute; reflexivity. Qed.
Definition ex_ut2 : store := fst (new_arr I64 [-1; -2; -3]%Z [3] KPlain ex_ut).
Lemma ex_ut_iop_cancel :
  snd (ut_iop 1 7 (PRef 9) ex_ut2) = Exn EValue /\
  snapshot (fst (ut_iop 1 7 (PRef 9) ex_ut2)) 7 = snapshot ex_ut2 7 /\
  snapshot (fst (ut_iop 1 7 (PRef 9) ex_ut2)) 9 = snapshot ex_ut2 9.
Proof. repeat split; vm_compute; reflexivity. Qed.
(* and a ramp that keeps it positive is applied: u -= [-1,-2,-3] ms changes u, not the operand *)
Lemma ex_ut_isub_ramp :
  snd (ut_iop (-1) 7 (PRef 9) ex_ut2) = Ok tt /\
  snapshot (fst (ut_iop (-1) 7 (PRef 9) ex_ut2)) 7 <> snapshot ex_ut2 7 /\
  snapshot (fst (ut_iop (-1) 7 (PRef 9) ex_ut2)) 9 = snapshot ex_ut2 9.
Proof. repeat split; vm_compute; try reflexivity; discriminate. Qed.

(* a (2,2,2) float array *)
Definition ex_arr3 : store := fst (new_arr F64 [3; 1; 4; 1; 5; 9; 2; 6]%Z [2; 2; 2] KPlain empty_store).
(* before 1507847 a failing periodogram_csd call left its argument reshaped *)
Lemma csd_old_refuted :
  exists s a, snd (csd_old a (Some (-1)%Z) s) = Exn EValue /\
              snapshot (fst (csd_old a (Some (-1)%Z) s)) a <> snapshot s a.
Proof. exists ex_arr3, 1. split; vm_compute; [reflexivity|discriminate]. Qed.
Lemma ex_csd_keeps :
  snd (csd 1 None (Some (-1)%Z) ex_arr3) = Exn EValue /\
  snapshot (fst (csd 1 None (Some (-1)%Z) ex_arr3)) 1 = snapshot ex_arr3 1.
Proof. split; vm_compute; reflexivity. Qed.

(* the (2,2,2) array s (object 1), a 1-d and a 3-d precomputed transform (objects 3 and 5) *)
Definition ex_sk : store :=
  fst ((a <- new_arr F64 [1; 2; 3; 4]%Z [4] KPlain ;;
        new_arr F64 [3; 1; 4; 1; 5; 9; 2; 6; 5; 3; 5; 8]%Z [2; 3; 2] KPlain) ex_arr3).
(* a 1-d Sk is refused (TypeError) and a 3-d Sk is accepted; both keep bytes and shape, so does s *)
Lemma ex_csd_sk_keeps :
  (snd (csd 1 (Some 3) None ex_sk) = Exn EType /\
   snapshot (fst (csd 1 (Some 3) None ex_sk)) 3 = snapshot ex_sk 3 /\
   snapshot (fst (csd 1 (Some 3) None ex_sk)) 1 = snapshot ex_sk 1) /\
  ((exists r, snd (csd 1 (Some 5) None ex_sk) = Ok r) /\
   snapshot (fst (csd 1 (Some 5) None ex_sk)) 5 = snapshot ex_sk 5 /\
   snapshot (fst (csd 1 (Some 5) None ex_sk)) 1 = snapshot ex_sk 1).
Proof. repeat split; try (vm_compute; reflexivity). eexists. vm_compute. reflexivity. Qed.
(* the in-place variant leaves the caller's 3-d Sk reshaped to 2-d although the call returns *)
Lemma csd_sk_inplace_refuted :
  exists s a k r, snd (csd_sk_inplace a k s) = Ok r /\
                  snapshot (fst (csd_sk_inplace a k s)) k <> snapshot s k.
Proof. exists ex_sk, 1, 5. eexists. split; vm_compute; [reflexivity|discriminate]. Qed.

Definition ex_arr2 : store := fst (new_arr F64 [3; 1; 4; 1; 5; 9; 2; 6]%Z [2; 4] KPlain empty_store).
(* before 322933f boxcar_filter overwrote a 2-d argument *)
Lemma boxcar_old_refuted :
  exists s a, snapshot (fst (boxcar_old a s)) a <> snapshot s a.
Proof. exists ex_arr2, 1. vm_compute. discriminate. Qed.

(* non-vacuity of the hypotheses used above, on concrete stores *)
Lemma ex_ut_copy_runs : exists s1 c, ut_copy 7 ex_ut = (s1, Ok c).
Proof. eexists. eexists. vm_compute. reflexivity. Qed.
Lemma ex_ta_wf : wf ex_ta.
Proof.
  split.
  - intros l Hl. rewrite ex_ta_next in Hl. do 4 (destruct l as [|l]; [lia|]). reflexivity.
  - intros l c Hm r Hr. rewrite ex_ta_next.
    do 4 (destruct l as [|l]; [vm_compute in Hm; inversion Hm; subst c; simpl in Hr; intuition lia|]).
    vm_compute in Hm. discriminate.
Qed.

(* ------------------------------------------------------------------ observable forms *)
Lemma pure_snapshot A (m : M A) s l :
  pure m -> wf s -> l < next s -> snapshot (fst (m s)) l = snapshot s l.
Proof. intros Hp Hw Hl. apply (frame_snapshot []); auto. Qed.

Lemma ext_nil_snapshot s s' l : ext [] s s' -> wf s -> l < next s -> snapshot s' l = snapshot s l.
Proof. intros He Hw Hl. apply (frame_snapshot []); auto. Qed.

Lemma ta_setitem_snapshot self a n v s b sh k l :
  wf s -> mem s self = Some (CArr b sh k) -> self < next s -> l < next s ->
  ~ In b (footprint s l) ->
  snapshot (fst (ta_setitem self a n v s)) l = snapshot s l.
Proof.
  intros Hw Hm Hs Hl Hd. apply (frame_snapshot [b]); auto.
  - eapply ta_setitem_frame; eauto.
  - intros x Hx [<-|[]]. auto.
Qed.

Lemma ut_iop_snapshot sign self v s b sh k l :
  wf s -> mem s self = Some (CArr b sh k) -> self < next s -> l < next s ->
  ~ In self (footprint s l) -> ~ In b (footprint s l) ->
  snapshot (fst (ut_iop sign self v s)) l = snapshot s l.
Proof.
  intros Hw Hm Hs Hl Hd1 Hd2. apply (frame_snapshot [self; b]); auto.
  - eapply ut_iop_frame; eauto.
  - intros x Hx [<-|[<-|[]]]; auto.
Qed.

Lemma ut_imul_snapshot self v s b sh k l :
  wf s -> mem s self = Some (CArr b sh k) -> self < next s -> l < next s ->
  ~ In self (footprint s l) -> ~ In b (footprint s l) ->
  snapshot (fst (ut_imul self v s)) l = snapshot s l.
Proof.
  intros Hw Hm Hs Hl Hd1 Hd2. apply (frame_snapshot [self; b]); auto.
  - eapply ut_imul_frame; eauto.
  - intros x Hx [<-|[<-|[]]]; auto.
Qed.

Lemma ts_iop_snapshot f self v s d t0 si dur b sh k l :
  wf s -> mem s self = Some (CSeries d t0 si dur) -> mem s d = Some (CArr b sh k) -> d < next s ->
  l < next s -> ~ In b (footprint s l) ->
  snapshot (fst (ts_iop f self v s)) l = snapshot s l.
Proof.
  intros Hw Hm Hd Hs Hl Hn. apply (frame_snapshot [b]); auto.
  - eapply ts_iop_frame; eauto.
  - intros x Hx [<-|[]]. auto.
Qed.

(* the operand of an in-place operation: a separate object (its footprint does not contain the
   target's header or buffer) *)
Lemma ex_ut2_operand_separate :
  wf ex_ut2 /\ mem ex_ut2 7 = Some (CArr 6 [3] (KUniform 1000000000 1 3 5)) /\ 7 < next ex_ut2 /\
  9 < next ex_ut2 /\ ~ In 7 (footprint ex_ut2 9) /\ ~ In 6 (footprint ex_ut2 9).
Proof.
  split; [|repeat split; try (vm_compute; lia); vm_compute; intuition discriminate].
  split.
  - intros l Hl. change (next ex_ut2) with 10 in Hl. do 10 (destruct l as [|l]; [lia|]). reflexivity.
  - intros l c Hm r Hr. change (next ex_ut2) with 10.
    do 10 (destruct l as [|l]; [vm_compute in Hm; inversion Hm; subst c; simpl in Hr; intuition lia|]).
    vm_compute in Hm. discriminate.
Qed.

(* ------------------------------------------------------------------ failing in-place calls *)
(* a failing += / -= either has written nothing, or the exception came out of _follow_shift
   (which runs after the samples were moved) *)
Lemma ut_iop_failure_cases sign self v s e :
  snd (ut_iop sign self v s) = Exn e ->
  ext [] s (fst (ut_iop sign self v s)) \/
  exists s1 w s2, ut_convert_check self sign v s = (s1, Ok w) /\
                  iop_inplace (fun a b => a + sign * b)%Z self w s1 = (s2, Ok tt) /\
                  snd (follow_shift self w sign s2) = Exn e.
Proof.
  unfold ut_iop. cbv beta delta [bind read].
  destruct (mem s self) as [[| |b sh k|]|]; cbn [fst snd]; try (intros; left; apply ext_refl).
  pose proof (ut_convert_check_pure self sign v s) as Hp.
  destruct (ut_convert_check self sign v s) as [s1 [w|e1]] eqn:E1; cbn [fst snd] in *; [|left; exact Hp].
  destruct (iop_inplace (fun a b : Z => (a + sign * b)%Z) self w s1) as [s2 [[]|e2]] eqn:E2; cbn [fst snd].
  - intros H. right. exists s1, w, s2. auto.
  - intros _. left.
    pose proof (iop_inplace_exn (fun a b : Z => (a + sign * b)%Z) self w s1 e2) as Hx.
    rewrite E2 in Hx. simpl in Hx. rewrite Hx by reflexivity. exact Hp.
Qed.

Lemma ut_imul_failure_cases self v s e :
  snd (ut_imul self v s) = Exn e ->
  ext [] s (fst (ut_imul self v s)) \/
  exists k s2, v = PInt k /\ snd (rebind_scaled self k s2) = Exn e.
Proof.
  unfold ut_imul. destruct v as [k|k|l]; cbn [fst snd]; try (intros; left; apply ext_refl).
  - destruct (k <=? 0)%Z; [intros; left; apply ext_refl|].
    cbv beta delta [bind]. rewrite new_arr_eq.
    match goal with |- context [iop_inplace Z.mul self ?kk ?st] =>
      pose proof (alloc_ext (CBuf I64 [k]) s) as H1;
      assert (Hp : ext [] s st) by (change st with (fst (new_arr I64 [k] [] KPlain s)); apply new_arr_pure);
      destruct (iop_inplace Z.mul self kk st) as [s2 [[]|e2]] eqn:E2; cbn [fst snd]
    end.
    + intros H. right. exists k, s2. auto.
    + intros _. left.
      match type of E2 with iop_inplace ?f ?a ?b ?st = _ =>
        pose proof (iop_inplace_exn f a b st e2) as Hx end.
      rewrite E2 in Hx. simpl in Hx. rewrite Hx by reflexivity. exact Hp.
  - destruct (k <=? 0)%Z; [intros; left; apply ext_refl|].
    cbv beta delta [bind]. rewrite new_arr_eq.
    match goal with |- context [iop_inplace Z.mul self ?kk ?st] =>
      assert (Hp : ext [] s st) by (change st with (fst (new_arr F64 [k] [] KPlain s)); apply new_arr_pure);
      destruct (iop_inplace Z.mul self kk st) as [s2 [[]|e2]] eqn:E2; cbn [fst snd]
    end.
    + discriminate.
    + intros _. left.
      match type of E2 with iop_inplace ?f ?a ?b ?st = _ =>
        pose proof (iop_inplace_exn f a b st e2) as Hx end.
      rewrite E2 in Hx. simpl in Hx. rewrite Hx by reflexivity. exact Hp.
Qed.

(* ------------------------------------------------------------------ histories on a copy *)
(* the header at c stays an array header with buffer bc *)
Definition hdr (s : store) (c bc : loc) : Prop := c < next s /\ exists sh k, mem s c = Some (CArr bc sh k).
Definition keeps {A} (c bc : loc) (m : M A) : Prop := forall s, hdr s c bc -> hdr (fst (m s)) c bc.

Lemma keeps_pure A c bc (m : M A) : pure m -> keeps c bc m.
Proof.
  intros Hp s [Hl (sh & k & Hm)]. destruct (Hp s) as [Hn He]. split; [lia|].
  exists sh, k. rewrite He; auto.
Qed.
Lemma keeps_bind A B c bc (m : M A) (f : A -> M B) :
  keeps c bc m -> (forall a, keeps c bc (f a)) -> keeps c bc (bind m f).
Proof.
  intros Hm Hf s H. unfold bind. specialize (Hm s H).
  destruct (m s) as [s1 [a|e]]; simpl in *; auto. apply Hf; auto.
Qed.
Lemma keeps_write_self c bc sh k : keeps c bc (write c (CArr bc sh k)).
Proof. intros s [Hl _]. split; simpl; auto. exists sh, k. apply upd_same. Qed.
Lemma keeps_write_other c bc l x : l <> c -> keeps c bc (write l x).
Proof.
  intros Hn s [Hl (sh & k & Hm)]. split; simpl; auto. exists sh, k. rewrite upd_other; auto.
Qed.
(* reading the header itself tells which buffer it has *)
Lemma keeps_bind_read A c bc (f : cell -> M A) :
  (forall sh k, keeps c bc (f (CArr bc sh k))) -> keeps c bc (bind (read c) f).
Proof.
  intros Hf s H. pose proof H as [Hl (sh & k & Hm)]. unfold bind, read. rewrite Hm. apply Hf; auto.
Qed.

Ltac keeps_tac :=
  repeat (first
    [ solve [apply keeps_pure; auto with pure]
    | apply keeps_write_self
    | apply keeps_bind_read; intros
    | apply keeps_bind; [|intros]
    | match goal with |- keeps _ _ (match ?x with _ => _ end) => destruct x end ]).

Lemma follow_shift_keeps c bc w sign : keeps c bc (follow_shift c w sign).
Proof. unfold follow_shift. keeps_tac. Qed.
Lemma rebind_scaled_keeps c bc k : keeps c bc (rebind_scaled c k).
Proof. unfold rebind_scaled. keeps_tac. Qed.

Lemma iop_inplace_keeps c bc f w : c <> bc -> keeps c bc (iop_inplace f c w).
Proof.
  intros Hn s [Hl (sh & k & Hm)]. unfold iop_inplace, arr_info.
  cbv beta delta [bind read ret raise]. rewrite Hm.
  repeat (cbn [fst snd]; match goal with
   | |- hdr ?s _ _ => (split; [exact Hl|eauto]; fail)
   | |- hdr (fst (write _ _ _)) _ _ => apply keeps_write_other; [auto|split; eauto]
   | |- context [match mem ?s ?l with _ => _ end] => destruct (mem s l) as [[]|] eqn:?
   | |- context [match ?x with _ => _ end] => destruct x eqn:?
   | |- context [if ?x then _ else _] => destruct x eqn:?
   end).
Qed.

Lemma ut_iop_keeps sign c bc v : c <> bc -> keeps c bc (ut_iop sign c v).
Proof.
  intros Hn. unfold ut_iop. apply keeps_bind_read; intros.
  apply keeps_bind; [apply keeps_pure; auto with pure|intros].
  apply keeps_bind; [apply iop_inplace_keeps; auto|intros]. apply follow_shift_keeps.
Qed.
Lemma ut_imul_keeps c bc v : c <> bc -> keeps c bc (ut_imul c v).
Proof.
  intros Hn. unfold ut_imul. destruct v as [k|k|l].
  - destruct (k <=? 0)%Z; [apply keeps_pure; auto with pure|].
    apply keeps_bind; [apply keeps_pure; auto with pure|intros].
    apply keeps_bind; [apply iop_inplace_keeps; auto|intros]. apply rebind_scaled_keeps.
  - destruct (k <=? 0)%Z; [apply keeps_pure; auto with pure|].
    apply keeps_bind; [apply keeps_pure; auto with pure|intros]. apply iop_inplace_keeps; auto.
  - apply keeps_pure; auto with pure.
Qed.

(* any sequence of in-place operations (failing ones included: the caller catches the exception and
   goes on) *)
Inductive uop := UAdd (v : pyval) | USub (v : pyval) | UMul (v : pyval).
Definition run_uop (c : loc) (o : uop) : M unit :=
  match o with
  | UAdd v => ut_iop 1 c v
  | USub v => ut_iop (-1) c v
  | UMul v => ut_imul c v
  end.
Fixpoint run_uops (c : loc) (ops : list uop) (s : store) : store :=
  match ops with
  | [] => s
  | o :: r => run_uops c r (fst (run_uop c o s))
  end.

Lemma run_uop_frame c o s bc sh k :
  mem s c = Some (CArr bc sh k) -> c < next s -> ext [c; bc] s (fst (run_uop c o s)).
Proof.
  intros Hm Hl. destruct o; simpl; [eapply ut_iop_frame|eapply ut_iop_frame|eapply ut_imul_frame]; eauto.
Qed.
Lemma run_uop_keeps c bc o : c <> bc -> keeps c bc (run_uop c o).
Proof. intros Hn. destruct o; simpl; [apply ut_iop_keeps|apply ut_iop_keeps|apply ut_imul_keeps]; auto. Qed.

Lemma run_uops_fresh s0 c bc ops : forall s,
  next s0 <= c -> next s0 <= bc -> c <> bc -> hdr s c bc -> ext [] s0 s ->
  ext [] s0 (run_uops c ops s).
Proof.
  induction ops as [|o r IH]; intros s Hc Hb Hn Hh He; simpl; auto.
  pose proof Hh as [Hl (sh & k & Hm)].
  apply IH; auto.
  - apply run_uop_keeps; auto.
  - eapply ext_step; [exact He|eapply run_uop_frame; eauto|].
    intros l [<-|[<-|[]]] Hlt; lia.
Qed.

Lemma ut_copy_hdr self s s1 c : ut_copy self s = (s1, Ok c) ->
  exists bc, hdr s1 c bc /\ next s <= bc /\ c <> bc /\ next s <= c.
Proof.
  unfold ut_copy. unfold bind at 1.
  destruct (copy_arr self s) as [sa [out|]] eqn:E0; [|inversion 1].
  apply copy_arr_eq in E0 as (dt & d & sh & k & -> & -> & _).
  intros H. exists (next s).
  assert (Hh : hdr (mkstore (S (S (next s)))
                 (upd (upd (mem s) (next s) (CBuf dt d)) (S (next s)) (CArr (next s) sh k))) (S (next s)) (next s)).
  { split; simpl; [lia|]. exists sh, k. apply upd_same. }
  assert (Hk : keeps (S (next s)) (next s) (ut_copy_attrs (S (next s)))).
  { unfold ut_copy_attrs. keeps_tac. }
  specialize (Hk _ Hh). rewrite H in Hk. simpl in Hk.
  assert (c = S (next s)).
  { revert H. unfold ut_copy_attrs. cbv beta delta [bind read ret write]. cbn [mem next]. rewrite upd_same.
    destruct k as [|cf|cf t0 si dur]; try (inversion 1; auto; fail).
    repeat match goal with |- context [copy_arr ?x ?st] => destruct (copy_arr x st) as [? [?|]]; cbn [fst snd]; [|inversion 1] end.
    inversion 1; auto. }
  subst c. split; [exact Hk|]. split; [lia|]. split; lia.
Qed.

(* COPY_DISJOINT for histories: after v = u.copy(), ANY sequence of += / -= / *= on v (with any
   operands, failing or not) leaves every location that existed before the copy as it was *)
Lemma ut_copy_then_history self s s1 c ops :
  ut_copy self s = (s1, Ok c) -> ext [] s (run_uops c ops s1).
Proof.
  intros Hc. pose proof (ut_copy_pure self s) as He. rewrite Hc in He. simpl in He.
  apply ut_copy_hdr in Hc as (bc & Hh & Hb & Hn & Hf).
  apply run_uops_fresh with (bc := bc); assumption.
Qed.

Fixpoint run_sops (c : loc) (ops : list ((Z -> Z -> Z) * pyval)) (s : store) : store :=
  match ops with
  | [] => s
  | (f, v) :: r => run_sops c r (fst (ts_iop f c v s))
  end.

Lemma run_sops_fresh s0 c d t0 si dur b sh k ops : forall s,
  next s0 <= b -> b <> d -> b <> c -> c < next s -> d < next s ->
  mem s c = Some (CSeries d t0 si dur) -> mem s d = Some (CArr b sh k) -> ext [] s0 s ->
  ext [] s0 (run_sops c ops s).
Proof.
  induction ops as [|[f v] r IH]; intros s Hb Hbd Hbc Hc Hd Hmc Hmd He; simpl; auto.
  pose proof (ts_iop_frame f c v s d t0 si dur b sh k Hmc Hmd Hd) as [Hn Hf].
  assert (Hnot : forall x, x <> b -> ~ In x [b]) by (intros x Hx [<-|[]]; auto).
  apply IH; auto; try lia.
  - rewrite Hf; auto.
  - rewrite Hf; auto.
  - eapply ext_step; [exact He|split; [exact Hn|exact Hf]|]. intros l [<-|[]] Hlt. lia.
Qed.

(* after c = series.copy(), ANY sequence of += / -= / *= on c leaves every location that existed
   before the copy as it was *)
Lemma ts_copy_then_history self s s1 c ops :
  ts_copy self s = (s1, Ok c) -> ext [] s (run_sops c ops s1).
Proof.
  intros Hc. pose proof (ts_copy_pure self s) as He. rewrite Hc in He. simpl in He.
  apply ts_copy_spec in Hc as (Hf & Hlt & (d & t0 & si & dur & b & sh & k & Hm & Hd & Hd1 & Hd2 & Hb & Hbd & Hbc) & _).
  apply (run_sops_fresh s c d t0 si dur b sh k ops s1); assumption.
Qed.

(* observable forms of the history theorems and of the copy frames *)
Lemma ut_copy_history_snapshot self s s1 c ops l :
  wf s -> l < next s -> ut_copy self s = (s1, Ok c) -> snapshot (run_uops c ops s1) l = snapshot s l.
Proof. intros. apply ext_nil_snapshot; auto. eapply ut_copy_then_history; eauto. Qed.
Lemma ts_copy_history_snapshot self s s1 c ops l :
  wf s -> l < next s -> ts_copy self s = (s1, Ok c) -> snapshot (run_sops c ops s1) l = snapshot s l.
Proof. intros. apply ext_nil_snapshot; auto. eapply ts_copy_then_history; eauto. Qed.

Lemma ta_binop_snapshot f cmp self v s l :
  wf s -> l < next s -> snapshot (fst (ta_binop f cmp self v s)) l = snapshot s l.
Proof. intros. apply pure_snapshot; auto. apply ta_binop_pure. Qed.
Lemma ta_setitem_atomic_snapshot self a n v s e l :
  wf s -> l < next s -> snd (ta_setitem self a n v s) = Exn e ->
  snapshot (fst (ta_setitem self a n v s)) l = snapshot s l.
Proof. intros. apply ext_nil_snapshot; auto. eapply ta_setitem_atomic; eauto. Qed.
Lemma ut_copy_disjoint self s s1 c : ut_copy self s = (s1, Ok c) ->
  next s <= c /\ forall x, In x (footprint s1 c) -> next s <= x.
Proof. intros H. apply ut_copy_spec in H as (A & _ & _ & B). auto. Qed.
Lemma ts_copy_disjoint self s s1 c : ts_copy self s = (s1, Ok c) ->
  next s <= c /\ forall x, In x (footprint s1 c) -> next s <= x.
Proof. intros H. apply ts_copy_spec in H as (A & _ & _ & B). auto. Qed.
Lemma copies_snapshot self s l : wf s -> l < next s ->
  snapshot (fst (ut_copy self s)) l = snapshot s l /\
  snapshot (fst (ts_copy self s)) l = snapshot s l /\
  snapshot (fst (copy_arr self s)) l = snapshot s l.
Proof.
  intros. repeat split; apply pure_snapshot; auto;
    [apply ut_copy_pure|apply ts_copy_pure|apply copy_arr_pure].
Qed.
Lemma ta_copy_setitem_snapshot self s s1 c l a n v : wf s -> l < next s ->
  copy_arr self s = (s1, Ok c) -> snapshot (fst (ta_setitem c a n v s1)) l = snapshot s l.
Proof. intros. apply ext_nil_snapshot; auto. eapply ta_copy_then_setitem; eauto. Qed.
Lemma ts_binop_snapshot f self v s l :
  wf s -> l < next s -> snapshot (fst (ts_binop f self v s)) l = snapshot s l.
Proof. intros. apply pure_snapshot; auto. apply ts_binop_pure. Qed.
Lemma ts_iop_atomic_snapshot f self v s e l :
  wf s -> l < next s -> snd (ts_iop f self v s) = Exn e ->
  snapshot (fst (ts_iop f self v s)) l = snapshot s l.
Proof. intros. apply ext_nil_snapshot; auto. eapply ts_iop_atomic; eauto. Qed.
Lemma csd_snapshot a Sk N s l : wf s -> l < next s -> snapshot (fst (csd a Sk N s)) l = snapshot s l.
Proof. intros. apply pure_snapshot; auto. apply csd_pure. Qed.
Lemma boxcar_snapshot a s l : wf s -> l < next s ->
  snapshot (fst (boxcar a s)) l = snapshot s l /\ snapshot (fst (filtered_boxcar a s)) l = snapshot s l.
Proof. intros. split; apply pure_snapshot; auto; [apply boxcar_pure|apply filtered_boxcar_pure]. Qed.

(* a history on a concrete copy: three operations, one of them refused *)
Lemma ex_history :
  exists s1 c, ut_copy 7 ex_ut = (s1, Ok c) /\
    snapshot (run_uops c [UAdd (PInt 3); UMul (PInt 0); UMul (PInt 2)] s1) c <> snapshot s1 c /\
    snapshot (run_uops c [UAdd (PInt 3); UMul (PInt 0); UMul (PInt 2)] s1) 7 = snapshot ex_ut 7.
Proof.
  eexists. eexists. split; [vm_compute; reflexivity|]. split; vm_compute; [discriminate|reflexivity].
Qed.

(* a TimeSeries (object 9: data object 1 / buffer 0, t0 3, interval 5, duration 7) and a float
   operand array (object 11, buffer 10) *)
Definition ex_ts : store :=
  fst ((x <- new_arr F64 [3; 1; 4; 1]%Z [4] KPlain ;;
        a <- new_arr I64 [0]%Z [] (KTime 1000000000) ;;
        b <- new_arr I64 [2000000000]%Z [] (KTime 1000000000) ;;
        c <- new_arr I64 [8000000000]%Z [] (KTime 1000000000) ;;
        sr <- alloc (CSeries x a b c) ;;
        new_arr F64 [1; 2; 3; 4]%Z [4] KPlain) empty_store).
Lemma ex_ts_wf : wf ex_ts.
Proof.
  split.
  - intros l Hl. change (next ex_ts) with 11 in Hl. do 11 (destruct l as [|l]; [lia|]). reflexivity.
  - intros l c Hm r Hr. change (next ex_ts) with 11.
    do 11 (destruct l as [|l]; [vm_compute in Hm; inversion Hm; subst c; simpl in Hr; intuition lia|]).
    vm_compute in Hm. discriminate.
Qed.
Lemma ex_ts_facts :
  mem ex_ts 8 = Some (CSeries 1 3 5 7) /\ mem ex_ts 1 = Some (CArr 0 [4] KPlain) /\ 1 < next ex_ts /\
  10 < next ex_ts /\ ~ In 0 (footprint ex_ts 10) /\
  snapshot (fst (ts_iop Z.add 8 (PRef 10) ex_ts)) 10 = snapshot ex_ts 10 /\
  snapshot (fst (ts_iop Z.add 8 (PRef 10) ex_ts)) 8 <> snapshot ex_ts 8 /\
  snd (ts_iop Z.add 8 (PRef 10) ex_ts) = Ok tt.
Proof. repeat split; try (vm_compute; try reflexivity; try lia; try discriminate; intuition discriminate). Qed.
Lemma ex_ts_copy_history :
  exists s1 c, ts_copy 8 ex_ts = (s1, Ok c) /\
    snapshot (run_sops c [(Z.add, PRef 10); (Z.mul, PInt 2)] s1) c <> snapshot s1 c /\
    snapshot (run_sops c [(Z.add, PRef 10); (Z.mul, PInt 2)] s1) 8 = snapshot ex_ts 8.
Proof.
  eexists. eexists. split; [vm_compute; reflexivity|]. split; vm_compute; [discriminate|reflexivity].
Qed.

(* ------------------------------------------------------------------ failure atomicity of += -= *= *)
(* an object holding exactly one value (what int(self.t0) etc. need) *)
Definition scalar_at (s : store) (l bl : loc) (z cf : Z) : Prop :=
  exists sh k dt, mem s l = Some (CArr bl sh k) /\ mem s bl = Some (CBuf dt [z]) /\ kind_cf k = cf.

Lemma bind_ok A B (m : M A) (f : A -> M B) s s' a : m s = (s', Ok a) -> bind m f s = f a s'.
Proof. intros H. unfold bind. rewrite H. reflexivity. Qed.
Lemma read_ok l s c : mem s l = Some c -> read l s = (s, Ok c).
Proof. intros H. unfold read. rewrite H. reflexivity. Qed.
Lemma arr_info_ok l s b sh k dt d : mem s l = Some (CArr b sh k) -> mem s b = Some (CBuf dt d) ->
  arr_info l s = (s, Ok (mk_ainfo b sh k dt d)).
Proof.
  intros H1 H2. unfold arr_info. rewrite (bind_ok _ _ _ _ _ _ _ (read_ok _ _ _ H1)).
  rewrite (bind_ok _ _ _ _ _ _ _ (read_ok _ _ _ H2)). reflexivity.
Qed.
Lemma scalar_of_ok l s b sh k dt z : mem s l = Some (CArr b sh k) -> mem s b = Some (CBuf dt [z]) ->
  scalar_of l s = (s, Ok (z, kind_cf k)).
Proof.
  intros H1 H2. unfold scalar_of. rewrite (bind_ok _ _ _ _ _ _ _ (arr_info_ok _ _ _ _ _ _ _ H1 H2)). reflexivity.
Qed.
Lemma write_eq l c s : write l c s = (mkstore (next s) (upd (mem s) l c), Ok tt).
Proof. reflexivity. Qed.

Ltac clear_neq := repeat match goal with H : _ <> _ |- _ => clear H end.
Ltac neq_dec := repeat match goal with |- context [Nat.eqb ?a ?b] =>
  first [ rewrite (Nat.eqb_refl a)
        | rewrite (proj2 (Nat.eqb_neq a b)) by (first [assumption | apply not_eq_sym; assumption | clear_neq; lia]) ] end.
Ltac lk := cbn [mem next]; unfold upd; neq_dec; cbn iota; eassumption.

Lemma follow_shift_runs self w sign s1 cb b sh cf t0 si dur bw shw kw dtw dw b0 b1 b2 z0 z1 z2 c0 c1 c2 :
  let s2 := mkstore (next s1) (upd (mem s1) b cb) in
  mem s1 self = Some (CArr b sh (KUniform cf t0 si dur)) ->
  mem s1 w = Some (CArr bw shw kw) -> mem s1 bw = Some (CBuf dtw dw) ->
  scalar_at s1 t0 b0 z0 c0 -> scalar_at s1 si b1 z1 c1 -> scalar_at s1 dur b2 z2 c2 ->
  (forall n, shw = [n] -> exists v0 v1 r, dw = v0 :: v1 :: r /\ (z1 + (sign * v1 - sign * v0) <> 0)%Z) ->
  self < next s1 -> w < next s1 -> bw < next s1 ->
  t0 < next s1 -> b0 < next s1 -> si < next s1 -> b1 < next s1 -> dur < next s1 -> b2 < next s1 ->
  self <> b -> w <> b -> bw <> b -> w <> self -> bw <> self ->
  t0 <> b -> b0 <> b -> si <> b -> b1 <> b -> dur <> b -> b2 <> b ->
  t0 <> self -> b0 <> self -> si <> self -> b1 <> self -> dur <> self -> b2 <> self ->
  snd (follow_shift self w sign s2) = Ok tt.
Proof.
  intros s2 Hself Hw Hbw (sh0 & k0 & dt0 & Ht0 & Hb0 & Hc0) (sh1 & k1 & dt1 & Hsi & Hb1 & Hc1)
         (sh2 & k2 & dt2 & Hdur & Hb2 & Hc2) Hshape.
  intros. subst s2.
  assert (L1 : mem {| next := next s1; mem := upd (mem s1) b cb |} self = Some (CArr b sh (KUniform cf t0 si dur))) by lk.
  assert (L2 : mem {| next := next s1; mem := upd (mem s1) b cb |} w = Some (CArr bw shw kw)) by lk.
  assert (L3 : mem {| next := next s1; mem := upd (mem s1) b cb |} bw = Some (CBuf dtw dw)) by lk.
  unfold follow_shift. unfold bind at 1. rewrite (read_ok _ _ _ L1). cbv beta iota.
  unfold bind at 1. rewrite (arr_info_ok _ _ _ _ _ _ _ L2 L3). cbv beta iota.
  cbn [a_shape a_data].
  assert (Hnon : forall shx, (forall n, shx <> [n]) -> shw = shx ->
     snd ((t <- scalar_of t0;;
        r <- match bcast Z.add [fst t] [] (map (Z.mul sign) dw) shx with
             | Some (d, sh') => new_arr I64 d sh' (KTime (snd t))
             | None => raise EValue end;; write self (CArr b sh (KUniform cf r si dur)))
        {| next := next s1; mem := upd (mem s1) b cb |}) = Ok tt).
  { intros shx Hx _. unfold bind at 1. erewrite (scalar_of_ok t0) by lk. cbv beta iota. cbn [fst snd].
    assert (Hb : exists d sh', bcast Z.add [z0] [] (map (Z.mul sign) dw) shx = Some (d, sh')).
    { unfold bcast. destruct shx as [|n [|n2 r]].
      - cbn [shape_eqb]. eauto.
      - exfalso. apply (Hx n). reflexivity.
      - cbn [shape_eqb is_single]. eauto. }
    destruct Hb as (d & sh' & ->). unfold bind at 1. rewrite new_arr_eq. cbv beta iota. reflexivity. }
  destruct shw as [|n [|n2 shr]].
  - apply (Hnon []); auto. intros n; discriminate.
  - destruct (Hshape n eq_refl) as (v0 & v1 & r & -> & Hz).
    unfold bind at 1. erewrite (scalar_of_ok t0) by lk. cbv beta iota.
    unfold bind at 1. rewrite new_arr_eq. cbv beta iota.
    unfold bind at 1. rewrite write_eq. cbv beta iota.
    unfold bind at 1. erewrite (scalar_of_ok si) by lk. cbv beta iota.
    unfold bind at 1. rewrite new_arr_eq. cbv beta iota.
    unfold bind at 1. rewrite write_eq. cbv beta iota.
    unfold bind at 1. erewrite (scalar_of_ok dur) by lk. cbv beta iota.
    unfold bind at 1. rewrite new_arr_eq. cbv beta iota.
    unfold bind at 1. rewrite write_eq. cbv beta iota.
    cbn [fst snd]. destruct (Z.eqb_spec (z1 + (sign * v1 - sign * v0)) 0); [contradiction|reflexivity].
  - apply (Hnon (n :: n2 :: shr)); auto. intros m; discriminate.
Qed.

Lemma has_cf_inv v s s1 h : has_cf v s = (s1, Ok h) -> s1 = s.
Proof.
  unfold has_cf. destruct v; try (inversion 1; auto; fail).
  cbv beta delta [bind read ret]. destruct (mem s l) as [[| |? ? []|]|]; inversion 1; auto.
Qed.

Lemma mul_fresh_inv l k s s1 a : mul_fresh l k s = (s1, Ok a) ->
  exists dt d sh kk,
    s1 = mkstore (S (S (next s))) (upd (upd (mem s) (next s) (CBuf dt d)) (S (next s)) (CArr (next s) sh kk))
    /\ a = S (next s).
Proof.
  unfold mul_fresh, bind. destruct (arr_info l s) as [s' [i|e]] eqn:E; [|inversion 1].
  pose proof (arr_info_inv _ _ _ _ E). subst s'. rewrite new_arr_eq. inversion 1; subst. eauto 8.
Qed.

(* what the converted operand is: a fresh array, or the time object that was passed *)
Definition fresh_arr (s s1 : store) (w : loc) : Prop :=
  exists bw sh k dt d, mem s1 w = Some (CArr bw sh k) /\ mem s1 bw = Some (CBuf dt d) /\
                       next s <= w /\ next s <= bw /\ w < next s1 /\ bw < next s1.

Lemma convert_rest_inv cf v s s1 w :
  (a <- asarray v ;; i <- arr_info a ;;
   a2 <- match a_dt i with I32 => astype a I64 | _ => ret a end ;; mul_fresh a2 cf) s = (s1, Ok w) ->
  fresh_arr s s1 w.
Proof.
  unfold bind at 1. pose proof (asarray_pure v s) as [P1 _].
  destruct (asarray v s) as [s2 [a|]]; [|inversion 1]. simpl in P1.
  unfold bind at 1. destruct (arr_info a s2) as [s3 [i|]] eqn:E2; [|inversion 1].
  apply arr_info_inv in E2. subst s3.
  unfold bind at 1.
  assert (Hx : forall s4 a2, next s2 <= next s4 -> mul_fresh a2 cf s4 = (s1, Ok w) -> fresh_arr s s1 w).
  { intros s4 a2 Hn H. apply mul_fresh_inv in H as (dt & d & sh & kk & -> & ->).
    exists (next s4), sh, kk, dt, d. cbn [mem next]. rewrite upd_same.
    rewrite upd_other by lia. rewrite upd_same. repeat split; auto; lia. }
  destruct (a_dt i).
  - pose proof (astype_pure a I64 s2) as [P2 _].
    destruct (astype a I64 s2) as [s4 [a2|]]; [|inversion 1]. simpl in P2. apply Hx; lia.
  - apply Hx; lia.
  - apply Hx; lia.
  - apply Hx; lia.
Qed.

Lemma astype_fresh l dt s s1 a : astype l dt s = (s1, Ok a) -> fresh_arr s s1 a.
Proof.
  unfold astype, bind. destruct (arr_info l s) as [s' [i|e]] eqn:E; [|inversion 1].
  pose proof (arr_info_inv _ _ _ _ E). subst s'. rewrite new_arr_eq. inversion 1; subst.
  exists (next s), (a_shape i), KPlain, dt, (a_data i). cbn [mem next]. rewrite upd_same.
  rewrite upd_other by lia. rewrite upd_same. repeat split; auto; lia.
Qed.

(* the converted operand is ALWAYS a fresh array (a time-object operand is copied since c3a0f82) *)
Lemma ut_convert_inv cf v s s1 w : ut_convert cf v s = (s1, Ok w) ->
  ext [] s s1 /\ fresh_arr s s1 w.
Proof.
  intros H. split.
  { pose proof (ut_convert_pure cf v s) as P. rewrite H in P. exact P. }
  revert H. unfold ut_convert. unfold bind at 1.
  destruct (has_cf v s) as [sa [h|]] eqn:Eh; [|inversion 1].
  apply has_cf_inv in Eh. subst sa.
  destruct h as [z|]; destruct v as [x|x|l]; try (intros H; eapply convert_rest_inv; exact H).
  unfold bind. destruct (arr_info l s) as [s' [i|e]] eqn:E; [|inversion 1].
  pose proof (arr_info_inv _ _ _ _ E). subst s'. apply astype_fresh.
Qed.

Lemma scalar_of_inv l s s1 x : scalar_of l s = (s1, Ok x) -> s1 = s.
Proof.
  unfold scalar_of, bind. destruct (arr_info l s) as [s' [i|]] eqn:E; [|inversion 1].
  apply arr_info_inv in E. subst s'. destruct (a_data i) as [|z [|]]; inversion 1; auto.
Qed.

Lemma diffs_cons d d0 ds : diffs d = d0 :: ds -> exists v0 v1 r, d = v0 :: v1 :: r /\ d0 = (v1 - v0)%Z.
Proof. destruct d as [|v0 [|v1 r]]; simpl; inversion 1. eauto. Qed.

Lemma arr_info_inv2 l s s1 i : arr_info l s = (s1, Ok i) ->
  mem s l = Some (CArr (a_buf i) (a_shape i) (a_kind i)) /\ mem s (a_buf i) = Some (CBuf (a_dt i) (a_data i)).
Proof.
  unfold arr_info. cbv beta delta [bind read ret raise].
  destruct (mem s l) as [[| |b sh k|]|] eqn:E1; try (inversion 1; fail).
  destruct (mem s b) as [[]|] eqn:E2; inversion 1; subst; simpl. auto.
Qed.

Lemma ut_check_inv si sign w s s1 w' : ut_check si sign w s = (s1, Ok w') ->
  s1 = s /\ w' = w /\ exists i, arr_info w s = (s, Ok i) /\
  forall n, a_shape i = [n] -> exists v0 v1 r x,
     a_data i = v0 :: v1 :: r /\ scalar_of si s = (s, Ok x) /\ (fst x + sign * (v1 - v0) > 0)%Z.
Proof.
  unfold ut_check. unfold bind at 1.
  destruct (arr_info w s) as [s2 [i|]] eqn:E; [|inversion 1].
  pose proof (arr_info_inv _ _ _ _ E). subst s2.
  destruct (a_shape i) as [|n [|n2 r]] eqn:Es.
  - inversion 1; subst. repeat split; auto. exists i. split; auto. intros m Hm. rewrite Es in Hm. discriminate.
  - destruct (diffs (a_data i)) as [|d0 ds] eqn:Ed; [inversion 1|].
    destruct (forallb (Z.eqb d0) ds); [|inversion 1].
    unfold bind. destruct (scalar_of si s) as [s3 [x|]] eqn:Ex; [|inversion 1].
    pose proof (scalar_of_inv _ _ _ _ Ex). subst s3.
    destruct (Z.leb_spec (fst x + sign * d0) 0); inversion 1; subst.
    repeat split; auto. exists i. split; auto. intros m _.
    apply diffs_cons in Ed as (v0 & v1 & r & Hd & ->). exists v0, v1, r, x. repeat split; auto. lia.
  - inversion 1; subst. repeat split; auto. exists i. split; auto. intros m Hm. rewrite Es in Hm. discriminate.
Qed.

Lemma iop_inplace_ok f self w s s2 : iop_inplace f self w s = (s2, Ok tt) ->
  exists b sh k dt d cb, mem s self = Some (CArr b sh k) /\ mem s b = Some (CBuf dt d) /\
                         s2 = mkstore (next s) (upd (mem s) b cb).
Proof.
  unfold iop_inplace. unfold bind at 1.
  destruct (arr_info self s) as [s1 [ia|]] eqn:E1; [|inversion 1].
  pose proof (arr_info_inv _ _ _ _ E1). subst s1. apply arr_info_inv2 in E1 as [A B].
  unfold bind at 1. destruct (arr_info w s) as [s1 [ib|]] eqn:E2; [|inversion 1].
  pose proof (arr_info_inv _ _ _ _ E2). subst s1.
  destruct (is_int (a_dt ia) && negb (is_int (a_dt ib)) && negb match a_dt ib with B8 => true | _ => false end);
    [inversion 1|].
  destruct (bcast f (a_data ia) (a_shape ia) (a_data ib) (a_shape ib)) as [[d sh]|]; [|inversion 1].
  destruct (shape_eqb sh (a_shape ia)); [|inversion 1].
  rewrite write_eq. inversion 1; subst. eauto 10.
Qed.

(* a well-typed time axis: the three attribute slots hold one-valued time objects that are
   separate from the axis itself and from its sample buffer *)
Definition typed_axis (s : store) (self b : loc) : Prop :=
  exists sh cf t0 si dur b0 b1 b2 z0 z1 z2 c0 c1 c2,
    mem s self = Some (CArr b sh (KUniform cf t0 si dur)) /\
    scalar_at s t0 b0 z0 c0 /\ scalar_at s si b1 z1 c1 /\ scalar_at s dur b2 z2 c2 /\
    t0 <> self /\ si <> self /\ dur <> self /\ b0 <> b /\ b1 <> b /\ b2 <> b.

Lemma wf_lt s l c : wf s -> mem s l = Some c -> l < next s.
Proof.
  intros [H _] Hm. destruct (Nat.lt_ge_cases l (next s)); auto. rewrite H in Hm by auto. discriminate.
Qed.

(* FAILURE ATOMICITY of UniformTime += / -= : a failing call has written nothing *)
Lemma ut_iop_failure_atomic sign self v s e b :
  wf s -> typed_axis s self b ->
  snd (ut_iop sign self v s) = Exn e -> ext [] s (fst (ut_iop sign self v s)).
Proof.
  intros Hwf (sh & cf & t0 & si & dur & b0 & b1 & b2 & z0 & z1 & z2 & c0 & c1 & c2 &
              Hself & Ht0 & Hsi & Hdur & N1 & N2 & N3 & N4 & N5 & N6) Hexn.
  destruct (ut_iop_failure_cases _ _ _ _ _ Hexn) as [|(s1 & w & s2 & E1 & E2 & E3)]; auto.
  exfalso.
  (* the prefix *)
  revert E1. unfold ut_convert_check. unfold bind at 1. rewrite (read_ok _ _ _ Hself). cbv beta iota.
  unfold bind at 1. destruct (ut_convert cf v s) as [sa [w0|]] eqn:Ec; [|inversion 1].
  intros Ek. apply ut_check_inv in Ek as (Hs1 & Hw0 & i & Ei & Hshape). subst sa w0.
  apply ut_convert_inv in Ec as [[Hn Hext] Hw].
  apply iop_inplace_ok in E2 as (b' & sh' & k' & dtb & db & cb & Hs1self & Hs1b & ->).
  pose proof (wf_lt _ _ _ Hwf Hself) as Lself.
  assert (Same : forall l, l < next s -> mem s1 l = mem s l) by (intros; apply Hext; auto).
  rewrite (Same self Lself), Hself in Hs1self. inversion Hs1self; subst b' sh' k'. clear Hs1self.
  pose proof Hwf as [_ Hrefs].
  assert (Lb : b < next s) by (apply (Hrefs self _ Hself); simpl; auto).
  assert (Lt0 : t0 < next s) by (apply (Hrefs self _ Hself); simpl; auto).
  assert (Lsi : si < next s) by (apply (Hrefs self _ Hself); simpl; auto).
  assert (Ldur : dur < next s) by (apply (Hrefs self _ Hself); simpl; auto).
  rewrite (Same b Lb) in Hs1b.
  destruct Ht0 as (sh0 & k0 & dt0 & Ht0 & Hb0 & Hc0).
  destruct Hsi as (sh1 & k1 & dt1 & Hsi & Hb1 & Hc1).
  destruct Hdur as (sh2 & k2 & dt2 & Hdur & Hb2 & Hc2).
  assert (Lb0 : b0 < next s) by (apply (Hrefs t0 _ Ht0); destruct k0; simpl; auto).
  assert (Lb1 : b1 < next s) by (apply (Hrefs si _ Hsi); destruct k1; simpl; auto).
  assert (Lb2 : b2 < next s) by (apply (Hrefs dur _ Hdur); destruct k2; simpl; auto).
  apply arr_info_inv2 in Ei as [Hw1 Hw2].
  (* the operand, as converted, is separate from the axis *)
  assert (Hsep : a_buf i <> b /\ w <> self /\ w < next s1 /\ a_buf i < next s1).
  { destruct Hw as (bw & shw & kw & dtw & dw & A & B & C & D & E & F).
    rewrite Hw1 in A. inversion A; subst. repeat split; auto; lia. }
  destruct Hsep as (S1 & S2 & S3 & S4).
  assert (Ws : w <> b) by (intro; subst w; rewrite (Same b Lb), Hs1b in Hw1; discriminate).
  assert (Bs : a_buf i <> self).
  { intro Hx. rewrite Hx in Hw2. rewrite (Same self Lself), Hself in Hw2. discriminate. }
  assert (Es : snd (follow_shift self w sign {| next := next s1; mem := upd (mem s1) b cb |}) = Ok tt).
  { eapply (follow_shift_runs self w sign s1 cb b sh cf t0 si dur (a_buf i) (a_shape i) (a_kind i) (a_dt i) (a_data i)
              b0 b1 b2 z0 z1 z2 c0 c1 c2); try lia; auto.
    - rewrite Same; auto.
    - exists sh0, k0, dt0. rewrite !Same; auto.
    - exists sh1, k1, dt1. rewrite !Same; auto.
    - exists sh2, k2, dt2. rewrite !Same; auto.
    - intros n Hn'. destruct (Hshape n Hn') as (v0 & v1 & r & x & Hd & Hx & Hpos).
      exists v0, v1, r. split; auto.
      erewrite scalar_of_ok in Hx; [|rewrite Same; eauto|rewrite Same; eauto]. inversion Hx; subst x.
      simpl in Hpos. replace (sign * v1 - sign * v0)%Z with (sign * (v1 - v0))%Z by ring. lia.
    - intro; subst. rewrite Hself in Hs1b. discriminate.
    - intro; subst. rewrite Ht0 in Hs1b. discriminate.
    - intro; subst. rewrite Hsi in Hs1b. discriminate.
    - intro; subst. rewrite Hdur in Hs1b. discriminate.
    - intro; subst. rewrite Hself in Hb0. discriminate.
    - intro; subst. rewrite Hself in Hb1. discriminate.
    - intro; subst. rewrite Hself in Hb2. discriminate. }
  rewrite Es in E3. discriminate.
Qed.

Lemma rebind_scaled_runs self k s1 cb b sh cf t0 si dur b0 b1 b2 z0 z1 z2 c0 c1 c2 :
  let s2 := mkstore (next s1) (upd (mem s1) b cb) in
  mem s1 self = Some (CArr b sh (KUniform cf t0 si dur)) ->
  scalar_at s1 t0 b0 z0 c0 -> scalar_at s1 si b1 z1 c1 -> scalar_at s1 dur b2 z2 c2 ->
  (k <> 0)%Z ->
  self < next s1 ->
  t0 < next s1 -> b0 < next s1 -> si < next s1 -> b1 < next s1 -> dur < next s1 -> b2 < next s1 ->
  self <> b ->
  t0 <> b -> b0 <> b -> si <> b -> b1 <> b -> dur <> b -> b2 <> b ->
  t0 <> self -> b0 <> self -> si <> self -> b1 <> self -> dur <> self -> b2 <> self ->
  snd (rebind_scaled self k s2) = Ok tt.
Proof.
  intros s2 Hself (sh0 & k0 & dt0 & Ht0 & Hb0 & Hc0) (sh1 & k1 & dt1 & Hsi & Hb1 & Hc1)
         (sh2 & k2 & dt2 & Hdur & Hb2 & Hc2) Hk.
  intros. subst s2.
  assert (L1 : mem {| next := next s1; mem := upd (mem s1) b cb |} self = Some (CArr b sh (KUniform cf t0 si dur))) by lk.
  unfold rebind_scaled. unfold bind at 1. rewrite (read_ok _ _ _ L1). cbv beta iota.
  unfold bind at 1. erewrite (scalar_of_ok t0) by lk. cbv beta iota.
  unfold bind at 1. rewrite new_arr_eq. cbv beta iota.
  unfold bind at 1. rewrite write_eq. cbv beta iota.
  unfold bind at 1. erewrite (scalar_of_ok si) by lk. cbv beta iota.
  unfold bind at 1. rewrite new_arr_eq. cbv beta iota.
  unfold bind at 1. rewrite write_eq. cbv beta iota.
  unfold bind at 1. erewrite (scalar_of_ok dur) by lk. cbv beta iota.
  unfold bind at 1. rewrite new_arr_eq. cbv beta iota.
  unfold bind at 1. rewrite write_eq. cbv beta iota.
  destruct (Z.eqb_spec k 0); [contradiction|reflexivity].
Qed.

Lemma ut_imul_failure_cases2 self v s e :
  snd (ut_imul self v s) = Exn e ->
  ext [] s (fst (ut_imul self v s)) \/
  exists k s2, v = PInt k /\ (0 < k)%Z /\
     iop_inplace Z.mul self (S (next s)) (fst (new_arr I64 [k] [] KPlain s)) = (s2, Ok tt) /\
     snd (rebind_scaled self k s2) = Exn e.
Proof.
  intros H. destruct v as [k|k|l].
  - revert H. unfold ut_imul. destruct (Z.leb_spec k 0) as [Hle|Hgt]; [intros; left; apply ext_refl|].
    cbv beta delta [bind]. rewrite new_arr_eq. cbn [fst snd].
    match goal with |- context [iop_inplace Z.mul self ?kk ?st] =>
      assert (Hp : ext [] s st) by (change st with (fst (new_arr I64 [k] [] KPlain s)); apply new_arr_pure);
      destruct (iop_inplace Z.mul self kk st) as [s2 [[]|e2]] eqn:E2; cbn [fst snd]
    end.
    + intros H'. right. exists k, s2. repeat split; auto.
    + intros _. left.
      match type of E2 with iop_inplace ?f ?a ?b ?st = _ =>
        pose proof (iop_inplace_exn f a b st e2) as Hx end.
      rewrite E2 in Hx. simpl in Hx. rewrite Hx by reflexivity. exact Hp.
  - destruct (ut_imul_failure_cases _ _ _ _ H) as [|(k' & s2 & Hv & _)]; auto. discriminate.
  - destruct (ut_imul_failure_cases _ _ _ _ H) as [|(k' & s2 & Hv & _)]; auto. discriminate.
Qed.

(* FAILURE ATOMICITY of UniformTime *= : a failing call has written nothing *)
Lemma ut_imul_failure_atomic self v s e b :
  wf s -> typed_axis s self b ->
  snd (ut_imul self v s) = Exn e -> ext [] s (fst (ut_imul self v s)).
Proof.
  intros Hwf (sh & cf & t0 & si & dur & b0 & b1 & b2 & z0 & z1 & z2 & c0 & c1 & c2 &
              Hself & Ht0 & Hsi & Hdur & N1 & N2 & N3 & N4 & N5 & N6) Hexn.
  destruct (ut_imul_failure_cases2 _ _ _ _ Hexn) as [|(k & s2 & -> & Hk & E2 & E3)]; auto.
  exfalso. rewrite new_arr_eq in E2. cbn [fst] in E2.
  apply iop_inplace_ok in E2 as (b' & sh' & k' & dtb & db & cb & Hs1self & Hs1b & ->).
  pose proof (wf_lt _ _ _ Hwf Hself) as Lself.
  pose proof Hwf as [_ Hrefs].
  assert (Lb : b < next s) by (apply (Hrefs self _ Hself); simpl; auto).
  assert (Lt0 : t0 < next s) by (apply (Hrefs self _ Hself); simpl; auto).
  assert (Lsi : si < next s) by (apply (Hrefs self _ Hself); simpl; auto).
  assert (Ldur : dur < next s) by (apply (Hrefs self _ Hself); simpl; auto).
  set (s1 := {| next := S (S (next s));
                mem := upd (upd (mem s) (next s) (CBuf I64 [k])) (S (next s)) (CArr (next s) [] KPlain) |}) in *.
  assert (Same : forall l, l < next s -> mem s1 l = mem s l).
  { intros l Hl. subst s1. cbn [mem]. rewrite !upd_other by lia. reflexivity. }
  rewrite (Same self Lself), Hself in Hs1self. inversion Hs1self; subst b' sh' k'. clear Hs1self.
  rewrite (Same b Lb) in Hs1b.
  destruct Ht0 as (sh0 & k0 & dt0 & Ht0 & Hb0 & Hc0).
  destruct Hsi as (sh1 & k1 & dt1 & Hsi & Hb1 & Hc1).
  destruct Hdur as (sh2 & k2 & dt2 & Hdur & Hb2 & Hc2).
  assert (Lb0 : b0 < next s) by (apply (Hrefs t0 _ Ht0); destruct k0; simpl; auto).
  assert (Lb1 : b1 < next s) by (apply (Hrefs si _ Hsi); destruct k1; simpl; auto).
  assert (Lb2 : b2 < next s) by (apply (Hrefs dur _ Hdur); destruct k2; simpl; auto).
  assert (Ns : next s1 = S (S (next s))) by reflexivity.
  assert (Es : snd (rebind_scaled self k {| next := next s1; mem := upd (mem s1) b cb |}) = Ok tt).
  { eapply (rebind_scaled_runs self k s1 cb b sh cf t0 si dur b0 b1 b2 z0 z1 z2 c0 c1 c2); try lia; auto.
    - rewrite Same; auto.
    - exists sh0, k0, dt0. rewrite !Same; auto.
    - exists sh1, k1, dt1. rewrite !Same; auto.
    - exists sh2, k2, dt2. rewrite !Same; auto.
    - intro; subst. rewrite Hself in Hs1b. discriminate.
    - intro; subst. rewrite Ht0 in Hs1b. discriminate.
    - intro; subst. rewrite Hsi in Hs1b. discriminate.
    - intro; subst. rewrite Hdur in Hs1b. discriminate.
    - intro; subst. rewrite Hself in Hb0. discriminate.
    - intro; subst. rewrite Hself in Hb1. discriminate.
    - intro; subst. rewrite Hself in Hb2. discriminate. }
  rewrite Es in E3. discriminate.
Qed.

(* observable forms *)
Lemma ut_iop_failure_atomic_snapshot sign self v s e b l :
  wf s -> typed_axis s self b ->
  l < next s -> snd (ut_iop sign self v s) = Exn e ->
  snapshot (fst (ut_iop sign self v s)) l = snapshot s l.
Proof. intros. apply ext_nil_snapshot; auto. eapply ut_iop_failure_atomic; eauto. Qed.
Lemma ut_imul_failure_atomic_snapshot self v s e b l :
  wf s -> typed_axis s self b -> l < next s -> snd (ut_imul self v s) = Exn e ->
  snapshot (fst (ut_imul self v s)) l = snapshot s l.
Proof. intros. apply ext_nil_snapshot; auto. eapply ut_imul_failure_atomic; eauto. Qed.

(* non-vacuity: the example axis is well-typed, its operand is separate, and both calls fail *)
Lemma ex_ut2_typed : typed_axis ex_ut2 7 6.
Proof.
  - exists [3], 1000000000%Z, 1, 3, 5, 0, 2, 4, 0%Z, 1000000000%Z, 3000000000%Z, 1000000000%Z, 1000000000%Z, 1000000000%Z.
    split; [reflexivity|].
    split; [exists [], (KTime 1000000000), I64; repeat split|].
    split; [exists [], (KTime 1000000000), I64; repeat split|].
    split; [exists [], (KTime 1000000000), I64; repeat split|].
    repeat split; discriminate.
Qed.
(* `u += u`: the axis as its own operand (a private copy is taken): applied, samples doubled *)
Lemma ex_ut_iadd_self :
  snd (ut_iop 1 7 (PRef 7) ex_ut) = Ok tt /\ snapshot (fst (ut_iop 1 7 (PRef 7) ex_ut)) 7 <> snapshot ex_ut 7.
Proof. split; vm_compute; [reflexivity|discriminate]. Qed.

(* ------------------------------------------------------------------ objects derived through numpy *)
Lemma np_derive_pure g x : pure (np_derive g x).
Proof. unfold np_derive. pure_tac. Qed.
Lemma view_of_pure x : pure (view_of x).
Proof. unfold view_of. pure_tac. Qed.

Lemma np_derive_eq g x s s1 d : np_derive g x s = (s1, Ok d) ->
  exists dt da sh k,
    s1 = mkstore (S (S (next s))) (upd (upd (mem s) (next s) (CBuf dt da)) (S (next s)) (CArr (next s) sh k))
    /\ d = S (next s).
Proof.
  unfold np_derive, bind. destruct (arr_info x s) as [s' [i|e]] eqn:E; [|inversion 1].
  pose proof (arr_info_inv _ _ _ _ E). subst s'. rewrite new_arr_eq. inversion 1; subst. eauto 8.
Qed.

(* histories of in-place operations on c whose header keeps buffer bc: only c (fresh) and bc (fresh,
   or allowed by F) are written *)
Lemma run_uops_ext F s0 c bc ops : forall s,
  next s0 <= c -> (next s0 <= bc \/ In bc F) -> c <> bc -> hdr s c bc -> ext F s0 s ->
  ext F s0 (run_uops c ops s).
Proof.
  induction ops as [|o r IH]; intros s Hc Hb Hn Hh He; simpl; auto.
  pose proof Hh as [Hl (sh & k & Hm)].
  apply IH; auto.
  - apply run_uop_keeps; auto.
  - eapply ext_step; [exact He|eapply run_uop_frame; eauto|].
    intros l [<-|[<-|[]]] Hlt; [lia|]. destruct Hb; [lia|auto].
Qed.

(* DERIVED AXES: after d = x + 0 / x - 1 / copy.copy(x) / deepcopy(x) / np.copy(x, subok=True), which
   shares x's t0 / interval / duration objects, ANY sequence of += -= *= on d leaves every location
   that existed before as it was: the attribute objects are re-bound, never written *)
Lemma derive_then_history g x s s1 d ops :
  np_derive g x s = (s1, Ok d) -> ext [] s (run_uops d ops s1).
Proof.
  intros Hd. pose proof (np_derive_pure g x s) as He. rewrite Hd in He. simpl in He.
  apply np_derive_eq in Hd as (dt & da & sh & k & -> & ->).
  apply run_uops_ext with (bc := next s).
  - lia.
  - left. lia.
  - lia.
  - split; simpl; [lia|]. exists sh, k. apply upd_same.
  - exact He.
Qed.

(* VIEWS: after v = x[:] / x.view(), a history on v writes the shared sample buffer b (numpy's view
   semantics) and nothing else that existed: in particular not the attribute objects of x *)
Lemma view_then_history x s s1 v ops b sh k :
  mem s x = Some (CArr b sh k) -> b < next s -> view_of x s = (s1, Ok v) ->
  ext [b] s (run_uops v ops s1).
Proof.
  intros Hm Hb Hv. pose proof (view_of_pure x s) as He. rewrite Hv in He. simpl in He.
  revert Hv. unfold view_of. cbv beta delta [bind read]. rewrite Hm. unfold alloc. inversion 1; subst.
  apply run_uops_ext with (bc := b).
  - simpl. lia.
  - right. simpl. auto.
  - lia.
  - split; simpl; [lia|]. exists sh, k. apply upd_same.
  - eapply ext_weaken; [exact He|intros l []].
Qed.

Lemma derive_history_snapshot g x s s1 d ops l :
  wf s -> l < next s -> np_derive g x s = (s1, Ok d) -> snapshot (run_uops d ops s1) l = snapshot s l.
Proof. intros. apply ext_nil_snapshot; auto. eapply derive_then_history; eauto. Qed.

Lemma view_history_snapshot x s s1 v ops b sh k l :
  wf s -> mem s x = Some (CArr b sh k) -> view_of x s = (s1, Ok v) ->
  l < next s -> ~ In b (footprint s l) ->
  snapshot (run_uops v ops s1) l = snapshot s l.
Proof.
  intros Hw Hm Hv Hl Hn. apply (frame_snapshot [b]); auto.
  - eapply view_then_history; eauto. destruct Hw as [_ Hr]. apply (Hr x _ Hm). destruct k; simpl; auto.
  - intros y Hy [<-|[]]. auto.
Qed.

(* a TimeArray derived through numpy, then element assignment on it *)
Lemma derive_then_setitem g x s s1 d a n v :
  np_derive g x s = (s1, Ok d) -> ext [] s (fst (ta_setitem d a n v s1)).
Proof.
  intros Hd. pose proof (np_derive_pure g x s) as He. rewrite Hd in He. simpl in He.
  apply np_derive_eq in Hd as (dt & da & sh & k & -> & ->).
  eapply ext_step; [exact He|eapply ta_setitem_frame with (b := next s) (sh := sh) (k := k)|].
  - cbn [mem]. apply upd_same.
  - cbn [next]. lia.
  - intros l [<-|[]] Hl. lia.
Qed.
Lemma derive_setitem_snapshot g x s s1 d a n v l : wf s -> l < next s ->
  np_derive g x s = (s1, Ok d) -> snapshot (fst (ta_setitem d a n v s1)) l = snapshot s l.
Proof. intros. apply ext_nil_snapshot; auto. eapply derive_then_setitem; eauto. Qed.

(* witnesses on the example axis (object 7; t0 / interval / duration are objects 1 / 3 / 5) *)
(* the derived axis shares the attribute objects ... *)
Lemma ex_derived_shares :
  exists s1 d, np_derive (fun l => l) 7 ex_ut = (s1, Ok d) /\ In 1 (footprint s1 d) /\ In 3 (footprint s1 d).
Proof. eexists. eexists. split; [vm_compute; reflexivity|]. split; vm_compute; tauto. Qed.
(* ... and `d += 3` re-binds: d moves, the original (samples and attribute VALUES) does not *)
Lemma ex_derived_iadd :
  exists s1 d, np_derive (fun l => l) 7 ex_ut = (s1, Ok d) /\
    snd (ut_iop 1 d (PInt 3) s1) = Ok tt /\
    snapshot (fst (ut_iop 1 d (PInt 3) s1)) d <> snapshot s1 d /\
    snapshot (fst (ut_iop 1 d (PInt 3) s1)) 7 = snapshot ex_ut 7.
Proof.
  eexists. eexists. split; [vm_compute; reflexivity|]. repeat split; vm_compute; try reflexivity; discriminate.
Qed.
(* with augmented assignments in _follow_shift the shared t0 object is overwritten: the original axis,
   which the call never received, shows a different t0 although its samples stay put *)
Lemma follow_shift_aug_refuted :
  exists s x s1 d, np_derive (fun l => l) x s = (s1, Ok d) /\
    snd (ut_iop_aug 1 d (PInt 3) s1) = Ok tt /\
    snapshot (fst (ut_iop_aug 1 d (PInt 3) s1)) x <> snapshot s x /\
    arr_snap (fst (ut_iop_aug 1 d (PInt 3) s1)) x = arr_snap s x.
Proof.
  exists ex_ut, 7. eexists. eexists. split; [vm_compute; reflexivity|].
  repeat split; vm_compute; try reflexivity; discriminate.
Qed.
(* a view: `v += 3` moves the shared samples, the attribute objects of the original keep their values *)
Lemma ex_view_iadd :
  exists s1 v, view_of 7 ex_ut = (s1, Ok v) /\
    snd (ut_iop 1 v (PInt 3) s1) = Ok tt /\
    arr_snap (fst (ut_iop 1 v (PInt 3) s1)) 7 <> arr_snap ex_ut 7 /\
    snapshot (fst (ut_iop 1 v (PInt 3) s1)) 1 = snapshot ex_ut 1 /\
    snapshot (fst (ut_iop 1 v (PInt 3) s1)) 3 = snapshot ex_ut 3 /\
    snapshot (fst (ut_iop 1 v (PInt 3) s1)) 5 = snapshot ex_ut 5.
Proof.
  eexists. eexists. split; [vm_compute; reflexivity|]. repeat split; vm_compute; try reflexivity; discriminate.
Qed.
