(* Proofs/FilterP.v — lemmas about Model/Filter.v (property C18). *)
From Coq Require Import QArith ZArith List Bool Arith Lia Psatz PrimFloat Setoid Morphisms.
From NT Require Import F2Z QC Sums TimeArray Filter.
Import ListNotations.
Open Scope Q_scope.

(* ------------------------------------------------------------------ sums, means *)
Lemma sumr_sumn f n : sumr f n == sumn f n.
Proof. induction n; cbn [sumr sumn]; [reflexivity|]. rewrite Qred_correct, IHn. reflexivity. Qed.

Lemma qn_pos n : (0 < n)%nat -> 0 < qn n.
Proof. intros H. unfold qn. change 0 with (inject_Z 0). rewrite <- Zlt_Qlt. lia. Qed.
Lemma qn_nz n : (0 < n)%nat -> ~ qn n == 0.
Proof. intros H E. pose proof (qn_pos n H). lra. Qed.
Lemma qn_S n : qn (S n) == qn n + 1.
Proof. unfold qn. rewrite Nat2Z.inj_succ. unfold Z.succ. rewrite inject_Z_plus. reflexivity. Qed.
Lemma qn_add a b : qn (a + b) == qn a + qn b.
Proof. unfold qn. rewrite Nat2Z.inj_add, inject_Z_plus. reflexivity. Qed.
Lemma qn_mul a b : qn (a * b) == qn a * qn b.
Proof. unfold qn. rewrite Nat2Z.inj_mul, inject_Z_mult. reflexivity. Qed.

Lemma sumn_const c n : sumn (fun _ => c) n == qn n * c.
Proof. induction n; [unfold qn; simpl; ring|]. simpl sumn. rewrite IHn, qn_S. ring. Qed.

Lemma mean_ext x y n : (forall t, (t < n)%nat -> x t == y t) -> mean x n == mean y n.
Proof. intros H. unfold mean. rewrite !sumr_sumn, (sumn_ext x y n H). reflexivity. Qed.
Lemma mean_lin a b x y n :
  mean (fun t => a * x t + b * y t) n == a * mean x n + b * mean y n.
Proof.
  unfold mean. rewrite !sumr_sumn, sumn_plus, !sumn_scal.
  unfold Qdiv. ring.
Qed.
Lemma mean_const c n : (0 < n)%nat -> mean (fun _ => c) n == c.
Proof. intros H. unfold mean. rewrite sumr_sumn, sumn_const. field. apply qn_nz; exact H. Qed.
Lemma mean_shift x c n : (0 < n)%nat -> mean (fun t => x t + c) n == mean x n + c.
Proof.
  intros H. unfold mean. rewrite !sumr_sumn, sumn_plus, sumn_const. field. apply qn_nz; exact H.
Qed.

(* ------------------------------------------------------------------ B. DC restoration *)
Lemma dc_restore_unfold n x y t : dc_restore n x y t = y t - mean y n + mean x n.
Proof. reflexivity. Qed.

(* whatever the library filter returned (y), the wrapper's output has the mean of the input *)
Lemma dc_restore_mean n x y : (0 < n)%nat -> mean (dc_restore n x y) n == mean x n.
Proof.
  intros H.
  rewrite (mean_ext (dc_restore n x y) (fun t => y t + (mean x n - mean y n)) n).
  - rewrite mean_shift by exact H. ring.
  - intros t _. rewrite dc_restore_unfold. ring.
Qed.

Lemma dc_restore_ext n x x' y y' :
  (forall t, (t < n)%nat -> x t == x' t) -> (forall t, (t < n)%nat -> y t == y' t) ->
  forall t, (t < n)%nat -> dc_restore n x y t == dc_restore n x' y' t.
Proof.
  intros Hx Hy t Ht. rewrite !dc_restore_unfold, (mean_ext x x' n Hx), (mean_ext y y' n Hy), (Hy t Ht).
  reflexivity.
Qed.

Lemma dc_restore_lin n a b x x' y y' t :
  dc_restore n (fun t => a * x t + b * x' t) (fun t => a * y t + b * y' t) t
  == a * dc_restore n x y t + b * dc_restore n x' y' t.
Proof. rewrite !dc_restore_unfold, !mean_lin. ring. Qed.

Section Filtfilt.
  Variable n : nat.
  Hypothesis n_pos : (0 < n)%nat.
  (* scipy.signal.filtfilt(b, a, .) for fixed b, a: only linearity is assumed *)
  Variable F : (nat -> Q) -> nat -> Q.
  Hypothesis F_lin : forall a b x y t, (t < n)%nat ->
    F (fun s => a * x s + b * y s) t == a * F x t + b * F y t.

  Definition wrapped (x : nat -> Q) : nat -> Q := dc_restore n x (F x).

  Lemma wrapped_mean x : mean (wrapped x) n == mean x n.
  Proof. apply dc_restore_mean; exact n_pos. Qed.

  Lemma wrapped_lin a b x y t : (t < n)%nat ->
    wrapped (fun s => a * x s + b * y s) t == a * wrapped x t + b * wrapped y t.
  Proof.
    intros Ht. unfold wrapped.
    rewrite (dc_restore_ext n _ (fun s => a * x s + b * y s) _ (fun s => a * F x s + b * F y s)).
    - apply dc_restore_lin.
    - intros; reflexivity.
    - intros s Hs. apply F_lin; exact Hs.
    - exact Ht.
  Qed.
End Filtfilt.

(* a chain of wrapped stages (fir: low-pass then high-pass): any number of stages *)
Lemma chain_mean n x raws : (0 < n)%nat -> mean (chain n x raws) n == mean x n.
Proof.
  intros H. revert x. induction raws as [|r rest IH]; intros x; simpl; [reflexivity|].
  rewrite IH. apply dc_restore_mean; exact H.
Qed.

Section FirChain.
  Variable n : nat.
  Hypothesis n_pos : (0 < n)%nat.
  (* one linear library filter per stage, respecting equality on the n samples *)
  Definition lin (F : (nat -> Q) -> nat -> Q) : Prop :=
    (forall a b x y t, (t < n)%nat -> F (fun s => a * x s + b * y s) t == a * F x t + b * F y t) /\
    (forall x y, (forall t, (t < n)%nat -> x t == y t) -> forall t, (t < n)%nat -> F x t == F y t).

  Fixpoint run (Fs : list ((nat -> Q) -> nat -> Q)) (x : nat -> Q) : nat -> Q :=
    match Fs with
    | [] => x
    | F :: rest => run rest (wrapped n F x)
    end.

  Lemma run_mean Fs x : mean (run Fs x) n == mean x n.
  Proof.
    revert x; induction Fs as [|F rest IH]; intros x; simpl; [reflexivity|].
    rewrite IH. apply wrapped_mean; exact n_pos.
  Qed.

  Lemma run_ext Fs : Forall lin Fs -> forall x y, (forall t, (t < n)%nat -> x t == y t) ->
    forall t, (t < n)%nat -> run Fs x t == run Fs y t.
  Proof.
    induction 1 as [|F rest [HF1 HF2] _ IH]; intros x y Hxy t Ht; simpl; [auto|].
    apply IH; [|exact Ht]. intros s Hs. unfold wrapped.
    apply dc_restore_ext; auto.
  Qed.

  Lemma run_lin Fs : Forall lin Fs -> forall a b x y t, (t < n)%nat ->
    run Fs (fun s => a * x s + b * y s) t == a * run Fs x t + b * run Fs y t.
  Proof.
    induction 1 as [|F rest HF HR IH]; intros a b x y t Ht; simpl; [reflexivity|].
    rewrite <- IH by exact Ht.
    apply (run_ext rest HR); [|exact Ht].
    intros s Hs. destruct HF as [HF1 HF2]. apply wrapped_lin; assumption.
  Qed.
End FirChain.

(* spectral inversion: the DC gain of the high-pass taps is 1 - (DC gain of the low-pass taps) *)
Lemma sumn_delta (c : nat) n : (c < n)%nat ->
  sumn (fun i => if (i =? c)%nat then 1 else 0) n == 1.
Proof.
  induction n; intros H; [lia|]. simpl sumn.
  destruct (Nat.eq_dec c n) as [->|Hne].
  - rewrite Nat.eqb_refl.
    rewrite (sumn_ext _ (fun _ => 0) n), sumn_const0; [ring|].
    intros k Hk. replace (k =? n)%nat with false by (symmetry; apply Nat.eqb_neq; lia). reflexivity.
  - replace (n =? c)%nat with false by (symmetry; apply Nat.eqb_neq; lia).
    rewrite IHn by lia. ring.
Qed.

Lemma hp_taps_dc ntaps b : (0 < ntaps)%nat ->
  sumn (hp_taps ntaps b) ntaps == 1 - sumn b ntaps.
Proof.
  intros H.
  rewrite (sumn_ext (hp_taps ntaps b)
             (fun i => (-1) * b i + 1 * (if (i =? ntaps / 2)%nat then 1 else 0)) ntaps).
  - rewrite sumn_plus, !sumn_scal, sumn_delta; [ring|]. apply Nat.div_lt; lia.
  - intros k _. unfold hp_taps. destruct (k =? ntaps / 2)%nat; ring.
Qed.

(* ------------------------------------------------------------------ A. the Fourier mask *)
Lemma half_facts n : (0 < n)%nat -> (n / 2 < n /\ glen n <= n /\ (n = 2 * (n / 2) \/ n = 2 * (n / 2) + 1))%nat.
Proof.
  intros H. unfold glen.
  pose proof (Nat.div_mod n 2 ltac:(lia)). pose proof (Nat.mod_upper_bound n 2 ltac:(lia)). lia.
Qed.

Lemma in_idx0 Fs n lb ub k :
  In k (idx0 Fs n lb ub) <->
  (k < glen n)%nat /\ (Qltb (grid Fs n k) lb || Qltb ub (grid Fs n k) = true).
Proof.
  unfold idx0. rewrite in_app_iff, !filter_In, !in_seq, orb_true_iff. simpl. intuition.
Qed.

Lemma idx0_bound Fs n lb ub k : (0 < n)%nat -> In k (idx0 Fs n lb ub) -> (k < n)%nat.
Proof. intros Hn H. apply in_idx0 in H. destruct (half_facts n Hn) as (_ & G & _). lia. Qed.

Lemma hit_spec n j k : (0 < j < n)%nat -> (k <= n / 2)%nat ->
  hit n j k = (Nat.min j (n - j) =? k)%nat.
Proof.
  intros Hj Hk. unfold hit. destruct (half_facts n ltac:(lia)) as (A & _ & P).
  destruct (Nat.eq_dec k 0) as [->|K0].
  - rewrite Nat.sub_0_r, Nat.mod_same by lia.
    destruct (Nat.eqb_spec j 0); [lia|]. destruct (Nat.eqb_spec (Nat.min j (n - j)) 0); [lia|reflexivity].
  - rewrite (Nat.mod_small (n - k) n) by lia.
    destruct (Nat.eqb_spec j k), (Nat.eqb_spec j (n - k)), (Nat.eqb_spec (Nat.min j (n - j)) k);
      simpl; try reflexivity; lia.
Qed.

(* the mask as a function of the frequency the code attributes to the bin *)
Lemma zeroed_char Fs n lb ub j : (0 < j < n)%nat ->
  zeroed n (idx0 Fs n lb ub) j = Qltb (cfreq Fs n j) lb || Qltb ub (cfreq Fs n j).
Proof.
  intros Hj. destruct (half_facts n ltac:(lia)) as (A & G & P).
  assert (Hh : (Nat.min j (n - j) <= n / 2)%nat) by lia.
  apply eq_true_iff_eq. unfold zeroed, cfreq. rewrite existsb_exists. split.
  - intros (k & Hin & Hhit). apply in_idx0 in Hin. destruct Hin as [Hk Hc].
    unfold glen in Hk. rewrite hit_spec in Hhit by lia. apply Nat.eqb_eq in Hhit. rewrite Hhit. exact Hc.
  - intros Hc. exists (Nat.min j (n - j)). split.
    + apply in_idx0. split; [unfold glen; lia|exact Hc].
    + rewrite hit_spec by lia. apply Nat.eqb_refl.
Qed.

Definition keepb (Fs : Q) (n : nat) (lb ub : Q) (j : nat) : bool :=
  Qle_bool lb (cfreq Fs n j) && Qle_bool (cfreq Fs n j) ub.
Lemma zeroed_keepb Fs n lb ub j : (0 < j < n)%nat ->
  zeroed n (idx0 Fs n lb ub) j = negb (keepb Fs n lb ub j).
Proof.
  intros H. rewrite zeroed_char by exact H. unfold keepb, Qltb.
  destruct (Qle_bool lb (cfreq Fs n j)), (Qle_bool (cfreq Fs n j) ub); reflexivity.
Qed.

Lemma cfreq_sym Fs n j : (0 < j < n)%nat -> cfreq Fs n (n - j) = cfreq Fs n j.
Proof. intros H. unfold cfreq. f_equal. lia. Qed.

(* mask(k) = mask(N - k) *)
Lemma mask_symmetric Fs n lb ub j : (0 < j < n)%nat ->
  zeroed n (idx0 Fs n lb ub) (n - j) = zeroed n (idx0 Fs n lb ub) j.
Proof. intros H. rewrite !zeroed_char by lia. rewrite cfreq_sym by exact H. reflexivity. Qed.

(* bins kept / nulled, by the frequency the code attributes to them; all n *)
Lemma fourier_band_coded Fs n lb ub X j : (0 < j < n)%nat ->
  (lb <= cfreq Fs n j /\ cfreq Fs n j <= ub -> masked n (idx0 Fs n lb ub) X j = X j) /\
  (~ (lb <= cfreq Fs n j /\ cfreq Fs n j <= ub) -> masked n (idx0 Fs n lb ub) X j = c0).
Proof.
  intros H. unfold masked. replace (j =? 0)%nat with false by (symmetry; apply Nat.eqb_neq; lia).
  rewrite zeroed_keepb by exact H. unfold keepb. split.
  - intros [A B]. apply Qle_bool_iff in A. apply Qle_bool_iff in B. rewrite A, B. reflexivity.
  - intros N. destruct (Qle_bool lb (cfreq Fs n j)) eqn:A; [|reflexivity].
    destruct (Qle_bool (cfreq Fs n j) ub) eqn:B; [|reflexivity].
    exfalso. apply N. split; apply Qle_bool_iff; assumption.
Qed.

Lemma masked_dc n idx X : masked n idx X 0%nat = X 0%nat.
Proof. reflexivity. Qed.

(* for even n the attributed frequency is the true one ... *)
Lemma cfreq_even Fs n j : (0 < n)%nat -> Nat.even n = true -> cfreq Fs n j == tfreq Fs n j.
Proof.
  intros Hn He. apply Nat.even_spec in He. destruct He as [q Hq].
  assert (Hd : (n / 2 = q)%nat) by (subst n; rewrite Nat.mul_comm; apply Nat.div_mul; lia).
  unfold cfreq, tfreq, grid, glen. rewrite Hd.
  replace (q + 1 =? 1)%nat with false by (symmetry; apply Nat.eqb_neq; lia).
  replace (q + 1 - 1)%nat with q by lia.
  assert (E : qn n == 2 * qn q) by (subst n; rewrite qn_mul; unfold qn; simpl; ring).
  rewrite E. field. apply qn_nz; lia.
Qed.
(* ... for odd n >= 3 it is the true one times n/(n-1) *)
Lemma cfreq_odd Fs n j : (3 <= n)%nat -> Nat.odd n = true ->
  cfreq Fs n j * qn (n - 1) == tfreq Fs n j * qn n.
Proof.
  intros Hn Ho. apply Nat.odd_spec in Ho. destruct Ho as [q Hq].
  assert (Hd : (n / 2 = q)%nat).
  { subst n. replace (2 * q + 1)%nat with (1 + q * 2)%nat by lia. rewrite Nat.div_add by lia. reflexivity. }
  unfold cfreq, tfreq, grid, glen. rewrite Hd.
  replace (q + 1 =? 1)%nat with false by (symmetry; apply Nat.eqb_neq; lia).
  replace (q + 1 - 1)%nat with q by lia.
  assert (E : qn (n - 1) == 2 * qn q).
  { replace (n - 1)%nat with (2 * q)%nat by lia. rewrite qn_mul. unfold qn; simpl; ring. }
  rewrite E. field. split; apply qn_nz; lia.
Qed.

Lemma fourier_band_exact_even Fs n lb ub X j : Nat.even n = true -> (0 < j < n)%nat ->
  (lb <= tfreq Fs n j /\ tfreq Fs n j <= ub -> masked n (idx0 Fs n lb ub) X j = X j) /\
  (~ (lb <= tfreq Fs n j /\ tfreq Fs n j <= ub) -> masked n (idx0 Fs n lb ub) X j = c0).
Proof.
  intros He Hj. pose proof (cfreq_even Fs n j ltac:(lia) He) as E.
  destruct (fourier_band_coded Fs n lb ub X j Hj) as [A B]. split.
  - intros [P Q]. apply A. rewrite E. split; assumption.
  - intros N. apply B. rewrite E. exact N.
Qed.

(* ub = None on an even-length series: the upper edge is the Nyquist frequency *)
Lemma ub_eff_none_even Fs n : (0 < n)%nat -> Nat.even n = true -> ub_eff Fs n None == Fs / 2.
Proof.
  intros Hn He. apply Nat.even_spec in He. destruct He as [q Hq].
  assert (Hd : (n / 2 = q)%nat) by (subst n; rewrite Nat.mul_comm; apply Nat.div_mul; lia).
  unfold ub_eff, grid, glen. rewrite Hd.
  replace (q + 1 =? 1)%nat with false by (symmetry; apply Nat.eqb_neq; lia).
  replace (q + 1 - 1)%nat with q by lia. field. apply qn_nz; lia.
Qed.

(* odd n: witnesses that a bin inside the band is nulled, and that one outside is kept *)
Lemma odd_witness_in :
  Nat.odd 5 = true /\ 0 <= tfreq 1 5 1 /\ tfreq 1 5 1 <= 11 # 50 /\
  zeroed 5 (idx0 1 5 0 (11 # 50)) 1 = true.
Proof. vm_compute. intuition discriminate. Qed.
Lemma odd_witness_out :
  Nat.odd 5 = true /\ ~ ((21 # 100) <= tfreq 1 5 1) /\
  zeroed 5 (idx0 1 5 (21 # 100) (1 # 2)) 1 = false.
Proof. vm_compute. intuition discriminate. Qed.

Lemma fourier_band_odd_refuted :
  exists Fs n lb ub j, Nat.odd n = true /\ (0 < j < n)%nat /\ 0 <= lb /\ lb < ub /\ ub <= Fs / 2 /\
    lb <= tfreq Fs n j /\ tfreq Fs n j <= ub /\
    forall X, masked n (idx0 Fs n lb ub) X j = c0.
Proof.
  exists 1, 5%nat, 0, (11 # 50), 1%nat.
  destruct odd_witness_in as (A & B & C & D).
  split; [exact A|]. split; [lia|]. split; [apply Qle_refl|].
  split; [reflexivity|]. split; [vm_compute; discriminate|].
  split; [exact B|]. split; [exact C|].
  intros X. unfold masked. rewrite D. reflexivity.
Qed.

(* the mask is 0/1-valued: applying it twice is applying it once *)
Lemma mask_idempotent n idx X j : masked n idx (masked n idx X) j = masked n idx X j.
Proof. unfold masked. destruct (j =? 0)%nat; [reflexivity|]. destruct (zeroed n idx j); reflexivity. Qed.

Lemma masked_lin n idx a b X Y j :
  masked n idx (fun k => cadd (cscale a (X k)) (cscale b (Y k))) j
  =c= cadd (cscale a (masked n idx X j)) (cscale b (masked n idx Y j)).
Proof.
  unfold masked. destruct (j =? 0)%nat; [reflexivity|]. destruct (zeroed n idx j); [cring|reflexivity].
Qed.

Lemma masked_ext n idx X Y : (0 < n)%nat -> (forall k, (k < n)%nat -> X k =c= Y k) ->
  forall j, (j < n)%nat -> masked n idx X j =c= masked n idx Y j.
Proof.
  intros Hn H j Hj. unfold masked. destruct (j =? 0)%nat; [apply H; exact Hn|].
  destruct (zeroed n idx j); [reflexivity|apply H; exact Hj].
Qed.

(* conjugate symmetry of a length-n spectrum (the spectrum of real data) *)
Definition csym (n : nat) (X : nat -> C) : Prop :=
  im (X 0%nat) == 0 /\ forall j, (0 < j < n)%nat -> X (n - j)%nat =c= cconj (X j).

Lemma masked_csym Fs n lb ub X : csym n X -> csym n (masked n (idx0 Fs n lb ub) X).
Proof.
  intros [H0 H]. split; [exact H0|]. intros j Hj. unfold masked.
  replace (j =? 0)%nat with false by (symmetry; apply Nat.eqb_neq; lia).
  replace (n - j =? 0)%nat with false by (symmetry; apply Nat.eqb_neq; lia).
  rewrite mask_symmetric by exact Hj.
  destruct (zeroed n (idx0 Fs n lb ub) j); [cring|apply H; exact Hj].
Qed.

(* np.real discards nothing when the spectrum is conjugate symmetric *)
Lemma resym_csym n Y j : (j < n)%nat -> csym n Y -> resym n Y j =c= Y j.
Proof.
  intros Hj [H0 H]. unfold resym. destruct (Nat.eq_dec j 0) as [->|J].
  - rewrite Nat.sub_0_r, Nat.mod_same by lia.
    destruct (Y 0%nat) as [a b]. unfold im in H0; simpl in H0.
    split; unfold cscale, cadd, cconj, re, im; simpl; rewrite ?H0; ring.
  - rewrite (Nat.mod_small (n - j) n) by lia. rewrite (H j) by lia. rewrite cconj_invol. cring.
Qed.

(* ------------------------------------------------------------------ the filter in the time domain *)
Section FourierFilter.
  Variables (Fs : Q) (n : nat) (lb : Q) (ub : option Q).
  Hypothesis n_pos : (0 < n)%nat.
  (* the library transform pair (fftpack.fft on real data, fftpack.ifft), by its contract *)
  Variable fft : (nat -> Q) -> nat -> C.
  Variable ifft : (nat -> C) -> nat -> C.
  Hypothesis ifft_ext : forall X Y, (forall k, (k < n)%nat -> X k =c= Y k) ->
                        forall t, (t < n)%nat -> ifft X t =c= ifft Y t.
  Hypothesis ifft_fft : forall x t, (t < n)%nat -> ifft (fft x) t =c= ofQ (x t).
  Hypothesis fft_re_ifft : forall Y k, (k < n)%nat -> fft (fun t => re (ifft Y t)) k =c= resym n Y k.
  Hypothesis fft_sym : forall x k, (0 < k < n)%nat -> fft x (n - k)%nat =c= cconj (fft x k).
  Hypothesis fft_dc : forall x, fft x 0%nat =c= ofQ (sumn x n).
  Hypothesis fft_lin : forall a b x y k, (k < n)%nat ->
    fft (fun t => a * x t + b * y t) k =c= cadd (cscale a (fft x k)) (cscale b (fft y k)).
  Hypothesis ifft_lin : forall a b X Y t, (t < n)%nat ->
    ifft (fun k => cadd (cscale a (X k)) (cscale b (Y k))) t
    =c= cadd (cscale a (ifft X t)) (cscale b (ifft Y t)).

  Definition M := masked n (fmask Fs n lb ub).
  (* filtered_fourier: np.real(ifft(mask(fft(data)))) *)
  Definition fourier (x : nat -> Q) : nat -> Q := fun t => re (ifft (M (fft x)) t).

  Lemma fft_csym x : csym n (fft x).
  Proof. split; [destruct (fft_dc x) as [_ H]; exact H|]. intros j Hj. apply fft_sym; exact Hj. Qed.

  Lemma M_csym x : csym n (M (fft x)).
  Proof. unfold M, fmask. apply masked_csym. apply fft_csym. Qed.

  (* the spectrum of the output is the masked spectrum of the input *)
  Lemma fft_fourier x k : (k < n)%nat -> fft (fourier x) k =c= M (fft x) k.
  Proof.
    intros Hk. unfold fourier. rewrite fft_re_ifft by exact Hk.
    apply resym_csym; [exact Hk|apply M_csym].
  Qed.

  (* the imaginary part dropped by np.real is exactly zero *)
  Lemma fourier_real x t : (t < n)%nat -> ifft (M (fft x)) t =c= ofQ (fourier x t).
  Proof.
    intros Ht. rewrite <- (ifft_fft (fourier x) t Ht).
    apply ifft_ext; [|exact Ht]. intros k Hk. symmetry. apply fft_fourier; exact Hk.
  Qed.

  Lemma fourier_keeps_sum x : sumn (fourier x) n == sumn x n.
  Proof.
    pose proof (fft_dc (fourier x)) as A. pose proof (fft_fourier x 0%nat n_pos) as B.
    pose proof (fft_dc x) as D. unfold M in B. rewrite masked_dc in B.
    rewrite A, D in B. destruct B as [B _]. exact B.
  Qed.

  Lemma fourier_keeps_mean x : mean (fourier x) n == mean x n.
  Proof. unfold mean. rewrite !sumr_sumn, fourier_keeps_sum. reflexivity. Qed.

  Lemma fourier_idempotent x t : (t < n)%nat -> fourier (fourier x) t == fourier x t.
  Proof.
    intros Ht.
    assert (E : ifft (M (fft (fourier x))) t =c= ifft (M (fft x)) t).
    { apply ifft_ext; [|exact Ht]. intros k Hk. unfold M.
      rewrite <- (mask_idempotent n (fmask Fs n lb ub) (fft x) k).
      apply masked_ext; [exact n_pos| |exact Hk]. intros j Hj. apply fft_fourier; exact Hj. }
    destruct E as [E _]. exact E.
  Qed.

  Lemma fourier_linear a b x y t : (t < n)%nat ->
    fourier (fun s => a * x s + b * y s) t == a * fourier x t + b * fourier y t.
  Proof.
    intros Ht. unfold fourier.
    assert (E : ifft (M (fft (fun s => a * x s + b * y s))) t
                =c= cadd (cscale a (ifft (M (fft x)) t)) (cscale b (ifft (M (fft y)) t))).
    { rewrite <- ifft_lin by exact Ht. apply ifft_ext; [|exact Ht]. intros k Hk.
      unfold M. rewrite <- masked_lin. apply masked_ext; [exact n_pos| |exact Hk].
      intros j Hj. apply fft_lin; exact Hj. }
    destruct E as [E _]. rewrite E. unfold cadd, cscale, re; simpl. reflexivity.
  Qed.

  (* exact projection, even n: the output's Fourier coefficients by TRUE frequency *)
  Lemma fourier_projection_even x k : Nat.even n = true -> (0 < k < n)%nat ->
    (lb <= tfreq Fs n k /\ tfreq Fs n k <= ub_eff Fs n ub -> fft (fourier x) k =c= fft x k) /\
    (~ (lb <= tfreq Fs n k /\ tfreq Fs n k <= ub_eff Fs n ub) -> fft (fourier x) k =c= c0).
  Proof.
    intros He Hk.
    destruct (fourier_band_exact_even Fs n lb (ub_eff Fs n ub) (fft x) k He Hk) as [A B].
    split; intros H; rewrite fft_fourier by lia; unfold M, fmask; [rewrite A|rewrite B]; auto; reflexivity.
  Qed.

  Lemma fourier_dc_kept x : fft (fourier x) 0%nat =c= fft x 0%nat.
  Proof. rewrite fft_fourier by exact n_pos. reflexivity. Qed.
End FourierFilter.

(* ------------------------------------------------------------------ the contract is satisfiable:
   the 4-point DFT lives in Q[i] (twiddles 1, -i, -1, i) *)
Definition W4 (m : nat) : C :=
  match (m mod 4)%nat with O => (1, 0) | 1%nat => (0, -(1)) | 2%nat => (-(1), 0) | _ => (0, 1) end.
Definition fft4 (x : nat -> Q) (k : nat) : C := csumn (fun t => cscale (x t) (W4 (k * t))) 4.
Definition ifft4 (X : nat -> C) (t : nat) : C :=
  cscale (1 # 4) (csumn (fun k => cmul (X k) (cconj (W4 (k * t)))) 4).

Ltac lt4 k H := destruct k as [|[|[|[|k]]]]; [| | | |exfalso; lia].
Ltac c4 := unfold fft4, ifft4, resym, W4, csumn, cscale, cadd, cmul, cconj, ofQ, c0, re, im; simpl.

Lemma ifft4_ext X Y : (forall k, (k < 4)%nat -> X k =c= Y k) ->
  forall t, (t < 4)%nat -> ifft4 X t =c= ifft4 Y t.
Proof.
  intros H t Ht. unfold ifft4. apply cscale_proper; [reflexivity|].
  apply csumn_ext. intros k Hk. rewrite (H k Hk). reflexivity.
Qed.
Lemma ifft4_fft4 x t : (t < 4)%nat -> ifft4 (fft4 x) t =c= ofQ (x t).
Proof. intros Ht. lt4 t Ht; split; c4; ring. Qed.
Lemma fft4_re_ifft4 Y k : (k < 4)%nat -> fft4 (fun t => re (ifft4 Y t)) k =c= resym 4 Y k.
Proof.
  intros Hk. destruct (Y 0%nat) as [a0 b0] eqn:E0, (Y 1%nat) as [a1 b1] eqn:E1,
    (Y 2%nat) as [a2 b2] eqn:E2, (Y 3%nat) as [a3 b3] eqn:E3.
  lt4 k Hk; split; c4; rewrite ?E0, ?E1, ?E2, ?E3; simpl; ring.
Qed.
Lemma fft4_sym x k : (0 < k < 4)%nat -> fft4 x (4 - k)%nat =c= cconj (fft4 x k).
Proof. intros Hk. destruct k as [|[|[|[|k]]]]; try (exfalso; lia); split; c4; ring. Qed.
Lemma fft4_dc x : fft4 x 0%nat =c= ofQ (sumn x 4).
Proof. split; c4; ring. Qed.
Lemma fft4_lin a b x y k : (k < 4)%nat ->
  fft4 (fun t => a * x t + b * y t) k =c= cadd (cscale a (fft4 x k)) (cscale b (fft4 y k)).
Proof. intros Hk. lt4 k Hk; split; c4; ring. Qed.
Lemma ifft4_lin a b X Y t : (t < 4)%nat ->
  ifft4 (fun k => cadd (cscale a (X k)) (cscale b (Y k))) t
  =c= cadd (cscale a (ifft4 X t)) (cscale b (ifft4 Y t)).
Proof. intros Ht. lt4 t Ht; split; c4; ring. Qed.

(* the contract of the library transform pair, bundled *)
Record dft_contract (n : nat) (fft : (nat -> Q) -> nat -> C) (ifft : (nat -> C) -> nat -> C) : Prop := {
  c_ifft_ext : forall X Y, (forall k, (k < n)%nat -> X k =c= Y k) ->
               forall t, (t < n)%nat -> ifft X t =c= ifft Y t;
  c_ifft_fft : forall x t, (t < n)%nat -> ifft (fft x) t =c= ofQ (x t);
  c_fft_re_ifft : forall Y k, (k < n)%nat -> fft (fun t => re (ifft Y t)) k =c= resym n Y k;
  c_fft_sym : forall x k, (0 < k < n)%nat -> fft x (n - k)%nat =c= cconj (fft x k);
  c_fft_dc : forall x, fft x 0%nat =c= ofQ (sumn x n);
  c_fft_lin : forall a b x y k, (k < n)%nat ->
    fft (fun t => a * x t + b * y t) k =c= cadd (cscale a (fft x k)) (cscale b (fft y k));
  c_ifft_lin : forall a b X Y t, (t < n)%nat ->
    ifft (fun k => cadd (cscale a (X k)) (cscale b (Y k))) t
    =c= cadd (cscale a (ifft X t)) (cscale b (ifft Y t))
}.

Lemma dft4_contract : dft_contract 4 fft4 ifft4.
Proof.
  constructor; [exact ifft4_ext|exact ifft4_fft4|exact fft4_re_ifft4|exact fft4_sym|exact fft4_dc|
                exact fft4_lin|exact ifft4_lin].
Qed.

Section WithContract.
  Variables (Fs : Q) (n : nat) (lb : Q) (ub : option Q).
  Variable fft : (nat -> Q) -> nat -> C.
  Variable ifft : (nat -> C) -> nat -> C.
  Hypothesis n_pos : (0 < n)%nat.
  Hypothesis K : dft_contract n fft ifft.
  Let filt := fourier Fs n lb ub fft ifft.

  Lemma fourierC_spectrum x k : (k < n)%nat ->
    fft (filt x) k =c= masked n (fmask Fs n lb ub) (fft x) k.
  Proof. destruct K. apply fft_fourier; assumption. Qed.
  Lemma fourierC_real x t : (t < n)%nat ->
    ifft (masked n (fmask Fs n lb ub) (fft x)) t =c= ofQ (filt x t).
  Proof. destruct K. apply fourier_real; assumption. Qed.
  Lemma fourierC_keeps_mean x : mean (filt x) n == mean x n.
  Proof. destruct K. apply fourier_keeps_mean; assumption. Qed.
  Lemma fourierC_idempotent x t : (t < n)%nat -> filt (filt x) t == filt x t.
  Proof. destruct K. apply fourier_idempotent; assumption. Qed.
  Lemma fourierC_linear a b x y t : (t < n)%nat ->
    filt (fun s => a * x s + b * y s) t == a * filt x t + b * filt y t.
  Proof. destruct K. apply fourier_linear; assumption. Qed.
  Lemma fourierC_projection_even x k : Nat.even n = true -> (0 < k < n)%nat ->
    (lb <= tfreq Fs n k /\ tfreq Fs n k <= ub_eff Fs n ub -> fft (filt x) k =c= fft x k) /\
    (~ (lb <= tfreq Fs n k /\ tfreq Fs n k <= ub_eff Fs n ub) -> fft (filt x) k =c= c0).
  Proof. destruct K. apply fourier_projection_even; assumption. Qed.
  Lemma fourierC_dc_kept x : fft (filt x) 0%nat =c= fft x 0%nat.
  Proof. destruct K. apply fourier_dc_kept; assumption. Qed.
End WithContract.

(* a concrete non-trivial run with the real 4-point DFT: Fs = 4, band [0, 1] removes the
   Nyquist bin of 1,2,3,5 *)
Lemma fourier4_example :
  map (fourier 4 4 0 (Some 1) fft4 ifft4 (lq [1; 2; 3; 5])) [0; 1; 2; 3]%nat
  = [7 # 4; 5 # 4; 15 # 4; 17 # 4] /\
  map (fun k => masked 4 (fmask 4 4 0 (Some 1)) (fft4 (lq [1; 2; 3; 5])) k) [0; 1; 2; 3]%nat
  = [(11, 0); (-2, 3); c0; (-2, -3)].
Proof. vm_compute. split; reflexivity. Qed.

(* ------------------------------------------------------------------ C. output axis *)
Lemma fir_stages_axis_fix k shape Fs a :
  interval_by_rate Fs (aunit a) = Some (adelta a) -> ashape a = shape ->
  fir_stages_axis k shape Fs a = Some a.
Proof.
  intros Hd Hs. induction k as [|k IH]; simpl; [reflexivity|].
  unfold filtfilt_axis, ts_by_rate. rewrite Hd.
  replace (mk_axis shape (adelta a) (at0 a) (aunit a)) with a by (destruct a; simpl in *; subst; reflexivity).
  exact IH.
Qed.

(* every filtering method: the output axis is (input shape, Delta(Fs, unit), input t0, input unit) *)
Lemma out_axis_eq m i d : interval_by_rate (in_Fs i) (in_unit i) = Some d ->
  out_axis m i = Some (mk_axis (in_shape i) d (in_t0 i) (in_unit i)).
Proof.
  intros H. destruct m; simpl; unfold fir_mid_unit, ts_by_rate; rewrite H; try reflexivity.
  apply fir_stages_axis_fix; simpl; [exact H|reflexivity].
Qed.

Lemma out_axis_inv m i a : out_axis m i = Some a ->
  ashape a = in_shape i /\ at0 a = in_t0 i /\ aunit a = in_unit i /\
  interval_by_rate (in_Fs i) (in_unit i) = Some (adelta a).
Proof.
  intros H. destruct (interval_by_rate (in_Fs i) (in_unit i)) as [d|] eqn:E.
  - rewrite (out_axis_eq m i d E) in H. inversion H; subst; simpl. auto.
  - exfalso. destruct m; simpl in H; unfold fir_mid_unit, ts_by_rate in H; rewrite E in H; discriminate.
Qed.

(* an input whose stored interval is the one its rate gives (e.g. any series built from a rate) *)
Definition rate_consistent (i : tsin) : Prop :=
  interval_by_rate (in_Fs i) (in_unit i) = Some (in_delta i).

Lemma filter_axis_ok m i : rate_consistent i ->
  out_axis m i = Some (mk_axis (in_shape i) (in_delta i) (in_t0 i) (in_unit i)).
Proof. intros H. apply out_axis_eq. exact H. Qed.

(* examples of rate-consistent inputs: 2 Hz in s / ms / us; interval 0.81327 s given as interval
   (rate 1/0.81327 as computed in floats) *)
Lemma rate_consistent_examples :
  interval_by_rate 2%float Us = Some 500000000000%Z /\
  interval_by_rate 2%float Ums = Some 500000000000%Z /\
  interval_by_rate 2%float Uus = Some 500000000000%Z /\
  interval_by_rate (PrimFloat.div 1 0x1.a064ece9a2c67p-1)%float Us = Some 813270000000%Z.
Proof. vm_compute. repeat split; reflexivity. Qed.

(* a stored interval that the float rate cannot reproduce: 100000 s = 10^17 ps, given as
   sampling_interval (stored exactly), rate = 1/100000.0; rebuilt from the rate it is 16 ps short *)
Lemma rate_inconsistent_example :
  ctor_float1 (factor Us) 0x1.86ap+16%float = Some 100000000000000000%Z /\
  interval_by_rate (PrimFloat.div 1 0x1.86ap+16)%float Us = Some 99999999999999984%Z.
Proof. vm_compute. split; reflexivity. Qed.

Lemma filter_axis_delta_refuted :
  exists m i a, in_Fs i = PrimFloat.div 1 0x1.86ap+16%float /\
    ctor_float1 (factor (in_unit i)) 0x1.86ap+16%float = Some (in_delta i) /\
    out_axis m i = Some a /\ adelta a <> in_delta i.
Proof.
  exists MFourier, (mk_tsin [2; 40]%Z (PrimFloat.div 1 0x1.86ap+16)%float 100000000000000000%Z 0%Z Us).
  eexists. split; [reflexivity|]. split; [vm_compute; reflexivity|].
  split; [vm_compute; reflexivity|]. simpl. discriminate.
Qed.

(* ------------------------------------------------------------------ D. boxcar *)
(* the excision takes exactly n points, all inside the region where the box fully overlaps
   the padded signal *)
Lemma excision_ok n L : (1 <= n)%Z -> (1 <= L)%Z ->
  (L - 1 <= ex_start n L /\ ex_stop n L - ex_start n L = n /\ ex_stop n L <= n + 2 * L /\
   ex_stop n L <= clen n L)%Z.
Proof.
  intros Hn HL. unfold ex_start, ex_stop, clen.
  pose proof (Z.div_mod (n + 2 * L + L - 1) 2 ltac:(lia)). pose proof (Z.mod_pos_bound (n + 2 * L + L - 1) 2 ltac:(lia)).
  pose proof (Z.div_mod n 2 ltac:(lia)). pose proof (Z.mod_pos_bound n 2 ltac:(lia)).
  pose proof (Z.div_mod (n + 1) 2 ltac:(lia)). pose proof (Z.mod_pos_bound (n + 1) 2 ltac:(lia)).
  lia.
Qed.

Lemma memo_eq f n j : (j < n)%nat -> memo f n j = f j.
Proof.
  intros H. unfold memo, lq, tab.
  rewrite (nth_indep _ 0 (f 0%nat)) by (rewrite map_length, seq_length; exact H).
  rewrite map_nth, seq_nth by exact H. reflexivity.
Qed.

Lemma padv_lin n L a b x y t :
  padv n L (fun s => a * x s + b * y s) t == a * padv n L x t + b * padv n L y t.
Proof.
  unfold padv. destruct (t <? 0)%Z; [ring|]. destruct (t <? L)%Z; [reflexivity|].
  destruct (t <? L + n)%Z; [reflexivity|]. destruct (t <? n + 2 * L)%Z; [reflexivity|ring].
Qed.

(* padv reads only samples 0 .. n-1 *)
Lemma padv_ext n L x y t : (1 <= n)%Z -> (forall s, (Z.of_nat s < n)%Z -> x s == y s) ->
  padv n L x t == padv n L y t.
Proof.
  intros Hn H. unfold padv. destruct (t <? 0)%Z eqn:E0; [reflexivity|].
  destruct (t <? L)%Z eqn:E1; [apply H; simpl; lia|].
  destruct (t <? L + n)%Z eqn:E2; [apply H; apply Z.ltb_lt in E2; apply Z.ltb_ge in E1; lia|].
  destruct (t <? n + 2 * L)%Z; [apply H; lia|reflexivity].
Qed.

Lemma convv_lin n L a b x y m :
  convv n L (fun s => a * x s + b * y s) m == a * convv n L x m + b * convv n L y m.
Proof.
  unfold convv. rewrite !sumr_sumn, <- !sumn_scal, <- sumn_plus.
  apply sumn_ext. intros i _. rewrite padv_lin. ring.
Qed.
Lemma convv_ext n L x y m : (1 <= n)%Z -> (forall s, (Z.of_nat s < n)%Z -> x s == y s) ->
  convv n L x m == convv n L y m.
Proof.
  intros Hn H. unfold convv. rewrite !sumr_sumn. apply sumn_ext. intros i _.
  rewrite (padv_ext n L x y _ Hn H). reflexivity.
Qed.

Lemma lowpass_lin n L a b x y j :
  lowpass n L (fun s => a * x s + b * y s) j == a * lowpass n L x j + b * lowpass n L y j.
Proof. unfold lowpass. apply convv_lin. Qed.
Lemma lowpass_ext n L x y j : (1 <= n)%Z -> (forall s, (Z.of_nat s < n)%Z -> x s == y s) ->
  lowpass n L x j == lowpass n L y j.
Proof. intros. unfold lowpass. apply convv_ext; assumption. Qed.

Lemma boxcar_chan_lin n Lub Llb a b x y j : (0 < n)%nat -> (j < n)%nat ->
  boxcar_chan n Lub Llb (fun s => a * x s + b * y s) j
  == a * boxcar_chan n Lub Llb x j + b * boxcar_chan n Lub Llb y j.
Proof.
  intros Hn Hj. unfold boxcar_chan.
  set (X1 := lowpass (Z.of_nat n) Lub (fun s => a * x s + b * y s)).
  set (x1 := lowpass (Z.of_nat n) Lub x). set (y1 := lowpass (Z.of_nat n) Lub y).
  assert (E1 : forall s, (s < n)%nat -> memo X1 n s == a * memo x1 n s + b * memo y1 n s).
  { intros s Hs. rewrite !memo_eq by exact Hs. apply lowpass_lin. }
  destruct Llb as [L|]; [|apply E1; exact Hj].
  cbv zeta.
  assert (E2 : forall s, (s < n)%nat ->
            memo (lowpass (Z.of_nat n) L (memo X1 n)) n s
            == a * memo (lowpass (Z.of_nat n) L (memo x1 n)) n s
               + b * memo (lowpass (Z.of_nat n) L (memo y1 n)) n s).
  { intros s Hs. rewrite !memo_eq by exact Hs. rewrite <- lowpass_lin.
    apply lowpass_ext; [lia|]. intros r Hr. apply E1. lia. }
  rewrite (mean_ext _ _ n E2), mean_lin, (E1 j Hj), (E2 j Hj). ring.
Qed.

Lemma boxcar_out_lin n Lub Llb a b x y j : (0 < n)%nat -> (j < n)%nat ->
  boxcar_out n Lub Llb (fun s => a * x s + b * y s) j
  == a * boxcar_out n Lub Llb x j + b * boxcar_out n Lub Llb y j.
Proof.
  intros Hn Hj. unfold boxcar_out.
  rewrite (dc_restore_ext n _ (fun s => a * x s + b * y s) _
             (fun s => a * boxcar_chan n Lub Llb x s + b * boxcar_chan n Lub Llb y s)).
  - apply dc_restore_lin.
  - intros; reflexivity.
  - intros s Hs. apply boxcar_chan_lin; assumption.
  - exact Hj.
Qed.

Lemma boxcar_out_mean n Lub Llb x : (0 < n)%nat -> mean (boxcar_out n Lub Llb x) n == mean x n.
Proof. intros H. apply dc_restore_mean; exact H. Qed.

(* the high-pass stage alone keeps the mean of what it is given (the +mean(s_lp) term) *)
Lemma hp_stage_mean n x1 s : (0 < n)%nat ->
  mean (fun j => x1 j - s j + mean s n) n == mean x1 n.
Proof.
  intros H.
  rewrite (mean_ext _ (fun j => (1 * x1 j + (-1) * s j) + mean s n) n) by (intros; ring).
  rewrite mean_shift by exact H. rewrite mean_lin. ring.
Qed.

(* boxcar_filter itself (edge padding + box + excision) does NOT keep the mean: this is what
   filtered_boxcar returned before bf2d0bb *)
Lemma boxcar_filter_mean_refuted :
  exists n L x, (0 < n)%nat /\ (1 <= L)%Z /\
    ~ mean (boxcar_chan n L None x) n == mean x n.
Proof.
  exists 4%nat, 2%Z, (lq [0; 0; 0; 1]). split; [lia|]. split; [lia|].
  vm_compute. discriminate.
Qed.

(* a box of length 1 (ub = None, or ub = Nyquist): the low-pass stage is the identity *)
Lemma lowpass_L1 n x j : (Z.of_nat j < n)%Z -> lowpass n 1 x j == x j.
Proof.
  intros Hj. unfold lowpass, convv.
  assert (E : ex_start n 1 = 1%Z).
  { unfold ex_start, clen.
    pose proof (Z.div_mod (n + 2 * 1 + 1 - 1) 2 ltac:(lia)).
    pose proof (Z.mod_pos_bound (n + 2 * 1 + 1 - 1) 2 ltac:(lia)).
    pose proof (Z.div_mod n 2 ltac:(lia)). pose proof (Z.mod_pos_bound n 2 ltac:(lia)). lia. }
  rewrite E. change (Z.to_nat 1) with 1%nat. cbn [sumr]. rewrite Qred_correct.
  replace (1 + Z.of_nat j - Z.of_nat 0)%Z with (1 + Z.of_nat j)%Z by lia.
  unfold padv.
  destruct (1 + Z.of_nat j <? 0)%Z eqn:A; [apply Z.ltb_lt in A; lia|].
  destruct (1 + Z.of_nat j <? 1)%Z eqn:B; [apply Z.ltb_lt in B; lia|].
  destruct (1 + Z.of_nat j <? 1 + n)%Z eqn:D; [|apply Z.ltb_ge in D; lia].
  replace (Z.to_nat (1 + Z.of_nat j - 1)) with j by lia.
  change (inject_Z 1) with 1. field.
Qed.

(* hence a pure high-pass boxcar (box length 1 for ub) keeps the mean even without the restoration *)
Lemma boxcar_highpass_mean n L x : (0 < n)%nat ->
  mean (boxcar_chan n 1 (Some L) x) n == mean x n.
Proof.
  intros Hn. unfold boxcar_chan. cbv zeta. rewrite hp_stage_mean by exact Hn.
  apply mean_ext. intros t Ht. rewrite memo_eq by exact Ht. apply lowpass_L1. lia.
Qed.

(* unit DC gain of padding + box + excision: a constant channel is returned unchanged *)
Lemma lowpass_const n L c j : (1 <= n)%Z -> (1 <= L)%Z -> (Z.of_nat j < n)%Z ->
  lowpass n L (fun _ => c) j == c.
Proof.
  intros Hn HL Hj. unfold lowpass, convv. rewrite sumr_sumn.
  destruct (excision_ok n L Hn HL) as (A & B & D & _).
  rewrite (sumn_ext _ (fun _ => c * (1 / inject_Z L)) (Z.to_nat L)).
  - rewrite sumn_const. unfold qn. rewrite Z2Nat.id by lia. field.
    change 0 with (inject_Z 0). rewrite inject_Z_injective. lia.
  - intros i Hi. unfold padv.
    destruct (_ <? 0)%Z eqn:E0; [apply Z.ltb_lt in E0; lia|].
    destruct (_ <? L)%Z; [reflexivity|]. destruct (_ <? L + n)%Z; [reflexivity|].
    destruct (_ <? n + 2 * L)%Z eqn:E3; [reflexivity|apply Z.ltb_ge in E3; lia].
Qed.

(* fir: inside the documented range the plan is the low-pass stage iff ub < Nyquist followed by the
   high-pass stage iff lb > 0 *)
Lemma Qltb_lt a b : Qltb a b = true <-> a < b.
Proof.
  unfold Qltb. rewrite negb_true_iff. split.
  - intros H. apply Qnot_le_lt. intros L. apply Qle_bool_iff in L. congruence.
  - intros H. destruct (Qle_bool b a) eqn:E; [|reflexivity]. apply Qle_bool_iff in E. lra.
Qed.
Lemma Qltb_ge a b : Qltb a b = false <-> b <= a.
Proof.
  unfold Qltb. rewrite negb_false_iff. apply Qle_bool_iff.
Qed.

Lemma half_pos Fs : 0 < Fs -> 0 < Fs / 2.
Proof. intros H. apply Qlt_shift_div_l; lra. Qed.

Lemma fir_plan_ok Fs lb ub order n : 0 < Fs -> 0 <= lb -> ub <= Fs / 2 -> (order + 1 <= 3 * n)%nat ->
  fir_plan Fs lb (Some ub) order n =
  Plan (order + 1) ((if Qltb (ub / (Fs / 2)) 1 then [LP (ub / (Fs / 2))] else []) ++
                    (if Qltb 0 (lb / (Fs / 2)) then [HP (lb / (Fs / 2))] else [])).
Proof.
  intros HF Hl Hu Ho. unfold fir_plan, fir_plan_fr, ub_frac, lb_frac.
  pose proof (half_pos Fs HF) as Hh. set (h := Fs / 2) in *.
  assert (A : Qltb (lb / h) 0 = false).
  { apply Qltb_ge. apply Qle_shift_div_l; [exact Hh|]. lra. }
  assert (B : Qltb 1 (ub / h) = false).
  { apply Qltb_ge. apply Qle_shift_div_r; [exact Hh|]. lra. }
  rewrite A, B. cbn [orb].
  destruct (3 * n <? order + 1)%nat eqn:E; [apply Nat.ltb_lt in E; lia|reflexivity].
Qed.
Lemma frac_lt1 u h : 0 < h -> (u / h < 1 <-> u < h).
Proof.
  intros Hh. split; intros H.
  - assert (E : u == u / h * h) by (field; lra). rewrite E.
    assert (F : u / h * h < 1 * h) by (apply Qmult_lt_compat_r; assumption). lra.
  - apply Qlt_shift_div_r; [exact Hh|]. lra.
Qed.
Lemma frac_pos l h : 0 < h -> (0 < l / h <-> 0 < l).
Proof.
  intros Hh. split; intros H.
  - assert (E : l == l / h * h) by (field; lra). rewrite E. apply Qmult_lt_0_compat; assumption.
  - apply Qlt_shift_div_l; [exact Hh|]. lra.
Qed.
Lemma fir_plan_stage_lp Fs ub : 0 < Fs -> (Qltb (ub / (Fs / 2)) 1 = true <-> ub < Fs / 2).
Proof. intros HF. rewrite Qltb_lt. apply frac_lt1. apply half_pos; exact HF. Qed.
Lemma fir_plan_stage_hp Fs lb : 0 < Fs -> (Qltb 0 (lb / (Fs / 2)) = true <-> 0 < lb).
Proof. intros HF. rewrite Qltb_lt. apply frac_pos. apply half_pos; exact HF. Qed.

(* ------------------------------------------------------------------ tie of the K-evaluated function, examples *)
(* the function evaluated in the correspondence (resym after the mask) is the mask itself on the
   spectrum of real data *)
Lemma fourier_spec_is_masked Fs n lb ub X k : csym n X -> (k < n)%nat ->
  fourier_spec Fs n lb ub X k =c= masked n (fmask Fs n lb ub) X k.
Proof.
  intros H Hk. unfold fourier_spec. apply resym_csym; [exact Hk|].
  unfold fmask. apply masked_csym. exact H.
Qed.

Lemma lin_example : lin 5 (fun x t => 2 * x t + x (t - 1)%nat).
Proof.
  split.
  - intros a b x y t _. ring.
  - intros x y H t Ht. rewrite (H t Ht), (H (t - 1)%nat) by lia. reflexivity.
Qed.

Lemma band_hyps_example :
  Nat.even 8 = true /\ (0 < 2 < 8)%nat /\ (0 < 1 < 8)%nat /\
  Qle_bool (3 # 4) (tfreq 4 8 2) && Qle_bool (tfreq 4 8 2) (3 # 2) = true /\
  Qle_bool (3 # 4) (tfreq 4 8 1) && Qle_bool (tfreq 4 8 1) (3 # 2) = false /\
  zeroed 8 (idx0 4 8 (3 # 4) (3 # 2)) 2 = false /\ zeroed 8 (idx0 4 8 (3 # 4) (3 # 2)) 1 = true /\
  zeroed 8 (idx0 4 8 (3 # 4) (3 # 2)) 7 = true /\ zeroed 8 (idx0 4 8 (3 # 4) (3 # 2)) 6 = false.
Proof. split; [reflexivity|]. split; [lia|]. split; [lia|]. vm_compute. repeat split; reflexivity. Qed.

Lemma axis_example :
  out_axis (MFir 2) (mk_tsin [2; 44]%Z 2%float 500000000000%Z 5000000000%Z Ums)
  = Some (mk_axis [2; 44]%Z 500000000000%Z 5000000000%Z Ums) /\
  rate_consistent (mk_tsin [2; 44]%Z 2%float 500000000000%Z 5000000000%Z Ums).
Proof. vm_compute. split; reflexivity. Qed.

Lemma fir_plan_example :
  fir_plan 2 (1 # 5) (Some (3 # 5)) 8 44 = Plan 9 [LP ((3 # 5) / (2 / 2)); HP ((1 # 5) / (2 / 2))] /\
  fir_plan 2 0 None 8 44 = Plan 9 [] /\ fir_plan 2 0 (Some (1 # 5)) 40 12 = PlanErr /\
  fir_plan 2 0 (Some (6 # 5)) 8 44 = PlanErr.
Proof. vm_compute. repeat split; reflexivity. Qed.

(* ------------------------------------------------------------------ iir: the band specification *)
Lemma Qmax'_lt a b c : Qmax' a b < c <-> a < c /\ b < c.
Proof.
  unfold Qmax'. destruct (Qle_bool a b) eqn:E.
  - apply Qle_bool_iff in E. split; [intros; split; lra|intros [_ H]; exact H].
  - assert (b < a). { apply Qnot_le_lt. intros L. apply Qle_bool_iff in L. congruence. }
    split; [intros; split; lra|intros [H0 _]; exact H0].
Qed.
Lemma Qmin'_gt a b c : c < Qmin' a b <-> c < a /\ c < b.
Proof.
  unfold Qmin'. destruct (Qle_bool a b) eqn:E.
  - apply Qle_bool_iff in E. split; [intros; split; lra|intros [H _]; exact H].
  - assert (b < a). { apply Qnot_le_lt. intros L. apply Qle_bool_iff in L. congruence. }
    split; [intros; split; lra|intros [_ H0]; exact H0].
Qed.
Lemma Qeq_bool_false a b : ~ a == b -> Qeq_bool a b = false.
Proof. intros H. destruct (Qeq_bool a b) eqn:E; [|reflexivity]. apply Qeq_bool_iff in E. contradiction. Qed.
Lemma Qltb_true a b : a < b -> Qltb a b = true. Proof. apply Qltb_lt. Qed.
Lemma Qltb_false a b : b <= a -> Qltb a b = false. Proof. apply Qltb_ge. Qed.

(* the stop-band edges lie strictly outside the pass band exactly in these ranges *)
Lemma iir_high_ok lbf : 1 # 10 < lbf -> lbf < 1 ->
  exists ws, iir_of_fracs lbf 1 = IirHigh lbf ws /\ 0 < ws /\ ws < lbf.
Proof.
  intros H1 H2. exists (Qmax' (lbf - (1 # 10)) (1 # 10)). unfold iir_of_fracs.
  rewrite (Qltb_true 0 lbf) by lra. rewrite (Qltb_false 1 1) by lra. cbn [andb].
  rewrite (Qeq_bool_false lbf 0) by lra.
  replace (Qeq_bool 1 1) with true by reflexivity.
  split; [reflexivity|]. split.
  - unfold Qmax'. destruct (Qle_bool (lbf - (1 # 10)) (1 # 10)) eqn:E; [lra|].
    apply Qnot_le_lt. intros L. assert (lbf - (1 # 10) <= 1 # 10) by lra.
    apply Qle_bool_iff in H. congruence.
  - apply Qmax'_lt. split; lra.
Qed.
Lemma iir_low_ok ubf : 0 < ubf -> ubf < 9 # 10 ->
  exists ws, iir_of_fracs 0 ubf = IirLow ubf ws /\ ubf < ws /\ ws < 1.
Proof.
  intros H1 H2. exists (Qmin' (ubf + (1 # 10)) (9 # 10)). unfold iir_of_fracs.
  rewrite (Qltb_false 0 0) by lra. cbn [andb].
  replace (Qeq_bool 0 0) with true by reflexivity.
  split; [reflexivity|]. split.
  - apply Qmin'_gt. split; lra.
  - unfold Qmin'. destruct (Qle_bool (ubf + (1 # 10)) (9 # 10)) eqn:E; [|lra].
    apply Qle_bool_iff in E. lra.
Qed.
Lemma iir_band_ok lbf ubf : 1 # 1000 < lbf -> lbf < ubf -> ubf < 999 # 1000 ->
  exists ws1 ws2, iir_of_fracs lbf ubf = IirBand lbf ubf ws1 ws2 /\
    0 < ws1 /\ ws1 < lbf /\ ubf < ws2 /\ ws2 < 1.
Proof.
  intros H1 H2 H3.
  exists (Qmax' (lbf - (1 # 10)) (1 # 1000)), (Qmin' (ubf + (1 # 10)) (999 # 1000)). unfold iir_of_fracs.
  rewrite (Qltb_true 0 lbf) by lra. rewrite (Qltb_true ubf 1) by lra. cbn [andb].
  split; [reflexivity|]. split; [|split; [|split]].
  - unfold Qmax'. destruct (Qle_bool (lbf - (1 # 10)) (1 # 1000)) eqn:E; [lra|].
    apply Qnot_le_lt. intros L. assert (lbf - (1 # 10) <= 1 # 1000) by lra.
    apply Qle_bool_iff in H. congruence.
  - apply Qmax'_lt. split; lra.
  - apply Qmin'_gt. split; lra.
  - unfold Qmin'. destruct (Qle_bool (ubf + (1 # 10)) (999 # 1000)) eqn:E; [|lra].
    apply Qle_bool_iff in E. lra.
Qed.

(* outside them the fixed clamps 0.1 / 0.9 put the stop edge INSIDE the pass band: scipy then designs
   the opposite filter type (wp < ws means low-pass) *)
Lemma iir_high_refuted : exists lbf, 0 < lbf /\ lbf < 1 /\
  exists ws, iir_of_fracs lbf 1 = IirHigh lbf ws /\ lbf < ws.
Proof. exists (2 # 25). split; [lra|]. split; [lra|]. exists (1 # 10). split; [reflexivity|lra]. Qed.
Lemma iir_low_refuted : exists ubf, 0 < ubf /\ ubf < 1 /\
  exists ws, iir_of_fracs 0 ubf = IirLow ubf ws /\ ws < ubf.
Proof. exists (19 # 20). split; [lra|]. split; [lra|]. exists (9 # 10). split; [reflexivity|lra]. Qed.

(* ------------------------------------------------------------------ filtfilt(b, a, in_ts=other) *)
Lemma filtfilt_in_ts_mean n F own x : (0 < n)%nat ->
  mean (filtfilt_method n F own (Some x)) n == mean x n.
Proof. intros H. unfold filtfilt_method, pick. cbv zeta. apply dc_restore_mean; exact H. Qed.
Lemma filtfilt_own_mean n F own : (0 < n)%nat ->
  mean (filtfilt_method n F own None) n == mean own n.
Proof. intros H. unfold filtfilt_method, pick. cbv zeta. apply dc_restore_mean; exact H. Qed.
(* the analyzer's own data play no part when in_ts is given, and the map in_ts -> output is linear *)
Lemma filtfilt_in_ts_indep n F own own' x t :
  filtfilt_method n F own (Some x) t = filtfilt_method n F own' (Some x) t.
Proof. reflexivity. Qed.
Lemma filtfilt_in_ts_lin n F own :
  (forall a b x y t, (t < n)%nat -> F (fun s => a * x s + b * y s) t == a * F x t + b * F y t) ->
  forall a b x y t, (t < n)%nat ->
  filtfilt_method n F own (Some (fun s => a * x s + b * y s)) t
  == a * filtfilt_method n F own (Some x) t + b * filtfilt_method n F own (Some y) t.
Proof. intros HF a b x y t Ht. apply (wrapped_lin n F HF); exact Ht. Qed.
Lemma filtfilt_in_ts_axis own i : rate_consistent i ->
  filtfilt_method_axis own (Some i) = Some (mk_axis (in_shape i) (in_delta i) (in_t0 i) (in_unit i)).
Proof. intros H. unfold filtfilt_method_axis, pick. apply filter_axis_ok; exact H. Qed.

(* ub exactly at Nyquist: the fraction is 1 (exact model); the float64 step is Proofs/FilterFloat.v *)
Lemma ub_nyquist_frac_exact Fs : 0 < Fs -> ub_frac Fs (Some (Fs / 2)) == 1.
Proof. intros H. unfold ub_frac. field. lra. Qed.
