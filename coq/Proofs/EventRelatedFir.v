(* Proofs/EventRelatedFir.v — least-squares recovery pinv(X^T X) X^T (X h) = h for an abstract pinv (C19). *)
From Coq Require Import ZArith QArith List Bool Arith Lia Setoid Morphisms Psatz.
From NT Require Import EventRelated EventRelatedBase EventRelatedDesign.
Import ListNotations.
Open Scope Z_scope.

Definition Gf (G : list (list Z)) (a b : Z) : Z := getZ (nth (Z.to_nat a) G []) b.
Definition Pf (P : list (list Q)) (a b : Z) : Q := getQ (nth (Z.to_nat a) P []) b.

Definition square {A} (n : nat) (M : list (list A)) : Prop :=
  length M = n /\ forall row, In row M -> length row = n.

(* B G = I on the n x n block *)
Definition left_inverse (n : nat) (B : Z -> Z -> Q) (G : list (list Z)) : Prop :=
  forall j c, 0 <= j < Z.of_nat n -> 0 <= c < Z.of_nat n ->
    (qsumf (fun k => B j k * inject_Z (Gf G k c)) (zrange n) == if j =? c then 1 else 0)%Q.
Definition nonsingular (n : nat) (G : list (list Z)) : Prop := exists B, left_inverse n B G.

(* the contract of the library oracle scipy.linalg.pinv on non-singular square integer matrices *)
Definition pinv_contract (pinv : list (list Z) -> list (list Q)) : Prop :=
  forall G n, square n G -> nonsingular n G -> square n (pinv G) /\ left_inverse n (Pf (pinv G)) G.

Lemma nth_map_zrange {A} (F : Z -> A) n k d :
  0 <= k < Z.of_nat n -> nth (Z.to_nat k) (map F (zrange n)) d = F k.
Proof.
  intros H. rewrite (nth_indep _ d (F 0)) by (rewrite map_length, zrange_length; lia).
  rewrite map_nth, nth_zrange by lia. reflexivity.
Qed.

Lemma map2_maps {A B C D} (f : B -> C -> D) (g : A -> B) (h : A -> C) l :
  map2 f (map g l) (map h l) = map (fun i => f (g i) (h i)) l.
Proof. induction l as [|a l IH]; simpl; [reflexivity|rewrite IH; reflexivity]. Qed.

Lemma dotZ_maps {A} (f g : A -> Z) l : dotZ (map f l) (map g l) = zsum (map (fun i => f i * g i) l).
Proof. unfold dotZ. rewrite map2_maps. reflexivity. Qed.

Lemma dotZQ_map (f : Z -> Z) (y : list Q) :
  dotZQ (map f (zrange (length y))) y = qsumf (fun r => inject_Z (f r) * getQ y r)%Q (zrange (length y)).
Proof. unfold dotZQ. rewrite (list_as_mapQ y) at 2. rewrite map2_maps. reflexivity. Qed.

Lemma dotQ_sum (u v : list Q) n : length u = n -> length v = n ->
  dotQ u v = qsumf (fun k => getQ u k * getQ v k)%Q (zrange n).
Proof.
  intros Hu Hv. unfold dotQ. rewrite (list_as_mapQ u) at 1. rewrite (list_as_mapQ v) at 1.
  rewrite Hu, Hv, map2_maps. reflexivity.
Qed.

Lemma tabulateT_length X rows cols : length (tabulateT X rows cols) = cols.
Proof. unfold tabulateT. rewrite map_length, zrange_length. reflexivity. Qed.

Lemma tabulateT_nth X rows cols k : 0 <= k < Z.of_nat cols ->
  nth (Z.to_nat k) (tabulateT X rows cols) [] = map (fun r => X r k) (zrange rows).
Proof. intros H. unfold tabulateT. apply (nth_map_zrange (fun c => map (fun r => X r c) (zrange rows))). exact H. Qed.

Lemma gramT_square X rows cols : square cols (gramT (tabulateT X rows cols)).
Proof.
  unfold gramT. split; [rewrite map_length; apply tabulateT_length|].
  intros row Hrow. apply in_map_iff in Hrow as [a [<- _]]. rewrite map_length. apply tabulateT_length.
Qed.

Lemma gramT_entry X rows cols k c : 0 <= k < Z.of_nat cols -> 0 <= c < Z.of_nat cols ->
  Gf (gramT (tabulateT X rows cols)) k c = zsum (map (fun r => X r k * X r c) (zrange rows)).
Proof.
  intros Hk Hc. unfold Gf, gramT.
  rewrite (nth_indep _ [] (map (dotZ []) (tabulateT X rows cols))) by (rewrite map_length, tabulateT_length; lia).
  rewrite (map_nth (fun a => map (dotZ a) (tabulateT X rows cols))).
  rewrite (getZ_map _ _ []) by (unfold zlen; rewrite tabulateT_length; lia).
  rewrite !tabulateT_nth by assumption. apply dotZ_maps.
Qed.

Lemma delta_sum (h : Z -> Q) n j : 0 <= j < Z.of_nat n ->
  (qsumf (fun c => (if j =? c then 1 else 0) * h c) (zrange n) == h j)%Q.
Proof.
  intros H. rewrite (qsumf_single _ _ j).
  - rewrite Z.eqb_refl. ring.
  - apply zrange_NoDup.
  - apply zrange_In; exact H.
  - intros c _ Hne. destruct (j =? c) eqn:E; [apply Z.eqb_eq in E; congruence|ring].
Qed.

Lemma gram_sum (X : mat) rows cols (h : Z -> Q) k : 0 <= k < Z.of_nat cols ->
  (qsumf (fun r => inject_Z (X r k) * qsumf (fun c => inject_Z (X r c) * h c) (zrange cols)) (zrange rows) ==
   qsumf (fun c => inject_Z (Gf (gramT (tabulateT X rows cols)) k c) * h c) (zrange cols))%Q.
Proof.
  intros Hk.
  transitivity (qsumf (fun r => qsumf (fun c => inject_Z (X r k) * inject_Z (X r c) * h c) (zrange cols)) (zrange rows))%Q.
  { apply qsumf_ext. intros r _. rewrite <- qsumf_scal. apply qsumf_ext. intros; ring. }
  rewrite qsumf_swap. apply qsumf_ext. intros c Hc. apply zrange_In in Hc.
  rewrite gramT_entry by lia. rewrite inject_zsum, map_map.
  change (qsum (map (fun x => inject_Z (X x k * X x c)) (zrange rows)))
    with (qsumf (fun x => inject_Z (X x k * X x c)) (zrange rows)).
  rewrite <- qsumf_scal_r. apply qsumf_ext. intros r _. rewrite inject_Z_mult. reflexivity.
Qed.

(* the algebraic core: for ANY matrix X and vector h, if y = X h and X^T X is non-singular then
   pinv(X^T X) X^T y = h *)
Theorem fir_recovery_core pinv (X : mat) (rows cols : nat) (y : list Q) (h : Z -> Q) :
  pinv_contract pinv ->
  length y = rows ->
  (forall r, 0 <= r < Z.of_nat rows -> (getQ y r == mv X cols h r)%Q) ->
  nonsingular cols (gramT (tabulateT X rows cols)) ->
  length (fir pinv y (tabulateT X rows cols)) = cols /\
  forall j, 0 <= j < Z.of_nat cols -> (getQ (fir pinv y (tabulateT X rows cols)) j == h j)%Q.
Proof.
  intros Hpinv Hy Hyx Hns.
  set (XT := tabulateT X rows cols).
  destruct (Hpinv (gramT XT) cols (gramT_square X rows cols) Hns) as [[HPl HPr] HPinv].
  unfold fir. fold XT. set (P := pinv (gramT XT)) in *.
  split; [rewrite map_length; exact HPl|].
  intros j Hj.
  rewrite (getQ_map _ _ []) by (unfold zlen; lia).
  assert (Hrow : length (nth (Z.to_nat j) P []) = cols) by (apply HPr, nth_In; lia).
  rewrite (dotQ_sum _ _ cols Hrow) by (rewrite map_length; apply tabulateT_length).
  (* entries of v *)
  transitivity (qsumf (fun k => Pf P j k *
      qsumf (fun r => inject_Z (X r k) * qsumf (fun c => inject_Z (X r c) * h c) (zrange cols)) (zrange rows))%Q (zrange cols)).
  { apply qsumf_ext. intros k Hk. apply zrange_In in Hk. apply Qmult_comp; [reflexivity|].
    rewrite (getQ_map _ _ []) by (unfold zlen, XT; rewrite tabulateT_length; lia).
    unfold XT. rewrite tabulateT_nth by lia. subst rows. rewrite dotZQ_map.
    apply qsumf_ext. intros r Hr. apply zrange_In in Hr. rewrite (Hyx r Hr). reflexivity. }
  (* reorder the sums *)
  transitivity (qsumf (fun c => qsumf (fun k => Pf P j k * inject_Z (Gf (gramT XT) k c)) (zrange cols) * h c)%Q (zrange cols)).
  { transitivity (qsumf (fun k => qsumf (fun c => Pf P j k * inject_Z (Gf (gramT XT) k c) * h c) (zrange cols))%Q (zrange cols)).
    - apply qsumf_ext. intros k Hk. apply zrange_In in Hk. rewrite gram_sum by lia. fold XT.
      rewrite <- qsumf_scal. apply qsumf_ext. intros; ring.
    - rewrite qsumf_swap. apply qsumf_ext. intros c _. rewrite qsumf_scal_r. reflexivity. }
  rewrite (qsumf_ext _ (fun c => (if j =? c then 1 else 0) * h c)%Q).
  - apply delta_sum; exact Hj.
  - intros c Hc. apply zrange_In in Hc. rewrite (HPinv j c Hj Hc). reflexivity.
Qed.
