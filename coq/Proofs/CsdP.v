(* Proofs/CsdP.v — lemmas about Model/Csd.v (property C06; all-pairs periodogram of C04). *)
From Coq Require Import QArith List Arith Bool Lia Psatz Setoid Morphisms.
From NT Require Import QC Sums Spectral SpectralP Csd.
Import ListNotations.
Open Scope Q_scope.

(* ------------------------------------------------------------------ Hermitian completion *)
Theorem herm_complete_hermitian pairs i j f :
  herm_complete pairs i j f =c= cconj (herm_complete pairs j i f).
Proof.
  unfold herm_complete; cbv zeta. rewrite (Nat.eqb_sym j i).
  destruct (i =? j)%nat eqn:E.
  - apply Nat.eqb_eq in E. subst j. cring.
  - cring.
Qed.

(* if the lower triangle holds a Hermitian kernel g and the rest is zero, completion gives g everywhere *)
Lemma herm_complete_entry (pairs g : nat -> nat -> nat -> C) i j f :
  (forall a b, pairs a b f =c= if (b <=? a)%nat then g a b f else c0) ->
  (forall a b, cconj (g b a f) =c= g a b f) ->
  herm_complete pairs i j f =c= g i j f.
Proof.
  intros Hp Hg. unfold herm_complete; cbv zeta.
  destruct (i =? j)%nat eqn:E.
  - apply Nat.eqb_eq in E. subst j. rewrite (Hp i i). rewrite Nat.leb_refl. rewrite (Hg i i). cring.
  - apply Nat.eqb_neq in E. rewrite (Hp i j), (Hp j i).
    destruct (j <=? i)%nat eqn:E1; destruct (i <=? j)%nat eqn:E2;
      try apply Nat.leb_le in E1; try apply Nat.leb_le in E2;
      try apply Nat.leb_gt in E1; try apply Nat.leb_gt in E2; try (exfalso; lia).
    + cring.
    + rewrite (Hg i j). cring.
Qed.

(* ------------------------------------------------------------------ periodogram_csd *)
(* the factor the one-sided assembly puts on bin f (0 outside the returned bins) *)
Definition asmf (sd : sides) (N f : nat) : Q :=
  match sd with
  | OneSided => if (Fl N <? Fn N) && (f =? Fn N - 1) then 1
                else if (1 <=? f) && (f <? Fl N) then 2 else if f =? 0 then 1 else 0
  | TwoSided => 1
  end.
Definition nrmf (nrm : bool) (Fs : Q) (n : nat) : Q := if nrm then / (Fs * inj n) else 1.

Lemma assemble_c_val N q f : assemble c0 (cscale 2) N q f =c= cscale (asmf OneSided N f) (q f).
Proof.
  unfold assemble, asmf.
  destruct ((Fl N <? Fn N) && (f =? Fn N - 1))%bool; [cring|].
  destruct ((1 <=? f) && (f <? Fl N))%bool; [cring|].
  destruct (f =? 0)%nat eqn:E; [apply Nat.eqb_eq in E; subst f; cring|cring].
Qed.
Lemma assemble_q_val N q f : assemble 0 (fun v => 2 * v) N q f == asmf OneSided N f * q f.
Proof.
  unfold assemble, asmf.
  destruct ((Fl N <? Fn N) && (f =? Fn N - 1))%bool; [ring|].
  destruct ((1 <=? f) && (f <? Fl N))%bool; [ring|].
  destruct (f =? 0)%nat eqn:E; [apply Nat.eqb_eq in E; subst f; ring|ring].
Qed.
Lemma asmf_nonneg sd N f : 0 <= asmf sd N f.
Proof. unfold asmf. destruct sd; [|lra].
  destruct ((Fl N <? Fn N) && (f =? Fn N - 1))%bool; [lra|].
  destruct ((1 <=? f) && (f <? Fl N))%bool; [lra|]. destruct (f =? 0)%nat; lra. Qed.

Definition pcsd_kernel (sd : sides) (nrm : bool) (N n : nat) (Fs : Q) (x y : sig) (f : nat) : C :=
  cscale (nrmf nrm Fs n * asmf sd N f) (cmul (x f) (cconj (y f))).

Lemma pcsd_pairs_val sd nrm N n Fs X a b f :
  pcsd_pairs sd nrm N n Fs X a b f =c=
  if (b <=? a)%nat then pcsd_kernel sd nrm N n Fs (X a) (X b) f else c0.
Proof.
  unfold pcsd_pairs, pcsd_kernel, nrmf. destruct (b <=? a)%nat; [|reflexivity]. cbv zeta.
  destruct nrm, sd; cbv beta; try rewrite assemble_c_val; rewrite cmulf_cmul; unfold asmf; cring.
Qed.

(* ENTRY FORMULA: every entry of the completed matrix is the (scaled) product of the two spectra *)
Theorem pcsd_entry sd nrm N n Fs X i j f :
  pcsd sd nrm N n Fs X i j f =c= pcsd_kernel sd nrm N n Fs (X i) (X j) f.
Proof.
  unfold pcsd.
  apply (herm_complete_entry _ (fun a b f => pcsd_kernel sd nrm N n Fs (X a) (X b) f)).
  - intros a b. apply pcsd_pairs_val.
  - intros a b. unfold pcsd_kernel. cring.
Qed.

Theorem pcsd_hermitian sd nrm N n Fs X i j f :
  pcsd sd nrm N n Fs X i j f =c= cconj (pcsd sd nrm N n Fs X j i f).
Proof. apply herm_complete_hermitian. Qed.

Lemma pcsd_kernel_ext sd nrm N n Fs x y x' y' f :
  x f =c= x' f -> y f =c= y' f ->
  pcsd_kernel sd nrm N n Fs x y f =c= pcsd_kernel sd nrm N n Fs x' y' f.
Proof. intros H1 H2. unfold pcsd_kernel. rewrite H1, H2. reflexivity. Qed.

(* entry (i,j) at bin f is a function of the spectra of channels i and j (at bin f) only *)
Theorem pcsd_entry_local sd nrm N n Fs X X' i j i' j' f :
  X i f =c= X' i' f -> X j f =c= X' j' f ->
  pcsd sd nrm N n Fs X i j f =c= pcsd sd nrm N n Fs X' i' j' f.
Proof. intros H1 H2. rewrite !pcsd_entry. apply pcsd_kernel_ext; assumption. Qed.

(* diagonal = the single-channel periodogram with the same settings (and is real) *)
Theorem pcsd_diag_is_periodogram sd nrm N n Fs X i f :
  pcsd sd nrm N n Fs X i i f =c= ofQ (periodogram sd nrm N n Fs (X i) f).
Proof.
  rewrite pcsd_entry. unfold pcsd_kernel, periodogram, nrmf.
  destruct nrm, sd; cbv beta zeta; try rewrite assemble_q_val; rewrite sq_cnorm2;
  destruct (X i f) as [xr xi];
  try (generalize (asmf OneSided N f); intros A);
  split; unfold cscale, cmul, cconj, ofQ, cnorm2, re, im; simpl; unfold Qdiv; ring.
Qed.

(* ------------------------------------------------------------------ Gram matrices are PSD *)
Definition qform (M : nat) (S : nat -> nat -> C) (v : nat -> C) : C :=
  csumn (fun i => csumn (fun j => cmul (cmul (cconj (v i)) (S i j)) (v j)) M) M.

Lemma csumn_swap (g : nat -> nat -> C) a b :
  csumn (fun i => csumn (fun j => g i j) b) a =c= csumn (fun j => csumn (fun i => g i j) a) b.
Proof.
  induction a; simpl.
  - induction b; simpl; [reflexivity|]. rewrite <- IHb. cring.
  - rewrite IHa. rewrite <- csumn_add. reflexivity.
Qed.

Lemma gram_qform M K (a : nat -> nat -> C) (v : nat -> C) :
  qform M (fun i j => csumn (fun k => cmul (a i k) (cconj (a j k))) K) v
  =c= ofQ (sumn (fun k => cnorm2 (csumn (fun i => cmul (cconj (v i)) (a i k)) M)) K).
Proof.
  unfold qform.
  transitivity (csumn (fun k => cmul (csumn (fun i => cmul (cconj (v i)) (a i k)) M)
                                     (cconj (csumn (fun i => cmul (cconj (v i)) (a i k)) M))) K).
  - transitivity (csumn (fun i => csumn (fun j => csumn (fun k =>
        cmul (cmul (cconj (v i)) (a i k)) (cmul (cconj (a j k)) (v j))) K) M) M).
    { apply csumn_ext; intros i _. apply csumn_ext; intros j _.
      rewrite <- csumn_mul_l, <- csumn_mul_r. apply csumn_ext; intros k _. cring. }
    transitivity (csumn (fun i => csumn (fun k => csumn (fun j =>
        cmul (cmul (cconj (v i)) (a i k)) (cmul (cconj (a j k)) (v j))) M) K) M).
    { apply csumn_ext; intros i _. apply csumn_swap. }
    rewrite csumn_swap. apply csumn_ext; intros k _.
    rewrite csumn_conj, <- csumn_mul_r. apply csumn_ext; intros i _.
    rewrite csumn_mul_l. apply cmul_proper; [reflexivity|].
    apply csumn_ext; intros j _. cring.
  - rewrite <- csumn_ofQ. apply csumn_ext; intros k _. apply cmul_conj_norm2.
Qed.

Lemma qform_ext M S S' v : (forall i j, (i < M)%nat -> (j < M)%nat -> S i j =c= S' i j) ->
  qform M S v =c= qform M S' v.
Proof. intros H. unfold qform. apply csumn_ext; intros i Hi. apply csumn_ext; intros j Hj.
  rewrite (H i j Hi Hj). reflexivity. Qed.
Lemma qform_scale M c S v : qform M (fun i j => cscale c (S i j)) v =c= cscale c (qform M S v).
Proof. unfold qform. rewrite <- csumn_scale. apply csumn_ext; intros i _.
  rewrite <- csumn_scale. apply csumn_ext; intros j _. cring. Qed.

(* a non-negative multiple of a Gram matrix: v^H S v is real and >= 0 for every v *)
Lemma gram_psd M K c (a : nat -> nat -> C) S v :
  0 <= c ->
  (forall i j, (i < M)%nat -> (j < M)%nat ->
     S i j =c= cscale c (csumn (fun k => cmul (a i k) (cconj (a j k))) K)) ->
  im (qform M S v) == 0 /\ 0 <= re (qform M S v).
Proof.
  intros Hc HS.
  assert (E: qform M S v =c= ofQ (c * sumn (fun k => cnorm2 (csumn (fun i => cmul (cconj (v i)) (a i k)) M)) K)).
  { rewrite (qform_ext M S _ v HS), qform_scale, gram_qform. cring. }
  rewrite E. split; [reflexivity|]. simpl.
  apply Qmult_le_0_compat; [assumption|]. apply sumn_nonneg; intros; apply cnorm2_nonneg.
Qed.

Theorem pcsd_psd sd nrm N n Fs X M f v :
  0 <= nrmf nrm Fs n ->
  im (qform M (fun i j => pcsd sd nrm N n Fs X i j f) v) == 0 /\
  0 <= re (qform M (fun i j => pcsd sd nrm N n Fs X i j f) v).
Proof.
  intros Hn.
  apply (gram_psd M 1 (nrmf nrm Fs n * asmf sd N f) (fun i _ => X i f)).
  - pose proof (asmf_nonneg sd N f). nra.
  - intros i j _ _. rewrite pcsd_entry. unfold pcsd_kernel. simpl. cring.
Qed.

(* ------------------------------------------------------------------ multi_taper_csd *)
Lemma mtm_sum_conj K wx wy tx ty f :
  cconj (mtm_sum K wy wx ty tx f) =c= mtm_sum K wx wy tx ty f.
Proof. unfold mtm_sum. rewrite !csumr_csumn, csumn_conj. apply csumn_ext; intros k _. rewrite !cmulf_cmul. cring. Qed.

Definition mtcsd_kernel (sd : sides) (N K : nat) (Fs : Q) (wi wj : nat -> nat -> Q) (di dj : nat -> Q)
           (Yi Yj : nat -> sig) (f : nat) : C :=
  cscale (dblf sd N f * / (di f * dj f) * / Fs) (mtm_sum K wi wj Yi Yj f).

Lemma mtm_cross_val sd N K wx wy tx ty den f :
  mtm_cross sd N K wx wy tx ty den f =c= cscale (dblf sd N f * / den f) (mtm_sum K wx wy tx ty f).
Proof. unfold mtm_cross. rewrite dbl_scale. cring. Qed.

Theorem mtcsd_entry sd N K Fs w d Y i j f :
  mtcsd sd N K Fs w d Y i j f =c= mtcsd_kernel sd N K Fs (w i) (w j) (d i) (d j) (Y i) (Y j) f.
Proof.
  unfold mtcsd.
  rewrite (herm_complete_entry _ (fun a b f =>
     cscale (dblf sd N f * / (d a f * d b f)) (mtm_sum K (w a) (w b) (Y a) (Y b) f))).
  - unfold mtcsd_kernel. cring.
  - intros a b. unfold mtcsd_pairs. destruct (b <=? a)%nat; [|reflexivity]. apply mtm_cross_val.
  - intros a b. rewrite <- (mtm_sum_conj K (w a) (w b)).
    setoid_replace (d a f * d b f) with (d b f * d a f) by ring. cring.
Qed.

Theorem mtcsd_hermitian sd N K Fs w d Y i j f :
  mtcsd sd N K Fs w d Y i j f =c= cconj (mtcsd sd N K Fs w d Y j i f).
Proof. unfold mtcsd. rewrite (herm_complete_hermitian _ i j f). cring. Qed.

Lemma mtm_sum_ext K wx wy tx ty wx' wy' tx' ty' f :
  (forall k, (k < K)%nat -> wx k f == wx' k f /\ wy k f == wy' k f /\ tx k f =c= tx' k f /\ ty k f =c= ty' k f) ->
  mtm_sum K wx wy tx ty f =c= mtm_sum K wx' wy' tx' ty' f.
Proof. intros H. unfold mtm_sum. rewrite !csumr_csumn. apply csumn_ext; intros k Hk.
  destruct (H k Hk) as (A & B & C0 & D). rewrite !cmulf_cmul. rewrite A, B, C0, D. reflexivity. Qed.

(* entry (i,j) at bin f depends only on the tapered spectra, weights and norms of channels i and j *)
Theorem mtcsd_entry_local sd N K Fs w d Y w' d' Y' i j i' j' f :
  (forall k, (k < K)%nat -> w i k f == w' i' k f /\ Y i k f =c= Y' i' k f) ->
  (forall k, (k < K)%nat -> w j k f == w' j' k f /\ Y j k f =c= Y' j' k f) ->
  d i f == d' i' f -> d j f == d' j' f ->
  mtcsd sd N K Fs w d Y i j f =c= mtcsd sd N K Fs w' d' Y' i' j' f.
Proof.
  intros Hi Hj Di Dj. rewrite !mtcsd_entry. unfold mtcsd_kernel. rewrite Di, Dj.
  rewrite (mtm_sum_ext K (w i) (w j) (Y i) (Y j) (w' i') (w' j') (Y' i') (Y' j') f).
  - reflexivity.
  - intros k Hk. destruct (Hi k Hk), (Hj k Hk). tauto.
Qed.

(* diagonal = the single-channel multitaper estimate with the same weights, when d is the
   square root the code computes: d i f ^2 = sum_k w_ik(f)^2 *)
Theorem mtcsd_diag_is_psd sd N K Fs w d Y i f :
  d i f * d i f == auto_denom K (w i) f ->
  mtcsd sd N K Fs w d Y i i f =c= ofQ (mt_psd sd N K Fs (w i) (Y i) f).
Proof.
  intros Hd. rewrite mtcsd_entry, mt_psd_val. unfold mtcsd_kernel.
  rewrite mtm_sum_auto, Hd. split; unfold cscale, ofQ, re, im; simpl; unfold Qdiv; ring.
Qed.

Theorem mtcsd_psd sd N K Fs w d Y M f v :
  0 < Fs -> (forall i, (i < M)%nat -> 0 < d i f) ->
  im (qform M (fun i j => mtcsd sd N K Fs w d Y i j f) v) == 0 /\
  0 <= re (qform M (fun i j => mtcsd sd N K Fs w d Y i j f) v).
Proof.
  intros HF Hd.
  apply (gram_psd M K (dblf sd N f * / Fs) (fun i k => cscale (w i k f * / d i f) (Y i k f))).
  - pose proof (dblf_nonneg sd N f). apply Qmult_le_0_compat; [assumption|].
    apply Qlt_le_weak, Qinv_lt_0_compat. assumption.
  - intros i j Hi Hj. rewrite mtcsd_entry. unfold mtcsd_kernel, mtm_sum.
    rewrite csumr_csumn, <- !csumn_scale. apply csumn_ext; intros k _.
    pose proof (Hd i Hi). pose proof (Hd j Hj). rewrite cmulf_cmul.
    split; unfold cscale, cmul, cconj, re, im; simpl; field; split; lra.
Qed.

(* the two functions derive the same NW (hence Kmax and the same tapers) from the same keywords *)
Theorem nw_csd_is_nw_psd bw nw n Fs : nw_csd bw nw n Fs = nw_psd bw nw n Fs.
Proof. reflexivity. Qed.

(* ------------------------------------------------------------------ get_spectra (Welch) *)
Theorem welch_semi_filled lib i j f :
  welch_fxy lib i j f = if (i <=? j)%nat then lib j i f else c0.
Proof. unfold welch_fxy. destruct (i <=? j)%nat; reflexivity. Qed.

Lemma welch_calls_spec M a b : In (a, b) (welch_calls M) <-> (b <= a < M)%nat.
Proof.
  unfold welch_calls. rewrite in_flat_map. split.
  - intros (i & Hi & H). apply in_seq in Hi. apply in_map_iff in H. destruct H as (j & E & Hj).
    inversion E; subst. apply in_seq in Hj. lia.
  - intros H. exists b. split; [apply in_seq; lia|]. apply in_map_iff. exists a. split; [reflexivity|].
    apply in_seq. lia.
Qed.

(* ------------------------------------------------------------------ flattening *)
Lemma flat_index_2 A B a b : flat_index [A; B] [a; b] = (a * B + b)%nat.
Proof. simpl. lia. Qed.
Lemma flat_index_bound dims idx :
  Forall2 (fun i d => (i < d)%nat) idx dims -> (flat_index dims idx < fold_right Nat.mul 1%nat dims)%nat.
Proof.
  intros H. induction H as [|i d idx dims Hid H IH]; simpl; [lia|]. nia.
Qed.

(* ------------------------------------------------------------------ corollaries *)
(* all-pairs periodogram: the diagonal integrates to the mean power (any NFFT) *)
Theorem pcsd_parseval N n Fs (X : nat -> sig) i sd (x : sig) :
  (0 < N)%nat -> (0 < n)%nat -> ~ Fs == 0 ->
  sumn (fun k => cnorm2 (X i k)) N == inj N * sumn (fun t => cnorm2 (x t)) n ->
  (sd = OneSided -> forall k, (0 < k < N)%nat -> X i (N - k)%nat =c= cconj (X i k)) ->
  sumn (fun f => re (pcsd sd true N n Fs X i i f) * (Fs / inj N)) (out_len sd N)
  == sumn (fun t => cnorm2 (x t)) n / inj n.
Proof.
  intros HN Hn HF HE Hs.
  rewrite <- (periodogram_parseval N n Fs (X i) HN Hn HF sd x HE Hs).
  apply sumn_ext; intros f _. rewrite pcsd_diag_is_periodogram. reflexivity.
Qed.

(* relabelling / selecting / repeating channels through any map sigma of channel labels:
   the matrix of the re-labelled set is the re-labelled matrix *)
Theorem pcsd_reindex sd nrm N n Fs X (sigma : nat -> nat) i j f :
  pcsd sd nrm N n Fs (fun c => X (sigma c)) i j f =c= pcsd sd nrm N n Fs X (sigma i) (sigma j) f.
Proof. apply pcsd_entry_local; reflexivity. Qed.

Theorem mtcsd_reindex sd N K Fs w d Y (sigma : nat -> nat) i j f :
  mtcsd sd N K Fs (fun c => w (sigma c)) (fun c => d (sigma c)) (fun c => Y (sigma c)) i j f
  =c= mtcsd sd N K Fs w d Y (sigma i) (sigma j) f.
Proof. apply mtcsd_entry_local; try reflexivity; intros; split; reflexivity. Qed.

(* flattening leading dimensions: with S the spectra indexed by multi-index and X their row-major
   flattening, entry (flat a, flat b) is the cross-spectrum of S a and S b *)
Theorem pcsd_flatten sd nrm N n Fs (dims : list nat) (S : list nat -> sig) (X : nat -> sig) a b f :
  (forall idx, X (flat_index dims idx) f =c= S idx f) ->
  pcsd sd nrm N n Fs X (flat_index dims a) (flat_index dims b) f
  =c= pcsd_kernel sd nrm N n Fs (S a) (S b) f.
Proof. intros H. rewrite pcsd_entry. apply pcsd_kernel_ext; apply H. Qed.

(* ------------------------------------------------------------------ multi_taper_csd as a PSD route
   (C04): the diagonal with fixed eigenvalue weights integrates to the lam-weighted tapered power, and
   its one-sided form is the fold of the two-sided one.  N is the TRANSFORM length (NFFT): the model of
   mtm_cross_spectrum / multi_taper_csd has no other length argument, so which bins are doubled
   (1 .. Fl N - 1) depends on NFFT only, never on the number of samples. *)
Theorem mtcsd_parseval sd N K Fs (rt lam : nat -> Q) (d : nat -> nat -> Q) (Y : nat -> nat -> sig) i (E : nat -> Q) :
  (0 < N)%nat -> ~ Fs == 0 ->
  (forall k, (k < K)%nat -> rt k * rt k == lam k) ->
  ~ sumn lam K == 0 ->
  (forall f, d i f * d i f == auto_denom K (fun k _ => rt k) f) ->
  (forall k, (k < K)%nat -> sumn (fun f => cnorm2 (Y i k f)) N == inj N * E k) ->
  (sd = OneSided -> forall k f, (k < K)%nat -> (0 < f < N)%nat -> Y i k (N - f)%nat =c= cconj (Y i k f)) ->
  sumn (fun f => re (mtcsd sd N K Fs (fun _ k _ => rt k) d Y i i f) * (Fs / inj N)) (out_len sd N)
  == sumn (fun k => lam k * E k) K / sumn lam K.
Proof.
  intros HN HF Hrt HL Hd HE Hs.
  rewrite <- (mt_parseval sd N K Fs rt lam (Y i) E HN HF Hrt HL HE Hs).
  apply sumn_ext; intros f _.
  rewrite (mtcsd_diag_is_psd sd N K Fs (fun _ k _ => rt k) d Y i f (Hd f)). reflexivity.
Qed.

Theorem mtcsd_diag_onesided_is_fold N K Fs (w : nat -> nat -> nat -> Q) (d : nat -> nat -> Q) (Y : nat -> nat -> sig) i f :
  (0 < N)%nat -> (f < Fn N)%nat ->
  (forall g, d i g * d i g == auto_denom K (w i) g) ->
  (forall k f, (k < K)%nat -> (0 < f < N)%nat -> Y i k (N - f)%nat =c= cconj (Y i k f)) ->
  (forall k f, (k < K)%nat -> (0 < f < N)%nat -> w i k (N - f)%nat == w i k f) ->
  re (mtcsd OneSided N K Fs w d Y i i f) == fold2 N (fun g => re (mtcsd TwoSided N K Fs w d Y i i g)) f.
Proof.
  intros HN Hf Hd HY Hw.
  rewrite (mtcsd_diag_is_psd OneSided N K Fs w d Y i f (Hd f)).
  change (re (ofQ (mt_psd OneSided N K Fs (w i) (Y i) f))) with (mt_psd OneSided N K Fs (w i) (Y i) f).
  rewrite (mt_onesided_is_fold N K Fs (w i) (Y i) f HN Hf HY Hw).
  unfold fold2. destruct ((1 <=? f) && (f <? Fl N))%bool.
  - rewrite (mtcsd_diag_is_psd TwoSided N K Fs w d Y i f (Hd f)),
            (mtcsd_diag_is_psd TwoSided N K Fs w d Y i (N - f)%nat (Hd _)). reflexivity.
  - rewrite (mtcsd_diag_is_psd TwoSided N K Fs w d Y i f (Hd f)). reflexivity.
Qed.

(* the diagonal = single-channel statement does not depend on how NFFT and the number of samples
   compare: in particular for a truncating transform (N = NFFT < n) both are normalised by Fs * n *)
Corollary pcsd_diag_is_periodogram_truncating sd nrm N n Fs X i f : (N < n)%nat ->
  pcsd sd nrm N n Fs X i i f =c= ofQ (periodogram sd nrm N n Fs (X i) f) /\
  nrmf nrm Fs n = (if nrm then / (Fs * inj n) else 1).
Proof. intros _. split; [apply pcsd_diag_is_periodogram|reflexivity]. Qed.
