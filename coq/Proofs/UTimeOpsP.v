(* Proofs/UTimeOpsP.v — lemmas about Model/UTimeOps.v (property C17). *)
From Coq Require Import ZArith List Bool QArith Lia Arith.
From NT Require Import Lists TimeArray UTimeOps.
Import ListNotations.
Open Scope Z_scope.

(* ---------------------------------------------------------------- ramps *)
Lemma ramp_length t0 dt n : length (ramp t0 dt n) = n.
Proof. unfold ramp. rewrite map_length, seq_length. reflexivity. Qed.

Lemma ramp_nth t0 dt n i d : (i < n)%nat -> nth i (ramp t0 dt n) d = t0 + Z.of_nat i * dt.
Proof.
  intros H. unfold ramp.
  set (f := fun i : nat => t0 + Z.of_nat i * dt).
  rewrite (nth_indep _ d (f 0%nat)) by (rewrite map_length, seq_length; exact H).
  rewrite (map_nth f). rewrite seq_nth by exact H. reflexivity.
Qed.

Lemma ramp_map f t0 dt t0' dt' n :
  (forall i : nat, f (t0 + Z.of_nat i * dt) = t0' + Z.of_nat i * dt') ->
  map f (ramp t0 dt n) = ramp t0' dt' n.
Proof. intros H. unfold ramp. rewrite map_map. apply map_ext. intros i. apply H. Qed.

Lemma ramp_S t0 dt n : ramp t0 dt (S n) = t0 :: ramp (t0 + dt) dt n.
Proof.
  unfold ramp. simpl seq. simpl map. f_equal; [lia|].
  rewrite <- seq_shift, map_map. apply map_ext. intros i. lia.
Qed.

Lemma zip_ramp s a b c d n :
  zip_with (fun x y => x + s * y) (ramp a b n) (ramp c d n) = ramp (a + s * c) (b + s * d) n.
Proof.
  revert a c. induction n as [|n IH]; intros a c; [reflexivity|].
  rewrite !ramp_S. unfold zip_with in *. simpl. f_equal.
  rewrite IH. f_equal; lia.
Qed.

Lemma zip_with_ext f g a b : (forall x y, f x y = g x y) -> zip_with f a b = zip_with g a b.
Proof. intros H. unfold zip_with. apply map_ext. intros [x y]. apply H. Qed.

(* a list all of whose successive differences are d is the ramp of its first element *)
Lemma diffs_cons x y l : diffs (x :: y :: l) = (y - x) :: diffs (y :: l).
Proof. reflexivity. Qed.

Lemma all_diffs_ramp d l : Forall (fun e => e = d) (diffs l) -> l = ramp (hd 0 l) d (length l).
Proof.
  induction l as [|x l IH]; intros H; [reflexivity|].
  destruct l as [|y l'].
  - unfold ramp. simpl. f_equal. lia.
  - rewrite diffs_cons in H. inversion H as [|e es He Hes]; subst.
    change (length (x :: y :: l')) with (S (length (y :: l'))). rewrite ramp_S.
    change (hd 0 (x :: y :: l')) with x. f_equal.
    specialize (IH Hes). change (hd 0 (y :: l')) with y in IH.
    replace (x + (y - x)) with y by lia. exact IH.
Qed.

Lemma uniform_is_ramp l d ds :
  diffs l = d :: ds -> uniformb l = true -> l = ramp (hd 0 l) d (length l).
Proof.
  intros E H. apply all_diffs_ramp. unfold uniformb in H. rewrite E in *.
  constructor; [reflexivity|].
  rewrite forallb_forall in H. apply Forall_forall. intros e He.
  specialize (H e He). apply Z.eqb_eq in H. congruence.
Qed.

Lemma diffs_length_ge2 l d ds : diffs l = d :: ds -> (2 <= length l)%nat.
Proof. destruct l as [|x [|y l']]; simpl; try discriminate. intros _. lia. Qed.

(* ---------------------------------------------------------------- slices *)
Lemma cdiv_spec a b : 0 < b -> (cdiv a b - 1) * b < a <= cdiv a b * b.
Proof.
  intros Hb. unfold cdiv.
  pose proof (Z.div_mod (- a) b ltac:(lia)) as E.
  pose proof (Z.mod_pos_bound (- a) b Hb) as B. nia.
Qed.

Lemma norm_idx_bounds n x : 0 <= n -> 0 <= norm_idx n x <= n.
Proof. intros Hn. unfold norm_idx. destruct (x <? 0) eqn:E; [apply Z.ltb_lt in E|apply Z.ltb_ge in E]; lia. Qed.

Lemma slice_start_bounds n a : 0 <= n -> 0 <= slice_start n a <= n.
Proof. intros H. destruct a; simpl; [apply norm_idx_bounds; exact H|lia]. Qed.
Lemma slice_stop_bounds n b : 0 <= n -> 0 <= slice_stop n b <= n.
Proof. intros H. destruct b; simpl; [apply norm_idx_bounds; exact H|lia]. Qed.

Lemma slice_len_range start stop c :
  1 <= c -> 0 <= slice_len start stop c /\ (0 < slice_len start stop c -> start + (slice_len start stop c - 1) * c < stop).
Proof.
  intros Hc. unfold slice_len. destruct (start <? stop) eqn:E.
  - apply Z.ltb_lt in E. pose proof (cdiv_spec (stop - start) c ltac:(lia)) as S. split; [nia|]. intros _. lia.
  - split; lia.
Qed.

Lemma pick_ramp t0 dt n start c m :
  0 <= start -> 0 <= c -> (m = 0%nat \/ start + (Z.of_nat m - 1) * c < Z.of_nat n) ->
  pick (ramp t0 dt n) start c m = ramp (t0 + start * dt) (c * dt) m.
Proof.
  intros Hs Hc Hr. unfold pick. unfold ramp at 2. apply map_ext_in. intros j Hj.
  apply in_seq in Hj. destruct Hr as [->|Hr]; [lia|].
  rewrite ramp_nth; [rewrite Z2Nat.id by nia; ring|].
  apply Nat2Z.inj_lt. rewrite Z2Nat.id by nia. nia.
Qed.

(* ---------------------------------------------------------------- the abstract machine is consistent *)
Lemma samples_of_length s : length (samples_of s) = s_n s.
Proof. apply ramp_length. Qed.

Lemma spec_shift_arr_sound sign s l s' :
  spec_shift_arr sign s l = Some s' ->
  0 < s_dt s' /\ samples_of s' = zip_with (fun x y => x + sign * y) (samples_of s) l.
Proof.
  unfold spec_shift_arr. destruct (diffs l) as [|d ds] eqn:E; [discriminate|].
  destruct (uniformb l) eqn:U; simpl; [|discriminate].
  destruct (Nat.eqb (length l) (s_n s)) eqn:L; simpl; [|discriminate].
  destruct (0 <? s_dt s + sign * d) eqn:P; [|discriminate].
  intros H; inversion H; subst; clear H. simpl. apply Z.ltb_lt in P. split; [exact P|].
  apply Nat.eqb_eq in L. unfold samples_of. simpl.
  pose proof (uniform_is_ramp l d ds E U) as Hl. rewrite L in Hl.
  remember (hd 0 l) as h eqn:Eh. clear Eh E U L. subst l. rewrite zip_ramp. reflexivity.
Qed.

Theorem spec_step_sound cf op s s' :
  wf s -> spec_step cf op s = Some s' ->
  wf s' /\ samples_of s' = sem_samples cf op (samples_of s).
Proof.
  unfold wf. intros W. destruct op as [bare v|bare v|bare l|bare l|k|k|a b c| |i v]; simpl.
  - intros H; inversion H; subst; clear H. simpl. split; [exact W|].
    unfold samples_of; simpl. symmetry. apply ramp_map. intros i. ring.
  - intros H; inversion H; subst; clear H. simpl. split; [exact W|].
    unfold samples_of; simpl. symmetry. apply ramp_map. intros i. ring.
  - intros H. apply spec_shift_arr_sound in H as [P E]. split; [exact P|]. rewrite E.
    apply zip_with_ext. intros x y. ring.
  - intros H. apply spec_shift_arr_sound in H as [P E]. split; [exact P|]. rewrite E.
    apply zip_with_ext. intros x y. ring.
  - destruct (1 <=? k) eqn:K; [|discriminate]. apply Z.leb_le in K.
    intros H; inversion H; subst; clear H. simpl. split; [nia|].
    unfold samples_of; simpl. symmetry. apply ramp_map. intros i. ring.
  - destruct (1 <=? k) eqn:K; simpl; [|discriminate]. apply Z.leb_le in K.
    destruct (s_t0 s mod k =? 0) eqn:M0; simpl; [|discriminate].
    destruct (s_dt s mod k =? 0) eqn:M1; [|discriminate].
    apply Z.eqb_eq in M0, M1.
    intros H; inversion H; subst; clear H. simpl.
    pose proof (Z.div_mod (s_t0 s) k ltac:(lia)) as E0.
    pose proof (Z.div_mod (s_dt s) k ltac:(lia)) as E1.
    split; [nia|].
    unfold samples_of; simpl. symmetry. apply ramp_map. intros i.
    replace (s_t0 s + Z.of_nat i * s_dt s) with ((s_t0 s / k + Z.of_nat i * (s_dt s / k)) * k) by nia.
    apply Z.div_mul. lia.
  - destruct (c <? 1) eqn:C; [discriminate|]. apply Z.ltb_ge in C.
    intros H; inversion H; subst; clear H. simpl. split; [nia|].
    unfold samples_of at 1; simpl. rewrite samples_of_length.
    set (n := Z.of_nat (s_n s)).
    pose proof (slice_start_bounds n a ltac:(lia)) as Bs.
    pose proof (slice_stop_bounds n b ltac:(lia)) as Be.
    pose proof (slice_len_range (slice_start n a) (slice_stop n b) c C) as [L0 L1].
    unfold samples_of. symmetry. apply pick_ramp; [lia|lia|].
    destruct (Z.eq_dec (slice_len (slice_start n a) (slice_stop n b) c) 0) as [Z0|NZ].
    + left. rewrite Z0. reflexivity.
    + right. rewrite Z2Nat.id by lia. fold n. specialize (L1 ltac:(lia)). lia.
  - intros H; inversion H; subst. split; [exact W|reflexivity].
  - discriminate.
Qed.

Theorem spec_run_consistent cf ops : forall s l,
  wf s -> l = samples_of s ->
  wf (fst (spec_run cf ops (s, l))) /\ snd (spec_run cf ops (s, l)) = samples_of (fst (spec_run cf ops (s, l))).
Proof.
  unfold spec_run. induction ops as [|op ops IH]; intros s l W E; simpl; [split; assumption|].
  unfold spec_next at 2 4 6. simpl fst. simpl snd.
  destruct (spec_step cf op s) as [s'|] eqn:St.
  - destruct (spec_step_sound cf op s s' W St) as [W' E']. apply IH; [exact W'|]. rewrite E'. congruence.
  - apply IH; assumption.
Qed.

(* lookups on the abstract axis *)
Theorem spec_lookup_sample s i :
  wf s -> (i < s_n s)%nat -> spec_lookup s (s_t0 s + Z.of_nat i * s_dt s) = Some (Z.of_nat i).
Proof.
  unfold wf, spec_lookup. intros W H.
  replace ((s_t0 s <=? s_t0 s + Z.of_nat i * s_dt s) && (s_t0 s + Z.of_nat i * s_dt s <? s_t0 s + Z.of_nat (s_n s) * s_dt s)) with true.
  - f_equal. replace (s_t0 s + Z.of_nat i * s_dt s - s_t0 s) with (Z.of_nat i * s_dt s) by ring.
    apply Z.div_mul. lia.
  - symmetry. apply andb_true_intro. split; [apply Z.leb_le; nia|apply Z.ltb_lt; nia].
Qed.

Theorem spec_lookup_bin s t i :
  wf s -> (spec_lookup s t = Some i <->
           0 <= i < Z.of_nat (s_n s) /\ s_t0 s + i * s_dt s <= t < s_t0 s + (i + 1) * s_dt s).
Proof.
  unfold wf, spec_lookup. intros W.
  pose proof (Z.div_mod (t - s_t0 s) (s_dt s) ltac:(lia)) as E.
  pose proof (Z.mod_pos_bound (t - s_t0 s) (s_dt s) W) as B.
  destruct ((s_t0 s <=? t) && (t <? s_t0 s + Z.of_nat (s_n s) * s_dt s)) eqn:G.
  - apply andb_prop in G as [G1 G2]. apply Z.leb_le in G1. apply Z.ltb_lt in G2. split.
    + intros H; inversion H; subst; clear H. nia.
    + intros [Hi Ht]. f_equal. symmetry. apply Z.div_unique with (r := t - s_t0 s - i * s_dt s); [lia|ring].
  - split; [discriminate|]. intros [Hi Ht]. exfalso.
    apply andb_false_iff in G as [G|G]; [apply Z.leb_gt in G|apply Z.ltb_ge in G]; nia.
Qed.

(* ---------------------------------------------------------------- the implementation model refines it *)
Lemma rate_of_correct dt : Qeq (rate_of dt) (inject_Z 1000000000000 / inject_Z dt).
Proof. apply Qred_correct. Qed.

Lemma R_length c a : R c a -> length (samples c) = s_n a.
Proof. intros [H _]. rewrite H. apply samples_of_length. Qed.

Lemma init_R t0 dt n cf : R (init_state t0 dt n cf) (mk_aspec t0 dt n).
Proof. unfold R, init_state, samples_of; simpl. repeat split; reflexivity. Qed.

Lemma shift_scalar_refines sign c a v :
  R c a -> exists c', shift_scalar sign c v = (c', None) /\
                      R c' (mk_aspec (s_t0 a + sign * v) (s_dt a) (s_n a)) /\ a_cf c' = a_cf c.
Proof.
  intros (Hs & Ht & Hd & Hu & Hr). eexists. split; [reflexivity|]. split; [|reflexivity].
  unfold R; simpl. split; [|split; [|split; [|split]]]; try assumption.
  - rewrite Hs. unfold samples_of; simpl. apply ramp_map. intros i. ring.
  - rewrite Ht. reflexivity.
Qed.

Lemma shift_arr_refines sign c a l :
  R c a ->
  match spec_shift_arr sign a l with
  | Some a' => exists c', shift_arr sign c l = (c', None) /\ R c' a' /\ a_cf c' = a_cf c
  | None => exists e, shift_arr sign c l = (c, Some e)
  end.
Proof.
  intros HR. pose proof (R_length c a HR) as HL. destruct HR as (Hs & Ht & Hd & Hu & Hr).
  destruct (spec_shift_arr sign a l) as [a'|] eqn:Sp.
  - pose proof (spec_shift_arr_sound sign a l a' Sp) as [P E].
    unfold spec_shift_arr in Sp. unfold shift_arr.
    destruct (diffs l) as [|d ds] eqn:Ed; [discriminate|].
    destruct (uniformb l) eqn:U; simpl in *; [|discriminate].
    destruct (Nat.eqb (length l) (s_n a)) eqn:L; simpl in *; [|discriminate].
    destruct (0 <? s_dt a + sign * d) eqn:Q; [|discriminate].
    inversion Sp; subst a'; clear Sp. simpl in *.
    apply Z.ltb_lt in Q. rewrite Hd.
    destruct (s_dt a + sign * d <=? 0) eqn:Q'; [apply Z.leb_le in Q'; lia|].
    rewrite HL, L. simpl.
    eexists. split; [reflexivity|]. split; [|reflexivity].
    unfold R; simpl. split; [|split; [|split; [|split]]].
    + rewrite Hs. symmetry. exact E.
    + rewrite Ht. reflexivity.
    + reflexivity.
    + rewrite Hu. ring.
    + reflexivity.
  - unfold spec_shift_arr in Sp. unfold shift_arr.
    destruct (diffs l) as [|d ds] eqn:Ed; [eexists; reflexivity|].
    destruct (uniformb l) eqn:U; simpl in *; [|eexists; reflexivity].
    rewrite Hd. destruct (s_dt a + sign * d <=? 0) eqn:Q'; [eexists; reflexivity|].
    rewrite HL.
    destruct (Nat.eqb (length l) (s_n a)) eqn:L; simpl in *; [|eexists; reflexivity].
    apply Z.leb_gt in Q'. apply Z.ltb_lt in Q'. rewrite Q' in Sp. discriminate.
Qed.

Lemma inject_Z_nonzero z : z <> 0 -> ~ Qeq (inject_Z z) 0.
Proof. intros H E. unfold Qeq in E. simpl in E. lia. Qed.

Lemma rate_scale r dt k :
  0 < dt -> 0 < k -> Qeq r (rate_of dt) -> Qeq (Qred (r / inject_Z k)) (rate_of (dt * k)).
Proof.
  intros Hd Hk Hr. rewrite Qred_correct, Hr, !rate_of_correct, inject_Z_mult.
  field. split; apply inject_Z_nonzero; lia.
Qed.

Theorem refines_op cf op c a :
  R c a -> a_cf c = cf -> wf a -> preserving op = true ->
  match spec_step cf op a with
  | Some a' => exists c', ustep op c = (c', None) /\ R c' a' /\ a_cf c' = cf
  | None => exists e, ustep op c = (c, Some e)
  end.
Proof.
  intros HR Hcf W Hp. subst cf.
  destruct op as [bare v|bare v|bare l|bare l|k|k|x y z| |i v]; simpl in Hp; try discriminate; simpl.
  - destruct (shift_scalar_refines 1 c a (conv c bare v) HR) as (c' & E & HR' & Hc).
    exists c'. split; [exact E|]. split; [|exact Hc].
    replace (s_t0 a + (if bare then v * a_cf c else v)) with (s_t0 a + 1 * conv c bare v) by (unfold conv; ring).
    exact HR'.
  - destruct (shift_scalar_refines (-1) c a (conv c bare v) HR) as (c' & E & HR' & Hc).
    exists c'. split; [exact E|]. split; [|exact Hc].
    replace (s_t0 a - (if bare then v * a_cf c else v)) with (s_t0 a + -1 * conv c bare v) by (unfold conv; ring).
    exact HR'.
  - change (map (fun v => if bare then v * a_cf c else v) l) with (map (conv c bare) l).
    exact (shift_arr_refines 1 c a (map (conv c bare) l) HR).
  - change (map (fun v => if bare then v * a_cf c else v) l) with (map (conv c bare) l).
    exact (shift_arr_refines (-1) c a (map (conv c bare) l) HR).
  - destruct HR as (Hs & Ht & Hd & Hu & Hr). unfold wf in W.
    destruct (1 <=? k) eqn:K.
    + apply Z.leb_le in K. destruct (k <=? 0) eqn:K'; [apply Z.leb_le in K'; lia|].
      eexists. split; [reflexivity|]. split; [|reflexivity].
      unfold R; simpl. split; [|split; [|split; [|split]]].
      * rewrite Hs. unfold samples_of; simpl. apply ramp_map. intros i. ring.
      * rewrite Ht. reflexivity.
      * rewrite Hd. reflexivity.
      * rewrite Hu. ring.
      * apply rate_scale; [exact W|lia|exact Hr].
    + apply Z.leb_gt in K. destruct (k <=? 0) eqn:K'; [|apply Z.leb_gt in K'; lia].
      eexists. reflexivity.
  - exists c. split; [reflexivity|]. split; [exact HR|reflexivity].
  - eexists. reflexivity.
Qed.

(* element assignment and operands that would break uniformity: refused, nothing changes —
   for EVERY concrete state, consistent or not *)
Theorem rejects_unchanged_setitem c i v : ustep (OpSetItem i v) c = (c, Some ValueError).
Proof. reflexivity. Qed.

Theorem rejects_unchanged_nonuniform c sign l :
  uniformb l = false -> exists e, shift_arr sign c l = (c, Some e).
Proof.
  intros U. unfold shift_arr. destruct (diffs l); [eexists; reflexivity|]. rewrite U. eexists; reflexivity.
Qed.

Theorem rejects_unchanged_badlength c sign l :
  length l <> length (samples c) -> exists e, shift_arr sign c l = (c, Some e).
Proof.
  intros L. unfold shift_arr. destruct (diffs l) as [|d ds]; [eexists; reflexivity|].
  destruct (uniformb l); simpl; [|eexists; reflexivity].
  destruct (a_dt c + sign * d <=? 0); [eexists; reflexivity|].
  apply Nat.eqb_neq in L. rewrite L. eexists; reflexivity.
Qed.

(* every failing operation of the model leaves the state as it was *)
Theorem failure_atomic op c c' e : ustep op c = (c', Some e) -> c' = c.
Proof.
  intros H.
  destruct op as [bare v|bare v|bare l|bare l|k|k|x y z| |i v]; simpl in H;
    unfold shift_scalar, shift_arr in H;
    repeat match type of H with
           | context [match diffs ?x with _ => _ end] => destruct (diffs x)
           | context [if ?x then _ else _] => destruct x; simpl in H
           end; inversion H; reflexivity.
Qed.

(* lookups on a consistent concrete axis return the positions *)
Theorem uindex_at_sample c a i :
  R c a -> wf a -> (i < s_n a)%nat -> uindex_at c (nth i (samples c) 0) = Ok (Z.of_nat i).
Proof.
  intros (Hs & Ht & Hd & Hu & Hr) W Hi. unfold wf in W. unfold uindex_at.
  rewrite Hs, Ht, Hd, Hu. unfold samples_of. rewrite ramp_nth by exact Hi.
  replace ((s_t0 a + Z.of_nat i * s_dt a <? s_t0 a) || (s_t0 a + Z.of_nat i * s_dt a >=? s_t0 a + Z.of_nat (s_n a) * s_dt a)) with false.
  - f_equal. replace (s_t0 a + Z.of_nat i * s_dt a - s_t0 a) with (Z.of_nat i * s_dt a) by ring.
    apply Z.div_mul. lia.
  - symmetry. apply orb_false_intro; [apply Z.ltb_ge; nia|].
    rewrite Z.geb_leb. apply Z.leb_gt. nia.
Qed.

(* any history of refining operations keeps the concrete axis consistent with the abstract one *)
Theorem refines_run cf ops : forall c a l,
  R c a -> a_cf c = cf -> wf a -> Forall (fun op => preserving op = true) ops ->
  R (urun ops c) (fst (spec_run cf ops (a, l))) /\ wf (fst (spec_run cf ops (a, l))) /\ a_cf (urun ops c) = cf.
Proof.
  unfold urun, spec_run. induction ops as [|op ops IH]; intros c a l HR Hc W Hp; simpl; [auto|].
  inversion Hp as [|o os Ho Hos]; subst o os.
  pose proof (refines_op cf op c a HR Hc W Ho) as Hstep.
  unfold spec_next at 2 4. simpl fst. simpl snd.
  destruct (spec_step cf op a) as [a'|] eqn:Sp.
  - destruct Hstep as (c' & E & HR' & Hc'). rewrite E. simpl fst.
    destruct (spec_step_sound cf op a a' W Sp) as [W' _].
    apply IH; assumption.
  - destruct Hstep as (e & E). rewrite E. simpl fst. apply IH; assumption.
Qed.
