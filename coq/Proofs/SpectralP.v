(* Proofs/SpectralP.v — lemmas about Model/Spectral.v (properties C04, C06). *)
From Coq Require Import QArith List Arith Bool Lia Psatz Setoid Morphisms.
From NT Require Import QC Sums Spectral.
Import ListNotations.
Open Scope Q_scope.

(* ------------------------------------------------------------------ generic helpers *)
Lemma inj_pos n : (0 < n)%nat -> 0 < inj n.
Proof. intros H. unfold inj. change 0 with (inject_Z 0). rewrite <- Zlt_Qlt. lia. Qed.
Lemma inj_neq0 n : (0 < n)%nat -> ~ inj n == 0.
Proof. intros H E. pose proof (inj_pos n H). lra. Qed.

Lemma qaddf_ok x y : qaddf x y == x + y.
Proof. destruct x as [a b], y as [c d]. unfold qaddf, Qplus, Qeq; cbn [Qnum Qden]. rewrite ?Pos2Z.inj_mul. ring. Qed.
Lemma qsubf_ok x y : qsubf x y == x - y.
Proof. destruct x as [a b], y as [c d]. unfold qsubf, Qminus, Qplus, Qopp, Qeq; cbn [Qnum Qden]. rewrite ?Pos2Z.inj_mul. ring. Qed.
Lemma caddf_cadd a b : caddf a b =c= cadd a b.
Proof. split; unfold caddf, cadd, re, im; cbn [fst snd]; apply qaddf_ok. Qed.
Lemma cmulf_cmul a b : cmulf a b =c= cmul a b.
Proof. split; unfold cmulf, cmul, re, im; cbn [fst snd]; [apply qsubf_ok|apply qaddf_ok]. Qed.
Global Instance re_proper : Proper (ceq ==> Qeq) re.
Proof. intros a b [H _]; exact H. Qed.
Global Instance im_proper : Proper (ceq ==> Qeq) im.
Proof. intros a b [_ H]; exact H. Qed.
Lemma sumr_sumn f n : sumr f n == sumn f n.
Proof. induction n; [reflexivity|]. cbn [sumr sumn]. rewrite Qred_correct, qaddf_ok, IHn. reflexivity. Qed.
Lemma credc_id z : credc z =c= z.
Proof. split; unfold credc, re, im; cbn [fst snd]; apply Qred_correct. Qed.
Lemma csumr_csumn f n : csumr f n =c= csumn f n.
Proof. induction n; [reflexivity|]. cbn [csumr csumn]. rewrite credc_id, caddf_cadd, IHn. reflexivity. Qed.
Lemma auto_denom_val K w f : auto_denom K w f == sumn (fun k => w k f * w k f) K.
Proof. apply sumr_sumn. Qed.

Lemma sq_cnorm2 z : sq z == cnorm2 z.
Proof. unfold sq. rewrite cmulf_cmul. unfold cnorm2, cmul, cconj, re, im; simpl. ring. Qed.
Lemma sq_nonneg_c z : 0 <= sq z.
Proof. rewrite sq_cnorm2. apply cnorm2_nonneg. Qed.
Global Instance sq_proper : Proper (ceq ==> Qeq) sq.
Proof. intros a b H. rewrite !sq_cnorm2, H. reflexivity. Qed.
Lemma sq_mul a z : sq (cmul a z) == cnorm2 a * sq z.
Proof. rewrite !sq_cnorm2. apply cnorm2_mul. Qed.
Lemma sq_conj z : sq (cconj z) == sq z.
Proof. rewrite !sq_cnorm2. apply cnorm2_conj. Qed.

Lemma sumn_le f g n : (forall k, (k < n)%nat -> f k <= g k) -> sumn f n <= sumn g n.
Proof. induction n; simpl; intros H; [apply Qle_refl|]. apply Qplus_le_compat; auto. Qed.
Lemma sumn_scal_r c f n : sumn (fun k => f k * c) n == sumn f n * c.
Proof. induction n; simpl; [ring|rewrite IHn; ring]. Qed.
Lemma sumn_swap (f : nat -> nat -> Q) a b :
  sumn (fun i => sumn (fun j => f i j) b) a == sumn (fun j => sumn (fun i => f i j) a) b.
Proof.
  induction a; simpl.
  - symmetry. apply sumn_const0.
  - rewrite IHa. rewrite <- sumn_plus. reflexivity.
Qed.
Lemma re_csumn f n : re (csumn f n) == sumn (fun k => re (f k)) n.
Proof. induction n; simpl; [reflexivity|]. rewrite IHn. reflexivity. Qed.
Lemma im_csumn f n : im (csumn f n) == sumn (fun k => im (f k)) n.
Proof. induction n; simpl; [reflexivity|]. rewrite IHn. reflexivity. Qed.
Lemma csumn_scale q f n : csumn (fun k => cscale q (f k)) n =c= cscale q (csumn f n).
Proof. induction n; simpl; [cring|]. rewrite IHn. cring. Qed.
Lemma csumn_mul_r c f n : csumn (fun k => cmul (f k) c) n =c= cmul (csumn f n) c.
Proof. induction n; simpl; [cring|]. rewrite IHn. cring. Qed.

(* weighted mean lies between bounds of the terms *)
Lemma weighted_between (c a : nat -> Q) n lo hi :
  (forall k, (k < n)%nat -> 0 <= c k) -> 0 < sumn c n ->
  (forall k, (k < n)%nat -> lo <= a k <= hi) ->
  lo <= sumn (fun k => c k * a k) n / sumn c n <= hi.
Proof.
  intros Hc Hs Ha.
  assert (L: lo * sumn c n <= sumn (fun k => c k * a k) n).
  { rewrite <- sumn_scal. apply sumn_le. intros k Hk.
    destruct (Ha k Hk) as [A _]. specialize (Hc k Hk). nra. }
  assert (U: sumn (fun k => c k * a k) n <= hi * sumn c n).
  { rewrite <- sumn_scal. apply sumn_le. intros k Hk.
    destruct (Ha k Hk) as [_ A]. specialize (Hc k Hk). nra. }
  split.
  - apply Qle_shift_div_l; assumption.
  - apply Qle_shift_div_r; assumption.
Qed.

(* ------------------------------------------------------------------ one-sided assembly *)
Lemma Fl_le_Fn N : (Fl N <= Fn N)%nat.
Proof. unfold Fl, Fn. destruct (parity N) as [E|E].
  - rewrite E at 1. replace (2 * (N/2) + 1)%nat with (1 + (N/2) * 2)%nat by lia.
    rewrite Nat.div_add by lia. simpl. lia.
  - rewrite E at 1. replace (2 * (N/2) + 1 + 1)%nat with ((N/2 + 1) * 2)%nat by lia.
    rewrite Nat.div_mul by lia. lia. Qed.
Lemma Fn_le_SFl N : (Fn N <= Fl N + 1)%nat.
Proof. unfold Fl, Fn. destruct (parity N) as [E|E].
  - rewrite E at 2. replace (2 * (N/2) + 1)%nat with (1 + (N/2) * 2)%nat by lia.
    rewrite Nat.div_add by lia. simpl. lia.
  - rewrite E at 2. replace (2 * (N/2) + 1 + 1)%nat with ((N/2 + 1) * 2)%nat by lia.
    rewrite Nat.div_mul by lia. lia. Qed.

(* the assembly written in the code is the `onesided` of Base/Sums.v on the returned bins *)
Lemma assemble_onesided N q k : (k < Fn N)%nat ->
  assemble 0 (fun v => 2 * v) N q k = onesided N q k.
Proof.
  intros Hk. pose proof (Fl_le_Fn N). pose proof (Fn_le_SFl N).
  unfold assemble, onesided.
  destruct (Fl N <? Fn N)%nat eqn:E1; destruct (k =? Fn N - 1)%nat eqn:E2;
  destruct (1 <=? k)%nat eqn:E3; destruct (k <? Fl N)%nat eqn:E4; destruct (k =? 0)%nat eqn:E5;
  destruct (0 <? k)%nat eqn:E6; simpl;
  repeat match goal with
  | H : (_ <? _)%nat = true |- _ => apply Nat.ltb_lt in H
  | H : (_ <? _)%nat = false |- _ => apply Nat.ltb_ge in H
  | H : (_ <=? _)%nat = true |- _ => apply Nat.leb_le in H
  | H : (_ <=? _)%nat = false |- _ => apply Nat.leb_gt in H
  | H : (_ =? _)%nat = true |- _ => apply Nat.eqb_eq in H
  | H : (_ =? _)%nat = false |- _ => apply Nat.eqb_neq in H
  end; try reflexivity; try (exfalso; lia); try (subst k; reflexivity);
  try (replace k with 0%nat by lia; reflexivity).
Qed.

Definition dblf (sd : sides) (N f : nat) : Q :=
  match sd with OneSided => if (1 <=? f) && (f <? Fl N) then 2 else 1 | TwoSided => 1 end.
Lemma dbl_scale sd N f z : dbl sd N f z =c= cscale (dblf sd N f) z.
Proof. unfold dbl, dblf. destruct sd; [destruct ((1 <=? f) && (f <? Fl N))%bool|]; cring. Qed.
Lemma dblf_nonneg sd N f : 0 <= dblf sd N f.
Proof. unfold dblf. destruct sd; [destruct ((1 <=? f) && (f <? Fl N))%bool|]; lra. Qed.
Lemma dblf_onesided N q f : dblf OneSided N f * q f == onesided N q f.
Proof. unfold dblf, onesided.
  replace (1 <=? f)%nat with (0 <? f)%nat by reflexivity.
  destruct ((0 <? f) && (f <? Fl N))%bool; ring. Qed.

(* ------------------------------------------------------------------ periodogram *)
Section Periodogram.
  Variables (N n : nat) (Fs : Q) (X : sig).
  Hypothesis HN : (0 < N)%nat.
  Hypothesis Hn : (0 < n)%nat.
  Hypothesis HFs : ~ Fs == 0.

  Lemma pgram_two k : periodogram TwoSided true N n Fs X k == sq (X k) / (Fs * inj n).
  Proof. reflexivity. Qed.
  Lemma pgram_one k : (k < Fn N)%nat ->
    periodogram OneSided true N n Fs X k == onesided N (fun k => sq (X k)) k / (Fs * inj n).
  Proof. intros Hk. unfold periodogram. rewrite assemble_onesided by assumption. reflexivity. Qed.

  Lemma Fsn_neq0 : ~ Fs * inj n == 0.
  Proof. intros E. pose proof (inj_neq0 n Hn). apply Qmult_integral in E. tauto. Qed.

  (* conjugate symmetry of the spectrum (real input) gives the symmetry of |X|^2 *)
  Lemma sym_sq : (forall k, (0 < k < N)%nat -> X (N - k)%nat =c= cconj (X k)) ->
    forall k, (0 < k < N)%nat -> sq (X (N - k)%nat) == sq (X k).
  Proof. intros H k Hk. rewrite (H k Hk). apply sq_conj. Qed.

  Theorem periodogram_parseval (sd : sides) (x : sig) :
    sumn (fun k => cnorm2 (X k)) N == inj N * sumn (fun t => cnorm2 (x t)) n ->
    (sd = OneSided -> forall k, (0 < k < N)%nat -> X (N - k)%nat =c= cconj (X k)) ->
    sumn (fun k => periodogram sd true N n Fs X k * (Fs / inj N)) (out_len sd N)
    == sumn (fun t => cnorm2 (x t)) n / inj n.
  Proof.
    intros HE Hsym. pose proof Fsn_neq0 as D. pose proof (inj_neq0 N HN) as DN. pose proof (inj_neq0 n Hn) as Dn.
    assert (T: sumn (fun k => sq (X k)) N == inj N * sumn (fun t => cnorm2 (x t)) n).
    { rewrite <- HE. apply sumn_ext; intros; apply sq_cnorm2. }
    destruct sd; simpl out_len.
    - transitivity (sumn (fun k => onesided N (fun k => sq (X k)) k * (/ (Fs * inj n) * (Fs / inj N))) (Fn N)).
      { apply sumn_ext; intros k Hk. rewrite pgram_one by assumption. field. auto. }
      rewrite sumn_scal_r, fold_sum; auto.
      + rewrite T. field. auto.
      + intros k Hk. apply sym_sq; auto.
    - transitivity (sumn (fun k => sq (X k) * (/ (Fs * inj n) * (Fs / inj N))) N).
      { apply sumn_ext; intros k Hk. rewrite pgram_two. field. auto. }
      rewrite sumn_scal_r, T. field. auto.
  Qed.

  Theorem periodogram_nonneg sd nrm k : 0 < Fs -> 0 <= periodogram sd nrm N n Fs X k.
  Proof.
    intros HF. pose proof (inj_pos n Hn).
    assert (P: forall k, 0 <= match sd with
           | OneSided => assemble 0 (fun v => 2 * v) N (fun k => sq (X k))
           | TwoSided => fun k => sq (X k) end k).
    { intros j. destruct sd; [|apply sq_nonneg_c]. unfold assemble.
      destruct ((Fl N <? Fn N) && (j =? Fn N - 1))%bool; [apply sq_nonneg_c|].
      destruct ((1 <=? j) && (j <? Fl N))%bool; [pose proof (sq_nonneg_c (X j)); cbv beta; lra|].
      destruct (j =? 0)%nat; [apply sq_nonneg_c|lra]. }
    unfold periodogram. destruct nrm; [|apply P].
    apply Qle_shift_div_l; [nra|]. specialize (P k). lra.
  Qed.
End Periodogram.

(* scaling the signal by a (so, by linearity of the DFT, the spectrum) scales the density by |a|^2 *)
Lemma assemble_scale c N q k :
  assemble 0 (fun v => 2 * v) N (fun k => c * q k) k == c * assemble 0 (fun v => 2 * v) N q k.
Proof. unfold assemble.
  destruct ((Fl N <? Fn N) && (k =? Fn N - 1))%bool; [reflexivity|].
  destruct ((1 <=? k) && (k <? Fl N))%bool; [ring|].
  destruct (k =? 0)%nat; [reflexivity|ring]. Qed.
Lemma assemble_ext N q q' k : (forall j, q j == q' j) ->
  assemble 0 (fun v => 2 * v) N q k == assemble 0 (fun v => 2 * v) N q' k.
Proof. intros H. unfold assemble.
  destruct ((Fl N <? Fn N) && (k =? Fn N - 1))%bool; [apply H|].
  destruct ((1 <=? k) && (k <? Fl N))%bool; [rewrite H; reflexivity|].
  destruct (k =? 0)%nat; [apply H|reflexivity]. Qed.

Theorem periodogram_scale_sq sd nrm N n Fs (X X' : sig) (a : C) k :
  (forall j, X' j =c= cmul a (X j)) ->
  periodogram sd nrm N n Fs X' k == cnorm2 a * periodogram sd nrm N n Fs X k.
Proof.
  intros HX.
  assert (E: forall j, sq (X' j) == cnorm2 a * sq (X j)) by (intros j; rewrite (HX j); apply sq_mul).
  unfold periodogram.
  assert (P: match sd with
           | OneSided => assemble 0 (fun v => 2 * v) N (fun k => sq (X' k))
           | TwoSided => fun k => sq (X' k) end k ==
           cnorm2 a * match sd with
           | OneSided => assemble 0 (fun v => 2 * v) N (fun k => sq (X k))
           | TwoSided => fun k => sq (X k) end k).
  { destruct sd; [|apply E]. rewrite <- assemble_scale. apply assemble_ext. exact E. }
  destruct nrm; [|exact P]. rewrite P.
  unfold Qdiv. ring.
Qed.

(* one-sided output = two-sided output folded onto the non-negative frequencies *)
Definition fold2 (N : nat) (q : nat -> Q) (k : nat) : Q :=
  if (1 <=? k) && (k <? Fl N) then q k + q (N - k)%nat else q k.

Theorem periodogram_onesided_is_fold nrm N n Fs (X : sig) k :
  (0 < N)%nat -> (k < Fn N)%nat ->
  (forall k, (0 < k < N)%nat -> X (N - k)%nat =c= cconj (X k)) ->
  periodogram OneSided nrm N n Fs X k == fold2 N (periodogram TwoSided nrm N n Fs X) k.
Proof.
  intros HN Hk Hsym.
  assert (FlN: (Fl N <= N)%nat).
  { unfold Fl. apply Nat.div_le_upper_bound; lia. }
  assert (S: (1 <= k < Fl N)%nat -> sq (X (N - k)%nat) == sq (X k)).
  { intros H. rewrite (Hsym k) by lia. apply sq_conj. }
  unfold periodogram, fold2; cbv zeta.
  assert (A: assemble 0 (fun v => 2 * v) N (fun k => sq (X k)) k
             == if (1 <=? k) && (k <? Fl N) then sq (X k) + sq (X (N - k)%nat) else sq (X k)).
  { rewrite assemble_onesided by assumption. unfold onesided.
    replace (0 <? k)%nat with (1 <=? k)%nat by reflexivity.
    destruct ((1 <=? k) && (k <? Fl N))%bool eqn:E; [|reflexivity].
    apply andb_prop in E. destruct E as [E1 E2]. apply Nat.leb_le in E1. apply Nat.ltb_lt in E2.
    rewrite S by lia. ring. }
  destruct nrm; cbv beta; rewrite A; destruct ((1 <=? k) && (k <? Fl N))%bool; try reflexivity.
  unfold Qdiv. ring.
Qed.

(* ------------------------------------------------------------------ multitaper *)
Lemma csumn_ofQ g n : csumn (fun k => ofQ (g k)) n =c= ofQ (sumn g n).
Proof. induction n; simpl; [cring|]. rewrite IHn. cring. Qed.
Lemma ofQ_proper_ : forall a b, a == b -> ofQ a =c= ofQ b.
Proof. intros a b H; split; simpl; [exact H|reflexivity]. Qed.
Global Instance ofQ_proper : Proper (Qeq ==> ceq) ofQ.
Proof. exact ofQ_proper_. Qed.
Lemma auto_term (w : Q) (y : C) : cmulf (cscale w y) (cconj (cscale w y)) =c= ofQ (w * w * sq y).
Proof. rewrite cmulf_cmul, sq_cnorm2. destruct y as [a b]. split; unfold cnorm2, cmul, cscale, cconj, ofQ, re, im; simpl; ring. Qed.

Section MT.
  Variables (sd : sides) (N K : nat).

  Definition wsq (w : nat -> nat -> Q) (Y : nat -> sig) (f : nat) : Q :=
    sumn (fun k => w k f * w k f * sq (Y k f)) K.

  Lemma mtm_sum_auto w Y f : mtm_sum K w w Y Y f =c= ofQ (wsq w Y f).
  Proof. unfold mtm_sum, wsq. rewrite csumr_csumn, <- csumn_ofQ. apply csumn_ext; intros; apply auto_term. Qed.

  Lemma mtm_auto_c_val w Y f :
    mtm_auto_c sd N K w Y f =c= ofQ (dblf sd N f * (wsq w Y f / auto_denom K w f)).
  Proof. unfold mtm_auto_c, mtm_cross. rewrite dbl_scale, mtm_sum_auto.
    split; unfold cscale, ofQ, re, im; simpl; unfold Qdiv; ring. Qed.

  (* the imaginary part dropped by `.real` is zero *)
  Theorem mtm_auto_real w Y f : im (mtm_auto_c sd N K w Y f) == 0.
  Proof. rewrite mtm_auto_c_val. reflexivity. Qed.

  Lemma mt_psd_val Fs w Y f :
    mt_psd sd N K Fs w Y f == dblf sd N f * (wsq w Y f / auto_denom K w f) / Fs.
  Proof. unfold mt_psd, mtm_auto. rewrite mtm_auto_c_val. reflexivity. Qed.

  Lemma mt_single_val Fs Y k f : mt_single sd N Fs Y k f == dblf sd N f * sq (Y k f) / Fs.
  Proof. unfold mt_single. rewrite dbl_scale. unfold cscale, ofQ, re; simpl. reflexivity. Qed.

  Lemma auto_denom_nonneg w f : 0 <= auto_denom K w f.
  Proof. rewrite auto_denom_val. apply sumn_nonneg; intros; apply sq_nonneg. Qed.
  Lemma wsq_nonneg w Y f : 0 <= wsq w Y f.
  Proof. apply sumn_nonneg; intros k _. pose proof (sq_nonneg (w k f)). pose proof (sq_nonneg_c (Y k f)). nra. Qed.

  Theorem mt_psd_nonneg Fs w Y f : 0 < Fs -> 0 <= mt_psd sd N K Fs w Y f.
  Proof.
    intros HF. rewrite mt_psd_val. apply Qle_shift_div_l; [assumption|]. ring_simplify.
    pose proof (dblf_nonneg sd N f). pose proof (wsq_nonneg w Y f). pose proof (auto_denom_nonneg w f).
    apply Qmult_le_0_compat; [assumption|].
    destruct (Qeq_dec (auto_denom K w f) 0) as [E|E].
    - unfold Qdiv. rewrite E. setoid_replace (/ 0) with 0 by reflexivity. lra.
    - apply Qle_shift_div_l; lra.
  Qed.

  (* with any weights (in particular the adaptive ones) the estimate at a frequency is a convex
     combination of the K individual tapered spectra at that frequency *)
  Theorem mt_adaptive_between Fs w Y f lo hi :
    0 < Fs -> 0 < auto_denom K w f ->
    (forall k, (k < K)%nat -> lo <= mt_single sd N Fs Y k f <= hi) ->
    lo <= mt_psd sd N K Fs w Y f <= hi.
  Proof.
    intros HF HD Hk.
    assert (E: mt_psd sd N K Fs w Y f ==
               sumn (fun k => (w k f * w k f) * mt_single sd N Fs Y k f) K / sumn (fun k => w k f * w k f) K).
    { rewrite mt_psd_val, auto_denom_val. unfold wsq.
      assert (E1: sumn (fun k => w k f * w k f * mt_single sd N Fs Y k f) K ==
                  (dblf sd N f / Fs) * sumn (fun k => w k f * w k f * sq (Y k f)) K).
      { rewrite <- sumn_scal. apply sumn_ext; intros k _. rewrite mt_single_val. field. lra. }
      rewrite E1. rewrite auto_denom_val in HD. field. split; lra. }
    rewrite E. apply weighted_between; auto. intros; apply sq_nonneg. rewrite <- auto_denom_val. exact HD.
  Qed.

  (* Parseval with weights constant over frequency (sqrt of the eigenvalues) *)
  Theorem mt_parseval Fs (rt lam : nat -> Q) (Y : nat -> sig) (E : nat -> Q) :
    (0 < N)%nat -> ~ Fs == 0 ->
    (forall k, (k < K)%nat -> rt k * rt k == lam k) ->
    ~ sumn lam K == 0 ->
    (forall k, (k < K)%nat -> sumn (fun f => cnorm2 (Y k f)) N == inj N * E k) ->
    (sd = OneSided -> forall k f, (k < K)%nat -> (0 < f < N)%nat -> Y k (N - f)%nat =c= cconj (Y k f)) ->
    sumn (fun f => mt_psd sd N K Fs (fun k _ => rt k) Y f * (Fs / inj N)) (out_len sd N)
    == sumn (fun k => lam k * E k) K / sumn lam K.
  Proof.
    intros HN HF Hrt HL HE Hsym. pose proof (inj_neq0 N HN) as DN.
    set (g := fun f => sumn (fun k => lam k * sq (Y k f)) K).
    assert (D: forall f, auto_denom K (fun k _ => rt k) f == sumn (fun k => rt k * rt k) K)
      by (intros; apply auto_denom_val).
    assert (DL: sumn (fun k => rt k * rt k) K == sumn lam K) by (apply sumn_ext; auto).
    assert (V: forall f, mt_psd sd N K Fs (fun k _ => rt k) Y f * (Fs / inj N)
                         == dblf sd N f * g f * (/ (sumn lam K * inj N))).
    { intros f. rewrite mt_psd_val, (D f), DL. unfold wsq, g.
      assert (W: sumn (fun k => rt k * rt k * sq (Y k f)) K == sumn (fun k => lam k * sq (Y k f)) K).
      { apply sumn_ext; intros k Hk. rewrite (Hrt k Hk). reflexivity. }
      rewrite W. field. repeat split; auto. }
    assert (T: sumn g N == inj N * sumn (fun k => lam k * E k) K).
    { unfold g. rewrite sumn_swap. rewrite <- sumn_scal. apply sumn_ext; intros k Hk.
      rewrite sumn_scal.
      assert (sumn (fun i => sq (Y k i)) N == sumn (fun f => cnorm2 (Y k f)) N)
        by (apply sumn_ext; intros; apply sq_cnorm2).
      rewrite H, (HE k Hk). ring. }
    transitivity (sumn (fun f => dblf sd N f * g f * (/ (sumn lam K * inj N))) (out_len sd N)).
    { apply sumn_ext; intros; apply V. }
    rewrite sumn_scal_r.
    assert (F: sumn (fun f => dblf sd N f * g f) (out_len sd N) == sumn g N).
    { destruct sd; simpl out_len.
      - transitivity (sumn (onesided N g) (Fn N)).
        + apply sumn_ext; intros; apply dblf_onesided.
        + apply fold_sum; auto. intros f Hf. unfold g. apply sumn_ext; intros k Hk.
          rewrite (Hsym eq_refl k f Hk Hf), sq_conj. reflexivity.
      - apply sumn_ext; intros f _. simpl. ring. }
    rewrite F, T. field. split; auto.
  Qed.

  Theorem mt_scale_sq Fs w (Y Y' : nat -> sig) (a : C) f :
    (forall k j, Y' k j =c= cmul a (Y k j)) ->
    mt_psd sd N K Fs w Y' f == cnorm2 a * mt_psd sd N K Fs w Y f.
  Proof.
    intros HY. rewrite !mt_psd_val.
    assert (W: wsq w Y' f == cnorm2 a * wsq w Y f).
    { unfold wsq. rewrite <- sumn_scal. apply sumn_ext; intros k _. rewrite (HY k f), sq_mul. ring. }
    rewrite W. unfold Qdiv. ring.
  Qed.
End MT.

Theorem mt_onesided_is_fold N K Fs w (Y : nat -> sig) f :
  (0 < N)%nat -> (f < Fn N)%nat -> 
  (forall k f, (k < K)%nat -> (0 < f < N)%nat -> Y k (N - f)%nat =c= cconj (Y k f)) ->
  (forall k f, (k < K)%nat -> (0 < f < N)%nat -> w k (N - f)%nat == w k f) ->
  mt_psd OneSided N K Fs w Y f == fold2 N (mt_psd TwoSided N K Fs w Y) f.
Proof.
  intros HN Hf HY Hw. unfold fold2.
  destruct ((1 <=? f) && (f <? Fl N))%bool eqn:E.
  2:{ rewrite !mt_psd_val. unfold dblf. rewrite E. reflexivity. }
  rewrite !mt_psd_val. unfold dblf. rewrite E.
  apply andb_prop in E. destruct E as [E1 E2]. apply Nat.leb_le in E1. apply Nat.ltb_lt in E2.
  assert (FlN: (Fl N <= N)%nat) by (unfold Fl; apply Nat.div_le_upper_bound; lia).
  assert (A: wsq K w Y (N - f)%nat == wsq K w Y f).
  { unfold wsq. apply sumn_ext; intros k Hk. rewrite (HY k f), (Hw k f), sq_conj by lia. reflexivity. }
  assert (B: auto_denom K w (N - f)%nat == auto_denom K w f).
  { rewrite !auto_denom_val. apply sumn_ext; intros k Hk. rewrite (Hw k f) by lia. reflexivity. }
  rewrite A, B. unfold Qdiv. ring.
Qed.

(* de-meaning and tapering are linear: scaling the signal scales every tapered signal *)
Lemma tapered_scale n (x : sig) (a : C) taper t :
  tapered n (fun t => cmul a (x t)) taper t =c= cmul a (tapered n x taper t).
Proof.
  unfold tapered, remove_bias, cmean; cbv zeta.
  rewrite !csumr_csumn. rewrite (csumn_mul_l a x n). cring.
Qed.

(* ------------------------------------------------------------------ a genuine DFT over Q[i]
   (4 points: the roots of unity 1, -i, -1, i are in Q[i]) — used for non-vacuity: the hypotheses
   put on the library FFT (energy identity, conjugate symmetry for real input, linearity) are
   satisfied by it for every signal *)
Definition mi_pow (m : nat) : C :=
  match (m mod 4)%nat with 0%nat => (1, 0) | 1%nat => (0, -1) | 2%nat => (-1, 0) | _ => (0, 1) end.
Definition dft4 (x : sig) : sig := fun k => csumn (fun t => cmul (x t) (mi_pow (k * t))) 4.

Lemma dft4_energy x :
  sumn (fun k => cnorm2 (dft4 x k)) 4 == inj 4 * sumn (fun t => cnorm2 (x t)) 4.
Proof.
  unfold dft4, inj. simpl. destruct (x 0%nat) as [a0 b0], (x 1%nat) as [a1 b1], (x 2%nat) as [a2 b2], (x 3%nat) as [a3 b3].
  unfold cnorm2, cmul, cadd, c0, mi_pow, re, im; simpl. ring.
Qed.
Lemma dft4_real_sym x k : (forall t, im (x t) == 0) -> (0 < k < 4)%nat ->
  dft4 x (4 - k)%nat =c= cconj (dft4 x k).
Proof.
  intros Hr Hk. pose proof (Hr 0%nat) as R0. pose proof (Hr 1%nat) as R1. pose proof (Hr 2%nat) as R2. pose proof (Hr 3%nat) as R3.
  assert (k = 1 \/ k = 2 \/ k = 3)%nat as [E|[E|E]] by lia; subst k; unfold dft4; simpl;
  destruct (x 0%nat) as [a0 b0], (x 1%nat) as [a1 b1], (x 2%nat) as [a2 b2], (x 3%nat) as [a3 b3];
  unfold im in R0, R1, R2, R3; simpl in R0, R1, R2, R3;
  split; unfold cmul, cadd, cconj, c0, mi_pow, re, im; simpl; rewrite R0, R1, R2, R3; ring.
Qed.
Lemma dft4_scale a x k : dft4 (fun t => cmul a (x t)) k =c= cmul a (dft4 x k).
Proof. unfold dft4. rewrite <- csumn_mul_l. apply csumn_ext; intros; cring. Qed.

(* ------------------------------------------------------------------ wrappers with the exact
   statements used in Props/C04.v *)
Lemma periodogram_nonneg' sd nrm N n Fs X k : (0 < n)%nat -> 0 < Fs -> 0 <= periodogram sd nrm N n Fs X k.
Proof. intros Hn HF. apply periodogram_nonneg; auto. lra. Qed.

(* REFUTATION: an explicitly requested one-sided spectrum of a COMPLEX signal is neither the fold of
   the two-sided one nor does it integrate to the power.  Witness: x = (1, i, 0, 0), its true DFT. *)
Definition xw : sig := fun t => match t with 0%nat => (1, 0) | 1%nat => (0, 1) | _ => (0, 0) end.
Lemma xw_energy : sumn (fun k => cnorm2 (dft4 xw k)) 4 == inj 4 * sumn (fun t => cnorm2 (xw t)) 4.
Proof. apply dft4_energy. Qed.
Lemma xw_onesided_sum :
  sumn (fun k => periodogram OneSided true 4 4 1 (dft4 xw) k * (1 / inj 4)) (out_len OneSided 4) == 3 # 4.
Proof. vm_compute. reflexivity. Qed.
Lemma xw_twosided_sum :
  sumn (fun k => periodogram TwoSided true 4 4 1 (dft4 xw) k * (1 / inj 4)) (out_len TwoSided 4) == 1 # 2.
Proof. vm_compute. reflexivity. Qed.
Lemma xw_power : sumn (fun t => cnorm2 (xw t)) 4 / inj 4 == 1 # 2.
Proof. vm_compute. reflexivity. Qed.
Lemma xw_fold1 : fold2 4 (periodogram TwoSided true 4 4 1 (dft4 xw)) 1 == 1.
Proof. vm_compute. reflexivity. Qed.
Lemma xw_one1 : periodogram OneSided true 4 4 1 (dft4 xw) 1 == 2.
Proof. vm_compute. reflexivity. Qed.

Theorem onesided_complex_refuted :
  exists (x : sig),
    sumn (fun k => cnorm2 (dft4 x k)) 4 == inj 4 * sumn (fun t => cnorm2 (x t)) 4 /\
    ~ (sumn (fun k => periodogram OneSided true 4 4 1 (dft4 x) k * (1 / inj 4)) (out_len OneSided 4)
       == sumn (fun t => cnorm2 (x t)) 4 / inj 4) /\
    ~ (periodogram OneSided true 4 4 1 (dft4 x) 1 == fold2 4 (periodogram TwoSided true 4 4 1 (dft4 x)) 1).
Proof.
  exists xw. split; [exact xw_energy|]. split.
  - rewrite xw_onesided_sum, xw_power. intro H. discriminate H.
  - rewrite xw_one1, xw_fold1. intro H. discriminate H.
Qed.
