(* Proofs/LWRScale.v — scale equivariance of the recursion (property C11).
   Multiplying every lag r(k) by a central invertible element c (for matrices: a non-zero scalar,
   e.g. the square of a change of physical units) leaves every coefficient matrix unchanged and
   multiplies the innovation covariance by c.  No absolute magnitude enters the recursion. *)
From Coq Require Import List Arith QArith Bool Lia Setoid Morphisms.
From NT Require Import Sums LWR LWRP.
Import ListNotations.

Section Scale.
  Context {R : Type} (O : rops R) (req : R -> R -> Prop) (RL : ring_laws O req).
  Variables c ci : R.
  Local Notation "0" := (r0 O).
  Local Notation "1" := (r1 O).
  Local Infix "+" := (radd O).
  Local Infix "*" := (rmul O).
  Local Infix "-" := (rsub O).
  Local Infix "==" := req (at level 70, no associativity).
  Local Notation tr := (rtr O).
  Local Notation inv := (rinv O).

  Hypothesis c_central : forall x, c * x == x * c.
  Hypothesis ci_central : forall x, ci * x == x * ci.
  Hypothesis ci_c : ci * c == 1.
  Hypothesis tr_c : tr c == c.
  (* contract of the inverse kernel: a function of the value, and (c x)^-1 = c^-1 x^-1 *)
  Hypothesis inv_proper : Proper (req ==> req) inv.
  Hypothesis inv_scale : forall x, inv x * x == 1 -> inv (c * x) == ci * inv x.

  Local Instance req_equiv'' : Equivalence req := rl_equiv O req RL.
  Local Instance add_proper'' : Proper (req ==> req ==> req) (radd O) := rl_add_proper O req RL.
  Local Instance mul_proper'' : Proper (req ==> req ==> req) (rmul O) := rl_mul_proper O req RL.
  Local Instance opp_proper'' : Proper (req ==> req) (ropp O) := rl_opp_proper O req RL.
  Local Instance tr_proper'' : Proper (req ==> req) (rtr O) := rl_tr_proper O req RL.
  Local Instance sub_proper'' : Proper (req ==> req ==> req) (rsub O) := sub_proper O req RL.
  Let mul_assoc := rl_mul_assoc O req RL.
  Let distr_l := rl_distr_l O req RL.
  Let mul_1_l := rl_mul_1_l O req RL.

  (* x (c y) = c (x y) *)
  Lemma mul_c_r x y : x * (c * y) == c * (x * y).
  Proof. rewrite mul_assoc, <- (c_central x), <- mul_assoc. reflexivity. Qed.
  Lemma mul_ci_r x y : x * (ci * y) == ci * (x * y).
  Proof. rewrite mul_assoc, <- (ci_central x), <- mul_assoc. reflexivity. Qed.
  Lemma c_ci : c * ci == 1.
  Proof. rewrite c_central. exact ci_c. Qed.
  (* (c d) (ci s) = d s *)
  Lemma scale_cancel d s : (c * d) * (ci * s) == d * s.
  Proof. rewrite mul_ci_r. rewrite <- (mul_assoc c d s). rewrite (mul_assoc ci c), ci_c, mul_1_l. reflexivity. Qed.

  Definition rel_c (l' l : list R) : Prop := length l' = length l /\ forall i, nth i l' 0 == c * nth i l 0.
  Definition rel_e (l' l : list R) : Prop := length l' = length l /\ forall i, nth i l' 0 == nth i l 0.
  Definition state_rel_c (s' s : lwr_state) : Prop :=
    let '(a', b', sf', sb') := s' in let '(a, b, sf, sb) := s in
    rel_e a' a /\ rel_e b' b /\ sf' == c * sf /\ sb' == c * sb.

  Lemma rel_c_map l : rel_c (map (rmul O c) l) l.
  Proof.
    split; [apply map_length|]. intros i.
    destruct (Nat.lt_ge_cases i (length l)).
    - rewrite (nth_indep _ 0 (c * 0)) by (rewrite map_length; lia). rewrite (map_nth (rmul O c)). reflexivity.
    - rewrite !nth_overflow by (rewrite ?map_length; lia). symmetry. apply (mul_0_r O req RL).
  Qed.

  Lemma fold_scale (g' g : nat -> R) l x' x :
    (forall i, g' i == c * g i) -> x' == c * x ->
    fold_left (fun d i => d + g' i) l x' == c * fold_left (fun d i => d + g i) l x.
  Proof.
    intros Hg. revert x' x. induction l as [|i l IH]; intros x' x Hx; simpl; [exact Hx|].
    apply IH. rewrite distr_l, Hx, Hg. reflexivity.
  Qed.

  Lemma delta_scale r' r a' a p :
    rel_c r' r -> rel_e a' a -> lwr_delta O r' a' p == c * lwr_delta O r a p.
  Proof.
    intros [_ Hr] [_ Ha]. unfold lwr_delta. apply fold_scale; [|apply Hr].
    intros i. rewrite Ha, Hr. apply mul_c_r.
  Qed.

  Lemma update_e (a' a b' b : list R) k' k p :
    rel_e a' a -> rel_e b' b -> k' == k ->
    rel_e (map (fun i => nth (i - 1) a' 0 - k' * nth (p - i) b' 0) (seq 1 p) ++ [ropp O k'])
          (map (fun i => nth (i - 1) a 0 - k * nth (p - i) b 0) (seq 1 p) ++ [ropp O k]).
  Proof.
    intros [_ Ha] [_ Hb] Hk. split.
    - rewrite !app_length, !map_length. reflexivity.
    - intros i. rewrite !(nth_map_seq1 O).
      destruct (i <? p)%nat.
      + rewrite Ha, Hb, Hk. reflexivity.
      + destruct (i =? p)%nat; [rewrite Hk; reflexivity|reflexivity].
  Qed.

  Lemma step_scale r' r s' s p :
    rel_c r' r -> state_rel_c s' s ->
    (let '(_, _, sigf, sigb) := s in inv sigf * sigf == 1 /\ inv sigb * sigb == 1) ->
    state_rel_c (lwr_step O r' s' p) (lwr_step O r s p).
  Proof.
    intros Hr. destruct s' as [[[a' b'] sf'] sb'], s as [[[a b] sf] sb].
    intros (Ha & Hb & Hf & Hb') (Hif & Hib).
    assert (Hd := delta_scale r' r a' a p Hr Ha).
    assert (Hka : lwr_delta O r' a' p * inv sb' == lwr_delta O r a p * inv sb).
    { rewrite Hd, Hb', (inv_scale sb Hib). apply scale_cancel. }
    assert (Hkb : tr (lwr_delta O r' a' p) * inv sf' == tr (lwr_delta O r a p) * inv sf).
    { rewrite Hd, Hf, (inv_scale sf Hif). rewrite (rl_tr_mul O req RL), tr_c, <- c_central. apply scale_cancel. }
    unfold lwr_step, state_rel_c. split; [|split; [|split]].
    - apply update_e; assumption.
    - apply update_e; assumption.
    - rewrite Hka, Hkb, Hf. apply mul_c_r.
    - rewrite Hka, Hkb, Hb'. apply mul_c_r.
  Qed.

  Lemma run_scale r' r P :
    rel_c r' r -> steps_ok O req r P ->
    forall n, (n <= P)%nat -> state_rel_c (lwr_run O r' n) (lwr_run O r n).
  Proof.
    intros Hr Hok. induction n; intros Hn.
    - unfold lwr_run, lwr_init. simpl. destruct Hr as [_ Hr].
      repeat split; try reflexivity; apply Hr.
    - rewrite !(lwr_run_S O). apply step_scale; [assumption|apply IHn; lia|].
      specialize (Hok n). destruct (lwr_run O r n) as [[[a b] sf] sb]. apply Hok. lia.
  Qed.

  Theorem lwr_scale_equivariant_lemma r P :
    length r = S P -> steps_ok O req r P ->
    let '(a', sigma') := lwr_recursion O (map (rmul O c) r) in
    let '(a, sigma) := lwr_recursion O r in
    length a' = length a /\ (forall i, nth i a' 0 == nth i a 0) /\ sigma' == c * sigma.
  Proof.
    intros L Hok. unfold lwr_recursion. rewrite map_length, L. simpl Nat.sub. rewrite Nat.sub_0_r.
    pose proof (run_scale (map (rmul O c) r) r P (rel_c_map r) Hok P (le_n P)) as H.
    destruct (lwr_run O (map (rmul O c) r) P) as [[[a' b'] sf'] sb'].
    destruct (lwr_run O r P) as [[[a b] sf] sb].
    destruct H as ([La Ha] & _ & Hf & _). auto.
  Qed.
End Scale.

(* ------------------------------------------------------------------ matrices: a non-zero scalar *)
Open Scope Q_scope.
Definition mscal (n : nat) (q : Q) : mat := mtab n (fun i j => if Nat.eqb i j then q else 0).

Lemma mscal_get n q i j : (i < n)%nat -> (j < n)%nat -> mget (mscal n q) i j = if Nat.eqb i j then q else 0.
Proof. intros. unfold mscal. rewrite mget_mtab by assumption. reflexivity. Qed.

Lemma mscal_mul_l n q A i j : (i < n)%nat -> (j < n)%nat ->
  mget (mmul n (mscal n q) A) i j == q * mget A i j.
Proof.
  intros Hi Hj. rewrite mmul_get by assumption.
  rewrite (sumn_ext _ (fun k => (if Nat.eqb i k then 1 else 0) * (q * mget A k j))).
  - apply (sumn_delta_l (fun k => q * mget A k j) n i Hi).
  - intros k Hk. rewrite mscal_get by assumption. destruct (Nat.eqb i k); ring.
Qed.
Lemma mscal_mul_r n q A i j : (i < n)%nat -> (j < n)%nat ->
  mget (mmul n A (mscal n q)) i j == q * mget A i j.
Proof.
  intros Hi Hj. rewrite mmul_get by assumption.
  rewrite (sumn_ext _ (fun k => (q * mget A i k) * (if Nat.eqb k j then 1 else 0))).
  - apply (sumn_delta_r (fun k => q * mget A i k) n j Hj).
  - intros k Hk. rewrite mscal_get by assumption. destruct (Nat.eqb k j); ring.
Qed.

Section ScaleMat.
  Variables (n : nat) (iv : mat -> mat) (q : Q).
  Hypothesis q_nz : ~ q == 0.

  Lemma mscal_central x : meq n (mmul n (mscal n q) x) (mmul n x (mscal n q)).
  Proof. intros i j Hi Hj. rewrite mscal_mul_l, mscal_mul_r by assumption. reflexivity. Qed.
  Lemma mscal_inv_central x : meq n (mmul n (mscal n (/ q)) x) (mmul n x (mscal n (/ q))).
  Proof. intros i j Hi Hj. rewrite mscal_mul_l, mscal_mul_r by assumption. reflexivity. Qed.
  Lemma mscal_inv_l : meq n (mmul n (mscal n (/ q)) (mscal n q)) (mid n).
  Proof.
    intros i j Hi Hj. rewrite mscal_mul_l, mscal_get, mid_get by assumption.
    destruct (Nat.eqb i j); [field; exact q_nz|ring].
  Qed.
  Lemma mscal_tr : meq n (mtr n (mscal n q)) (mscal n q).
  Proof. intros i j Hi Hj. rewrite mtr_get, !mscal_get by assumption. rewrite Nat.eqb_sym. reflexivity. Qed.

  (* the same data in other units: every lag multiplied by q <> 0 *)
  Theorem lwr_scale_equivariant_mat_lemma :
    Proper (meq n ==> meq n) iv ->
    (forall x, meq n (mmul n (iv x) x) (mid n) ->
               meq n (iv (mmul n (mscal n q) x)) (mmul n (mscal n (/ q)) (iv x))) ->
    forall r P, length r = S P -> steps_ok (mat_ops_with n iv) (meq n) r P ->
    let '(a', sigma') := lwr_recursion (mat_ops_with n iv) (map (mmul n (mscal n q)) r) in
    let '(a, sigma) := lwr_recursion (mat_ops_with n iv) r in
    length a' = length a /\
    (forall i, meq n (nth i a' (mzero n)) (nth i a (mzero n))) /\
    (forall i j, (i < n)%nat -> (j < n)%nat -> mget sigma' i j == q * mget sigma i j).
  Proof.
    intros Hiv Hsc r P L Hok.
    pose proof (lwr_scale_equivariant_lemma (mat_ops_with n iv) (meq n) (mat_ring_laws_with n iv)
                  (mscal n q) (mscal n (/ q)) mscal_central mscal_inv_central mscal_inv_l mscal_tr Hiv Hsc r P L Hok) as H.
    cbn [mat_ops_with rmul r0] in H.
    destruct (lwr_recursion (mat_ops_with n iv) (map (mmul n (mscal n q)) r)) as [a' s'].
    destruct (lwr_recursion (mat_ops_with n iv) r) as [a s].
    destruct H as (H1 & H2 & H3). split; [exact H1|]. split; [exact H2|].
    intros i j Hi Hj. rewrite (H3 i j Hi Hj). apply mscal_mul_l; assumption.
  Qed.
End ScaleMat.

(* 2 x 2 adjugate inverse satisfies the contract: (q x)^-1 = q^-1 x^-1 *)
Lemma minv2_scale q x : ~ q == 0 ->
  meq 2 (minv2 (mmul 2 (mscal 2 q) x)) (mmul 2 (mscal 2 (/ q)) (minv2 x)).
Proof.
  intros Hq i j Hi Hj. rewrite mscal_mul_l by assumption. rewrite !minv2_get by assumption. cbv zeta.
  set (a := mget x 0 0). set (b := mget x 0 1). set (c := mget x 1 0). set (d := mget x 1 1).
  assert (A00 : mget (mmul 2 (mscal 2 q) x) 0 0 == q * a) by (apply mscal_mul_l; lia).
  assert (A01 : mget (mmul 2 (mscal 2 q) x) 0 1 == q * b) by (apply mscal_mul_l; lia).
  assert (A10 : mget (mmul 2 (mscal 2 q) x) 1 0 == q * c) by (apply mscal_mul_l; lia).
  assert (A11 : mget (mmul 2 (mscal 2 q) x) 1 1 == q * d) by (apply mscal_mul_l; lia).
  assert (E : q * a * (q * d) - q * b * (q * c) == q * q * (a * d - b * c)) by ring.
  destruct (Qeq_dec (a * d - b * c) 0) as [HD|HD].
  - assert (E0 : q * a * (q * d) - q * b * (q * c) == 0) by (rewrite E, HD; ring).
    destruct i as [|[|i]]; [| |lia]; destruct j as [|[|j]]; try lia; cbn [Nat.eqb];
      rewrite A00, A01, A10, A11; unfold Qdiv; rewrite E0, HD; change (/ 0) with 0; ring.
  - destruct i as [|[|i]]; [| |lia]; destruct j as [|[|j]]; try lia; cbn [Nat.eqb];
      rewrite A00, A01, A10, A11; rewrite E; field; split; assumption.
Qed.

(* one channel: hypothesis-free apart from q <> 0 and the invertibility guard *)
Theorem lwr_scale_equivariant_scalar_lemma (q : Q) r P :
  ~ q == 0 -> length r = S P -> steps_ok q_ops Qeq r P ->
  let '(a', sigma') := lwr_recursion q_ops (map (rmul q_ops q) r) in
  let '(a, sigma) := lwr_recursion q_ops r in
  length a' = length a /\ (forall i, nth i a' 0 == nth i a 0) /\ sigma' == q * sigma.
Proof.
  intros Hq L Hok.
  assert (H := lwr_scale_equivariant_lemma q_ops Qeq q_ring_laws q (/ q)).
  cbn [q_ops rmul rtr rinv r0 r1] in H.
  assert (H' := H
    (fun x => ltac:(rewrite !Qred_correct; ring))
    (fun x => ltac:(rewrite !Qred_correct; ring))
    ltac:(rewrite Qred_correct; field; exact Hq)
    ltac:(reflexivity)
    Qinv_comp
    (fun x _ => ltac:(rewrite !Qred_correct; apply Qinv_mult_distr))
    r P L Hok).
  cbn [q_ops rmul] in *.
  destruct (lwr_recursion q_ops (map (fun b => Qred (q * b)) r)) as [a' s'].
  destruct (lwr_recursion q_ops r) as [a s].
  destruct H' as (H1 & H2 & H3). repeat split; auto. rewrite H3. apply Qred_correct.
Qed.
