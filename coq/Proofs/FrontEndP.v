(* Proofs/FrontEndP.v — lemmas about Model/FrontEnd.v (C15) *)
From Coq Require Import ZArith List Bool QArith Qfield Lia PrimFloat.
From NT Require Import F2Z TimeArray FrontEnd.
Import ListNotations.
Open Scope Z_scope.

(* ================================================================== exact arithmetic (Q) *)
Section Ideal.
Open Scope Q_scope.

Lemma qfactor_nz u : ~ inject_Z (factor u) == 0.
Proof. destruct u; vm_compute; discriminate. Qed.

Definition hz_of_ps (dt : Q) : Q := inject_Z (factor Us) / dt.

(* Frequency(1/x, u) = 10^12 / (x * factor u): the rate in Hz is 10^12 over the interval in ps *)
Lemma rate_of_interval_Q x u : ~ x == 0 ->
  rate_of_interval_g QA x u == hz_of_ps (ps_of_g QA x u).
Proof.
  intros Hx. unfold rate_of_interval_g, freq_new_g, scale_g, ps_of_g, hz_of_ps; simpl.
  pose proof (qfactor_nz u). field. split; assumption.
Qed.

(* the rate does not depend on the unit the interval is written in *)
Lemma fs_unit_free_Q x1 u1 x2 u2 : ~ x1 == 0 -> ~ x2 == 0 ->
  ps_of_g QA x1 u1 == ps_of_g QA x2 u2 ->
  rate_of_interval_g QA x1 u1 == rate_of_interval_g QA x2 u2.
Proof.
  intros H1 H2 E. rewrite !rate_of_interval_Q by assumption. unfold hz_of_ps. rewrite E. reflexivity.
Qed.

(* rate recomputed from a TimeArray interval: 10^12 / dt whatever the unit of the TimeArray *)
Lemma rate_of_ps_Q dt u : ~ dt == 0 -> rate_of_ps_g QA dt u == hz_of_ps dt.
Proof.
  intros Hd. unfold rate_of_ps_g, freq_new_g, scale_g, hz_of_ps; simpl.
  pose proof (qfactor_nz u). field. split; assumption.
Qed.

(* rate -> period is the inverse of interval -> rate *)
Lemma period_roundtrip_Q x u : ~ x == 0 ->
  period_g QA (rate_of_interval_g QA x u) == ps_of_g QA x u.
Proof.
  intros Hx. unfold period_g, rate_of_interval_g, freq_new_g, scale_g, ps_of_g; simpl.
  pose proof (qfactor_nz u). pose proof (qfactor_nz Us). pose proof (qfactor_nz Ups).
  field. repeat split; assumption.
Qed.

Lemma period_of_rate_Q r : ~ r == 0 ->
  period_g QA (freq_new_g QA r Us) == hz_of_ps r.
Proof.
  intros Hr. unfold period_g, freq_new_g, scale_g, hz_of_ps; simpl.
  pose proof (qfactor_nz Us). pose proof (qfactor_nz Ups). field. repeat split; assumption.
Qed.

(* period -> number in unit v -> picoseconds is the identity *)
Lemma interval_roundtrip_Q p v : ps_of_g QA (interval_of_period_g QA p v) v == p.
Proof.
  unfold ps_of_g, interval_of_period_g; simpl. pose proof (qfactor_nz v). field. assumption.
Qed.

(* the whole hand-over chain interval(x,u) -> rate -> period -> interval in v -> ps *)
Lemma handover_chain_Q x u v : ~ x == 0 ->
  ps_of_g QA (interval_of_period_g QA (period_g QA (rate_of_interval_g QA x u)) v) v == ps_of_g QA x u.
Proof. intros Hx. rewrite interval_roundtrip_Q. apply period_roundtrip_Q, Hx. Qed.
End Ideal.

(* ================================================================== descriptors *)
Definition rate_ok (s : series) : Prop :=
  rate_to_dt (s_fs s) (ax_unit (s_axis s)) = Some (ax_dt (s_axis s)).
Definition rate_okb (s : series) : bool :=
  match rate_to_dt (s_fs s) (ax_unit (s_axis s)) with
  | Some d => d =? ax_dt (s_axis s)
  | None => false
  end.

Lemma rate_okb_spec s : rate_okb s = true <-> rate_ok s.
Proof.
  unfold rate_okb, rate_ok. destruct (rate_to_dt _ _) as [d|]; split; intros H; try discriminate.
  - apply Z.eqb_eq in H. subst. reflexivity.
  - inversion H; subst. apply Z.eqb_refl.
Qed.

(* whatever the float steps do, a rate hand-over keeps t0, unit, number of samples and the rate *)
Lemma same_axis_rate_keeps s s' : same_axis_rate s = Some s' ->
  ax_t0 (s_axis s') = ax_t0 (s_axis s) /\ ax_unit (s_axis s') = ax_unit (s_axis s) /\
  ax_n (s_axis s') = ax_n (s_axis s) /\ s_fs s' = s_fs s /\
  rate_to_dt (s_fs s) (ax_unit (s_axis s)) = Some (ax_dt (s_axis s')).
Proof.
  unfold same_axis_rate, ts_rate. destruct (rate_to_dt _ _) as [d|]; [|discriminate].
  intros H; inversion H; subst; simpl. auto.
Qed.

Lemma same_axis_rate_ok s : rate_ok s -> same_axis_rate s = Some s.
Proof.
  unfold rate_ok, same_axis_rate, ts_rate. intros ->. destruct s as [[t0 dt u n] fs]; reflexivity.
Qed.

Lemma iter_same_ok k s : rate_ok s -> iter_opt same_axis_rate k s = Some s.
Proof.
  intros H. induction k as [|k IH]; simpl; [reflexivity|]. rewrite same_axis_rate_ok by exact H. exact IH.
Qed.

(* outputs that hand the rate over: same axis, same rate *)
Lemma out_rate_ok o s : rate_ok s ->
  match o with ONorm | OAnalytic | ODerived | OFilt | OSnr | OFir _ => True | _ => False end ->
  out_series o s = Some s.
Proof.
  intros H Ho. destruct o; try contradiction; simpl.
  - apply same_axis_rate_ok, H.
  - apply same_axis_rate_ok, H.
  - rewrite same_axis_rate_ok by exact H. apply same_axis_rate_ok, H.
  - apply same_axis_rate_ok, H.
  - rewrite same_axis_rate_ok by exact H. apply iter_same_ok, H.
  - apply same_axis_rate_ok, H.
Qed.

(* without the consistency hypothesis: t0, unit, n and the rate are still the input's *)
Lemma iter_same_keeps k : forall s s', iter_opt same_axis_rate k s = Some s' ->
  ax_t0 (s_axis s') = ax_t0 (s_axis s) /\ ax_unit (s_axis s') = ax_unit (s_axis s) /\
  ax_n (s_axis s') = ax_n (s_axis s) /\ s_fs s' = s_fs s.
Proof.
  induction k as [|k IH]; simpl; intros s s' H.
  - inversion H; subst; auto.
  - destruct (same_axis_rate s) as [b|] eqn:E; [|discriminate].
    apply same_axis_rate_keeps in E as (E1 & E2 & E3 & E4 & _).
    apply IH in H as (H1 & H2 & H3 & H4). rewrite H1, H2, H3, H4. auto.
Qed.

Lemma out_rate_keeps o s s' :
  match o with ONorm | OAnalytic | ODerived | OFilt | OSnr | OFir _ => True | _ => False end ->
  out_series o s = Some s' ->
  ax_t0 (s_axis s') = ax_t0 (s_axis s) /\ ax_unit (s_axis s') = ax_unit (s_axis s) /\
  ax_n (s_axis s') = ax_n (s_axis s) /\ s_fs s' = s_fs s.
Proof.
  intros Ho H. destruct o; try contradiction; simpl in H.
  - apply (iter_same_keeps 1 s s'). simpl. rewrite H. reflexivity.
  - apply (iter_same_keeps 1 s s'). simpl. rewrite H. reflexivity.
  - apply (iter_same_keeps 2 s s'). simpl. destruct (same_axis_rate s); [|discriminate]. rewrite H. reflexivity.
  - apply (iter_same_keeps 1 s s'). simpl. rewrite H. reflexivity.
  - apply (iter_same_keeps (S passes) s s'). exact H.
  - apply (iter_same_keeps 1 s s'). simpl. rewrite H. reflexivity.
Qed.

(* ------------------------------------------------------------------ correlation: the lag axis *)
Lemma out_xcorr_axis s :
  exists fs', out_series OXcorr s =
    Some (mk_series (mk_axis (- ax_dt (s_axis s) * (ax_n (s_axis s) - 1)) (ax_dt (s_axis s))
                             (ax_unit (s_axis s)) (2 * ax_n (s_axis s) - 1)) fs').
Proof. eexists. reflexivity. Qed.

Lemma xcorr_zero_lag s s' : out_series OXcorr s = Some s' ->
  axis_time (s_axis s') (zero_lag_index (ax_n (s_axis s))) = 0.
Proof.
  simpl. unfold ts_interval. intros H; inversion H; subst; clear H.
  unfold axis_time, zero_lag_index; simpl. ring.
Qed.

(* lag k - (n-1) is labelled (k - (n-1)) * dt: symmetric about the zero-lag sample *)
Lemma xcorr_lag_labels s s' k : out_series OXcorr s = Some s' ->
  axis_time (s_axis s') k = (k - zero_lag_index (ax_n (s_axis s))) * ax_dt (s_axis s) /\
  ax_dt (s_axis s') = ax_dt (s_axis s) /\ ax_unit (s_axis s') = ax_unit (s_axis s) /\
  ax_n (s_axis s') = 2 * ax_n (s_axis s) - 1.
Proof.
  simpl. unfold ts_interval. intros H; inversion H; subst; clear H.
  unfold axis_time, zero_lag_index; simpl. repeat split. ring.
Qed.

(* ------------------------------------------------------------------ event-locked outputs *)
Lemma out_ev_interval_axis s offset n_out :
  exists fs', out_series (OEvInterval offset n_out) s =
    Some (mk_series (mk_axis (offset * ax_dt (s_axis s)) (ax_dt (s_axis s)) (ax_unit (s_axis s)) n_out) fs').
Proof. eexists. reflexivity. Qed.

Lemma out_ev_rate_axis s offset n_out : rate_ok s ->
  out_series (OEvRate offset n_out) s =
    Some (mk_series (mk_axis (offset * ax_dt (s_axis s)) (ax_dt (s_axis s)) (ax_unit (s_axis s)) n_out) (s_fs s)).
Proof. unfold rate_ok. simpl. unfold ts_rate. intros ->. reflexivity. Qed.

Lemma ev_time_labels s s' offset n_out k :
  out_series (OEvInterval offset n_out) s = Some s' \/
  (rate_ok s /\ out_series (OEvRate offset n_out) s = Some s') ->
  axis_time (s_axis s') k = (offset + k) * ax_dt (s_axis s) /\
  ax_dt (s_axis s') = ax_dt (s_axis s) /\ ax_unit (s_axis s') = ax_unit (s_axis s) /\
  ax_n (s_axis s') = n_out.
Proof.
  intros [H|[Hr H]].
  - simpl in H. unfold ts_interval in H. inversion H; subst; clear H.
    unfold axis_time; simpl. repeat split. ring.
  - rewrite out_ev_rate_axis in H by exact Hr. inversion H; subst; clear H.
    unfold axis_time; simpl. repeat split. ring.
Qed.

(* ================================================================== concatenation *)
Section DataP.
Context {A : Type}.
Notation rows := (@rows A).

Definition row_of (blocks : list rows) (i : nat) : list A :=
  concat (map (fun b => nth i b []) blocks).

Lemma hcat2_length (a b : rows) : length a = length b -> length (hcat2 a b) = length a.
Proof.
  revert b; induction a as [|ra a IH]; intros [|rb b] H; simpl in *; try discriminate; auto.
Qed.

Lemma hcat2_nth (a b : rows) i : length a = length b ->
  nth i (hcat2 a b) [] = nth i a [] ++ nth i b [].
Proof.
  revert b i; induction a as [|ra a IH]; intros [|rb b] i H; simpl in *; try discriminate.
  - destruct i; reflexivity.
  - destruct i; [reflexivity|]. apply IH. lia.
Qed.

Lemma hcat_length (first : rows) rest :
  Forall (fun b => length b = length first) rest -> length (hcat first rest) = length first.
Proof.
  revert first; induction rest as [|b rest IH]; intros first H; simpl; [reflexivity|].
  inversion H as [|? ? Hb Hr]; subst.
  rewrite IH; [apply hcat2_length; lia|].
  rewrite hcat2_length by lia. exact Hr.
Qed.

(* row i of the concatenation = the rows i of all blocks appended in order *)
Lemma hcat_rows (first : rows) rest i :
  Forall (fun b => length b = length first) rest ->
  nth i (hcat first rest) [] = row_of (first :: rest) i.
Proof.
  revert first; induction rest as [|b rest IH]; intros first H; unfold row_of; simpl.
  - rewrite app_nil_r. reflexivity.
  - inversion H as [|? ? Hb Hr]; subst.
    rewrite IH by (rewrite hcat2_length by lia; exact Hr).
    unfold row_of; simpl. rewrite hcat2_nth by lia. rewrite app_assoc. reflexivity.
Qed.

(* sample j of block k sits after all samples of the earlier blocks *)
Lemma concat_block_nth (ls : list (list A)) : forall k j d,
  (k < length ls)%nat -> (j < length (nth k ls []))%nat ->
  nth (length (concat (firstn k ls)) + j) (concat ls) d = nth j (nth k ls []) d.
Proof.
  induction ls as [|l ls IH]; intros k j d Hk Hj; simpl in *; [lia|].
  destruct k as [|k]; simpl.
  - rewrite app_nth1 by exact Hj. reflexivity.
  - rewrite app_length, <- Nat.add_assoc, app_nth2_plus. apply IH; [lia|exact Hj].
Qed.

Lemma concat_length_sum (ls : list (list A)) :
  length (concat ls) = fold_right (fun l acc => (length l + acc)%nat) 0%nat ls.
Proof. induction ls as [|l ls IH]; simpl; [reflexivity|]. rewrite app_length, IH. reflexivity. Qed.

(* ================================================================== selection *)
Notation volume := (@volume A).

Lemma nth_opt_spec {B} (l : list B) i b : nth_opt l i = Some b ->
  0 <= i /\ nth_error l (Z.to_nat i) = Some b.
Proof. unfold nth_opt. destruct (i <? 0) eqn:E; [discriminate|]. apply Z.ltb_ge in E. auto. Qed.

Lemma vol_at_spec (v : volume) x y z r : vol_at v (x, y, z) = Some r ->
  0 <= x /\ 0 <= y /\ 0 <= z /\
  exists p q, nth_error v (Z.to_nat x) = Some p /\ nth_error p (Z.to_nat y) = Some q /\
              nth_error q (Z.to_nat z) = Some r.
Proof.
  unfold vol_at. destruct (nth_opt v x) as [p|] eqn:Ex; [|discriminate].
  destruct (nth_opt p y) as [q|] eqn:Ey; [|discriminate]. intros Ez.
  apply nth_opt_spec in Ex as [? ?], Ey as [? ?], Ez as [? ?].
  repeat split; try assumption. exists p, q. auto.
Qed.

Lemma select_length (v : volume) cs r : select v cs = Some r -> length r = length cs.
Proof.
  revert r; induction cs as [|c cs IH]; simpl; intros r H.
  - inversion H; reflexivity.
  - destruct (vol_at v c); [|discriminate]. destruct (select v cs) as [rs|]; [|discriminate].
    inversion H; subst; simpl. f_equal. apply IH. reflexivity.
Qed.

(* the i-th row is the time course of the i-th requested voxel *)
Lemma select_nth (v : volume) cs r : select v cs = Some r ->
  forall i c, nth_error cs i = Some c ->
  exists row, nth_error r i = Some row /\ vol_at v c = Some row.
Proof.
  revert r; induction cs as [|c0 cs IH]; simpl; intros r H i c Hi.
  - destruct i; discriminate.
  - destruct (vol_at v c0) as [r0|] eqn:E0; [|discriminate].
    destruct (select v cs) as [rs|]; [|discriminate]. inversion H; subst.
    destruct i as [|i]; simpl in *.
    + inversion Hi; subst. exists r0. auto.
    + eapply IH; [reflexivity|exact Hi].
Qed.

Lemma select_defined (v : volume) cs :
  Forall (fun c => vol_at v c <> None) cs -> exists r, select v cs = Some r.
Proof.
  induction 1 as [|c cs Hc _ [rs IH]]; simpl; [eexists; reflexivity|].
  destruct (vol_at v c) as [r0|]; [|contradiction]. rewrite IH. eexists; reflexivity.
Qed.

Lemma opt_list_Forall2 {B C} (f : B -> option C) l r : opt_list (map f l) = Some r ->
  Forall2 (fun b c => f b = Some c) l r.
Proof.
  revert r; induction l as [|b l IH]; simpl; intros r H.
  - inversion H; constructor.
  - destruct (f b) as [c|] eqn:E; [|discriminate].
    destruct (opt_list (map f l)) as [r'|]; [|discriminate]. inversion H; subst.
    constructor; [exact E|apply IH; reflexivity].
Qed.

Lemma Forall2_length {B C} (P : B -> C -> Prop) l r : Forall2 P l r -> length l = length r.
Proof. induction 1; simpl; congruence. Qed.

(* the reader's data for one ROI: voxel i of the ROI = its time courses in every file, appended
   in file order *)
Lemma reader_data_spec (v0 : volume) vs cs r : reader_data v0 vs cs = Some r ->
  length r = length cs /\
  forall i c, nth_error cs i = Some c ->
  exists l, Forall2 (fun v row => vol_at v c = Some row) (v0 :: vs) l /\ nth i r [] = concat l.
Proof.
  unfold reader_data, obind. destruct (select v0 cs) as [r0|] eqn:E0; [|discriminate].
  destruct (opt_list _) as [rs|] eqn:Es; [|discriminate]. intros H; inversion H; subst; clear H.
  apply opt_list_Forall2 in Es.
  assert (Hlen : Forall (fun b => length b = length r0) rs).
  { clear - Es E0. apply select_length in E0. induction Es as [|v b vs rs Hb _ IH]; constructor; [|exact IH].
    apply select_length in Hb. lia. }
  split.
  - rewrite hcat_length by exact Hlen. eapply select_length; exact E0.
  - intros i c Hi. rewrite hcat_rows by exact Hlen. unfold row_of.
    exists (map (fun b => nth i b []) (r0 :: rs)). split; [|reflexivity].
    simpl. constructor.
    + destruct (select_nth _ _ _ E0 i c Hi) as (row & Hr & Hv). rewrite Hv. f_equal.
      symmetry. apply nth_error_nth. exact Hr.
    + clear - Es Hi. induction Es as [|v b vs rs Hb _ IH]; simpl; constructor; [|exact IH].
      destruct (select_nth _ _ _ Hb i c Hi) as (row & Hr & Hv). rewrite Hv. f_equal.
      symmetry. apply nth_error_nth. exact Hr.
Qed.

Lemma reader_rois_spec (v0 : volume) vs rois out : reader_data_rois v0 vs rois = Some out ->
  Forall2 (fun roi r => reader_data v0 vs roi = Some r) rois out.
Proof. apply opt_list_Forall2. Qed.
End DataP.

(* ================================================================== axis of concatenation / reader *)
Definition sum_n (first : series) (rest : list series) : Z :=
  ax_n (s_axis first) + fold_right (fun s acc => ax_n (s_axis s) + acc) 0 rest.

Lemma fold_left_n rest acc :
  fold_left (fun a s => a + ax_n (s_axis s)) rest acc =
  acc + fold_right (fun s a => ax_n (s_axis s) + a) 0 rest.
Proof.
  revert acc; induction rest as [|s rest IH]; intros acc; simpl; [ring|]. rewrite IH. ring.
Qed.

Lemma concat_axis_spec first rest s : concat_axis first rest = Some s ->
  ax_t0 (s_axis s) = 0 /\ ax_dt (s_axis s) = ax_dt (s_axis (last rest first)) /\
  ax_n (s_axis s) = sum_n first rest /\
  forall k, axis_time (s_axis s) k = k * ax_dt (s_axis (last rest first)).
Proof.
  unfold concat_axis, ts_interval. intros H; inversion H; subst; clear H; simpl.
  repeat split. apply fold_left_n.
Qed.

Lemma tr_series_time ps u n s : tr_series (TRtime ps u) n = Some s ->
  ax_dt (s_axis s) = ps /\ ax_t0 (s_axis s) = 0 /\ ax_n (s_axis s) = n.
Proof. simpl. unfold ts_interval. intros H; inversion H; subst; auto. Qed.

Lemma tr_series_float x n s : tr_series (TRfloat x) n = Some s ->
  ta_float x Us = Some (ax_dt (s_axis s)) /\ ax_t0 (s_axis s) = 0 /\ ax_n (s_axis s) = n /\
  ax_unit (s_axis s) = Us.
Proof.
  simpl. destruct (ta_float x Us) as [dt|]; [|discriminate].
  destruct (ta_float (z2f 0) Us) as [t|] eqn:E; [|discriminate].
  intros H; inversion H; subst; simpl. repeat split.
Qed.

(* the helper keeps the axis of TimeSeries(data, sampling_interval=TR) through filter and
   normalisation, provided the rate hand-over is consistent *)
Lemma helper_axis_ok tr f nm n s0 : tr_series tr n = Some s0 -> rate_ok s0 ->
  helper_axis tr f nm n = Some s0.
Proof.
  intros E H. unfold helper_axis, obind. rewrite E.
  assert (Hf : match f with FNone => Some s0 | FOther => out_series OFilt s0
                          | FFir p => out_series (OFir p) s0 end = Some s0).
  { destruct f; [reflexivity| |]; apply out_rate_ok; simpl; auto. }
  rewrite Hf. destruct nm; [reflexivity|]. apply out_rate_ok; simpl; auto.
Qed.

Lemma opt_list_all_same {B} (f : Z -> option B) (g : Z -> B) ns :
  (forall n, f n = Some (g n)) -> opt_list (map f ns) = Some (map g ns).
Proof. intros H. induction ns as [|n ns IH]; simpl; [reflexivity|]. rewrite H, IH. reflexivity. Qed.

(* several files, TR given as a time object, no filter/normalisation: interval = TR exactly, start 0,
   number of samples = the sum over the files *)
Lemma reader_axis_multi_time ps u n ns s :
  reader_axis false (TRtime ps u) FNone NNone (n :: ns) = Some s ->
  ax_dt (s_axis s) = ps /\ ax_t0 (s_axis s) = 0 /\
  ax_n (s_axis s) = n + fold_right Z.add 0 ns.
Proof.
  unfold reader_axis, helper_axis, obind; simpl tr_series. unfold ts_interval.
  rewrite (opt_list_all_same _ (fun m => mk_series (mk_axis 0 ps Us m) (rate_of_ps_g FA (z2f ps) u)))
    by (intros; reflexivity).
  intros H. apply concat_axis_spec in H as (H0 & Hd & Hn & _).
  repeat split; [|exact H0|].
  - rewrite Hd. clear. set (f := fun m => _). set (s0 := mk_series _ _).
    assert (G : forall (l : list series) d, ax_dt (s_axis d) = ps ->
                Forall (fun x => ax_dt (s_axis x) = ps) l -> ax_dt (s_axis (last l d)) = ps).
    { induction l as [|a l IH]; intros d Hd Hl; simpl; [exact Hd|].
      inversion Hl as [|? ? Ha Hl']. destruct l; [exact Ha|]. apply IH; assumption. }
    apply G; [reflexivity|]. clear. induction ns; simpl; constructor; [reflexivity|assumption].
  - rewrite Hn. unfold sum_n; simpl. f_equal. clear. induction ns as [|m ns IH]; simpl; [reflexivity|].
    rewrite IH. reflexivity.
Qed.

Lemma reader_axis_single tr f nm n : reader_axis true tr f nm [n] = helper_axis tr f nm n.
Proof. reflexivity. Qed.

(* ================================================================== the keyword table *)
Lemma iter_opt_ext {A} (f g : A -> option A) k : (forall x, f x = g x) ->
  forall a, iter_opt f k a = iter_opt g k a.
Proof.
  intros H. induction k as [|k IH]; intros a; simpl; [reflexivity|]. rewrite H.
  destruct (g a); [apply IH|reflexivity].
Qed.

(* every output is the constructor call(s) described by its row of the table *)
Lemma out_series_is_construct o s :
  out_series o s =
  iter_opt (fun x => construct (handover_of o) x (out_t0 o (s_axis x)) (out_n o (s_axis x))) (out_calls o) s.
Proof.
  destruct o; simpl; unfold construct, same_axis_rate; simpl;
    try (destruct (ts_rate _ _ _ _); reflexivity); try reflexivity.
  destruct (ts_rate _ _ _ _) as [b|]; [|reflexivity]. destruct (ts_rate _ _ _ _); reflexivity.
Qed.

(* a call that passes the rate (consistent) or the interval, t0 and the unit builds exactly the axis
   (t0, input interval, input unit, n) *)
Lemma construct_keeps h s t0 n :
  ho_t0 h = true -> ho_unit h = true ->
  (ho_rate h = true /\ rate_ok s) \/ (ho_rate h = false /\ ho_interval h = true) ->
  exists fs', construct h s t0 n =
    Some (mk_series (mk_axis t0 (ax_dt (s_axis s)) (ax_unit (s_axis s)) n) fs').
Proof.
  intros Ht Hu [[Hr Hok]|[Hr Hi]]; unfold construct; rewrite Ht, Hu, Hr.
  - unfold ts_rate. unfold rate_ok in Hok. rewrite Hok. eexists; reflexivity.
  - rewrite Hi. unfold ts_interval. eexists; reflexivity.
Qed.

(* … and a call that leaves t0= / time_unit= out restarts at 0 / is labelled in seconds: these are
   exactly the defects repaired by the C15 fix commits *)
Lemma construct_without_t0 h s t0 n s' : ho_t0 h = false -> construct h s t0 n = Some s' ->
  ax_t0 (s_axis s') = 0.
Proof.
  unfold construct. intros ->. destruct (ho_rate h).
  - unfold ts_rate. destruct (rate_to_dt _ _); [|discriminate]. intros H; inversion H; reflexivity.
  - destruct (ho_interval h); [|discriminate]. unfold ts_interval. intros H; inversion H; reflexivity.
Qed.
Lemma construct_without_unit h s t0 n s' : ho_unit h = false -> construct h s t0 n = Some s' ->
  ax_unit (s_axis s') = Us.
Proof.
  unfold construct. intros ->. destruct (ho_rate h).
  - unfold ts_rate. destruct (rate_to_dt _ _); [|discriminate]. intros H; inversion H; reflexivity.
  - destruct (ho_interval h); [|discriminate]. unfold ts_interval. intros H; inversion H; reflexivity.
Qed.

Lemma handover_complete o : ho_t0 (handover_of o) = true /\ ho_unit (handover_of o) = true /\
  (ho_rate (handover_of o) = true \/ (ho_rate (handover_of o) = false /\ ho_interval (handover_of o) = true)).
Proof. destruct o; simpl; auto. Qed.

(* ================================================================== re-use histories *)
(* Whatever happened before (any world w), a read of a SpectralAnalyzer hands the algorithm layer the
   rate of the analyzer's CURRENT input. *)
Lemma spectral_read_current w a r an :
  nth_error (w_ans w) a = Some an -> an_cls an = ASpectral -> attr_of ASpectral r = true ->
  snd (step w (OpRead a r)) = Some (s_fs (an_input an), ax_dt (s_axis (an_input an))).
Proof.
  intros Ha Hc Hr. simpl. rewrite Ha, Hc, Hr. destruct r; try discriminate; reflexivity.
Qed.

Lemma set_nth_same {A} (l : list A) i x y : nth_error l i = Some y -> nth_error (set_nth l i x) i = Some x.
Proof.
  revert i; induction l as [|z l IH]; intros [|i] H; simpl in *; try discriminate; auto.
Qed.
Lemma set_nth_other {A} (l : list A) i j x : i <> j -> nth_error (set_nth l i x) j = nth_error l j.
Proof.
  revert i j; induction l as [|z l IH]; intros [|i] [|j] H; simpl; auto; try congruence.
Qed.

(* the current input is the one given to the last set_input (or to the constructor) *)
Lemma set_input_sets w a s an : nth_error (w_ans w) a = Some an ->
  nth_error (w_ans (fst (step w (OpSetInput a s)))) a = Some (mk_an (an_cls an) (an_dict an) s).
Proof. intros Ha. simpl. rewrite Ha. simpl. eapply set_nth_same, Ha. Qed.

Lemma step_keeps_inputs w o b an : nth_error (w_ans w) b = Some an ->
  (forall s, o <> OpSetInput b s) ->
  nth_error (w_ans (fst (step w o))) b = Some an.
Proof.
  intros Hb Hne. destruct o as [fs|c [d|] s|a s|a r]; simpl.
  - exact Hb.
  - rewrite nth_error_app1; [exact Hb|]. apply nth_error_Some. congruence.
  - rewrite nth_error_app1; [exact Hb|]. apply nth_error_Some. congruence.
  - destruct (nth_error (w_ans w) a) as [an'|] eqn:Ea; simpl; [|exact Hb].
    rewrite set_nth_other; [exact Hb|]. intros ->. apply (Hne s). reflexivity.
  - destruct (nth_error (w_ans w) a) as [an'|]; [|exact Hb].
    destruct (attr_of (an_cls an') r); [|exact Hb].
    destruct (an_cls an'), r; simpl; try exact Hb;
      destruct (nth_error (w_dicts w) (an_dict an')) as [[f|]|]; simpl; exact Hb.
Qed.

(* so: construct on A, (read anything, build other analyzers on shared dicts, ...), set_input B, then
   read: a SpectralAnalyzer uses B's rate *)
Lemma spectral_after_set_input w a sB an r :
  nth_error (w_ans w) a = Some an -> an_cls an = ASpectral -> attr_of ASpectral r = true ->
  snd (step (fst (step w (OpSetInput a sB))) (OpRead a r)) = Some (s_fs sB, ax_dt (s_axis sB)).
Proof.
  intros Ha Hc Hr.
  rewrite (spectral_read_current _ a r (mk_an (an_cls an) (an_dict an) sB)); auto.
  apply set_input_sets, Ha.
Qed.

(* ================================================================== events object: sample index *)
Lemma event_sample_on_grid k dt : 0 < dt -> event_sample (k * dt) dt = k.
Proof. intros H. unfold event_sample. apply Z.div_mul. lia. Qed.

Lemma event_sample_bin ev dt : 0 < dt ->
  event_sample ev dt * dt <= ev < (event_sample ev dt + 1) * dt.
Proof.
  intros H. unfold event_sample. pose proof (Z.div_mod ev dt ltac:(lia)). pose proof (Z.mod_pos_bound ev dt H). nia.
Qed.
