(* Proofs/FilterFloat.v — the float64 step behind FilterAnalyzer.fir / .iir (property C18):
   the fraction of Nyquist is computed as ub / (Fs / 2.); for ub equal to the Nyquist frequency Fs / 2. this
   quotient is EXACTLY 1.0 (x / x = 1 in IEEE binary64 for every finite non-zero x), which is what the
   branches `ub_frac < 1`, `ub_frac == 1` of the code rely on.

   The only file of the C18 development that uses real numbers and Flocq (through Proofs/RateBound.v of C02):
   Coq's Reals axioms and the standard-library float specification axioms (FloatAxioms.div_spec, Prim2SF_valid, ...)
   appear under Print Assumptions.  Nothing is declared here.  Model files import none of this. *)
From Coq Require Import ZArith QArith Reals Lia Lra Floats SpecFloat List Bool.
From Flocq Require Import Core BinarySingleNaN PrimFloat.
From NT Require Import F2Z TimeArray Filter FilterP RateBound.
Import ListNotations.

Section DivSelf.
Open Scope R_scope.

Lemma round_one : round radix2 (fexp prec emax) (round_mode mode_NE) 1 = 1.
Proof.
  apply round_generic; [apply valid_rnd_round_mode|].
  change 1 with (bpow radix2 0). apply generic_format_bpow.
  unfold fexp, FLT_exp, emin, prec, emax. simpl. lia.
Qed.

Lemma div_self_B x : B2R (Prim2B x) <> 0 ->
  B2R (Prim2B (PrimFloat.div x x)) = 1.
Proof.
  intros Hnz.
  pose proof (Bdiv_correct prec emax Hprec Hmax mode_NE (Prim2B x) (Prim2B x) Hnz) as Hd.
  replace (B2R (Prim2B x) / B2R (Prim2B x)) with 1 in Hd by (field; exact Hnz).
  rewrite round_one in Hd.
  rewrite Rlt_bool_true in Hd.
  2:{ rewrite Rabs_R1. change 1 with (bpow radix2 0). apply bpow_lt. reflexivity. }
  destruct Hd as (Hv & _). rewrite <- div_equiv in Hv. exact Hv.
Qed.

Lemma one_B : B2R (Prim2B 1%float) = 1.
Proof. rewrite <- f2R_B2R. unfold f2R. replace (f2ze 1%float) with (Some (4503599627370496%Z, (-52)%Z)) by (vm_compute; reflexivity).
  simpl. change (Z.pow_pos 2 52) with 4503599627370496%Z. field. Qed.

(* x / x = 1.0, as floats, for every finite non-zero x *)
Theorem div_self x : ffinite x = true -> f2R x <> 0 -> PrimFloat.div x x = 1%float.
Proof.
  intros _ Hnz. rewrite f2R_B2R in Hnz.
  pose proof (div_self_B x Hnz) as H1.
  assert (E : Prim2B (PrimFloat.div x x) = Prim2B 1%float).
  { apply B2R_inj.
    - apply is_finite_strict_B2R. rewrite H1. lra.
    - apply is_finite_strict_B2R. rewrite one_B. lra.
    - rewrite H1, one_B. reflexivity. }
  rewrite <- (B2Prim_Prim2B (PrimFloat.div x x)), E, B2Prim_Prim2B. reflexivity.
Qed.
End DivSelf.

Lemma f2R_nz x m e : f2ze x = Some (m, e) -> m <> 0%Z -> f2R x <> 0%R.
Proof.
  intros H Hm. unfold f2R. rewrite H.
  apply Rmult_integral_contrapositive_currified.
  - apply not_0_IZR. exact Hm.
  - apply Rgt_not_eq. apply bpow_gt_0.
Qed.
Lemma f2ze_ffinite x m e : f2ze x = Some (m, e) -> ffinite x = true.
Proof. intros H. unfold ffinite. rewrite H. reflexivity. Qed.

(* ub exactly at the Nyquist frequency Fs / 2. : the fraction of Nyquist is exactly 1.0, for EVERY sampling rate
   whose half is finite and non-zero *)
Theorem ub_nyquist_frac_one Fs m e : f2ze (half_f Fs) = Some (m, e) -> m <> 0%Z ->
  ub_frac_f Fs (Some (half_f Fs)) = 1%float.
Proof.
  intros H Hm. unfold ub_frac_f. apply div_self; [exact (f2ze_ffinite _ _ _ H)|exact (f2R_nz _ _ _ H Hm)].
Qed.

(* hence fir plans the same stages, and iir hands the same specification to iirdesign, as for ub = None *)
Theorem fir_plan_nyquist_is_none Fs lb order n m e : f2ze (half_f Fs) = Some (m, e) -> m <> 0%Z ->
  fir_plan_fl Fs lb (Some (half_f Fs)) order n = fir_plan_fl Fs lb None order n.
Proof. intros H Hm. unfold fir_plan_fl. rewrite (ub_nyquist_frac_one Fs m e H Hm). reflexivity. Qed.
Theorem iir_spec_nyquist_is_none Fs lb m e : f2ze (half_f Fs) = Some (m, e) -> m <> 0%Z ->
  iir_spec_fl Fs lb (Some (half_f Fs)) = iir_spec_fl Fs lb None.
Proof. intros H Hm. unfold iir_spec_fl. rewrite (ub_nyquist_frac_one Fs m e H Hm). reflexivity. Qed.

(* the hypotheses are met by sampling rates whose reciprocal is inexact (49 Hz; 1/0.72 s), and for these the
   algebraically equal product form ub * (2. / Fs) is NOT 1.0 *)
Lemma nyquist_examples :
  f2ze (half_f 49%float) = Some (6896136929411072%Z, (-48)%Z) /\
  PrimFloat.eqb (PrimFloat.mul (half_f 49%float) (PrimFloat.div 2 49)) 1 = false /\
  PrimFloat.eqb (PrimFloat.div (half_f 49%float) (half_f 49%float)) 1 = true /\
  (let Fs := PrimFloat.div 1 0x1.70a3d70a3d70ap-1%float in
   PrimFloat.eqb (PrimFloat.mul (half_f Fs) (PrimFloat.div 2 Fs)) 1 = false /\
   PrimFloat.eqb (PrimFloat.div (half_f Fs) (half_f Fs)) 1 = true).
Proof. vm_compute. repeat split; reflexivity. Qed.
